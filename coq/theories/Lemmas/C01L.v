(** * C01L: the algorithmic model of [rate] computes the published closed form [Spec.wl_update].

    Structure of the proof (for every kind):
    - [tr_of g e]: the team rating the code builds for the entry [e = (key, team)] of the game [g]
      (sums over the members; the dense rank = number of strictly better keys of [g]);
    - on any list [sg] that is a permutation of [g], [compute k P (map (tr_of g) sg)] is, team by
      team, the "value form" [post_val] of the closed form: sums over the whole game [g]
      (permutation invariant), the own term split off;
    - the sorted game of [rate_sorted] is such a list [sg] and its team ratings are [map (tr_of g) sg]
      (meaning of [calc_rankings] on the sorted keys, OrderL2);
    - [Spec]'s position-indexed sums equal the value form;
    - unsort with [rate_sorted_some]. *)
From Coq Require Import List ZArith Arith Bool Lia Permutation Reals Lra Sorted.
From OSV Require Import Num Order Gauss Core RInst Spec.
From OSV.Lemmas Require Import OrderL OrderL2 RateL SpecSumL.
Import ListNotations.
Open Scope R_scope.

Section C01.
Variables Phi Phiinv : R -> R.
(* the one instance all terms of this file are elaborated with: the very constant Spec.v uses *)
Local Hint Extern 0 (Num R) => exact (Spec.RN Phi Phiinv) : typeclass_instances.

Notation omega := (Spec.omega Phi Phiinv).
Notation delta := (Spec.delta Phi Phiinv).
Notation team_update := (Spec.team_update Phi Phiinv).
Notation wl_update_f := (Spec.wl_update_f Phi Phiinv).
Notation wl_update := (Spec.wl_update Phi Phiinv).
Notation tm_omega_term := (Spec.tm_omega_term Phi Phiinv).
Notation tm_delta_term := (Spec.tm_delta_term Phi Phiinv).

(** ** well-formed games and the meaning of ranks *)
Definition wfg (g : game) : Prop := Forall (fun e : entry => key_wf (fst e)) g.

Lemma rank_of_count g k : rank_of g k = count_less key_ltb (map fst g) k.
Proof. unfold rank_of, count_less. apply (filter_map_length fst (fun y => key_ltb y k)). Qed.

Lemma rank_of_perm g g' k : Permutation g g' -> rank_of g k = rank_of g' k.
Proof. intros P. unfold rank_of. now apply filter_length_perm. Qed.

Lemma wfg_keys g : wfg g -> Forall key_wf (map fst g).
Proof. unfold wfg. rewrite !Forall_forall. intros H k Hk. apply in_map_iff in Hk. destruct Hk as [e [<- He]]. auto. Qed.

Lemma rank_ltb g (ei eq : entry) : wfg g -> In ei g -> In eq g ->
  Nat.ltb (rank_of g (fst ei)) (rank_of g (fst eq)) = key_ltb (fst ei) (fst eq).
Proof.
  intros W Hi Hq. rewrite !rank_of_count.
  destruct (key_count_less_spec (map fst g) (fst ei) (fst eq) (wfg_keys g W) (in_map fst _ _ Hi) (in_map fst _ _ Hq)) as [H1 _].
  destruct (key_ltb (fst ei) (fst eq)).
  - apply Nat.ltb_lt. now apply H1.
  - apply Nat.ltb_ge. destruct (Nat.le_gt_cases (count_less key_ltb (map fst g) (fst eq)) (count_less key_ltb (map fst g) (fst ei))) as [G|G]; [exact G|].
    apply H1 in G. discriminate.
Qed.

Lemma rank_eqb g (ei eq : entry) : wfg g -> In ei g -> In eq g ->
  Nat.eqb (rank_of g (fst eq)) (rank_of g (fst ei)) = key_eqb (fst ei) (fst eq).
Proof.
  intros W Hi Hq. rewrite !rank_of_count.
  destruct (key_count_less_spec (map fst g) (fst ei) (fst eq) (wfg_keys g W) (in_map fst _ _ Hi) (in_map fst _ _ Hq)) as [_ H2].
  unfold key_eqb. destruct (Nat.eqb_spec (count_less key_ltb (map fst g) (fst eq)) (count_less key_ltb (map fst g) (fst ei))) as [E|E].
  - symmetry in E. apply H2 in E. destruct E as [-> ->]. reflexivity.
  - destruct (key_leb (fst ei) (fst eq)) eqn:E1, (key_leb (fst eq) (fst ei)) eqn:E2; try reflexivity.
    exfalso. apply E. symmetry. apply H2. auto.
Qed.

Lemma rank_leb g (ei eq : entry) : wfg g -> In ei g -> In eq g ->
  Nat.leb (rank_of g (fst eq)) (rank_of g (fst ei)) = key_leb (fst eq) (fst ei).
Proof.
  intros W Hi Hq. rewrite key_leb_negb_ltb, <- (rank_ltb g ei eq W Hi Hq).
  rewrite Nat.leb_antisym. reflexivity.
Qed.

(** ** the team rating built for an entry of the game *)
Definition tr_of (g : game) (e : entry) : trating R := team_rating (snd e) (rank_of g (fst e)).

Lemma tr_of_mu g e : t_mu (tr_of g e) = theta (snd e).
Proof. unfold tr_of, team_rating, theta. cbn [t_mu]. apply R_reduce_add. Qed.
Lemma tr_of_ss g e : t_ss (tr_of g e) = ssq (snd e).
Proof. unfold tr_of, team_rating, ssq. cbn [t_ss]. apply R_reduce_add. Qed.
Lemma tr_of_team g e : t_team (tr_of g e) = snd e.
Proof. reflexivity. Qed.
Lemma tr_of_rank g e : t_rank (tr_of g e) = rank_of g (fst e).
Proof. reflexivity. Qed.

Lemma gamma_of_tr_of P c g (sg : game) e : length sg = length g ->
  gamma_of P c (map (tr_of g) sg) (tr_of g e) = gamma_at P g c e.
Proof.
  intros L. unfold gamma_of, gamma_at, nteams. rewrite map_length, L, tr_of_mu, tr_of_ss. reflexivity.
Qed.

(** the per-team update of the code is the per-player split of the closed form *)
Lemma update_team_tr_of P g e od :
  update_team P (tr_of g e) od = map (player_update (p_kappa P) (ssq (snd e)) (fst od) (snd od)) (snd e).
Proof.
  unfold update_team. rewrite tr_of_team. apply map_ext. intros p.
  unfold update_player, player_update. rewrite tr_of_ss, R_fmax. reflexivity.
Qed.

(** ** value forms of Omega_i, Delta_i: sums over the whole game, own term split off
    (they depend on the game as a multiset only) *)
Definition full_sum (h : entry -> entry -> R) (g : game) (e : entry) : R :=
  Rsum (map (h e) g) - h e e.

Definition pl_omega_val (P : params R) (g : game) (e : entry) : R :=
  ssq (snd e) / pl_c P g *
  (Rsum (map (fun q : entry => (0 - pl_p P g (snd e) (fst q)) / pl_A g (fst q))
             (filter (fun q : entry => key_leb (fst q) (fst e)) g))
   + / pl_A g (fst e)).
Definition pl_delta_val (P : params R) (g : game) (e : entry) : R :=
  gamma_at P g (pl_c P g) e * (ssq (snd e) / (pl_c P g * pl_c P g)) *
  Rsum (map (fun q : entry => pl_p P g (snd e) (fst q) * (1 - pl_p P g (snd e) (fst q)) / pl_A g (fst q))
            (filter (fun q : entry => key_leb (fst q) (fst e)) g)).

Definition omega_val (k : kind) (P : params R) (g : game) (e : entry) : R :=
  match k with
  | PL => pl_omega_val P g e
  | BTF => full_sum (bt_omega_term P) g e
  | TMF => full_sum (tm_omega_term 1 P) g e
  | _ => 0
  end.
Definition delta_val (k : kind) (P : params R) (g : game) (e : entry) : R :=
  match k with
  | PL => pl_delta_val P g e
  | BTF => full_sum (bt_delta_term P g) g e
  | TMF => full_sum (tm_delta_term 1 P g) g e
  | _ => 0
  end.
Definition post_val (k : kind) (P : params R) (g : game) (e : entry) : team :=
  map (player_update (p_kappa P) (ssq (snd e)) (omega_val k P g e) (delta_val k P g e)) (snd e).

Definition full_kind (k : kind) : Prop := k = PL \/ k = BTF \/ k = TMF.

(** ** full pairing, generically in the pairwise term *)
Section FullPairs.
Variables (P : params R) (g sg : game).
Variable term : trating R -> R * R -> trating R -> R * R.
Variables fo fd : trating R -> trating R -> R.
Variables so sd : entry -> entry -> R.
Hypothesis term_acc : forall ti od tq, term ti od tq = (fst od + fo ti tq, snd od + fd ti tq).
Hypothesis Hperm : Permutation g sg.
Hypothesis fo_so : forall x q, In x g -> In q g -> fo (tr_of g x) (tr_of g q) = so x q.
Hypothesis fd_sd : forall x q, In x g -> In q g -> fd (tr_of g x) (tr_of g q) = sd x q.

Lemma compute_pairs_full_val :
  compute_pairs term (opponents_full (map (tr_of g) sg)) P =
  map (fun e : entry => map (player_update (p_kappa P) (ssq (snd e)) (full_sum so g e) (full_sum sd g e)) (snd e)) sg.
Proof.
  unfold compute_pairs, opponents_full. rewrite rows_map, map_map. cbn [fst snd].
  apply map_rows_ext. intros [x o] Hxo. cbn [fst snd].
  pose proof (rows_perm sg x o Hxo) as Pxo.
  assert (Pg : Permutation (x :: o) g) by (rewrite Pxo; symmetry; exact Hperm).
  assert (Ix : In x g) by (eapply Permutation_in; [exact Pg | now left]).
  assert (Io : forall q, In q o -> In q g) by (intros q Hq; eapply Permutation_in; [exact Pg | now right]).
  rewrite (fold_left_pair_sum (fo (tr_of g x)) (fd (tr_of g x)) (term (tr_of g x)) (term_acc (tr_of g x))).
  rewrite update_team_tr_of. cbn [fst snd]. rewrite !map_map.
  rewrite (Rsum_map_ext_in (fun q => fo (tr_of g x) (tr_of g q)) (so x) o) by (intros q Hq; apply fo_so; auto).
  rewrite (Rsum_map_ext_in (fun q => fd (tr_of g x) (tr_of g q)) (sd x) o) by (intros q Hq; apply fd_sd; auto).
  unfold full_sum. rewrite <- (Rsum_map_perm (so x) _ _ Pg), <- (Rsum_map_perm (sd x) _ _ Pg). cbn [map Rsum].
  apply map_ext. intros p. change (@fzero R (Spec.RN Phi Phiinv)) with 0. f_equal; lra.
Qed.
End FullPairs.

(** ** Bradley-Terry: the pairwise term over the reals *)
Definition bt_o (P : params R) (ti tq : trating R) : R :=
  let c := sqrt (t_ss ti + t_ss tq + 2 * (p_beta P * p_beta P)) in
  t_ss ti / c *
  ((if Nat.ltb (t_rank ti) (t_rank tq) then 1 else if Nat.eqb (t_rank tq) (t_rank ti) then / 2 else 0)
   - 1 / (1 + exp ((t_mu tq - t_mu ti) / c))).
Definition bt_d (P : params R) (trs : list (trating R)) (ti tq : trating R) : R :=
  let c := sqrt (t_ss ti + t_ss tq + 2 * (p_beta P * p_beta P)) in
  let p := 1 / (1 + exp ((t_mu tq - t_mu ti) / c)) in
  gamma_of P c trs ti * (t_ss ti / c) / c * p * (1 - p).

Lemma bt_term_acc P trs ti od tq :
  bt_term P trs ti od tq = (fst od + bt_o P ti tq, snd od + bt_d P trs ti tq).
Proof. unfold bt_term, bt_o, bt_d. rewrite R_fhalf. reflexivity. Qed.

Lemma div_div (a b c : R) : a / b / c = a / (b * c).
Proof. unfold Rdiv. rewrite Rinv_mult. ring. Qed.
Lemma delta_shape (G S c W : R) : G * (S / c) / c * W = G * (S / (c * c)) * W.
Proof. unfold Rdiv. rewrite Rinv_mult. ring. Qed.

Lemma bt_o_tr_of P g x q : wfg g -> In x g -> In q g ->
  bt_o P (tr_of g x) (tr_of g q) = bt_omega_term P x q.
Proof.
  intros W Ix Iq. unfold bt_o, bt_omega_term, c_pair, score, bt_p.
  rewrite !tr_of_mu, !tr_of_ss, !tr_of_rank, (rank_ltb g x q W Ix Iq), (rank_eqb g x q W Ix Iq). reflexivity.
Qed.
Lemma bt_d_tr_of P g sg x q : length sg = length g ->
  bt_d P (map (tr_of g) sg) (tr_of g x) (tr_of g q) = bt_delta_term P g x q.
Proof.
  intros L. unfold bt_d, bt_delta_term, c_pair, bt_p.
  rewrite (gamma_of_tr_of P _ g sg x L), !tr_of_mu, !tr_of_ss. cbv zeta.
  unfold Rdiv. rewrite Rinv_mult. ring.
Qed.

Theorem compute_BTF_val P g sg : wfg g -> Permutation g sg ->
  compute BTF P (map (tr_of g) sg) = map (post_val BTF P g) sg.
Proof.
  intros W Pm. cbn [compute]. unfold post_val. cbn [omega_val delta_val].
  apply (compute_pairs_full_val P g sg _ (bt_o P) (bt_d P (map (tr_of g) sg))).
  - apply bt_term_acc.
  - exact Pm.
  - intros x q Ix Iq. now apply bt_o_tr_of.
  - intros x q _ _. apply bt_d_tr_of. symmetry. now apply Permutation_length.
Qed.

(** ** Thurstone-Mosteller: the pairwise term over the reals ([b] = the doubled c of the partial model) *)
Definition tm_cc (P : params R) (b : bool) (ti tq : trating R) : R :=
  if b then 2 * sqrt (t_ss ti + t_ss tq + 2 * (p_beta P * p_beta P))
  else sqrt (t_ss ti + t_ss tq + 2 * (p_beta P * p_beta P)).
Definition tm_o (P : params R) (b : bool) (ti tq : trating R) : R :=
  let c := tm_cc P b ti tq in
  let x := (t_mu ti - t_mu tq) / c in
  let t := p_kappa P / c in
  if Nat.ltb (t_rank ti) (t_rank tq) then t_ss ti / c * v x t
  else if Nat.ltb (t_rank tq) (t_rank ti) then - (t_ss ti / c) * v (- x) t
  else t_ss ti / c * vt x t.
Definition tm_d (P : params R) (b : bool) (trs : list (trating R)) (ti tq : trating R) : R :=
  let c := tm_cc P b ti tq in
  let x := (t_mu ti - t_mu tq) / c in
  let t := p_kappa P / c in
  gamma_of P c trs ti * (t_ss ti / c) / c *
  (if Nat.ltb (t_rank ti) (t_rank tq) then w x t
   else if Nat.ltb (t_rank tq) (t_rank ti) then w (- x) t
   else wt x t).

Lemma tm_term_acc P b trs ti od tq :
  tm_term b P trs ti od tq = (fst od + tm_o P b ti tq, snd od + tm_d P b trs ti tq).
Proof.
  unfold tm_term, tm_o, tm_d, tm_cc. 
  destruct b; destruct (Nat.ltb (t_rank ti) (t_rank tq)); destruct (Nat.ltb (t_rank tq) (t_rank ti)); reflexivity.
Qed.

Definition tm_factor (b : bool) : R := if b then 2 else 1.

Lemma tm_cc_tr_of P b g x q :
  tm_cc P b (tr_of g x) (tr_of g q) = tm_factor b * c_pair P (snd x) (snd q).
Proof. unfold tm_cc, tm_factor, c_pair. rewrite !tr_of_ss. destruct b; [reflexivity|]. now rewrite Rmult_1_l. Qed.

Lemma tm_o_tr_of P b g x q : wfg g -> In x g -> In q g ->
  tm_o P b (tr_of g x) (tr_of g q) = tm_omega_term (tm_factor b) P x q.
Proof.
  intros W Ix Iq. unfold tm_o, Spec.tm_omega_term.
  rewrite tm_cc_tr_of, !tr_of_mu, !tr_of_ss, !tr_of_rank, (rank_ltb g x q W Ix Iq), (rank_ltb g q x W Iq Ix).
  reflexivity.
Qed.
Lemma tm_d_tr_of P b g sg x q : wfg g -> In x g -> In q g -> length sg = length g ->
  tm_d P b (map (tr_of g) sg) (tr_of g x) (tr_of g q) = tm_delta_term (tm_factor b) P g x q.
Proof.
  intros W Ix Iq L. unfold tm_d, Spec.tm_delta_term.
  rewrite tm_cc_tr_of, (gamma_of_tr_of P _ g sg x L), !tr_of_mu, !tr_of_ss, !tr_of_rank,
    (rank_ltb g x q W Ix Iq), (rank_ltb g q x W Iq Ix). cbv zeta.
  apply delta_shape.
Qed.

Theorem compute_TMF_val P g sg : wfg g -> Permutation g sg ->
  compute TMF P (map (tr_of g) sg) = map (post_val TMF P g) sg.
Proof.
  intros W Pm. cbn [compute]. unfold post_val. cbn [omega_val delta_val].
  apply (compute_pairs_full_val P g sg _ (tm_o P false) (tm_d P false (map (tr_of g) sg))).
  - apply tm_term_acc.
  - exact Pm.
  - intros x q Ix Iq. now apply (tm_o_tr_of P false).
  - intros x q Ix Iq. apply (tm_d_tr_of P false); auto. symmetry. now apply Permutation_length.
Qed.

(** ** Spec's position-indexed sums are the value forms (full pairing) *)
Lemma spec_BTF_val f P g ie : In ie (indexed g) -> team_update f BTF P g ie = post_val BTF P g (snd ie).
Proof.
  intros Hin. destruct ie as [i e]. unfold Spec.team_update, post_val. cbn [fst snd].
  f_equal. f_equal.
  - cbn [Spec.omega omega_val fst snd]. unfold others, full_sum. apply (Rsum_others (bt_omega_term P e) g 0 i e Hin).
  - cbn [Spec.delta delta_val fst snd]. unfold others, full_sum. apply (Rsum_others (bt_delta_term P g e) g 0 i e Hin).
Qed.
Lemma spec_TMF_val f P g ie : In ie (indexed g) -> team_update f TMF P g ie = post_val TMF P g (snd ie).
Proof.
  intros Hin. destruct ie as [i e]. unfold Spec.team_update, post_val. cbn [fst snd].
  f_equal. f_equal.
  - cbn [Spec.omega omega_val fst snd]. unfold others, full_sum. apply (Rsum_others (tm_omega_term 1 P e) g 0 i e Hin).
  - cbn [Spec.delta delta_val fst snd]. unfold others, full_sum. apply (Rsum_others (tm_delta_term 1 P g e) g 0 i e Hin).
Qed.

(** ** Plackett-Luce *)
Lemma pl_c_R P (trs : list (trating R)) :
  Core.pl_c P trs = sqrt (Rsum (map (fun t : trating R => t_ss t + p_beta P * p_beta P) trs)).
Proof.
  unfold Core.pl_c. change (@fsqrt R (Spec.RN Phi Phiinv)) with sqrt. f_equal.
  transitivity (0 + Rsum (map (fun t : trating R => t_ss t + p_beta P * p_beta P) trs)); [|lra].
  apply (fold_left_acc_sum (fun t : trating R => t_ss t + p_beta P * p_beta P) trs 0).
Qed.

Lemma pl_c_tr_of P g sg : Permutation g sg -> Core.pl_c P (map (tr_of g) sg) = Spec.pl_c P g.
Proof.
  intros Pm. rewrite pl_c_R. unfold Spec.pl_c. f_equal. rewrite map_map.
  rewrite (Rsum_map_perm _ _ _ Pm). apply Rsum_map_ext_in. intros e _. now rewrite tr_of_ss.
Qed.

(** the dictionary-built [sum_q] and [a] of the code, per team rating *)
Definition pl_SQ (trs : list (trating R)) (c : R) (tq : trating R) : R :=
  reduce_add (map (fun ti : trating R => fexp (fdiv (t_mu ti) c))
                  (filter (fun ti : trating R => Nat.leb (t_rank tq) (t_rank ti)) trs)).
Definition pl_AQ (trs : list (trating R)) (ti : trating R) : nat :=
  length (filter (fun tq : trating R => Nat.eqb (t_rank ti) (t_rank tq)) trs).

Lemma pl_qs_shape (trs : list (trating R)) c :
  combine (seq 0 (length trs)) (combine trs (combine (pl_sum_q trs c) (pl_a trs))) =
  map (fun it : nat * trating R => (fst it, (snd it, (pl_SQ trs c (snd it), pl_AQ trs (snd it)))))
      (combine (seq 0 (length trs)) trs).
Proof.
  unfold pl_sum_q, pl_a. rewrite combine_map_same.
  change (map (fun e : trating R => (reduce_add (map (fun ti : trating R => fexp (fdiv (t_mu ti) c))
                  (filter (fun ti : trating R => Nat.leb (t_rank e) (t_rank ti)) trs)),
              length (filter (fun tq : trating R => Nat.eqb (t_rank e) (t_rank tq)) trs))) trs)
    with (map (fun e : trating R => (pl_SQ trs c e, pl_AQ trs e)) trs).
  rewrite combine_map_r_same, combine_map_r. reflexivity.
Qed.

Lemma pl_SQ_tr_of P g sg q : wfg g -> Permutation g sg -> In q g ->
  pl_SQ (map (tr_of g) sg) (Spec.pl_c P g) (tr_of g q) = pl_S P g (fst q).
Proof.
  intros W Pm Iq. unfold pl_SQ, pl_S. rewrite R_reduce_add, filter_map_comm, map_map.
  rewrite (filter_ext_in (fun a : entry => Nat.leb (t_rank (tr_of g q)) (t_rank (tr_of g a)))
                         (fun s : entry => key_leb (fst q) (fst s))).
  - rewrite <- (Rsum_map_filter_perm _ _ _ _ Pm). apply Rsum_map_ext_in. intros s _. now rewrite tr_of_mu.
  - intros s Hs. rewrite !tr_of_rank. apply (rank_leb g s q W); [|exact Iq].
    eapply Permutation_in; [symmetry; exact Pm | exact Hs].
Qed.

Lemma pl_AQ_tr_of g sg i : wfg g -> Permutation g sg -> In i g ->
  pl_AQ (map (tr_of g) sg) (tr_of g i) = length (filter (fun s : entry => key_eqb (fst s) (fst i)) g).
Proof.
  intros W Pm Ii. unfold pl_AQ. rewrite filter_map_comm, map_length.
  rewrite (filter_ext_in (fun a : entry => Nat.eqb (t_rank (tr_of g i)) (t_rank (tr_of g a)))
                         (fun s : entry => key_eqb (fst s) (fst i))).
  - symmetry. now apply filter_length_perm.
  - intros s Hs. rewrite !tr_of_rank. apply (rank_eqb g s i W); [|exact Ii].
    eapply Permutation_in; [symmetry; exact Pm | exact Hs].
Qed.

(** one step of the inner loop accumulates a pair of terms *)
Definition pl_po (i : nat) (ti : trating R) (e : R) (qt : nat * (trating R * (R * nat))) : R :=
  let p := e / fst (snd (snd qt)) in let aq := IZR (Z.of_nat (snd (snd (snd qt)))) in
  if Nat.leb (t_rank (fst (snd qt))) (t_rank ti)
  then (if Nat.eqb (fst qt) i then (1 - p) / aq else - (p / aq)) else 0.
Definition pl_pd (ti : trating R) (e : R) (qt : nat * (trating R * (R * nat))) : R :=
  let p := e / fst (snd (snd qt)) in let aq := IZR (Z.of_nat (snd (snd (snd qt)))) in
  if Nat.leb (t_rank (fst (snd qt))) (t_rank ti) then p * (1 - p) / aq else 0.

Lemma pl_step_acc i ti e od qt :
  pl_step i ti e od qt = (fst od + pl_po i ti e qt, snd od + pl_pd ti e qt).
Proof.
  unfold pl_step, pl_po, pl_pd. cbv zeta.
  change (@fofZ R (Spec.RN Phi Phiinv)) with IZR.
  destruct (Nat.leb (t_rank (fst (snd qt))) (t_rank ti)).
  - destruct (Nat.eqb (fst qt) i); cbn; f_equal; lra.
  - destruct od as [o d]. cbn [fst snd]. f_equal; lra.
Qed.

Lemma pl_omega_delta_R P trs c qs i ti :
  pl_omega_delta P trs c qs i ti =
  (Rsum (map (pl_po i ti (exp (t_mu ti / c))) qs) * (t_ss ti / c),
   Rsum (map (pl_pd ti (exp (t_mu ti / c))) qs) * (t_ss ti / (c * c)) * gamma_of P c trs ti).
Proof.
  unfold pl_omega_delta. cbv zeta.
  change (@fexp R (Spec.RN Phi Phiinv)) with exp. change (@fdiv R (Spec.RN Phi Phiinv)) with Rdiv.
  rewrite (fold_left_pair_sum (pl_po i ti (exp (t_mu ti / c))) (pl_pd ti (exp (t_mu ti / c)))
             (pl_step i ti (exp (t_mu ti / c))) (pl_step_acc i ti (exp (t_mu ti / c)))).
  cbn [fst snd]. change (@fzero R (Spec.RN Phi Phiinv)) with 0. rewrite !Rplus_0_l. reflexivity.
Qed.

Theorem compute_PL_val P g sg : wfg g -> Permutation g sg ->
  compute PL P (map (tr_of g) sg) = map (post_val PL P g) sg.
Proof.
  intros W Pm. cbn [compute]. unfold compute_pl. cbv zeta.
  rewrite pl_qs_shape, (pl_c_tr_of P g sg Pm), map_length, combine_map_r, !map_map. cbn [fst snd].
  set (C := Spec.pl_c P g).
  set (K := fun qe : nat * entry =>
              (fst qe, (tr_of g (snd qe), (pl_SQ (map (tr_of g) sg) C (tr_of g (snd qe)), pl_AQ (map (tr_of g) sg) (tr_of g (snd qe)))))).
  apply map_indexed_ext. intros [i x] Hin. cbn [fst snd].
  assert (Ixs : In x sg) by (eapply in_combine_r; exact Hin).
  assert (Ix : In x g) by (eapply Permutation_in; [symmetry; exact Pm | exact Ixs]).
  assert (Isg : forall q, In q sg -> In q g) by (intros q Hq; eapply Permutation_in; [symmetry; exact Pm | exact Hq]).
  rewrite pl_omega_delta_R, update_team_tr_of. cbn [fst snd].
  unfold post_val. cbn [omega_val delta_val].
  (* the accumulated sums over the index-tagged sorted game *)
  set (ex := exp (t_mu (tr_of g x) / C)).
  set (pq := fun q : entry => pl_p P g (snd x) (fst q)).
  set (aq := fun q : entry => pl_A g (fst q)).
  set (cq := fun q : entry => key_leb (fst q) (fst x)).
  assert (Eo : Rsum (map (pl_po i (tr_of g x) ex) (map K (combine (seq 0 (length sg)) sg)))
             = Rsum (map (fun q => (0 - pq q) / aq q) (filter cq g)) + / aq x).
  { rewrite map_map.
    rewrite (Rsum_map_ext_in _ (fun qe : nat * entry => if cq (snd qe)
               then (if Nat.eqb (fst qe) i then (1 - pq (snd qe)) / aq (snd qe) else (0 - pq (snd qe)) / aq (snd qe)) else 0)).
    - rewrite (Rsum_filter_if (fun qe : nat * entry => cq (snd qe))).
      rewrite (Rsum_own_split cq (fun q => (1 - pq q) / aq q) (fun q => (0 - pq q) / aq q) sg 0 i x Hin)
        by (unfold cq; apply key_leb_refl).
      rewrite <- (Rsum_map_filter_perm cq _ _ _ Pm). unfold Rdiv. ring.
    - intros [j q] Hq. assert (Iq : In q g) by (apply Isg; eapply in_combine_r; exact Hq).
      unfold pl_po, K. cbn [fst snd]. rewrite !tr_of_rank, (rank_leb g x q W Ix Iq).
      unfold ex, C. rewrite tr_of_mu, (pl_SQ_tr_of P g sg q W Pm Iq), (pl_AQ_tr_of g sg q W Pm Iq), <- INR_IZR_INZ.
      fold (pl_p P g (snd x) (fst q)). fold (pl_A g (fst q)). fold (pq q) (aq q) (cq q).
      destruct (cq q); [|reflexivity]. destruct (Nat.eqb j i); unfold Rdiv; ring. }
  assert (Ed : Rsum (map (pl_pd (tr_of g x) ex) (map K (combine (seq 0 (length sg)) sg)))
             = Rsum (map (fun q => pq q * (1 - pq q) / aq q) (filter cq g))).
  { rewrite map_map.
    rewrite (Rsum_map_ext_in _ (fun qe : nat * entry => if cq (snd qe) then pq (snd qe) * (1 - pq (snd qe)) / aq (snd qe) else 0)).
    - rewrite (Rsum_filter_if (fun qe : nat * entry => cq (snd qe)) (fun qe => pq (snd qe) * (1 - pq (snd qe)) / aq (snd qe))).
      rewrite (Rsum_map_filter_perm cq _ _ _ Pm).
      apply (Rsum_indexed_snd cq (fun q => pq q * (1 - pq q) / aq q) sg 0).
    - intros [j q] Hq. assert (Iq : In q g) by (apply Isg; eapply in_combine_r; exact Hq).
      unfold pl_pd, K. cbn [fst snd]. rewrite !tr_of_rank, (rank_leb g x q W Ix Iq).
      unfold ex, C. rewrite tr_of_mu, (pl_SQ_tr_of P g sg q W Pm Iq), (pl_AQ_tr_of g sg q W Pm Iq), <- INR_IZR_INZ.
      reflexivity. }
  rewrite Eo, Ed.
  rewrite (gamma_of_tr_of P C g sg x) by (symmetry; now apply Permutation_length).
  rewrite tr_of_ss. unfold pl_omega_val, pl_delta_val. fold C. fold cq.
  apply map_ext. intros p. f_equal.
  - unfold pq, aq. ring.
  - unfold pq, aq. ring.
Qed.

Lemma spec_PL_val f P g ie : In ie (indexed g) -> team_update f PL P g ie = post_val PL P g (snd ie).
Proof.
  intros Hin. destruct ie as [i e]. unfold Spec.team_update, post_val. cbn [fst snd].
  f_equal. f_equal.
  - cbn [Spec.omega omega_val]. unfold pl_omega, pl_omega_val, indexed in *. cbn [fst snd]. f_equal.
    set (pq := fun q : entry => pl_p P g (snd e) (fst q)).
    set (aq := fun q : entry => pl_A g (fst q)).
    set (cq := fun q : entry => key_leb (fst q) (fst e)).
    pose proof (Rsum_own_split cq (fun q => (1 - pq q) / aq q) (fun q => (0 - pq q) / aq q) g 0 i e Hin
                  (key_leb_refl (fst e))) as E.
    etransitivity; [|etransitivity; [exact E|]].
    + apply Rsum_map_ext_in. intros [j q] _. unfold kron, pq, aq. cbn [fst snd]. destruct (Nat.eqb j i); reflexivity.
    + unfold pq, aq. cbv beta. unfold Rdiv. ring.
  - cbn [Spec.delta delta_val]. unfold pl_delta, pl_delta_val, indexed. cbn [fst snd]. f_equal.
    apply (Rsum_indexed_snd (fun q : entry => key_leb (fst q) (fst e))
             (fun q : entry => pl_p P g (snd e) (fst q) * (1 - pl_p P g (snd e) (fst q)) / pl_A g (fst q)) g 0).
Qed.

(** ** the sorted game of [rate_sorted] and its team ratings *)
Lemma team_ratings_tr_of g ks ts :
  team_ratings ts (map (count_less key_ltb (map fst g)) ks) = map (tr_of g) (combine ks ts).
Proof.
  unfold team_ratings. rewrite combine_swap_map, map_map. apply map_ext. intros e.
  unfold tr_of. cbn [fst snd]. now rewrite rank_of_count.
Qed.

Lemma sorted_trs_tr_of (teams : list team) ks : length ks = length teams -> Forall key_wf ks ->
  sorted_trs teams ks =
  map (tr_of (combine ks teams)) (combine (fst (sorted_game teams ks)) (snd (sorted_game teams ks))).
Proof.
  intros E W. unfold sorted_trs, sorted_game. cbn [fst snd].
  rewrite (key_rankings_count ks W). rewrite <- team_ratings_tr_of.
  rewrite combine_map_fst by exact E. reflexivity.
Qed.

Lemma none_trs_tr_of (teams : list team) :
  team_ratings teams (seq 0 (length teams)) =
  map (tr_of (combine (map key_of_nat (seq 0 (length teams))) teams))
      (combine (map key_of_nat (seq 0 (length teams))) teams).
Proof.
  set (ks := map key_of_nat (seq 0 (length teams))).
  assert (Lk : length ks = length teams) by (unfold ks; now rewrite map_length, seq_length).
  rewrite <- team_ratings_tr_of. rewrite combine_map_fst by exact Lk. f_equal.
  rewrite <- Lk. rewrite <- (calc_rankings_seq key_ltb ks) by apply key_of_nat_seq_increasing.
  apply (calc_rankings_count key_leb key_ltb key_wf).
  - intros a b _ _. apply key_leb_total.
  - intros a b c _ Hb _. now apply key_leb_trans.
  - intros a b _ _. apply key_ltb_negb_leb.
  - unfold ks. rewrite Forall_forall. intros k Hk. apply in_map_iff in Hk. destruct Hk as [n [<- _]]. apply key_of_nat_wf.
  - apply key_of_nat_seq_sorted.
Qed.

(** validity of the optional rank keys of a call *)
Definition keys_ok (n : nat) (keys : option (list key)) : Prop :=
  match keys with Some ks => length ks = n /\ Forall key_wf ks | None => True end.

Lemma keys_of_length n keys : keys_ok n keys -> length (keys_of n keys) = n.
Proof. destruct keys as [ks|]; cbn; [intros [E _]; exact E | intros _; now rewrite map_length, seq_length]. Qed.
Lemma keys_of_wf n keys : keys_ok n keys -> Forall key_wf (keys_of n keys).
Proof.
  destruct keys as [ks|]; cbn; [intros [_ W]; exact W | intros _].
  rewrite Forall_forall. intros k Hk. apply in_map_iff in Hk. destruct Hk as [m [<- _]]. apply key_of_nat_wf.
Qed.
Lemma game_of_wfg tau teams keys : keys_ok (length teams) keys -> wfg (game_of tau teams keys).
Proof.
  intros K. unfold wfg, game_of. pose proof (keys_of_wf _ _ K) as W. rewrite Forall_forall in *.
  intros [k t] Hin. cbn. apply W. eapply in_combine_l; exact Hin.
Qed.

Lemma clamp_player_limit (orig res : rating R) : clamp_player orig res = limit_sigma orig res.
Proof.
  unfold clamp_player, limit_sigma. change (@fleb R (Spec.RN Phi Phiinv)) with Rleb.
  destruct (Rleb (r_sigma res) (r_sigma orig)) eqn:E.
  - apply Rleb_true in E. rewrite Rmin_left by exact E. destruct res; reflexivity.
  - apply Rleb_false in E. rewrite Rmin_right by lra. reflexivity.
Qed.

(** ** the lift: from [compute] on permutations of the game to [rate_core] (full pairing) *)
Section Lift.
Variables (f : R) (k : kind) (P : params R).
Hypothesis Hcompute : forall g sg, wfg g -> Permutation g sg ->
  compute k P (map (tr_of g) sg) = map (post_val k P g) sg.
Hypothesis Hspec : forall g ie, In ie (indexed g) -> team_update f k P g ie = post_val k P g (snd ie).

Lemma rate_sorted_val tau (teams : list team) keys : keys_ok (length teams) keys ->
  let g := game_of tau teams keys in
  rate_sorted k P (map (map (inflate tau)) teams) keys = map (post_val k P g) g.
Proof.
  intros K g. pose proof (game_of_wfg tau teams keys K) as W. fold g in W.
  set (infl := map (map (inflate tau)) teams).
  assert (Li : length infl = length teams) by (unfold infl; now rewrite map_length).
  assert (Eg : g = combine (keys_of (length teams) keys) infl) by reflexivity.
  destruct keys as [ks|].
  - destruct K as [E Wk]. cbn [keys_of] in Eg.
    assert (E' : length ks = length infl) by congruence.
    destruct (rate_sorted_some k P infl ks E') as [L Pm].
    rewrite (sorted_trs_tr_of infl ks E' Wk) in Pm. unfold team in Pm. rewrite <- Eg in Pm.
    rewrite Hcompute in Pm; [| exact W | rewrite Eg; now apply sorted_game_perm].
    eapply (perm_pointwise (post_val k P g) g); [|exact Pm].
    transitivity (length infl); [exact L|]. rewrite Eg. unfold entry, team. rewrite combine_length. lia.
  - rewrite rate_sorted_none. cbn [keys_of] in Eg. rewrite <- Li in Eg.
    rewrite none_trs_tr_of. unfold team. rewrite <- Eg. apply Hcompute; [exact W | reflexivity].
Qed.

Theorem rate_core_refines tau lim (teams : list team) keys : keys_ok (length teams) keys ->
  rate_core k P tau lim teams keys = wl_update_f f k P tau lim teams keys.
Proof.
  intros K. unfold rate_core, Spec.wl_update_f.
  rewrite (rate_sorted_val tau teams keys K).
  set (g := game_of tau teams keys).
  assert (Epost : map (team_update f k P g) (indexed g) = map (post_val k P g) g).
  { unfold indexed. apply map_indexed_ext. intros ie Hin. now apply Hspec. }
  rewrite Epost. destruct lim; [|reflexivity].
  unfold clamp. apply map_ext. intros tt. apply map_ext. intros pp. apply clamp_player_limit.
Qed.
End Lift.

Theorem C01_BTF_refines P tau lim (teams : list team) keys : keys_ok (length teams) keys ->
  rate_core BTF P tau lim teams keys = wl_update BTF P tau lim teams keys.
Proof. apply (rate_core_refines 1 BTF P); [apply compute_BTF_val | apply spec_BTF_val]. Qed.
Theorem C01_TMF_refines P tau lim (teams : list team) keys : keys_ok (length teams) keys ->
  rate_core TMF P tau lim teams keys = wl_update TMF P tau lim teams keys.
Proof. apply (rate_core_refines 1 TMF P); [apply compute_TMF_val | apply spec_TMF_val]. Qed.
(** ** partial pairing: the neighbours in the stable order *)
Lemma stable_order_perm g : Permutation (indexed g) (stable_order g).
Proof. apply isort_perm. Qed.
Lemma indexed_fst g : map fst (indexed g) = seq 0 (length g).
Proof. unfold indexed. apply combine_map_fst. now rewrite seq_length. Qed.
Lemma stable_order_nodup g : NoDup (map fst (stable_order g)).
Proof.
  eapply Permutation_NoDup; [apply Permutation_map, stable_order_perm|]. rewrite indexed_fst. apply seq_NoDup.
Qed.
Lemma stable_order_in g ie : In ie (stable_order g) -> In ie (indexed g).
Proof. apply isort_in. Qed.
Lemma indexed_in_snd g (ie : ientry) : In ie (indexed g) -> In (snd ie) g.
Proof. destruct ie as [i e]. unfold indexed. apply in_combine_r. Qed.
Lemma stable_order_length g : length (stable_order g) = length g.
Proof.
  unfold stable_order. rewrite isort_length.
  transitivity (length (map fst (indexed g))); [now rewrite map_length | now rewrite indexed_fst, seq_length].
Qed.

Lemma ladder_adjacent (prev : option ientry) (l : list ientry) x nb :
  NoDup (map fst l) -> In (x, nb) (combine l (ladder_aux prev l)) -> adjacent (fst x) prev l = nb.
Proof.
  revert prev. induction l as [|y l IH]; intros prev ND Hin; cbn [ladder_aux combine] in Hin; [destruct Hin|].
  cbn [map] in ND. inversion ND as [|? ? Hy ND']; subst.
  cbn [adjacent]. destruct Hin as [E|Hin].
  - injection E as <- <-. now rewrite Nat.eqb_refl.
  - assert (Hx : In (fst x) (map fst l)) by (apply in_map; eapply in_combine_l; exact Hin).
    destruct (Nat.eqb_spec (fst y) (fst x)) as [E|_]; [rewrite E in Hy; contradiction|].
    now apply IH.
Qed.

Section PartPairs.
Variables (P : params R) (g : game).
Variable term : trating R -> R * R -> trating R -> R * R.
Variables fo fd : trating R -> trating R -> R.
Variables so sd : entry -> entry -> R.
Hypothesis term_acc : forall ti od tq, term ti od tq = (fst od + fo ti tq, snd od + fd ti tq).
Hypothesis fo_so : forall x q, In x g -> In q g -> fo (tr_of g x) (tr_of g q) = so x q.
Hypothesis fd_sd : forall x q, In x g -> In q g -> fd (tr_of g x) (tr_of g q) = sd x q.

Lemma compute_pairs_part_val :
  compute_pairs term (opponents_part (map (tr_of g) (map snd (stable_order g)))) P =
  map (fun ie : ientry => map (player_update (p_kappa P) (ssq (snd (snd ie)))
         (Rsum (map (fun qe : ientry => so (snd ie) (snd qe)) (neighbours g (fst ie))))
         (Rsum (map (fun qe : ientry => sd (snd ie) (snd qe)) (neighbours g (fst ie))))) (snd (snd ie)))
      (stable_order g).
Proof.
  rewrite map_map. set (T' := fun ie : ientry => tr_of g (snd ie)).
  unfold compute_pairs, opponents_part. rewrite ladder_pairs_map, (combine_map T' (map T')), map_map. cbn [fst snd].
  apply map_combine_ext; [apply ladder_pairs_length|]. intros [x nb] Hin. cbn [fst snd].
  assert (Ix : In (snd x) g) by (apply indexed_in_snd, stable_order_in; eapply in_combine_l; exact Hin).
  assert (Inb : forall q, In q nb -> In (snd q) g).
  { intros q Hq. destruct (ladder_aux_in None (stable_order g) x nb Hin q Hq) as [E|H]; [discriminate|].
    now apply indexed_in_snd, stable_order_in. }
  assert (Enb : neighbours g (fst x) = nb) by (apply ladder_adjacent; [apply stable_order_nodup | exact Hin]).
  rewrite Enb. unfold T' at 1 2.
  rewrite (fold_left_pair_sum (fo (tr_of g (snd x))) (fd (tr_of g (snd x))) (term (tr_of g (snd x))) (term_acc (tr_of g (snd x)))).
  rewrite update_team_tr_of. cbn [fst snd]. rewrite !map_map. unfold T'.
  rewrite (Rsum_map_ext_in (fun q : ientry => fo (tr_of g (snd x)) (tr_of g (snd q))) (fun q : ientry => so (snd x) (snd q)) nb)
    by (intros q Hq; apply fo_so; auto).
  rewrite (Rsum_map_ext_in (fun q : ientry => fd (tr_of g (snd x)) (tr_of g (snd q))) (fun q : ientry => sd (snd x) (snd q)) nb)
    by (intros q Hq; apply fd_sd; auto).
  apply map_ext. intros p. change (@fzero R (Spec.RN Phi Phiinv)) with 0. f_equal; lra.
Qed.
End PartPairs.

Theorem compute_BTP_val f P g : wfg g ->
  compute BTP P (map (tr_of g) (map snd (stable_order g))) = map (team_update f BTP P g) (stable_order g).
Proof.
  intros W. cbn [compute]. unfold Spec.team_update. cbn [Spec.omega Spec.delta].
  apply (compute_pairs_part_val P g _ (bt_o P) (bt_d P (map (tr_of g) (map snd (stable_order g))))).
  - apply bt_term_acc.
  - intros x q Ix Iq. now apply bt_o_tr_of.
  - intros x q _ _. apply bt_d_tr_of. now rewrite map_length, stable_order_length.
Qed.

Theorem compute_TMP_val P g : wfg g ->
  compute TMP P (map (tr_of g) (map snd (stable_order g))) = map (team_update 2 TMP P g) (stable_order g).
Proof.
  intros W. cbn [compute]. unfold Spec.team_update. cbn [Spec.omega Spec.delta].
  apply (compute_pairs_part_val P g _ (tm_o P true) (tm_d P true (map (tr_of g) (map snd (stable_order g))))).
  - apply tm_term_acc.
  - intros x q Ix Iq. now apply (tm_o_tr_of P true).
  - intros x q Ix Iq. apply (tm_d_tr_of P true); auto. now rewrite map_length, stable_order_length.
Qed.

Lemma compute_full_val k P g sg : full_kind k -> wfg g -> Permutation g sg ->
  compute k P (map (tr_of g) sg) = map (post_val k P g) sg.
Proof. intros [->|[->| ->]]; [apply compute_PL_val | apply compute_BTF_val | apply compute_TMF_val]. Qed.
Lemma spec_full_val f k P g ie : full_kind k -> In ie (indexed g) ->
  team_update f k P g ie = post_val k P g (snd ie).
Proof. intros [->|[->| ->]]; [apply spec_PL_val | apply spec_BTF_val | apply spec_TMF_val]. Qed.
Theorem C01_full_refines f k P tau lim (teams : list team) keys : full_kind k -> keys_ok (length teams) keys ->
  rate_core k P tau lim teams keys = wl_update_f f k P tau lim teams keys.
Proof.
  intros Hk. apply (rate_core_refines f k P).
  - intros g sg. now apply compute_full_val.
  - intros g ie. now apply spec_full_val.
Qed.

(** ** the sorted game of [rate_sorted] is the stable order of the closed form *)
Definition relab (e : key * (team * nat)) : ientry := (snd (snd e), (fst e, fst (snd e))).

Lemma relab_indexed (ks : list key) (teams : list team) : length ks = length teams ->
  map relab (combine ks (combine teams (seq 0 (length teams)))) = indexed (combine ks teams).
Proof.
  intros E. unfold indexed.
  replace (length (combine ks teams)) with (length teams) by (symmetry; apply combine_length_eq; exact E).
  revert ks E. generalize 0%nat. induction teams as [|t teams IH]; intros s [|k ks] E; cbn in *; try discriminate; [reflexivity|].
  f_equal. apply IH. congruence.
Qed.

Lemma stable_order_triples (ks : list key) (teams : list team) : length ks = length teams ->
  stable_order (combine ks teams) = map relab (sorted_triples key_leb ks teams).
Proof.
  intros E. unfold stable_order, sorted_triples. rewrite <- (relab_indexed ks teams E).
  apply isort_map. intros x y _ _. reflexivity.
Qed.

Lemma sorted_game_stable (ks : list key) (teams : list team) : length ks = length teams ->
  combine (fst (sorted_game teams ks)) (snd (sorted_game teams ks)) = map snd (stable_order (combine ks teams)) /\
  snd (unwind key_leb ks teams) = map fst (stable_order (combine ks teams)).
Proof.
  intros E. rewrite (stable_order_triples ks teams E), !map_map. unfold sorted_game. cbn [fst snd]. split.
  - rewrite <- (sorted_triples_keys key_leb ks teams E), unwind_fst, combine_map_same. reflexivity.
  - rewrite unwind_snd. reflexivity.
Qed.

Lemma combine_sorted_snd {A B} (Rr : B -> B -> Prop) (ns : list A) (l : list B) :
  StronglySorted Rr l -> StronglySorted (fun a b : A * B => Rr (snd a) (snd b)) (combine ns l).
Proof.
  intros S. revert ns. induction S as [|b l S IH Fb]; intros [|n ns]; cbn; try constructor.
  - apply IH.
  - rewrite Forall_forall in *. intros [n' b'] Hin. cbn. apply Fb. eapply in_combine_r; exact Hin.
Qed.

Lemma stable_order_sorted_id (ks : list key) (teams : list team) :
  StronglySorted (fun a b => key_leb a b = true) ks -> stable_order (combine ks teams) = indexed (combine ks teams).
Proof.
  intros S. unfold stable_order. apply isort_sorted_id. unfold indexed.
  apply (combine_sorted_snd (fun a b : entry => key_leb (fst a) (fst b) = true)).
  apply (combine_sorted_fst (fun a b => key_leb a b = true)). exact S.
Qed.

Section LiftPart.
Variables (f : R) (k : kind) (P : params R).
Hypothesis Hpart : forall g, wfg g ->
  compute k P (map (tr_of g) (map snd (stable_order g))) = map (team_update f k P g) (stable_order g).

Lemma rate_sorted_part_val tau (teams : list team) keys : keys_ok (length teams) keys ->
  let g := game_of tau teams keys in
  rate_sorted k P (map (map (inflate tau)) teams) keys = map (team_update f k P g) (indexed g).
Proof.
  intros K g. pose proof (game_of_wfg tau teams keys K) as W. fold g in W.
  set (infl := map (map (inflate tau)) teams).
  assert (Li : length infl = length teams) by (unfold infl; now rewrite map_length).
  assert (Eg : g = combine (keys_of (length teams) keys) infl) by reflexivity.
  destruct keys as [ks|].
  - destruct K as [E Wk]. cbn [keys_of] in Eg.
    assert (E' : length ks = length infl) by congruence.
    assert (Lg : length g = length infl) by (rewrite Eg; apply combine_length_eq; exact E').
    unfold rate_sorted. cbv zeta.
    set (ys := compute k P (team_ratings (fst (unwind key_leb ks infl)) (calc_rankings key_ltb (isort key_leb ks)))).
    assert (Ly : length ys = length infl).
    { unfold ys. rewrite compute_length, team_ratings_length.
      - now apply unwind_fst_length.
      - rewrite calc_rankings_length, isort_length, unwind_fst_length; auto. }
    destruct (unwind_unsort_idx key_leb ks infl ys E' Ly) as [L Pm]. cbv zeta in L, Pm.
    destruct (sorted_game_stable ks infl E') as [Esg Eidx]. unfold team in Esg, Eidx. rewrite <- Eg in Esg, Eidx.
    assert (Ey : ys = map (team_update f k P g) (stable_order g)).
    { unfold ys. change (team_ratings (fst (unwind key_leb ks infl)) (calc_rankings key_ltb (isort key_leb ks)))
        with (sorted_trs infl ks).
      rewrite (sorted_trs_tr_of infl ks E' Wk). unfold team. rewrite <- Eg, Esg. now apply Hpart. }
    set (h := fun ie : ientry => (fst ie, team_update f k P g ie)).
    assert (Pm2 : Permutation (combine (seq 0 (length infl)) (fst (unwind Nat.leb (snd (unwind key_leb ks infl)) ys)))
                              (combine (seq 0 (length infl)) (map (team_update f k P g) (indexed g)))).
    { etransitivity; [exact Pm|].
      replace (combine (snd (unwind key_leb ks infl)) ys) with (map h (stable_order g))
        by (rewrite Eidx, Ey; symmetry; apply combine_map_same).
      replace (combine (seq 0 (length infl)) (map (team_update f k P g) (indexed g))) with (map h (indexed g))
        by (rewrite <- Lg, <- indexed_fst; symmetry; apply combine_map_same).
      apply Permutation_map. symmetry. apply stable_order_perm. }
    apply (indexed_perm_eq _ _ (length infl)); [exact L | | exact Pm2].
    rewrite map_length. transitivity (length (map fst (indexed g))); [now rewrite map_length | now rewrite indexed_fst, seq_length].
  - rewrite rate_sorted_none. cbn [keys_of] in Eg. rewrite <- Li in Eg.
    rewrite none_trs_tr_of. unfold team. rewrite <- Eg.
    assert (Eso : stable_order g = indexed g).
    { rewrite Eg. apply (stable_order_sorted_id _ infl). apply key_of_nat_seq_sorted. }
    pose proof (Hpart g W) as Hc. rewrite Eso in Hc.
    replace (map snd (indexed g)) with g in Hc; [exact Hc|].
    symmetry. unfold indexed. apply combine_map_snd. now rewrite seq_length.
Qed.

Theorem rate_core_refines_part tau lim (teams : list team) keys : keys_ok (length teams) keys ->
  rate_core k P tau lim teams keys = wl_update_f f k P tau lim teams keys.
Proof.
  intros K. unfold rate_core, Spec.wl_update_f.
  rewrite (rate_sorted_part_val tau teams keys K). cbv zeta.
  destruct lim; [|reflexivity].
  unfold clamp. apply map_ext. intros tt. apply map_ext. intros pp. apply clamp_player_limit.
Qed.
End LiftPart.

(** Bradley-Terry partial: the closed form as published *)
Theorem C01_BTP_refines P tau lim (teams : list team) keys : keys_ok (length teams) keys ->
  rate_core BTP P tau lim teams keys = wl_update BTP P tau lim teams keys.
Proof. apply (rate_core_refines_part 1 BTP P). apply compute_BTP_val. Qed.

(** Thurstone-Mosteller partial: the closed form with c_iq DOUBLED (known finding K1:
    Algorithm 3 has factor 1, [wl_update] = [wl_update_f 1]) *)
Theorem C01_TMP_refines_scaled P tau lim (teams : list team) keys : keys_ok (length teams) keys ->
  rate_core TMP P tau lim teams keys = wl_update_f 2 TMP P tau lim teams keys.
Proof. apply (rate_core_refines_part 2 TMP P). apply compute_TMP_val. Qed.

Theorem C01_PL_refines P tau lim (teams : list team) keys : keys_ok (length teams) keys ->
  rate_core PL P tau lim teams keys = wl_update PL P tau lim teams keys.
Proof. apply (rate_core_refines 1 PL P); [apply compute_PL_val | apply spec_PL_val]. Qed.

(** all five kinds at once: [rate] is the closed form, with c_iq doubled for TMP (K1) *)
Definition code_factor (k : kind) : R := match k with TMP => 2 | _ => 1 end.
Theorem C01_all_refine k P tau lim (teams : list team) keys : keys_ok (length teams) keys ->
  rate_core k P tau lim teams keys = wl_update_f (code_factor k) k P tau lim teams keys.
Proof.
  destruct k; cbn [code_factor].
  - apply C01_PL_refines.
  - apply C01_BTF_refines.
  - apply C01_BTP_refines.
  - apply C01_TMF_refines.
  - apply C01_TMP_refines_scaled.
Qed.

(** ** the corrections V, W, V~, W~ of the closed form are the exact truncated-Gaussian
    quotients above the guards of the code (below them: the documented asymptotic forms) *)
Theorem gauss_exact_branch (x t : R) :
  ((feps : R) <= Phi (x - t) ->
     v x t = phi (x - t) / Phi (x - t) /\
     w x t = phi (x - t) / Phi (x - t) * (phi (x - t) / Phi (x - t) + (x - t))) /\
  (let b := Phi (t - Rabs x) - Phi (- t - Rabs x) in
   ((f1em5 : R) <= b ->
      vt x t = (if Rlt_dec x 0 then - (phi (- t - Rabs x) - phi (t - Rabs x))
                else phi (- t - Rabs x) - phi (t - Rabs x)) / b) /\
   ((feps : R) <= b ->
      wt x t = Rmin (Rmax (((t - Rabs x) * phi (t - Rabs x) + (t + Rabs x) * phi (- t - Rabs x)) / b
                           + vt x t * vt x t) 0) 1)).
Proof.
  split; [|split].
  - intros H.
    assert (Ev : v x t = phi (x - t) / Phi (x - t)).
    { unfold v. cbv zeta. change (@fsub R (Spec.RN Phi Phiinv) x t) with (x - t). rewrite R_cdf, R_pdf.
      change (@fltb R (Spec.RN Phi Phiinv)) with Rltb.
      destruct (Rltb (Phi (x - t)) feps) eqn:E; [apply Rltb_true in E; lra | reflexivity]. }
    split; [exact Ev|].
    unfold w. cbv zeta. rewrite Ev. change (@fsub R (Spec.RN Phi Phiinv) x t) with (x - t). rewrite R_cdf.
    change (@fltb R (Spec.RN Phi Phiinv)) with Rltb.
    destruct (Rltb (Phi (x - t)) feps) eqn:E; [apply Rltb_true in E; lra | reflexivity].
  - intros H. unfold vt. cbv zeta.
    change (@fabs R (Spec.RN Phi Phiinv)) with Rabs. change (@fneg R (Spec.RN Phi Phiinv)) with Ropp.
    change (@fsub R (Spec.RN Phi Phiinv)) with Rminus. change (@fltb R (Spec.RN Phi Phiinv)) with Rltb.
    change (@fdiv R (Spec.RN Phi Phiinv)) with Rdiv. change (@fzero R (Spec.RN Phi Phiinv)) with 0.
    rewrite !R_cdf, !R_pdf.
    destruct (Rltb (Phi (t - Rabs x) - Phi (- t - Rabs x)) f1em5) eqn:E; [apply Rltb_true in E; lra|].
    unfold Rltb. destruct (Rlt_dec x 0); reflexivity.
  - intros H. unfold wt. cbv zeta. rewrite R_fmin, R_fmax.
    change (@fabs R (Spec.RN Phi Phiinv)) with Rabs. change (@fneg R (Spec.RN Phi Phiinv)) with Ropp.
    change (@fsub R (Spec.RN Phi Phiinv)) with Rminus. change (@fltb R (Spec.RN Phi Phiinv)) with Rltb.
    change (@fdiv R (Spec.RN Phi Phiinv)) with Rdiv. change (@fadd R (Spec.RN Phi Phiinv)) with Rplus.
    change (@fmul R (Spec.RN Phi Phiinv)) with Rmult.
    change (@fzero R (Spec.RN Phi Phiinv)) with 0. change (@fone R (Spec.RN Phi Phiinv)) with 1.
    rewrite !R_cdf, !R_pdf.
    destruct (Rltb (Phi (t - Rabs x) - Phi (- t - Rabs x)) feps) eqn:E; [apply Rltb_true in E; lra | reflexivity].
Qed.

(** the scaling factor of [wl_update_f] concerns the TMP terms only *)
Lemma wl_update_f_factor f k P tau lim (teams : list team) keys : k <> TMP ->
  wl_update_f f k P tau lim teams keys = wl_update k P tau lim teams keys.
Proof. intros Hk. destruct k; try reflexivity. congruence. Qed.

End C01.

(** * RateL: the structure of [compute], [rate_sorted] and [rate_core],
    polymorphic in the number type (no laws, no axioms). *)
From Coq Require Import List Arith Bool Lia Permutation ZArith.
From OSV Require Import Num Order Gauss Core.
From OSV.Lemmas Require Import OrderL.
Import ListNotations.

Lemma rows_aux_length {A} (pre l : list A) : length (rows_aux pre l) = length l.
Proof. revert pre; induction l as [|x xs IH]; intros pre; cbn; [reflexivity|]. now rewrite IH. Qed.
Lemma rows_aux_fst {A} (pre l : list A) : map fst (rows_aux pre l) = l.
Proof. revert pre; induction l as [|x xs IH]; intros pre; cbn; [reflexivity|]. now rewrite IH. Qed.
Lemma rows_length {A} (l : list A) : length (rows l) = length l.
Proof. apply rows_aux_length. Qed.
Lemma rows_fst {A} (l : list A) : map fst (rows l) = l.
Proof. apply rows_aux_fst. Qed.
Lemma ladder_aux_length {A} (p : option A) (l : list A) : length (ladder_aux p l) = length l.
Proof. revert p; induction l as [|x xs IH]; intros p; cbn; [reflexivity|]. now rewrite IH. Qed.
Lemma ladder_pairs_length {A} (l : list A) : length (ladder_pairs l) = length l.
Proof. apply ladder_aux_length. Qed.

Section RateL.
Context {F : Type} `{Num F}.

(** ** [compute]: one output team per team rating, each an [update_team] of it *)
Definition is_update (P : params F) (ti : trating F) (res : list (rating F)) : Prop :=
  exists od : F * F, res = update_team P ti od.

Lemma compute_pairs_shape term opp P :
  Forall2 (is_update P) (map fst opp) (compute_pairs term opp P).
Proof.
  unfold compute_pairs. induction opp as [|io opp IH]; cbn; constructor; [|exact IH].
  eexists. reflexivity.
Qed.

Lemma compute_shape k P trs : Forall2 (is_update P) trs (compute k P trs).
Proof.
  destruct k; cbn [compute].
  - unfold compute_pl.
    set (qs := combine (seq 0 (length trs)) (combine trs (combine (pl_sum_q trs (pl_c P trs)) (pl_a trs)))).
    assert (E : map (fun it : nat * (trating F * (F * nat)) => fst (snd it)) qs = trs).
    { unfold qs. rewrite <- (map_map snd fst). rewrite combine_map_snd.
      - apply combine_map_fst. unfold pl_sum_q, pl_a. rewrite combine_length, !map_length. lia.
      - unfold pl_sum_q, pl_a. rewrite seq_length, !combine_length, !map_length. lia. }
    rewrite <- E at 1. clear E. generalize qs at 1 3. intros l.
    induction l as [|it l IH]; cbn; constructor; [|exact IH]. eexists. reflexivity.
  - rewrite <- (rows_fst trs) at 1. apply compute_pairs_shape.
  - replace trs with (map fst (opponents_part trs)) at 1; [apply compute_pairs_shape|].
    unfold opponents_part. apply combine_map_fst. now rewrite ladder_pairs_length.
  - rewrite <- (rows_fst trs) at 1. apply compute_pairs_shape.
  - replace trs with (map fst (opponents_part trs)) at 1; [apply compute_pairs_shape|].
    unfold opponents_part. apply combine_map_fst. now rewrite ladder_pairs_length.
Qed.

Lemma compute_length k P trs : length (compute k P trs) = length trs.
Proof. symmetry. eapply Forall2_length'. apply compute_shape. Qed.

Lemma team_ratings_length (g : list (list (rating F))) rk :
  length rk = length g -> length (team_ratings g rk) = length g.
Proof. intros E. unfold team_ratings. rewrite map_length, combine_length. lia. Qed.
Lemma team_ratings_teams (g : list (list (rating F))) rk :
  length rk = length g -> map t_team (team_ratings g rk) = g.
Proof.
  intros E. unfold team_ratings. rewrite map_map. cbn.
  rewrite <- (map_map fst (fun x => x)), map_id. apply combine_map_fst. lia.
Qed.
Lemma calc_rankings_aux_length {K} (ltb : K -> K -> bool) p s i l : length (calc_rankings_aux ltb p s i l) = length l.
Proof. revert p s i; induction l as [|x xs IH]; intros p s i; cbn; [reflexivity|]. now rewrite IH. Qed.
Lemma calc_rankings_length {K} (ltb : K -> K -> bool) l : length (calc_rankings ltb l) = length l.
Proof. destruct l; cbn; [reflexivity|]. now rewrite calc_rankings_aux_length. Qed.

(** the player-level shape of an updated team *)
Lemma update_team_ids P ti od : map r_id (update_team P ti od) = map r_id (t_team ti).
Proof. unfold update_team. rewrite map_map. reflexivity. Qed.
Lemma update_team_names P ti od : map r_name (update_team P ti od) = map r_name (t_team ti).
Proof. unfold update_team. rewrite map_map. reflexivity. Qed.
Lemma update_team_length P ti od : length (update_team P ti od) = length (t_team ti).
Proof. unfold update_team. now rewrite map_length. Qed.

(** ** [rate_sorted]: the result, listed next to keys and input teams, is a permutation of
    the sorted game listed next to [compute] of the sorted game *)
Definition sorted_game (teams : list (list (rating F))) (ks : list key) :=
  (isort key_leb ks, fst (unwind key_leb ks teams)).
Definition sorted_trs (teams : list (list (rating F))) (ks : list key) : list (trating F) :=
  team_ratings (snd (sorted_game teams ks)) (calc_rankings key_ltb (fst (sorted_game teams ks))).

Theorem rate_sorted_some k P teams ks :
  length ks = length teams ->
  let res := rate_sorted k P teams (Some ks) in
  length res = length teams /\
  Permutation (combine (combine ks teams) res)
              (combine (combine (fst (sorted_game teams ks)) (snd (sorted_game teams ks)))
                       (compute k P (sorted_trs teams ks))).
Proof.
  intros E res. unfold res, rate_sorted, sorted_trs, sorted_game. cbn [fst snd].
  apply unwind_unsort; [exact E|].
  rewrite compute_length, team_ratings_length.
  - now apply unwind_fst_length.
  - rewrite calc_rankings_length, isort_length, unwind_fst_length; auto.
Qed.

Lemma sorted_game_perm teams ks : length ks = length teams ->
  Permutation (combine ks teams) (combine (fst (sorted_game teams ks)) (snd (sorted_game teams ks))).
Proof. intros E. apply unwind_perm. exact E. Qed.

Lemma sorted_trs_teams teams ks : length ks = length teams ->
  map t_team (sorted_trs teams ks) = snd (sorted_game teams ks).
Proof.
  intros E. unfold sorted_trs. apply team_ratings_teams. unfold sorted_game. cbn [fst snd].
  rewrite calc_rankings_length, isort_length, unwind_fst_length; auto.
Qed.

Theorem rate_sorted_none k P teams :
  rate_sorted k P teams None = compute k P (team_ratings teams (seq 0 (length teams))).
Proof. reflexivity. Qed.

(** a team-level relation established by [compute] on every game transfers to [rate_sorted],
    position by position *)
Theorem rate_sorted_pointwise k P teams keys (R : list (rating F) -> list (rating F) -> Prop) :
  match keys with Some ks => length ks = length teams | None => True end ->
  (forall trs, Forall2 R (map t_team trs) (compute k P trs)) ->
  Forall2 R teams (rate_sorted k P teams keys).
Proof.
  intros E HR. destruct keys as [ks|].
  - destruct (rate_sorted_some k P teams ks E) as [L Pm].
    apply Forall2_combine; [now rewrite L|].
    assert (G : Forall (fun p : key * list (rating F) * list (rating F) => R (snd (fst p)) (snd p))
                  (combine (combine ks teams) (rate_sorted k P teams (Some ks)))).
    { eapply Permutation_Forall; [symmetry; exact Pm|].
      specialize (HR (sorted_trs teams ks)). rewrite (sorted_trs_teams teams ks E) in HR.
      apply Forall2_combine_inv in HR. revert HR.
      generalize (compute k P (sorted_trs teams ks)) (snd (sorted_game teams ks)) (fst (sorted_game teams ks)).
      intros cs ts kk. revert ts kk. induction cs as [|c cs IH]; intros [|t ts] [|k0 kk] HR; cbn in *; try constructor.
      - inversion HR; subst. assumption.
      - apply IH. inversion HR; subst. assumption. }
    clear -G E. revert G. generalize (rate_sorted k P teams (Some ks)). revert ks E.
    induction teams as [|t teams IH]; intros [|k0 ks] E res G; cbn in *; try discriminate; [constructor|].
    destruct res as [|r res]; cbn in *; [constructor|]. inversion G; subst. constructor; [assumption|].
    apply (IH ks); [congruence|assumption].
  - rewrite rate_sorted_none. specialize (HR (team_ratings teams (seq 0 (length teams)))).
    rewrite team_ratings_teams in HR by (now rewrite seq_length). exact HR.
Qed.
End RateL.

(** * SumL: general lemmas on finite real sums [Rsum] (double-sum swap, filtered sums,
    sums accumulated by [fold_left] on pairs, sums over the ordered pairs cut out by
    [rows] and [ladder_pairs]).  Only the standard real-number axioms. *)
From Coq Require Import List Arith Bool Reals Lra Lia Permutation.
From OSV Require Import Num Order RInst.
Import ListNotations.
Open Scope R_scope.

(** ** pointwise lemmas *)
Lemma Rsum_map_zero {A} (l : list A) : Rsum (map (fun _ => 0) l) = 0.
Proof. induction l as [|a l IH]; cbn; lra. Qed.
Lemma Rsum_map_zero_ext {A} (f : A -> R) l : (forall a, In a l -> f a = 0) -> Rsum (map f l) = 0.
Proof. intros H. rewrite <- (Rsum_map_zero l). now apply Rsum_map_ext. Qed.
Lemma Rsum_map_minus {A} (f g : A -> R) l :
  Rsum (map (fun a => f a - g a) l) = Rsum (map f l) - Rsum (map g l).
Proof. induction l as [|a l IH]; cbn; [lra|]. rewrite IH. lra. Qed.
Lemma Rsum_map_opp {A} (f : A -> R) l : Rsum (map (fun a => - f a) l) = - Rsum (map f l).
Proof. induction l as [|a l IH]; cbn; [lra|]. rewrite IH. lra. Qed.
Lemma Rsum_map_div {A} (f : A -> R) c l : Rsum (map (fun a => f a / c) l) = Rsum (map f l) / c.
Proof. induction l as [|a l IH]; cbn; [unfold Rdiv; ring|]. rewrite IH. unfold Rdiv; ring. Qed.
Lemma Rsum_map_scal_r {A} (f : A -> R) c l : Rsum (map (fun a => f a * c) l) = Rsum (map f l) * c.
Proof. induction l as [|a l IH]; cbn; [ring|]. rewrite IH. ring. Qed.
Lemma Rsum_map_const {A} (c : R) (l : list A) : Rsum (map (fun _ => c) l) = INR (length l) * c.
Proof. induction l as [|a l IH]; [cbn; ring|]. cbn [map Rsum length]. rewrite IH, S_INR. ring. Qed.
Lemma Rsum_map_le {A} (f g : A -> R) l :
  (forall a, In a l -> f a <= g a) -> Rsum (map f l) <= Rsum (map g l).
Proof.
  induction l as [|a l IH]; intros H; cbn; [lra|].
  assert (f a <= g a) by (apply H; now left).
  assert (Rsum (map f l) <= Rsum (map g l)) by (apply IH; intros b Hb; apply H; now right). lra.
Qed.
Lemma Rsum_map_nonneg {A} (f : A -> R) l : (forall a, In a l -> 0 <= f a) -> 0 <= Rsum (map f l).
Proof. intros H. rewrite <- (Rsum_map_zero l). now apply Rsum_map_le. Qed.

(** ** the double-sum swap *)
Lemma Rsum_swap {A B} (f : A -> B -> R) (l : list A) (l' : list B) :
  Rsum (map (fun i => Rsum (map (f i) l')) l) = Rsum (map (fun j => Rsum (map (fun i => f i j) l)) l').
Proof.
  induction l as [|a l IH]; cbn [map Rsum].
  - now rewrite Rsum_map_zero.
  - rewrite IH, <- Rsum_map_plus. reflexivity.
Qed.

(** ** filtered sums *)
Lemma Rsum_filter {A} (p : A -> bool) (f : A -> R) l :
  Rsum (map f (filter p l)) = Rsum (map (fun a => if p a then f a else 0) l).
Proof. induction l as [|a l IH]; cbn [filter map Rsum]; [reflexivity|]. destruct (p a); cbn [map Rsum]; rewrite IH; lra. Qed.

Lemma Rsum_if_pos {A} (p : A -> bool) (f : A -> R) l x :
  (forall a, In a l -> 0 < f a) -> In x l -> p x = true ->
  0 < Rsum (map (fun a => if p a then f a else 0) l).
Proof.
  intros Hf Hx Hp.
  assert (Hnn : forall l', (forall a, In a l' -> 0 < f a) -> 0 <= Rsum (map (fun a => if p a then f a else 0) l')).
  { intros l' H'. apply Rsum_map_nonneg. intros a Ha. specialize (H' a Ha). destruct (p a); lra. }
  induction l as [|a l IH]; [contradiction|]. cbn [map Rsum].
  assert (Hl : forall b, In b l -> 0 < f b) by (intros b Hb; apply Hf; now right).
  destruct Hx as [->|Hx].
  - rewrite Hp. specialize (Hnn l Hl). specialize (Hf x (or_introl eq_refl)). lra.
  - specialize (IH Hl Hx). assert (0 < f a) by (apply Hf; now left). destruct (p a); lra.
Qed.

(** ** sums accumulated by [fold_left] in the first / both components of a pair *)
Lemma fold_left_fst_sum {A} (step : R * R -> A -> R * R) (a : A -> R) l od :
  (forall od q, fst (step od q) = fst od + a q) ->
  fst (fold_left step l od) = fst od + Rsum (map a l).
Proof.
  intros H. revert od. induction l as [|q l IH]; intros od; cbn [fold_left map Rsum]; [lra|].
  rewrite IH, H. lra.
Qed.
Lemma fold_left_snd_sum {A} (step : R * R -> A -> R * R) (b : A -> R) l od :
  (forall od q, snd (step od q) = snd od + b q) ->
  snd (fold_left step l od) = snd od + Rsum (map b l).
Proof.
  intros H. revert od. induction l as [|q l IH]; intros od; cbn [fold_left map Rsum]; [lra|].
  rewrite IH, H. lra.
Qed.
Lemma fold_left_pair_sum {A} (a b : A -> R) l x y :
  fold_left (fun od q => (fst od + a q, snd od + b q)) l (x, y)
  = (x + Rsum (map a l), y + Rsum (map b l)).
Proof.
  revert x y. induction l as [|q l IH]; intros x y; cbn [fold_left map Rsum fst snd].
  - f_equal; lra.
  - rewrite IH. f_equal; lra.
Qed.

(** ** list plumbing *)
Lemma combine_map_r {A B} (h : A -> B) (l : list A) : combine l (map h l) = map (fun a => (a, h a)) l.
Proof. induction l as [|a l IH]; cbn; [reflexivity|]. now rewrite IH. Qed.
Lemma combine_map_l {A B C} (f : A -> C) (l : list A) (m : list B) :
  combine (map f l) m = map (fun p => (f (fst p), snd p)) (combine l m).
Proof. revert m; induction l as [|a l IH]; intros [|b m]; cbn; try reflexivity. now rewrite IH. Qed.
Lemma combine_map_combine {A B C} (U : A * B -> C) (l : list A) (m : list B) :
  combine l (map U (combine l m)) = map (fun p => (fst p, U p)) (combine l m).
Proof. revert m; induction l as [|a l IH]; intros [|b m]; cbn; try reflexivity. now rewrite IH. Qed.
Lemma combine3_drop {K A B C} (G : A -> B -> C) (ks : list K) (l : list A) (m : list B) :
  length ks = length l ->
  map (fun t : K * A * B => G (snd (fst t)) (snd t)) (combine (combine ks l) m)
  = map (fun p => G (fst p) (snd p)) (combine l m).
Proof.
  revert l m. induction ks as [|k ks IH]; intros [|a l] [|b m] E; cbn in *; try discriminate; try reflexivity.
  f_equal. apply IH. congruence.
Qed.

(** sum of a quantity selected by index over an index-tagged list *)
Lemma Rsum_index_pick {B} (G : nat * B -> R) (xs : list B) s q x :
  In (q, x) (combine (seq s (length xs)) xs) ->
  Rsum (map (fun it => if Nat.eqb q (fst it) then G it else 0) (combine (seq s (length xs)) xs)) = G (q, x).
Proof.
  revert s. induction xs as [|y ys IH]; intros s Hin; cbn [length seq combine map Rsum] in *; [contradiction|].
  destruct Hin as [Heq|Hin].
  - injection Heq as <- <-. cbn [fst]. rewrite Nat.eqb_refl.
    rewrite Rsum_map_zero_ext; [lra|]. intros [i b] Hi. cbn [fst].
    apply in_combine_l in Hi. apply in_seq in Hi.
    destruct (Nat.eqb_spec s i); [lia|reflexivity].
  - cbn [fst]. assert (Hq : (S s <= q)%nat).
    { apply in_combine_l in Hin. apply in_seq in Hin. lia. }
    destruct (Nat.eqb_spec q s); [lia|]. rewrite (IH (S s) Hin). lra.
Qed.

(** ** ordered pairs: [rows] and [ladder_pairs] regrouped by unordered pair *)
Fixpoint upairs {A} (l : list A) : list (A * A) :=
  match l with [] => [] | x :: xs => map (pair x) xs ++ upairs xs end.
Fixpoint adjpairs {A} (l : list A) : list (A * A) :=
  match l with
  | x :: ((y :: _) as t) => (x, y) :: adjpairs t
  | _ => []
  end.

Definition sym2 {A} (g : A -> A -> R) (p : A * A) : R := g (fst p) (snd p) + g (snd p) (fst p).

Lemma Rsum_rows_aux {A} (g : A -> A -> R) (pre l : list A) :
  Rsum (map (fun io => Rsum (map (g (fst io)) (snd io))) (rows_aux pre l))
  = Rsum (map (fun x => Rsum (map (g x) pre)) l) + Rsum (map (sym2 g) (upairs l)).
Proof.
  revert pre. induction l as [|x xs IH]; intros pre; cbn [rows_aux upairs map Rsum fst snd]; [lra|].
  rewrite IH. rewrite !map_app, !Rsum_app, map_map. unfold sym2 at 2. cbn [fst snd].
  rewrite (Rsum_perm (map (g x) (rev pre)) (map (g x) pre))
    by (apply Permutation_map, Permutation_sym, Permutation_rev).
  cbn [map Rsum]. rewrite !Rsum_map_plus. lra.
Qed.

(** the sum, over all ordered pairs of distinct positions, grouped by row as the code does,
    is the sum over unordered pairs of the two orientations *)
Lemma Rsum_rows {A} (g : A -> A -> R) (l : list A) :
  Rsum (map (fun io => Rsum (map (g (fst io)) (snd io))) (rows l)) = Rsum (map (sym2 g) (upairs l)).
Proof.
  unfold rows. rewrite Rsum_rows_aux. cbn [map Rsum]. rewrite Rsum_map_zero. lra.
Qed.

(** an antisymmetric quantity sums to zero over all ordered pairs *)
Lemma Rsum_rows_antisym {A} (g : A -> A -> R) (l : list A) :
  (forall a b, g a b + g b a = 0) ->
  Rsum (map (fun io => Rsum (map (g (fst io)) (snd io))) (rows l)) = 0.
Proof. intros H. rewrite Rsum_rows. apply Rsum_map_zero_ext. intros [a b] _. apply H. Qed.

Lemma Rsum_ladder_aux {A} (g : A -> A -> R) (prev : option A) (l : list A) :
  Rsum (map (fun io => Rsum (map (g (fst io)) (snd io))) (combine l (ladder_aux prev l)))
  = match prev, l with Some p, x :: _ => g x p | _, _ => 0 end + Rsum (map (sym2 g) (adjpairs l)).
Proof.
  revert prev. induction l as [|x xs IH]; intros prev.
  - cbn. destruct prev; lra.
  - cbn [ladder_aux combine map Rsum fst snd]. rewrite IH. rewrite map_app, Rsum_app.
    destruct xs as [|y ys]; cbn [hd_error opt_list map Rsum adjpairs].
    + destruct prev; cbn [opt_list map Rsum]; lra.
    + unfold sym2 at 2. cbn [fst snd]. destruct prev; cbn [opt_list map Rsum]; lra.
Qed.
Lemma Rsum_ladder {A} (g : A -> A -> R) (l : list A) :
  Rsum (map (fun io => Rsum (map (g (fst io)) (snd io))) (combine l (ladder_pairs l)))
  = Rsum (map (sym2 g) (adjpairs l)).
Proof. unfold ladder_pairs. rewrite Rsum_ladder_aux. destruct l; lra. Qed.
Lemma Rsum_ladder_antisym {A} (g : A -> A -> R) (l : list A) :
  (forall a b, g a b + g b a = 0) ->
  Rsum (map (fun io => Rsum (map (g (fst io)) (snd io))) (combine l (ladder_pairs l))) = 0.
Proof. intros H. rewrite Rsum_ladder. apply Rsum_map_zero_ext. intros [a b] _. apply H. Qed.

(** sizes of the rows (for coarse bounds) *)
Lemma rows_aux_snd_length {A} (pre l : list A) :
  Forall (fun io => S (length (snd io)) = (length pre + length l)%nat) (rows_aux pre l).
Proof.
  revert pre. induction l as [|x xs IH]; intros pre; cbn [rows_aux]; constructor.
  - cbn [snd length]. rewrite app_length, rev_length. lia.
  - specialize (IH (x :: pre)). cbn [length] in *. rewrite Forall_forall in *. intros io Hio.
    specialize (IH io Hio). lia.
Qed.
Lemma rows_snd_length {A} (l : list A) :
  Forall (fun io => S (length (snd io)) = length l) (rows l).
Proof. apply (rows_aux_snd_length [] l). Qed.
Lemma ladder_aux_snd_length {A} (prev : option A) (l : list A) :
  Forall (fun nb : list A => (length nb <= 2)%nat) (ladder_aux prev l).
Proof.
  revert prev. induction l as [|x xs IH]; intros prev; cbn [ladder_aux]; constructor; [|apply IH].
  rewrite app_length. destruct prev, (hd_error xs); cbn; lia.
Qed.

(** ** membership: the opponents listed by [rows] / [ladder_pairs] are members of the list *)
Lemma rows_aux_in {A} (pre l : list A) io y :
  In io (rows_aux pre l) -> In y (snd io) -> In y pre \/ In y l.
Proof.
  revert pre. induction l as [|x xs IH]; intros pre Hio Hy; cbn [rows_aux] in Hio; [contradiction|].
  destruct Hio as [<-|Hio].
  - cbn [snd] in Hy. apply in_app_or in Hy. destruct Hy as [Hy|Hy].
    + left. now apply in_rev.
    + right. now right.
  - destruct (IH (x :: pre) Hio Hy) as [[<-|H]|H]; [right; now left|now left|right; now right].
Qed.
Lemma rows_in {A} (l : list A) io y : In io (rows l) -> In y (snd io) -> In y l.
Proof. intros Hio Hy. destruct (rows_aux_in [] l io y Hio Hy) as [[]|H]. exact H. Qed.
Lemma rows_aux_map_fst {A} (pre l : list A) : map fst (rows_aux pre l) = l.
Proof. revert pre. induction l as [|x xs IH]; intros pre; cbn [rows_aux map fst]; [reflexivity|]. f_equal. apply IH. Qed.
Lemma rows_in_fst {A} (l : list A) io : In io (rows l) -> In (fst io) l.
Proof. intros Hio. apply (in_map fst) in Hio. unfold rows in Hio. now rewrite rows_aux_map_fst in Hio. Qed.
Lemma ladder_aux_in {A} (prev : option A) (l : list A) io y :
  In io (combine l (ladder_aux prev l)) -> In y (snd io) -> prev = Some y \/ In y l.
Proof.
  revert prev. induction l as [|x xs IH]; intros prev Hio Hy; cbn [ladder_aux combine] in Hio; [contradiction|].
  destruct Hio as [<-|Hio].
  - cbn [snd] in Hy. apply in_app_or in Hy. destruct Hy as [Hy|Hy].
    + left. destruct prev; cbn in Hy; [destruct Hy as [->|[]]; reflexivity|contradiction].
    + right. right. destruct xs as [|z zs]; cbn in Hy; [contradiction|]. destruct Hy as [<-|[]]. now left.
  - destruct (IH (Some x) Hio Hy) as [E|H]; [injection E as <-; right; now left|right; now right].
Qed.
Lemma ladder_in {A} (l : list A) io y : In io (combine l (ladder_pairs l)) -> In y (snd io) -> In y l.
Proof. intros Hio Hy. destruct (ladder_aux_in None l io y Hio Hy) as [E|H]; [discriminate|exact H]. Qed.

(** nested pointwise comparison / extensionality over a list of (element, opponents) rows *)
Lemma Rsum_opp_le {A} (f g : A -> A -> R) (opp : list (A * list A)) :
  (forall io y, In io opp -> In y (snd io) -> f (fst io) y <= g (fst io) y) ->
  Rsum (map (fun io => Rsum (map (f (fst io)) (snd io))) opp)
  <= Rsum (map (fun io => Rsum (map (g (fst io)) (snd io))) opp).
Proof. intros H. apply Rsum_map_le. intros io Hio. apply Rsum_map_le. intros y Hy. now apply H. Qed.
Lemma Rsum_opp_ext {A} (f g : A -> A -> R) (opp : list (A * list A)) :
  (forall io y, In io opp -> In y (snd io) -> f (fst io) y = g (fst io) y) ->
  Rsum (map (fun io => Rsum (map (f (fst io)) (snd io))) opp)
  = Rsum (map (fun io => Rsum (map (g (fst io)) (snd io))) opp).
Proof. intros H. apply Rsum_map_ext. intros io Hio. apply Rsum_map_ext. intros y Hy. now apply H. Qed.

(** ** an injective label separates an element from the opponents listed for it *)
Lemma rows_aux_nodup_neq {A B} (f : A -> B) (pre l : list A) io y :
  NoDup (map f (rev pre ++ l)) -> In io (rows_aux pre l) -> In y (snd io) -> f (fst io) <> f y.
Proof.
  revert pre. induction l as [|x xs IH]; intros pre ND Hio Hy; cbn [rows_aux] in Hio; [contradiction|].
  destruct Hio as [<-|Hio].
  - cbn [fst snd] in *. rewrite map_app in ND. cbn [map] in ND. apply NoDup_remove_2 in ND.
    intros E. apply ND. rewrite E, <- map_app. now apply in_map.
  - apply (IH (x :: pre)); [|exact Hio|exact Hy]. cbn [rev]. now rewrite <- app_assoc.
Qed.
Lemma rows_nodup_neq {A B} (f : A -> B) (l : list A) io y :
  NoDup (map f l) -> In io (rows l) -> In y (snd io) -> f (fst io) <> f y.
Proof. intros ND. apply (rows_aux_nodup_neq f [] l). exact ND. Qed.

Lemma ladder_aux_nodup_neq {A B} (f : A -> B) (prev : option A) (l : list A) io y :
  NoDup (map f (opt_list prev ++ l)) -> In io (combine l (ladder_aux prev l)) -> In y (snd io) ->
  f (fst io) <> f y.
Proof.
  revert prev. induction l as [|x xs IH]; intros prev ND Hio Hy; cbn [ladder_aux combine] in Hio; [contradiction|].
  assert (NDx : NoDup (map f (x :: xs))).
  { destruct prev; cbn [opt_list app map] in ND; [now inversion ND|exact ND]. }
  destruct Hio as [<-|Hio].
  - cbn [fst snd] in *. apply in_app_or in Hy. destruct Hy as [Hy|Hy].
    + destruct prev as [p|]; cbn in Hy; [|contradiction]. destruct Hy as [<-|[]].
      cbn [opt_list app map] in ND. inversion ND as [|? ? Hp _]; subst. intros E. apply Hp. rewrite <- E. now left.
    + destruct xs as [|z zs]; cbn in Hy; [contradiction|]. destruct Hy as [<-|[]].
      cbn [map] in NDx. inversion NDx as [|? ? Hp _]; subst. intros E. apply Hp. rewrite E. now left.
  - apply (IH (Some x)); [exact NDx|exact Hio|exact Hy].
Qed.
Lemma ladder_nodup_neq {A B} (f : A -> B) (l : list A) io y :
  NoDup (map f l) -> In io (combine l (ladder_pairs l)) -> In y (snd io) -> f (fst io) <> f y.
Proof. intros ND. apply (ladder_aux_nodup_neq f None l). exact ND. Qed.

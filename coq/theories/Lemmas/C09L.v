(** * C09L: predict_win is a probability distribution that respects symmetry and skill.

    Under [gc_sym] the result of [predict_win] has one uniform description, for two teams
    and for more: the value of team [x] is
      [Hval beta k l x = (sum_{y in l} w x y  -  w x x) / (n (n-1) / 2)],
    [w x y = Phi ((Tmu x - Tmu y) / sqrt (k beta^2 + Tvar x + Tvar y))] ([C12L.win_term]),
    where [k] is the number of players for two teams and the number of teams otherwise
    ([kN]).  The sum over the whole list is invariant under permutations, which gives
    equivariance; [w x y + w y x = 1] gives the total; monotonicity of [Phi] gives the rest. *)
From Coq Require Import List ZArith Bool Arith Reals Lra Lia Permutation.
From OSV Require Import Num Order Gauss Core Predict RInst.
From OSV.Lemmas Require Import PredictL C12L.
Import ListNotations.

(** ** Carrier-polymorphic: two identical teams get exactly one half each *)
Section Half.
Context {F : Type} {N : Num F}.
Hypothesis sub_diag : forall x : F, fsub x x = fzero.
Hypothesis div_zero : forall s : F, fdiv fzero s = fzero.
Hypothesis cdf_zero : cdf (fzero : F) = fhalf.
Hypothesis one_minus_half : fsub (fone : F) fhalf = fhalf.

Lemma two_identical_half (beta : F) (t : list (rating F)) : predict_win beta [t; t] = [fhalf; fhalf].
Proof.
  unfold predict_win. cbv zeta. rewrite sub_diag, div_zero, cdf_zero, one_minus_half. reflexivity.
Qed.
End Half.

(** a small concrete carrier on which the four laws hold: fixed-point numbers with unit 1/2
    on Z (the integer [v] stands for [v / 2]) *)
Definition ZHalfNum : Num Z := {|
  fadd := Z.add; fsub := Z.sub; fmul := fun a b => (a * b / 2)%Z; fdiv := fun a b => (2 * a / b)%Z;
  fneg := Z.opp; fabs := Z.abs; fsqrt := fun a => Z.sqrt (2 * a); fexp := fun a => a;
  ferfc := fun _ => 2%Z; fpow2 := fun a => (a * a / 2)%Z; ficdf := fun a => a;
  fltb := Z.ltb; fleb := Z.leb; feqb := Z.eqb; ffinite := fun _ => true;
  fofZ := fun z => (2 * z)%Z;
  fofdy := fun m e => (if Z.ltb e 0 then 2 * m / 2 ^ (- e) else 2 * m * 2 ^ e)%Z;
  ftau := 13%Z |}.

Lemma ZHalf_laws :
  (forall x : Z, @fsub Z ZHalfNum x x = @fzero Z ZHalfNum)
  /\ (forall s : Z, @fdiv Z ZHalfNum (@fzero Z ZHalfNum) s = @fzero Z ZHalfNum)
  /\ @cdf Z ZHalfNum (@fzero Z ZHalfNum) = @fhalf Z ZHalfNum
  /\ @fsub Z ZHalfNum (@fone Z ZHalfNum) (@fhalf Z ZHalfNum) = @fhalf Z ZHalfNum.
Proof.
  repeat split.
  intros x. cbn. apply Z.sub_diag.
Qed.

Open Scope R_scope.

Lemma Rsum_map_bounds_le {A} (f : A -> R) l :
  (forall a, In a l -> 0 <= f a <= 1) -> 0 <= Rsum (map f l) <= INR (length l).
Proof.
  induction l as [|a l IH]; intros H; [cbn; lra|].
  pose proof (H a (or_introl eq_refl)) as Ha.
  cbn [map Rsum]. change (length (a :: l)) with (S (length l)). rewrite S_INR.
  assert (0 <= Rsum (map f l) <= INR (length l)) by (apply IH; intros c Hc; apply H; now right).
  lra.
Qed.

(** ** The scale multiplier: players for two teams, teams otherwise *)
Definition kN {X} (teams : list (list X)) : nat :=
  match teams with [ta; tb] => (length ta + length tb)%nat | _ => length teams end.

Lemma kN_alt {X} (teams : list (list X)) :
  kN teams = if Nat.eqb (length teams) 2 then length (concat teams) else length teams.
Proof.
  destruct teams as [|a [|b [|c r]]]; try reflexivity.
  cbn [kN length Nat.eqb concat]. rewrite app_length, app_nil_r. reflexivity.
Qed.
Lemma perm_concat_length {X} (l l' : list (list X)) :
  Permutation l l' -> length (concat l) = length (concat l').
Proof. induction 1; cbn [concat]; rewrite ?app_length in *; lia. Qed.
Lemma kN_perm {X} (l l' : list (list X)) : Permutation l l' -> kN l = kN l'.
Proof.
  intros HP. rewrite !kN_alt, (Permutation_length HP), (perm_concat_length _ _ HP). reflexivity.
Qed.
Lemma kN_replace {X} (l1 l2 : list (list X)) t t' :
  length t = length t' -> kN (l1 ++ t' :: l2) = kN (l1 ++ t :: l2).
Proof.
  intros Hl. rewrite !kN_alt, !concat_app. cbn [concat]. rewrite !app_length. cbn [length]. rewrite ?app_length, Hl.
  reflexivity.
Qed.
Lemma kN_pos {X} (teams : list (list X)) :
  (2 <= length teams)%nat -> Forall (fun t => t <> []) teams -> (1 <= kN teams)%nat.
Proof.
  intros Hn Hne. destruct teams as [|a [|b [|c r]]]; cbn [length] in Hn; try lia.
  - inversion Hne as [|? ? Ha _]; subst. destruct a; [congruence|]. cbn. lia.
  - cbn. lia.
Qed.

Section C09.
Variables Phi Phiinv : R -> R.
Hypothesis GF : GaussCDF Phi Phiinv.
Local Instance RN : Num R := RNum Phi Phiinv.

Notation w := (win_term Phi).

Definition Hval (beta : R) (k : nat) (l : list (list (rating R))) (x : list (rating R)) : R :=
  (Rsum (map (w beta k x) l) - w beta k x x) / (INR (length l) * (INR (length l) - 1) / 2).

(** *** facts about one pairwise term *)
Lemma w_range beta k x y : 0 < w beta k x y < 1.
Proof. unfold win_term. apply (gc_range _ _ GF). Qed.

Lemma w_compl beta k x y : w beta k x y + w beta k y x = 1.
Proof.
  unfold win_term. rewrite (pscale_sym beta k x y).
  replace ((Tmu y - Tmu x) / pscale beta k x y) with (- ((Tmu x - Tmu y) / pscale beta k x y))
    by (unfold Rdiv; ring).
  rewrite (gc_sym _ _ GF). lra.
Qed.

Lemma w_ext beta k x x' y y' :
  Tmu x = Tmu x' -> Tvar x = Tvar x' -> Tmu y = Tmu y' -> Tvar y = Tvar y' ->
  w beta k x y = w beta k x' y'.
Proof. intros E1 E2 E3 E4. unfold win_term, pscale. now rewrite E1, E2, E3, E4. Qed.

Lemma w_mono_l beta k x x' y : 0 < beta -> (1 <= k)%nat ->
  Tmu x <= Tmu x' -> Tvar x = Tvar x' -> w beta k x y <= w beta k x' y.
Proof.
  intros Hb Hk Hm Hv. unfold win_term.
  assert (Es : pscale beta k x' y = pscale beta k x y) by (unfold pscale; now rewrite Hv). rewrite Es.
  pose proof (pscale_pos beta k x y Hb Hk) as Hs.
  apply (Phi_le Phi Phiinv GF). unfold Rdiv. apply Rmult_le_compat_r; [left; now apply Rinv_0_lt_compat|lra].
Qed.
Lemma w_mono_r beta k x y y' : 0 < beta -> (1 <= k)%nat ->
  Tmu y <= Tmu y' -> Tvar y = Tvar y' -> w beta k x y' <= w beta k x y.
Proof.
  intros Hb Hk Hm Hv. unfold win_term.
  assert (Es : pscale beta k x y' = pscale beta k x y) by (unfold pscale; now rewrite Hv). rewrite Es.
  pose proof (pscale_pos beta k x y Hb Hk) as Hs.
  apply (Phi_le Phi Phiinv GF). unfold Rdiv. apply Rmult_le_compat_r; [left; now apply Rinv_0_lt_compat|lra].
Qed.

(** *** the uniform description of [predict_win] *)
Lemma predict_win_H beta teams : (2 <= length teams)%nat ->
  predict_win beta teams = map (Hval beta (kN teams) teams) teams.
Proof.
  intros Hn. destruct teams as [|a [|b [|c r]]]; cbn [length] in Hn; try lia.
  - rewrite (R_predict_win2 Phi Phiinv). fold (w beta (length a + length b) a b).
    unfold Hval. cbn [map Rsum length kN].
    pose proof (w_compl beta (length a + length b)%nat a b) as E.
    replace (INR 2) with 2 by (cbn; lra).
    f_equal; [|f_equal]; field_simplify; lra.
  - rewrite (R_predict_win_rows Phi Phiinv) by (cbn [length]; lia).
    exact (rows_map_minus (fun x y => w beta (length (a :: b :: c :: r)) x y)
             (fun s => s / (INR (length (a :: b :: c :: r)) * (INR (length (a :: b :: c :: r)) - 1) / 2))
             (a :: b :: c :: r)).
Qed.

Lemma nth_predict_win beta teams i : (2 <= length teams)%nat -> (i < length teams)%nat ->
  nth i (predict_win beta teams) 0 = Hval beta (kN teams) teams (nth i teams []).
Proof.
  intros Hn Hi. rewrite predict_win_H by exact Hn.
  rewrite (nth_indep _ 0 (Hval beta (kN teams) teams [])) by now rewrite map_length.
  apply map_nth.
Qed.

(** *** range *)
Lemma Hval_split beta k l1 x l2 :
  Hval beta k (l1 ++ x :: l2) x
  = Rsum (map (w beta k x) (l1 ++ l2))
    / (INR (length (l1 ++ x :: l2)) * (INR (length (l1 ++ x :: l2)) - 1) / 2).
Proof. unfold Hval. f_equal. rewrite !map_app, !Rsum_app. cbn [map Rsum]. lra. Qed.

Lemma Hval_range beta k l x : (2 <= length l)%nat -> In x l -> 0 < Hval beta k l x < 1.
Proof.
  intros Hn Hin. apply in_split in Hin as [l1 [l2 ->]]. rewrite Hval_split.
  assert (Hlen : length (l1 ++ x :: l2) = S (length (l1 ++ l2))) by (rewrite !app_length; cbn [length]; lia).
  rewrite Hlen in *. set (m := length (l1 ++ l2)) in *.
  assert (Hne : l1 ++ l2 <> []) by (intros E; subst m; rewrite E in Hn; cbn in Hn; lia).
  pose proof (Rsum_map_bounds (w beta k x) (l1 ++ l2) (fun a _ => w_range beta k x a) Hne) as [HS0 HS1].
  fold m in HS1. set (S := Rsum (map (w beta k x) (l1 ++ l2))) in *.
  assert (Hm : 1 <= INR m) by (change 1 with (INR 1); apply le_INR; lia).
  rewrite S_INR. set (M := INR m) in *.
  assert (Hhp : 0 < (M + 1) * (M + 1 - 1) / 2) by nra.
  split.
  - now apply Rdiv_lt_0_compat.
  - apply Rmult_lt_reg_r with ((M + 1) * (M + 1 - 1) / 2); [exact Hhp|].
    unfold Rdiv at 1. rewrite Rmult_assoc, Rinv_l by lra. nra.
Qed.

(** *** total *)
Lemma Hval_sum_one beta k l : (2 <= length l)%nat -> Rsum (map (Hval beta k l) l) = 1.
Proof.
  intros Hn. unfold Hval.
  rewrite (Rsum_map_div (fun x => Rsum (map (w beta k x) l) - w beta k x x)).
  rewrite (pair_sum_complement (w beta k) l) by (intros; apply w_compl).
  assert (2 <= INR (length l)) by (change 2 with (INR 2); now apply le_INR).
  field. repeat split; lra.
Qed.

(** *** permutations *)
Lemma Hval_perm beta k l l' x : Permutation l l' -> Hval beta k l x = Hval beta k l' x.
Proof.
  intros HP. unfold Hval. rewrite (Permutation_length HP).
  now rewrite (Rsum_perm _ _ (Permutation_map (w beta k x) HP)).
Qed.

Lemma predict_win_equivariant beta teams teams' : (2 <= length teams)%nat -> Permutation teams teams' ->
  Permutation (combine teams (predict_win beta teams)) (combine teams' (predict_win beta teams')).
Proof.
  intros Hn HP.
  assert (Hn' : (2 <= length teams')%nat) by now rewrite <- (Permutation_length HP).
  rewrite !predict_win_H by assumption. rewrite !combine_map_self.
  rewrite <- (kN_perm _ _ HP).
  rewrite (map_ext (fun x => (x, Hval beta (kN teams) teams' x)) (fun x => (x, Hval beta (kN teams) teams x)))
    by (intros x; now rewrite (Hval_perm beta (kN teams) teams teams' x HP)).
  now apply Permutation_map.
Qed.

(** *** identical teams *)
Lemma Hval_ext beta k l x x' : Tmu x = Tmu x' -> Tvar x = Tvar x' -> Hval beta k l x = Hval beta k l x'.
Proof.
  intros E1 E2. unfold Hval. rewrite (w_ext beta k x x' x x') by assumption.
  rewrite (map_ext (w beta k x) (w beta k x')) by (intros y; now apply w_ext). reflexivity.
Qed.

(** *** raising a member's mu *)
Lemma Hval_mono_own beta k l1 l2 t t' : 0 < beta -> (1 <= k)%nat -> (2 <= length (l1 ++ t :: l2))%nat ->
  Tmu t <= Tmu t' -> Tvar t = Tvar t' ->
  Hval beta k (l1 ++ t :: l2) t <= Hval beta k (l1 ++ t' :: l2) t'.
Proof.
  intros Hb Hk Hn Hm Hv. rewrite !Hval_split.
  assert (Hlen : length (l1 ++ t' :: l2) = length (l1 ++ t :: l2)) by (rewrite !app_length; reflexivity).
  rewrite Hlen. pose proof (half_pairs_pos _ Hn) as Hhp.
  unfold Rdiv. apply Rmult_le_compat_r; [left; now apply Rinv_0_lt_compat|].
  apply Rsum_map_le. intros y _. now apply w_mono_l.
Qed.
Lemma Hval_mono_other beta k l1 l2 t t' x : 0 < beta -> (1 <= k)%nat -> (2 <= length (l1 ++ t :: l2))%nat ->
  Tmu t <= Tmu t' -> Tvar t = Tvar t' ->
  Hval beta k (l1 ++ t' :: l2) x <= Hval beta k (l1 ++ t :: l2) x.
Proof.
  intros Hb Hk Hn Hm Hv. unfold Hval.
  assert (Hlen : length (l1 ++ t' :: l2) = length (l1 ++ t :: l2)) by (rewrite !app_length; reflexivity).
  rewrite Hlen. pose proof (half_pairs_pos _ Hn) as Hhp.
  unfold Rdiv. apply Rmult_le_compat_r; [left; now apply Rinv_0_lt_compat|].
  rewrite !map_app, !Rsum_app. cbn [map Rsum].
  pose proof (w_mono_r beta k x t t' Hb Hk Hm Hv). lra.
Qed.

(** replacing one member by one with the same sigma and a mu at least as large *)
Lemma Tmu_replace p1 p p' p2 : Tmu (p1 ++ p' :: p2) - Tmu (p1 ++ p :: p2) = r_mu p' - r_mu p.
Proof. unfold Tmu. rewrite !map_app, !Rsum_app. cbn [map Rsum]. lra. Qed.
Lemma Tvar_replace p1 p p' p2 : r_sigma p' = r_sigma p -> Tvar (p1 ++ p' :: p2) = Tvar (p1 ++ p :: p2).
Proof. intros E. unfold Tvar. rewrite !map_app, !Rsum_app. cbn [map Rsum]. rewrite E. reflexivity. Qed.

Lemma nth_replace_other {X} (l1 l2 : list X) a a' d j : j <> length l1 ->
  nth j (l1 ++ a' :: l2) d = nth j (l1 ++ a :: l2) d.
Proof.
  intros Hj. destruct (Nat.lt_ge_cases j (length l1)) as [Hlt|Hge].
  - now rewrite !app_nth1 by exact Hlt.
  - rewrite !app_nth2 by exact Hge. destruct (j - length l1)%nat as [|m] eqn:E; [lia|reflexivity].
Qed.

(** *** the theorems about [predict_win] *)
Section Statements.
Variable beta : R.
Hypothesis Hbeta : 0 < beta.

Lemma C09_range_strict teams v : (2 <= length teams)%nat -> Forall (fun t => t <> []) teams ->
  In v (predict_win beta teams) -> 0 < v < 1.
Proof.
  intros Hn _ Hin. rewrite predict_win_H in Hin by exact Hn.
  apply in_map_iff in Hin as [x [<- Hx]]. now apply Hval_range.
Qed.
Lemma C09_range teams v : (2 <= length teams)%nat -> Forall (fun t => t <> []) teams ->
  In v (predict_win beta teams) -> 0 <= v <= 1.
Proof. intros Hn Hne Hin. pose proof (C09_range_strict teams v Hn Hne Hin). lra. Qed.

Lemma C09_sum_one teams : (2 <= length teams)%nat -> Forall (fun t => t <> []) teams ->
  Rsum (predict_win beta teams) = 1.
Proof. intros Hn _. rewrite predict_win_H by exact Hn. now apply Hval_sum_one. Qed.

Lemma C09_equivariant teams teams' : (2 <= length teams)%nat -> Forall (fun t => t <> []) teams ->
  Permutation teams teams' ->
  Permutation (combine teams (predict_win beta teams)) (combine teams' (predict_win beta teams')).
Proof. intros Hn _ HP. now apply predict_win_equivariant. Qed.

(** positional form: wherever a team goes, its probability goes with it *)
Lemma C09_equivariant_nth teams teams' i j : (2 <= length teams)%nat -> Forall (fun t => t <> []) teams ->
  Permutation teams teams' -> (i < length teams')%nat -> (j < length teams)%nat ->
  nth i teams' [] = nth j teams [] ->
  nth i (predict_win beta teams') 0 = nth j (predict_win beta teams) 0.
Proof.
  intros Hn _ HP Hi Hj E.
  assert (Hn' : (2 <= length teams')%nat) by now rewrite <- (Permutation_length HP).
  rewrite !nth_predict_win by assumption.
  rewrite E, <- (kN_perm _ _ HP). symmetry. now apply Hval_perm.
Qed.

Lemma C09_identical_equal teams i j : (2 <= length teams)%nat -> Forall (fun t => t <> []) teams ->
  (i < length teams)%nat -> (j < length teams)%nat ->
  Tmu (nth i teams []) = Tmu (nth j teams []) -> Tvar (nth i teams []) = Tvar (nth j teams []) ->
  nth i (predict_win beta teams) 0 = nth j (predict_win beta teams) 0.
Proof.
  intros Hn _ Hi Hj E1 E2. rewrite !nth_predict_win by assumption. now apply Hval_ext.
Qed.

Lemma C09_mono_own l1 l2 p1 p2 p p' :
  (2 <= length (l1 ++ (p1 ++ p :: p2) :: l2))%nat -> Forall (fun t => t <> []) (l1 ++ (p1 ++ p :: p2) :: l2) ->
  r_sigma p' = r_sigma p -> r_mu p <= r_mu p' ->
  nth (length l1) (predict_win beta (l1 ++ (p1 ++ p :: p2) :: l2)) 0
  <= nth (length l1) (predict_win beta (l1 ++ (p1 ++ p' :: p2) :: l2)) 0.
Proof.
  intros Hn Hne Hs Hm.
  assert (Hn' : (2 <= length (l1 ++ (p1 ++ p' :: p2) :: l2))%nat) by (rewrite app_length in *; exact Hn).
  rewrite !nth_predict_win; try assumption; try (rewrite app_length; cbn [length]; lia).
  rewrite !nth_middle.
  rewrite (kN_replace l1 l2 (p1 ++ p :: p2) (p1 ++ p' :: p2)) by (rewrite !app_length; reflexivity).
  apply Hval_mono_own; try assumption.
  - now apply kN_pos.
  - pose proof (Tmu_replace p1 p p' p2). lra.
  - symmetry. now apply Tvar_replace.
Qed.

Lemma C09_mono_other l1 l2 p1 p2 p p' j :
  (2 <= length (l1 ++ (p1 ++ p :: p2) :: l2))%nat -> Forall (fun t => t <> []) (l1 ++ (p1 ++ p :: p2) :: l2) ->
  r_sigma p' = r_sigma p -> r_mu p <= r_mu p' ->
  (j < length (l1 ++ (p1 ++ p :: p2) :: l2))%nat -> j <> length l1 ->
  nth j (predict_win beta (l1 ++ (p1 ++ p' :: p2) :: l2)) 0
  <= nth j (predict_win beta (l1 ++ (p1 ++ p :: p2) :: l2)) 0.
Proof.
  intros Hn Hne Hs Hm Hj Hji.
  assert (Hlen : length (l1 ++ (p1 ++ p' :: p2) :: l2) = length (l1 ++ (p1 ++ p :: p2) :: l2))
    by (rewrite !app_length; reflexivity).
  rewrite !nth_predict_win; try assumption; try (rewrite Hlen; assumption).
  rewrite (nth_replace_other l1 l2 (p1 ++ p :: p2) (p1 ++ p' :: p2) [] j Hji).
  rewrite (kN_replace l1 l2 (p1 ++ p :: p2) (p1 ++ p' :: p2)) by (rewrite !app_length; reflexivity).
  apply Hval_mono_other; try assumption.
  - now apply kN_pos.
  - pose proof (Tmu_replace p1 p p' p2). lra.
  - symmetry. now apply Tvar_replace.
Qed.

(** two identical teams: exactly one half each, from the polymorphic statement *)
Lemma C09_two_identical_half_R (t : list (rating R)) : t <> [] -> predict_win beta [t; t] = [/ 2; / 2].
Proof.
  intros _.
  assert (L1 : forall x : R, fsub x x = fzero) by (intros x; cbn; lra).
  assert (L2 : forall s : R, fdiv fzero s = fzero) by (intros s; cbn; unfold Rdiv; lra).
  assert (Eh : (fhalf : R) = / 2) by exact (R_fhalf Phi Phiinv).
  assert (L3 : cdf (fzero : R) = fhalf).
  { rewrite Eh. rewrite (R_cdf Phi Phiinv). exact (Phi_half Phi Phiinv GF). }
  assert (L4 : fsub (fone : R) fhalf = fhalf) by (rewrite Eh; cbn; lra).
  rewrite (two_identical_half L1 L2 L3 L4 beta t). now rewrite Eh.
Qed.
End Statements.
End C09.

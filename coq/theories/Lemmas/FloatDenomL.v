(** * FloatDenomL: in IEEE 754 binary64 (Flocq, round to nearest even) every divisor the model
    computes is a non-zero double and every argument of [math.sqrt] is a non-negative double,
    on the valid domain (float-level core of property C08: no ZeroDivisionError, no ValueError).

    All statements are about the very doubles computed ([B2R] of the model's own terms on the
    instance [B64Num fe fc fp fi]); no rounding slack.  The only arithmetic facts used are:
    rounding is monotone and doubles (0, 1, the operands) are its fixed points, hence
    fl(a + b) >= b for a >= 0, fl(2 b) >= b and fl(n b) >= b for b >= 0, n >= 1;
    the correctly rounded square root of a positive double is a positive double (>= 2^-537);
    a float sum of non-negative doubles is >= each of its summands.
    "finite" hypotheses = no overflow of the named sum. *)
From Coq Require Import List ZArith Bool Arith Reals Lra Lia.
From Flocq Require Import Core.Raux Core.Defs Core.Zaux Core.Generic_fmt Core.FLT Core.Float_prop
  IEEE754.BinarySingleNaN IEEE754.Binary IEEE754.Bits.
From OSV Require Import Num Order Gauss Core Predict FloatInst.
From OSV.Lemmas Require Import FloatOrderL FloatSignL FloatRangeL.
Import ListNotations.
Open Scope R_scope.

(** ** Basic facts *)

(** a double with positive real value is finite, and at least 2^-1074 *)
Lemma b64_pos_fin (x : binary64) : 0 < RV x -> fin x = true.
Proof.
  destruct x as [s|s|s pl H|s m e H]; cbn [B2R is_finite]; intros Hx; try reflexivity; lra.
Qed.

Lemma b64_pos_ge_min (x : binary64) : 0 < RV x -> bpow radix2 (-1074) <= RV x.
Proof.
  destruct x as [s|s|s pl H|s m e H]; cbn [B2R]; intros Hx; try lra.
  destruct s.
  - exfalso. assert (F2R (Float radix2 (cond_Zopp true (Z.pos m)) e) < 0); [|lra].
    apply F2R_lt_0. cbn. reflexivity.
  - cbn [cond_Zopp].
    apply Rle_trans with (bpow radix2 e); [|apply bpow_le_F2R; reflexivity].
    apply bpow_le.
    unfold SpecFloat.bounded, SpecFloat.canonical_mantissa in H. apply andb_true_iff in H. destruct H as (H1 & _).
    apply Zeq_bool_eq in H1. unfold SpecFloat.fexp, SpecFloat.emin in H1. lia.
Qed.

(** the correctly rounded square root of a positive double is a positive finite double,
    in fact >= 2^-537 (the square root of the smallest positive double) *)
Lemma b64_sqrt_pos (x : binary64) :
  0 < RV x ->
  fin (b64_sqrt mode_NE x) = true /\ bpow radix2 (-537) <= RV (b64_sqrt mode_NE x).
Proof.
  intros Hx. split.
  - change (b64_sqrt mode_NE x) with (Bsqrt 53 1024 Hprec64 Hmax64 unop_nan_pl64 mode_NE x).
    destruct (Bsqrt_correct 53 1024 Hprec64 Hmax64 unop_nan_pl64 mode_NE x) as (_ & HF & _).
    rewrite HF.
    destruct x as [s|s|s pl H|s m e H]; cbn [B2R] in Hx; try lra.
    destruct s; [|reflexivity].
    exfalso. assert (F2R (Float radix2 (cond_Zopp true (Z.pos m)) e) < 0); [|lra].
    apply F2R_lt_0. cbn. reflexivity.
  - rewrite b64_sqrt_val.
    apply rnd_ge_fmt.
    + apply generic_format_bpow. vm_compute. intros H; discriminate H.
    + replace (bpow radix2 (-537)) with (sqrt (bpow radix2 (2 * -537))) by apply sqrt_bpow.
      apply sqrt_le_1_alt. apply b64_pos_ge_min. exact Hx.
Qed.

Lemma bpow_m537_pos : 0 < bpow radix2 (-537).
Proof. apply bpow_gt_0. Qed.

Lemma b64_sqrt_pos' (x : binary64) :
  0 < RV x -> fin (b64_sqrt mode_NE x) = true /\ 0 < RV (b64_sqrt mode_NE x).
Proof.
  intros Hx. destruct (b64_sqrt_pos x Hx) as (F & H). split; [exact F|].
  pose proof bpow_m537_pos. lra.
Qed.

(** fl(x * y) >= y for x >= 1 and y >= 0 *)
Lemma b64_mult_ge_r (x y : binary64) :
  fin (b64_mult mode_NE x y) = true -> 1 <= RV x -> 0 <= RV y ->
  RV y <= RV (b64_mult mode_NE x y).
Proof.
  intros Hf Hx Hy. destruct (b64_mult_val x y Hf) as (HR & _). rewrite HR.
  apply rnd_ge_B2R. nra.
Qed.

Lemma b64_two_val : fin (b64_of_Z 2) = true /\ RV (b64_of_Z 2) = 2.
Proof. exact (b64_of_Z_ok 2 ltac:(lia)). Qed.

(** comparisons: the branch [not (d < eps)] on a finite [d] gives [eps <= d] *)
Lemma b64_ltb_false_ge (d e : binary64) :
  fin d = true -> fin e = true -> b64_ltb d e = false -> RV e <= RV d.
Proof.
  intros Fd Fe H. rewrite (b64_ltb_spec d e Fd Fe) in H.
  destruct (Rlt_bool_spec (RV d) (RV e)) as [Hlt|Hge]; [discriminate H | exact Hge].
Qed.

(** two concrete doubles: 1.5 and 0.75 *)
Definition b64_1p5 : binary64 := B754_finite 53 1024 false 6755399441055744 (-52) eq_refl.
Definition b64_0p75 : binary64 := B754_finite 53 1024 false 6755399441055744 (-53) eq_refl.
Lemma b64_1p5_val : RV b64_1p5 = 3 / 2.
Proof. unfold b64_1p5, B2R, F2R. cbn. lra. Qed.
Lemma b64_0p75_val : RV b64_0p75 = 3 / 4.
Proof. unfold b64_0p75, B2R, F2R. cbn. lra. Qed.

(** the stand-in [x ** 2 := fl(x * x)] used in the examples does not underflow to zero on
    |x| >= 2^-537 *)
Lemma b64_square_pos (x : binary64) :
  fin (b64_mult mode_NE x x) = true -> bpow radix2 (-537) <= RV x -> 0 < RV (b64_mult mode_NE x x).
Proof.
  intros Hf Hx. destruct (b64_mult_val x x Hf) as (HR & _). rewrite HR.
  apply Rlt_le_trans with (bpow radix2 (-1074)); [apply bpow_gt_0|].
  apply rnd_ge_fmt.
  - apply generic_format_bpow. vm_compute. intros H; discriminate H.
  - change (-1074)%Z with (-537 + -537)%Z. rewrite bpow_plus.
    pose proof bpow_m537_pos. apply Rmult_le_compat; lra.
Qed.

(** ** The model on binary64 *)
Section Model.
Variables fe fc fp fi : binary64 -> binary64.
Notation BN := (B64Num fe fc fp fi).

(** *** (5) float sums of non-negative doubles: the team variance [t_ss] *)
Lemma reduce_add_nonneg (l : list binary64) :
  fin (@reduce_add binary64 BN l) = true -> (forall y, In y l -> 0 <= RV y) ->
  0 <= RV (@reduce_add binary64 BN l).
Proof.
  intros Hf Hl. destruct l as [|a xs].
  - cbn [reduce_add]. change (@fzero binary64 BN) with (b64_of_Z 0). rewrite b64_zero_val. lra.
  - destruct (reduce_add_ge fe fc fp fi (a :: xs) a Hf Hl (or_introl eq_refl)) as (_ & H).
    pose proof (Hl a (or_introl eq_refl)). lra.
Qed.

Lemma reduce_add_pos (l : list binary64) (x : binary64) :
  fin (@reduce_add binary64 BN l) = true -> (forall y, In y l -> 0 <= RV y) ->
  In x l -> 0 < RV x -> 0 < RV (@reduce_add binary64 BN l).
Proof.
  intros Hf Hl Hx Hp. destruct (reduce_add_ge fe fc fp fi l x Hf Hl Hx) as (_ & H). lra.
Qed.

(** the sum of the members' [sigma ** 2], as [team_rating] ([t_ss]) and [agg] ([snd]) compute it *)
Lemma sum_sq_nonneg (team : list (rating binary64)) :
  (forall p, In p team -> 0 <= RV (@fpow2 binary64 BN (r_sigma p))) ->
  fin (@reduce_add binary64 BN (map (fun p => @fpow2 binary64 BN (r_sigma p)) team)) = true ->
  0 <= RV (@reduce_add binary64 BN (map (fun p => @fpow2 binary64 BN (r_sigma p)) team)).
Proof.
  intros Hall Hf. apply reduce_add_nonneg; [exact Hf|].
  intros y Hy. apply in_map_iff in Hy. destruct Hy as (p & <- & Hp). apply Hall. exact Hp.
Qed.

Lemma sum_sq_pos (team : list (rating binary64)) (p : rating binary64) :
  (forall q, In q team -> 0 <= RV (@fpow2 binary64 BN (r_sigma q))) ->
  In p team -> 0 < RV (@fpow2 binary64 BN (r_sigma p)) ->
  fin (@reduce_add binary64 BN (map (fun q => @fpow2 binary64 BN (r_sigma q)) team)) = true ->
  0 < RV (@reduce_add binary64 BN (map (fun q => @fpow2 binary64 BN (r_sigma q)) team)).
Proof.
  intros Hall Hp Hpos Hf.
  apply (reduce_add_pos _ (@fpow2 binary64 BN (r_sigma p)) Hf).
  - intros y Hy. apply in_map_iff in Hy. destruct Hy as (q & <- & Hq). apply Hall. exact Hq.
  - apply (in_map (fun q => @fpow2 binary64 BN (r_sigma q))). exact Hp.
  - exact Hpos.
Qed.

(** [t_ss] of a team: >= 0, and > 0 as soon as one member has [sigma ** 2 > 0]
    (the divisor of [update_player]'s share [sigma^2 / t_ss]; the argument of [sqrt] in
    [gamma_default]) *)
Lemma team_ss_b64 (team : list (rating binary64)) (rank : nat) :
  (forall q, In q team -> 0 <= RV (@fpow2 binary64 BN (r_sigma q))) ->
  fin (t_ss (@team_rating binary64 BN team rank)) = true ->
  0 <= RV (t_ss (@team_rating binary64 BN team rank))
  /\ forall p, In p team -> 0 < RV (@fpow2 binary64 BN (r_sigma p)) ->
       0 < RV (t_ss (@team_rating binary64 BN team rank)).
Proof.
  intros Hall Hf. cbn [team_rating t_ss] in *. split.
  - apply sum_sq_nonneg; assumption.
  - intros p Hp Hpos. apply (sum_sq_pos team p); assumption.
Qed.

(** *** (1) the pairwise scale [c_iq] *)
Lemma c_iq_raw (si sq b2 : binary64) :
  0 <= RV si -> 0 <= RV sq -> 0 < RV b2 ->
  fin (b64_plus mode_NE (b64_plus mode_NE si sq) (b64_mult mode_NE (b64_of_Z 2) b2)) = true ->
  RV b2 <= RV (b64_plus mode_NE (b64_plus mode_NE si sq) (b64_mult mode_NE (b64_of_Z 2) b2))
  /\ fin (b64_sqrt mode_NE (b64_plus mode_NE (b64_plus mode_NE si sq) (b64_mult mode_NE (b64_of_Z 2) b2))) = true
  /\ bpow radix2 (-537)
     <= RV (b64_sqrt mode_NE (b64_plus mode_NE (b64_plus mode_NE si sq) (b64_mult mode_NE (b64_of_Z 2) b2))).
Proof.
  intros Hi Hq Hb Hf.
  destruct (b64_plus_fin_inv _ _ Hf) as (Fa & Fm).
  destruct (b64_plus_fin_inv _ _ Fa) as (Fi & Fq).
  pose proof (b64_plus_nonneg _ _ Fi Fq Fa Hi Hq) as Ha.
  assert (H2 : 1 <= RV (b64_of_Z 2)) by (rewrite (proj2 b64_two_val); lra).
  pose proof (b64_mult_ge_r _ _ Fm H2 (Rlt_le _ _ Hb)) as Hm.
  pose proof (b64_plus_ge_r _ _ Fa Fm Hf Ha) as Hr.
  assert (Hrad : RV b2 <= RV (b64_plus mode_NE (b64_plus mode_NE si sq) (b64_mult mode_NE (b64_of_Z 2) b2))) by lra.
  split; [exact Hrad|]. apply b64_sqrt_pos. lra.
Qed.

Lemma c_iq_pos_b64 (P : params binary64) (ti tq : trating binary64) :
  0 <= RV (t_ss ti) -> 0 <= RV (t_ss tq) ->
  0 < RV (@fpow2 binary64 BN (p_beta P)) ->
  fin (@fadd binary64 BN (@fadd binary64 BN (t_ss ti) (t_ss tq))
         (@fmul binary64 BN (@ftwo binary64 BN) (@fpow2 binary64 BN (p_beta P)))) = true ->
  0 < RV (@fadd binary64 BN (@fadd binary64 BN (t_ss ti) (t_ss tq))
            (@fmul binary64 BN (@ftwo binary64 BN) (@fpow2 binary64 BN (p_beta P))))
  /\ fin (@c_iq binary64 BN P ti tq) = true
  /\ 0 < RV (@c_iq binary64 BN P ti tq).
Proof.
  intros Hi Hq Hb Hf.
  destruct (c_iq_raw (t_ss ti) (t_ss tq) (fp (p_beta P)) Hi Hq Hb Hf) as (H1 & H2 & H3).
  pose proof bpow_m537_pos.
  split; [|split].
  - change (0 < RV (b64_plus mode_NE (b64_plus mode_NE (t_ss ti) (t_ss tq))
                      (b64_mult mode_NE (b64_of_Z 2) (fp (p_beta P))))).
    change (@fpow2 binary64 BN (p_beta P)) with (fp (p_beta P)) in Hb. lra.
  - exact H2.
  - change (0 < RV (b64_sqrt mode_NE (b64_plus mode_NE (b64_plus mode_NE (t_ss ti) (t_ss tq))
                      (b64_mult mode_NE (b64_of_Z 2) (fp (p_beta P)))))). lra.
Qed.

(** the Thurstone-Mosteller "partial" scale [2 * c_iq] *)
Lemma two_c_pos_b64 (c : binary64) :
  0 < RV c -> fin (@fmul binary64 BN (@ftwo binary64 BN) c) = true ->
  0 < RV (@fmul binary64 BN (@ftwo binary64 BN) c).
Proof.
  intros Hc Hf.
  assert (H2 : 1 <= RV (b64_of_Z 2)) by (rewrite (proj2 b64_two_val); lra).
  pose proof (b64_mult_ge_r (b64_of_Z 2) c Hf H2 (Rlt_le _ _ Hc)) as H.
  change (@fmul binary64 BN (@ftwo binary64 BN) c) with (b64_mult mode_NE (b64_of_Z 2) c). lra.
Qed.

(** *** (3) the logistic denominator [1 + e] *)
Lemma one_plus_ge_1 (e : binary64) :
  0 <= RV e -> fin (b64_plus mode_NE (b64_of_Z 1) e) = true ->
  1 <= RV (b64_plus mode_NE (b64_of_Z 1) e).
Proof.
  intros He Hf. destruct (b64_plus_fin_inv _ _ Hf) as (F1 & Fe).
  rewrite (b64_plus_val _ e F1 Fe Hf), b64_one_val. apply rnd_ge_1. lra.
Qed.

(** Bradley-Terry: every divisor of [bt_term] (and of [gamma_default] called from it) *)
Lemma bt_divisors_b64 (P : params binary64) (ti tq : trating binary64) :
  (forall x : binary64, fin x = true -> 0 <= RV (fe x)) ->
  0 <= RV (t_ss ti) -> 0 <= RV (t_ss tq) ->
  0 < RV (@fpow2 binary64 BN (p_beta P)) ->
  fin (@fadd binary64 BN (@fadd binary64 BN (t_ss ti) (t_ss tq))
         (@fmul binary64 BN (@ftwo binary64 BN) (@fpow2 binary64 BN (p_beta P)))) = true ->
  fin (@fdiv binary64 BN (@fsub binary64 BN (t_mu tq) (t_mu ti)) (@c_iq binary64 BN P ti tq)) = true ->
  fin (@fadd binary64 BN (@fone binary64 BN)
         (@fexp binary64 BN (@fdiv binary64 BN (@fsub binary64 BN (t_mu tq) (t_mu ti))
                               (@c_iq binary64 BN P ti tq)))) = true ->
  fin (@c_iq binary64 BN P ti tq) = true
  /\ 0 < RV (@c_iq binary64 BN P ti tq)
  /\ 1 <= RV (@fadd binary64 BN (@fone binary64 BN)
                (@fexp binary64 BN (@fdiv binary64 BN (@fsub binary64 BN (t_mu tq) (t_mu ti))
                                      (@c_iq binary64 BN P ti tq)))).
Proof.
  intros Hexp Hi Hq Hb Hf Farg F1e.
  destruct (c_iq_pos_b64 P ti tq Hi Hq Hb Hf) as (_ & Fc & Hc).
  split; [exact Fc|]. split; [exact Hc|].
  apply one_plus_ge_1; [|exact F1e]. apply Hexp. exact Farg.
Qed.

(** *** Plackett-Luce: the scale [pl_c] *)
Lemma pl_fold_fin_inv (b2 : binary64) (trs : list (trating binary64)) (acc : binary64) :
  fin (fold_left (fun a t => b64_plus mode_NE a (b64_plus mode_NE (t_ss t) b2)) trs acc) = true ->
  fin acc = true.
Proof.
  revert acc. induction trs as [|t rest IH]; intros acc Hf; cbn [fold_left] in Hf; [exact Hf|].
  pose proof (IH _ Hf) as Fa'. exact (proj1 (b64_plus_fin_inv _ _ Fa')).
Qed.

Lemma pl_fold_ge (b2 : binary64) (trs : list (trating binary64)) (acc : binary64) :
  fin (fold_left (fun a t => b64_plus mode_NE a (b64_plus mode_NE (t_ss t) b2)) trs acc) = true ->
  0 <= RV b2 -> (forall t, In t trs -> 0 <= RV (t_ss t)) -> 0 <= RV acc ->
  RV acc <= RV (fold_left (fun a t => b64_plus mode_NE a (b64_plus mode_NE (t_ss t) b2)) trs acc).
Proof.
  revert acc. induction trs as [|t rest IH]; intros acc Hf Hb Hss Ha; cbn [fold_left] in *; [apply Rle_refl|].
  pose proof (pl_fold_fin_inv _ _ _ Hf) as Fa'.
  destruct (b64_plus_fin_inv _ _ Fa') as (Fa & Fu).
  destruct (b64_plus_fin_inv _ _ Fu) as (Fs & Fb).
  assert (Hs : 0 <= RV (t_ss t)) by (apply Hss; left; reflexivity).
  pose proof (b64_plus_nonneg _ _ Fs Fb Fu Hs Hb) as Hu.
  pose proof (b64_plus_ge_l _ _ Fa Fu Fa' Hu) as Hl.
  assert (Ha' : 0 <= RV (b64_plus mode_NE acc (b64_plus mode_NE (t_ss t) b2))) by lra.
  pose proof (IH _ Hf Hb (fun t' Ht' => Hss t' (or_intror Ht')) Ha'). lra.
Qed.

Lemma pl_c_raw (b2 : binary64) (trs : list (trating binary64)) :
  trs <> [] -> (forall t, In t trs -> 0 <= RV (t_ss t)) -> 0 < RV b2 ->
  fin (fold_left (fun a t => b64_plus mode_NE a (b64_plus mode_NE (t_ss t) b2)) trs (b64_of_Z 0)) = true ->
  RV b2 <= RV (fold_left (fun a t => b64_plus mode_NE a (b64_plus mode_NE (t_ss t) b2)) trs (b64_of_Z 0)).
Proof.
  intros Hne Hss Hb Hf. destruct trs as [|t rest]; [contradiction Hne; reflexivity|].
  cbn [fold_left] in *.
  pose proof (pl_fold_fin_inv _ _ _ Hf) as Fa'.
  destruct (b64_plus_fin_inv _ _ Fa') as (F0 & Fu).
  destruct (b64_plus_fin_inv _ _ Fu) as (Fs & Fb).
  assert (Hs : 0 <= RV (t_ss t)) by (apply Hss; left; reflexivity).
  pose proof (b64_plus_ge_r _ _ Fs Fb Fu Hs) as Hu.
  assert (H0 : 0 <= RV (b64_of_Z 0)) by (rewrite b64_zero_val; lra).
  pose proof (b64_plus_ge_r _ _ F0 Fu Fa' H0) as Hr.
  assert (Ha' : 0 <= RV (b64_plus mode_NE (b64_of_Z 0) (b64_plus mode_NE (t_ss t) b2))) by lra.
  pose proof (pl_fold_ge b2 rest _ Hf (Rlt_le _ _ Hb) (fun t' Ht' => Hss t' (or_intror Ht')) Ha'). lra.
Qed.

Lemma pl_c_pos_b64 (P : params binary64) (trs : list (trating binary64)) :
  trs <> [] -> (forall t, In t trs -> 0 <= RV (t_ss t)) ->
  0 < RV (@fpow2 binary64 BN (p_beta P)) ->
  fin (fold_left (fun acc t => @fadd binary64 BN acc (@fadd binary64 BN (t_ss t) (@fpow2 binary64 BN (p_beta P))))
         trs (@fzero binary64 BN)) = true ->
  0 < RV (fold_left (fun acc t => @fadd binary64 BN acc (@fadd binary64 BN (t_ss t) (@fpow2 binary64 BN (p_beta P))))
            trs (@fzero binary64 BN))
  /\ fin (@pl_c binary64 BN P trs) = true
  /\ bpow radix2 (-537) <= RV (@pl_c binary64 BN P trs).
Proof.
  intros Hne Hss Hb Hf.
  pose proof (pl_c_raw (fp (p_beta P)) trs Hne Hss Hb Hf) as H.
  assert (Hpos : 0 < RV (fold_left (fun a t => b64_plus mode_NE a (b64_plus mode_NE (t_ss t) (fp (p_beta P))))
                           trs (b64_of_Z 0))).
  { change (@fpow2 binary64 BN (p_beta P)) with (fp (p_beta P)) in Hb. lra. }
  split; [exact Hpos|]. exact (b64_sqrt_pos _ Hpos).
Qed.

(** every entry of [pl_sum_q] is > 0 (each team is a summand of its own sum), for any scale [c] *)
Lemma pl_sum_q_pos_b64 (trs : list (trating binary64)) (c s : binary64) :
  (forall x : binary64, fin x = true -> 0 < RV (fe x)) ->
  (forall t, In t trs -> fin (@fdiv binary64 BN (t_mu t) c) = true) ->
  In s (@pl_sum_q binary64 BN trs c) -> fin s = true -> 0 < RV s.
Proof.
  intros Hexp Farg Hin Fs. unfold pl_sum_q in Hin.
  apply in_map_iff in Hin. destruct Hin as (tq & <- & Htq).
  apply (reduce_add_pos _ (fe (@fdiv binary64 BN (t_mu tq) c)) Fs).
  - intros y Hy. apply in_map_iff in Hy. destruct Hy as (t & <- & Ht).
    apply filter_In in Ht. apply Rlt_le. apply Hexp. apply Farg. apply Ht.
  - apply (in_map (fun t => @fexp binary64 BN (@fdiv binary64 BN (t_mu t) c))).
    apply filter_In. split; [exact Htq | apply Nat.leb_refl].
  - apply Hexp. apply Farg. exact Htq.
Qed.

(** every entry of [pl_a] is a count that includes the team itself: between 1 and the number of
    teams, so its conversion to float is exact-or-rounded >= 1 *)
Lemma pl_a_b64 (trs : list (trating binary64)) (a : nat) :
  (Z.of_nat (length trs) <= 9007199254740992)%Z -> In a (@pl_a binary64 trs) ->
  (1 <= a)%nat
  /\ fin (@fofZ binary64 BN (Z.of_nat a)) = true
  /\ 1 <= RV (@fofZ binary64 BN (Z.of_nat a)).
Proof.
  intros Hlen Hin. unfold pl_a in Hin. apply in_map_iff in Hin. destruct Hin as (ti & <- & Hti).
  set (n := length (filter (fun tq => Nat.eqb (t_rank ti) (t_rank tq)) trs)).
  assert (H1 : (1 <= n)%nat) by (apply (filter_length_pos _ trs ti Hti); apply Nat.eqb_refl).
  assert (H2 : (n <= length trs)%nat) by apply filter_length_le'.
  assert (Fn : fin (b64_of_Z (Z.of_nat n)) = true) by (apply b64_of_Z_fin_small; lia).
  split; [exact H1|]. split; [exact Fn|].
  apply b64_of_Z_ge_1; [lia | exact Fn].
Qed.

(** Plackett-Luce: every divisor of [compute_pl]: [c] (in [mu / c], [sigma^2 / c] and
    [gamma_default]'s [sqrt(sigma^2) / c]), [c ** 2], the entries of [sum_q] and of [A].
    [c >= 2^-537], so [c ** 2] cannot underflow to zero if [x ** 2] is faithful (premise on
    [fp]: no spurious underflow to 0 when x^2 >= 2^-1074; overflow is excluded by finiteness). *)
Lemma pl_divisors_b64 (P : params binary64) (trs : list (trating binary64)) :
  (forall x : binary64, fin x = true -> 0 < RV (fe x)) ->
  (forall x : binary64, fin (fp x) = true -> bpow radix2 (-537) <= RV x -> 0 < RV (fp x)) ->
  trs <> [] -> (Z.of_nat (length trs) <= 9007199254740992)%Z ->
  (forall t, In t trs -> 0 <= RV (t_ss t)) ->
  0 < RV (@fpow2 binary64 BN (p_beta P)) ->
  fin (fold_left (fun acc t => @fadd binary64 BN acc (@fadd binary64 BN (t_ss t) (@fpow2 binary64 BN (p_beta P))))
         trs (@fzero binary64 BN)) = true ->
  fin (@fpow2 binary64 BN (@pl_c binary64 BN P trs)) = true ->
  (forall t, In t trs -> fin (@fdiv binary64 BN (t_mu t) (@pl_c binary64 BN P trs)) = true) ->
  (forall s, In s (@pl_sum_q binary64 BN trs (@pl_c binary64 BN P trs)) -> fin s = true) ->
  fin (@pl_c binary64 BN P trs) = true
  /\ 0 < RV (@pl_c binary64 BN P trs)
  /\ 0 < RV (@fpow2 binary64 BN (@pl_c binary64 BN P trs))
  /\ (forall s, In s (@pl_sum_q binary64 BN trs (@pl_c binary64 BN P trs)) -> 0 < RV s)
  /\ (forall a, In a (@pl_a binary64 trs) ->
        fin (@fofZ binary64 BN (Z.of_nat a)) = true /\ 1 <= RV (@fofZ binary64 BN (Z.of_nat a))).
Proof.
  intros Hexp Hpow Hne Hlen Hss Hb Hf Fc2 Farg Fsum.
  destruct (pl_c_pos_b64 P trs Hne Hss Hb Hf) as (_ & Fc & Hc).
  pose proof bpow_m537_pos.
  split; [exact Fc|]. split; [lra|]. split; [|split].
  - apply Hpow; [exact Fc2 | exact Hc].
  - intros s Hs. apply (pl_sum_q_pos_b64 trs _ s Hexp Farg Hs). apply Fsum. exact Hs.
  - intros a Ha. exact (proj2 (pl_a_b64 trs a Hlen Ha)).
Qed.

(** *** (1)/(4) the predictions: [pair_scale], the pair counts, the player count *)
Lemma pair_scale_raw (n : Z) (b2 sa sb : binary64) :
  (1 <= n)%Z -> 0 < RV b2 -> 0 <= RV sa -> 0 <= RV sb ->
  fin (b64_plus mode_NE (b64_plus mode_NE (b64_mult mode_NE (b64_of_Z n) b2) sa) sb) = true ->
  RV b2 <= RV (b64_plus mode_NE (b64_plus mode_NE (b64_mult mode_NE (b64_of_Z n) b2) sa) sb)
  /\ fin (b64_sqrt mode_NE (b64_plus mode_NE (b64_plus mode_NE (b64_mult mode_NE (b64_of_Z n) b2) sa) sb)) = true
  /\ bpow radix2 (-537)
     <= RV (b64_sqrt mode_NE (b64_plus mode_NE (b64_plus mode_NE (b64_mult mode_NE (b64_of_Z n) b2) sa) sb)).
Proof.
  intros Hn Hb Ha Hsb Hf.
  destruct (b64_plus_fin_inv _ _ Hf) as (F1 & Fb).
  destruct (b64_plus_fin_inv _ _ F1) as (Fm & Fa).
  destruct (b64_mult_val _ _ Fm) as (_ & Fn & _).
  pose proof (b64_of_Z_ge_1 n Hn Fn) as Hn1.
  pose proof (b64_mult_ge_r _ _ Fm Hn1 (Rlt_le _ _ Hb)) as Hm.
  pose proof (b64_plus_ge_l _ _ Fm Fa F1 Ha) as H1.
  pose proof (b64_plus_ge_l _ _ F1 Fb Hf Hsb) as H2.
  assert (Hrad : RV b2 <= RV (b64_plus mode_NE (b64_plus mode_NE (b64_mult mode_NE (b64_of_Z n) b2) sa) sb)) by lra.
  split; [exact Hrad|]. apply b64_sqrt_pos. lra.
Qed.

Lemma pair_scale_pos_b64 (beta : binary64) (n : nat) (a b : binary64 * binary64) :
  (1 <= n)%nat -> 0 < RV (@fpow2 binary64 BN beta) -> 0 <= RV (snd a) -> 0 <= RV (snd b) ->
  fin (@fadd binary64 BN (@fadd binary64 BN (@fmul binary64 BN (@fofZ binary64 BN (Z.of_nat n))
                                                (@fpow2 binary64 BN beta)) (snd a)) (snd b)) = true ->
  0 < RV (@fadd binary64 BN (@fadd binary64 BN (@fmul binary64 BN (@fofZ binary64 BN (Z.of_nat n))
                                                  (@fpow2 binary64 BN beta)) (snd a)) (snd b))
  /\ fin (@pair_scale binary64 BN beta n a b) = true
  /\ 0 < RV (@pair_scale binary64 BN beta n a b).
Proof.
  intros Hn Hb Ha Hsb Hf.
  destruct (pair_scale_raw (Z.of_nat n) (fp beta) (snd a) (snd b) ltac:(lia) Hb Ha Hsb Hf) as (H1 & H2 & H3).
  pose proof bpow_m537_pos.
  change (@fpow2 binary64 BN beta) with (fp beta) in Hb.
  split; [|split].
  - change (0 < RV (b64_plus mode_NE (b64_plus mode_NE (b64_mult mode_NE (b64_of_Z (Z.of_nat n)) (fp beta)) (snd a)) (snd b))).
    lra.
  - exact H2.
  - change (0 < RV (b64_sqrt mode_NE (b64_plus mode_NE (b64_plus mode_NE
               (b64_mult mode_NE (b64_of_Z (Z.of_nat n)) (fp beta)) (snd a)) (snd b)))). lra.
Qed.

(** the variance of a team as [agg] computes it *)
Lemma agg_ss_nonneg_b64 (team : list (rating binary64)) :
  (forall p, In p team -> 0 <= RV (@fpow2 binary64 BN (r_sigma p))) ->
  fin (snd (@agg binary64 BN team)) = true -> 0 <= RV (snd (@agg binary64 BN team)).
Proof. intros Hall Hf. cbn [agg snd] in *. apply sum_sq_nonneg; assumption. Qed.

(** the denominator of [predict_draw] *)
Lemma draw_den_b64 (n : nat) : (Z.of_nat n <= 2 ^ 20)%Z ->
  fin (if Nat.ltb 2 n then @fofZ binary64 BN (Z.of_nat (n * (n - 1))) else @fone binary64 BN) = true
  /\ 1 <= RV (if Nat.ltb 2 n then @fofZ binary64 BN (Z.of_nat (n * (n - 1))) else @fone binary64 BN).
Proof.
  intros Hn. destruct (Nat.ltb 2 n) eqn:E.
  - apply Nat.ltb_lt in E.
    set (m := (n * (n - 1))%nat).
    assert (Hm : (Z.of_nat m <= 2 ^ 40)%Z).
    { unfold m. rewrite Nat2Z.inj_mul. rewrite Nat2Z.inj_sub by lia. change (2 ^ 40)%Z with (2 ^ 20 * 2 ^ 20)%Z.
      apply Z.mul_le_mono_nonneg; lia. }
    destruct (b64_of_nat_ok m ltac:(lia)) as (Fm & Em).
    change (@fofZ binary64 BN (Z.of_nat m)) with (b64_of_Z (Z.of_nat m)).
    split; [exact Fm|]. rewrite Em.
    assert (H1 : (1 <= m)%nat) by (unfold m; nia).
    apply le_INR in H1. cbn [INR] in H1. exact H1.
  - split; [exact b64_one_fin|]. change (@fone binary64 BN) with (b64_of_Z 1). rewrite b64_one_val. lra.
Qed.

(** the player count [np] of [draw_margin]: argument of [sqrt], divisor of [1 / np] *)
Lemma np_b64 (k : nat) : (1 <= k)%nat -> (Z.of_nat k <= 9007199254740992)%Z ->
  fin (@fofZ binary64 BN (Z.of_nat k)) = true /\ 1 <= RV (@fofZ binary64 BN (Z.of_nat k)).
Proof.
  intros H1 Hk.
  assert (Fn : fin (b64_of_Z (Z.of_nat k)) = true) by (apply b64_of_Z_fin_small; lia).
  split; [exact Fn|]. apply b64_of_Z_ge_1; [lia | exact Fn].
Qed.

(** the argument of [inv_cdf] in [draw_margin], (1 + 1/np) / 2, lies in [1/2, 3/4] for np >= 2 *)
Lemma icdf_arg_b64 (k : nat) : (2 <= k)%nat -> (Z.of_nat k <= 9007199254740992)%Z ->
  fin (@fdiv binary64 BN (@fadd binary64 BN (@fone binary64 BN)
         (@fdiv binary64 BN (@fone binary64 BN) (@fofZ binary64 BN (Z.of_nat k)))) (@ftwo binary64 BN)) = true
  /\ / 2 <= RV (@fdiv binary64 BN (@fadd binary64 BN (@fone binary64 BN)
         (@fdiv binary64 BN (@fone binary64 BN) (@fofZ binary64 BN (Z.of_nat k)))) (@ftwo binary64 BN)) <= 3 / 4.
Proof.
  intros H2 Hk.
  change (@fdiv binary64 BN (@fadd binary64 BN (@fone binary64 BN)
         (@fdiv binary64 BN (@fone binary64 BN) (@fofZ binary64 BN (Z.of_nat k)))) (@ftwo binary64 BN))
    with (b64_div mode_NE (b64_plus mode_NE (b64_of_Z 1) (b64_div mode_NE (b64_of_Z 1) (b64_of_Z (Z.of_nat k))))
            (b64_of_Z 2)).
  destruct (b64_of_nat_ok k ltac:(change (2 ^ 53)%Z with 9007199254740992%Z; lia)) as (Fk & Ek).
  assert (Hk2 : 2 <= INR k) by (apply le_INR in H2; cbn [INR] in H2; lra).
  destruct (b64_div_ge1_ok (b64_of_Z 1) (b64_of_Z (Z.of_nat k)) b64_one_fin ltac:(lra)) as (Fq & Eq).
  rewrite b64_one_val, Ek in Eq.
  destruct (fhalf_ok fe fc fp fi) as (_ & Hh).
  assert (Hq : 0 <= RV (b64_div mode_NE (b64_of_Z 1) (b64_of_Z (Z.of_nat k))) <= / 2).
  { rewrite Eq. split.
    - apply rnd_ge_0. unfold Rdiv. rewrite Rmult_1_l. left. apply Rinv_0_lt_compat. lra.
    - rewrite <- Hh. apply rnd_le_B2R. rewrite Hh. unfold Rdiv. rewrite Rmult_1_l.
      apply Rinv_le_contravar; lra. }
  set (q := b64_div mode_NE (b64_of_Z 1) (b64_of_Z (Z.of_nat k))) in *.
  destruct (b64_plus_ok (b64_of_Z 1) q b64_one_fin Fq) as (Fs & Es).
  { rewrite b64_one_val. rewrite Rabs_pos_eq by lra. pose proof one_le_BIG.
    apply Rle_trans with 2; [lra|]. unfold BIG. change 2 with (bpow radix2 1). apply bpow_le. lia. }
  rewrite b64_one_val in Es.
  assert (Hs : 1 <= RV (b64_plus mode_NE (b64_of_Z 1) q) <= 3 / 2).
  { rewrite Es. split; [apply rnd_ge_1; lra|].
    rewrite <- b64_1p5_val. apply rnd_le_B2R. rewrite b64_1p5_val. lra. }
  set (s := b64_plus mode_NE (b64_of_Z 1) q) in *.
  destruct b64_two_val as (F2 & E2).
  destruct (b64_div_ge1_ok s (b64_of_Z 2) Fs ltac:(lra)) as (Fp & Ep).
  rewrite E2 in Ep. split; [exact Fp|]. rewrite Ep. split.
  - rewrite <- Hh. apply rnd_ge_B2R. rewrite Hh. lra.
  - rewrite <- b64_0p75_val. apply rnd_le_B2R. rewrite b64_0p75_val. lra.
Qed.

(** *** (2) the remaining arguments of [sqrt] *)

(** [inflate]: fl(fl(sigma * sigma) + fl(tau * tau)) *)
Lemma inflate_radicand_b64 (tau : binary64) (r : rating binary64) :
  fin (@fadd binary64 BN (@fmul binary64 BN (r_sigma r) (r_sigma r)) (@fmul binary64 BN tau tau)) = true ->
  0 <= RV (@fadd binary64 BN (@fmul binary64 BN (r_sigma r) (r_sigma r)) (@fmul binary64 BN tau tau)).
Proof.
  intros Hf.
  change (fin (b64_plus mode_NE (b64_mult mode_NE (r_sigma r) (r_sigma r)) (b64_mult mode_NE tau tau)) = true) in Hf.
  change (0 <= RV (b64_plus mode_NE (b64_mult mode_NE (r_sigma r) (r_sigma r)) (b64_mult mode_NE tau tau))).
  destruct (b64_plus_fin_inv _ _ Hf) as (Fs & Ft).
  apply b64_plus_nonneg; try assumption.
  - destruct (b64_mult_val _ _ Fs) as (HR & _). rewrite HR. apply rnd_ge_0. nra.
  - destruct (b64_mult_val _ _ Ft) as (HR & _). rewrite HR. apply rnd_ge_0. nra.
Qed.

(** [update_player]: max(1 - share * delta, kappa) with kappa >= 0 *)
Lemma update_radicand_b64 (P : params binary64) (ti : trating binary64) (delta : binary64) (p : rating binary64) :
  fin (p_kappa P) = true -> 0 <= RV (p_kappa P) ->
  fin (@fsub binary64 BN (@fone binary64 BN)
         (@fmul binary64 BN (@fdiv binary64 BN (@fpow2 binary64 BN (r_sigma p)) (t_ss ti)) delta)) = true ->
  fin (@fmax binary64 BN (@fsub binary64 BN (@fone binary64 BN)
         (@fmul binary64 BN (@fdiv binary64 BN (@fpow2 binary64 BN (r_sigma p)) (t_ss ti)) delta)) (p_kappa P)) = true
  /\ 0 <= RV (@fmax binary64 BN (@fsub binary64 BN (@fone binary64 BN)
         (@fmul binary64 BN (@fdiv binary64 BN (@fpow2 binary64 BN (r_sigma p)) (t_ss ti)) delta)) (p_kappa P)).
Proof.
  intros Fk Hk Fx.
  destruct (b64_fmax_val fe fc fp fi _ (p_kappa P) Fx Fk) as (Hv & Fm).
  split; [exact Fm|]. rewrite Hv.
  apply Rle_trans with (RV (p_kappa P)); [exact Hk | apply Rmax_r].
Qed.

(** *** The guarded divisors of the Thurstone-Mosteller corrections: in [v], [vt], [wt] the
    division by [d] (a difference of) CDF value(s) happens only in the branch where the test
    [d < epsilon] (resp. [d < 1e-5]) is false *)
Lemma feps_pos_b64 : fin (@feps binary64 BN) = true /\ 0 < RV (@feps binary64 BN).
Proof. split; [vm_compute; reflexivity | apply b64_sign_pos; vm_compute; reflexivity]. Qed.

Lemma f1em5_pos_b64 : fin (@f1em5 binary64 BN) = true /\ 0 < RV (@f1em5 binary64 BN).
Proof. split; [vm_compute; reflexivity | apply b64_sign_pos; vm_compute; reflexivity]. Qed.

Lemma guard_eps_b64 (d : binary64) :
  fin d = true -> @fltb binary64 BN d (@feps binary64 BN) = false ->
  0 < RV (@feps binary64 BN) <= RV d.
Proof.
  intros Fd H. destruct feps_pos_b64 as (Fe & He). split; [exact He|].
  apply b64_ltb_false_ge; assumption.
Qed.

Lemma guard_1em5_b64 (d : binary64) :
  fin d = true -> @fltb binary64 BN d (@f1em5 binary64 BN) = false ->
  0 < RV (@f1em5 binary64 BN) <= RV d.
Proof.
  intros Fd H. destruct f1em5_pos_b64 as (Fe & He). split; [exact He|].
  apply b64_ltb_false_ge; assumption.
Qed.

Lemma tm_guarded_divisors_b64 (x t : binary64) :
  (fin (@cdf binary64 BN (@fsub binary64 BN x t)) = true ->
   @fltb binary64 BN (@cdf binary64 BN (@fsub binary64 BN x t)) (@feps binary64 BN) = false ->
   0 < RV (@cdf binary64 BN (@fsub binary64 BN x t)))
  /\ (fin (@fsub binary64 BN (@cdf binary64 BN (@fsub binary64 BN t (@fabs binary64 BN x)))
                              (@cdf binary64 BN (@fsub binary64 BN (@fneg binary64 BN t) (@fabs binary64 BN x)))) = true ->
      @fltb binary64 BN (@fsub binary64 BN (@cdf binary64 BN (@fsub binary64 BN t (@fabs binary64 BN x)))
                              (@cdf binary64 BN (@fsub binary64 BN (@fneg binary64 BN t) (@fabs binary64 BN x))))
                        (@f1em5 binary64 BN) = false ->
      0 < RV (@fsub binary64 BN (@cdf binary64 BN (@fsub binary64 BN t (@fabs binary64 BN x)))
                              (@cdf binary64 BN (@fsub binary64 BN (@fneg binary64 BN t) (@fabs binary64 BN x)))))
  /\ (fin (@fsub binary64 BN (@cdf binary64 BN (@fsub binary64 BN t (@fabs binary64 BN x)))
                              (@cdf binary64 BN (@fsub binary64 BN (@fneg binary64 BN t) (@fabs binary64 BN x)))) = true ->
      @fltb binary64 BN (@fsub binary64 BN (@cdf binary64 BN (@fsub binary64 BN t (@fabs binary64 BN x)))
                              (@cdf binary64 BN (@fsub binary64 BN (@fneg binary64 BN t) (@fabs binary64 BN x))))
                        (@feps binary64 BN) = false ->
      0 < RV (@fsub binary64 BN (@cdf binary64 BN (@fsub binary64 BN t (@fabs binary64 BN x)))
                              (@cdf binary64 BN (@fsub binary64 BN (@fneg binary64 BN t) (@fabs binary64 BN x))))).
Proof.
  split; [|split]; intros Fd H.
  - pose proof (guard_eps_b64 _ Fd H). lra.
  - pose proof (guard_1em5_b64 _ Fd H). lra.
  - pose proof (guard_eps_b64 _ Fd H). lra.
Qed.

(** *** The constant divisors and [sqrt] arguments: [sqrt 2] (cdf), [-2] and [sqrt tau] (pdf),
    [2] (half_pairs, draw_margin), [3], [6], [300] (the default sigma, beta, tau) *)
Lemma constants_b64 :
  0 < RV (@ftwo binary64 BN)
  /\ 1 <= RV (@fsqrt binary64 BN (@ftwo binary64 BN))
  /\ RV (@fneg binary64 BN (@ftwo binary64 BN)) < 0
  /\ 0 < RV (@ftau binary64 BN)
  /\ 0 < RV (@fsqrt binary64 BN (@ftau binary64 BN))
  /\ 0 < RV (@fofZ binary64 BN 3) /\ 0 < RV (@fofZ binary64 BN 6) /\ 0 < RV (@fofZ binary64 BN 300).
Proof.
  destruct b64_two_val as (F2 & E2).
  assert (Htau : 0 < RV b64_tau) by (apply b64_sign_pos; vm_compute; reflexivity).
  repeat split.
  - change (0 < RV (b64_of_Z 2)). lra.
  - exact (proj2 sqrt2_ok).
  - change (RV (b64_opp (b64_of_Z 2)) < 0). rewrite (proj2 (b64_opp_ok _)). lra.
  - exact Htau.
  - exact (proj2 (b64_sqrt_pos' _ Htau)).
  - change (0 < RV (b64_of_Z 3)). rewrite (proj2 (b64_of_Z_ok 3 ltac:(lia))). lra.
  - change (0 < RV (b64_of_Z 6)). rewrite (proj2 (b64_of_Z_ok 6 ltac:(lia))). lra.
  - change (0 < RV (b64_of_Z 300)). rewrite (proj2 (b64_of_Z_ok 300 ltac:(lia))). lra.
Qed.

(** *** Summaries per call family *)

(** Thurstone-Mosteller: the scale [c] of [tm_term] ([c_iq], or [2 * c_iq] for the partial
    pairing) — divisor of [dmu], [s2c], [t], of [(g * s2c) / c] and of [gamma_default] *)
Lemma tm_scale_b64 (P : params binary64) (ti tq : trating binary64) :
  0 <= RV (t_ss ti) -> 0 <= RV (t_ss tq) ->
  0 < RV (@fpow2 binary64 BN (p_beta P)) ->
  fin (@fadd binary64 BN (@fadd binary64 BN (t_ss ti) (t_ss tq))
         (@fmul binary64 BN (@ftwo binary64 BN) (@fpow2 binary64 BN (p_beta P)))) = true ->
  fin (@c_iq binary64 BN P ti tq) = true
  /\ 0 < RV (@c_iq binary64 BN P ti tq)
  /\ (fin (@fmul binary64 BN (@ftwo binary64 BN) (@c_iq binary64 BN P ti tq)) = true ->
      0 < RV (@fmul binary64 BN (@ftwo binary64 BN) (@c_iq binary64 BN P ti tq))).
Proof.
  intros Hi Hq Hb Hf.
  destruct (c_iq_pos_b64 P ti tq Hi Hq Hb Hf) as (_ & Fc & Hc).
  split; [exact Fc|]. split; [exact Hc|]. intros F2c. apply two_c_pos_b64; assumption.
Qed.

(** the predictions: [pair_scale] (divisor of every CDF argument), [half_pairs n] = n(n-1)/2,
    the denominator of [predict_draw], the player count [np] (divisor of [1 / np]) *)
Lemma predict_divisors_b64 (beta : binary64) (teams : list (list (rating binary64))) :
  0 < RV (@fpow2 binary64 BN beta) ->
  (2 <= length teams)%nat -> (Z.of_nat (length teams) <= 2 ^ 20)%Z ->
  (1 <= nplayers teams)%nat -> (Z.of_nat (nplayers teams) <= 9007199254740992)%Z ->
  (forall t p, In t teams -> In p t -> 0 <= RV (@fpow2 binary64 BN (r_sigma p))) ->
  (forall (n : nat) (ta tb : list (rating binary64)), (1 <= n)%nat -> In ta teams -> In tb teams ->
     fin (@fadd binary64 BN (@fadd binary64 BN (@fmul binary64 BN (@fofZ binary64 BN (Z.of_nat n))
                                                   (@fpow2 binary64 BN beta))
                                (snd (@agg binary64 BN ta))) (snd (@agg binary64 BN tb))) = true ->
     fin (@pair_scale binary64 BN beta n (@agg binary64 BN ta) (@agg binary64 BN tb)) = true
     /\ 0 < RV (@pair_scale binary64 BN beta n (@agg binary64 BN ta) (@agg binary64 BN tb)))
  /\ (fin (@half_pairs binary64 BN (length teams)) = true /\ 1 <= RV (@half_pairs binary64 BN (length teams)))
  /\ (fin (if Nat.ltb 2 (length teams)
           then @fofZ binary64 BN (Z.of_nat (length teams * (length teams - 1))) else @fone binary64 BN) = true
      /\ 1 <= RV (if Nat.ltb 2 (length teams)
                  then @fofZ binary64 BN (Z.of_nat (length teams * (length teams - 1))) else @fone binary64 BN))
  /\ (fin (@fofZ binary64 BN (Z.of_nat (nplayers teams))) = true
      /\ 1 <= RV (@fofZ binary64 BN (Z.of_nat (nplayers teams)))).
Proof.
  intros Hb Hn2 Hn Hp1 Hp Hsig. split; [|split; [|split]].
  - intros n ta tb Hn1 Hta Htb Hf.
    change (fin (b64_plus mode_NE (b64_plus mode_NE (b64_mult mode_NE (b64_of_Z (Z.of_nat n)) (fp beta))
                                     (snd (@agg binary64 BN ta))) (snd (@agg binary64 BN tb))) = true) in Hf.
    destruct (b64_plus_fin_inv _ _ Hf) as (F1 & Fb).
    destruct (b64_plus_fin_inv _ _ F1) as (_ & Fa).
    assert (Ha : 0 <= RV (snd (@agg binary64 BN ta))) by (apply agg_ss_nonneg_b64; [intros p Hp'; apply (Hsig ta p Hta Hp') | exact Fa]).
    assert (Hsb : 0 <= RV (snd (@agg binary64 BN tb))) by (apply agg_ss_nonneg_b64; [intros p Hp'; apply (Hsig tb p Htb Hp') | exact Fb]).
    exact (proj2 (pair_scale_pos_b64 beta n _ _ Hn1 Hb Ha Hsb Hf)).
  - destruct (half_pairs_ok fe fc fp fi (length teams) Hn2 Hn) as (F & H & _). split; assumption.
  - apply draw_den_b64. exact Hn.
  - apply np_b64; assumption.
Qed.

(** every argument of [math.sqrt] in the model is a non-negative double *)
Lemma sqrt_arguments_b64 :
  (* c_iq *)
  (forall (P : params binary64) (ti tq : trating binary64),
     0 <= RV (t_ss ti) -> 0 <= RV (t_ss tq) -> 0 < RV (@fpow2 binary64 BN (p_beta P)) ->
     fin (@fadd binary64 BN (@fadd binary64 BN (t_ss ti) (t_ss tq))
            (@fmul binary64 BN (@ftwo binary64 BN) (@fpow2 binary64 BN (p_beta P)))) = true ->
     0 <= RV (@fadd binary64 BN (@fadd binary64 BN (t_ss ti) (t_ss tq))
                (@fmul binary64 BN (@ftwo binary64 BN) (@fpow2 binary64 BN (p_beta P)))))
  (* pl_c *)
  /\ (forall (P : params binary64) (trs : list (trating binary64)),
     trs <> [] -> (forall t, In t trs -> 0 <= RV (t_ss t)) -> 0 < RV (@fpow2 binary64 BN (p_beta P)) ->
     fin (fold_left (fun acc t => @fadd binary64 BN acc (@fadd binary64 BN (t_ss t) (@fpow2 binary64 BN (p_beta P))))
            trs (@fzero binary64 BN)) = true ->
     0 <= RV (fold_left (fun acc t => @fadd binary64 BN acc (@fadd binary64 BN (t_ss t) (@fpow2 binary64 BN (p_beta P))))
                trs (@fzero binary64 BN)))
  (* pair_scale *)
  /\ (forall (beta : binary64) (n : nat) (a b : binary64 * binary64),
     (1 <= n)%nat -> 0 < RV (@fpow2 binary64 BN beta) -> 0 <= RV (snd a) -> 0 <= RV (snd b) ->
     fin (@fadd binary64 BN (@fadd binary64 BN (@fmul binary64 BN (@fofZ binary64 BN (Z.of_nat n))
                                                   (@fpow2 binary64 BN beta)) (snd a)) (snd b)) = true ->
     0 <= RV (@fadd binary64 BN (@fadd binary64 BN (@fmul binary64 BN (@fofZ binary64 BN (Z.of_nat n))
                                                       (@fpow2 binary64 BN beta)) (snd a)) (snd b)))
  (* inflate *)
  /\ (forall (tau : binary64) (r : rating binary64),
     fin (@fadd binary64 BN (@fmul binary64 BN (r_sigma r) (r_sigma r)) (@fmul binary64 BN tau tau)) = true ->
     0 <= RV (@fadd binary64 BN (@fmul binary64 BN (r_sigma r) (r_sigma r)) (@fmul binary64 BN tau tau)))
  (* update_player *)
  /\ (forall (P : params binary64) (ti : trating binary64) (delta : binary64) (p : rating binary64),
     fin (p_kappa P) = true -> 0 <= RV (p_kappa P) ->
     fin (@fsub binary64 BN (@fone binary64 BN)
            (@fmul binary64 BN (@fdiv binary64 BN (@fpow2 binary64 BN (r_sigma p)) (t_ss ti)) delta)) = true ->
     fin (@fmax binary64 BN (@fsub binary64 BN (@fone binary64 BN)
            (@fmul binary64 BN (@fdiv binary64 BN (@fpow2 binary64 BN (r_sigma p)) (t_ss ti)) delta)) (p_kappa P)) = true
     /\ 0 <= RV (@fmax binary64 BN (@fsub binary64 BN (@fone binary64 BN)
            (@fmul binary64 BN (@fdiv binary64 BN (@fpow2 binary64 BN (r_sigma p)) (t_ss ti)) delta)) (p_kappa P)))
  (* draw_margin: the player count *)
  /\ (forall k : nat, (Z.of_nat k <= 9007199254740992)%Z ->
     fin (@fofZ binary64 BN (Z.of_nat k)) = true /\ 0 <= RV (@fofZ binary64 BN (Z.of_nat k)))
  (* gamma_default: the team variance *)
  /\ (forall (team : list (rating binary64)) (rank : nat),
     (forall q, In q team -> 0 <= RV (@fpow2 binary64 BN (r_sigma q))) ->
     fin (t_ss (@team_rating binary64 BN team rank)) = true ->
     0 <= RV (t_ss (@team_rating binary64 BN team rank)))
  (* cdf, pdf: the constants 2.0 and math.tau *)
  /\ 0 <= RV (@ftwo binary64 BN) /\ 0 <= RV (@ftau binary64 BN).
Proof.
  repeat apply conj.
  - intros P ti tq Hi Hq Hb Hf. left. exact (proj1 (c_iq_pos_b64 P ti tq Hi Hq Hb Hf)).
  - intros P trs Hne Hss Hb Hf. left. exact (proj1 (pl_c_pos_b64 P trs Hne Hss Hb Hf)).
  - intros beta n a b Hn Hb Ha Hsb Hf. left. exact (proj1 (pair_scale_pos_b64 beta n a b Hn Hb Ha Hsb Hf)).
  - exact inflate_radicand_b64.
  - exact update_radicand_b64.
  - intros k Hk. split; [exact (proj1 (b64_of_nat_ok k Hk))|].
    change (0 <= RV (b64_of_Z (Z.of_nat k))). rewrite (proj2 (b64_of_nat_ok k Hk)). apply pos_INR.
  - intros team rank Hall Hf. exact (proj1 (team_ss_b64 team rank Hall Hf)).
  - left. exact (proj1 constants_b64).
  - left. exact (proj1 (proj2 (proj2 (proj2 constants_b64)))).
Qed.

End Model.

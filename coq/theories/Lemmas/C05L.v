(** * C05L: direction of learning (over R).  Sign and monotonicity of the team-level mu
    increment omega, from the closed forms of OmegaL. *)
From Coq Require Import List ZArith Bool Arith Reals Lra Lia Permutation FinFun.
From OSV Require Import Num Order Gauss Core RInst.
From OSV.Lemmas Require Import OrderL RateL OmegaL.
Import ListNotations.
Open Scope R_scope.

(** ** small real-number helpers *)
Lemma div_le_l a b D : 0 < D -> a <= b * D -> a / D <= b.
Proof.
  intros HD H. unfold Rdiv. apply Rmult_le_reg_r with D; [lra|].
  rewrite Rmult_assoc, Rinv_l by lra. lra.
Qed.
Lemma div_ge_l a b D : 0 < D -> b * D <= a -> b <= a / D.
Proof.
  intros HD H. unfold Rdiv. apply Rmult_le_reg_r with D; [lra|].
  rewrite Rmult_assoc, Rinv_l by lra. lra.
Qed.
Lemma div_nonneg a b : 0 <= a -> 0 < b -> 0 <= a / b.
Proof. intros Ha Hb. apply Rmult_le_pos; [exact Ha|]. left. now apply Rinv_0_lt_compat. Qed.
Lemma div_pos_le1 e S : 0 < e -> e <= S -> 0 < e / S <= 1.
Proof.
  intros He HS. split; [apply Rdiv_lt_0_compat; lra|]. apply div_le_l; lra.
Qed.
Lemma Rsum_in_le x l : In x l -> Forall (fun y => 0 <= y) l -> x <= Rsum l.
Proof.
  intros Hin HF. induction HF as [|y l Hy HF IH]; [contradiction|]. cbn [Rsum].
  pose proof (Rsum_nonneg l HF). destruct Hin as [->|Hin]; [lra|]. specialize (IH Hin). lra.
Qed.
Lemma Rsum_nonpos l : Forall (fun x => x <= 0) l -> Rsum l <= 0.
Proof. induction 1; cbn; lra. Qed.
Lemma Rsum_le_map {A} (f g : A -> R) l : (forall a, In a l -> f a <= g a) -> Rsum (map f l) <= Rsum (map g l).
Proof.
  induction l as [|a l IH]; intros H; cbn; [lra|].
  pose proof (H a (or_introl eq_refl)). assert (Rsum (map f l) <= Rsum (map g l)) by (apply IH; intros; apply H; now right). lra.
Qed.

Lemma Some_inj {A} (a b : A) : Some a = Some b -> a = b.
Proof. congruence. Qed.

Lemma filter_single {A} (f : A -> bool) l i x : nth_error l i = Some x -> f x = true ->
  (forall q y, q <> i -> nth_error l q = Some y -> f y = false) -> filter f l = [x].
Proof.
  revert i. induction l as [|a l IH]; intros [|i] E Hx Ho; cbn in E; try discriminate.
  - injection E as ->. cbn [filter]. rewrite Hx. f_equal.
    assert (G : forall y, In y l -> f y = false).
    { intros y Hy. apply In_nth_error in Hy. destruct Hy as [n Hn]. apply (Ho (S n) y); [lia|exact Hn]. }
    clear -G. induction l as [|b l IH]; [reflexivity|]. cbn [filter]. rewrite (G b (or_introl eq_refl)).
    apply IH. intros; apply G; now right.
  - cbn [filter]. rewrite (Ho O a); [|lia|reflexivity].
    apply (IH i E Hx). intros q y Hq Hy. apply (Ho (S q) y); [lia|exact Hy].
Qed.

Lemma filter_none {A} (f : A -> bool) l : (forall y, In y l -> f y = false) -> filter f l = [].
Proof.
  induction l as [|a l IH]; intros H; [reflexivity|]. cbn [filter]. rewrite (H a (or_introl eq_refl)).
  apply IH. intros; apply H; now right.
Qed.
Lemma count_nodup {A} (f : A -> nat) l x : NoDup (map f l) -> In x l ->
  length (filter (fun y => Nat.eqb (f x) (f y)) l) = 1%nat.
Proof.
  induction l as [|a l IH]; intros ND Hin; [contradiction|]. cbn [map] in ND. inversion ND as [|? ? Hna ND']; subst.
  cbn [filter]. destruct Hin as [->|Hin].
  - rewrite Nat.eqb_refl. cbn [length]. f_equal. rewrite filter_none; [reflexivity|].
    intros y Hy. apply Nat.eqb_neq. intros E. apply Hna. rewrite E. now apply in_map.
  - destruct (Nat.eqb_spec (f x) (f a)) as [E|E].
    + exfalso. apply Hna. rewrite <- E. now apply in_map.
    + now apply IH.
Qed.
Lemma others_sum {A} (f : A -> R) l i x : nth_error l i = Some x ->
  Rsum (map f (others i l)) = Rsum (map f l) - f x.
Proof.
  revert i. induction l as [|a l IH]; intros [|i] E; cbn in E; try discriminate.
  - injection E as ->. unfold others. cbn [firstn skipn app map Rsum]. lra.
  - change (others (S i) (a :: l)) with (a :: others i l). cbn [map Rsum]. rewrite (IH i E). lra.
Qed.
Lemma indicator_sum {A} (l : list A) s i :
  Rsum (map (fun qt : nat * A => if Nat.eqb (fst qt) i then 1 else 0) (combine (seq s (length l)) l))
  = if andb (Nat.leb s i) (Nat.ltb i (s + length l)) then 1 else 0.
Proof.
  revert s. induction l as [|a l IH]; intros s; cbn [length seq combine map Rsum fst].
  - rewrite Nat.add_0_r. destruct (Nat.leb_spec s i), (Nat.ltb_spec i s); cbn; try lia; reflexivity.
  - rewrite IH. destruct (Nat.eqb_spec s i), (Nat.leb_spec s i), (Nat.leb_spec (S s) i),
      (Nat.ltb_spec i (s + S (length l))), (Nat.ltb_spec i (S s + length l)); cbn [andb]; try lia; lra.
Qed.
Lemma Rsum_map_minus_scal {A} (f g : A -> R) c l :
  Rsum (map (fun a => f a - c * g a) l) = Rsum (map f l) - c * Rsum (map g l).
Proof. induction l as [|a l IH]; cbn; [lra|]. rewrite IH. lra. Qed.
Lemma Rsum_filter_map {A} (e : A -> R) (p p' : A -> bool) (f : A -> A) l :
  (forall t, e (f t) = e t) -> (forall t, In t l -> p (f t) = p' t) ->
  Rsum (map e (filter p (map f l))) = Rsum (map e (filter p' l)).
Proof.
  intros He Hp. induction l as [|a l IH]; [reflexivity|]. cbn [map filter].
  rewrite (Hp a (or_introl eq_refl)). assert (IH' := IH (fun t Ht => Hp t (or_intror Ht))).
  destruct (p' a); cbn [map Rsum]; rewrite ?He, IH'; reflexivity.
Qed.

(** the transposition of two ranks *)
Definition sw (ri rj r : nat) : nat := if Nat.eqb r ri then rj else if Nat.eqb r rj then ri else r.
Lemma sw_inj ri rj : Injective (sw ri rj).
Proof.
  intros x y. unfold sw.
  destruct (Nat.eqb_spec x ri), (Nat.eqb_spec x rj), (Nat.eqb_spec y ri), (Nat.eqb_spec y rj); lia.
Qed.
Lemma sw_invol ri rj r : sw ri rj (sw ri rj r) = r.
Proof.
  unfold sw. destruct (Nat.eqb_spec r ri), (Nat.eqb_spec r rj); subst;
    rewrite ?Nat.eqb_refl; try reflexivity.
  - destruct (Nat.eqb_spec rj ri); congruence.
  - destruct (Nat.eqb_spec r ri), (Nat.eqb_spec r rj); congruence.
Qed.
Lemma sw_perm ri rj l : NoDup l -> In ri l -> In rj l -> Permutation (map (sw ri rj) l) l.
Proof.
  intros ND Hi Hj.
  assert (Hin : forall y, In y l -> In (sw ri rj y) l).
  { intros y Hy. unfold sw. destruct (Nat.eqb y ri); [exact Hj|]. destruct (Nat.eqb y rj); assumption. }
  apply NoDup_Permutation; [apply Injective_map_NoDup; [apply sw_inj|exact ND] | exact ND |].
  intros x. split.
  - intros Hx. apply in_map_iff in Hx. destruct Hx as [y [<- Hy]]. now apply Hin.
  - intros Hx. rewrite <- (sw_invol ri rj x). apply in_map. now apply Hin.
Qed.

Section C05.
Variables Phi Phiinv : R -> R.
Local Hint Extern 0 (Num R) => exact (RInst.RN Phi Phiinv) : typeclass_instances.

Local Notation bt_p := (OmegaL.bt_p Phi Phiinv).
Local Notation bt_om := (OmegaL.bt_om Phi Phiinv).
Local Notation tm_c := (OmegaL.tm_c Phi Phiinv).
Local Notation tm_x := (OmegaL.tm_x Phi Phiinv).
Local Notation tm_t := (OmegaL.tm_t Phi Phiinv).
Local Notation tm_g := (OmegaL.tm_g Phi Phiinv).
Local Notation tm_om := (OmegaL.tm_om Phi Phiinv).
Local Notation pair_om := (OmegaL.pair_om Phi Phiinv).

Lemma cdf_R x : cdf x = Phi x. Proof. exact (R_cdf Phi Phiinv x). Qed.
Lemma pdf_R x : pdf x = phi x. Proof. exact (R_pdf Phi Phiinv x). Qed.
Lemma feps_R : (feps : R) = / 4503599627370496. Proof. exact (R_feps Phi Phiinv). Qed.

(** ** C05_share *)
Lemma C05_share_team P (ti : trating R) omega delta j p : nth_error (t_team ti) j = Some p ->
  exists p', nth_error (update_team P ti (omega, delta)) j = Some p'
    /\ r_mu p' = r_mu p + r_sigma p * r_sigma p / t_ss ti * omega.
Proof. apply share_nth. Qed.

Lemma C05_share_compute k P (trs : list (trating R)) :
  Forall2 (fun ti res => length res = length (t_team ti) /\ exists omega, forall j p, nth_error (t_team ti) j = Some p ->
     exists p', nth_error res j = Some p' /\ r_mu p' = r_mu p + r_sigma p * r_sigma p / t_ss ti * omega)
    trs (compute k P trs).
Proof.
  eapply Forall2_weaken; [|apply compute_shape]. intros ti res [[om de] ->]. split; [apply update_team_length|].
  exists om. intros j p E. now apply share_nth.
Qed.

(** ** Bradley-Terry terms *)
Lemma bt_p_range P (ti tq : trating R) : 0 < bt_p P ti tq < 1.
Proof.
  unfold bt_p. set (z := exp _). assert (0 < z) by apply exp_pos.
  split; [apply Rdiv_lt_0_compat; lra|]. apply Rmult_lt_reg_r with (1 + z); [lra|].
  unfold Rdiv. rewrite Rmult_assoc, Rinv_l by lra. lra.
Qed.
Lemma bt_s_anti r r' rq : (r <= r')%nat -> bt_s r' rq <= bt_s r rq.
Proof.
  intros H. unfold bt_s.
  destruct (Nat.ltb_spec r' rq), (Nat.ltb_spec r rq), (Nat.eqb_spec rq r'), (Nat.eqb_spec rq r); try lia; lra.
Qed.
Lemma bt_s_range r rq : 0 <= bt_s r rq <= 1.
Proof. unfold bt_s. destruct (Nat.ltb r rq); [lra|]. destruct (Nat.eqb rq r); lra. Qed.

(** ** Thurstone-Mosteller terms (need the Gaussian facts) *)
Section TM.
Hypothesis GF : GaussFacts Phi Phiinv.

Lemma Phi_small_neg y : Phi y < / 4503599627370496 -> y < -8.
Proof.
  intros H. destruct (Rlt_dec y (-8)) as [L|L]; [exact L|]. exfalso.
  pose proof (gf_tail8 _ _ GF) as T.
  destruct (Req_dec y (-8)) as [->|Hne]; [lra|].
  assert (-8 < y) by lra. pose proof (gf_mono _ _ GF (-8) y H0). lra.
Qed.

Lemma v_pos x t : 0 < v x t.
Proof.
  unfold v. cbv zeta. rewrite cdf_R, pdf_R, feps_R. cbn [fltb fsub fneg fdiv RInst.RN RNum].
  destruct (Rltb (Phi (x - t)) _) eqn:E.
  - apply Rltb_true in E. apply Phi_small_neg in E. lra.
  - apply Rdiv_lt_0_compat; [apply phi_pos | apply (gf_range _ _ GF)].
Qed.
Lemma v_lower x t : t - x <= v x t.
Proof.
  unfold v. cbv zeta. rewrite cdf_R, pdf_R, feps_R. cbn [fltb fsub fneg fdiv RInst.RN RNum].
  destruct (Rltb (Phi (x - t)) _) eqn:E; [lra|].
  pose proof (gf_range _ _ GF (x - t)) as [Hp _]. pose proof (gf_mills _ _ GF (x - t)) as M.
  apply div_ge_l; [exact Hp|]. lra.
Qed.

Lemma vt_bounds x t : 0 < t -> - t - x <= vt x t <= t - x.
Proof.
  intros Ht. unfold vt. cbv zeta. rewrite !cdf_R, !pdf_R.
  cbn [fltb fsub fneg fadd fdiv fabs fzero fofZ RInst.RN RNum].
  destruct (Rltb (Phi (t - Rabs x) - Phi (- t - Rabs x)) _) eqn:Eb; destruct (Rltb x 0) eqn:Ex.
  - lra.
  - lra.
  - apply Rltb_true in Ex. rewrite (Rabs_left x Ex).
    assert (L : - t - - x < t - - x) by lra.
    pose proof (gf_band _ _ GF _ _ L) as [B1 B2]. pose proof (gf_mono _ _ GF _ _ L) as HD.
    split; [apply div_ge_l | apply div_le_l]; lra.
  - apply Rltb_false in Ex. rewrite (Rabs_pos_eq x Ex).
    assert (L : - t - x < t - x) by lra.
    pose proof (gf_band _ _ GF _ _ L) as [B1 B2]. pose proof (gf_mono _ _ GF _ _ L) as HD.
    split; [apply div_ge_l | apply div_le_l]; lra.
Qed.

(** win >= draw >= loss for one pair *)
Lemma tm_chain x t : 0 < t -> - v (- x) t <= vt x t <= v x t.
Proof.
  intros Ht. pose proof (vt_bounds x t Ht). pose proof (v_lower x t). pose proof (v_lower (- x) t). lra.
Qed.
Lemma tm_g_anti r r' rq x t : 0 < t -> (r <= r')%nat -> tm_g r' rq x t <= tm_g r rq x t.
Proof.
  intros Ht H. unfold tm_g. pose proof (tm_chain x t Ht). pose proof (v_pos x t). pose proof (v_pos (- x) t).
  destruct (Nat.ltb_spec r' rq), (Nat.ltb_spec r rq), (Nat.ltb_spec rq r'), (Nat.ltb_spec rq r); try lia; lra.
Qed.
End TM.

(** ** sign of one pairwise term *)
Definition tm_kind (k : kind) : Prop := k = TMF \/ k = TMP.
Definition gf_if_tm (k : kind) : Prop := tm_kind k -> GaussFacts Phi Phiinv.

Lemma pair_om_win k P (ti tq : trating R) : gf_if_tm k -> k <> PL -> 0 < t_ss ti -> 0 < t_ss tq ->
  (t_rank ti < t_rank tq)%nat -> 0 <= pair_om k P ti tq.
Proof.
  intros G Hk Hi Hq Hr. pose proof (c_iq_pos Phi Phiinv P ti tq Hi Hq) as Hc.
  assert (E : Nat.ltb (t_rank ti) (t_rank tq) = true) by (apply Nat.ltb_lt; exact Hr).
  destruct k; [congruence| | | |]; cbn [pair_om].
  1,2: unfold bt_om, bt_s; rewrite E; pose proof (bt_p_range P ti tq);
       apply Rmult_le_pos; [left; apply Rdiv_lt_0_compat; lra | lra].
  1,2: unfold tm_om, tm_g; rewrite E;
       apply Rmult_le_pos; [left; apply Rdiv_lt_0_compat; [lra | apply tm_c_pos; assumption]
                           | left; apply v_pos; apply G; unfold tm_kind; auto].
Qed.
Lemma pair_om_loss k P (ti tq : trating R) : gf_if_tm k -> k <> PL -> 0 < t_ss ti -> 0 < t_ss tq ->
  (t_rank tq < t_rank ti)%nat -> pair_om k P ti tq <= 0.
Proof.
  intros G Hk Hi Hq Hr. pose proof (c_iq_pos Phi Phiinv P ti tq Hi Hq) as Hc.
  assert (E : Nat.ltb (t_rank ti) (t_rank tq) = false) by (apply Nat.ltb_ge; lia).
  assert (E2 : Nat.ltb (t_rank tq) (t_rank ti) = true) by (apply Nat.ltb_lt; exact Hr).
  assert (E3 : Nat.eqb (t_rank tq) (t_rank ti) = false) by (apply Nat.eqb_neq; lia).
  destruct k; [congruence| | | |]; cbn [pair_om].
  1,2: unfold bt_om, bt_s; rewrite E, E3; pose proof (bt_p_range P ti tq);
       assert (0 < t_ss ti / c_iq P ti tq) by (apply Rdiv_lt_0_compat; lra); nra.
  1: pose proof (tm_c_pos Phi Phiinv false P ti tq Hi Hq) as Hc2.
  2: pose proof (tm_c_pos Phi Phiinv true P ti tq Hi Hq) as Hc2.
  1,2: unfold tm_om, tm_g; rewrite E, E2;
       match goal with |- _ * - v ?a ?b <= 0 => assert (0 < v a b) by (apply v_pos; apply G; unfold tm_kind; auto) end;
       match goal with |- ?a / ?c * _ <= 0 => assert (0 < a / c) by (apply Rdiv_lt_0_compat; lra) end; nra.
Qed.

(** ** first alone / last alone: pairwise models *)
Lemma first_alone_pairs k P (trs : list (trating R)) i ti res :
  gf_if_tm k -> k <> PL -> Forall (fun t => 0 < t_ss t) trs ->
  nth_error trs i = Some ti ->
  (forall q tq, q <> i -> nth_error trs q = Some tq -> (t_rank ti < t_rank tq)%nat) ->
  nth_error (compute k P trs) i = Some res ->
  Forall2 (fun p p' => r_mu p <= r_mu p') (t_team ti) res.
Proof.
  intros G Hk Hs E Hfirst Er. rewrite Forall_forall in Hs.
  destruct (compute_nth_pairs Phi Phiinv k P trs i ti Hk E) as [de Ec]. rewrite Ec in Er. apply Some_inj in Er. subst res.
  apply update_team_mu_up; [apply Hs; eapply nth_error_In; exact E|].
  apply Rsum_nonneg. rewrite Forall_forall. intros y Hy. apply in_map_iff in Hy. destruct Hy as [tq [<- Hin]].
  destruct (pair_opps_in k i trs tq Hin) as [q [Hq Eq]].
  apply pair_om_win; auto; [apply Hs; eapply nth_error_In; exact E | apply Hs; eapply nth_error_In; exact Eq | eapply Hfirst; eauto].
Qed.
Lemma last_alone_pairs k P (trs : list (trating R)) i ti res :
  gf_if_tm k -> k <> PL -> Forall (fun t => 0 < t_ss t) trs ->
  nth_error trs i = Some ti ->
  (forall q tq, q <> i -> nth_error trs q = Some tq -> (t_rank tq < t_rank ti)%nat) ->
  nth_error (compute k P trs) i = Some res ->
  Forall2 (fun p p' => r_mu p' <= r_mu p) (t_team ti) res.
Proof.
  intros G Hk Hs E Hlast Er. rewrite Forall_forall in Hs.
  destruct (compute_nth_pairs Phi Phiinv k P trs i ti Hk E) as [de Ec]. rewrite Ec in Er. apply Some_inj in Er. subst res.
  apply update_team_mu_down; [apply Hs; eapply nth_error_In; exact E|].
  apply Rsum_nonpos. rewrite Forall_forall. intros y Hy. apply in_map_iff in Hy. destruct Hy as [tq [<- Hin]].
  destruct (pair_opps_in k i trs tq Hin) as [q [Hq Eq]].
  apply pair_om_loss; auto; [apply Hs; eapply nth_error_In; exact E | apply Hs; eapply nth_error_In; exact Eq | eapply Hlast; eauto].
Qed.

(** ** Plackett-Luce: the quantities [S_q], [A_q] *)
Lemma pl_e_pos c (t : trating R) : 0 < pl_e c t.
Proof. apply exp_pos. Qed.
Lemma pl_S_ge (trs : list (trating R)) c tq : In tq trs -> pl_e c tq <= pl_S trs c tq.
Proof.
  intros Hin. unfold pl_S. apply Rsum_in_le.
  - apply in_map. apply filter_In. split; [exact Hin | apply Nat.leb_refl].
  - rewrite Forall_forall. intros y Hy. apply in_map_iff in Hy. destruct Hy as [t [<- _]]. left. apply pl_e_pos.
Qed.
Lemma pl_S_ge_any (trs : list (trating R)) c tq ti : In ti trs -> (t_rank tq <= t_rank ti)%nat -> pl_e c ti <= pl_S trs c tq.
Proof.
  intros Hin Hr. unfold pl_S. apply Rsum_in_le.
  - apply in_map. apply filter_In. split; [exact Hin | now apply Nat.leb_le].
  - rewrite Forall_forall. intros y Hy. apply in_map_iff in Hy. destruct Hy as [t [<- _]]. left. apply pl_e_pos.
Qed.
Lemma pl_A_pos (trs : list (trating R)) tq : In tq trs -> 0 < INR (pl_A trs tq).
Proof.
  intros Hin. apply lt_0_INR. unfold pl_A.
  assert (H : In tq (filter (fun t => Nat.eqb (t_rank tq) (t_rank t)) trs)) by (apply filter_In; split; [exact Hin | apply Nat.eqb_refl]).
  destruct (filter _ trs); [contradiction|cbn; lia].
Qed.

Lemma first_alone_pl P (trs : list (trating R)) i ti res :
  Forall (fun t => 0 < t_ss t) trs ->
  nth_error trs i = Some ti ->
  (forall q tq, q <> i -> nth_error trs q = Some tq -> (t_rank ti < t_rank tq)%nat) ->
  nth_error (compute PL P trs) i = Some res ->
  Forall2 (fun p p' => r_mu p <= r_mu p') (t_team ti) res.
Proof.
  intros Hs E Hfirst Er.
  destruct (compute_nth_pl Phi Phiinv P trs i ti E) as [de Ec]. rewrite Ec in Er. apply Some_inj in Er. subst res.
  assert (Hne : trs <> []) by (intros ->; destruct i; discriminate).
  pose proof (pl_c_pos Phi Phiinv P trs Hne Hs) as Hc. remember (pl_c P trs) as c eqn:Ecdef. clear Ecdef.
  rewrite Forall_forall in Hs. assert (Hi : In ti trs) by (eapply nth_error_In; exact E).
  apply update_team_mu_up; [now apply Hs|].
  apply Rmult_le_pos; [|left; apply Rdiv_lt_0_compat; [now apply Hs|exact Hc]].
  unfold pl_sum. apply Rsum_nonneg. rewrite Forall_forall. intros y Hy. apply in_map_iff in Hy.
  destruct Hy as [[q tq] [<- Hin]]. apply in_seq_combine in Hin. destruct Hin as [_ Eq]. rewrite Nat.sub_0_r in Eq.
  unfold pl_tm. cbn [fst snd]. destruct (Nat.leb_spec (t_rank tq) (t_rank ti)) as [Hle|Hgt]; [|lra].
  destruct (Nat.eqb_spec q i) as [->|Hne'].
  - assert (Et : tq = ti) by congruence. subst tq.
    pose proof (pl_S_ge trs c ti Hi) as HS. pose proof (pl_e_pos c ti) as He. pose proof (pl_A_pos trs ti Hi) as HA.
    pose proof (div_pos_le1 _ _ He HS). apply div_nonneg; [lra|exact HA].
  - specialize (Hfirst q tq Hne' Eq). lia.
Qed.

Lemma last_alone_pl P (trs : list (trating R)) i ti res :
  Forall (fun t => 0 < t_ss t) trs ->
  nth_error trs i = Some ti ->
  (forall q tq, q <> i -> nth_error trs q = Some tq -> (t_rank tq < t_rank ti)%nat) ->
  nth_error (compute PL P trs) i = Some res ->
  Forall2 (fun p p' => r_mu p' <= r_mu p) (t_team ti) res.
Proof.
  intros Hs E Hlast Er.
  destruct (compute_nth_pl Phi Phiinv P trs i ti E) as [de Ec]. rewrite Ec in Er. apply Some_inj in Er. subst res.
  assert (Hne : trs <> []) by (intros ->; destruct i; discriminate).
  pose proof (pl_c_pos Phi Phiinv P trs Hne Hs) as Hc. remember (pl_c P trs) as c eqn:Ecdef. clear Ecdef.
  rewrite Forall_forall in Hs. assert (Hi : In ti trs) by (eapply nth_error_In; exact E).
  apply update_team_mu_down; [now apply Hs|].
  assert (Hsc : 0 < t_ss ti / c) by (apply Rdiv_lt_0_compat; [now apply Hs|exact Hc]).
  enough (pl_sum trs c i ti <= 0) by nra.
  unfold pl_sum. apply Rsum_nonpos. rewrite Forall_forall. intros y Hy. apply in_map_iff in Hy.
  destruct Hy as [[q tq] [<- Hin]]. apply in_seq_combine in Hin. destruct Hin as [_ Eq]. rewrite Nat.sub_0_r in Eq.
  unfold pl_tm. cbn [fst snd]. destruct (Nat.leb_spec (t_rank tq) (t_rank ti)) as [Hle|Hgt]; [|lra].
  assert (Hq : In tq trs) by (eapply nth_error_In; exact Eq).
  destruct (Nat.eqb_spec q i) as [->|Hne'].
  - assert (Et : tq = ti) by congruence. subst tq.
    assert (ES : pl_S trs c ti = pl_e c ti).
    { unfold pl_S. rewrite (filter_single _ trs i ti E); [cbn; lra | apply Nat.leb_refl|].
      intros q y Hq' Ey. apply Nat.leb_gt. eapply Hlast; eauto. }
    rewrite ES. pose proof (pl_e_pos c ti) as He. unfold Rdiv at 2. rewrite Rinv_r by lra. unfold Rdiv. lra.
  - pose proof (pl_S_ge_any trs c tq ti Hi Hle) as HS. pose proof (pl_e_pos c ti) as He. pose proof (pl_A_pos trs tq Hq) as HA.
    pose proof (div_pos_le1 _ _ He HS).
    assert (0 < pl_e c ti / pl_S trs c tq / INR (pl_A trs tq)) by (apply Rdiv_lt_0_compat; lra). lra.
Qed.

(** ** two-team games *)
Definition pl2 (c : R) (a b : trating R) : R :=
  t_ss a / c *
  (if Nat.ltb (t_rank a) (t_rank b) then 1 - pl_e c a / (pl_e c a + pl_e c b)
   else if Nat.eqb (t_rank a) (t_rank b) then (1 - 2 * (pl_e c a / (pl_e c a + pl_e c b))) / 2
   else - (pl_e c a / (pl_e c a + pl_e c b))).
Definition om2 (k : kind) (P : params R) (c : R) (a b : trating R) : R :=
  match k with PL => pl2 c a b | _ => pair_om k P a b end.
Definition c2 (P : params R) (sa sb : R) : R :=
  sqrt (0 + (sa + p_beta P * p_beta P) + (sb + p_beta P * p_beta P)).

Lemma pl_c_two P (a b : trating R) : pl_c P [a; b] = c2 P (t_ss a) (t_ss b).
Proof. reflexivity. Qed.
Lemma c2_pos P sa sb : 0 < sa -> 0 < sb -> 0 < c2 P sa sb.
Proof. intros Ha Hb. unfold c2. apply sqrt_lt_R0. nra. Qed.

Lemma list2_nth {A} (l : list A) x y : length l = 2%nat -> nth_error l 0 = Some x -> nth_error l 1 = Some y -> l = [x; y].
Proof.
  destruct l as [|a [|b [|d l]]]; cbn; intros L E0 E1; try discriminate. congruence.
Qed.

Ltac rank_bools ra rb :=
  rewrite ?Nat.leb_refl, ?Nat.eqb_refl, ?Nat.ltb_irrefl;
  destruct (Nat.leb_spec ra rb), (Nat.leb_spec rb ra), (Nat.eqb_spec ra rb), (Nat.eqb_spec rb ra),
           (Nat.ltb_spec ra rb), (Nat.ltb_spec rb ra); try (exfalso; lia).

Lemma pl_sum_two_0 c (a b : trating R) : 0 < c -> pl_sum [a; b] c 0 a * (t_ss a / c) = pl2 c a b.
Proof.
  intros Hc. unfold pl_sum, pl2. cbn [length seq combine map Rsum]. unfold pl_tm, pl_S, pl_A. cbn [fst snd filter].
  pose proof (pl_e_pos c a) as Ha. pose proof (pl_e_pos c b) as Hb.
  rank_bools (t_rank a) (t_rank b); cbn [Nat.eqb map Rsum length INR];
    revert Ha Hb; generalize (pl_e c a) as ea; generalize (pl_e c b) as eb; intros eb ea Ha Hb;
    generalize (t_ss a) as sa; generalize (t_ss b) as sb; intros sb sa; field; lra.
Qed.
Lemma pl_sum_two_1 c (a b : trating R) : 0 < c -> pl_sum [a; b] c 1 b * (t_ss b / c) = pl2 c b a.
Proof.
  intros Hc. unfold pl_sum, pl2. cbn [length seq combine map Rsum]. unfold pl_tm, pl_S, pl_A. cbn [fst snd filter].
  pose proof (pl_e_pos c a) as Ha. pose proof (pl_e_pos c b) as Hb.
  rank_bools (t_rank a) (t_rank b); cbn [Nat.eqb map Rsum length INR];
    revert Ha Hb; generalize (pl_e c a) as ea; generalize (pl_e c b) as eb; intros eb ea Ha Hb;
    generalize (t_ss a) as sa; generalize (t_ss b) as sb; intros sb sa; field; lra.
Qed.

Lemma compute_two k P (a b : trating R) : 0 < t_ss a -> 0 < t_ss b ->
  exists da db, compute k P [a; b]
    = [update_team P a (om2 k P (c2 P (t_ss a) (t_ss b)) a b, da);
       update_team P b (om2 k P (c2 P (t_ss a) (t_ss b)) b a, db)].
Proof.
  intros Ha Hb. pose proof (c2_pos P _ _ Ha Hb) as Hc.
  assert (E0 : nth_error [a; b] 0 = Some a) by reflexivity.
  assert (E1 : nth_error [a; b] 1 = Some b) by reflexivity.
  destruct (kind_eqb k PL) eqn:Ek.
  - assert (k = PL) by (destruct k; try discriminate; reflexivity). subst k. cbn [om2].
    destruct (compute_nth_pl Phi Phiinv P _ _ _ E0) as [da Ea]. destruct (compute_nth_pl Phi Phiinv P _ _ _ E1) as [db Eb].
    rewrite pl_c_two in Ea, Eb. rewrite (pl_sum_two_0 _ a b Hc) in Ea. rewrite (pl_sum_two_1 _ a b Hc) in Eb.
    exists da, db. apply list2_nth; [apply compute_length|exact Ea|exact Eb].
  - assert (Hk : k <> PL) by (intros ->; discriminate).
    destruct (compute_nth_pairs Phi Phiinv k P _ _ _ Hk E0) as [da Ea].
    destruct (compute_nth_pairs Phi Phiinv k P _ _ _ Hk E1) as [db Eb].
    exists da, db. apply list2_nth; [apply compute_length| |].
    + rewrite Ea. f_equal. f_equal. f_equal.
      replace (pair_opps k 0 [a; b]) with [b] by (destruct k; reflexivity).
      cbn [map Rsum]. rewrite Rplus_0_r. destruct k; try congruence; reflexivity.
    + rewrite Eb. f_equal. f_equal. f_equal.
      replace (pair_opps k 1 [a; b]) with [a] by (destruct k; reflexivity).
      cbn [map Rsum]. rewrite Rplus_0_r. destruct k; try congruence; reflexivity.
Qed.

Lemma update_team_mu_ub P (ti : trating R) om de B : 0 < t_ss ti -> om <= B ->
  Forall2 (fun p p' => r_mu p' <= r_mu p + r_sigma p * r_sigma p / t_ss ti * B) (t_team ti) (update_team P ti (om, de)).
Proof.
  intros Hs Ho. unfold update_team. cbn [fst snd].
  generalize (t_team ti) as l. induction l as [|p l IH]; cbn [map]; constructor; [|exact IH].
  rewrite update_player_mu. pose proof (share_nonneg ti p Hs). nra.
Qed.
Lemma update_team_mu_lb P (ti : trating R) om de B : 0 < t_ss ti -> B <= om ->
  Forall2 (fun p p' => r_mu p + r_sigma p * r_sigma p / t_ss ti * B <= r_mu p') (t_team ti) (update_team P ti (om, de)).
Proof.
  intros Hs Ho. unfold update_team. cbn [fst snd].
  generalize (t_team ti) as l. induction l as [|p l IH]; cbn [map]; constructor; [|exact IH].
  rewrite update_player_mu. pose proof (share_nonneg ti p Hs). nra.
Qed.

(** omega of [a] (rank [r1]) against [b] (rank [r2]) as the outcome varies *)
Lemma om2_order k P c ma sa (ta : list (rating R)) mb sb (tb : list (rating R)) rw rw' rd rl rl' :
  gf_if_tm k -> 0 < sa -> 0 < sb -> 0 < c -> 0 < p_kappa P -> (rw < rw')%nat -> (rl' < rl)%nat ->
  om2 k P c (mkT ma sa ta rl) (mkT mb sb tb rl') <= om2 k P c (mkT ma sa ta rd) (mkT mb sb tb rd)
  /\ om2 k P c (mkT ma sa ta rd) (mkT mb sb tb rd) <= om2 k P c (mkT ma sa ta rw) (mkT mb sb tb rw')
  /\ om2 k P c (mkT ma sa ta rl) (mkT mb sb tb rl') <= 0
  /\ 0 <= om2 k P c (mkT ma sa ta rw) (mkT mb sb tb rw').
Proof.
  intros G Ha Hb Hc Hk Hw Hl.
  assert (Bw : Nat.ltb rw rw' = true) by (apply Nat.ltb_lt; lia).
  assert (Bl : Nat.ltb rl rl' = false) by (apply Nat.ltb_ge; lia).
  assert (Bl2 : Nat.ltb rl' rl = true) by (apply Nat.ltb_lt; lia).
  assert (Bl3 : Nat.eqb rl rl' = false) by (apply Nat.eqb_neq; lia).
  assert (Bl4 : Nat.eqb rl' rl = false) by (apply Nat.eqb_neq; lia).
  destruct k; cbn [om2 OmegaL.pair_om].
  - unfold pl2. cbn [t_ss t_rank]. rewrite Bw, Bl, Bl3, Nat.ltb_irrefl, Nat.eqb_refl.
    set (ea := pl_e c (mkT ma sa ta rl)). 
    change (pl_e c (mkT ma sa ta rd)) with ea. change (pl_e c (mkT ma sa ta rw)) with ea.
    set (eb := pl_e c (mkT mb sb tb rl')).
    change (pl_e c (mkT mb sb tb rd)) with eb. change (pl_e c (mkT mb sb tb rw')) with eb.
    assert (Hea : 0 < ea) by apply pl_e_pos. assert (Heb : 0 < eb) by apply pl_e_pos.
    assert (Hp : 0 < ea / (ea + eb) < 1).
    { split; [apply Rdiv_lt_0_compat; lra|]. apply Rmult_lt_reg_r with (ea + eb); [lra|].
      unfold Rdiv. rewrite Rmult_assoc, Rinv_l by lra. lra. }
    assert (Hs : 0 < sa / c) by (apply Rdiv_lt_0_compat; lra).
    revert Hp Hs. generalize (ea / (ea + eb)) as p. generalize (sa / c) as s. intros s p Hp Hs. repeat split; nra.
  - unfold OmegaL.bt_om, bt_s. cbn [t_ss t_rank]. rewrite Bw, Bl, Bl4, Nat.ltb_irrefl, Nat.eqb_refl.
    pose proof (bt_p_range P (mkT ma sa ta rl) (mkT mb sb tb rl')) as Hp.
    change (bt_p P (mkT ma sa ta rd) (mkT mb sb tb rd)) with (bt_p P (mkT ma sa ta rl) (mkT mb sb tb rl')).
    change (bt_p P (mkT ma sa ta rw) (mkT mb sb tb rw')) with (bt_p P (mkT ma sa ta rl) (mkT mb sb tb rl')).
    change (c_iq P (mkT ma sa ta rd) (mkT mb sb tb rd)) with (c_iq P (mkT ma sa ta rl) (mkT mb sb tb rl')).
    change (c_iq P (mkT ma sa ta rw) (mkT mb sb tb rw')) with (c_iq P (mkT ma sa ta rl) (mkT mb sb tb rl')).
    assert (Hs : 0 < sa / c_iq P (mkT ma sa ta rl) (mkT mb sb tb rl')) by (apply Rdiv_lt_0_compat; [lra|apply c_iq_pos; cbn; lra]).
    revert Hp Hs. generalize (bt_p P (mkT ma sa ta rl) (mkT mb sb tb rl')) as p.
    generalize (sa / c_iq P (mkT ma sa ta rl) (mkT mb sb tb rl')) as s. intros s p Hp Hs. repeat split; nra.
  - unfold OmegaL.bt_om, bt_s. cbn [t_ss t_rank]. rewrite Bw, Bl, Bl4, Nat.ltb_irrefl, Nat.eqb_refl.
    pose proof (bt_p_range P (mkT ma sa ta rl) (mkT mb sb tb rl')) as Hp.
    change (bt_p P (mkT ma sa ta rd) (mkT mb sb tb rd)) with (bt_p P (mkT ma sa ta rl) (mkT mb sb tb rl')).
    change (bt_p P (mkT ma sa ta rw) (mkT mb sb tb rw')) with (bt_p P (mkT ma sa ta rl) (mkT mb sb tb rl')).
    change (c_iq P (mkT ma sa ta rd) (mkT mb sb tb rd)) with (c_iq P (mkT ma sa ta rl) (mkT mb sb tb rl')).
    change (c_iq P (mkT ma sa ta rw) (mkT mb sb tb rw')) with (c_iq P (mkT ma sa ta rl) (mkT mb sb tb rl')).
    assert (Hs : 0 < sa / c_iq P (mkT ma sa ta rl) (mkT mb sb tb rl')) by (apply Rdiv_lt_0_compat; [lra|apply c_iq_pos; cbn; lra]).
    revert Hp Hs. generalize (bt_p P (mkT ma sa ta rl) (mkT mb sb tb rl')) as p.
    generalize (sa / c_iq P (mkT ma sa ta rl) (mkT mb sb tb rl')) as s. intros s p Hp Hs. repeat split; nra.
  - assert (GF : GaussFacts Phi Phiinv) by (apply G; left; reflexivity).
    unfold OmegaL.tm_om, OmegaL.tm_g. cbn [t_ss t_rank]. rewrite Bw, Bl, Bl2, Nat.ltb_irrefl.
    set (cc := tm_c false P (mkT ma sa ta rl) (mkT mb sb tb rl')).
    change (tm_c false P (mkT ma sa ta rd) (mkT mb sb tb rd)) with cc.
    change (tm_c false P (mkT ma sa ta rw) (mkT mb sb tb rw')) with cc.
    set (x := tm_x false P (mkT ma sa ta rl) (mkT mb sb tb rl')).
    change (tm_x false P (mkT ma sa ta rd) (mkT mb sb tb rd)) with x.
    change (tm_x false P (mkT ma sa ta rw) (mkT mb sb tb rw')) with x.
    set (t := tm_t false P (mkT ma sa ta rl) (mkT mb sb tb rl')).
    change (tm_t false P (mkT ma sa ta rd) (mkT mb sb tb rd)) with t.
    change (tm_t false P (mkT ma sa ta rw) (mkT mb sb tb rw')) with t.
    assert (Hcc : 0 < cc) by (apply tm_c_pos; cbn; lra).
    assert (Ht : 0 < t) by (apply Rdiv_lt_0_compat; [exact Hk | exact Hcc]).
    assert (Hs : 0 < sa / cc) by (apply Rdiv_lt_0_compat; lra).
    pose proof (tm_chain GF x t Ht) as Hch. pose proof (v_pos GF x t) as Hv1. pose proof (v_pos GF (- x) t) as Hv2.
    revert Hch Hv1 Hv2 Hs. generalize (v x t) as vw. generalize (vt x t) as vd. generalize (v (- x) t) as vl.
    generalize (sa / cc) as s. intros s vl vd vw Hch Hv1 Hv2 Hs. repeat split; nra.
  - assert (GF : GaussFacts Phi Phiinv) by (apply G; right; reflexivity).
    unfold OmegaL.tm_om, OmegaL.tm_g. cbn [t_ss t_rank]. rewrite Bw, Bl, Bl2, Nat.ltb_irrefl.
    set (cc := tm_c true P (mkT ma sa ta rl) (mkT mb sb tb rl')).
    change (tm_c true P (mkT ma sa ta rd) (mkT mb sb tb rd)) with cc.
    change (tm_c true P (mkT ma sa ta rw) (mkT mb sb tb rw')) with cc.
    set (x := tm_x true P (mkT ma sa ta rl) (mkT mb sb tb rl')).
    change (tm_x true P (mkT ma sa ta rd) (mkT mb sb tb rd)) with x.
    change (tm_x true P (mkT ma sa ta rw) (mkT mb sb tb rw')) with x.
    set (t := tm_t true P (mkT ma sa ta rl) (mkT mb sb tb rl')).
    change (tm_t true P (mkT ma sa ta rd) (mkT mb sb tb rd)) with t.
    change (tm_t true P (mkT ma sa ta rw) (mkT mb sb tb rw')) with t.
    assert (Hcc : 0 < cc) by (apply tm_c_pos; cbn; lra).
    assert (Ht : 0 < t) by (apply Rdiv_lt_0_compat; [exact Hk | exact Hcc]).
    assert (Hs : 0 < sa / cc) by (apply Rdiv_lt_0_compat; lra).
    pose proof (tm_chain GF x t Ht) as Hch. pose proof (v_pos GF x t) as Hv1. pose proof (v_pos GF (- x) t) as Hv2.
    revert Hch Hv1 Hv2 Hs. generalize (v x t) as vw. generalize (vt x t) as vd. generalize (v (- x) t) as vl.
    generalize (sa / cc) as s. intros s vl vd vw Hch Hv1 Hv2 Hs. repeat split; nra.
Qed.

Lemma list2_inj {A} (x y x' y' : A) : [x; y] = [x'; y'] -> x = x' /\ y = y'.
Proof. intros E. split; congruence. Qed.

Lemma two_team_order k P ma sa (ta : list (rating R)) mb sb (tb : list (rating R)) rw rw' rd rl rl' aw bl ad bd al bw :
  gf_if_tm k -> 0 < sa -> 0 < sb -> 0 < p_kappa P -> (rw < rw')%nat -> (rl' < rl)%nat ->
  compute k P [mkT ma sa ta rw; mkT mb sb tb rw'] = [aw; bl] ->
  compute k P [mkT ma sa ta rd; mkT mb sb tb rd] = [ad; bd] ->
  compute k P [mkT ma sa ta rl; mkT mb sb tb rl'] = [al; bw] ->
  (Forall2 (fun x y => r_mu x <= r_mu y) al ad /\ Forall2 (fun x y => r_mu x <= r_mu y) ad aw
   /\ Forall2 (fun p0 x => r_mu x <= r_mu p0) ta al /\ Forall2 (fun p0 x => r_mu p0 <= r_mu x) ta aw)
  /\ (Forall2 (fun x y => r_mu x <= r_mu y) bl bd /\ Forall2 (fun x y => r_mu x <= r_mu y) bd bw
   /\ Forall2 (fun p0 x => r_mu x <= r_mu p0) tb bl /\ Forall2 (fun p0 x => r_mu p0 <= r_mu x) tb bw).
Proof.
  intros G Ha Hb Hk Hw Hl Ew Ed El.
  destruct (compute_two k P (mkT ma sa ta rw) (mkT mb sb tb rw')) as [d1 [d2 E1]]; [exact Ha|exact Hb|].
  destruct (compute_two k P (mkT ma sa ta rd) (mkT mb sb tb rd)) as [d3 [d4 E2]]; [exact Ha|exact Hb|].
  destruct (compute_two k P (mkT ma sa ta rl) (mkT mb sb tb rl')) as [d5 [d6 E3]]; [exact Ha|exact Hb|].
  cbn [t_ss] in E1, E2, E3. pose proof (c2_pos P sa sb Ha Hb) as Hc.
  remember (c2 P sa sb) as c eqn:Ecd. clear Ecd.
  rewrite E1 in Ew. rewrite E2 in Ed. rewrite E3 in El.
  apply list2_inj in Ew. apply list2_inj in Ed. apply list2_inj in El.
  destruct Ew as [<- <-]. destruct Ed as [<- <-]. destruct El as [<- <-].
  destruct (om2_order k P c ma sa ta mb sb tb rw rw' rd rl rl' G Ha Hb Hc Hk Hw Hl) as [A1 [A2 [A3 A4]]].
  destruct (om2_order k P c mb sb tb ma sa ta rl' rl rd rw' rw G Hb Ha Hc Hk Hl Hw) as [B1 [B2 [B3 B4]]].
  split; (split; [|split; [|split]]).
  - apply update_team_mu_mono; [reflexivity|reflexivity|exact Ha|exact A1].
  - apply update_team_mu_mono; [reflexivity|reflexivity|exact Ha|exact A2].
  - apply (update_team_mu_down Phi Phiinv P (mkT ma sa ta rl)); [exact Ha|exact A3].
  - apply (update_team_mu_up Phi Phiinv P (mkT ma sa ta rw)); [exact Ha|exact A4].
  - apply update_team_mu_mono; [reflexivity|reflexivity|exact Hb|exact B1].
  - apply update_team_mu_mono; [reflexivity|reflexivity|exact Hb|exact B2].
  - apply (update_team_mu_down Phi Phiinv P (mkT mb sb tb rw')); [exact Hb|exact B3].
  - apply (update_team_mu_up Phi Phiinv P (mkT mb sb tb rl')); [exact Hb|exact B4].
Qed.

(** ** the direction of a two-team draw *)
(* [exp_increasing] of the standard library depends on [Classical_Prop.classic]; this does not *)
Lemma exp_ge_1 x : 0 <= x -> 1 <= exp x.
Proof.
  intros Hx. set (An := fun N:nat => / INR (fact N) * x ^ N).
  assert (Hcv : Un_cv (fun n:nat => sum_f_R0 An n) (exp x)).
  { unfold exp; unfold projT1; case (exist_exp x); intro.
    unfold exp_in; unfold infinite_sum, Un_cv; trivial. }
  apply Rle_trans with (sum_f_R0 An 0).
  - unfold An; simpl. rewrite Rinv_1. lra.
  - apply sum_incr; [assumption|]. intro n. unfold An. apply Rmult_le_pos.
    + left. apply Rinv_0_lt_compat. apply INR_fact_lt_0.
    + now apply pow_le.
Qed.
Lemma exp_le_mono x y : x <= y -> exp x <= exp y.
Proof.
  intros H. replace y with (x + (y - x)) by ring. rewrite exp_plus.
  pose proof (exp_pos x). pose proof (exp_ge_1 (y - x)). nra.
Qed.
Lemma div_c_le a b c : 0 < c -> a <= b -> a / c <= b / c.
Proof. intros Hc H. assert (0 < / c) by now apply Rinv_0_lt_compat. unfold Rdiv. nra. Qed.
Lemma c_iq_sym P (a b : trating R) : c_iq P a b = c_iq P b a.
Proof. unfold c_iq. cbn [fsqrt fadd fmul fpow2 ftwo fofZ RInst.RN RNum]. f_equal. ring. Qed.
Lemma tm_c_sym two_c P (a b : trating R) : tm_c two_c P a b = tm_c two_c P b a.
Proof. unfold OmegaL.tm_c. now rewrite c_iq_sym. Qed.

Lemma om2_draw_plbt k P c ma sa (ta : list (rating R)) mb sb (tb : list (rating R)) r :
  k = PL \/ k = BTF \/ k = BTP -> 0 < sa -> 0 < sb -> 0 < c -> mb <= ma ->
  om2 k P c (mkT ma sa ta r) (mkT mb sb tb r) <= 0 /\ 0 <= om2 k P c (mkT mb sb tb r) (mkT ma sa ta r).
Proof.
  intros Hk Ha Hb Hc Hm.
  assert (PLc : pl2 c (mkT ma sa ta r) (mkT mb sb tb r) <= 0 /\ 0 <= pl2 c (mkT mb sb tb r) (mkT ma sa ta r)).
  { unfold pl2. cbn [t_ss t_rank]. rewrite Nat.ltb_irrefl, Nat.eqb_refl. unfold pl_e. cbn [t_mu].
    pose proof (exp_le_mono _ _ (div_c_le mb ma c Hc Hm)) as He.
    pose proof (exp_pos (ma / c)) as Ha'. pose proof (exp_pos (mb / c)) as Hb'.
    revert He Ha' Hb'. generalize (exp (ma / c)) as ea. generalize (exp (mb / c)) as eb. intros eb ea He Ha' Hb'.
    assert (P1 : / 2 <= ea / (ea + eb)) by (apply div_ge_l; lra).
    assert (P2 : eb / (eb + ea) <= / 2) by (apply div_le_l; lra).
    assert (S1 : 0 < sa / c) by (apply Rdiv_lt_0_compat; lra).
    assert (S2 : 0 < sb / c) by (apply Rdiv_lt_0_compat; lra).
    split; nra. }
  assert (BTc : OmegaL.bt_om Phi Phiinv P (mkT ma sa ta r) (mkT mb sb tb r) <= 0
                /\ 0 <= OmegaL.bt_om Phi Phiinv P (mkT mb sb tb r) (mkT ma sa ta r)).
  { unfold OmegaL.bt_om, bt_s, OmegaL.bt_p. cbn [t_ss t_rank t_mu]. rewrite Nat.ltb_irrefl, Nat.eqb_refl.
    rewrite (c_iq_sym P (mkT mb sb tb r) (mkT ma sa ta r)).
    assert (Hq : 0 < c_iq P (mkT ma sa ta r) (mkT mb sb tb r)) by (apply c_iq_pos; cbn; lra).
    revert Hq. generalize (c_iq P (mkT ma sa ta r) (mkT mb sb tb r)) as q. intros q Hq.
    assert (E1 : exp ((mb - ma) / q) <= 1).
    { rewrite <- exp_0. apply exp_le_mono. assert (0 < / q) by now apply Rinv_0_lt_compat. unfold Rdiv. nra. }
    assert (E2 : 1 <= exp ((ma - mb) / q)).
    { rewrite <- exp_0. apply exp_le_mono. assert (0 < / q) by now apply Rinv_0_lt_compat. unfold Rdiv. nra. }
    pose proof (exp_pos ((mb - ma) / q)) as E3.
    revert E1 E2 E3. generalize (exp ((mb - ma) / q)) as u. generalize (exp ((ma - mb) / q)) as w. intros w u E1 E2 E3.
    assert (P1 : / 2 <= 1 / (1 + u)) by (apply div_ge_l; lra).
    assert (P2 : 1 / (1 + w) <= / 2) by (apply div_le_l; lra).
    assert (S1 : 0 < sa / q) by (apply Rdiv_lt_0_compat; lra).
    assert (S2 : 0 < sb / q) by (apply Rdiv_lt_0_compat; lra).
    split; nra. }
  destruct Hk as [-> | [-> | ->]]; cbn [om2 OmegaL.pair_om]; assumption.
Qed.

Lemma om2_draw_tm (two_c : bool) k P c ma sa (ta : list (rating R)) mb sb (tb : list (rating R)) r :
  GaussFacts Phi Phiinv -> k = (if two_c then TMP else TMF) -> 0 < sa -> 0 < sb -> 0 < p_kappa P -> mb <= ma ->
  let cc := tm_c two_c P (mkT ma sa ta r) (mkT mb sb tb r) in
  om2 k P c (mkT ma sa ta r) (mkT mb sb tb r) <= sa / cc * (p_kappa P / cc)
  /\ - (sb / cc * (p_kappa P / cc)) <= om2 k P c (mkT mb sb tb r) (mkT ma sa ta r).
Proof.
  intros GF Hk Ha Hb Hkap Hm cc.
  assert (E : om2 k P c (mkT ma sa ta r) (mkT mb sb tb r) = tm_om two_c P (mkT ma sa ta r) (mkT mb sb tb r)
           /\ om2 k P c (mkT mb sb tb r) (mkT ma sa ta r) = tm_om two_c P (mkT mb sb tb r) (mkT ma sa ta r))
    by (destruct two_c; subst k; split; reflexivity).
  destruct E as [-> ->]. unfold OmegaL.tm_om, OmegaL.tm_g, OmegaL.tm_x, OmegaL.tm_t. cbn [t_ss t_rank t_mu].
  rewrite Nat.ltb_irrefl. rewrite (tm_c_sym two_c P (mkT mb sb tb r) (mkT ma sa ta r)). fold cc.
  assert (Hcc : 0 < cc) by (apply tm_c_pos; cbn; lra).
  assert (Ht : 0 < p_kappa P / cc) by (apply Rdiv_lt_0_compat; lra).
  assert (X1 : 0 <= (ma - mb) / cc) by (apply div_nonneg; lra).
  assert (X2 : (mb - ma) / cc <= 0).
  { assert (0 < / cc) by now apply Rinv_0_lt_compat. unfold Rdiv. nra. }
  pose proof (vt_bounds GF ((ma - mb) / cc) _ Ht) as [_ V1].
  pose proof (vt_bounds GF ((mb - ma) / cc) _ Ht) as [V2 _].
  assert (S1 : 0 < sa / cc) by (apply Rdiv_lt_0_compat; lra).
  assert (S2 : 0 < sb / cc) by (apply Rdiv_lt_0_compat; lra).
  revert Ht X1 X2 V1 V2 S1 S2.
  generalize (vt ((ma - mb) / cc) (p_kappa P / cc)) as v1. generalize (vt ((mb - ma) / cc) (p_kappa P / cc)) as v2.
  generalize ((ma - mb) / cc) as x1. generalize ((mb - ma) / cc) as x2. generalize (p_kappa P / cc) as t.
  generalize (sa / cc) as s1. generalize (sb / cc) as s2. intros. split; nra.
Qed.

Lemma draw_direction_plbt k P ma sa (ta : list (rating R)) mb sb (tb : list (rating R)) r ad bd :
  k = PL \/ k = BTF \/ k = BTP -> 0 < sa -> 0 < sb -> mb <= ma ->
  compute k P [mkT ma sa ta r; mkT mb sb tb r] = [ad; bd] ->
  Forall2 (fun p0 x => r_mu x <= r_mu p0) ta ad /\ Forall2 (fun p0 x => r_mu p0 <= r_mu x) tb bd.
Proof.
  intros Hk Ha Hb Hm Ed.
  destruct (compute_two k P (mkT ma sa ta r) (mkT mb sb tb r)) as [d1 [d2 E1]]; [exact Ha|exact Hb|].
  cbn [t_ss] in E1. pose proof (c2_pos P sa sb Ha Hb) as Hc. remember (c2 P sa sb) as c eqn:Ecd. clear Ecd.
  rewrite E1 in Ed. apply list2_inj in Ed. destruct Ed as [<- <-].
  destruct (om2_draw_plbt k P c ma sa ta mb sb tb r Hk Ha Hb Hc Hm) as [A B]. split.
  - apply (update_team_mu_down Phi Phiinv P (mkT ma sa ta r)); [exact Ha|exact A].
  - apply (update_team_mu_up Phi Phiinv P (mkT mb sb tb r)); [exact Hb|exact B].
Qed.

Lemma draw_direction_tm (two_c : bool) k P ma sa (ta : list (rating R)) mb sb (tb : list (rating R)) r ad bd :
  GaussFacts Phi Phiinv -> k = (if two_c then TMP else TMF) -> 0 < sa -> 0 < sb -> 0 < p_kappa P -> mb <= ma ->
  compute k P [mkT ma sa ta r; mkT mb sb tb r] = [ad; bd] ->
  let cc := (if two_c then 2 * sqrt (sa + sb + 2 * (p_beta P * p_beta P)) else sqrt (sa + sb + 2 * (p_beta P * p_beta P))) in
  Forall2 (fun p0 x => r_mu x <= r_mu p0 + r_sigma p0 * r_sigma p0 / sa * (sa / cc * (p_kappa P / cc))) ta ad
  /\ Forall2 (fun p0 x => r_mu p0 + r_sigma p0 * r_sigma p0 / sb * - (sb / cc * (p_kappa P / cc)) <= r_mu x) tb bd.
Proof.
  intros GF Hk Ha Hb Hkap Hm Ed cc.
  destruct (compute_two k P (mkT ma sa ta r) (mkT mb sb tb r)) as [d1 [d2 E1]]; [exact Ha|exact Hb|].
  cbn [t_ss] in E1. remember (c2 P sa sb) as c eqn:Ecd. clear Ecd.
  rewrite E1 in Ed. apply list2_inj in Ed. destruct Ed as [<- <-].
  destruct (om2_draw_tm two_c k P c ma sa ta mb sb tb r GF Hk Ha Hb Hkap Hm) as [A B].
  change (tm_c two_c P (mkT ma sa ta r) (mkT mb sb tb r)) with cc in A, B. split.
  - apply (update_team_mu_ub P (mkT ma sa ta r)); [exact Ha|exact A].
  - apply (update_team_mu_lb P (mkT mb sb tb r)); [exact Hb|exact B].
Qed.

(** all five kinds *)
Lemma first_alone k P (trs : list (trating R)) i ti res :
  gf_if_tm k -> Forall (fun t => 0 < t_ss t) trs ->
  nth_error trs i = Some ti ->
  (forall q tq, q <> i -> nth_error trs q = Some tq -> (t_rank ti < t_rank tq)%nat) ->
  nth_error (compute k P trs) i = Some res ->
  Forall2 (fun p p' => r_mu p <= r_mu p') (t_team ti) res.
Proof.
  intros G. destruct (kind_eqb k PL) eqn:Ek.
  - destruct k; try discriminate. apply first_alone_pl.
  - apply first_alone_pairs; [exact G|]. intros ->. discriminate.
Qed.
Lemma last_alone k P (trs : list (trating R)) i ti res :
  gf_if_tm k -> Forall (fun t => 0 < t_ss t) trs ->
  nth_error trs i = Some ti ->
  (forall q tq, q <> i -> nth_error trs q = Some tq -> (t_rank tq < t_rank ti)%nat) ->
  nth_error (compute k P trs) i = Some res ->
  Forall2 (fun p p' => r_mu p' <= r_mu p) (t_team ti) res.
Proof.
  intros G. destruct (kind_eqb k PL) eqn:Ek.
  - destruct k; try discriminate. apply last_alone_pl.
  - apply last_alone_pairs; [exact G|]. intros ->. discriminate.
Qed.

(** ** exchanging places; identical teams *)
Definition relabel (f : nat -> nat) (t : trating R) : trating R :=
  mkT (t_mu t) (t_ss t) (t_team t) (f (t_rank t)).
Definition set_rank (t : trating R) (r : nat) : trating R := mkT (t_mu t) (t_ss t) (t_team t) r.

Lemma pair_om_ext k P (a a' b b' : trating R) :
  t_mu a = t_mu a' -> t_ss a = t_ss a' -> t_rank a = t_rank a' ->
  t_mu b = t_mu b' -> t_ss b = t_ss b' -> t_rank b = t_rank b' ->
  pair_om k P a b = pair_om k P a' b'.
Proof.
  destruct a as [m1 s1 l1 r1], a' as [m2 s2 l2 r2], b as [m3 s3 l3 r3], b' as [m4 s4 l4 r4].
  cbn [t_mu t_ss t_rank]. intros -> -> -> -> -> ->. destruct k; reflexivity.
Qed.

Lemma bt_s_sw ri rj rq : (rj < ri)%nat -> bt_s ri rq <= bt_s rj (sw ri rj rq).
Proof.
  intros H. unfold sw. destruct (Nat.eqb_spec rq ri) as [->|N1]; [|destruct (Nat.eqb_spec rq rj) as [->|N2]].
  - unfold bt_s. rewrite !Nat.ltb_irrefl, !Nat.eqb_refl. lra.
  - pose proof (bt_s_range ri rj). unfold bt_s at 2. rewrite (proj2 (Nat.ltb_lt rj ri) H). lra.
  - apply bt_s_anti. lia.
Qed.
Lemma tm_g_sw (GF : GaussFacts Phi Phiinv) ri rj rq x t : 0 < t -> (rj < ri)%nat ->
  tm_g ri rq x t <= tm_g rj (sw ri rj rq) x t.
Proof.
  intros Ht H. unfold sw. destruct (Nat.eqb_spec rq ri) as [->|N1]; [|destruct (Nat.eqb_spec rq rj) as [->|N2]].
  - unfold OmegaL.tm_g. rewrite !Nat.ltb_irrefl. lra.
  - pose proof (tm_chain GF x t Ht). pose proof (v_pos GF x t). pose proof (v_pos GF (- x) t).
    unfold OmegaL.tm_g. rewrite (proj2 (Nat.ltb_lt rj ri) H).
    destruct (Nat.ltb ri rj); lra.
  - apply (tm_g_anti GF); [exact Ht|lia].
Qed.

(** one pairwise term does not decrease when the pair (i, q) is relabelled by the swap *)
Lemma bt_om_sw P (ti tq : trating R) rj : 0 < t_ss ti -> 0 < t_ss tq -> (rj < t_rank ti)%nat ->
  bt_om P ti tq <= bt_om P (relabel (sw (t_rank ti) rj) ti) (relabel (sw (t_rank ti) rj) tq).
Proof.
  intros Hi Hq H. pose proof (c_iq_pos Phi Phiinv P ti tq Hi Hq) as Hc.
  assert (Esw : sw (t_rank ti) rj (t_rank ti) = rj) by (unfold sw; now rewrite Nat.eqb_refl).
  unfold OmegaL.bt_om.
  change (c_iq P (relabel (sw (t_rank ti) rj) ti) (relabel (sw (t_rank ti) rj) tq)) with (c_iq P ti tq).
  change (bt_p P (relabel (sw (t_rank ti) rj) ti) (relabel (sw (t_rank ti) rj) tq)) with (bt_p P ti tq).
  cbn [relabel t_ss t_rank]. rewrite Esw. pose proof (bt_s_sw (t_rank ti) rj (t_rank tq) H).
  assert (0 < t_ss ti / c_iq P ti tq) by (apply Rdiv_lt_0_compat; lra). nra.
Qed.
Lemma tm_om_sw (GF : GaussFacts Phi Phiinv) b P (ti tq : trating R) rj : 0 < t_ss ti -> 0 < t_ss tq -> 0 < p_kappa P ->
  (rj < t_rank ti)%nat ->
  tm_om b P ti tq <= tm_om b P (relabel (sw (t_rank ti) rj) ti) (relabel (sw (t_rank ti) rj) tq).
Proof.
  intros Hi Hq Hkap H. pose proof (tm_c_pos Phi Phiinv b P ti tq Hi Hq) as Hc2.
  assert (Esw : sw (t_rank ti) rj (t_rank ti) = rj) by (unfold sw; now rewrite Nat.eqb_refl).
  unfold OmegaL.tm_om.
  change (tm_c b P (relabel (sw (t_rank ti) rj) ti) (relabel (sw (t_rank ti) rj) tq)) with (tm_c b P ti tq).
  change (tm_x b P (relabel (sw (t_rank ti) rj) ti) (relabel (sw (t_rank ti) rj) tq)) with (tm_x b P ti tq).
  change (tm_t b P (relabel (sw (t_rank ti) rj) ti) (relabel (sw (t_rank ti) rj) tq)) with (tm_t b P ti tq).
  assert (Ht : 0 < tm_t b P ti tq) by (apply Rdiv_lt_0_compat; lra).
  assert (0 < t_ss ti / tm_c b P ti tq) by (apply Rdiv_lt_0_compat; lra).
  pose proof (tm_g_sw GF (t_rank ti) rj (t_rank tq) (tm_x b P ti tq) _ Ht H).
  cbn [relabel t_ss t_rank]. rewrite Esw. nra.
Qed.
Lemma pair_om_sw k P (ti tq : trating R) rj : gf_if_tm k -> k <> PL -> 0 < t_ss ti -> 0 < t_ss tq -> 0 < p_kappa P ->
  (rj < t_rank ti)%nat ->
  pair_om k P ti tq <= pair_om k P (relabel (sw (t_rank ti) rj) ti) (relabel (sw (t_rank ti) rj) tq).
Proof.
  intros G Hk Hi Hq Hkap H.
  destruct k; [congruence| | | |]; cbn [OmegaL.pair_om].
  - now apply bt_om_sw.
  - now apply bt_om_sw.
  - apply tm_om_sw; auto. apply G; left; reflexivity.
  - apply tm_om_sw; auto. apply G; right; reflexivity.
Qed.

Lemma exchange_pairs k P (trs : list (trating R)) i ti j tj res res' :
  gf_if_tm k -> k = BTF \/ k = TMF -> Forall (fun t => 0 < t_ss t) trs -> 0 < p_kappa P ->
  nth_error trs i = Some ti -> nth_error trs j = Some tj -> (t_rank tj < t_rank ti)%nat ->
  nth_error (compute k P trs) i = Some res ->
  nth_error (compute k P (map (relabel (sw (t_rank ti) (t_rank tj))) trs)) i = Some res' ->
  Forall2 (fun p p' => r_mu p <= r_mu p') res res'.
Proof.
  intros G Hk Hs Hkap Ei Ej Hr Er Er'. rewrite Forall_forall in Hs.
  assert (Hk' : k <> PL) by (destruct Hk; subst k; discriminate).
  destruct (compute_nth_pairs Phi Phiinv k P trs i ti Hk' Ei) as [de Ec]. rewrite Ec in Er. apply Some_inj in Er. subst res.
  pose proof (map_nth_error (relabel (sw (t_rank ti) (t_rank tj))) _ _ Ei) as Ei'.
  destruct (compute_nth_pairs Phi Phiinv k P _ i _ Hk' Ei') as [de' Ec']. rewrite Ec' in Er'. apply Some_inj in Er'. subst res'.
  assert (Hi : In ti trs) by (eapply nth_error_In; exact Ei).
  apply update_team_mu_mono; [reflexivity|reflexivity|now apply Hs|].
  replace (pair_opps k i (map (relabel (sw (t_rank ti) (t_rank tj))) trs))
    with (map (relabel (sw (t_rank ti) (t_rank tj))) (pair_opps k i trs))
    by (destruct Hk; subst k; cbn [pair_opps]; symmetry; apply others_map).
  rewrite map_map. apply Rsum_le_map. intros tq Hq.
  destruct (pair_opps_in k i trs tq Hq) as [q [_ Eq]].
  apply pair_om_sw; auto; apply Hs; eapply nth_error_In; eauto.
Qed.

(** the full-pairing omega as a sum over all teams minus the self term *)
Lemma bt_om_rank_anti P (t tq : trating R) r r' : 0 < t_ss t -> 0 < t_ss tq -> (r <= r')%nat ->
  bt_om P (set_rank t r') tq <= bt_om P (set_rank t r) tq.
Proof.
  intros Hi Hq H. pose proof (c_iq_pos Phi Phiinv P t tq Hi Hq) as Hc. unfold OmegaL.bt_om.
  change (c_iq P (set_rank t r') tq) with (c_iq P t tq). change (c_iq P (set_rank t r) tq) with (c_iq P t tq).
  change (bt_p P (set_rank t r') tq) with (bt_p P t tq). change (bt_p P (set_rank t r) tq) with (bt_p P t tq).
  cbn [set_rank t_ss t_rank]. pose proof (bt_s_anti r r' (t_rank tq) H).
  assert (0 < t_ss t / c_iq P t tq) by (apply Rdiv_lt_0_compat; lra). nra.
Qed.
Lemma tm_om_rank_anti (GF : GaussFacts Phi Phiinv) b P (t tq : trating R) r r' : 0 < t_ss t -> 0 < t_ss tq -> 0 < p_kappa P ->
  (r <= r')%nat -> tm_om b P (set_rank t r') tq <= tm_om b P (set_rank t r) tq.
Proof.
  intros Hi Hq Hkap H. pose proof (tm_c_pos Phi Phiinv b P t tq Hi Hq) as Hc2. unfold OmegaL.tm_om.
  change (tm_c b P (set_rank t r') tq) with (tm_c b P t tq). change (tm_c b P (set_rank t r) tq) with (tm_c b P t tq).
  change (tm_x b P (set_rank t r') tq) with (tm_x b P t tq). change (tm_x b P (set_rank t r) tq) with (tm_x b P t tq).
  change (tm_t b P (set_rank t r') tq) with (tm_t b P t tq). change (tm_t b P (set_rank t r) tq) with (tm_t b P t tq).
  assert (Ht : 0 < tm_t b P t tq) by (apply Rdiv_lt_0_compat; lra).
  assert (0 < t_ss t / tm_c b P t tq) by (apply Rdiv_lt_0_compat; lra).
  pose proof (tm_g_anti GF r r' (t_rank tq) (tm_x b P t tq) _ Ht H).
  cbn [set_rank t_ss t_rank]. nra.
Qed.
Lemma pair_om_rank_anti k P (t tq : trating R) r r' : gf_if_tm k -> k <> PL -> 0 < t_ss t -> 0 < t_ss tq -> 0 < p_kappa P ->
  (r <= r')%nat -> pair_om k P (set_rank t r') tq <= pair_om k P (set_rank t r) tq.
Proof.
  intros G Hk Hi Hq Hkap H.
  destruct k; [congruence| | | |]; cbn [OmegaL.pair_om].
  - now apply bt_om_rank_anti.
  - now apply bt_om_rank_anti.
  - apply tm_om_rank_anti; auto. apply G; left; reflexivity.
  - apply tm_om_rank_anti; auto. apply G; right; reflexivity.
Qed.
Lemma pair_om_self k P (t : trating R) r r' :
  pair_om k P (set_rank t r) (set_rank t r) = pair_om k P (set_rank t r') (set_rank t r').
Proof.
  destruct k; cbn [OmegaL.pair_om]; [reflexivity| | | |].
  1,2: unfold OmegaL.bt_om, bt_s; cbn [set_rank t_rank]; rewrite !Nat.ltb_irrefl, !Nat.eqb_refl; reflexivity.
  1,2: unfold OmegaL.tm_om, OmegaL.tm_g; cbn [set_rank t_rank]; rewrite !Nat.ltb_irrefl; reflexivity.
Qed.

Lemma identical_pairs k P (trs : list (trating R)) i ti j tj resi resj :
  gf_if_tm k -> k = BTF \/ k = TMF -> Forall (fun t => 0 < t_ss t) trs -> 0 < p_kappa P ->
  nth_error trs i = Some ti -> nth_error trs j = Some tj ->
  t_mu ti = t_mu tj -> t_ss ti = t_ss tj -> t_team ti = t_team tj -> (t_rank ti < t_rank tj)%nat ->
  nth_error (compute k P trs) i = Some resi -> nth_error (compute k P trs) j = Some resj ->
  Forall2 (fun pj pi => r_mu pj <= r_mu pi) resj resi.
Proof.
  intros G Hk Hs Hkap Ei Ej Em Ess Et Hr Eri Erj. rewrite Forall_forall in Hs.
  assert (Hk' : k <> PL) by (destruct Hk; subst k; discriminate).
  destruct (compute_nth_pairs Phi Phiinv k P trs i ti Hk' Ei) as [de Ec]. rewrite Ec in Eri. apply Some_inj in Eri. subst resi.
  destruct (compute_nth_pairs Phi Phiinv k P trs j tj Hk' Ej) as [de' Ec']. rewrite Ec' in Erj. apply Some_inj in Erj. subst resj.
  assert (Hi : In ti trs) by (eapply nth_error_In; exact Ei).
  assert (Hj : In tj trs) by (eapply nth_error_In; exact Ej).
  apply update_team_mu_mono; [now symmetry|now symmetry|now apply Hs|].
  replace (pair_opps k j trs) with (others j trs) by (destruct Hk; subst k; reflexivity).
  replace (pair_opps k i trs) with (others i trs) by (destruct Hk; subst k; reflexivity).
  rewrite (others_sum _ trs j tj Ej), (others_sum _ trs i ti Ei).
  assert (Eself : pair_om k P tj tj = pair_om k P ti ti).
  { rewrite (pair_om_ext k P tj (set_rank ti (t_rank tj)) tj (set_rank ti (t_rank tj))); cbn [set_rank t_mu t_ss t_rank]; auto.
    rewrite (pair_om_ext k P ti (set_rank ti (t_rank ti)) ti (set_rank ti (t_rank ti))); cbn [set_rank t_mu t_ss t_rank]; auto.
    apply pair_om_self. }
  rewrite Eself.
  enough (Rsum (map (pair_om k P tj) trs) <= Rsum (map (pair_om k P ti) trs)) by lra.
  apply Rsum_le_map. intros tq Hq.
  rewrite (pair_om_ext k P tj (set_rank ti (t_rank tj)) tq tq); cbn [set_rank t_mu t_ss t_rank]; auto.
  rewrite (pair_om_ext k P ti (set_rank ti (t_rank ti)) tq tq); cbn [set_rank t_mu t_ss t_rank]; auto.
  apply pair_om_rank_anti; auto; [lia].
Qed.

(** ** Plackett-Luce without ties: omega_i = (ss_i/c) (1 - e_i * sum over places q at or above i of 1/S_q) *)
Definition pl_Sr (trs : list (trating R)) (c : R) (r : nat) : R :=
  Rsum (map (pl_e c) (filter (fun t => Nat.leb r (t_rank t)) trs)).
Definition pl_h (trs : list (trating R)) (c : R) (ri : nat) (r : nat) : R :=
  if Nat.leb r ri then / pl_Sr trs c r else 0.

Lemma pl_A_nodup (trs : list (trating R)) tq : NoDup (map t_rank trs) -> In tq trs -> pl_A trs tq = 1%nat.
Proof. intros ND Hin. unfold pl_A. now apply (count_nodup t_rank). Qed.

Lemma pl_sum_nodup (trs : list (trating R)) c i ti : NoDup (map t_rank trs) -> nth_error trs i = Some ti ->
  pl_sum trs c i ti = 1 - pl_e c ti * Rsum (map (fun t => pl_h trs c (t_rank ti) (t_rank t)) trs).
Proof.
  intros ND Ei. unfold pl_sum.
  rewrite (Rsum_map_ext _ (fun qt : nat * trating R => (if Nat.eqb (fst qt) i then 1 else 0)
                               - pl_e c ti * pl_h trs c (t_rank ti) (t_rank (snd qt)))).
  - rewrite Rsum_map_minus_scal. rewrite indicator_sum.
    assert (Hlt : (i < length trs)%nat) by (apply nth_error_Some; congruence).
    cbn [Nat.leb Nat.add andb]. rewrite (proj2 (Nat.ltb_lt _ _) Hlt).
    rewrite <- (map_map snd (fun t => pl_h trs c (t_rank ti) (t_rank t))).
    rewrite combine_map_snd by (now rewrite seq_length). reflexivity.
  - intros [q tq] Hin. apply in_seq_combine in Hin. destruct Hin as [_ Eq]. rewrite Nat.sub_0_r in Eq.
    assert (Hq : In tq trs) by (eapply nth_error_In; exact Eq).
    unfold pl_tm, pl_h. cbn [fst snd]. rewrite (pl_A_nodup trs tq ND Hq). cbn [INR].
    change (pl_S trs c tq) with (pl_Sr trs c (t_rank tq)).
    destruct (Nat.eqb_spec q i) as [->|Hne].
    + assert (tq = ti) by congruence. subst tq. rewrite Nat.leb_refl. unfold Rdiv. rewrite Rinv_1. ring.
    + destruct (Nat.leb (t_rank tq) (t_rank ti)); unfold Rdiv; rewrite ?Rinv_1; ring.
Qed.

Lemma pl_Sr_pos (trs : list (trating R)) c tq : In tq trs -> 0 < pl_Sr trs c (t_rank tq).
Proof. intros Hin. pose proof (pl_S_ge trs c tq Hin). pose proof (pl_e_pos c tq). unfold pl_S in *. unfold pl_Sr. lra. Qed.

Lemma pl_c_relabel P f (trs : list (trating R)) : pl_c P (map (relabel f) trs) = pl_c P trs.
Proof.
  unfold pl_c. f_equal. generalize (fzero : R) as acc. induction trs as [|t l IH]; intros acc; [reflexivity|].
  cbn [map fold_left]. rewrite IH. reflexivity.
Qed.

Lemma exchange_pl P (trs : list (trating R)) i ti j tj res res' :
  NoDup (map t_rank trs) -> Forall (fun t => 0 < t_ss t) trs ->
  nth_error trs i = Some ti -> nth_error trs j = Some tj -> (t_rank tj < t_rank ti)%nat ->
  nth_error (compute PL P trs) i = Some res ->
  nth_error (compute PL P (map (relabel (sw (t_rank ti) (t_rank tj))) trs)) i = Some res' ->
  Forall2 (fun p p' => r_mu p <= r_mu p') res res'.
Proof.
  intros ND Hs Ei Ej Hr Er Er'.
  set (ri := t_rank ti) in *. set (rj := t_rank tj) in *.
  assert (Hne : trs <> []) by (intros ->; destruct i; discriminate).
  pose proof (pl_c_pos Phi Phiinv P trs Hne Hs) as Hc.
  destruct (compute_nth_pl Phi Phiinv P trs i ti Ei) as [de Ec]. rewrite Ec in Er. apply Some_inj in Er. subst res.
  pose proof (map_nth_error (relabel (sw ri rj)) _ _ Ei) as Ei'.
  destruct (compute_nth_pl Phi Phiinv P _ i _ Ei') as [de' Ec']. rewrite Ec' in Er'. apply Some_inj in Er'. subst res'.
  rewrite pl_c_relabel. set (f := relabel (sw ri rj)) in *.
  remember (pl_c P trs) as c eqn:Ecd. clear Ecd Ec Ec'.
  rewrite Forall_forall in Hs.
  assert (Hi : In ti trs) by (eapply nth_error_In; exact Ei).
  assert (Hj : In tj trs) by (eapply nth_error_In; exact Ej).
  apply update_team_mu_mono; [reflexivity|reflexivity|now apply Hs|].
  change (t_ss (f ti)) with (t_ss ti).
  assert (Hsc : 0 < t_ss ti / c) by (apply Rdiv_lt_0_compat; [now apply Hs|exact Hc]).
  enough (pl_sum trs c i ti <= pl_sum (map f trs) c i (f ti)) by nra.
  assert (ND' : NoDup (map t_rank (map f trs))).
  { rewrite map_map. change (fun x : trating R => t_rank (f x)) with (fun x : trating R => sw ri rj (t_rank x)).
    rewrite <- (map_map (@t_rank R) (sw ri rj)). apply Injective_map_NoDup; [apply sw_inj|exact ND]. }
  rewrite (pl_sum_nodup trs c i ti ND Ei), (pl_sum_nodup (map f trs) c i (f ti) ND' Ei').
  change (pl_e c (f ti)) with (pl_e c ti). pose proof (pl_e_pos c ti) as He.
  assert (Erank : t_rank (f ti) = rj) by (unfold f, relabel, sw; cbn [t_rank]; fold ri; now rewrite Nat.eqb_refl).
  rewrite Erank. fold ri.
  enough (Rsum (map (fun t => pl_h (map f trs) c rj (t_rank t)) (map f trs))
          <= Rsum (map (fun t => pl_h trs c ri (t_rank t)) trs)) by nra.
  (* the swapped sum is the unswapped sum up to place rj *)
  assert (E1 : Rsum (map (fun t => pl_h (map f trs) c rj (t_rank t)) (map f trs))
             = Rsum (map (fun t => pl_h trs c rj (t_rank t)) trs)).
  { rewrite map_map. change (fun x : trating R => pl_h (map f trs) c rj (t_rank (f x)))
      with (fun x : trating R => pl_h (map f trs) c rj (sw ri rj (t_rank x))).
    rewrite <- (map_map (@t_rank R) (fun r => pl_h (map f trs) c rj (sw ri rj r))).
    rewrite <- (map_map (sw ri rj) (pl_h (map f trs) c rj)).
    rewrite (Rsum_perm _ _ (Permutation_map (pl_h (map f trs) c rj)
               (sw_perm ri rj (map (@t_rank R) trs) ND (in_map (@t_rank R) _ _ Hi) (in_map (@t_rank R) _ _ Hj)))).
    rewrite map_map. apply Rsum_map_ext. intros t Ht. unfold pl_h.
    destruct (Nat.leb_spec (t_rank t) rj) as [Hle|Hgt]; [|reflexivity]. f_equal. unfold pl_Sr.
    apply Rsum_filter_map; [reflexivity|]. intros u Hu. unfold f, relabel, sw. cbn [t_rank].
    destruct (Nat.eqb_spec (t_rank u) ri) as [Eu|Nu]; [|destruct (Nat.eqb_spec (t_rank u) rj) as [Eu|Nu']]; try reflexivity.
    - rewrite Eu. rewrite (proj2 (Nat.leb_le (t_rank t) rj)) by lia. symmetry. apply Nat.leb_le. lia.
    - rewrite Eu. rewrite (proj2 (Nat.leb_le (t_rank t) rj)) by lia. apply Nat.leb_le. lia. }
  rewrite E1. apply Rsum_le_map. intros t Ht. unfold pl_h.
  pose proof (pl_Sr_pos trs c t Ht) as Hp. apply Rinv_0_lt_compat in Hp.
  destruct (Nat.leb_spec (t_rank t) rj), (Nat.leb_spec (t_rank t) ri); try lia; lra.
Qed.

Lemma identical_pl P (trs : list (trating R)) i ti j tj resi resj :
  NoDup (map t_rank trs) -> Forall (fun t => 0 < t_ss t) trs ->
  nth_error trs i = Some ti -> nth_error trs j = Some tj ->
  t_mu ti = t_mu tj -> t_ss ti = t_ss tj -> t_team ti = t_team tj -> (t_rank ti < t_rank tj)%nat ->
  nth_error (compute PL P trs) i = Some resi -> nth_error (compute PL P trs) j = Some resj ->
  Forall2 (fun pj pi => r_mu pj <= r_mu pi) resj resi.
Proof.
  intros ND Hs Ei Ej Em Ess Et Hr Eri Erj.
  assert (Hne : trs <> []) by (intros ->; destruct i; discriminate).
  pose proof (pl_c_pos Phi Phiinv P trs Hne Hs) as Hc.
  destruct (compute_nth_pl Phi Phiinv P trs i ti Ei) as [de Ec]. rewrite Ec in Eri. apply Some_inj in Eri. subst resi.
  destruct (compute_nth_pl Phi Phiinv P trs j tj Ej) as [de' Ec']. rewrite Ec' in Erj. apply Some_inj in Erj. subst resj.
  remember (pl_c P trs) as c eqn:Ecd. clear Ecd Ec Ec'. rewrite Forall_forall in Hs.
  assert (Hi : In ti trs) by (eapply nth_error_In; exact Ei).
  apply update_team_mu_mono; [now symmetry|now symmetry|rewrite <- Ess; now apply Hs|].
  rewrite <- Ess. assert (Hsc : 0 < t_ss ti / c) by (apply Rdiv_lt_0_compat; [now apply Hs|exact Hc]).
  enough (pl_sum trs c j tj <= pl_sum trs c i ti) by nra.
  rewrite (pl_sum_nodup trs c i ti ND Ei), (pl_sum_nodup trs c j tj ND Ej).
  assert (Ee : pl_e c tj = pl_e c ti) by (unfold pl_e; now rewrite Em). rewrite Ee.
  pose proof (pl_e_pos c ti) as He.
  enough (Rsum (map (fun t => pl_h trs c (t_rank ti) (t_rank t)) trs)
          <= Rsum (map (fun t => pl_h trs c (t_rank tj) (t_rank t)) trs)) by nra.
  apply Rsum_le_map. intros t Ht. unfold pl_h.
  pose proof (pl_Sr_pos trs c t Ht) as Hp. apply Rinv_0_lt_compat in Hp.
  destruct (Nat.leb_spec (t_rank t) (t_rank ti)), (Nat.leb_spec (t_rank t) (t_rank tj)); try lia; lra.
Qed.

(** PL, BTF, TMF together *)
Definition full_kind (k : kind) : Prop := k = PL \/ k = BTF \/ k = TMF.
Lemma exchange k P (trs : list (trating R)) i ti j tj res res' :
  gf_if_tm k -> full_kind k -> NoDup (map t_rank trs) -> Forall (fun t => 0 < t_ss t) trs -> 0 < p_kappa P ->
  nth_error trs i = Some ti -> nth_error trs j = Some tj -> (t_rank tj < t_rank ti)%nat ->
  nth_error (compute k P trs) i = Some res ->
  nth_error (compute k P (map (relabel (sw (t_rank ti) (t_rank tj))) trs)) i = Some res' ->
  Forall2 (fun p p' => r_mu p <= r_mu p') res res'.
Proof.
  intros G [-> | Hk] ND Hs Hkap; [now apply exchange_pl | now apply exchange_pairs].
Qed.
Lemma identical_ordered k P (trs : list (trating R)) i ti j tj resi resj :
  gf_if_tm k -> full_kind k -> NoDup (map t_rank trs) -> Forall (fun t => 0 < t_ss t) trs -> 0 < p_kappa P ->
  nth_error trs i = Some ti -> nth_error trs j = Some tj ->
  t_mu ti = t_mu tj -> t_ss ti = t_ss tj -> t_team ti = t_team tj -> (t_rank ti < t_rank tj)%nat ->
  nth_error (compute k P trs) i = Some resi -> nth_error (compute k P trs) j = Some resj ->
  Forall2 (fun pj pi => r_mu pj <= r_mu pi) resj resi.
Proof.
  intros G [-> | Hk] ND Hs Hkap; [now apply identical_pl | now apply identical_pairs].
Qed.

(** ** partial pairing, a game of identical teams listed in finishing order (DESIGN §9-I1) *)
Lemma nbrs_sum {A} (f : A -> R) l i :
  Rsum (map f (nbrs i l))
  = match i with O => 0 | S k => match nth_error l k with Some y => f y | None => 0 end end
    + match nth_error l (S i) with Some y => f y | None => 0 end.
Proof.
  unfold nbrs. destruct i as [|k]; [|destruct (nth_error l k)]; destruct (nth_error l _); cbn; lra.
Qed.

Lemma bt_om_ident_sum P m s l r l1 r1 l2 r2 : (r1 < r)%nat -> (r < r2)%nat ->
  bt_om P (mkT m s l r) (mkT m s l1 r1) + bt_om P (mkT m s l r) (mkT m s l2 r2) = 0.
Proof.
  intros H1 H2.
  assert (B1 : Nat.ltb r r1 = false) by (apply Nat.ltb_ge; lia).
  assert (B2 : Nat.eqb r1 r = false) by (apply Nat.eqb_neq; lia).
  assert (B3 : Nat.ltb r r2 = true) by (apply Nat.ltb_lt; lia).
  unfold OmegaL.bt_om, bt_s, OmegaL.bt_p. cbn [t_mu t_ss t_rank]. rewrite B1, B2, B3.
  change (c_iq P (mkT m s l r) (mkT m s l2 r2)) with (c_iq P (mkT m s l r) (mkT m s l1 r1)).
  replace ((m - m) / c_iq P (mkT m s l r) (mkT m s l1 r1)) with 0 by (unfold Rdiv; ring).
  rewrite exp_0. lra.
Qed.
Lemma tm_om_ident_sum b P m s l r l1 r1 l2 r2 : (r1 < r)%nat -> (r < r2)%nat ->
  tm_om b P (mkT m s l r) (mkT m s l1 r1) + tm_om b P (mkT m s l r) (mkT m s l2 r2) = 0.
Proof.
  intros H1 H2.
  assert (B1 : Nat.ltb r r1 = false) by (apply Nat.ltb_ge; lia).
  assert (B3 : Nat.ltb r r2 = true) by (apply Nat.ltb_lt; lia).
  assert (B4 : Nat.ltb r1 r = true) by (apply Nat.ltb_lt; lia).
  unfold OmegaL.tm_om, OmegaL.tm_g, OmegaL.tm_x, OmegaL.tm_t. cbn [t_mu t_ss t_rank]. rewrite B1, B3, B4.
  change (tm_c b P (mkT m s l r) (mkT m s l2 r2)) with (tm_c b P (mkT m s l r) (mkT m s l1 r1)).
  replace (- ((m - m) / tm_c b P (mkT m s l r) (mkT m s l1 r1))) with ((m - m) / tm_c b P (mkT m s l r) (mkT m s l1 r1))
    by (unfold Rdiv; ring).
  ring.
Qed.
Lemma pair_om_ident_sum k P (a b d : trating R) : k <> PL ->
  t_mu b = t_mu a -> t_ss b = t_ss a -> t_mu d = t_mu a -> t_ss d = t_ss a ->
  (t_rank b < t_rank a)%nat -> (t_rank a < t_rank d)%nat ->
  pair_om k P a b + pair_om k P a d = 0.
Proof.
  intros Hk. destruct a as [m s l r], b as [m1 s1 l1 r1], d as [m2 s2 l2 r2]. cbn [t_mu t_ss t_rank].
  intros -> -> -> -> H1 H2.
  destruct k; [congruence| | | |]; cbn [OmegaL.pair_om];
    first [now apply bt_om_ident_sum | now apply tm_om_ident_sum].
Qed.

Lemma identical_partial k P (trs : list (trating R)) m s (tm : list (rating R)) i j resi resj :
  gf_if_tm k -> k = BTP \/ k = TMP -> 0 < s -> 0 < p_kappa P ->
  Forall (fun t => t_mu t = m /\ t_ss t = s /\ t_team t = tm) trs ->
  (forall a b ta tb, (a < b)%nat -> nth_error trs a = Some ta -> nth_error trs b = Some tb -> (t_rank ta < t_rank tb)%nat) ->
  (i < j)%nat ->
  nth_error (compute k P trs) i = Some resi -> nth_error (compute k P trs) j = Some resj ->
  Forall2 (fun pj pi => r_mu pj <= r_mu pi) resj resi.
Proof.
  intros G Hk Hs Hkap Hid Hsort Hij Eri Erj. rewrite Forall_forall in Hid.
  assert (Hk' : k <> PL) by (destruct Hk; subst k; discriminate).
  assert (Lj : (j < length trs)%nat) by (rewrite <- (compute_length k P trs); apply nth_error_Some; congruence).
  destruct (nth_error trs i) as [ti|] eqn:Ei; [|apply nth_error_None in Ei; lia].
  destruct (nth_error trs j) as [tj|] eqn:Ej; [|apply nth_error_None in Ej; lia].
  destruct (compute_nth_pairs Phi Phiinv k P trs i ti Hk' Ei) as [de Ec]. rewrite Ec in Eri. apply Some_inj in Eri. subst resi.
  destruct (compute_nth_pairs Phi Phiinv k P trs j tj Hk' Ej) as [de' Ec']. rewrite Ec' in Erj. apply Some_inj in Erj. subst resj.
  destruct (Hid ti (nth_error_In _ _ Ei)) as [Mi [Si Ti]]. destruct (Hid tj (nth_error_In _ _ Ej)) as [Mj [Sj Tj]].
  assert (Hpos : forall q tq, nth_error trs q = Some tq -> 0 < t_ss tq).
  { intros q tq Eq. destruct (Hid tq (nth_error_In _ _ Eq)) as [_ [-> _]]. exact Hs. }
  assert (Hident : forall q tq, nth_error trs q = Some tq -> t_mu tq = m /\ t_ss tq = s).
  { intros q tq Eq. destruct (Hid tq (nth_error_In _ _ Eq)) as [? [? _]]. auto. }
  replace (pair_opps k i trs) with (nbrs i trs) by (destruct Hk; subst k; reflexivity).
  replace (pair_opps k j trs) with (nbrs j trs) by (destruct Hk; subst k; reflexivity).
  rewrite !nbrs_sum.
  assert (Oi : 0 <= match i with O => 0 | S k0 => match nth_error trs k0 with Some y => pair_om k P ti y | None => 0 end end
                    + match nth_error trs (S i) with Some y => pair_om k P ti y | None => 0 end).
  { destruct (nth_error trs (S i)) as [tr|] eqn:Er; [|apply nth_error_None in Er; lia].
    assert (Hw : 0 <= pair_om k P ti tr).
    { apply pair_om_win; eauto; apply (Hsort i (S i)); auto. }
    destruct i as [|k0]; [lra|].
    destruct (nth_error trs k0) as [tl|] eqn:El; [|lra].
    destruct (Hident _ _ El) as [? ?]. destruct (Hident _ _ Er) as [? ?].
    rewrite (pair_om_ident_sum k P ti tl tr); try congruence; [lra| |].
    - apply (Hsort k0 (S k0)); auto.
    - apply (Hsort (S k0) (S (S k0))); auto. }
  assert (Oj : match j with O => 0 | S k0 => match nth_error trs k0 with Some y => pair_om k P tj y | None => 0 end end
               + match nth_error trs (S j) with Some y => pair_om k P tj y | None => 0 end <= 0).
  { destruct j as [|k0]; [lia|].
    destruct (nth_error trs k0) as [tl|] eqn:El; [|apply nth_error_None in El; lia].
    assert (Hl : pair_om k P tj tl <= 0).
    { apply pair_om_loss; eauto; apply (Hsort k0 (S k0)); auto. }
    destruct (nth_error trs (S (S k0))) as [tr|] eqn:Er; [|lra].
    destruct (Hident _ _ El) as [? ?]. destruct (Hident _ _ Er) as [? ?].
    rewrite (pair_om_ident_sum k P tj tl tr); try congruence; [lra| |].
    - apply (Hsort k0 (S k0)); auto.
    - apply (Hsort (S k0) (S (S k0))); auto. }
  apply update_team_mu_mono; [congruence|congruence|rewrite Sj; exact Hs|lra].
Qed.

End C05.

Lemma no_gf Phi Phiinv k : k = PL \/ k = BTF \/ k = BTP -> gf_if_tm Phi Phiinv k.
Proof. intros [E|[E|E]] [H|H]; subst k; discriminate. Qed.
Lemma with_gf Phi Phiinv k : GaussFacts Phi Phiinv -> gf_if_tm Phi Phiinv k.
Proof. intros G _. exact G. Qed.

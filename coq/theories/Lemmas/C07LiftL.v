(** * C07LiftL: the sharp Thurstone-Mosteller bound of C07 through [rate_core].

    [C07L.tm_compute_bound] bounds the precision-weighted mu change of a game handed to [compute]
    by kappa / c^2 per ordered pair of teams that the model visits and that carry the same dense
    rank.  Here the sorted game that [rate_core] hands to [compute] is identified
    ([C01L.sorted_trs_tr_of]: its team ratings are [tr_of g] of a permutation of the caller's
    game [g], the dense ranks being the number of strictly better keys), equal dense ranks are
    read back as equal rank keys ([C01L.rank_eqb]) and the bound is transported to the caller's
    game: the sum over ordered pairs of distinct positions is permutation invariant, and the
    ladder neighbours of the partial model are among them. *)
From Coq Require Import List ZArith Arith Bool Reals Lra Lia Permutation.
From OSV Require Import Num Order Gauss Core RInst Spec.
From OSV.Lemmas Require Import OrderL OrderL2 RateL SumL SpecSumL C01L C07L.
From OSV.Lemmas Require OmegaL.
Import ListNotations.
Open Scope R_scope.

(** ** sums over the ordered pairs of distinct positions *)
Lemma Rsum_rows_full {A} (g : A -> A -> R) (l : list A) :
  Rsum (map (fun io => Rsum (map (g (fst io)) (snd io))) (rows l))
  = Rsum (map (fun x => Rsum (map (g x) l) - g x x) l).
Proof.
  transitivity (Rsum (map (fun x => Rsum (map (g x) l) - g x x) (map fst (rows l)))).
  - rewrite map_map. apply Rsum_map_ext. intros [x o] Hin. cbn [fst snd].
    pose proof (rows_perm l x o Hin) as Pm.
    rewrite <- (Rsum_map_perm (g x) _ _ Pm). cbn [map Rsum]. lra.
  - now rewrite rows_fst.
Qed.

Lemma Rsum_rows_perm {A} (g : A -> A -> R) (l l' : list A) : Permutation l l' ->
  Rsum (map (fun io => Rsum (map (g (fst io)) (snd io))) (rows l))
  = Rsum (map (fun io => Rsum (map (g (fst io)) (snd io))) (rows l')).
Proof.
  intros Pm. rewrite !Rsum_rows_full.
  rewrite (Rsum_map_perm (fun x => Rsum (map (g x) l) - g x x) _ _ Pm).
  apply Rsum_map_ext. intros x _. now rewrite (Rsum_map_perm (g x) _ _ Pm).
Qed.

Lemma adj_le_upairs {A} (h : A * A -> R) (l : list A) : (forall p, 0 <= h p) ->
  Rsum (map h (adjpairs l)) <= Rsum (map h (upairs l)).
Proof.
  intros H. induction l as [|x l IH]; [cbn; lra|].
  destruct l as [|y t]; [cbn; lra|].
  change (adjpairs (x :: y :: t)) with ((x, y) :: adjpairs (y :: t)).
  change (upairs (x :: y :: t)) with ((x, y) :: map (pair x) t ++ upairs (y :: t)).
  cbn [map Rsum]. rewrite map_app, Rsum_app.
  assert (0 <= Rsum (map h (map (pair x) t))) by (apply Rsum_map_nonneg; intros; apply H).
  lra.
Qed.

Lemma Rsum_ladder_le_rows {A} (g : A -> A -> R) (l : list A) : (forall a b, 0 <= g a b) ->
  Rsum (map (fun io => Rsum (map (g (fst io)) (snd io))) (combine l (ladder_pairs l)))
  <= Rsum (map (fun io => Rsum (map (g (fst io)) (snd io))) (rows l)).
Proof.
  intros H. rewrite Rsum_ladder, Rsum_rows. apply adj_le_upairs.
  intros [a b]. unfold sym2. cbn [fst snd]. pose proof (H a b). pose proof (H b a). lra.
Qed.

Lemma Rsum_rows_map {A B} (f : A -> B) (g : B -> B -> R) (l : list A) :
  Rsum (map (fun io => Rsum (map (g (fst io)) (snd io))) (rows (map f l)))
  = Rsum (map (fun io => Rsum (map (fun y => g (f (fst io)) (f y)) (snd io))) (rows l)).
Proof. rewrite rows_map, map_map. cbn [fst snd]. apply Rsum_map_ext. intros io _. now rewrite map_map. Qed.

Lemma Rsum_ladder_map {A B} (f : A -> B) (g : B -> B -> R) (l : list A) :
  Rsum (map (fun io => Rsum (map (g (fst io)) (snd io))) (combine (map f l) (ladder_pairs (map f l))))
  = Rsum (map (fun io => Rsum (map (fun y => g (f (fst io)) (f y)) (snd io))) (combine l (ladder_pairs l))).
Proof.
  rewrite ladder_pairs_map, (OrderL.combine_map f (map f)), map_map. cbn [fst snd].
  apply Rsum_map_ext. intros io _. now rewrite map_map.
Qed.

(** the opponents listed for an element sit at other positions *)
Lemma rows_positions {A} (l : list A) io y : In io (rows l) -> In y (snd io) ->
  exists a b, a <> b /\ nth_error l a = Some (fst io) /\ nth_error l b = Some y.
Proof.
  intros Hio Hy. apply In_nth_error in Hio. destruct Hio as [i Ei].
  assert (Li : (i < length l)%nat) by (rewrite <- (rows_length l); apply nth_error_Some; congruence).
  destruct (nth_error l i) as [x|] eqn:Ex; [|apply nth_error_None in Ex; lia].
  rewrite (OmegaL.rows_nth l i x Ex) in Ei. injection Ei as <-. cbn [fst snd] in *.
  destruct (OmegaL.others_in i l y Hy) as [q [Hq Eq]]. exists i, q. auto.
Qed.
Lemma nth_error_combine_fst {A B} (l : list A) (l' : list B) i x :
  nth_error (combine l l') i = Some x -> nth_error l i = Some (fst x).
Proof.
  revert l' i. induction l as [|a l IH]; intros [|b l'] [|i] E; cbn in *; try discriminate.
  - now injection E as <-.
  - now apply (IH l').
Qed.
Lemma nth_error_seq0 n a x : nth_error (seq 0 n) a = Some x -> x = a.
Proof.
  intros E. assert (La : (a < n)%nat) by (rewrite <- (seq_length n 0); apply nth_error_Some; congruence).
  apply (nth_error_nth _ _ 0%nat) in E. rewrite seq_nth in E by exact La. lia.
Qed.

Section C07Lift.
Variables Phi Phiinv : R -> R.
Local Hint Extern 0 (Num R) => exact (C07L.RN Phi Phiinv) : typeclass_instances.

Notation tr_of := (C01L.tr_of Phi Phiinv).
Notation tm_c := (C07L.tm_c Phi Phiinv).

(** the compute-level bound of one ordered pair, and its reading on the entries of a game *)
Definition rank_term (two_c : bool) (P : params R) (ti tq : trating R) : R :=
  if Nat.eqb (t_rank ti) (t_rank tq)
  then p_kappa P / (tm_c two_c P ti tq * tm_c two_c P ti tq) else 0.
Definition tied_term (two_c : bool) (P : params R) (x q : entry) : R :=
  if key_leb (fst x) (fst q) && key_leb (fst q) (fst x)
  then p_kappa P / ((if two_c then 4 else 1) * (ssq (snd x) + ssq (snd q) + 2 * (p_beta P * p_beta P)))
  else 0.

Lemma rank_term_tied two_c P g x q : wfg g -> In x g -> In q g ->
  0 < ssq (snd x) -> 0 < ssq (snd q) ->
  rank_term two_c P (tr_of g x) (tr_of g q) = tied_term two_c P x q.
Proof.
  intros W Ix Iq Hx Hq. unfold rank_term, tied_term.
  rewrite !(C01L.tr_of_rank Phi Phiinv).
  rewrite (C01L.rank_eqb g q x W Iq Ix). unfold key_eqb. rewrite andb_comm.
  destruct (key_leb (fst x) (fst q) && key_leb (fst q) (fst x)); [|reflexivity].
  f_equal.
  assert (Hsx : 0 < t_ss (tr_of g x)) by (rewrite (C01L.tr_of_ss Phi Phiinv); exact Hx).
  assert (Hsq : 0 < t_ss (tr_of g q)) by (rewrite (C01L.tr_of_ss Phi Phiinv); exact Hq).
  pose proof (C07L.c_iq_sqr Phi Phiinv P (tr_of g x) (tr_of g q) Hsx Hsq) as E.
  rewrite !(C01L.tr_of_ss Phi Phiinv) in E.
  unfold C07L.tm_c. destruct two_c.
  - replace (2 * c_iq P (tr_of g x) (tr_of g q) * (2 * c_iq P (tr_of g x) (tr_of g q)))
      with (4 * (c_iq P (tr_of g x) (tr_of g q) * c_iq P (tr_of g x) (tr_of g q))) by ring.
    now rewrite E.
  - rewrite E. ring.
Qed.

Lemma tied_term_nonneg two_c P x q : 0 < p_kappa P -> 0 <= tied_term two_c P x q.
Proof.
  intros Hk. unfold tied_term. destruct (_ && _); [|lra].
  set (d := _ * _). unfold Rdiv. apply Rmult_le_pos; [lra|].
  destruct (Req_EM_T d 0) as [E|E]; [rewrite E, Rinv_0; lra|].
  destruct (Rlt_dec 0 d) as [L|L]; [left; now apply Rinv_0_lt_compat|].
  left. apply Rinv_0_lt_compat. exfalso. apply L.
  assert (Hs : forall t : team, 0 <= ssq t).
  { intros t. unfold ssq. apply Rsum_map_nonneg. intros p _. nra. }
  pose proof (Hs (snd x)). pose proof (Hs (snd q)). unfold d in *. destruct two_c; nra.
Qed.

(** ** the game that [rate_core] hands to [compute] *)
Definition sorted_entries (tau : R) (teams : list team) (keys : option (list key)) : game :=
  match keys with
  | Some ks => combine (fst (sorted_game (map (map (inflate tau)) teams) ks))
                       (snd (sorted_game (map (map (inflate tau)) teams) ks))
  | None => game_of tau teams None
  end.

Definition call_dom (tau : R) (teams : list team) : Prop :=
  Forall (fun t => t <> [] /\ Forall (fun p => 0 < r_sigma p * r_sigma p + tau * tau) t) teams.

Lemma rate_sum_game k P tau limit (teams : list team) keys :
  keys_ok (length teams) keys -> call_dom tau teams ->
  Permutation (game_of tau teams keys) (sorted_entries tau teams keys) /\
  rate_sum tau teams (rate_core k P tau limit teams keys)
  = gain_sum (map (tr_of (game_of tau teams keys)) (sorted_entries tau teams keys))
             (compute k P (map (tr_of (game_of tau teams keys)) (sorted_entries tau teams keys))).
Proof.
  intros K Hd. set (teams' := map (map (inflate tau)) teams).
  assert (Hd' : Forall team_dom teams') by (now apply inflate_dom).
  assert (Hlen' : length teams' = length teams) by (unfold teams'; now rewrite map_length).
  assert (Hstep : rate_sum tau teams (rate_core k P tau limit teams keys) = gsum' teams' (rate_sorted k P teams' keys)).
  { assert (Hp : Forall (Forall (fun p => 0 < r_sigma p * r_sigma p + tau * tau)) teams)
      by (revert Hd; apply Forall_impl; intros t [_ Ht]; exact Ht).
    unfold rate_core. fold teams'. destruct limit; [rewrite rate_sum_clamp|]; now apply rate_sum_inflate. }
  rewrite Hstep. clear Hstep. destruct keys as [ks|].
  - destruct K as [E0 Wk]. assert (E : length ks = length teams') by congruence.
    assert (Eg : game_of tau teams (Some ks) = combine ks teams') by reflexivity.
    rewrite Eg. cbn [sorted_entries]. fold teams'.
    split; [now apply sorted_game_perm|].
    pose proof (C01L.sorted_trs_tr_of Phi Phiinv teams' ks E Wk) as Etr.
    change (sorted_trs teams' ks = map (tr_of (combine ks teams'))
              (combine (fst (sorted_game teams' ks)) (snd (sorted_game teams' ks)))) in Etr.
    rewrite <- Etr.
    destruct (rate_sorted_some k P teams' ks E) as [L Pm].
    pose proof (sorted_trs_teams teams' ks E) as Hst.
    assert (Lk : length (fst (sorted_game teams' ks)) = length teams')
      by (unfold sorted_game; cbn [fst]; rewrite isort_length; exact E).
    assert (Ls : length (snd (sorted_game teams' ks)) = length teams')
      by (unfold sorted_game; cbn [snd]; now apply unwind_fst_length).
    assert (Hperm : Permutation teams' (snd (sorted_game teams' ks))).
    { pose proof (sorted_game_perm teams' ks E) as Pg. apply (Permutation_map snd) in Pg.
      rewrite !combine_map_snd in Pg by congruence. exact Pg. }
    assert (Hdom : trs_dom (sorted_trs teams' ks)).
    { unfold sorted_trs. apply team_ratings_dom. eapply Permutation_Forall; [exact Hperm|exact Hd']. }
    set (G := fun (t r : list (rating R)) => mu_gain t r / sumsq t).
    transitivity (Rsum (map (fun t : key * list (rating R) * list (rating R) => G (snd (fst t)) (snd t))
                            (combine (combine ks teams') (rate_sorted k P teams' (Some ks))))).
    { unfold gsum'. f_equal. symmetry. apply (combine3_drop G). exact E. }
    rewrite (Rsum_perm _ _ (Permutation_map _ Pm)).
    rewrite (combine3_drop G) by congruence.
    rewrite <- Hst. apply gsum'_trs. now apply trs_dom_ok.
  - split; [reflexivity|]. cbn [sorted_entries].
    assert (Eg : game_of tau teams None = combine (map key_of_nat (seq 0 (length teams'))) teams')
      by (rewrite Hlen'; reflexivity).
    rewrite Eg.
    pose proof (C01L.none_trs_tr_of Phi Phiinv teams') as Etr.
    change (team_ratings teams' (seq 0 (length teams'))
            = map (tr_of (combine (map key_of_nat (seq 0 (length teams'))) teams'))
                  (combine (map key_of_nat (seq 0 (length teams'))) teams')) in Etr.
    rewrite <- Etr.
    assert (Hst : map t_team (team_ratings teams' (seq 0 (length teams'))) = teams')
      by (apply team_ratings_teams; now rewrite seq_length).
    assert (Hdom : trs_dom (team_ratings teams' (seq 0 (length teams')))) by (now apply team_ratings_dom).
    rewrite rate_sorted_none. rewrite <- Hst at 1. apply gsum'_trs. now apply trs_dom_ok.
Qed.

Lemma game_entry_dom tau (teams : list team) keys (e : entry) : call_dom tau teams ->
  In e (game_of tau teams keys) -> team_dom (snd e).
Proof.
  intros Hd Hin. destruct e as [k t]. unfold game_of in Hin. apply in_combine_r in Hin. cbn [snd].
  pose proof (inflate_dom Phi Phiinv tau teams Hd) as Hd'. rewrite Forall_forall in Hd'. now apply Hd'.
Qed.
Lemma team_dom_ssq (t : team) : team_dom t -> 0 < ssq t.
Proof.
  intros [Hne Hp]. unfold ssq. apply Rsum_pos; [destruct t; [congruence|discriminate]|]. now rewrite Forall_map.
Qed.

Lemma game_trs_dom tau (teams : list team) keys (sg : game) : call_dom tau teams ->
  (forall e, In e sg -> In e (game_of tau teams keys)) ->
  trs_dom (map (tr_of (game_of tau teams keys)) sg).
Proof.
  intros Hd Hin. unfold trs_dom. rewrite Forall_map, Forall_forall. intros e He.
  pose proof (game_entry_dom tau teams keys e Hd (Hin e He)) as D.
  rewrite (C01L.tr_of_ss Phi Phiinv). cbn [t_team C01L.tr_of team_rating].
  split; [exact (proj1 D)|]. split; [reflexivity|now apply team_dom_ssq].
Qed.

(** the bound over the ordered pairs that the model visits in the sorted game *)
Definition visited (two_c : bool) (sg : game) : list (entry * list entry) :=
  if two_c then combine sg (ladder_pairs sg) else rows sg.

Theorem rate_tm_visited_game two_c P tau limit (teams : list team) keys :
  (2 <= length teams)%nat -> 0 < p_beta P -> 0 < p_kappa P ->
  keys_ok (length teams) keys -> call_dom tau teams ->
  0 <= rate_sum tau teams (rate_core (tm_kind two_c) P tau limit teams keys)
    <= Rsum (map (fun io : entry * list entry => Rsum (map (tied_term two_c P (fst io)) (snd io)))
                 (visited two_c (sorted_entries tau teams keys))).
Proof.
  intros Hn Hb Hkap K Hd.
  destruct (rate_sum_game (tm_kind two_c) P tau limit teams keys K Hd) as [Pm E]. rewrite E. clear E.
  set (g := game_of tau teams keys) in *. set (sg := sorted_entries tau teams keys) in *.
  assert (Isg : forall e, In e sg -> In e g) by (intros e He; eapply Permutation_in; [symmetry; exact Pm|exact He]).
  pose proof (game_trs_dom tau teams keys sg Hd Isg) as D. fold g in D.
  pose proof (game_of_wfg tau teams keys K) as W. fold g in W.
  assert (Ln : (2 <= length (map (tr_of g) sg))%nat).
  { rewrite map_length, <- (Permutation_length Pm). pose proof (keys_of_length _ _ K) as LK.
    unfold g, game_of, entry, team in *. rewrite combine_length, LK, map_length. lia. }
  destruct (tm_compute_bound Phi Phiinv two_c P (map (tr_of g) sg) Ln Hb Hkap D) as [B0 B1].
  split; [exact B0|]. eapply Rle_trans; [exact B1|]. clear B0 B1. right.
  change (Rsum (map (fun io : trating R * list (trating R) => Rsum (map (rank_term two_c P (fst io)) (snd io)))
                    (tm_opp two_c (map (tr_of g) sg)))
          = Rsum (map (fun io : entry * list entry => Rsum (map (tied_term two_c P (fst io)) (snd io))) (visited two_c sg))).
  assert (Hterm : forall x q, In x sg -> In q sg ->
            rank_term two_c P (tr_of g x) (tr_of g q) = tied_term two_c P x q).
  { intros x q Hx Hq. apply rank_term_tied; auto.
    - apply team_dom_ssq. eapply game_entry_dom; [exact Hd|]. apply Isg, Hx.
    - apply team_dom_ssq. eapply game_entry_dom; [exact Hd|]. apply Isg, Hq. }
  destruct two_c; cbn [tm_opp visited].
  - unfold opponents_part. rewrite (Rsum_ladder_map (tr_of g) (rank_term true P) sg).
    apply (Rsum_opp_ext (fun x y => rank_term true P (tr_of g x) (tr_of g y)) (tied_term true P)).
    intros io y Hio Hy. apply Hterm.
    + destruct io as [a nb]. now apply in_combine_l in Hio.
    + eapply ladder_in; [exact Hio|exact Hy].
  - unfold opponents_full. rewrite (Rsum_rows_map (tr_of g) (rank_term false P) sg).
    apply (Rsum_opp_ext (fun x y => rank_term false P (tr_of g x) (tr_of g y)) (tied_term false P)).
    intros io y Hio Hy. apply Hterm.
    + now apply rows_in_fst.
    + eapply rows_in; [exact Hio|exact Hy].
Qed.

(** ... weakened to all ordered pairs of distinct positions of the caller's (tau-inflated) game *)
Theorem rate_tm_sharp_game two_c P tau limit (teams : list team) keys :
  (2 <= length teams)%nat -> 0 < p_beta P -> 0 < p_kappa P ->
  keys_ok (length teams) keys -> call_dom tau teams ->
  0 <= rate_sum tau teams (rate_core (tm_kind two_c) P tau limit teams keys)
    <= Rsum (map (fun io : entry * list entry => Rsum (map (tied_term two_c P (fst io)) (snd io)))
                 (rows (game_of tau teams keys))).
Proof.
  intros Hn Hb Hkap K Hd.
  destruct (rate_tm_visited_game two_c P tau limit teams keys Hn Hb Hkap K Hd) as [B0 B1].
  split; [exact B0|]. eapply Rle_trans; [exact B1|].
  destruct (rate_sum_game (tm_kind two_c) P tau limit teams keys K Hd) as [Pm _].
  rewrite (Rsum_rows_perm (tied_term two_c P) _ _ Pm).
  destruct two_c; cbn [visited]; [|lra].
  apply (Rsum_ladder_le_rows (tied_term true P)). intros; now apply tied_term_nonneg.
Qed.

(** ** the same bound on the caller's own teams and keys: the inflated team variance is
    [infl_var tau t] = the sum over the members of sigma^2 + tau^2 *)
Definition raw_term (m : R) (P : params R) (tau : R) (x q : key * list (rating R)) : R :=
  if key_leb (fst x) (fst q) && key_leb (fst q) (fst x)
  then p_kappa P / (m * (infl_var tau (snd x) + infl_var tau (snd q) + 2 * (p_beta P * p_beta P)))
  else 0.

Lemma game_of_map tau (teams : list team) keys :
  game_of tau teams keys
  = map (fun e : key * list (rating R) => (fst e, map (inflate tau) (snd e))) (combine (keys_of (length teams) keys) teams).
Proof. unfold game_of. apply SpecSumL.combine_map_r. Qed.

Lemma ssq_inflate tau (t : team) : Forall (fun p => 0 < r_sigma p * r_sigma p + tau * tau) t ->
  ssq (map (inflate tau) t) = infl_var tau t.
Proof. intros H. now apply (sumsq_inflate Phi Phiinv). Qed.

Theorem rate_tm_sharp two_c P tau limit (teams : list team) keys :
  (2 <= length teams)%nat -> 0 < p_beta P -> 0 < p_kappa P ->
  keys_ok (length teams) keys -> call_dom tau teams ->
  0 <= rate_sum tau teams (rate_core (tm_kind two_c) P tau limit teams keys)
    <= Rsum (map (fun io : (key * list (rating R)) * list (key * list (rating R)) =>
                    Rsum (map (raw_term (if two_c then 4 else 1) P tau (fst io)) (snd io)))
                 (rows (combine (keys_of (length teams) keys) teams))).
Proof.
  intros Hn Hb Hkap K Hd.
  destruct (rate_tm_sharp_game two_c P tau limit teams keys Hn Hb Hkap K Hd) as [B0 B1].
  split; [exact B0|]. eapply Rle_trans; [exact B1|]. right.
  rewrite game_of_map.
  rewrite (Rsum_rows_map (fun e : key * list (rating R) => (fst e, map (inflate tau) (snd e))) (tied_term two_c P)).
  apply (Rsum_opp_ext (fun x y : key * list (rating R) =>
           tied_term two_c P (fst x, map (inflate tau) (snd x)) (fst y, map (inflate tau) (snd y)))
           (raw_term (if two_c then 4 else 1) P tau)).
  intros io y Hio Hy.
  assert (Ht : forall e : key * list (rating R), In e (combine (keys_of (length teams) keys) teams) ->
            Forall (fun p => 0 < r_sigma p * r_sigma p + tau * tau) (snd e)).
  { intros [k t] He. apply in_combine_r in He. unfold call_dom in Hd. rewrite Forall_forall in Hd.
    exact (proj2 (Hd t He)). }
  unfold tied_term, raw_term. cbn [fst snd].
  rewrite (ssq_inflate tau (snd (fst io))) by (apply Ht; now apply rows_in_fst).
  rewrite (ssq_inflate tau (snd y)) by (apply Ht; eapply rows_in; [exact Hio|exact Hy]).
  reflexivity.
Qed.

(** the two kinds, with the bound written out *)
Corollary rate_tmf_sharp P tau limit (teams : list team) keys :
  (2 <= length teams)%nat -> 0 < p_beta P -> 0 < p_kappa P ->
  keys_ok (length teams) keys -> call_dom tau teams ->
  0 <= rate_sum tau teams (rate_core TMF P tau limit teams keys)
    <= Rsum (map (fun io : (key * list (rating R)) * list (key * list (rating R)) =>
          Rsum (map (fun q : key * list (rating R) =>
             if key_leb (fst (fst io)) (fst q) && key_leb (fst q) (fst (fst io))
             then p_kappa P / (infl_var tau (snd (fst io)) + infl_var tau (snd q) + 2 * (p_beta P * p_beta P))
             else 0) (snd io)))
        (rows (combine (keys_of (length teams) keys) teams))).
Proof.
  intros Hn Hb Hkap K Hd. destruct (rate_tm_sharp false P tau limit teams keys Hn Hb Hkap K Hd) as [B0 B1].
  split; [exact B0|]. eapply Rle_trans; [exact B1|]. right.
  apply Rsum_map_ext. intros io _. apply Rsum_map_ext. intros q _. unfold raw_term.
  now rewrite Rmult_1_l.
Qed.
Corollary rate_tmp_sharp P tau limit (teams : list team) keys :
  (2 <= length teams)%nat -> 0 < p_beta P -> 0 < p_kappa P ->
  keys_ok (length teams) keys -> call_dom tau teams ->
  0 <= rate_sum tau teams (rate_core TMP P tau limit teams keys)
    <= Rsum (map (fun io : (key * list (rating R)) * list (key * list (rating R)) =>
          Rsum (map (fun q : key * list (rating R) =>
             if key_leb (fst (fst io)) (fst q) && key_leb (fst q) (fst (fst io))
             then p_kappa P / (4 * (infl_var tau (snd (fst io)) + infl_var tau (snd q) + 2 * (p_beta P * p_beta P)))
             else 0) (snd io)))
        (rows (combine (keys_of (length teams) keys) teams))).
Proof. exact (rate_tm_sharp true P tau limit teams keys). Qed.

(** ** no tied pair: exactly zero *)
Definition no_ties (ks : list key) : Prop :=
  forall a b ka kb, a <> b -> nth_error ks a = Some ka -> nth_error ks b = Some kb ->
    key_leb ka kb && key_leb kb ka = false.

Theorem rate_tm_no_ties two_c P tau limit (teams : list team) keys :
  (2 <= length teams)%nat -> 0 < p_beta P -> 0 < p_kappa P ->
  keys_ok (length teams) keys -> call_dom tau teams ->
  no_ties (keys_of (length teams) keys) ->
  rate_sum tau teams (rate_core (tm_kind two_c) P tau limit teams keys) = 0.
Proof.
  intros Hn Hb Hkap K Hd NT.
  destruct (rate_tm_sharp two_c P tau limit teams keys Hn Hb Hkap K Hd) as [B0 B1].
  rewrite Rsum_map_zero_ext in B1; [lra|]. intros io Hio. apply Rsum_map_zero_ext. intros y Hy.
  destruct (rows_positions _ io y Hio Hy) as [a [b [Hab [Ea Eb]]]].
  apply nth_error_combine_fst in Ea. apply nth_error_combine_fst in Eb.
  unfold raw_term. now rewrite (NT a b _ _ Hab Ea Eb).
Qed.

Lemma none_no_ties n : no_ties (map key_of_nat (seq 0 n)).
Proof.
  intros a b ka kb Hab Ea Eb. rewrite nth_error_map in Ea, Eb.
  destruct (nth_error (seq 0 n) a) as [x|] eqn:Ex; [|discriminate].
  destruct (nth_error (seq 0 n) b) as [y|] eqn:Ey; [|discriminate].
  apply nth_error_seq0 in Ex. apply nth_error_seq0 in Ey. subst x y.
  cbn in Ea, Eb. injection Ea as <-. injection Eb as <-.
  rewrite !key_leb_of_nat. destruct (Nat.leb_spec a b), (Nat.leb_spec b a); try reflexivity. lia.
Qed.

Corollary rate_tm_none two_c P tau limit (teams : list team) :
  (2 <= length teams)%nat -> 0 < p_beta P -> 0 < p_kappa P -> call_dom tau teams ->
  rate_sum tau teams (rate_core (tm_kind two_c) P tau limit teams None) = 0.
Proof.
  intros Hn Hb Hkap Hd. apply rate_tm_no_ties; auto; [exact I|]. apply none_no_ties.
Qed.

(** ** the partial model, sharp: only the neighbours in the stable order by rank key count *)
Theorem rate_tmp_neighbours P tau limit (teams : list team) ks :
  (2 <= length teams)%nat -> 0 < p_beta P -> 0 < p_kappa P ->
  length ks = length teams -> Forall key_wf ks -> call_dom tau teams ->
  let sg := combine (isort key_leb ks) (fst (unwind key_leb ks teams)) in
  0 <= rate_sum tau teams (rate_core TMP P tau limit teams (Some ks))
    <= Rsum (map (fun io : (key * list (rating R)) * list (key * list (rating R)) =>
          Rsum (map (fun q : key * list (rating R) =>
             if key_leb (fst (fst io)) (fst q) && key_leb (fst q) (fst (fst io))
             then p_kappa P / (4 * (infl_var tau (snd (fst io)) + infl_var tau (snd q) + 2 * (p_beta P * p_beta P)))
             else 0) (snd io)))
        (combine sg (ladder_pairs sg))).
Proof.
  intros Hn Hb Hkap E Wk Hd sg.
  destruct (rate_tm_visited_game true P tau limit teams (Some ks) Hn Hb Hkap (conj E Wk) Hd) as [B0 B1].
  split; [exact B0|]. eapply Rle_trans; [exact B1|]. right. clear B0 B1.
  cbn [visited sorted_entries]. unfold sorted_game. cbn [fst snd].
  rewrite (unwind_fst_map key_leb (map (inflate tau)) ks teams).
  rewrite (SpecSumL.combine_map_r (map (inflate tau)) (isort key_leb ks) (fst (unwind key_leb ks teams))).
  fold sg.
  rewrite (Rsum_ladder_map (fun e : key * list (rating R) => (fst e, map (inflate tau) (snd e))) (tied_term true P) sg).
  apply (Rsum_opp_ext (fun x y : key * list (rating R) =>
           tied_term true P (fst x, map (inflate tau) (snd x)) (fst y, map (inflate tau) (snd y)))
           (raw_term 4 P tau)).
  intros io y Hio Hy.
  assert (Ht : forall e : key * list (rating R), In e sg -> Forall (fun p => 0 < r_sigma p * r_sigma p + tau * tau) (snd e)).
  { intros [k t] He. apply in_combine_r in He.
    assert (Hin : In t teams).
    { pose proof (unwind_perm key_leb ks teams E) as Pm. apply (Permutation_map snd) in Pm.
      rewrite !combine_map_snd in Pm by (rewrite ?isort_length, ?unwind_fst_length; auto).
      eapply Permutation_in; [symmetry; exact Pm|exact He]. }
    unfold call_dom in Hd. rewrite Forall_forall in Hd. exact (proj2 (Hd t Hin)). }
  unfold tied_term, raw_term. cbn [fst snd].
  rewrite (ssq_inflate tau (snd (fst io))) by (apply Ht; destruct io as [a nb]; now apply in_combine_l in Hio).
  rewrite (ssq_inflate tau (snd y)) by (apply Ht; eapply ladder_in; [exact Hio|exact Hy]).
  reflexivity.
Qed.
End C07Lift.

(** * SpecSumL: list and finite-sum lemmas used by the refinement proof C01
    (accumulating folds are sums, sums over filtered / permuted / index-tagged lists,
    the rows of "everybody else").  Nothing model specific.  No axioms beyond the reals. *)
From Coq Require Import List Arith Bool Lia Permutation Reals Lra.
From OSV Require Import Num Order RInst.
From OSV.Lemmas Require Import OrderL OrderL2 RateL.
Import ListNotations.
Open Scope R_scope.

(** ** folds that accumulate are sums *)
Lemma fold_left_pair_sum {A} (fo fd : A -> R) (step : R * R -> A -> R * R) :
  (forall od a, step od a = (fst od + fo a, snd od + fd a)) ->
  forall l od, fold_left step l od = (fst od + Rsum (map fo l), snd od + Rsum (map fd l)).
Proof.
  intros H l. induction l as [|a l IH]; intros od; cbn [fold_left map Rsum].
  - destruct od; cbn; f_equal; lra.
  - rewrite IH, H. cbn [fst snd]. f_equal; lra.
Qed.

Lemma fold_left_acc_sum {A} (f : A -> R) l a :
  fold_left (fun acc t => acc + f t) l a = a + Rsum (map f l).
Proof.
  revert a. induction l as [|x l IH]; intros a; cbn [fold_left map Rsum]; [lra|]. rewrite IH. lra.
Qed.

(** ** sums and filters / permutations *)
Lemma Rsum_filter_if {A} (c : A -> bool) (f : A -> R) l :
  Rsum (map (fun x => if c x then f x else 0) l) = Rsum (map f (filter c l)).
Proof.
  induction l as [|x l IH]; cbn [map filter Rsum]; [reflexivity|].
  destruct (c x); cbn [map Rsum]; lra.
Qed.

Lemma Rsum_map_perm {A} (f : A -> R) l l' : Permutation l l' -> Rsum (map f l) = Rsum (map f l').
Proof. intros P. apply Rsum_perm. now apply Permutation_map. Qed.

Lemma filter_perm {A} (c : A -> bool) l l' : Permutation l l' -> Permutation (filter c l) (filter c l').
Proof.
  induction 1 as [|x l l' P IH|x y l|l l' l'' P1 IH1 P2 IH2]; cbn [filter].
  - constructor.
  - destruct (c x); [now constructor|assumption].
  - destruct (c x), (c y); try reflexivity. apply perm_swap.
  - now transitivity (filter c l').
Qed.

Lemma Rsum_map_filter_perm {A} (c : A -> bool) (f : A -> R) l l' :
  Permutation l l' -> Rsum (map f (filter c l)) = Rsum (map f (filter c l')).
Proof. intros P. apply Rsum_map_perm. now apply filter_perm. Qed.

Lemma Rsum_map_ext_in {A} (f g : A -> R) l :
  (forall a, In a l -> f a = g a) -> Rsum (map f l) = Rsum (map g l).
Proof. intros H. f_equal. now apply map_ext_in. Qed.

Lemma filter_map_length {A B} (f : A -> B) (c : B -> bool) l :
  length (filter (fun a => c (f a)) l) = length (filter c (map f l)).
Proof. induction l as [|a l IH]; cbn; [reflexivity|]. destruct (c (f a)); cbn; congruence. Qed.

Lemma filter_true {A} (l : list A) : filter (fun _ => true) l = l.
Proof. induction l as [|a l IH]; cbn; congruence. Qed.

(** ** index-tagged lists: [combine (seq s (length l)) l] *)
Lemma In_indexed_nth {X} (l : list X) s i x :
  In (i, x) (combine (seq s (length l)) l) -> (s <= i)%nat /\ nth_error l (i - s) = Some x.
Proof.
  revert s. induction l as [|y l IH]; intros s Hin; cbn in Hin; [contradiction|].
  destruct Hin as [E|Hin].
  - injection E as <- <-. rewrite Nat.sub_diag. split; [lia|reflexivity].
  - destruct (IH (S s) Hin) as [H1 H2]. split; [lia|].
    replace (i - s)%nat with (S (i - S s)) by lia. exact H2.
Qed.

Lemma indexed_snd {X} (l : list X) s : map snd (combine (seq s (length l)) l) = l.
Proof. apply combine_map_snd. now rewrite seq_length. Qed.

Lemma map_indexed_ext {X B} (G : nat * X -> B) (F : X -> B) (l : list X) s :
  (forall ie, In ie (combine (seq s (length l)) l) -> G ie = F (snd ie)) ->
  map G (combine (seq s (length l)) l) = map F l.
Proof.
  intros H. transitivity (map F (map snd (combine (seq s (length l)) l))).
  - rewrite map_map. now apply map_ext_in.
  - f_equal. apply indexed_snd.
Qed.

Lemma Rsum_own_none {X} (c : X -> bool) (a b : X -> R) (l : list X) s i :
  (i < s)%nat ->
  Rsum (map (fun qe : nat * X => if Nat.eqb (fst qe) i then a (snd qe) else b (snd qe))
            (filter (fun qe : nat * X => c (snd qe)) (combine (seq s (length l)) l)))
  = Rsum (map b (filter c l)).
Proof.
  revert s. induction l as [|y l IH]; intros s Hlt; cbn [length seq combine filter map Rsum snd]; [reflexivity|].
  destruct (c y); cbn [map Rsum fst snd].
  - rewrite (IH (S s)) by lia. destruct (Nat.eqb_spec s i); [lia|reflexivity].
  - apply IH. lia.
Qed.

(** a sum whose summand singles out position [i]: split off the own term *)
Lemma Rsum_own_split {X} (c : X -> bool) (a b : X -> R) (l : list X) s i x :
  In (i, x) (combine (seq s (length l)) l) -> c x = true ->
  Rsum (map (fun qe : nat * X => if Nat.eqb (fst qe) i then a (snd qe) else b (snd qe))
            (filter (fun qe : nat * X => c (snd qe)) (combine (seq s (length l)) l)))
  = Rsum (map b (filter c l)) + (a x - b x).
Proof.
  revert s. induction l as [|y l IH]; intros s Hin Hc; cbn [length seq combine] in *; [destruct Hin|].
  destruct Hin as [E|Hin].
  - injection E as <- <-. cbn [filter snd]. rewrite Hc. cbn [map Rsum fst snd].
    rewrite Nat.eqb_refl. rewrite (Rsum_own_none c a b l (S s) s) by lia. lra.
  - assert (Hs : (S s <= i)%nat).
    { apply in_combine_l in Hin. apply in_seq in Hin. lia. }
    cbn [filter snd]. destruct (c y); cbn [map Rsum fst snd].
    + rewrite (IH (S s) Hin Hc). destruct (Nat.eqb_spec s i); [lia|]. lra.
    + apply (IH (S s) Hin Hc).
Qed.

(** the sum over all positions but [i] *)
Lemma Rsum_others {X} (h : X -> R) (l : list X) s i x :
  In (i, x) (combine (seq s (length l)) l) ->
  Rsum (map (fun qe : nat * X => h (snd qe))
            (filter (fun qe : nat * X => negb (Nat.eqb (fst qe) i)) (combine (seq s (length l)) l)))
  = Rsum (map h l) - h x.
Proof.
  intros Hin.
  rewrite <- (Rsum_filter_if (fun qe : nat * X => negb (Nat.eqb (fst qe) i)) (fun qe => h (snd qe))).
  pose proof (Rsum_own_split (fun _ => true) (fun _ => 0) h l s i x Hin eq_refl) as E.
  cbv beta in E. rewrite !filter_true in E.
  replace (Rsum (map h l) - h x) with (Rsum (map h l) + (0 - h x)) by lra. rewrite <- E.
  apply Rsum_map_ext_in. intros qe _. destruct (Nat.eqb (fst qe) i); reflexivity.
Qed.

(** ** pointwise reading of a joint permutation *)
Lemma combine_pointwise {A B} (F : A -> B) (l : list A) (r : list B) :
  length r = length l -> Forall (fun p => snd p = F (fst p)) (combine l r) -> r = map F l.
Proof.
  revert r. induction l as [|a l IH]; intros [|b r] E H; cbn in *; try discriminate; [reflexivity|].
  inversion H as [|? ? H1 H2]; subst. cbn in H1. f_equal; [assumption|]. apply IH; [congruence|assumption].
Qed.

Lemma combine_map_r_same {A B} (F : A -> B) (l : list A) : combine l (map F l) = map (fun a => (a, F a)) l.
Proof. induction l as [|a l IH]; cbn; congruence. Qed.

Lemma perm_pointwise {A B} (F : A -> B) (l s : list A) (r : list B) :
  length r = length l -> Permutation (combine l r) (combine s (map F s)) -> r = map F l.
Proof.
  intros E P. apply combine_pointwise; [exact E|].
  eapply Permutation_Forall; [symmetry; exact P|].
  rewrite combine_map_r_same. rewrite Forall_forall. intros p Hp.
  apply in_map_iff in Hp. destruct Hp as [a [<- _]]. reflexivity.
Qed.

(** ** [rows]: every element with all the others *)
Lemma rows_aux_map {A B} (f : A -> B) pre l :
  rows_aux (map f pre) (map f l) = map (fun xo : A * list A => (f (fst xo), map f (snd xo))) (rows_aux pre l).
Proof.
  revert pre. induction l as [|x l IH]; intros pre; cbn [rows_aux map]; [reflexivity|].
  rewrite <- map_rev, <- map_app. cbn [fst snd]. f_equal. apply (IH (x :: pre)).
Qed.
Lemma rows_map {A B} (f : A -> B) l :
  rows (map f l) = map (fun xo : A * list A => (f (fst xo), map f (snd xo))) (rows l).
Proof. apply (rows_aux_map f [] l). Qed.

Lemma rows_aux_perm {A} (pre l : list A) x o :
  In (x, o) (rows_aux pre l) -> Permutation (x :: o) (rev pre ++ l).
Proof.
  revert pre. induction l as [|y l IH]; intros pre Hin; cbn [rows_aux] in Hin; [destruct Hin|].
  destruct Hin as [E|Hin].
  - injection E as <- <-. apply Permutation_middle.
  - specialize (IH (y :: pre) Hin). cbn [rev] in IH. now rewrite <- app_assoc in IH.
Qed.
Lemma rows_perm {A} (l : list A) x o : In (x, o) (rows l) -> Permutation (x :: o) l.
Proof. apply (rows_aux_perm [] l). Qed.

Lemma map_rows_ext {A B} (G : A * list A -> B) (F : A -> B) l :
  (forall xo, In xo (rows l) -> G xo = F (fst xo)) -> map G (rows l) = map F l.
Proof.
  intros H. transitivity (map F (map fst (rows l))).
  - rewrite map_map. now apply map_ext_in.
  - f_equal. apply rows_fst.
Qed.

(** ** [combine] reshuffling *)
Lemma combine_swap_map {A B C} (f : A -> C) (ks : list A) (ts : list B) :
  combine ts (map f ks) = map (fun e : A * B => (snd e, f (fst e))) (combine ks ts).
Proof.
  revert ts. induction ks as [|k ks IH]; intros [|t ts]; cbn; try reflexivity. f_equal. apply IH.
Qed.

Lemma combine_map_r {A B C} (h : B -> C) (ns : list A) (l : list B) :
  combine ns (map h l) = map (fun p : A * B => (fst p, h (snd p))) (combine ns l).
Proof. revert l. induction ns as [|n ns IH]; intros [|b l]; cbn; try reflexivity. f_equal. apply IH. Qed.

Lemma filter_map_comm {A B} (f : A -> B) (c : B -> bool) l :
  filter c (map f l) = map f (filter (fun a => c (f a)) l).
Proof. induction l as [|a l IH]; cbn; [reflexivity|]. destruct (c (f a)); cbn; congruence. Qed.

Lemma Rsum_indexed_snd {X} (c : X -> bool) (h : X -> R) (l : list X) s :
  Rsum (map (fun qe : nat * X => h (snd qe)) (filter (fun qe : nat * X => c (snd qe)) (combine (seq s (length l)) l)))
  = Rsum (map h (filter c l)).
Proof.
  revert s. induction l as [|y l IH]; intros s; cbn [length seq combine filter map Rsum snd]; [reflexivity|].
  destruct (c y); cbn [map Rsum snd]; rewrite (IH (S s)); reflexivity.
Qed.

(** ** [unwind] / unsort with the positions tracked
    ([OrderL.unwind_unsort] instantiated on the objects [0, 1, .., n-1]) *)
Section UnsortIdx.
Context {K A : Type} (kleb : K -> K -> bool).

Lemma unwind_snd_objs {A'} (ks : list K) (xs : list A) (xs' : list A') : length xs = length xs' ->
  snd (unwind kleb ks xs) = snd (unwind kleb ks xs').
Proof.
  intros E. rewrite !unwind_snd. unfold sorted_triples.
  apply (Forall2_map_eq (fun e : K * (A * nat) => snd (snd e)) (fun e : K * (A' * nat) => snd (snd e))).
  eapply Forall2_weaken; [|apply (isort_rel (tag_leb kleb) (tag_leb kleb)
      (fun (a : K * (A * nat)) (b : K * (A' * nat)) => fst a = fst b /\ snd (snd a) = snd (snd b)))].
  - intros a b [_ H]. exact H.
  - revert E. generalize 0%nat. revert ks xs'.
    induction xs as [|x xs IH]; intros [|k ks] [|x' xs'] s E; cbn in *; try discriminate; try constructor.
    + cbn. auto.
    + apply IH. congruence.
  - intros x x' y y' [Hx _] [Hy _] _ _. unfold tag_leb. now rewrite Hx, Hy.
Qed.

Lemma unwind_seq_fst_snd (ks : list K) n :
  fst (unwind kleb ks (seq 0 n)) = snd (unwind kleb ks (seq 0 n)).
Proof.
  rewrite unwind_fst, unwind_snd. apply map_ext_in. intros e He.
  apply (Permutation_in _ (Permutation_sym (sorted_triples_perm kleb ks (seq 0 n)))) in He.
  destruct e as [k [x i]]. apply in_combine_r in He. rewrite seq_length in He. cbn [fst snd].
  revert He. generalize 0%nat. induction n as [|n IH]; intros s He; cbn in He; [destruct He|].
  destruct He as [E|He]; [now injection E as <- <-|]. now apply (IH (S s)).
Qed.

Theorem unwind_unsort_idx {B} (ks : list K) (xs : list A) (ys : list B) :
  length ks = length xs -> length ys = length xs ->
  let idxs := snd (unwind kleb ks xs) in
  let zs := fst (unwind Nat.leb idxs ys) in
  length zs = length xs /\
  Permutation (combine (seq 0 (length xs)) zs) (combine idxs ys).
Proof.
  intros E Ey idxs zs. set (n := length xs) in *.
  assert (Ei : idxs = snd (unwind kleb ks (seq 0 n))).
  { unfold idxs. apply unwind_snd_objs. unfold n. now rewrite seq_length. }
  destruct (unwind_unsort kleb ks (seq 0 n) ys) as [L Pm]; [now rewrite seq_length | now rewrite seq_length|].
  cbv zeta in L, Pm. rewrite <- Ei in L, Pm. fold zs in L, Pm. rewrite seq_length in L.
  split; [exact L|].
  rewrite unwind_seq_fst_snd, <- Ei in Pm.
  apply (Permutation_map (fun p : K * nat * B => (snd (fst p), snd p))) in Pm.
  assert (M : forall (l1 : list K) (l2 : list nat) (l3 : list B), length l1 = length l2 ->
            map (fun p : K * nat * B => (snd (fst p), snd p)) (combine (combine l1 l2) l3) = combine l2 l3).
  { clear. induction l1 as [|a l1 IH]; intros [|b l2] [|c l3] E; cbn in *; try discriminate; try reflexivity.
    f_equal. apply IH. congruence. }
  rewrite !M in Pm.
  - exact Pm.
  - rewrite isort_length, Ei, unwind_snd_length; [|now rewrite seq_length]. rewrite seq_length. exact E.
  - now rewrite seq_length.
Qed.
End UnsortIdx.

(** two index-tagged lists that are permutations of each other are equal *)
Lemma indexed_perm_eq {B} (zs zs' : list B) n : length zs = n -> length zs' = n ->
  Permutation (combine (seq 0 n) zs) (combine (seq 0 n) zs') -> zs = zs'.
Proof.
  intros L L' Pm.
  assert (E : combine (seq 0 n) zs = combine (seq 0 n) zs').
  { apply sorted_idx_unique; [exact Pm| |]; [rewrite <- L | rewrite <- L']; apply seq_combine_sorted. }
  apply (f_equal (map snd)) in E. rewrite !combine_map_snd in E by (now rewrite seq_length). exact E.
Qed.

(** ** ladder neighbours *)
Lemma opt_list_map {A B} (f : A -> B) (o : option A) : opt_list (option_map f o) = map f (opt_list o).
Proof. destruct o; reflexivity. Qed.
Lemma hd_error_map {A B} (f : A -> B) (l : list A) : hd_error (map f l) = option_map f (hd_error l).
Proof. destruct l; reflexivity. Qed.
Lemma ladder_aux_map {A B} (f : A -> B) prev l :
  ladder_aux (option_map f prev) (map f l) = map (map f) (ladder_aux prev l).
Proof.
  revert prev. induction l as [|x l IH]; intros prev; cbn [ladder_aux map]; [reflexivity|].
  rewrite hd_error_map, !opt_list_map, <- map_app. f_equal. apply (IH (Some x)).
Qed.
Lemma ladder_pairs_map {A B} (f : A -> B) l : ladder_pairs (map f l) = map (map f) (ladder_pairs l).
Proof. apply (ladder_aux_map f None l). Qed.

Lemma ladder_aux_in {A} (prev : option A) l x nb :
  In (x, nb) (combine l (ladder_aux prev l)) -> forall q, In q nb -> prev = Some q \/ In q l.
Proof.
  revert prev. induction l as [|y l IH]; intros prev Hin q Hq; cbn [ladder_aux combine] in Hin; [destruct Hin|].
  destruct Hin as [E|Hin].
  - injection E as <- <-. apply in_app_or in Hq. destruct Hq as [Hq|Hq].
    + destruct prev as [p|]; [|destruct Hq]. destruct Hq as [<-|[]]. now left.
    + destruct l as [|z l]; [destruct Hq|]. destruct Hq as [<-|[]]. right. right. now left.
  - destruct (IH (Some y) Hin q Hq) as [E|H]; [injection E as <-; right; now left | right; now right].
Qed.

Lemma map_combine_ext {A B C} (G : A * B -> C) (F : A -> C) (l : list A) (l' : list B) :
  length l' = length l -> (forall p, In p (combine l l') -> G p = F (fst p)) -> map G (combine l l') = map F l.
Proof.
  intros E H. transitivity (map F (map fst (combine l l'))).
  - rewrite map_map. now apply map_ext_in.
  - f_equal. apply combine_map_fst. now symmetry.
Qed.

Lemma combine_length_eq {A B} (l : list A) (l' : list B) : length l = length l' -> length (combine l l') = length l'.
Proof. intros E. rewrite combine_length. lia. Qed.

(** [unwind] commutes with a map over the objects *)
Lemma unwind_fst_map {K A A'} (kleb : K -> K -> bool) (f : A -> A') (ks : list K) (xs : list A) :
  fst (unwind kleb ks (map f xs)) = map f (fst (unwind kleb ks xs)).
Proof.
  rewrite !unwind_fst. unfold sorted_triples.
  set (Ff := fun e : K * (A * nat) => (fst e, (f (fst (snd e)), snd (snd e)))).
  assert (E : combine ks (combine (map f xs) (seq 0 (length (map f xs)))) = map Ff (combine ks (combine xs (seq 0 (length xs))))).
  { rewrite map_length. generalize 0%nat. revert ks. induction xs as [|x xs IH]; intros [|k ks] s; cbn; try reflexivity.
    f_equal. apply IH. }
  rewrite E. rewrite (isort_map (tag_leb kleb) (tag_leb kleb) Ff) by reflexivity.
  rewrite !map_map. reflexivity.
Qed.

(** ** congruence of sums / filters along a pointwise relation *)
Lemma Rsum_map_Forall2 {A B} (Q : A -> B -> Prop) (F : A -> R) (F' : B -> R) l l' :
  Forall2 Q l l' -> (forall a b, Q a b -> F a = F' b) -> Rsum (map F l) = Rsum (map F' l').
Proof. intros H HF. induction H as [|a b l l' Hab H IH]; cbn; [reflexivity|]. rewrite (HF a b Hab), IH. reflexivity. Qed.
Lemma filter_Forall2 {A B} (Q : A -> B -> Prop) (c : A -> bool) (c' : B -> bool) l l' :
  Forall2 Q l l' -> (forall a b, Q a b -> c a = c' b) -> Forall2 Q (filter c l) (filter c' l').
Proof.
  intros H Hc. induction H as [|a b l l' Hab H IH]; cbn; [constructor|].
  rewrite <- (Hc a b Hab). destruct (c a); [constructor|]; assumption.
Qed.
Lemma filter_length_Forall2 {A B} (Q : A -> B -> Prop) (c : A -> bool) (c' : B -> bool) l l' :
  Forall2 Q l l' -> (forall a b, Q a b -> c a = c' b) -> length (filter c l) = length (filter c' l').
Proof. intros H Hc. eapply Forall2_length'. eapply filter_Forall2; eassumption. Qed.
Lemma indexed_Forall2 {A B} (Q : A -> B -> Prop) l l' s :
  Forall2 Q l l' ->
  Forall2 (fun a b : nat * _ => fst a = fst b /\ Q (snd a) (snd b)) (combine (seq s (length l)) l) (combine (seq s (length l')) l').
Proof.
  intros H. revert s. induction H as [|a b l l' Hab H IH]; intros s; cbn; constructor.
  - cbn. auto.
  - apply IH.
Qed.

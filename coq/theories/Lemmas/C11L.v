(** * C11L: predict_rank — ranks agree with the probabilities (polymorphic,
    under the order laws on [fltb]/[feqb] only), probabilities in [0,1] and
    rank probabilities + draw probability = 1 for three or more teams (on R). *)
From Coq Require Import List ZArith Arith Bool Lia Permutation Reals Lra.
From OSV Require Import Num Order Gauss Core Predict RInst.
From OSV.Lemmas Require Import RankDataL PredictDrawL.
Import ListNotations.

(** ** discrete part: any carrier *)
Section Discrete.
Context {F : Type} {N : Num F}.
Hypothesis ltb_irrefl : forall x : F, fltb x x = false.
Hypothesis ltb_trans : forall x y z : F, fltb x y = true -> fltb y z = true -> fltb x z = true.
Hypothesis eqb_spec : forall x y : F, feqb x y = true <-> (fltb x y = false /\ fltb y x = false).
Hypothesis eqb_trans : forall x y z : F, feqb x y = true -> feqb y z = true -> feqb x z = true.

Variables (beta : F) (teams : list (list (rating F))).

Lemma probs_length : length (predict_rank_probs beta teams) = length teams.
Proof. unfold predict_rank_probs. now rewrite map_length, rows_length. Qed.

Lemma ranks_length :
  length (reverse_ranks (rank_data fltb feqb (predict_rank_probs beta teams))) = length teams.
Proof. now rewrite reverse_ranks_length, rank_data_length, probs_length. Qed.

Lemma predict_rank_length :
  length (predict_rank beta teams) = length teams
  /\ map snd (predict_rank beta teams) = predict_rank_probs beta teams.
Proof.
  unfold predict_rank. split.
  - rewrite combine_length, ranks_length, probs_length. apply Nat.min_id.
  - apply map_snd_combine'. now rewrite ranks_length, probs_length.
Qed.

Lemma predict_rank_nth i d :
  nth i (predict_rank beta teams) (0%nat, d)
  = (nth i (rks fltb feqb (predict_rank_probs beta teams)) 0%nat, nth i (predict_rank_probs beta teams) d).
Proof.
  unfold predict_rank, rks. apply combine_nth. now rewrite ranks_length, probs_length.
Qed.

(** each probability is computed from the team at the same position against all the others *)
Lemma predict_rank_probs_nth i d : (i < length teams)%nat ->
  nth i (predict_rank_probs beta teams) d
  = let a := agg (nth i teams []) in
    fabs (fdiv (py_sum (map (fun tb => let b := agg tb in
                  cdf (fdiv (fsub (fsub (fst a) (fst b)) (draw_margin beta teams))
                            (pair_scale beta (length teams) a b)))
                  (firstn i teams ++ skipn (S i) teams)))
               (half_pairs (length teams))).
Proof.
  intros Hi. unfold predict_rank_probs. rewrite (rows_nth [] teams), map_map.
  now rewrite nth_map_seq.
Qed.

Lemma C11_order_l i j d : (i < length teams)%nat -> (j < length teams)%nat ->
  fltb (snd (nth j (predict_rank beta teams) (0%nat, d))) (snd (nth i (predict_rank beta teams) (0%nat, d))) = true ->
  (fst (nth i (predict_rank beta teams) (0%nat, d)) < fst (nth j (predict_rank beta teams) (0%nat, d)))%nat.
Proof.
  rewrite !predict_rank_nth. cbn [fst snd]. rewrite <- probs_length.
  apply rks_order; assumption.
Qed.

Lemma C11_ties_l i j d : (i < length teams)%nat -> (j < length teams)%nat ->
  feqb (snd (nth i (predict_rank beta teams) (0%nat, d))) (snd (nth j (predict_rank beta teams) (0%nat, d))) = true ->
  fst (nth i (predict_rank beta teams) (0%nat, d)) = fst (nth j (predict_rank beta teams) (0%nat, d)).
Proof.
  rewrite !predict_rank_nth. cbn [fst snd]. rewrite <- probs_length.
  apply rks_ties; assumption.
Qed.

Lemma C11_best_is_1_l i d : (i < length teams)%nat ->
  (forall j, (j < length teams)%nat ->
     fltb (snd (nth i (predict_rank beta teams) (0%nat, d))) (snd (nth j (predict_rank beta teams) (0%nat, d))) = false) ->
  fst (nth i (predict_rank beta teams) (0%nat, d)) = 1%nat.
Proof.
  rewrite predict_rank_nth. cbn [fst snd]. intros Hi Hmax.
  rewrite <- probs_length in Hi.
  apply (rks_best fltb feqb ltb_irrefl ltb_trans eqb_spec eqb_trans _ d i Hi).
  intros j Hj. rewrite probs_length in Hj. specialize (Hmax j Hj).
  rewrite predict_rank_nth in Hmax. exact Hmax.
Qed.

Lemma C11_rank1_exists_l d : teams <> [] ->
  exists i, (i < length teams)%nat /\ fst (nth i (predict_rank beta teams) (0%nat, d)) = 1%nat.
Proof.
  intros Hne.
  destruct (exists_maximal fltb feqb ltb_irrefl ltb_trans eqb_spec eqb_trans
              (predict_rank_probs beta teams) d) as [i [Hi Hmax]].
  { intros E. apply Hne. pose proof probs_length as L. rewrite E in L. cbn in L.
    destruct teams; [reflexivity|discriminate]. }
  exists i. rewrite probs_length in Hi. split; [assumption|].
  apply C11_best_is_1_l; [assumption|]. intros j Hj. rewrite !predict_rank_nth. cbn [snd].
  apply Hmax. now rewrite probs_length.
Qed.

Lemma C11_bounds_l i d : (i < length teams)%nat ->
  (1 <= fst (nth i (predict_rank beta teams) (0%nat, d)) <= length teams)%nat.
Proof.
  rewrite predict_rank_nth. cbn [fst]. rewrite <- probs_length.
  apply rks_bounds; assumption.
Qed.
End Discrete.

(** ** on R *)
Lemma Rltb_irrefl x : Rltb x x = false.
Proof. apply Rltb_false. lra. Qed.
Lemma Rltb_trans x y z : Rltb x y = true -> Rltb y z = true -> Rltb x z = true.
Proof. rewrite !Rltb_true. lra. Qed.
Lemma Reqb_spec x y : Reqb x y = true <-> (Rltb x y = false /\ Rltb y x = false).
Proof. rewrite Reqb_true, !Rltb_false. lra. Qed.
Lemma Reqb_trans x y z : Reqb x y = true -> Reqb y z = true -> Reqb x z = true.
Proof. rewrite !Reqb_true. congruence. Qed.

(** the discrete clauses read on R (no premise about Phi, Phiinv is needed) *)
Lemma C11_ranks_R_l (Phi Phiinv : R -> R) (beta : R) (teams : list (list (rating R))) (i j : nat) (d : R) :
  (i < length teams)%nat -> (j < length teams)%nat ->
  let pr := @predict_rank R (RNum Phi Phiinv) beta teams in
  (snd (nth j pr (0%nat, d)) < snd (nth i pr (0%nat, d)) ->
     (fst (nth i pr (0%nat, d)) < fst (nth j pr (0%nat, d)))%nat)
  /\ (snd (nth i pr (0%nat, d)) = snd (nth j pr (0%nat, d)) ->
     fst (nth i pr (0%nat, d)) = fst (nth j pr (0%nat, d)))
  /\ (1 <= fst (nth i pr (0%nat, d)) <= length teams)%nat.
Proof.
  intros Hi Hj pr. repeat split.
  - intros H. apply (@C11_order_l R (RNum Phi Phiinv) Rltb_irrefl Rltb_trans Reqb_spec Reqb_trans
                       beta teams i j d Hi Hj). now apply Rltb_true.
  - intros H. apply (@C11_ties_l R (RNum Phi Phiinv) Rltb_irrefl Rltb_trans Reqb_spec Reqb_trans
                       beta teams i j d Hi Hj). now apply Reqb_true.
  - apply (@C11_bounds_l R (RNum Phi Phiinv) Rltb_irrefl Rltb_trans Reqb_spec Reqb_trans beta teams i d Hi).
  - apply (@C11_bounds_l R (RNum Phi Phiinv) Rltb_irrefl Rltb_trans Reqb_spec Reqb_trans beta teams i d Hi).
Qed.

Section OnR.
Variables Phi Phiinv : R -> R.
Hypothesis GF : GaussCDF Phi Phiinv.
Local Hint Extern 0 (Num R) => exact (RN Phi Phiinv) : typeclass_instances.

Implicit Types (beta : R) (teams : list (list (rating R))).

Lemma INR_pairs_pos (n : nat) : (2 <= n)%nat -> 2 <= INR (n * (n - 1)).
Proof.
  intros Hn. change 2 with (INR 2). apply le_INR.
  destruct n as [|[|n]]; lia.
Qed.

Lemma rankterm_range beta n N a b : 0 < rankterm Phi Phiinv beta n N a b < 1.
Proof. unfold rankterm. apply (gc_range _ _ GF). Qed.

Lemma Rsum_map_range {A} (f : A -> R) l :
  (forall a, In a l -> 0 < f a < 1) -> 0 <= Rsum (map f l) <= INR (length l).
Proof.
  induction l as [|a l IH]; intros H; [cbn; lra|].
  cbn [map Rsum length]. rewrite S_INR.
  pose proof (H a (or_introl eq_refl)).
  assert (0 <= Rsum (map f l) <= INR (length l)) by (apply IH; intros b Hb; apply H; now right).
  lra.
Qed.

Lemma C11_prob_range_l beta teams :
  0 < beta -> (2 <= length teams)%nat -> Forall (fun t => t <> []) teams ->
  Forall (fun p => 0 <= p <= 1) (predict_rank_probs beta teams).
Proof.
  intros _ Hn _. rewrite predict_rank_probs_norm. apply Forall_forall. intros p Hp.
  apply in_map_iff in Hp. destruct Hp as [ro [<- Hro]].
  destruct (rows_In teams ro Hro) as [_ [_ Hlen]].
  set (X := Rsum _).
  assert (HX : 0 <= X <= INR (length (snd ro))).
  { unfold X. rewrite <- (map_length agg (snd ro)). apply Rsum_map_range.
    intros a _. apply rankterm_range. }
  pose proof (INR_pairs_pos _ Hn) as Hpp.
  assert (Hl : INR (length teams * (length teams - 1)) = INR (length teams) * INR (length (snd ro))).
  { rewrite mult_INR. f_equal. f_equal. lia. }
  assert (Hn2 : 2 <= INR (length teams)) by (change 2 with (INR 2); now apply le_INR).
  set (D := INR (length teams * (length teams - 1)) / 2).
  assert (HD : 0 < D) by (unfold D; lra).
  assert (Hq : 0 <= X / D).
  { apply Rmult_le_pos; [lra|]. apply Rlt_le. now apply Rinv_0_lt_compat. }
  rewrite Rabs_pos_eq by assumption. split; [assumption|].
  apply (Rmult_le_reg_r D); [assumption|]. unfold Rdiv. rewrite Rmult_assoc, Rinv_l by lra.
  unfold D. rewrite Hl. nra.
Qed.

Lemma Rsum_probs beta teams : (2 <= length teams)%nat ->
  Rsum (predict_rank_probs beta teams)
  = pairsum (rankterm Phi Phiinv beta (length teams) (nplayers teams)) (map agg teams)
    / (INR (length teams * (length teams - 1)) / 2).
Proof.
  intros Hn. rewrite predict_rank_probs_norm.
  pose proof (INR_pairs_pos _ Hn) as Hpp.
  unfold pairsum. rewrite rows_map, map_map. cbn [fst snd].
  rewrite <- Rsum_map_div. apply Rsum_map_ext. intros ro _.
  apply Rabs_pos_eq. apply Rmult_le_pos.
  - apply Rsum_nonneg. apply Forall_forall. intros x Hx. apply in_map_iff in Hx.
    destruct Hx as [a [<- _]]. apply Rlt_le. apply rankterm_range.
  - apply Rlt_le. apply Rinv_0_lt_compat. lra.
Qed.

Lemma C11_rank_plus_draw_one_l beta teams :
  0 < beta -> (3 <= length teams)%nat -> Forall (fun t => t <> []) teams ->
  Rsum (predict_rank_probs beta teams) + predict_draw beta teams = 1.
Proof.
  intros Hb Hn Hne.
  assert (Hn2 : (2 <= length teams)%nat) by lia.
  rewrite (Rsum_probs beta teams Hn2), predict_draw_norm by assumption. unfold PD.
  pose proof (pairsum_rankterm Phi Phiinv GF beta (length teams) (nplayers teams) (map agg teams)) as E.
  rewrite map_length in E.
  assert (HN : (2 <= nplayers teams)%nat) by (pose proof (nplayers_ge teams Hne); lia).
  destruct (pairsum_wterm_range Phi Phiinv GF beta (length teams) (nplayers teams) (map agg teams))
    as [Hw0 _]; try assumption; try lia.
  { apply aggs_var_nonneg. }
  rewrite Rabs_pos_eq by assumption.
  unfold den. replace (Nat.ltb 2 (length teams)) with true by (symmetry; apply Nat.ltb_lt; lia).
  pose proof (INR_pairs_pos _ Hn2) as Hpp.
  field_simplify_eq; [|lra]. lra.
Qed.
End OnR.

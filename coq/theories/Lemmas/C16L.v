(** * C16L: the results do not depend on the unit or the origin of the skill scale.

    Technique: a map [fr] on ratings together with a map [ft] on team ratings that
    "commute" with the per-player update (up to a factor [sc] on omega) commute with
    every stage of [compute] and [rate_core] (section [Transport]); the scaling maps
    (factor [a > 0]) and the shifting maps (constant [d]) are such pairs. *)
From Coq Require Import List ZArith Bool Arith Reals Lra Lia Permutation.
From OSV Require Import Num Order Gauss Core Predict RInst.
From OSV.Lemmas Require Import OrderL RateL.
Import ListNotations.
Open Scope R_scope.

(** ** list plumbing *)
Section ListLemmas.
Context {A B C : Type}.

Lemma combine_map_l (f : A -> B) (l : list A) (r : list C) :
  combine (map f l) r = map (fun p => (f (fst p), snd p)) (combine l r).
Proof.
  revert r; induction l as [|x xs IH]; intros [|y ys]; cbn [map combine]; try reflexivity.
  rewrite IH. reflexivity.
Qed.

Lemma combine_map_r (f : A -> B) (l : list C) (r : list A) :
  combine l (map f r) = map (fun p => (fst p, f (snd p))) (combine l r).
Proof.
  revert r; induction l as [|x xs IH]; intros [|y ys]; cbn [map combine]; try reflexivity.
  rewrite IH. reflexivity.
Qed.

Lemma filter_map_comm (p : B -> bool) (f : A -> B) (l : list A) :
  filter p (map f l) = map f (filter (fun x => p (f x)) l).
Proof.
  induction l as [|x xs IH]; cbn [map filter]; [reflexivity|].
  destruct (p (f x)); cbn [map]; rewrite IH; reflexivity.
Qed.

Lemma fold_left_map_in (f' : C -> B -> C) (f : C -> A -> C) (h : A -> B) (l : list A) :
  (forall a x, In x l -> f' a (h x) = f a x) ->
  forall a, fold_left f' (map h l) a = fold_left f l a.
Proof.
  induction l as [|x xs IH]; intros E a; cbn [map fold_left]; [reflexivity|].
  rewrite E by (now left). apply IH. intros; apply E; now right.
Qed.

(** a fold whose accumulator is transported by [s] *)
Lemma fold_left_transport (s : C -> C) (f' : C -> B -> C) (f : C -> A -> C) (h : A -> B) (l : list A) :
  (forall a x, In x l -> f' (s a) (h x) = s (f a x)) ->
  forall a, fold_left f' (map h l) (s a) = s (fold_left f l a).
Proof.
  induction l as [|x xs IH]; intros E a; cbn [map fold_left]; [reflexivity|].
  rewrite E by (now left). apply IH. intros; apply E; now right.
Qed.
End ListLemmas.

Lemma combine_map_both {A A' B B'} (f : A -> A') (h : B -> B') (l : list A) (r : list B) :
  combine (map f l) (map h r) = map (fun p => (f (fst p), h (snd p))) (combine l r).
Proof. rewrite combine_map_l, combine_map_r, map_map. reflexivity. Qed.

(** sorting by keys commutes with any map on the objects *)
Lemma unwind_map {K A B} (kleb : K -> K -> bool) (h : A -> B) (ks : list K) (xs : list A) :
  unwind kleb ks (map h xs) = (map h (fst (unwind kleb ks xs)), snd (unwind kleb ks xs)).
Proof.
  unfold unwind. rewrite map_length, combine_map_l, combine_map_r.
  rewrite (isort_map (tag_leb kleb) (tag_leb kleb)
             (fun p : K * (A * nat) => (fst p, (h (fst (snd p)), snd (snd p)))))
    by (intros; reflexivity).
  cbn [fst snd]. rewrite !map_map. cbn [fst snd]. reflexivity.
Qed.

Lemma unwind_fst_in {K A} (kleb : K -> K -> bool) (ks : list K) (xs : list A) x :
  In x (fst (unwind kleb ks xs)) -> In x xs.
Proof.
  rewrite unwind_fst. intros H. apply in_map_iff in H as [[k [y i]] [<- H]]. cbn [fst snd].
  apply (Permutation_in _ (Permutation_sym (sorted_triples_perm kleb ks xs))) in H.
  apply in_combine_r in H. apply in_combine_l in H. exact H.
Qed.

Lemma rows_aux_map {A B} (f : A -> B) (pre l : list A) :
  rows_aux (map f pre) (map f l) = map (fun ro => (f (fst ro), map f (snd ro))) (rows_aux pre l).
Proof.
  revert pre; induction l as [|x xs IH]; intros pre; cbn [rows_aux map]; [reflexivity|].
  cbn [fst snd]. rewrite map_app, map_rev. f_equal.
  change (f x :: map f pre) with (map f (x :: pre)). apply IH.
Qed.
Lemma rows_map {A B} (f : A -> B) (l : list A) :
  rows (map f l) = map (fun ro => (f (fst ro), map f (snd ro))) (rows l).
Proof. unfold rows. change (@nil B) with (map f []). apply rows_aux_map. Qed.

Lemma ladder_aux_map {A B} (f : A -> B) (prev : option A) (l : list A) :
  ladder_aux (option_map f prev) (map f l) = map (map f) (ladder_aux prev l).
Proof.
  revert prev; induction l as [|x xs IH]; intros prev; cbn [ladder_aux map]; [reflexivity|].
  f_equal.
  - rewrite map_app. f_equal; [destruct prev; reflexivity | destruct xs; reflexivity].
  - change (Some (f x)) with (option_map f (Some x)). apply IH.
Qed.
Lemma ladder_pairs_map {A B} (f : A -> B) (l : list A) :
  ladder_pairs (map f l) = map (map f) (ladder_pairs l).
Proof. unfold ladder_pairs. change (@None B) with (option_map f None). apply ladder_aux_map. Qed.

(** the opponents of a team are teams of the game *)
Lemma rows_aux_in {A} (pre l : list A) x os :
  In (x, os) (rows_aux pre l) -> In x l /\ forall y, In y os -> In y pre \/ In y l.
Proof.
  revert pre; induction l as [|a l IH]; intros pre H; cbn [rows_aux] in H; [contradiction|].
  destruct H as [H|H].
  - injection H as -> <-. split; [now left|]. intros y Hy. apply in_app_or in Hy as [Hy|Hy].
    + left. now apply in_rev.
    + right. now right.
  - destruct (IH _ H) as [H1 H2]. split; [now right|]. intros y Hy.
    destruct (H2 y Hy) as [[<-|Hp]|Hl]; [right; now left | now left | right; now right].
Qed.
Lemma rows_in {A} (l : list A) x os : In (x, os) (rows l) -> In x l /\ forall y, In y os -> In y l.
Proof.
  intros H. destruct (rows_aux_in [] l x os H) as [H1 H2]. split; [exact H1|].
  intros y Hy. destruct (H2 y Hy) as [[]|Hl]. exact Hl.
Qed.
Lemma ladder_aux_in {A} (prev : option A) (l : list A) x os :
  In (x, os) (combine l (ladder_aux prev l)) -> In x l /\ forall y, In y os -> prev = Some y \/ In y l.
Proof.
  revert prev; induction l as [|a l IH]; intros prev H; cbn [ladder_aux combine] in H; [contradiction|].
  destruct H as [H|H].
  - injection H as -> <-. split; [now left|]. intros y Hy. apply in_app_or in Hy as [Hy|Hy].
    + left. destruct prev as [p|]; cbn in Hy; [|contradiction]. destruct Hy as [->|[]]. reflexivity.
    + right. right. destruct l as [|b l]; cbn in Hy; [contradiction|]. destruct Hy as [->|[]]. now left.
  - destruct (IH _ H) as [H1 H2]. split; [now right|]. intros y Hy.
    destruct (H2 y Hy) as [E|Hl]; [injection E as ->; right; now left | right; now right].
Qed.
Lemma ladder_in {A} (l : list A) x os :
  In (x, os) (combine l (ladder_pairs l)) -> In x l /\ forall y, In y os -> In y l.
Proof.
  intros H. destruct (ladder_aux_in None l x os H) as [H1 H2]. split; [exact H1|].
  intros y Hy. destruct (H2 y Hy) as [E|Hl]; [discriminate|exact Hl].
Qed.

(** ** real arithmetic *)
Lemma sqrt_scale a x : 0 < a -> sqrt (a * a * x) = a * sqrt x.
Proof. intros Ha. rewrite sqrt_mult_alt by nra. rewrite sqrt_square by lra. reflexivity. Qed.

Lemma Rsum_map_shift {A} (f : A -> R) d l : Rsum (map (fun x => f x + d) l) = Rsum (map f l) + INR (length l) * d.
Proof.
  induction l as [|x xs IH]; [cbn; lra|].
  cbn [map Rsum]. rewrite IH. change (length (x :: xs)) with (S (length xs)). rewrite S_INR. lra.
Qed.

(** ** the maps *)
Definition scale_rating (a : R) (r : rating R) : rating R :=
  set_mu_sigma r (a * r_mu r) (a * r_sigma r).
Definition shift_rating (d : R) (r : rating R) : rating R :=
  set_mu_sigma r (r_mu r + d) (r_sigma r).
Definition scale_trating (a : R) (t : trating R) : trating R :=
  mkT (a * t_mu t) (a * a * t_ss t) (map (scale_rating a) (t_team t)) (t_rank t).
Definition shift_trating (d D : R) (t : trating R) : trating R :=
  mkT (t_mu t + D) (t_ss t) (map (shift_rating d) (t_team t)) (t_rank t).

(** the gamma callback of the rescaled model is the old one read in the new unit
    (on the domain where it is called: c > 0, sigma^2 of the team > 0) *)
Definition gamma_scale_free (a : R) (g g' : gamma_fn R) : Prop :=
  forall c k mu ss team rank, 0 < c -> 0 < ss ->
    g' (a * c) k (a * mu) (a * a * ss) (map (scale_rating a) team) rank = g c k mu ss team rank.
(** the gamma callback does not look at the location of the scale *)
Definition gamma_shift_free (d : R) (g : gamma_fn R) : Prop :=
  forall c k mu ss team rank D,
    g c k (mu + D) ss (map (shift_rating d) team) rank = g c k mu ss team rank.

Section C16.
Variables Phi Phiinv : R -> R.
Local Instance RN : Num R := RNum Phi Phiinv.

Lemma Rreduce_add l : reduce_add l = Rsum l.
Proof. exact (R_reduce_add Phi Phiinv l). Qed.
Lemma Rpy_sum l : py_sum l = Rsum l.
Proof. exact (R_py_sum Phi Phiinv l). Qed.
Lemma Rcdf x : cdf x = Phi x.
Proof. exact (R_cdf Phi Phiinv x). Qed.
Lemma Rpdf x : pdf x = phi x.
Proof. exact (R_pdf Phi Phiinv x). Qed.
Lemma Rfeps : feps = / 4503599627370496.
Proof. exact (R_feps Phi Phiinv). Qed.

Lemma gamma_default_scale_free a : 0 < a -> gamma_scale_free a gamma_default gamma_default.
Proof.
  intros Ha c k mu ss team rank Hc Hss. unfold gamma_default. cbn [fdiv fsqrt RN RNum].
  rewrite sqrt_scale by exact Ha. field. lra.
Qed.
Lemma gamma_default_shift_free d : gamma_shift_free d gamma_default.
Proof. intros c k mu ss team rank D. reflexivity. Qed.

(** ** Transport of [compute] and [rate_core] along a pair of maps *)
Section Transport.
Variables (fr : rating R -> rating R) (ft : trating R -> trating R) (P P' : params R) (sc : R).
Variable ok : trating R -> Prop.
Hypothesis ft_team : forall t, t_team (ft t) = map fr (t_team t).
Hypothesis ft_rank : forall t, t_rank (ft t) = t_rank t.
Hypothesis upd : forall ti o d p, ok ti ->
  update_player P' (ft ti) (sc * o) d (fr p) = fr (update_player P ti o d p).

Definition sod (od : R * R) : R * R := (sc * fst od, snd od).
Lemma sod_zero : sod (fzero, fzero) = (fzero, fzero).
Proof. unfold sod. cbn. f_equal. lra. Qed.

Lemma update_team_tr ti od : ok ti -> update_team P' (ft ti) (sod od) = map fr (update_team P ti od).
Proof.
  intros Hok. unfold update_team. rewrite ft_team, !map_map. apply map_ext. intros p.
  unfold sod. cbn [fst snd]. now apply upd.
Qed.

Definition iog (io : trating R * list (trating R)) := (ft (fst io), map ft (snd io)).

Lemma compute_pairs_tr (term term' : trating R -> R * R -> trating R -> R * R) opp :
  (forall ti os, In (ti, os) opp ->
     ok ti /\ forall od tq, In tq os -> term' (ft ti) (sod od) (ft tq) = sod (term ti od tq)) ->
  compute_pairs term' (map iog opp) P' = map (map fr) (compute_pairs term opp P).
Proof.
  intros H. unfold compute_pairs. rewrite !map_map. apply map_ext_in. intros [ti os] Hin.
  cbn [iog fst snd]. destruct (H ti os Hin) as [Hok Ht].
  rewrite <- sod_zero at 1.
  rewrite (fold_left_transport sod (term' (ft ti)) (term ti) ft os) by (intros; now apply Ht).
  now apply update_team_tr.
Qed.

Lemma opponents_full_tr trs : opponents_full (map ft trs) = map iog (opponents_full trs).
Proof. unfold opponents_full. apply rows_map. Qed.
Lemma opponents_part_tr trs : opponents_part (map ft trs) = map iog (opponents_part trs).
Proof. unfold opponents_part. rewrite ladder_pairs_map, combine_map_both. reflexivity. Qed.

Lemma compute_full_tr (term term' : trating R -> R * R -> trating R -> R * R) trs :
  Forall ok trs ->
  (forall ti tq od, In ti trs -> In tq trs -> term' (ft ti) (sod od) (ft tq) = sod (term ti od tq)) ->
  compute_pairs term' (opponents_full (map ft trs)) P' = map (map fr) (compute_pairs term (opponents_full trs) P).
Proof.
  intros Hok Ht. rewrite opponents_full_tr. apply compute_pairs_tr. intros ti os Hin.
  apply rows_in in Hin as [Hi Hos]. rewrite Forall_forall in Hok. split; [now apply Hok|].
  intros od tq Hq. apply Ht; [exact Hi|now apply Hos].
Qed.
Lemma compute_part_tr (term term' : trating R -> R * R -> trating R -> R * R) trs :
  Forall ok trs ->
  (forall ti tq od, In ti trs -> In tq trs -> term' (ft ti) (sod od) (ft tq) = sod (term ti od tq)) ->
  compute_pairs term' (opponents_part (map ft trs)) P' = map (map fr) (compute_pairs term (opponents_part trs) P).
Proof.
  intros Hok Ht. rewrite opponents_part_tr. apply compute_pairs_tr. intros ti os Hin.
  apply ladder_in in Hin as [Hi Hos]. rewrite Forall_forall in Hok. split; [now apply Hok|].
  intros od tq Hq. apply Ht; [exact Hi|now apply Hos].
Qed.

(** Plackett-Luce.  [K] is the common factor picked up by every [exp (mu / c)]
    (1 under scaling, [exp (D / c)] under a shift by [D]). *)
Definition qg (K : R) (q : nat * (trating R * (R * nat))) :=
  (fst q, (ft (fst (snd q)), (K * fst (snd (snd q)), snd (snd (snd q))))).

Lemma pl_a_tr trs : pl_a (map ft trs) = pl_a trs.
Proof.
  unfold pl_a. rewrite map_map. apply map_ext. intros ti.
  rewrite filter_map_comm, map_length, ft_rank. f_equal. apply filter_ext.
  intros tq. now rewrite ft_rank.
Qed.

Lemma pl_sum_q_tr trs c c' K :
  (forall ti, In ti trs -> exp (t_mu (ft ti) / c') = K * exp (t_mu ti / c)) ->
  pl_sum_q (map ft trs) c' = map (Rmult K) (pl_sum_q trs c).
Proof.
  intros He. unfold pl_sum_q. rewrite !map_map. apply map_ext. intros tq.
  rewrite filter_map_comm, map_map, !Rreduce_add, ft_rank.
  rewrite (filter_ext _ (fun ti => Nat.leb (t_rank tq) (t_rank ti))) by (intros; now rewrite ft_rank).
  cbn [fexp fdiv RN RNum].
  rewrite (Rsum_map_ext _ (fun ti => K * exp (t_mu ti / c))).
  - apply Rsum_map_scal.
  - intros ti Hi. apply filter_In in Hi as [Hi _]. now apply He.
Qed.

(** every [sum_q] is a non-empty sum of exponentials *)
Lemma pl_sum_q_pos trs c s : In s (pl_sum_q trs c) -> 0 < s.
Proof.
  unfold pl_sum_q. intros H. apply in_map_iff in H as [tq [<- Hq]]. rewrite Rreduce_add.
  apply Rsum_pos.
  - assert (Hin : In tq (filter (fun ti => Nat.leb (t_rank tq) (t_rank ti)) trs))
      by (apply filter_In; split; [exact Hq | apply Nat.leb_refl]).
    destruct (filter _ trs); [contradiction | discriminate].
  - apply Forall_forall. intros x Hx. apply in_map_iff in Hx as [ti [<- _]]. apply exp_pos.
Qed.

Lemma pl_step_tr K i ti e od qt : K <> 0 -> fst (snd (snd qt)) <> 0 ->
  pl_step i (ft ti) (K * e) od (qg K qt) = pl_step i ti e od qt.
Proof.
  intros HK Hs. unfold pl_step, qg. cbv zeta. cbn [fst snd]. rewrite !ft_rank.
  cbn [fdiv fmul RN RNum].
  replace (K * e / (K * fst (snd (snd qt)))) with (e / fst (snd (snd qt))) by (field; split; assumption).
  reflexivity.
Qed.

Lemma pl_omega_delta_tr trs c c' K qs i ti :
  K <> 0 -> (forall qt, In qt qs -> fst (snd (snd qt)) <> 0) ->
  exp (t_mu (ft ti) / c') = K * exp (t_mu ti / c) ->
  t_ss (ft ti) / c' = sc * (t_ss ti / c) ->
  t_ss (ft ti) / (c' * c') = t_ss ti / (c * c) ->
  gamma_of P' c' (map ft trs) (ft ti) = gamma_of P c trs ti ->
  pl_omega_delta P' (map ft trs) c' (map (qg K) qs) i (ft ti) = sod (pl_omega_delta P trs c qs i ti).
Proof.
  intros HK Hqs He H1 H2 Hg. unfold pl_omega_delta. cbv zeta.
  cbn [fexp fdiv fmul fpow2 RN RNum]. rewrite He, Hg, H1, H2.
  rewrite (fold_left_map_in (pl_step i (ft ti) (K * exp (t_mu ti / c))) (pl_step i ti (exp (t_mu ti / c))) (qg K) qs)
    by (intros od qt Hqt; apply pl_step_tr; [exact HK | now apply Hqs]).
  unfold sod. cbn [fst snd]. f_equal. ring.
Qed.

Lemma compute_pl_tr trs c' K :
  pl_c P' (map ft trs) = c' ->
  Forall ok trs -> K <> 0 ->
  (forall ti, In ti trs ->
      exp (t_mu (ft ti) / c') = K * exp (t_mu ti / pl_c P trs)
      /\ t_ss (ft ti) / c' = sc * (t_ss ti / pl_c P trs)
      /\ t_ss (ft ti) / (c' * c') = t_ss ti / (pl_c P trs * pl_c P trs)
      /\ gamma_of P' c' (map ft trs) (ft ti) = gamma_of P (pl_c P trs) trs ti) ->
  compute_pl P' (map ft trs) = map (map fr) (compute_pl P trs).
Proof.
  intros Hc Hok HK H. unfold compute_pl. cbv zeta. rewrite Hc. set (c := pl_c P trs) in *.
  rewrite (pl_sum_q_tr trs c c' K) by (intros ti Hi; apply (H ti Hi)).
  rewrite pl_a_tr, map_length.
  set (qs := combine (seq 0 (length trs)) (combine trs (combine (pl_sum_q trs c) (pl_a trs)))).
  assert (Eq : combine (seq 0 (length trs))
                 (combine (map ft trs) (combine (map (Rmult K) (pl_sum_q trs c)) (pl_a trs)))
               = map (qg K) qs).
  { unfold qs. rewrite (combine_map_l (Rmult K)), combine_map_both, combine_map_r. reflexivity. }
  rewrite Eq, !map_map. apply map_ext_in. intros [n [t [s k]]] Hin. cbn [qg fst snd].
  assert (Ht : In t trs).
  { unfold qs in Hin. apply in_combine_r in Hin. now apply in_combine_l in Hin. }
  destruct (H t Ht) as (He & H1 & H2 & Hg).
  rewrite (pl_omega_delta_tr trs c c' K qs n t); try assumption.
  - apply update_team_tr. rewrite Forall_forall in Hok. now apply Hok.
  - intros [n' [t' [s' k']]] Hq. cbn [fst snd]. unfold qs in Hq.
    apply in_combine_r in Hq. apply in_combine_r in Hq. apply in_combine_l in Hq.
    apply pl_sum_q_pos in Hq. lra.
Qed.

(** [rate_core]: tau inflation, team ratings, sorting / unsorting, clamp *)
Variable tok : list (rating R) -> Prop.
Hypothesis team_rating_tr : forall t rank, tok t ->
  team_rating (map fr t) rank = ft (team_rating t rank) /\ ok (team_rating t rank).

Lemma team_ratings_tr G ranks : Forall tok G ->
  team_ratings (map (map fr) G) ranks = map ft (team_ratings G ranks) /\ Forall ok (team_ratings G ranks).
Proof.
  intros HG. rewrite Forall_forall in HG. unfold team_ratings. split.
  - rewrite combine_map_l, !map_map. apply map_ext_in. intros [t r] Hin. cbn [fst snd].
    apply in_combine_l in Hin. now apply team_rating_tr, HG.
  - apply Forall_forall. intros x Hx. apply in_map_iff in Hx as [[t r] [<- Hin]]. cbn [fst snd].
    apply in_combine_l in Hin. now apply team_rating_tr, HG.
Qed.

Lemma clamp_tr o r : (forall x y, clamp_player (fr x) (fr y) = fr (clamp_player x y)) ->
  clamp (map (map fr) o) (map (map fr) r) = map (map fr) (clamp o r).
Proof.
  intros Hc. unfold clamp. rewrite combine_map_both, !map_map. apply map_ext.
  intros [x y]. cbn [fst snd]. rewrite combine_map_both, !map_map. apply map_ext.
  intros [u v]. cbn [fst snd]. apply Hc.
Qed.

Lemma rate_sorted_tr k G keys :
  (forall trs, Forall ok trs -> compute k P' (map ft trs) = map (map fr) (compute k P trs)) ->
  Forall tok G ->
  rate_sorted k P' (map (map fr) G) keys = map (map fr) (rate_sorted k P G keys).
Proof.
  intros Hcomp HG. unfold rate_sorted. destruct keys as [ks|]; cbv zeta.
  - rewrite unwind_map. cbn [fst snd].
    assert (HG' : Forall tok (fst (unwind key_leb ks G))).
    { rewrite Forall_forall in *. intros x Hx. apply HG. eapply unwind_fst_in; exact Hx. }
    destruct (team_ratings_tr (fst (unwind key_leb ks G))
                (calc_rankings key_ltb (isort key_leb ks)) HG') as [E O].
    rewrite E, (Hcomp _ O), unwind_map. reflexivity.
  - rewrite map_length.
    destruct (team_ratings_tr G (seq 0 (length G)) HG) as [E O].
    rewrite E. now apply Hcomp.
Qed.

Lemma rate_core_tr k tau tau' lim teams keys :
  (forall r, inflate tau' (fr r) = fr (inflate tau r)) ->
  (forall x y, clamp_player (fr x) (fr y) = fr (clamp_player x y)) ->
  (forall trs, Forall ok trs -> compute k P' (map ft trs) = map (map fr) (compute k P trs)) ->
  Forall tok (map (map (inflate tau)) teams) ->
  rate_core k P' tau' lim (map (map fr) teams) keys = map (map fr) (rate_core k P tau lim teams keys).
Proof.
  intros Hi Hc Hcomp HG. unfold rate_core. cbv zeta.
  assert (E : map (map (inflate tau')) (map (map fr) teams) = map (map fr) (map (map (inflate tau)) teams)).
  { rewrite !map_map. apply map_ext. intros t. rewrite !map_map. apply map_ext. exact Hi. }
  rewrite E, (rate_sorted_tr k _ keys Hcomp HG).
  destruct lim; [now apply clamp_tr | reflexivity].
Qed.

End Transport.

Lemma fold_left_acc_sum {A} (h : A -> R) l x :
  fold_left (fun acc t => fadd acc (h t)) l x = x + Rsum (map h l).
Proof.
  revert x; induction l as [|t l IH]; intros x; cbn [fold_left map Rsum]; [lra|].
  rewrite IH. cbn [fadd RN RNum]. lra.
Qed.

Lemma R_pl_c P trs :
  pl_c P trs = sqrt (Rsum (map (fun t => t_ss t + p_beta P * p_beta P) trs)).
Proof.
  unfold pl_c. rewrite (fold_left_acc_sum (fun t => fadd (t_ss t) (fpow2 (p_beta P)))).
  cbn [fsqrt fadd fpow2 RN RNum]. f_equal. change (@fzero R RN) with 0. lra.
Qed.

Definition tpos (t : trating R) : Prop := 0 < t_ss t.

Lemma pl_c_pos P trs : 0 < p_beta P -> Forall tpos trs -> trs <> [] -> 0 < pl_c P trs.
Proof.
  intros Hb Hok Hne. rewrite R_pl_c. apply sqrt_lt_R0. apply Rsum_pos.
  - destruct trs; [congruence | discriminate].
  - apply Forall_forall. intros x Hx. apply in_map_iff in Hx as [t [<- Ht]].
    rewrite Forall_forall in Hok. specialize (Hok t Ht). unfold tpos in Hok. nra.
Qed.

Lemma c_iq_pos P ti tq : 0 < p_beta P -> tpos ti -> tpos tq -> 0 < c_iq P ti tq.
Proof.
  unfold tpos, c_iq. intros Hb Hi Hq. cbn [fsqrt fadd fmul fpow2 RN RNum].
  apply sqrt_lt_R0. change (@ftwo R RN) with 2. nra.
Qed.

(** team sigma^2 is positive: non-empty team, not all sigma zero *)
Definition team_pos (t : list (rating R)) : Prop := 0 < Rsum (map (fun p => r_sigma p * r_sigma p) t).

Lemma team_pos_inflate tau t :
  t <> [] -> Forall (fun p => 0 < r_sigma p * r_sigma p + tau * tau) t -> team_pos (map (inflate tau) t).
Proof.
  intros Hne Hp. unfold team_pos. rewrite map_map. apply Rsum_pos.
  - destruct t; [congruence | discriminate].
  - apply Forall_forall. intros x Hx. apply in_map_iff in Hx as [p [<- Hin]].
    rewrite Forall_forall in Hp. specialize (Hp p Hin).
    unfold inflate, set_sigma, set_mu_sigma. cbn [r_sigma]. cbn [fsqrt fadd fmul RN RNum].
    rewrite sqrt_sqrt by lra. exact Hp.
Qed.

(** ** Scaling *)
Section Scale.
Variables (a : R) (P : params R) (g' : gamma_fn R).
Hypothesis Ha : 0 < a.
Hypothesis Hbeta : 0 < p_beta P.
Hypothesis Hg : gamma_scale_free a (p_gamma P) g'.
Let P' := mkParams (a * p_beta P) (p_kappa P) g'.
Let fr := scale_rating a.
Let ft := scale_trating a.

Lemma scale_ft_team t : t_team (ft t) = map fr (t_team t).
Proof. reflexivity. Qed.
Lemma scale_ft_rank t : t_rank (ft t) = t_rank t.
Proof. reflexivity. Qed.

Lemma scale_upd ti o d p : tpos ti ->
  update_player P' (ft ti) (a * o) d (fr p) = fr (update_player P ti o d p).
Proof.
  unfold tpos. intros Hss.
  unfold update_player, fr, ft, scale_rating, scale_trating, set_mu_sigma, P'. cbv zeta.
  cbn [r_mu r_sigma r_id r_name t_ss p_kappa].
  cbn [fadd fsub fmul fdiv fpow2 fsqrt RN RNum].
  replace (a * r_sigma p * (a * r_sigma p) / (a * a * t_ss ti))
    with (r_sigma p * r_sigma p / t_ss ti) by (field; lra).
  f_equal; ring.
Qed.

Lemma scale_gamma_of c trs ti : 0 < c -> tpos ti ->
  gamma_of P' (a * c) (map ft trs) (ft ti) = gamma_of P c trs ti.
Proof.
  intros Hc Hi. unfold gamma_of, nteams. rewrite map_length.
  unfold P', ft, scale_trating. cbn [p_gamma t_mu t_ss t_team t_rank]. now apply Hg.
Qed.

Lemma c_iq_scale ti tq : c_iq P' (ft ti) (ft tq) = a * c_iq P ti tq.
Proof.
  unfold c_iq, P', ft, scale_trating. cbn [t_ss p_beta]. cbn [fadd fmul fpow2 fsqrt RN RNum].
  rewrite <- sqrt_scale by exact Ha. f_equal. ring.
Qed.

Lemma bt_term_scale trs ti tq od : tpos ti -> tpos tq ->
  bt_term P' (map ft trs) (ft ti) (sod a od) (ft tq) = sod a (bt_term P trs ti od tq).
Proof.
  intros Hi Hq. unfold bt_term. cbv zeta. rewrite c_iq_scale.
  pose proof (c_iq_pos P ti tq Hbeta Hi Hq) as Hc. set (c := c_iq P ti tq) in *.
  rewrite (scale_gamma_of c trs ti Hc Hi). set (g := gamma_of P c trs ti).
  unfold ft, scale_trating, sod. cbn [t_mu t_ss t_rank fst snd].
  set (s := if Nat.ltb (t_rank ti) (t_rank tq) then fone
            else if Nat.eqb (t_rank tq) (t_rank ti) then fhalf else fzero).
  cbn [fadd fsub fmul fdiv fexp RN RNum].
  replace ((a * t_mu tq - a * t_mu ti) / (a * c)) with ((t_mu tq - t_mu ti) / c) by (field; lra).
  set (p := fone / (fone + exp ((t_mu tq - t_mu ti) / c))).
  f_equal; field; lra.
Qed.

Lemma pl_c_scale trs : pl_c P' (map ft trs) = a * pl_c P trs.
Proof.
  rewrite !R_pl_c, map_map. unfold P', ft, scale_trating. cbn [t_ss p_beta].
  rewrite <- sqrt_scale by exact Ha. f_equal. rewrite <- Rsum_map_scal.
  apply Rsum_map_ext. intros t _. ring.
Qed.

Lemma compute_pl_scale trs : Forall tpos trs ->
  compute_pl P' (map ft trs) = map (map fr) (compute_pl P trs).
Proof.
  intros Hok.
  apply (compute_pl_tr fr ft P P' a tpos scale_ft_team scale_ft_rank scale_upd trs (a * pl_c P trs) 1).
  - apply pl_c_scale.
  - exact Hok.
  - lra.
  - intros ti Hi.
    assert (Hc : 0 < pl_c P trs).
    { apply pl_c_pos; [exact Hbeta | exact Hok | intros ->; contradiction]. }
    assert (Hti : tpos ti) by (rewrite Forall_forall in Hok; now apply Hok).
    set (c := pl_c P trs) in *. unfold ft, scale_trating. cbn [t_mu t_ss].
    repeat split.
    + replace (a * t_mu ti / (a * c)) with (t_mu ti / c) by (field; lra). lra.
    + field; lra.
    + field; lra.
    + now apply scale_gamma_of.
Qed.

Theorem scale_compute k trs : k = PL \/ k = BTF \/ k = BTP -> Forall tpos trs ->
  compute k P' (map ft trs) = map (map fr) (compute k P trs).
Proof.
  intros Hk Hok. destruct Hk as [->|[->| ->]]; cbn [compute].
  - now apply compute_pl_scale.
  - apply (compute_full_tr fr ft P P' a tpos scale_ft_team scale_upd); [exact Hok|].
    intros ti tq od Hi Hq. rewrite Forall_forall in Hok. apply bt_term_scale; now apply Hok.
  - apply (compute_part_tr fr ft P P' a tpos scale_ft_team scale_upd); [exact Hok|].
    intros ti tq od Hi Hq. rewrite Forall_forall in Hok. apply bt_term_scale; now apply Hok.
Qed.

Lemma scale_team_rating t rank : team_pos t ->
  team_rating (map fr t) rank = ft (team_rating t rank) /\ tpos (team_rating t rank).
Proof.
  unfold team_pos, tpos. intros Hp. unfold team_rating, ft, scale_trating. cbn [t_mu t_ss t_team t_rank].
  rewrite !Rreduce_add, !map_map. cbn [fpow2 RN RNum]. split; [|exact Hp].
  unfold fr, scale_rating, set_mu_sigma. cbn [r_mu r_sigma]. f_equal.
  - apply Rsum_map_scal.
  - rewrite <- Rsum_map_scal. apply Rsum_map_ext. intros p _. ring.
Qed.

Lemma scale_inflate tau r : inflate (a * tau) (fr r) = fr (inflate tau r).
Proof.
  unfold inflate, set_sigma, fr, scale_rating, set_mu_sigma. cbn [r_mu r_sigma r_id r_name].
  cbn [fsqrt fadd fmul RN RNum]. f_equal. rewrite <- sqrt_scale by exact Ha. f_equal. ring.
Qed.

Lemma scale_clamp_player x y : clamp_player (fr x) (fr y) = fr (clamp_player x y).
Proof.
  unfold clamp_player, set_sigma, fr, scale_rating, set_mu_sigma. cbn [r_mu r_sigma r_id r_name].
  cbn [fleb RN RNum]. destruct (Rleb (r_sigma y) (r_sigma x)) eqn:E.
  - apply Rleb_true in E. rewrite (proj2 (Rleb_true _ _)) by nra. reflexivity.
  - apply Rleb_false in E. rewrite (proj2 (Rleb_false _ _)) by nra. reflexivity.
Qed.

Theorem scale_rate k tau lim teams keys : k = PL \/ k = BTF \/ k = BTP ->
  Forall (fun t => t <> [] /\ Forall (fun p => 0 < r_sigma p * r_sigma p + tau * tau) t) teams ->
  rate_core k P' (a * tau) lim (map (map fr) teams) keys = map (map fr) (rate_core k P tau lim teams keys).
Proof.
  intros Hk Hd.
  apply (rate_core_tr fr ft P P' tpos team_pos scale_team_rating k tau (a * tau) lim teams keys).
  - apply scale_inflate.
  - apply scale_clamp_player.
  - intros trs Hok. now apply scale_compute.
  - apply Forall_forall. intros t Ht. apply in_map_iff in Ht as [t0 [<- Hin]].
    rewrite Forall_forall in Hd. destruct (Hd t0 Hin) as [Hne Hp]. now apply team_pos_inflate.
Qed.
End Scale.

(** ** Predictions *)
Definition Tmu (t : list (rating R)) : R := Rsum (map r_mu t).
Definition Tvar (t : list (rating R)) : R := Rsum (map (fun p => r_sigma p * r_sigma p) t).
Lemma Tvar_nonneg t : 0 <= Tvar t.
Proof.
  unfold Tvar. apply Rsum_nonneg. apply Forall_forall. intros x Hx.
  apply in_map_iff in Hx as [p [<- _]]. nra.
Qed.
Lemma R_agg t : agg t = (Tmu t, Tvar t).
Proof. unfold agg. rewrite !Rreduce_add. reflexivity. Qed.
Lemma R_fofnat n : fofZ (Z.of_nat n) = INR n.
Proof. cbn. now rewrite <- INR_IZR_INZ. Qed.

Lemma nplayers_map (f : rating R -> rating R) teams : nplayers (map (map f) teams) = nplayers teams.
Proof.
  unfold nplayers. apply fold_left_map_in. intros acc t _. now rewrite map_length.
Qed.

Lemma in_length_pos {A} (x : A) l : In x l -> (1 <= length l)%nat.
Proof. destruct l; [contradiction|cbn; lia]. Qed.

(** the three kinds of argument handed to [cdf] *)
Definition arg_win (beta : R) (n : nat) (A B : R * R) : R :=
  fdiv (fsub (fst A) (fst B)) (pair_scale beta n A B).
Definition arg_draw1 (beta : R) (n : nat) (dm : R) (A B : R * R) : R :=
  fdiv (fadd (fsub dm (fst A)) (fst B)) (pair_scale beta n A B).
Definition arg_draw2 (beta : R) (n : nat) (dm : R) (A B : R * R) : R :=
  fdiv (fsub (fsub (fst A) (fst B)) dm) (pair_scale beta n A B).

Section PredTr.
Variables (fr : rating R -> rating R) (beta beta' m : R) (teams : list (list (rating R))).
Hypothesis Hinv : forall n dm ta tb, In ta teams -> In tb teams -> (1 <= n)%nat ->
  arg_win beta' n (agg (map fr ta)) (agg (map fr tb)) = arg_win beta n (agg ta) (agg tb) /\
  arg_draw1 beta' n (m * dm) (agg (map fr ta)) (agg (map fr tb)) = arg_draw1 beta n dm (agg ta) (agg tb) /\
  arg_draw2 beta' n (m * dm) (agg (map fr ta)) (agg (map fr tb)) = arg_draw2 beta n dm (agg ta) (agg tb).
Hypothesis Hdm : draw_margin beta' (map (map fr) teams) = m * draw_margin beta teams.
Hypothesis Hne : Forall (fun t => t <> []) teams.

Definition win_rows (b : R) (tms : list (list (rating R))) : list R :=
  map (fun ro => fdiv (py_sum (map (fun tb => cdf (arg_win b (length tms) (agg (fst ro)) (agg tb))) (snd ro)))
                      (half_pairs (length tms))) (rows tms).
Lemma predict_win_rows b tms : length tms <> 2%nat -> predict_win b tms = win_rows b tms.
Proof. intros Hn. destruct tms as [|x [|y [|z r]]]; try reflexivity. now cbn in Hn. Qed.

Lemma predict_win_tr : predict_win beta' (map (map fr) teams) = predict_win beta teams.
Proof.
  destruct (Nat.eq_dec (length teams) 2) as [E|E].
  - destruct teams as [|ta [|tb [|tc r]]]; try discriminate E.
    cbn [map]. unfold predict_win. cbv zeta. rewrite !map_length.
    assert (Hn : (1 <= length ta + length tb)%nat).
    { inversion Hne as [|? ? Ha _]; subst. destruct ta; [congruence|cbn; lia]. }
    destruct (Hinv (length ta + length tb) 0 ta tb) as [W _]; [now left | right; now left | exact Hn|].
    unfold arg_win in W. rewrite W. reflexivity.
  - rewrite !predict_win_rows by (rewrite ?map_length; exact E).
    unfold win_rows. rewrite rows_map, !map_map, map_length. apply map_ext_in.
    intros [ta os] Hin. cbn [fst snd]. apply rows_in in Hin as [Ha Hos].
    f_equal. f_equal. rewrite map_map. apply map_ext_in. intros tb Hb. f_equal.
    apply (Hinv (length teams) 0 ta tb); [exact Ha | now apply Hos | now apply (in_length_pos ta)].
Qed.

Lemma predict_rank_probs_tr : predict_rank_probs beta' (map (map fr) teams) = predict_rank_probs beta teams.
Proof.
  unfold predict_rank_probs. cbv zeta. rewrite Hdm, rows_map, !map_map, map_length. apply map_ext_in.
  intros [ta os] Hin. cbn [fst snd]. apply rows_in in Hin as [Ha Hos].
  f_equal. f_equal. f_equal. rewrite map_map. apply map_ext_in. intros tb Hb. f_equal.
  apply (Hinv (length teams) (draw_margin beta teams) ta tb); [exact Ha | now apply Hos | now apply (in_length_pos ta)].
Qed.

Lemma predict_rank_tr : predict_rank beta' (map (map fr) teams) = predict_rank beta teams.
Proof. unfold predict_rank. cbv zeta. now rewrite predict_rank_probs_tr. Qed.

Lemma predict_draw_tr : predict_draw beta' (map (map fr) teams) = predict_draw beta teams.
Proof.
  unfold predict_draw. cbv zeta. rewrite Hdm, map_length. f_equal. f_equal. f_equal.
  rewrite !flat_map_concat_map. f_equal. rewrite rows_map, !map_map. apply map_ext_in.
  intros [ta os] Hin. cbn [fst snd]. apply rows_in in Hin as [Ha Hos].
  rewrite map_map. apply map_ext_in. intros tb Hb.
  destruct (Hinv (length teams) (draw_margin beta teams) ta tb) as (_ & D1 & D2);
    [exact Ha | now apply Hos | now apply (in_length_pos ta)|].
  unfold arg_draw1, arg_draw2 in D1, D2. rewrite D1, D2. reflexivity.
Qed.
End PredTr.

Lemma pair_scale_pos beta n A B : 0 < beta -> (1 <= n)%nat -> 0 <= snd A -> 0 <= snd B ->
  0 < pair_scale beta n A B.
Proof.
  intros Hb Hn HA HB. unfold pair_scale. rewrite R_fofnat. cbn [fsqrt fadd fmul fpow2 RN RNum].
  apply sqrt_lt_R0. assert (1 <= INR n) by (change 1 with (INR 1); now apply le_INR). nra.
Qed.

Section PredScale.
Variables (a beta : R).
Hypothesis Ha : 0 < a.
Hypothesis Hbeta : 0 < beta.

Lemma agg_scale t : agg (map (scale_rating a) t) = (a * Tmu t, a * a * Tvar t).
Proof.
  rewrite R_agg. unfold Tmu, Tvar. rewrite !map_map. unfold scale_rating, set_mu_sigma. cbn [r_mu r_sigma].
  f_equal.
  - apply Rsum_map_scal.
  - rewrite <- Rsum_map_scal. apply Rsum_map_ext. intros p _. ring.
Qed.

Lemma pair_scale_scale n x y va vb :
  pair_scale (a * beta) n (a * x, a * a * va) (a * y, a * a * vb) = a * pair_scale beta n (x, va) (y, vb).
Proof.
  unfold pair_scale. cbn [fst snd]. cbn [fsqrt fadd fmul fpow2 RN RNum].
  rewrite <- sqrt_scale by exact Ha. f_equal. ring.
Qed.

Lemma draw_margin_scale teams :
  draw_margin (a * beta) (map (map (scale_rating a)) teams) = a * draw_margin beta teams.
Proof. unfold draw_margin. cbv zeta. rewrite nplayers_map. cbn [fmul RN RNum]. ring. Qed.

Lemma scale_args n dm ta tb : (1 <= n)%nat ->
  arg_win (a * beta) n (agg (map (scale_rating a) ta)) (agg (map (scale_rating a) tb)) = arg_win beta n (agg ta) (agg tb) /\
  arg_draw1 (a * beta) n (a * dm) (agg (map (scale_rating a) ta)) (agg (map (scale_rating a) tb)) = arg_draw1 beta n dm (agg ta) (agg tb) /\
  arg_draw2 (a * beta) n (a * dm) (agg (map (scale_rating a) ta)) (agg (map (scale_rating a) tb)) = arg_draw2 beta n dm (agg ta) (agg tb).
Proof.
  intros Hn. rewrite !agg_scale, !R_agg. unfold arg_win, arg_draw1, arg_draw2.
  rewrite pair_scale_scale.
  pose proof (pair_scale_pos beta n (Tmu ta, Tvar ta) (Tmu tb, Tvar tb) Hbeta Hn (Tvar_nonneg ta) (Tvar_nonneg tb)) as Hp.
  set (ps := pair_scale beta n (Tmu ta, Tvar ta) (Tmu tb, Tvar tb)) in *.
  cbn [fst snd]. cbn [fdiv fsub fadd RN RNum]. repeat split; field; lra.
Qed.

Theorem scale_predict teams : Forall (fun t => t <> []) teams ->
  predict_win (a * beta) (map (map (scale_rating a)) teams) = predict_win beta teams /\
  predict_draw (a * beta) (map (map (scale_rating a)) teams) = predict_draw beta teams /\
  predict_rank_probs (a * beta) (map (map (scale_rating a)) teams) = predict_rank_probs beta teams /\
  predict_rank (a * beta) (map (map (scale_rating a)) teams) = predict_rank beta teams.
Proof.
  intros Hne.
  assert (Hinv : forall n dm ta tb, In ta teams -> In tb teams -> (1 <= n)%nat -> _) by
    (intros n dm ta tb _ _ Hn; exact (scale_args n dm ta tb Hn)).
  pose proof (draw_margin_scale teams) as Hdm.
  repeat split.
  - exact (predict_win_tr (scale_rating a) beta (a * beta) a teams Hinv Hdm Hne).
  - exact (predict_draw_tr (scale_rating a) beta (a * beta) a teams Hinv Hdm).
  - exact (predict_rank_probs_tr (scale_rating a) beta (a * beta) a teams Hinv Hdm).
  - exact (predict_rank_tr (scale_rating a) beta (a * beta) a teams Hinv Hdm).
Qed.
End PredScale.

(** ** Shifting (all five models; every team total shifts by the same [D]) *)
Section Shift.
Variables (d D : R) (P : params R).
Hypothesis Hg : gamma_shift_free d (p_gamma P).
Let fr := shift_rating d.
Let ft := shift_trating d D.
Let anyt : trating R -> Prop := fun _ => True.

Lemma shift_ft_team t : t_team (ft t) = map fr (t_team t).
Proof. reflexivity. Qed.
Lemma shift_ft_rank t : t_rank (ft t) = t_rank t.
Proof. reflexivity. Qed.

Lemma shift_upd ti o dl p : anyt ti ->
  update_player P (ft ti) (1 * o) dl (fr p) = fr (update_player P ti o dl p).
Proof.
  intros _. unfold update_player, fr, ft, shift_rating, shift_trating, set_mu_sigma. cbv zeta.
  cbn [r_mu r_sigma r_id r_name t_ss]. cbn [fadd fmul RN RNum]. f_equal. ring.
Qed.

Lemma shift_gamma_of c trs ti : gamma_of P c (map ft trs) (ft ti) = gamma_of P c trs ti.
Proof.
  unfold gamma_of, nteams. rewrite map_length.
  unfold ft, shift_trating. cbn [t_mu t_ss t_team t_rank]. apply Hg.
Qed.

Lemma bt_term_shift trs ti tq od :
  bt_term P (map ft trs) (ft ti) (sod 1 od) (ft tq) = sod 1 (bt_term P trs ti od tq).
Proof.
  unfold bt_term. cbv zeta. change (c_iq P (ft ti) (ft tq)) with (c_iq P ti tq).
  rewrite shift_gamma_of. unfold ft, shift_trating, sod. cbn [t_mu t_ss t_rank fst snd].
  cbn [fsub RN RNum].
  replace (t_mu tq + D - (t_mu ti + D)) with (t_mu tq - t_mu ti) by ring.
  cbn [fadd fmul RN RNum]. f_equal. ring.
Qed.

Lemma tm_term_shift two trs ti tq od :
  tm_term two P (map ft trs) (ft ti) (sod 1 od) (ft tq) = sod 1 (tm_term two P trs ti od tq).
Proof.
  unfold tm_term. cbv zeta. change (c_iq P (ft ti) (ft tq)) with (c_iq P ti tq).
  rewrite shift_gamma_of. unfold ft, shift_trating, sod. cbn [t_mu t_ss t_rank fst snd].
  cbn [fsub RN RNum].
  replace (t_mu ti + D - (t_mu tq + D)) with (t_mu ti - t_mu tq) by ring.
  destruct (Nat.ltb (t_rank ti) (t_rank tq)); [|destruct (Nat.ltb (t_rank tq) (t_rank ti))];
    cbn [fst snd]; cbn [fadd RN RNum]; f_equal; ring.
Qed.

Lemma pl_c_shift trs : pl_c P (map ft trs) = pl_c P trs.
Proof. rewrite !R_pl_c, map_map. reflexivity. Qed.

Lemma compute_pl_shift trs : compute_pl P (map ft trs) = map (map fr) (compute_pl P trs).
Proof.
  apply (compute_pl_tr fr ft P P 1 anyt shift_ft_team shift_ft_rank shift_upd trs (pl_c P trs)
           (exp (D / pl_c P trs))).
  - apply pl_c_shift.
  - apply Forall_forall. intros; exact I.
  - pose proof (exp_pos (D / pl_c P trs)). lra.
  - intros ti Hi. unfold ft, shift_trating. cbn [t_mu t_ss]. repeat split.
    + rewrite <- exp_plus. f_equal. unfold Rdiv. ring.
    + ring.
    + apply shift_gamma_of.
Qed.

Theorem shift_compute k trs : compute k P (map ft trs) = map (map fr) (compute k P trs).
Proof.
  assert (Hok : Forall anyt trs) by (apply Forall_forall; intros; exact I).
  destruct k; cbn [compute].
  - apply compute_pl_shift.
  - apply (compute_full_tr fr ft P P 1 anyt shift_ft_team shift_upd); [exact Hok|].
    intros; apply bt_term_shift.
  - apply (compute_part_tr fr ft P P 1 anyt shift_ft_team shift_upd); [exact Hok|].
    intros; apply bt_term_shift.
  - apply (compute_full_tr fr ft P P 1 anyt shift_ft_team shift_upd); [exact Hok|].
    intros; apply tm_term_shift.
  - apply (compute_part_tr fr ft P P 1 anyt shift_ft_team shift_upd); [exact Hok|].
    intros; apply tm_term_shift.
Qed.

Lemma shift_inflate tau r : inflate tau (fr r) = fr (inflate tau r).
Proof. reflexivity. Qed.
Lemma shift_clamp_player x y : clamp_player (fr x) (fr y) = fr (clamp_player x y).
Proof.
  unfold clamp_player, fr, shift_rating, set_sigma, set_mu_sigma. cbn [r_mu r_sigma r_id r_name].
  destruct (fleb (r_sigma y) (r_sigma x)); reflexivity.
Qed.
End Shift.

Lemma agg_shift d t : agg (map (shift_rating d) t) = (Tmu t + INR (length t) * d, Tvar t).
Proof.
  rewrite R_agg. unfold Tmu, Tvar. rewrite !map_map. unfold shift_rating, set_mu_sigma. cbn [r_mu r_sigma].
  f_equal. apply Rsum_map_shift.
Qed.

Section ShiftRate.
Variables (d : R) (m : nat) (P : params R).
Hypothesis Hg : gamma_shift_free d (p_gamma P).

Lemma shift_team_rating t rank : length t = m ->
  team_rating (map (shift_rating d) t) rank = shift_trating d (INR m * d) (team_rating t rank) /\ True.
Proof.
  intros <-. split; [|exact I]. unfold team_rating, shift_trating. cbn [t_mu t_ss t_team t_rank].
  rewrite !Rreduce_add, !map_map. unfold shift_rating, set_mu_sigma. cbn [r_mu r_sigma].
  f_equal. apply Rsum_map_shift.
Qed.

Theorem shift_rate k tau lim teams keys : Forall (fun t => length t = m) teams ->
  rate_core k P tau lim (map (map (shift_rating d)) teams) keys
  = map (map (shift_rating d)) (rate_core k P tau lim teams keys).
Proof.
  intros Hm.
  apply (rate_core_tr (shift_rating d) (shift_trating d (INR m * d)) P P (fun _ => True)
           (fun t => length t = m) shift_team_rating k tau tau lim teams keys).
  - apply shift_inflate.
  - apply shift_clamp_player.
  - intros trs _. now apply shift_compute.
  - apply Forall_forall. intros t Ht. apply in_map_iff in Ht as [t0 [<- Hin]].
    rewrite map_length. rewrite Forall_forall in Hm. now apply Hm.
Qed.
End ShiftRate.

Section PredShift.
Variables (d beta : R) (m : nat).
Hypothesis Hm : (1 <= m)%nat.

Lemma shift_args teams n dm ta tb : Forall (fun t => length t = m) teams -> In ta teams -> In tb teams ->
  arg_win beta n (agg (map (shift_rating d) ta)) (agg (map (shift_rating d) tb)) = arg_win beta n (agg ta) (agg tb) /\
  arg_draw1 beta n (1 * dm) (agg (map (shift_rating d) ta)) (agg (map (shift_rating d) tb)) = arg_draw1 beta n dm (agg ta) (agg tb) /\
  arg_draw2 beta n (1 * dm) (agg (map (shift_rating d) ta)) (agg (map (shift_rating d) tb)) = arg_draw2 beta n dm (agg ta) (agg tb).
Proof.
  intros Hl Ha Hb. rewrite Forall_forall in Hl.
  rewrite !agg_shift, !R_agg, (Hl ta Ha), (Hl tb Hb). unfold arg_win, arg_draw1, arg_draw2.
  change (pair_scale beta n (Tmu ta + INR m * d, Tvar ta) (Tmu tb + INR m * d, Tvar tb))
    with (pair_scale beta n (Tmu ta, Tvar ta) (Tmu tb, Tvar tb)).
  cbn [fst snd]. cbn [fdiv fsub fadd RN RNum]. repeat split; f_equal; ring.
Qed.

Theorem shift_predict teams : Forall (fun t => length t = m) teams ->
  predict_win beta (map (map (shift_rating d)) teams) = predict_win beta teams /\
  predict_draw beta (map (map (shift_rating d)) teams) = predict_draw beta teams /\
  predict_rank_probs beta (map (map (shift_rating d)) teams) = predict_rank_probs beta teams /\
  predict_rank beta (map (map (shift_rating d)) teams) = predict_rank beta teams.
Proof.
  intros Hl.
  assert (Hinv : forall n dm ta tb, In ta teams -> In tb teams -> (1 <= n)%nat -> _) by
    (intros n dm ta tb Ha Hb _; exact (shift_args teams n dm ta tb Hl Ha Hb)).
  assert (Hdm : draw_margin beta (map (map (shift_rating d)) teams) = 1 * draw_margin beta teams).
  { unfold draw_margin. cbv zeta. rewrite nplayers_map. lra. }
  assert (Hne : Forall (fun t : list (rating R) => t <> []) teams).
  { rewrite Forall_forall in *. intros t Ht E. specialize (Hl t Ht). subst t. cbn in Hl. lia. }
  repeat split.
  - exact (predict_win_tr (shift_rating d) beta beta 1 teams Hinv Hdm Hne).
  - exact (predict_draw_tr (shift_rating d) beta beta 1 teams Hinv Hdm).
  - exact (predict_rank_probs_tr (shift_rating d) beta beta 1 teams Hinv Hdm).
  - exact (predict_rank_tr (shift_rating d) beta beta 1 teams Hinv Hdm).
Qed.
End PredShift.

(** ** Thurstone-Mosteller is not scale free: the draw-margin argument [t = kappa / c_iq]
    of [v], [w], [vt], [wt] is divided by [a] when the scale is multiplied by [a] (kappa is a
    pure number in the code), while [dmu] is invariant. *)
Lemma tm_threshold_scales a P g' ti tq : 0 < a -> 0 < p_beta P -> tpos ti -> tpos tq ->
  p_kappa P / c_iq (mkParams (a * p_beta P) (p_kappa P) g') (scale_trating a ti) (scale_trating a tq)
  = p_kappa P / c_iq P ti tq / a.
Proof.
  intros Ha Hb Hi Hq. rewrite (c_iq_scale a P g' Ha).
  pose proof (c_iq_pos P ti tq Hb Hi Hq). field. lra.
Qed.

(** A genuine counterexample (for every [Phi] with the textbook properties): kappa = 1,
    beta = sigma = 1/4, two one-player teams with equal mu, factor 2.  In the small unit
    t = 2 and v = phi(2)/Phi(-2) > 2 (Mills ratio, lower bound); in the large unit t = 1 and
    v = phi(1)/Phi(-1) < 2 (Mills ratio, upper bound); both on the exact branch of [v]
    ([Phi (-2)], [Phi (-1)] > [Phi (-8)] > 2^-52).  The winner's posterior mu is v(0,2)/8 in
    the small unit and v(0,1)/4 <> 2 * v(0,2)/8 in the large one. *)
Section TMRefute.
Hypothesis GF : GaussFacts Phi Phiinv.

Lemma v_exact t : -8 <= - t -> v 0 t = phi (- t) / Phi (- t).
Proof.
  intros Ht. unfold v. cbv zeta. cbn [fsub RN RNum]. replace (0 - t) with (- t) by lra.
  rewrite Rcdf, Rpdf. cbn [fltb fdiv RN RNum].
  rewrite (proj2 (Rltb_false _ _)); [reflexivity|].
  rewrite Rfeps. pose proof (gf_tail8 _ _ GF).
  destruct Ht as [Ht|Ht]; [pose proof (gf_mono _ _ GF (-8) (- t) Ht); lra | rewrite <- Ht; lra].
Qed.

Lemma mills_1 : phi (-1) / Phi (-1) < 2.
Proof.
  pose proof (gf_mills_up _ _ GF (-1)) as M. pose proof (gf_range _ _ GF (-1)) as [Hr _].
  apply (Rmult_lt_reg_r (Phi (-1))); [exact Hr|].
  unfold Rdiv. rewrite Rmult_assoc, Rinv_l by lra. lra.
Qed.
Lemma mills_2 : 2 < phi (-2) / Phi (-2).
Proof.
  pose proof (gf_mills _ _ GF (-2)) as M. pose proof (gf_range _ _ GF (-2)) as [Hr _].
  apply (Rmult_lt_reg_r (Phi (-2))); [exact Hr|].
  unfold Rdiv. rewrite Rmult_assoc, Rinv_l by lra. lra.
Qed.

Definition hd_mu (l : list (list (rating R))) : R :=
  match l with (r :: _) :: _ => r_mu r | _ => 0 end.

Definition tmP : params R := mkParams (1 / 4) 1 gamma_default.
Definition tm1 : trating R := mkT 0 (1 / 16) [mkRating 0 (1 / 4) 0%Z NmNone] 0.
Definition tm2 : trating R := mkT 0 (1 / 16) [mkRating 0 (1 / 4) 1%Z NmNone] 1.

Lemma tm_small_unit : hd_mu (compute TMF tmP [tm1; tm2]) = phi (-2) / Phi (-2) / 8.
Proof.
  cbn [compute]. unfold compute_pairs, opponents_full, rows.
  cbn [rows_aux rev app map fst snd fold_left]. unfold update_team at 1.
  cbn [tm1 t_team map hd_mu]. unfold update_player. cbv zeta. cbn [set_mu_sigma r_mu r_sigma t_ss].
  unfold tm_term. cbv zeta.
  assert (Ec : c_iq tmP tm1 tm2 = 1 / 2).
  { unfold c_iq, tmP, tm1, tm2. cbn [t_ss p_beta]. cbn [fsqrt fadd fmul fpow2 RN RNum].
    change (@ftwo R RN) with 2.
    replace (1 / 16 + 1 / 16 + 2 * (1 / 4 * (1 / 4))) with (1 / 2 * (1 / 2)) by lra.
    apply sqrt_square. lra. }
  rewrite Ec. cbn [tm1 tm2 t_rank t_mu t_ss Nat.ltb Nat.leb fst]. cbn [tmP p_kappa].
  cbn [fadd fsub fmul fdiv fpow2 RN RNum]. change (@fzero R RN) with 0.
  replace ((0 - 0) / (1 / 2)) with 0 by lra.
  replace (1 / (1 / 2)) with 2 by lra.
  rewrite (v_exact 2) by lra. replace (Ropp 2) with (-2) by lra. lra.
Qed.

Lemma tm_large_unit :
  hd_mu (compute TMF (mkParams (2 * p_beta tmP) (p_kappa tmP) gamma_default)
           (map (scale_trating 2) [tm1; tm2])) = phi (-1) / Phi (-1) / 4.
Proof.
  cbn [compute map]. unfold compute_pairs, opponents_full, rows.
  cbn [rows_aux rev app map fst snd fold_left]. unfold update_team at 1.
  cbn [tm1 scale_trating t_team map hd_mu]. unfold update_player. cbv zeta.
  cbn [scale_rating set_mu_sigma r_mu r_sigma t_ss].
  unfold tm_term. cbv zeta.
  assert (Ec : c_iq (mkParams (2 * p_beta tmP) (p_kappa tmP) gamma_default)
                 (scale_trating 2 tm1) (scale_trating 2 tm2) = 1).
  { unfold c_iq, tmP, tm1, tm2, scale_trating. cbn [t_ss p_beta]. cbn [fsqrt fadd fmul fpow2 RN RNum].
    change (@ftwo R RN) with 2.
    replace (2 * 2 * (1 / 16) + 2 * 2 * (1 / 16) + 2 * (2 * (1 / 4) * (2 * (1 / 4)))) with 1 by lra.
    apply sqrt_1. }
  fold tm1. rewrite Ec. cbn [tm1 tm2 scale_trating t_rank t_mu t_ss Nat.ltb Nat.leb fst]. cbn [tmP p_kappa].
  cbn [fadd fsub fmul fdiv fpow2 RN RNum]. change (@fzero R RN) with 0.
  replace ((2 * 0 - 2 * 0) / 1) with 0 by lra.
  replace (1 / 1) with 1 by lra.
  rewrite (v_exact 1) by lra. replace (Ropp 1) with (-1) by lra. lra.
Qed.

Theorem tm_scale_refuted :
  exists (a : R) (P : params R) (trs : list (trating R)),
    0 < a /\ 0 < p_beta P /\ 0 < p_kappa P <= 1 /\ Forall tpos trs /\
    gamma_scale_free a (p_gamma P) gamma_default /\
    compute TMF (mkParams (a * p_beta P) (p_kappa P) gamma_default) (map (scale_trating a) trs)
    <> map (map (scale_rating a)) (compute TMF P trs).
Proof.
  exists 2, tmP, [tm1; tm2]. repeat split; try (cbn; lra).
  - repeat constructor; unfold tpos; cbn; lra.
  - apply gamma_default_scale_free. lra.
  - intros E. apply (f_equal hd_mu) in E. rewrite tm_large_unit in E.
    assert (R2 : hd_mu (map (map (scale_rating 2)) (compute TMF tmP [tm1; tm2]))
                 = 2 * (phi (-2) / Phi (-2) / 8)).
    { rewrite <- tm_small_unit. cbn [compute]. unfold compute_pairs, opponents_full, rows.
      cbn [rows_aux rev app map fst snd fold_left]. unfold update_team at 1 3.
      cbn [tm1 t_team map hd_mu]. reflexivity. }
    rewrite R2 in E. pose proof mills_1. pose proof mills_2. lra.
Qed.
End TMRefute.
End C16.

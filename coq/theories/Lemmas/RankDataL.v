(** * RankDataL: [_rank_data] is competition ranking ("1224"), and the ranks
    that [predict_rank] derives from it ([reverse_ranks]) are ordered as the
    values are.  Polymorphic in the value type; the only facts used about the
    comparisons [vltb]/[veqb] are the four order laws that are the section
    hypotheses below (they hold in R, and for IEEE doubles without NaN). *)
From Coq Require Import List Arith Bool Lia Permutation Sorted.
From OSV Require Import Order.
Import ListNotations.

(** ** Insertion sort: permutation and (local) sortedness under totality. *)
Section IsortFacts.
Context {A : Type} (leb : A -> A -> bool).

Lemma insert_perm x l : Permutation (x :: l) (insert leb x l).
Proof.
  induction l as [|y ys IH]; cbn [insert]; [apply Permutation_refl|].
  destruct (leb x y); [apply Permutation_refl|].
  eapply perm_trans; [apply perm_swap|]. now apply perm_skip.
Qed.

Lemma isort_perm l : Permutation l (isort leb l).
Proof.
  induction l as [|x xs IH]; [apply Permutation_refl|].
  change (isort leb (x :: xs)) with (insert leb x (isort leb xs)).
  eapply perm_trans; [apply perm_skip, IH | apply insert_perm].
Qed.

Hypothesis leb_total : forall a b, leb a b = false -> leb b a = true.
Let le a b := leb a b = true.

Lemma insert_hdrel a x l : le a x -> HdRel le a l -> HdRel le a (insert leb x l).
Proof.
  intros Hax Hl. destruct l as [|y ys]; cbn [insert]; [now constructor|].
  destruct (leb x y); constructor; [assumption|]. now inversion Hl.
Qed.

Lemma insert_sorted x l : Sorted le l -> Sorted le (insert leb x l).
Proof.
  induction 1 as [|y ys Hs IH Hhd]; cbn [insert]; [repeat constructor|].
  destruct (leb x y) eqn:E.
  - constructor; [now constructor|]. now constructor.
  - constructor; [assumption|]. apply insert_hdrel; [|assumption]. now apply leb_total.
Qed.

Lemma isort_sorted l : Sorted le (isort leb l).
Proof.
  induction l as [|x xs IH]; [constructor|].
  change (isort leb (x :: xs)) with (insert leb x (isort leb xs)). now apply insert_sorted.
Qed.
End IsortFacts.

(** ** Small list facts *)
Lemma map_fst_combine {A B} (l : list A) (l' : list B) :
  length l = length l' -> map fst (combine l l') = l.
Proof.
  revert l'; induction l as [|a l IH]; intros [|b l'] H; cbn in *; try reflexivity; try discriminate.
  f_equal. apply IH. lia.
Qed.

Lemma nth_map_seq {B} (f : nat -> B) n i d : i < n -> nth i (map f (seq 0 n)) d = f i.
Proof.
  intros Hi. rewrite (nth_indep _ d (f 0)) by now rewrite map_length, seq_length.
  rewrite map_nth. now rewrite seq_nth.
Qed.

Lemma In_combine_seq {V} (v : list V) d p :
  In p (combine v (seq 0 (length v))) -> snd p < length v /\ fst p = nth (snd p) v d.
Proof.
  intros Hin. destruct (In_nth _ _ (d, 0) Hin) as [j [Hj Ej]].
  rewrite combine_length, seq_length, Nat.min_id in Hj.
  rewrite combine_nth in Ej by now rewrite seq_length.
  rewrite seq_nth in Ej by assumption. subst p. cbn. split; [assumption|reflexivity].
Qed.

Lemma combine_seq_In {V} (v : list V) d i :
  i < length v -> In (nth i v d, i) (combine v (seq 0 (length v))).
Proof.
  intros Hi.
  replace (nth i v d, i) with (nth i (combine v (seq 0 (length v))) (d, 0)).
  - apply nth_In. now rewrite combine_length, seq_length, Nat.min_id.
  - rewrite combine_nth by now rewrite seq_length. now rewrite seq_nth.
Qed.

(** [list_max] (the model's, [Order.list_max]) *)
Lemma list_max_ge l i : nth i l 0 <= list_max l.
Proof.
  revert i; induction l as [|x xs IH]; intros [|i]; cbn [nth list_max fold_right]; try lia.
  fold (list_max xs). specialize (IH i). lia.
Qed.

Lemma list_max_attained l : l <> [] -> exists k, k < length l /\ nth k l 0 = list_max l.
Proof.
  induction l as [|x xs IH]; [congruence|]. intros _.
  cbn [list_max fold_right]. fold (list_max xs).
  destruct xs as [|y ys].
  - exists 0. cbn. split; lia.
  - destruct IH as [k [Hk Ek]]; [congruence|].
    destruct (Nat.le_ge_cases x (list_max (y :: ys))) as [Hle|Hle].
    + exists (S k). cbn [length nth] in *. split; [lia|]. rewrite Ek. lia.
    + exists 0. cbn [length nth]. split; lia.
Qed.

Lemma reverse_ranks_length l : length (reverse_ranks l) = length l.
Proof. unfold reverse_ranks. now rewrite map_length. Qed.

Lemma reverse_ranks_nth l i : i < length l ->
  nth i (reverse_ranks l) 0 = S (list_max l - nth i l 0).
Proof.
  intros Hi. unfold reverse_ranks.
  rewrite (nth_indep _ 0 (S (list_max l - 0))) by now rewrite map_length.
  now rewrite (map_nth (fun r => S (list_max l - r))).
Qed.

(** ** The ranking proper *)
Section RankData.
Context {V : Type} (vltb veqb : V -> V -> bool).

Hypothesis ltb_irrefl : forall x, vltb x x = false.
Hypothesis ltb_trans : forall x y z, vltb x y = true -> vltb y z = true -> vltb x z = true.
Hypothesis eqb_spec : forall x y, veqb x y = true <-> (vltb x y = false /\ vltb y x = false).
Hypothesis eqb_trans : forall x y z, veqb x y = true -> veqb y z = true -> veqb x z = true.

Lemma ltb_asym x y : vltb x y = true -> vltb y x = false.
Proof.
  intros H. destruct (vltb y x) eqn:E; [|reflexivity].
  rewrite <- (ltb_irrefl x). symmetry. now apply ltb_trans with y.
Qed.
Lemma eqb_refl x : veqb x x = true.
Proof. apply eqb_spec. now rewrite ltb_irrefl. Qed.
Lemma eqb_sym x y : veqb x y = true -> veqb y x = true.
Proof. intros H. apply eqb_spec in H. apply eqb_spec. tauto. Qed.

Lemma ltb_eqb_r_true x y z : veqb y z = true -> vltb x y = true -> vltb x z = true.
Proof.
  intros Hyz Hxy. destruct (vltb x z) eqn:Exz; [reflexivity|].
  destruct (vltb z x) eqn:Ezx.
  - pose proof (ltb_trans _ _ _ Ezx Hxy) as Hzy. apply eqb_spec in Hyz. destruct Hyz; congruence.
  - assert (Hxz : veqb x z = true) by (apply eqb_spec; tauto).
    pose proof (eqb_trans _ _ _ Hxz (eqb_sym _ _ Hyz)) as Hxy'.
    apply eqb_spec in Hxy'. destruct Hxy'; congruence.
Qed.
Lemma ltb_eqb_l_true x y z : veqb x y = true -> vltb x z = true -> vltb y z = true.
Proof.
  intros Hxy Hxz. destruct (vltb y z) eqn:Eyz; [reflexivity|].
  destruct (vltb z y) eqn:Ezy.
  - pose proof (ltb_trans _ _ _ Hxz Ezy) as Hxy'. apply eqb_spec in Hxy. destruct Hxy; congruence.
  - assert (Hyz : veqb y z = true) by (apply eqb_spec; tauto).
    pose proof (eqb_trans _ _ _ Hxy Hyz) as Hxz'.
    apply eqb_spec in Hxz'. destruct Hxz'; congruence.
Qed.
Lemma ltb_eqb_r x y z : veqb y z = true -> vltb x y = vltb x z.
Proof.
  intros H. destruct (vltb x y) eqn:E1, (vltb x z) eqn:E2; try reflexivity.
  - rewrite (ltb_eqb_r_true _ _ _ H E1) in E2. discriminate.
  - rewrite (ltb_eqb_r_true _ _ _ (eqb_sym _ _ H) E2) in E1. discriminate.
Qed.
Lemma ltb_eqb_l x y z : veqb x y = true -> vltb x z = vltb y z.
Proof.
  intros H. destruct (vltb x z) eqn:E1, (vltb y z) eqn:E2; try reflexivity.
  - rewrite (ltb_eqb_l_true _ _ _ H E1) in E2. discriminate.
  - rewrite (ltb_eqb_l_true _ _ _ (eqb_sym _ _ H) E2) in E1. discriminate.
Qed.
(** [w <= p < x -> w < x] *)
Lemma le_lt_trans w p x : vltb p w = false -> vltb p x = true -> vltb w x = true.
Proof.
  intros Hpw Hpx. destruct (vltb w x) eqn:Ewx; [reflexivity|].
  destruct (vltb x w) eqn:Exw.
  - rewrite (ltb_trans _ _ _ Hpx Exw) in Hpw. discriminate.
  - assert (Hwx : veqb x w = true) by (apply eqb_spec; tauto).
    rewrite (ltb_eqb_r p x w Hwx) in Hpx. congruence.
Qed.
(** [x < p <= w -> x < w] *)
Lemma lt_le_trans x p w : vltb x p = true -> vltb w p = false -> vltb x w = true.
Proof.
  intros Hxp Hwp. destruct (vltb x w) eqn:Exw; [reflexivity|].
  destruct (vltb w x) eqn:Ewx.
  - rewrite (ltb_trans _ _ _ Ewx Hxp) in Hwp. discriminate.
  - assert (Hxw : veqb x w = true) by (apply eqb_spec; tauto).
    rewrite (ltb_eqb_l x w p Hxw) in Hxp. congruence.
Qed.
Lemma not_eqb_le_lt p x : veqb p x = false -> vltb x p = false -> vltb p x = true.
Proof.
  intros Hne Hle. destruct (vltb p x) eqn:E; [reflexivity|].
  assert (veqb p x = true) by (apply eqb_spec; tauto). congruence.
Qed.

Definition vle (x y : V) : Prop := vltb y x = false.
Lemma vle_trans : Relations_1.Transitive vle.
Proof.
  intros x y z Hxy Hyz. unfold vle in *.
  destruct (vltb z x) eqn:E; [|reflexivity].
  (* z < x <= y, so z < y, contradiction with y <= z *)
  rewrite (lt_le_trans z x y E Hxy) in Hyz. discriminate.
Qed.

(** number of members of [l] strictly below [x] *)
Definition cnt (x : V) (l : list V) : nat := length (filter (fun w => vltb w x) l).

Lemma cnt_cons x a l : cnt x (a :: l) = (if vltb a x then 1 else 0) + cnt x l.
Proof. unfold cnt. cbn [filter]. destruct (vltb a x); reflexivity. Qed.
Lemma cnt_app x l l' : cnt x (l ++ l') = cnt x l + cnt x l'.
Proof. unfold cnt. now rewrite filter_app, app_length. Qed.
Lemma cnt_perm x l l' : Permutation l l' -> cnt x l = cnt x l'.
Proof.
  induction 1 as [|a l l' _ IH|a b l|l l' l'' _ IH1 _ IH2]; rewrite ?cnt_cons; lia.
Qed.
Lemma cnt_zero x l : (forall w, In w l -> vltb w x = false) -> cnt x l = 0.
Proof.
  induction l as [|a l IH]; intros H; [reflexivity|]. rewrite cnt_cons.
  rewrite (H a (or_introl eq_refl)), IH; [reflexivity|]. intros w Hw. apply H. now right.
Qed.
Lemma cnt_all x l : (forall w, In w l -> vltb w x = true) -> cnt x l = length l.
Proof.
  induction l as [|a l IH]; intros H; [reflexivity|]. rewrite cnt_cons.
  rewrite (H a (or_introl eq_refl)), IH; [reflexivity|]. intros w Hw. apply H. now right.
Qed.
Lemma cnt_eqb x y l : veqb x y = true -> cnt x l = cnt y l.
Proof.
  intros H. induction l as [|a l IH]; [reflexivity|]. rewrite !cnt_cons, IH.
  now rewrite (ltb_eqb_r a x y H).
Qed.
Lemma cnt_le_length x l : cnt x l <= length l.
Proof. induction l as [|a l IH]; [cbn; lia|]. rewrite cnt_cons. cbn [length]. destruct (vltb a x); lia. Qed.
Lemma cnt_lt_length x l : In x l -> cnt x l < length l.
Proof.
  induction l as [|a l IH]; intros Hin; [contradiction|]. rewrite cnt_cons. cbn [length].
  destruct Hin as [->|Hin].
  - rewrite ltb_irrefl. pose proof (cnt_le_length x l). lia.
  - specialize (IH Hin). destruct (vltb a x); lia.
Qed.
Lemma cnt_mono x y l : vltb x y = false -> cnt y l <= cnt x l.
Proof.
  (* y <= x *)
  intros H. induction l as [|a l IH]; [cbn; lia|]. rewrite !cnt_cons.
  destruct (vltb a y) eqn:Eay; [|lia].
  rewrite (lt_le_trans a y x Eay H). lia.
Qed.
Lemma cnt_lt y x l : vltb y x = true -> In y l -> cnt y l < cnt x l.
Proof.
  intros Hyx. pose proof (ltb_asym _ _ Hyx) as Hxy.
  induction l as [|a l IH]; intros Hin; [contradiction|]. rewrite !cnt_cons.
  destruct Hin as [->|Hin].
  - rewrite ltb_irrefl, Hyx. pose proof (cnt_mono x y l Hxy). lia.
  - specialize (IH Hin). destruct (vltb a y) eqn:Eay; [|destruct (vltb a x); lia].
    rewrite (ltb_trans _ _ _ Eay Hyx). lia.
Qed.

(** *** the sorted list of (value, index) pairs *)
Lemma pair_leb_total a b : pair_leb vltb veqb a b = false -> pair_leb vltb veqb b a = true.
Proof.
  unfold pair_leb. destruct a as [x i], b as [y j]; cbn [fst snd].
  destruct (vltb x y) eqn:Exy; [discriminate|].
  destruct (vltb y x) eqn:Eyx; [reflexivity|].
  assert (Hxy : veqb x y = true) by (apply eqb_spec; tauto).
  rewrite Hxy, (eqb_sym _ _ Hxy). intros H.
  apply Nat.leb_gt in H. apply Nat.leb_le. lia.
Qed.
Lemma pair_leb_vle a b : pair_leb vltb veqb a b = true -> vle (fst a) (fst b).
Proof.
  unfold pair_leb, vle. destruct (vltb (fst a) (fst b)) eqn:E.
  - intros _. now apply ltb_asym.
  - destruct (veqb (fst a) (fst b)) eqn:E2; [|discriminate]. intros _.
    apply eqb_spec in E2. tauto.
Qed.

Lemma arg_sort_pairs_perm v :
  Permutation (combine v (seq 0 (length v))) (arg_sort_pairs vltb veqb v).
Proof. apply isort_perm. Qed.
Lemma arg_sort_pairs_values v : Permutation v (map fst (arg_sort_pairs vltb veqb v)).
Proof.
  rewrite <- (map_fst_combine v (seq 0 (length v))) at 1 by now rewrite seq_length.
  apply Permutation_map, arg_sort_pairs_perm.
Qed.
Lemma arg_sort_pairs_sorted v : StronglySorted vle (map fst (arg_sort_pairs vltb veqb v)).
Proof.
  apply Sorted_StronglySorted; [exact vle_trans|].
  pose proof (isort_sorted (pair_leb vltb veqb) pair_leb_total (combine v (seq 0 (length v)))) as Hs.
  fold (arg_sort_pairs vltb veqb v) in Hs.
  induction Hs as [|a l Hs IH Hhd]; cbn [map]; constructor; [assumption|].
  destruct Hhd as [|b l Hab]; cbn [map]; constructor. now apply pair_leb_vle.
Qed.

(** *** the loop of [_rank_data] *)
Lemma rank_groups_spec l : forall pre prev start,
  (forall w, In w pre -> vltb prev w = false) ->
  start = cnt prev pre ->
  StronglySorted vle (prev :: map fst l) ->
  rank_groups veqb prev start (length pre) l
  = map (fun p => (snd p, S (cnt (fst p) (pre ++ map fst l)))) l.
Proof.
  induction l as [|[x i] xs IH]; intros pre prev start Hpre Hstart Hsort; [reflexivity|].
  cbn [rank_groups map fst snd].
  inversion Hsort as [|? ? Hsort' Hall]; subst. cbn [map fst] in Hsort', Hall.
  inversion Hsort' as [|? ? Hsort'' Hallx]; subst.
  inversion Hall as [|? ? Hpx _]; subst. unfold vle in Hpx.
  assert (Hx0 : cnt x (x :: map fst xs) = 0).
  { apply cnt_zero. intros w [<-|Hw]; [apply ltb_irrefl|].
    rewrite Forall_forall in Hallx. exact (Hallx w Hw). }
  assert (Hstart' : (if veqb prev x then cnt prev pre else length pre) = cnt x pre).
  { destruct (veqb prev x) eqn:Epx.
    - now apply cnt_eqb.
    - symmetry. apply cnt_all. intros w Hw.
      apply le_lt_trans with prev; [now apply Hpre|]. now apply not_eqb_le_lt. }
  rewrite Hstart', cnt_app, Hx0, Nat.add_0_r. f_equal.
  replace (S (length pre)) with (length (pre ++ [x])) by (rewrite app_length; cbn; lia).
  rewrite (IH (pre ++ [x]) x (cnt x pre)).
  - apply map_ext. intros p. now rewrite <- app_assoc.
  - intros w Hw. apply in_app_or in Hw. destruct Hw as [Hw|[<-|[]]]; [|apply ltb_irrefl].
    (* w <= prev <= x *)
    exact (vle_trans w prev x (Hpre w Hw) Hpx).
  - rewrite cnt_app. rewrite (cnt_cons x x []), ltb_irrefl. cbn. lia.
  - assumption.
Qed.

Lemma rank_assoc_spec v :
  rank_assoc vltb veqb v
  = map (fun p => (snd p, S (cnt (fst p) v))) (arg_sort_pairs vltb veqb v).
Proof.
  unfold rank_assoc.
  pose proof (arg_sort_pairs_values v) as Hperm.
  pose proof (arg_sort_pairs_sorted v) as Hsort.
  destruct (arg_sort_pairs vltb veqb v) as [|[x i] xs]; [reflexivity|].
  cbn [map fst snd] in *.
  assert (Hx0 : cnt x (x :: map fst xs) = 0).
  { apply cnt_zero. intros w [<-|Hw]; [apply ltb_irrefl|].
    inversion Hsort as [|? ? _ Hall]; subst. rewrite Forall_forall in Hall. exact (Hall w Hw). }
  f_equal.
  - now rewrite (cnt_perm x _ _ Hperm), Hx0.
  - change 1 with (length [x]).
    rewrite (rank_groups_spec xs [x] x 0).
    + apply map_ext. intros p. now rewrite (cnt_perm (fst p) _ _ Hperm).
    + intros w [<-|[]]. apply ltb_irrefl.
    + rewrite (cnt_cons x x []), ltb_irrefl. reflexivity.
    + assumption.
Qed.

Lemma assoc_get_map (f : V -> nat) (s : list (V * nat)) i x :
  (forall p, In p s -> snd p = i -> fst p = x) ->
  (exists p, In p s /\ snd p = i) ->
  assoc_get i (map (fun p => (snd p, f (fst p))) s) = f x.
Proof.
  induction s as [|[y j] s IH]; intros Hall [p [Hin Hp]]; [contradiction|].
  cbn [map assoc_get fst snd]. destruct (Nat.eqb i j) eqn:E.
  - apply Nat.eqb_eq in E. subst j. f_equal. apply (Hall (y, i)); [now left|reflexivity].
  - apply IH.
    + intros q Hq. apply Hall. now right.
    + destruct Hin as [<-|Hin].
      * cbn in Hp. subst j. rewrite Nat.eqb_refl in E. discriminate.
      * exists p. tauto.
Qed.

Lemma rank_data_length v : length (rank_data vltb veqb v) = length v.
Proof. unfold rank_data. now rewrite map_length, seq_length. Qed.

(** [_rank_data] is competition ranking: the rank of element [i] is one more
    than the number of elements strictly smaller than it. *)
Theorem rank_data_spec v d i : i < length v ->
  nth i (rank_data vltb veqb v) 0
  = S (length (filter (fun w => vltb w (nth i v d)) v)).
Proof.
  intros Hi. unfold rank_data. rewrite nth_map_seq by assumption.
  rewrite rank_assoc_spec.
  apply (assoc_get_map (fun x => S (cnt x v))).
  - intros p Hp Hsnd.
    apply (Permutation_in _ (Permutation_sym (arg_sort_pairs_perm v))) in Hp.
    apply (In_combine_seq v d) in Hp. destruct Hp as [_ Hp]. now rewrite Hp, Hsnd.
  - exists (nth i v d, i). split; [|reflexivity].
    apply (Permutation_in _ (arg_sort_pairs_perm v)). now apply combine_seq_In.
Qed.

(** *** the ranks of [predict_rank]: [reverse_ranks (rank_data v)] *)
Definition rks (v : list V) : list nat := reverse_ranks (rank_data vltb veqb v).

Lemma rks_length v : length (rks v) = length v.
Proof. unfold rks. now rewrite reverse_ranks_length, rank_data_length. Qed.

Lemma rks_nth v i : i < length v ->
  nth i (rks v) 0 = S (list_max (rank_data vltb veqb v) - nth i (rank_data vltb veqb v) 0).
Proof. intros Hi. unfold rks. apply reverse_ranks_nth. now rewrite rank_data_length. Qed.

Theorem rks_order v d i j : i < length v -> j < length v ->
  vltb (nth j v d) (nth i v d) = true -> nth i (rks v) 0 < nth j (rks v) 0.
Proof.
  intros Hi Hj Hlt. rewrite !rks_nth by assumption.
  pose proof (list_max_ge (rank_data vltb veqb v) i) as Hmi.
  rewrite (rank_data_spec v d i Hi) in *. rewrite (rank_data_spec v d j Hj).
  pose proof (cnt_lt _ _ v Hlt (nth_In v d Hj)) as Hc. unfold cnt in Hc. lia.
Qed.

Theorem rks_ties v d i j : i < length v -> j < length v ->
  veqb (nth i v d) (nth j v d) = true -> nth i (rks v) 0 = nth j (rks v) 0.
Proof.
  intros Hi Hj Heq. rewrite !rks_nth by assumption.
  rewrite (rank_data_spec v d i Hi), (rank_data_spec v d j Hj).
  pose proof (cnt_eqb _ _ v Heq) as Hc. unfold cnt in Hc. now rewrite Hc.
Qed.

Theorem rks_best v d i : i < length v ->
  (forall j, j < length v -> vltb (nth i v d) (nth j v d) = false) ->
  nth i (rks v) 0 = 1.
Proof.
  intros Hi Hmax. rewrite rks_nth by assumption.
  destruct (list_max_attained (rank_data vltb veqb v)) as [k [Hk Ek]].
  { intros E. pose proof (rank_data_length v) as L. rewrite E in L. cbn in L. lia. }
  rewrite rank_data_length in Hk.
  pose proof (list_max_ge (rank_data vltb veqb v) i) as Hmi.
  rewrite <- Ek in *. rewrite (rank_data_spec v d i Hi) in *. rewrite (rank_data_spec v d k Hk) in *.
  pose proof (cnt_mono _ _ v (Hmax k Hk)) as Hc. unfold cnt in Hc. lia.
Qed.

Theorem rks_bounds v i : i < length v -> 1 <= nth i (rks v) 0 <= length v.
Proof.
  intros Hi. rewrite rks_nth by assumption. split; [lia|].
  destruct (list_max_attained (rank_data vltb veqb v)) as [k [Hk Ek]].
  { intros E. pose proof (rank_data_length v) as L. rewrite E in L. cbn in L. lia. }
  rewrite rank_data_length in Hk. rewrite <- Ek.
  assert (d : V) by (destruct v; [cbn in Hi; lia | assumption]).
  rewrite (rank_data_spec v d i Hi), (rank_data_spec v d k Hk).
  pose proof (cnt_lt_length _ v (nth_In v d Hk)) as Hc. unfold cnt in Hc. lia.
Qed.

(** some team has rank 1 (there is a maximal element) *)
Lemma exists_maximal v d : v <> [] ->
  exists i, i < length v /\ forall j, j < length v -> vltb (nth i v d) (nth j v d) = false.
Proof.
  induction v as [|x xs IH]; [congruence|]. intros _.
  destruct xs as [|y ys].
  - exists 0. split; [cbn; lia|]. intros [|j] Hj; cbn in *; [apply ltb_irrefl|lia].
  - destruct IH as [k [Hk Hmax]]; [congruence|].
    destruct (vltb x (nth k (y :: ys) d)) eqn:E.
    + exists (S k). split; [cbn [length] in *; lia|]. intros [|j] Hj.
      * cbn [nth]. now apply ltb_asym.
      * cbn [nth]. apply Hmax. cbn [length] in *. lia.
    + exists 0. split; [cbn; lia|]. intros [|j] Hj; cbn [nth]; [apply ltb_irrefl|].
      (* nth j <= nth k <= x *)
      assert (Hj' : j < length (y :: ys)) by (cbn [length] in *; lia).
      exact (vle_trans _ _ _ (Hmax j Hj') E).
Qed.
End RankData.

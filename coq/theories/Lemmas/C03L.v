(** * C03L: outcomes are ordinal — [rate] depends on the rank / score values only through the
    weak order they induce.  Polymorphic in the number type, no laws, no axioms. *)
From Coq Require Import List Arith Bool Lia Permutation Sorted ZArith.
From OSV Require Import Num Order Gauss Core PyVal Prog.
From OSV.Lemmas Require Import OrderL OrderL2 RateL.
Import ListNotations.

(** ** list plumbing *)
Lemma nth_error_combine {A B} (l : list A) (l' : list B) i a b :
  nth_error (combine l l') i = Some (a, b) <-> nth_error l i = Some a /\ nth_error l' i = Some b.
Proof.
  revert l' i. induction l as [|x l IH]; intros [|y l'] [|i]; cbn; split; try (intros [? ?]); try discriminate.
  - intros H. injection H as <- <-. auto.
  - congruence.
  - apply IH.
  - apply IH; auto.
Qed.
Lemma in_combine_nth {A B} (l : list A) (l' : list B) a b da db : length l = length l' ->
  In (a, b) (combine l l') -> exists i, i < length l /\ nth i l da = a /\ nth i l' db = b.
Proof.
  intros E H. destruct (In_nth _ _ (da, db) H) as [i [Hi Hn]].
  rewrite combine_nth in Hn by exact E. injection Hn as <- <-.
  exists i. rewrite combine_length in Hi. split; [lia|auto].
Qed.
Lemma in_combine_map {A B} (f : A -> B) l a b : In (a, b) (combine l (map f l)) -> b = f a /\ In a l.
Proof.
  induction l as [|x l IH]; cbn; [intros []|]. intros [H|H].
  - injection H as <- <-. auto.
  - destruct (IH H). auto.
Qed.
Lemma combine_map_r_swap {A B C} (f : A -> C) (ks : list A) (xs : list B) :
  combine xs (map f ks) = map (fun kt => (snd kt, f (fst kt))) (combine ks xs).
Proof. revert xs. induction ks as [|k ks IH]; intros [|x xs]; cbn; try reflexivity. f_equal. apply IH. Qed.

Section C03.
Context {F : Type} {N : Num F}.

(** ** omitted ranks = ranks [0, 1, .., n-1] *)
Lemma rate_sorted_omitted k P (teams : list (list (rating F))) :
  rate_sorted k P teams None = rate_sorted k P teams (Some (map key_of_nat (seq 0 (length teams)))).
Proof.
  unfold rate_sorted. set (n := length teams). set (ks := map key_of_nat (seq 0 n)).
  assert (Lk : length ks = length teams) by (unfold ks; now rewrite map_length, seq_length).
  rewrite (unwind_sorted_id key_leb ks teams Lk (key_of_nat_seq_sorted 0 n)). cbn [fst snd].
  rewrite (isort_sorted_id key_leb ks (key_of_nat_seq_sorted 0 n)).
  rewrite (calc_rankings_seq key_ltb ks (key_of_nat_seq_increasing 0 n)).
  unfold ks at 1. rewrite map_length, seq_length. fold n.
  set (res := compute k P (team_ratings teams (seq 0 n))).
  assert (Lr : length res = n).
  { unfold res. rewrite compute_length, team_ratings_length; [reflexivity| now rewrite seq_length]. }
  rewrite (unwind_sorted_id Nat.leb (seq 0 n) res); [reflexivity| now rewrite seq_length | apply seq_sorted_leb].
Qed.

Theorem omitted k P tau limit (teams : list (list (rating F))) :
  rate_core k P tau limit teams None
  = rate_core k P tau limit teams (Some (map key_of_nat (seq 0 (length teams)))).
Proof.
  unfold rate_core. rewrite rate_sorted_omitted. now rewrite map_length.
Qed.

(** ** only the comparison matrix of the keys matters *)
Lemma rate_sorted_same_matrix k P (teams : list (list (rating F))) ks ks' :
  length ks = length ks' ->
  (forall a a' b b', In (a, a') (combine ks ks') -> In (b, b') (combine ks ks') -> key_leb a b = key_leb a' b') ->
  rate_sorted k P teams (Some ks) = rate_sorted k P teams (Some ks').
Proof.
  intros E Hc. unfold rate_sorted.
  destruct (unwind_rel (A := list (rating F)) key_leb key_leb ks ks' teams E Hc) as [-> HF].
  rewrite (calc_rankings_rel key_ltb key_ltb (fun a a' => In (a, a') (combine ks ks')) )
    with (l' := isort key_leb ks'); [reflexivity| |exact HF].
  intros x x' y y' Hx Hy. rewrite !key_ltb_negb_leb. f_equal. now apply Hc.
Qed.

Theorem relabel_general k P tau limit (teams : list (list (rating F))) ks ks' :
  length ks = length ks' ->
  (forall i j, i < length ks -> j < length ks ->
     key_leb (nth i ks (0, 0)%Z) (nth j ks (0, 0)%Z) = key_leb (nth i ks' (0, 0)%Z) (nth j ks' (0, 0)%Z)) ->
  rate_core k P tau limit teams (Some ks) = rate_core k P tau limit teams (Some ks').
Proof.
  intros E Hc. unfold rate_core. rewrite (rate_sorted_same_matrix k P _ ks ks' E); [reflexivity|].
  intros a a' b b' Ha Hb.
  destruct (in_combine_nth ks ks' a a' (0, 0)%Z (0, 0)%Z E Ha) as [i [Hi [<- <-]]].
  destruct (in_combine_nth ks ks' b b' (0, 0)%Z (0, 0)%Z E Hb) as [j [Hj [<- <-]]].
  now apply Hc.
Qed.

Theorem relabel k P tau limit (teams : list (list (rating F))) ks (f : key -> key) :
  (forall a b, In a ks -> In b ks -> key_leb (f a) (f b) = key_leb a b) ->
  rate_core k P tau limit teams (Some (map f ks)) = rate_core k P tau limit teams (Some ks).
Proof.
  intros Hf. unfold rate_core. rewrite (rate_sorted_same_matrix k P _ ks (map f ks)); [reflexivity| now rewrite map_length |].
  intros a a' b b' Ha Hb. destruct (in_combine_map f ks a a' Ha) as [-> Ia].
  destruct (in_combine_map f ks b b' Hb) as [-> Ib]. symmetry. now apply Hf.
Qed.

(** a strictly increasing map of the rank values that sends equal values to equal values *)
Theorem relabel_increasing k P tau limit (teams : list (list (rating F))) ks (f : key -> key) :
  (forall a b, In a ks -> In b ks -> key_ltb a b = true -> key_ltb (f a) (f b) = true) ->
  (forall a b, In a ks -> In b ks -> key_leb a b = true -> key_leb b a = true -> key_leb (f a) (f b) = true) ->
  rate_core k P tau limit teams (Some (map f ks)) = rate_core k P tau limit teams (Some ks).
Proof.
  intros Hlt Heq. apply relabel. intros a b Ia Ib.
  destruct (key_leb a b) eqn:Eab.
  - destruct (key_leb b a) eqn:Eba; [now apply Heq|].
    apply key_ltb_leb. apply Hlt; auto. rewrite key_ltb_negb_leb. now rewrite Eba.
  - rewrite key_leb_negb_ltb. rewrite (Hlt b a Ib Ia); [reflexivity|].
    rewrite key_ltb_negb_leb. now rewrite Eab.
Qed.

(** ** scores are ranks negated *)
(** [w] is the Python value [-v] for a number [v] *)
Definition neg_of (v w : pyval F) : Prop :=
  match v with
  | PInt z => w = PInt (- z)
  | PBool b => w = PInt (- (if b then 1 else 0))
  | PFloat x num k => w = PFloat (fneg x) (- num) k
  | _ => False
  end.

Lemma as_key_neg v w : neg_of v w -> exists kv, as_key v = Ok kv /\ as_key w = Ok (key_neg kv).
Proof. destruct v; cbn; intros H; try contradiction; subst w; eexists; split; reflexivity. Qed.
Lemma mapM_as_key_neg s s' : Forall2 neg_of s s' ->
  exists sc, mapM as_key s = Ok sc /\ mapM as_key s' = Ok (map key_neg sc).
Proof.
  induction 1 as [|v w s s' Hvw H [sc [H1 H2]]]; [exists []; auto|].
  destruct (as_key_neg v w Hvw) as [kv [K1 K2]]. exists (kv :: sc). cbn. now rewrite K1, K2, H1, H2.
Qed.

Lemma validate_scores k teams ranks scores0 s s' :
  truthy ranks = false -> truthy scores0 = false -> Forall2 neg_of s s' ->
  validate_rate k teams ranks (PList s) = validate_rate k teams (PList s') scores0.
Proof.
  intros Hr Hs H. unfold validate_rate. destruct (check_teams k teams) as [tms|e]; [|reflexivity].
  cbn [rbind]. rewrite Hr, Hs. cbn [rbind].
  destruct H as [|v w s s' Hvw H]; [reflexivity|].
  assert (H' : Forall2 neg_of (v :: s) (w :: s')) by (now constructor).
  cbn [truthy]. unfold check_keys. rewrite <- (Forall2_length' _ _ _ H').
  destruct (Nat.eqb (length (v :: s)) (length tms)); cbn [negb rbind]; [|reflexivity].
  destruct (mapM_as_key_neg _ _ H') as [sc [-> ->]]. reflexivity.
Qed.

Theorem scores k teams ranks scores0 s s' tau limit :
  truthy ranks = false -> truthy scores0 = false -> Forall2 neg_of s s' ->
  rate_prog k teams ranks (PList s) tau limit = rate_prog k teams (PList s') scores0 tau limit.
Proof. intros Hr Hs H. unfold rate_prog. now rewrite (validate_scores k teams ranks scores0 s s' Hr Hs H). Qed.

(** ** ties are exactly equal values *)
Lemma nth_error_team_ratings (g : list (list (rating F))) rk i ti :
  nth_error (team_ratings g rk) i = Some ti ->
  exists t r, nth_error g i = Some t /\ nth_error rk i = Some r /\ ti = team_rating t r.
Proof.
  unfold team_ratings. rewrite nth_error_map. destruct (nth_error (combine g rk) i) as [[t r]|] eqn:E; [|discriminate].
  cbn. intros H. injection H as <-. apply nth_error_combine in E. exists t, r. tauto.
Qed.

Theorem tie_iff_equal_sorted (teams : list (list (rating F))) ks :
  Forall (fun k => (0 <= snd k)%Z) ks -> length ks = length teams ->
  forall i j ti tj ki kj,
  nth_error (sorted_trs teams ks) i = Some ti -> nth_error (sorted_trs teams ks) j = Some tj ->
  nth_error (fst (sorted_game teams ks)) i = Some ki -> nth_error (fst (sorted_game teams ks)) j = Some kj ->
  In (ki, t_team ti) (combine ks teams) /\ In (kj, t_team tj) (combine ks teams) /\
  (t_rank ti = t_rank tj <-> key_leb ki kj = true /\ key_leb kj ki = true) /\
  (t_rank ti < t_rank tj <-> key_ltb ki kj = true).
Proof.
  intros W E i j ti tj ki kj Hi Hj Ki Kj.
  unfold sorted_trs in Hi, Hj.
  destruct (nth_error_team_ratings _ _ _ _ Hi) as [t1 [r1 [G1 [R1 ->]]]].
  destruct (nth_error_team_ratings _ _ _ _ Hj) as [t2 [r2 [G2 [R2 ->]]]].
  cbn [t_team t_rank team_rating].
  assert (Hin : forall i0 k0 t0, nth_error (fst (sorted_game teams ks)) i0 = Some k0 ->
             nth_error (snd (sorted_game teams ks)) i0 = Some t0 -> In (k0, t0) (combine ks teams)).
  { intros i0 k0 t0 H1 H2. eapply Permutation_in; [symmetry; apply (sorted_game_perm teams ks E)|].
    eapply nth_error_In. apply nth_error_combine. split; eassumption. }
  split; [now apply (Hin i)|]. split; [now apply (Hin j)|].
  unfold sorted_game in *. cbn [fst snd] in *.
  destruct (key_rankings_spec ks W i j ki kj r1 r2 Ki Kj R1 R2) as [H1 H2]. split; assumption.
Qed.

(** in input terms: every team enters the update with dense rank = the number of rank values
    strictly smaller than its own *)
Theorem rank_is_count (teams : list (list (rating F))) ks :
  Forall (fun k => (0 <= snd k)%Z) ks -> length ks = length teams ->
  Permutation (map (fun kt => (snd kt, count_less key_ltb ks (fst kt))) (combine ks teams))
              (map (fun t => (t_team t, t_rank t)) (sorted_trs teams ks)).
Proof.
  intros W E. unfold sorted_trs, team_ratings. rewrite map_map. cbn [t_team t_rank team_rating].
  rewrite (map_ext _ (fun tr : list (rating F) * nat => tr)) by (intros [? ?]; reflexivity). rewrite map_id.
  unfold sorted_game at 2. cbn [fst]. rewrite (key_rankings_count ks W).
  rewrite combine_map_r_swap. apply Permutation_map. apply (sorted_game_perm teams ks E).
Qed.

Theorem count_tie_iff_equal ks a b :
  Forall (fun k => (0 <= snd k)%Z) ks -> In a ks -> In b ks ->
  (count_less key_ltb ks a = count_less key_ltb ks b <-> key_leb a b = true /\ key_leb b a = true) /\
  (count_less key_ltb ks a < count_less key_ltb ks b <-> key_ltb a b = true).
Proof. intros W Ha Hb. destruct (key_count_less_spec ks a b W Ha Hb). split; assumption. Qed.
End C03.

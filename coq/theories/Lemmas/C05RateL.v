(** * C05RateL: lifting the compute-level statements of C05L to [rate_core]. *)
From Coq Require Import List ZArith Bool Arith Reals Lra Lia Permutation.
From OSV Require Import Num Order Gauss Core RInst.
From OSV.Lemmas Require Import OrderL RateL OrderL2 OmegaL C05L.
Import ListNotations.
Open Scope R_scope.

Lemma nth_error_seq' s n i : (i < n)%nat -> nth_error (seq s n) i = Some (s + i)%nat.
Proof.
  revert s i. induction n as [|n IH]; intros s [|i] H; cbn; try lia.
  - f_equal. lia.
  - rewrite IH by lia. f_equal. lia.
Qed.
Lemma Forall2_nth {A B} (Q : A -> B -> Prop) l l' i x y :
  Forall2 Q l l' -> nth_error l i = Some x -> nth_error l' i = Some y -> Q x y.
Proof.
  intros H. revert i. induction H as [|a b l l' Hab H IH]; intros [|i] E E'; cbn in *; try discriminate.
  - congruence.
  - eapply IH; eauto.
Qed.
Lemma Forall2_trans' {A B C} (Q : A -> B -> Prop) (S : B -> C -> Prop) (T : A -> C -> Prop) l1 l2 l3 :
  (forall a b c, Q a b -> S b c -> T a c) -> Forall2 Q l1 l2 -> Forall2 S l2 l3 -> Forall2 T l1 l3.
Proof.
  intros H H1. revert l3. induction H1 as [|a b l1 l2 Hab H1 IH]; intros l3 H2; inversion H2; subst; constructor; eauto.
Qed.
Lemma Forall2_flip {A B} (Q : A -> B -> Prop) l l' : Forall2 Q l l' -> Forall2 (fun b a => Q a b) l' l.
Proof. induction 1; constructor; auto. Qed.

Lemma nth_error_combine_inv {A B} (l : list A) (l' : list B) i x y :
  nth_error (combine l l') i = Some (x, y) -> nth_error l i = Some x /\ nth_error l' i = Some y.
Proof.
  revert l' i. induction l as [|a l IH]; intros [|b l'] [|i] E; cbn in *; try discriminate.
  - injection E as -> ->. auto.
  - now apply IH.
Qed.
Lemma filter_one {A} (f : A -> bool) l q y : nth_error l q = Some y -> f y = true -> (1 <= length (filter f l))%nat.
Proof.
  intros E Hy. apply nth_error_In in E. assert (H : In y (filter f l)) by (apply filter_In; auto).
  destruct (filter f l); [contradiction|cbn; lia].
Qed.
Lemma filter_two {A} (f : A -> bool) l p q x y : p <> q ->
  nth_error l p = Some x -> nth_error l q = Some y -> f x = true -> f y = true -> (2 <= length (filter f l))%nat.
Proof.
  revert p q. induction l as [|a l IH]; intros [|p] [|q] Hne Ex Ey Hx Hy; cbn in Ex, Ey; try discriminate; try lia.
  - injection Ex as ->. cbn [filter]. rewrite Hx. cbn [length]. pose proof (filter_one f l q y Ey Hy). lia.
  - injection Ey as ->. cbn [filter]. rewrite Hy. cbn [length]. pose proof (filter_one f l p x Ex Hx). lia.
  - cbn [filter]. assert (2 <= length (filter f l))%nat by (apply (IH p q); auto). destruct (f a); cbn [length]; lia.
Qed.

Section C05Rate.
Variables Phi Phiinv : R -> R.
Local Hint Extern 0 (Num R) => exact (RInst.RN Phi Phiinv) : typeclass_instances.

Definition mu_eq (l l' : list (rating R)) : Prop := Forall2 (fun a b => r_mu a = r_mu b) l l'.
Lemma mu_eq_refl l : mu_eq l l.
Proof. apply Forall2_refl. reflexivity. Qed.

Lemma clamp_player_mu (o r : rating R) : r_mu (clamp_player o r) = r_mu r.
Proof. unfold clamp_player. destruct (fleb _ _); reflexivity. Qed.
Lemma clamp_team_mu (t r : list (rating R)) : length r = length t ->
  mu_eq r (map (fun pp => clamp_player (fst pp) (snd pp)) (combine t r)).
Proof.
  revert r. induction t as [|a t IH]; intros [|b r] E; cbn in *; try discriminate; constructor.
  - cbn. now rewrite clamp_player_mu.
  - apply IH. congruence.
Qed.

Lemma rate_core_mu_eq k P tau limit (teams : list (list (rating R))) keys :
  Forall2 (fun t r => length r = length t) teams (rate_sorted k P (map (map (inflate tau)) teams) keys) ->
  Forall2 mu_eq (rate_sorted k P (map (map (inflate tau)) teams) keys) (rate_core k P tau limit teams keys).
Proof.
  intros H. unfold rate_core. destruct limit; [|apply Forall2_refl; intros; apply mu_eq_refl].
  unfold clamp. induction H as [|t r ts rs Htr H IH]; cbn; constructor; [|exact IH].
  cbn [fst snd]. now apply clamp_team_mu.
Qed.

Lemma team_ratings_nth (g : list (list (rating R))) rk i t r :
  nth_error g i = Some t -> nth_error rk i = Some r -> nth_error (team_ratings g rk) i = Some (team_rating t r).
Proof.
  intros E1 E2. unfold team_ratings. now rewrite (map_nth_error _ _ _ (nth_error_combine _ _ _ _ _ E1 E2)).
Qed.

(** [t_ss] of an inflated, non-empty team is positive *)
Lemma team_ss_pos tau (t : list (rating R)) r : t <> [] ->
  Forall (fun p => 0 < r_sigma p * r_sigma p + tau * tau) t ->
  0 < t_ss (team_rating (map (inflate tau) t) r).
Proof.
  intros Hne H. unfold team_rating. cbn [t_ss]. rewrite (R_reduce_add Phi Phiinv).
  apply Rsum_pos; [destruct t; [congruence|discriminate]|].
  rewrite map_map. rewrite Forall_forall in *. intros x Hx. apply in_map_iff in Hx. destruct Hx as [p [<- Hp]].
  specialize (H p Hp). cbn. rewrite sqrt_sqrt; lra.
Qed.

Definition valid_game (tau : R) (teams : list (list (rating R))) : Prop :=
  Forall (fun t => t <> [] /\ Forall (fun p => 0 < r_sigma p * r_sigma p + tau * tau) t) teams.

Lemma none_trs_ss tau (teams : list (list (rating R))) rk : length rk = length teams -> valid_game tau teams ->
  Forall (fun t => 0 < t_ss t) (team_ratings (map (map (inflate tau)) teams) rk).
Proof.
  intros E V. unfold team_ratings. rewrite Forall_forall. intros x Hx. apply in_map_iff in Hx.
  destruct Hx as [[t' r] [<- Hin]]. cbn [fst snd]. pose proof (in_combine_l _ _ _ _ Hin) as Ht.
  apply in_map_iff in Ht. destruct Ht as [t [<- Ht]]. unfold valid_game in V. rewrite Forall_forall in V.
  destruct (V t Ht) as [Hne Hp]. now apply team_ss_pos.
Qed.

Lemma inflate_mu_le (Q : R -> R -> Prop) tau (t res : list (rating R)) :
  Forall2 (fun p p' => Q (r_mu p) (r_mu p')) (map (inflate tau) t) res ->
  Forall2 (fun p p' => Q (r_mu p) (r_mu p')) t res.
Proof. intros H. apply Forall2_map_l in H. exact H. Qed.

(** ** keys = None: the teams finish in input order *)
Lemma rate_none_nth k P tau limit (teams : list (list (rating R))) i t res :
  nth_error teams i = Some t -> nth_error (rate_core k P tau limit teams None) i = Some res ->
  exists res0,
    nth_error (compute k P (team_ratings (map (map (inflate tau)) teams) (seq 0 (length teams)))) i = Some res0
    /\ nth_error (team_ratings (map (map (inflate tau)) teams) (seq 0 (length teams))) i
       = Some (team_rating (map (inflate tau) t) i)
    /\ mu_eq res0 res.
Proof.
  intros Et Er.
  assert (Hi : (i < length teams)%nat) by (apply nth_error_Some; congruence).
  set (trs := team_ratings (map (map (inflate tau)) teams) (seq 0 (length teams))).
  assert (Etr : nth_error trs i = Some (team_rating (map (inflate tau) t) i)).
  { apply team_ratings_nth; [now apply map_nth_error | now apply (nth_error_seq' 0)]. }
  assert (Hrs : rate_sorted k P (map (map (inflate tau)) teams) None = compute k P trs).
  { unfold rate_sorted, trs. now rewrite map_length. }
  assert (Hlen : Forall2 (fun t r => length r = length t) teams (rate_sorted k P (map (map (inflate tau)) teams) None)).
  { rewrite Hrs. pose proof (compute_shape k P trs) as Sh.
    assert (Forall2 (fun (t : list (rating R)) ti => length (t_team ti) = length t) teams trs).
    { unfold trs, team_ratings. apply Forall2_map_r.
      assert (G : forall (g : list (list (rating R))) s, Forall2 (fun a (b : list (rating R) * nat) => length (t_team (team_rating (fst b) (snd b))) = length a)
                 g (combine (map (map (inflate tau)) g) (seq s (length g)))).
      { induction g as [|a g IH]; intros s; cbn; constructor; [cbn; now rewrite map_length | apply IH]. }
      apply G. }
    eapply Forall2_trans'; [|exact H|exact Sh]. intros a b c Hab [od ->]. rewrite update_team_length. exact Hab. }
  pose proof (rate_core_mu_eq k P tau limit teams None Hlen) as Hmu. rewrite Hrs in Hmu.
  destruct (nth_error (compute k P trs) i) as [res0|] eqn:E0.
  - exists res0. split; [reflexivity|]. split; [exact Etr|]. eapply Forall2_nth; eauto.
  - apply nth_error_None in E0. rewrite compute_length in E0.
    apply Forall2_length' in Hlen. rewrite Hrs, compute_length in Hlen. lia.
Qed.

Lemma none_trs_rank tau (teams : list (list (rating R))) q tq :
  nth_error (team_ratings (map (map (inflate tau)) teams) (seq 0 (length teams))) q = Some tq -> t_rank tq = q.
Proof.
  intros E. assert (Hq : (q < length teams)%nat).
  { assert (L : length (team_ratings (map (map (inflate tau)) teams) (seq 0 (length teams))) = length teams).
    { rewrite team_ratings_length; rewrite ?map_length, ?seq_length; reflexivity. }
    rewrite <- L. apply nth_error_Some. congruence. }
  destruct (nth_error teams q) as [t|] eqn:Et; [|apply nth_error_None in Et; lia].
  rewrite (team_ratings_nth _ _ q (map (inflate tau) t) q) in E;
    [|now apply map_nth_error | now apply (nth_error_seq' 0)].
  injection E as <-. reflexivity.
Qed.

Lemma rate_first_none k P tau limit (teams : list (list (rating R))) t res :
  gf_if_tm Phi Phiinv k -> valid_game tau teams ->
  nth_error teams 0 = Some t -> nth_error (rate_core k P tau limit teams None) 0 = Some res ->
  Forall2 (fun p p' => r_mu p <= r_mu p') t res.
Proof.
  intros G V Et Er. destruct (rate_none_nth k P tau limit teams 0 t res Et Er) as [res0 [E0 [Etr Hmu]]].
  pose proof (first_alone Phi Phiinv k P _ 0 _ res0 G (none_trs_ss tau teams _ (seq_length _ _) V) Etr) as H.
  cbn [t_team team_rating t_rank] in H.
  assert (H' : Forall2 (fun p p' => r_mu p <= r_mu p') (map (inflate tau) t) res0).
  { apply H; [|exact E0]. intros q tq Hq Eq. rewrite (none_trs_rank tau teams q tq Eq). lia. }
  apply (inflate_mu_le Rle) in H'. eapply Forall2_trans'; [|exact H'|exact Hmu]. intros a b c Hab Hbc. cbn in *. lra.
Qed.

Lemma rate_last_none k P tau limit (teams : list (list (rating R))) t res :
  gf_if_tm Phi Phiinv k -> valid_game tau teams ->
  nth_error teams (length teams - 1) = Some t ->
  nth_error (rate_core k P tau limit teams None) (length teams - 1) = Some res ->
  Forall2 (fun p p' => r_mu p' <= r_mu p) t res.
Proof.
  intros G V Et Er. destruct (rate_none_nth k P tau limit teams _ t res Et Er) as [res0 [E0 [Etr Hmu]]].
  pose proof (last_alone Phi Phiinv k P _ _ _ res0 G (none_trs_ss tau teams _ (seq_length _ _) V) Etr) as H.
  cbn [t_team team_rating t_rank] in H.
  assert (H' : Forall2 (fun p p' => r_mu p' <= r_mu p) (map (inflate tau) t) res0).
  { apply H; [|exact E0]. intros q tq Hq Eq. rewrite (none_trs_rank tau teams q tq Eq).
    assert (q < length teams)%nat; [|lia].
    assert (L : length (team_ratings (map (map (inflate tau)) teams) (seq 0 (length teams))) = length teams).
    { rewrite team_ratings_length; rewrite ?map_length, ?seq_length; reflexivity. }
    rewrite <- L. apply nth_error_Some. congruence. }
  apply (inflate_mu_le (fun x y => y <= x)) in H'. eapply Forall2_trans'; [|exact H'|exact Hmu].
  intros a b c Hab Hbc. cbn in *. lra.
Qed.

(** ** two-team games with explicit rank values *)
Lemma rate_sorted_two k P (ta tb : list (rating R)) ka kb :
  rate_sorted k P [ta; tb] (Some [ka; kb]) =
   if key_leb ka kb then compute k P [team_rating ta 0; team_rating tb (if key_ltb ka kb then 1 else 0)]
   else match compute k P [team_rating tb 0; team_rating ta 1] with [rb; ra] => [ra; rb] | _ => [] end.
Proof.
  unfold rate_sorted, unwind, tag_leb. cbn [combine length seq isort fold_right insert fst snd].
  destruct (key_leb ka kb) eqn:E; cbn [map fst snd calc_rankings calc_rankings_aux].
  - unfold team_ratings. cbn [combine map fst snd].
    set (r := if key_ltb ka kb then 1%nat else 0%nat).
    pose proof (compute_length k P [team_rating ta 0; team_rating tb r]) as L.
    destruct (compute k P [team_rating ta 0; team_rating tb r]) as [|x [|y [|z l]]]; try discriminate.
    cbn [length seq combine isort fold_right insert fst snd Nat.leb map]. reflexivity.
  - assert (E2 : key_ltb kb ka = true) by (rewrite key_ltb_negb_leb, E; reflexivity). rewrite E2.
    unfold team_ratings. cbn [combine map fst snd].
    pose proof (compute_length k P [team_rating tb 0; team_rating ta 1]) as L.
    destruct (compute k P [team_rating tb 0; team_rating ta 1]) as [|x [|y [|z l]]]; try discriminate.
    cbn [length seq combine isort fold_right insert fst snd Nat.leb map]. reflexivity.
Qed.

Lemma c2_sym P sa sb : c2 P sa sb = c2 P sb sa.
Proof. unfold c2. f_equal. ring. Qed.

(** the dense ranks of a two-team game *)
Definition rank2 (ka kb : key) : nat * nat :=
  if key_leb ka kb then (0%nat, if key_ltb ka kb then 1%nat else 0%nat) else (1%nat, 0%nat).

Lemma rate_two_form k P tau limit (ta tb : list (rating R)) ka kb xa xb :
  valid_game tau [ta; tb] ->
  rate_core k P tau limit [ta; tb] (Some [ka; kb]) = [xa; xb] ->
  let A := team_rating (map (inflate tau) ta) (fst (rank2 ka kb)) in
  let B := team_rating (map (inflate tau) tb) (snd (rank2 ka kb)) in
  let c := c2 P (t_ss A) (t_ss B) in
  exists da db, mu_eq (update_team P A (om2 Phi Phiinv k P c A B, da)) xa
             /\ mu_eq (update_team P B (om2 Phi Phiinv k P c B A, db)) xb.
Proof.
  intros V E A B c.
  assert (VA : forall r, 0 < t_ss (team_rating (map (inflate tau) ta) r)).
  { intros r. inversion V as [|? ? [H1 H2] _]; subst. now apply team_ss_pos. }
  assert (VB : forall r, 0 < t_ss (team_rating (map (inflate tau) tb) r)).
  { intros r. inversion V as [|? ? _ V']; subst. inversion V' as [|? ? [H1 H2] _]; subst. now apply team_ss_pos. }
  assert (F : exists da db, rate_sorted k P (map (map (inflate tau)) [ta; tb]) (Some [ka; kb])
              = [update_team P A (om2 Phi Phiinv k P c A B, da); update_team P B (om2 Phi Phiinv k P c B A, db)]).
  { cbn [map]. rewrite rate_sorted_two. unfold A, B, c, rank2. destruct (key_leb ka kb).
    - cbn [fst snd]. destruct (compute_two Phi Phiinv k P (team_rating (map (inflate tau) ta) 0)
         (team_rating (map (inflate tau) tb) (if key_ltb ka kb then 1%nat else 0%nat)) (VA _) (VB _)) as [da [db Ec]].
      exists da, db. exact Ec.
    - cbn [fst snd]. destruct (compute_two Phi Phiinv k P (team_rating (map (inflate tau) tb) 0)
         (team_rating (map (inflate tau) ta) 1) (VB _) (VA _)) as [db [da Ec]].
      exists da, db. rewrite Ec.
      rewrite (c2_sym P (t_ss (team_rating (map (inflate tau) tb) 0)) (t_ss (team_rating (map (inflate tau) ta) 1))).
      reflexivity. }
  destruct F as [da [db F]]. exists da, db.
  assert (Hlen : Forall2 (fun (t r : list (rating R)) => length r = length t) [ta; tb]
                   (rate_sorted k P (map (map (inflate tau)) [ta; tb]) (Some [ka; kb]))).
  { rewrite F. repeat constructor; rewrite update_team_length; unfold A, B; cbn [t_team team_rating]; apply map_length. }
  pose proof (rate_core_mu_eq k P tau limit [ta; tb] (Some [ka; kb]) Hlen) as Hmu.
  rewrite F, E in Hmu. inversion Hmu as [|? ? ? ? H1 Hmu']; subst. inversion Hmu' as [|? ? ? ? H2 _]; subst.
  split; assumption.
Qed.

Lemma Forall2_mu_rel (Q : R -> R -> Prop) (l1 l2 l1' l2' : list (rating R)) :
  Forall2 (fun a b => Q (r_mu a) (r_mu b)) l1 l2 -> mu_eq l1 l1' -> mu_eq l2 l2' ->
  Forall2 (fun a b => Q (r_mu a) (r_mu b)) l1' l2'.
Proof.
  intros H. revert l1' l2'. induction H as [|a b l1 l2 Hab H IH]; intros l1' l2' E1 E2;
    inversion E1; inversion E2; subst; constructor; [congruence|auto].
Qed.

Lemma rank2_win ka kb : key_ltb ka kb = true -> rank2 ka kb = (0%nat, 1%nat).
Proof. intros H. unfold rank2. now rewrite (key_ltb_leb _ _ H), H. Qed.
Lemma rank2_draw ka kb : key_leb ka kb = true -> key_leb kb ka = true -> rank2 ka kb = (0%nat, 0%nat).
Proof. intros H1 H2. unfold rank2. rewrite H1, key_ltb_negb_leb, H2. reflexivity. Qed.
Lemma rank2_loss ka kb : key_ltb kb ka = true -> rank2 ka kb = (1%nat, 0%nat).
Proof. intros H. unfold rank2. rewrite key_leb_negb_ltb, H. reflexivity. Qed.

Theorem rate_two_team_order k P tau limit (ta tb : list (rating R)) kw kw' kd kd' kl kl' aw bl ad bd al bw :
  gf_if_tm Phi Phiinv k -> 0 < p_kappa P -> valid_game tau [ta; tb] ->
  key_ltb kw kw' = true -> key_leb kd kd' = true -> key_leb kd' kd = true -> key_ltb kl' kl = true ->
  rate_core k P tau limit [ta; tb] (Some [kw; kw']) = [aw; bl] ->
  rate_core k P tau limit [ta; tb] (Some [kd; kd']) = [ad; bd] ->
  rate_core k P tau limit [ta; tb] (Some [kl; kl']) = [al; bw] ->
  (Forall2 (fun x y => r_mu x <= r_mu y) al ad /\ Forall2 (fun x y => r_mu x <= r_mu y) ad aw
   /\ Forall2 (fun p0 x => r_mu x <= r_mu p0) ta al /\ Forall2 (fun p0 x => r_mu p0 <= r_mu x) ta aw)
  /\ (Forall2 (fun x y => r_mu x <= r_mu y) bl bd /\ Forall2 (fun x y => r_mu x <= r_mu y) bd bw
   /\ Forall2 (fun p0 x => r_mu x <= r_mu p0) tb bl /\ Forall2 (fun p0 x => r_mu p0 <= r_mu x) tb bw).
Proof.
  intros G Hk V Hw Hd1 Hd2 Hl Ew Ed El.
  pose proof (rate_two_form k P tau limit ta tb kw kw' aw bl V Ew) as Fw.
  pose proof (rate_two_form k P tau limit ta tb kd kd' ad bd V Ed) as Fd.
  pose proof (rate_two_form k P tau limit ta tb kl kl' al bw V El) as Fl.
  rewrite (rank2_win _ _ Hw) in Fw. rewrite (rank2_draw _ _ Hd1 Hd2) in Fd. rewrite (rank2_loss _ _ Hl) in Fl.
  cbn [fst snd] in Fw, Fd, Fl. unfold team_rating in Fw, Fd, Fl. cbn [t_ss] in Fw, Fd, Fl.
  set (ma := reduce_add (map r_mu (map (inflate tau) ta))) in *.
  set (sa := reduce_add (map (fun p => fpow2 (r_sigma p)) (map (inflate tau) ta))) in *.
  set (mb := reduce_add (map r_mu (map (inflate tau) tb))) in *.
  set (sb := reduce_add (map (fun p => fpow2 (r_sigma p)) (map (inflate tau) tb))) in *.
  set (ta' := map (inflate tau) ta) in *. set (tb' := map (inflate tau) tb) in *.
  assert (Ha : 0 < sa).
  { inversion V as [|? ? [H1 H2] _]; subst. apply (team_ss_pos tau ta 0 H1 H2). }
  assert (Hb : 0 < sb).
  { inversion V as [|? ? _ V']; subst. inversion V' as [|? ? [H1 H2] _]; subst. apply (team_ss_pos tau tb 0 H1 H2). }
  pose proof (c2_pos P sa sb Ha Hb) as Hc. remember (c2 P sa sb) as c eqn:Ecd. clear Ecd.
  destruct Fw as [d1 [d2 [Fw1 Fw2]]]. destruct Fd as [d3 [d4 [Fd1 Fd2]]]. destruct Fl as [d5 [d6 [Fl1 Fl2]]].
  destruct (om2_order Phi Phiinv k P c ma sa ta' mb sb tb' 0 1 0 1 0 G Ha Hb Hc Hk) as [A1 [A2 [A3 A4]]]; [lia|lia|].
  destruct (om2_order Phi Phiinv k P c mb sb tb' ma sa ta' 0 1 0 1 0 G Hb Ha Hc Hk) as [B1 [B2 [B3 B4]]]; [lia|lia|].
  split; (split; [|split; [|split]]).
  - eapply (Forall2_mu_rel Rle); [|exact Fl1|exact Fd1].
    apply update_team_mu_mono; [reflexivity|reflexivity|exact Ha|exact A1].
  - eapply (Forall2_mu_rel Rle); [|exact Fd1|exact Fw1].
    apply update_team_mu_mono; [reflexivity|reflexivity|exact Ha|exact A2].
  - apply (inflate_mu_le (fun u v => v <= u) tau). eapply (Forall2_mu_rel (fun u v => v <= u)); [|apply mu_eq_refl|exact Fl1].
    apply (update_team_mu_down Phi Phiinv P (mkT ma sa ta' 1)); [exact Ha|exact A3].
  - apply (inflate_mu_le Rle tau). eapply (Forall2_mu_rel Rle); [|apply mu_eq_refl|exact Fw1].
    apply (update_team_mu_up Phi Phiinv P (mkT ma sa ta' 0)); [exact Ha|exact A4].
  - eapply (Forall2_mu_rel Rle); [|exact Fw2|exact Fd2].
    apply update_team_mu_mono; [reflexivity|reflexivity|exact Hb|exact B1].
  - eapply (Forall2_mu_rel Rle); [|exact Fd2|exact Fl2].
    apply update_team_mu_mono; [reflexivity|reflexivity|exact Hb|exact B2].
  - apply (inflate_mu_le (fun u v => v <= u) tau). eapply (Forall2_mu_rel (fun u v => v <= u)); [|apply mu_eq_refl|exact Fw2].
    apply (update_team_mu_down Phi Phiinv P (mkT mb sb tb' 1)); [exact Hb|exact B3].
  - apply (inflate_mu_le Rle tau). eapply (Forall2_mu_rel Rle); [|apply mu_eq_refl|exact Fl2].
    apply (update_team_mu_up Phi Phiinv P (mkT mb sb tb' 0)); [exact Hb|exact B4].
Qed.

Lemma team_mu_inflate tau (t : list (rating R)) r :
  t_mu (team_rating (map (inflate tau) t) r) = Rsum (map r_mu t).
Proof. unfold team_rating. cbn [t_mu]. rewrite (R_reduce_add Phi Phiinv), map_map. reflexivity. Qed.

Theorem rate_draw_direction_plbt k P tau limit (ta tb : list (rating R)) kd kd' ad bd :
  k = PL \/ k = BTF \/ k = BTP -> valid_game tau [ta; tb] ->
  key_leb kd kd' = true -> key_leb kd' kd = true ->
  Rsum (map r_mu tb) <= Rsum (map r_mu ta) ->
  rate_core k P tau limit [ta; tb] (Some [kd; kd']) = [ad; bd] ->
  Forall2 (fun p0 x => r_mu x <= r_mu p0) ta ad /\ Forall2 (fun p0 x => r_mu p0 <= r_mu x) tb bd.
Proof.
  intros Hk V Hd1 Hd2 Hm Ed.
  pose proof (rate_two_form k P tau limit ta tb kd kd' ad bd V Ed) as Fd.
  rewrite (rank2_draw _ _ Hd1 Hd2) in Fd. cbn [fst snd] in Fd.
  rewrite <- (team_mu_inflate tau ta 0), <- (team_mu_inflate tau tb 0) in Hm.
  unfold team_rating in Fd, Hm. cbn [t_ss t_mu] in Fd, Hm.
  set (ma := reduce_add (map r_mu (map (inflate tau) ta))) in *.
  set (sa := reduce_add (map (fun p => fpow2 (r_sigma p)) (map (inflate tau) ta))) in *.
  set (mb := reduce_add (map r_mu (map (inflate tau) tb))) in *.
  set (sb := reduce_add (map (fun p => fpow2 (r_sigma p)) (map (inflate tau) tb))) in *.
  set (ta' := map (inflate tau) ta) in *. set (tb' := map (inflate tau) tb) in *.
  assert (Ha : 0 < sa).
  { inversion V as [|? ? [H1 H2] _]; subst. apply (team_ss_pos tau ta 0 H1 H2). }
  assert (Hb : 0 < sb).
  { inversion V as [|? ? _ V']; subst. inversion V' as [|? ? [H1 H2] _]; subst. apply (team_ss_pos tau tb 0 H1 H2). }
  pose proof (c2_pos P sa sb Ha Hb) as Hc. remember (c2 P sa sb) as c eqn:Ecd. clear Ecd.
  destruct Fd as [d3 [d4 [Fd1 Fd2]]].
  destruct (om2_draw_plbt Phi Phiinv k P c ma sa ta' mb sb tb' 0 Hk Ha Hb Hc Hm) as [A B]. split.
  - apply (inflate_mu_le (fun u v => v <= u) tau). eapply (Forall2_mu_rel (fun u v => v <= u)); [|apply mu_eq_refl|exact Fd1].
    apply (update_team_mu_down Phi Phiinv P (mkT ma sa ta' 0)); [exact Ha|exact A].
  - apply (inflate_mu_le Rle tau). eapply (Forall2_mu_rel Rle); [|apply mu_eq_refl|exact Fd2].
    apply (update_team_mu_up Phi Phiinv P (mkT mb sb tb' 0)); [exact Hb|exact B].
Qed.

Lemma Forall2_mu_r (Q : rating R -> R -> Prop) (l l2 l2' : list (rating R)) :
  Forall2 (fun a b => Q a (r_mu b)) l l2 -> mu_eq l2 l2' -> Forall2 (fun a b => Q a (r_mu b)) l l2'.
Proof.
  intros H. revert l2'. induction H as [|a b l l2 Hab H IH]; intros l2' E2; inversion E2; subst; constructor;
    [congruence|auto].
Qed.

Theorem rate_draw_direction_tm (two_c : bool) k P tau limit (ta tb : list (rating R)) kd kd' ad bd :
  GaussFacts Phi Phiinv -> k = (if two_c then TMP else TMF) -> 0 < p_kappa P -> valid_game tau [ta; tb] ->
  key_leb kd kd' = true -> key_leb kd' kd = true ->
  Rsum (map r_mu tb) <= Rsum (map r_mu ta) ->
  rate_core k P tau limit [ta; tb] (Some [kd; kd']) = [ad; bd] ->
  let sa := t_ss (team_rating (map (inflate tau) ta) 0) in
  let sb := t_ss (team_rating (map (inflate tau) tb) 0) in
  let cc := (if two_c then 2 * sqrt (sa + sb + 2 * (p_beta P * p_beta P)) else sqrt (sa + sb + 2 * (p_beta P * p_beta P))) in
  Forall2 (fun p0 x => r_mu x <= r_mu p0 + r_sigma (inflate tau p0) * r_sigma (inflate tau p0) / sa * (sa / cc * (p_kappa P / cc))) ta ad
  /\ Forall2 (fun p0 x => r_mu p0 + r_sigma (inflate tau p0) * r_sigma (inflate tau p0) / sb * - (sb / cc * (p_kappa P / cc)) <= r_mu x) tb bd.
Proof.
  intros GF Hk Hkap V Hd1 Hd2 Hm Ed sa0 sb0.
  pose proof (rate_two_form k P tau limit ta tb kd kd' ad bd V Ed) as Fd.
  rewrite (rank2_draw _ _ Hd1 Hd2) in Fd. cbn [fst snd] in Fd.
  rewrite <- (team_mu_inflate tau ta 0), <- (team_mu_inflate tau tb 0) in Hm.
  unfold team_rating in Fd, Hm, sa0, sb0. cbn [t_ss t_mu] in Fd, Hm, sa0, sb0. subst sa0 sb0.
  set (ma := reduce_add (map r_mu (map (inflate tau) ta))) in *.
  set (sa := reduce_add (map (fun p => fpow2 (r_sigma p)) (map (inflate tau) ta))) in *.
  set (mb := reduce_add (map r_mu (map (inflate tau) tb))) in *.
  set (sb := reduce_add (map (fun p => fpow2 (r_sigma p)) (map (inflate tau) tb))) in *.
  set (ta' := map (inflate tau) ta) in *. set (tb' := map (inflate tau) tb) in *.
  intros cc.
  assert (Ha : 0 < sa).
  { inversion V as [|? ? [H1 H2] _]; subst. apply (team_ss_pos tau ta 0 H1 H2). }
  assert (Hb : 0 < sb).
  { inversion V as [|? ? _ V']; subst. inversion V' as [|? ? [H1 H2] _]; subst. apply (team_ss_pos tau tb 0 H1 H2). }
  remember (c2 P sa sb) as c eqn:Ecd. clear Ecd.
  destruct Fd as [d3 [d4 [Fd1 Fd2]]].
  destruct (om2_draw_tm Phi Phiinv two_c k P c ma sa ta' mb sb tb' 0 GF Hk Ha Hb Hkap Hm) as [A B].
  change (OmegaL.tm_c Phi Phiinv two_c P (mkT ma sa ta' 0) (mkT mb sb tb' 0)) with cc in A, B. split.
  - apply (proj2 (Forall2_map_l (inflate tau)
        (fun (p0 x : rating R) => r_mu x <= r_mu p0 + r_sigma p0 * r_sigma p0 / sa * (sa / cc * (p_kappa P / cc))) ta ad)).
    eapply (Forall2_mu_r (fun p0 u => u <= r_mu p0 + r_sigma p0 * r_sigma p0 / sa * (sa / cc * (p_kappa P / cc)))); [|exact Fd1].
    apply (update_team_mu_ub Phi Phiinv P (mkT ma sa ta' 0)); [exact Ha|exact A].
  - apply (proj2 (Forall2_map_l (inflate tau)
        (fun (p0 x : rating R) => r_mu p0 + r_sigma p0 * r_sigma p0 / sb * - (sb / cc * (p_kappa P / cc)) <= r_mu x) tb bd)).
    eapply (Forall2_mu_r (fun p0 u => r_mu p0 + r_sigma p0 * r_sigma p0 / sb * - (sb / cc * (p_kappa P / cc)) <= u)); [|exact Fd2].
    apply (update_team_mu_lb Phi Phiinv P (mkT mb sb tb' 0)); [exact Hb|exact B].
Qed.

(** ** explicit rank values, any number of teams: first alone / last alone *)
Lemma rate_some_nth k P (teams : list (list (rating R))) ks i ki t res :
  length ks = length teams -> nth_error ks i = Some ki -> nth_error teams i = Some t ->
  nth_error (rate_sorted k P teams (Some ks)) i = Some res ->
  exists p, nth_error (isort key_leb ks) p = Some ki
         /\ nth_error (fst (unwind key_leb ks teams)) p = Some t
         /\ nth_error (compute k P (sorted_trs teams ks)) p = Some res.
Proof.
  intros L Ek Et Er. destruct (rate_sorted_some k P teams ks L) as [_ Pm].
  pose proof (nth_error_combine _ _ _ _ _ (nth_error_combine _ _ _ _ _ Ek Et) Er) as E.
  apply nth_error_In in E. apply (Permutation_in _ Pm) in E. apply In_nth_error in E. destruct E as [p Ep].
  apply nth_error_combine_inv in Ep. destruct Ep as [Ep1 Ep3]. apply nth_error_combine_inv in Ep1. destruct Ep1 as [Ep1 Ep2].
  exists p. auto.
Qed.

Lemma sorted_game_in (teams : list (list (rating R))) ks t :
  length ks = length teams -> In t (fst (unwind key_leb ks teams)) -> In t teams.
Proof.
  intros L Hin. pose proof (unwind_perm key_leb ks teams L) as Pm.
  apply (Permutation_map snd) in Pm. rewrite !combine_map_snd in Pm.
  - eapply Permutation_in; [symmetry; exact Pm|exact Hin].
  - rewrite isort_length, unwind_fst_length; auto.
  - exact L.
Qed.

Lemma sorted_trs_ss tau (teams : list (list (rating R))) ks : length ks = length teams -> valid_game tau teams ->
  Forall (fun t => 0 < t_ss t) (sorted_trs (map (map (inflate tau)) teams) ks).
Proof.
  intros L V. unfold sorted_trs, sorted_game, team_ratings. cbn [fst snd]. rewrite Forall_forall. intros x Hx.
  apply in_map_iff in Hx. destruct Hx as [[t' r] [<- Hin]]. cbn [fst snd]. pose proof (in_combine_l _ _ _ _ Hin) as Ht.
  apply sorted_game_in in Ht; [|now rewrite map_length].
  apply in_map_iff in Ht. destruct Ht as [t [<- Ht]]. unfold valid_game in V. rewrite Forall_forall in V.
  destruct (V t Ht) as [Hne Hp]. now apply team_ss_pos.
Qed.

Lemma sorted_trs_nth (teams : list (list (rating R))) ks q tq : length ks = length teams ->
  nth_error (sorted_trs teams ks) q = Some tq ->
  exists kq t r, nth_error (isort key_leb ks) q = Some kq
    /\ nth_error (fst (unwind key_leb ks teams)) q = Some t
    /\ nth_error (calc_rankings key_ltb (isort key_leb ks)) q = Some r
    /\ tq = team_rating t r.
Proof.
  intros L E. unfold sorted_trs, sorted_game, team_ratings in E. cbn [fst snd] in E.
  rewrite nth_error_map in E. destruct (nth_error (combine _ _) q) as [[t r]|] eqn:Ec; [|discriminate].
  cbn in E. injection E as <-. apply nth_error_combine_inv in Ec. destruct Ec as [E1 E2].
  assert (Hq : (q < length ks)%nat).
  { rewrite <- (isort_length key_leb ks), <- (calc_rankings_length key_ltb). apply nth_error_Some. congruence. }
  destruct (nth_error (isort key_leb ks) q) as [kq|] eqn:Ek; [|apply nth_error_None in Ek; rewrite isort_length in Ek; lia].
  exists kq, t, r. auto.
Qed.

Lemma rate_sorted_lengths k P tau (teams : list (list (rating R))) keys :
  match keys with Some ks => length ks = length teams | None => True end ->
  Forall2 (fun (t r : list (rating R)) => length r = length t) teams (rate_sorted k P (map (map (inflate tau)) teams) keys).
Proof.
  intros L.
  assert (H : Forall2 (fun (t r : list (rating R)) => length r = length t) (map (map (inflate tau)) teams)
                (rate_sorted k P (map (map (inflate tau)) teams) keys)).
  { apply rate_sorted_pointwise; [destruct keys; [now rewrite map_length|exact I]|].
    intros trs. apply Forall2_map_l. eapply Forall2_weaken; [|apply compute_shape].
    intros ti r [od ->]. apply update_team_length. }
  apply Forall2_map_l in H. eapply Forall2_weaken; [|exact H]. intros a b Hab. cbn in Hab. now rewrite map_length in Hab.
Qed.

Lemma rate_some_alone (first : bool) k P tau limit (teams : list (list (rating R))) ks i ki t res :
  gf_if_tm Phi Phiinv k -> valid_game tau teams -> Forall key_wf ks -> length ks = length teams ->
  nth_error ks i = Some ki -> nth_error teams i = Some t ->
  (forall q kq, q <> i -> nth_error ks q = Some kq -> (if first then key_ltb ki kq else key_ltb kq ki) = true) ->
  nth_error (rate_core k P tau limit teams (Some ks)) i = Some res ->
  Forall2 (fun p p' => if first then r_mu p <= r_mu p' else r_mu p' <= r_mu p) t res.
Proof.
  intros G V W L Ek Et Halone Er.
  pose proof (rate_sorted_lengths k P tau teams (Some ks) L) as Hlen.
  pose proof (rate_core_mu_eq k P tau limit teams (Some ks) Hlen) as Hmu.
  assert (Li : (i < length teams)%nat) by (apply nth_error_Some; congruence).
  destruct (nth_error (rate_sorted k P (map (map (inflate tau)) teams) (Some ks)) i) as [res0|] eqn:E0.
  2:{ apply nth_error_None in E0. apply Forall2_length' in Hlen. lia. }
  pose proof (Forall2_nth _ _ _ _ _ _ Hmu E0 Er) as Hmu0.
  assert (L' : length ks = length (map (map (inflate tau)) teams)) by now rewrite map_length.
  destruct (rate_some_nth k P _ ks i ki _ res0 L' Ek (map_nth_error (map (inflate tau)) _ _ Et) E0) as [p [Ep1 [Ep2 Ep3]]].
  set (teams' := map (map (inflate tau)) teams) in *.
  assert (Lp : (p < length ks)%nat) by (rewrite <- (isort_length key_leb ks); apply nth_error_Some; congruence).
  destruct (nth_error (calc_rankings key_ltb (isort key_leb ks)) p) as [rp|] eqn:Erp.
  2:{ apply nth_error_None in Erp. rewrite calc_rankings_length, isort_length in Erp. lia. }
  assert (Etp : nth_error (sorted_trs teams' ks) p = Some (team_rating (map (inflate tau) t) rp)).
  { unfold sorted_trs, sorted_game. cbn [fst snd]. now apply team_ratings_nth. }
  pose proof (sorted_trs_ss tau teams ks L V) as Hss. fold teams' in Hss.
  (* every other position of the sorted game holds a key strictly on the other side of [ki] *)
  set (f := fun kq : key => negb (if first then key_ltb ki kq else key_ltb kq ki)).
  assert (Hf1 : length (filter f (isort key_leb ks)) = 1%nat).
  { rewrite <- (filter_length_perm f _ _ (isort_perm key_leb ks)).
    rewrite (filter_single f ks i ki Ek); [reflexivity| |].
    - unfold f. destruct first; now rewrite key_ltb_irrefl.
    - intros q kq Hq Eq. unfold f. now rewrite (Halone q kq Hq Eq). }
  assert (Hother : forall q kq, q <> p -> nth_error (isort key_leb ks) q = Some kq ->
             (if first then key_ltb ki kq else key_ltb kq ki) = true).
  { intros q kq Hq Eq. destruct (if first then key_ltb ki kq else key_ltb kq ki) eqn:Ef; [reflexivity|exfalso].
    assert (2 <= length (filter f (isort key_leb ks)))%nat; [|lia].
    apply (filter_two f _ p q ki kq); auto; unfold f.
    - destruct first; now rewrite key_ltb_irrefl.
    - now rewrite Ef. }
  assert (Hranks : forall q tq, q <> p -> nth_error (sorted_trs teams' ks) q = Some tq ->
             if first then (rp < t_rank tq)%nat else (t_rank tq < rp)%nat).
  { intros q tq Hq Eq. destruct (sorted_trs_nth teams' ks q tq L' Eq) as [kq [tt [r [Eq1 [Eq2 [Eq3 ->]]]]]].
    cbn [t_rank team_rating]. specialize (Hother q kq Hq Eq1).
    destruct first.
    - destruct (key_rankings_spec ks W p q ki kq rp r Ep1 Eq1 Erp Eq3) as [H1 _]. now apply H1.
    - destruct (key_rankings_spec ks W q p kq ki r rp Eq1 Ep1 Eq3 Erp) as [H1 _]. now apply H1. }
  destruct first.
  - pose proof (first_alone Phi Phiinv k P _ p _ res0 G Hss Etp) as H. cbn [t_team team_rating t_rank] in H.
    assert (H' : Forall2 (fun p p' => r_mu p <= r_mu p') (map (inflate tau) t) res0) by (apply H; [exact Hranks|exact Ep3]).
    apply (inflate_mu_le Rle) in H'. eapply Forall2_trans'; [|exact H'|exact Hmu0]. intros a b c Hab Hbc. cbn in *. lra.
  - pose proof (last_alone Phi Phiinv k P _ p _ res0 G Hss Etp) as H. cbn [t_team team_rating t_rank] in H.
    assert (H' : Forall2 (fun p p' => r_mu p' <= r_mu p) (map (inflate tau) t) res0) by (apply H; [exact Hranks|exact Ep3]).
    apply (inflate_mu_le (fun x y => y <= x)) in H'. eapply Forall2_trans'; [|exact H'|exact Hmu0].
    intros a b c Hab Hbc. cbn in *. lra.
Qed.

(** ** identical teams, no rank values (finishing order = input order, no ties) *)
Lemma none_trs_nodup tau (teams : list (list (rating R))) :
  NoDup (map t_rank (team_ratings (map (map (inflate tau)) teams) (seq 0 (length teams)))).
Proof.
  replace (map t_rank (team_ratings (map (map (inflate tau)) teams) (seq 0 (length teams)))) with (seq 0 (length teams));
    [apply seq_NoDup|].
  unfold team_ratings. rewrite map_map. cbn [t_rank team_rating].
  rewrite <- (map_map snd (fun x => x)), map_id. symmetry. apply combine_map_snd. now rewrite !map_length, seq_length.
Qed.

Lemma rate_identical_none k P tau limit (teams : list (list (rating R))) i j t resi resj :
  gf_if_tm Phi Phiinv k -> full_kind k -> 0 < p_kappa P -> valid_game tau teams ->
  (i < j)%nat -> nth_error teams i = Some t -> nth_error teams j = Some t ->
  nth_error (rate_core k P tau limit teams None) i = Some resi ->
  nth_error (rate_core k P tau limit teams None) j = Some resj ->
  Forall2 (fun pj pi => r_mu pj <= r_mu pi) resj resi.
Proof.
  intros G Hk Hkap V Hij Eti Etj Eri Erj.
  destruct (rate_none_nth k P tau limit teams i t resi Eti Eri) as [ri0 [Ei0 [Etri Hmui]]].
  destruct (rate_none_nth k P tau limit teams j t resj Etj Erj) as [rj0 [Ej0 [Etrj Hmuj]]].
  pose proof (identical_ordered Phi Phiinv k P _ i _ j _ ri0 rj0 G Hk (none_trs_nodup tau teams)
                (none_trs_ss tau teams _ (seq_length _ _) V) Hkap Etri Etrj) as H.
  cbn [t_mu t_ss t_team t_rank team_rating] in H.
  eapply (Forall2_mu_rel Rle); [|exact Hmuj|exact Hmui]. apply H; auto.
Qed.

End C05Rate.

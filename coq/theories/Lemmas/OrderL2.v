(** * OrderL2: order laws of rank keys, the meaning of the dense rankings computed by
    [calc_rankings] on a sorted list, and what [isort] / [unwind] / [calc_rankings] do on
    lists that are already sorted or that have the same comparison matrix.
    Polymorphic, no axioms. *)
From Coq Require Import List Arith Bool Lia Permutation Sorted ZArith.
From OSV Require Import Order.
From OSV.Lemmas Require Import OrderL.
Import ListNotations.

(** ** order laws of keys [num / 2^k] *)
Definition key_wf (k : key) : Prop := (0 <= snd k)%Z.

Lemma key_leb_total a b : key_leb a b = true \/ key_leb b a = true.
Proof.
  unfold key_leb. destruct (Z.leb_spec (fst a * 2 ^ snd b) (fst b * 2 ^ snd a)) as [Hl|Hl]; [now left|right].
  apply Z.leb_le. lia.
Qed.
Lemma key_leb_refl a : key_leb a a = true.
Proof. unfold key_leb. apply Z.leb_refl. Qed.
Lemma key_ltb_negb_leb a b : key_ltb a b = negb (key_leb b a).
Proof. unfold key_ltb, key_leb. apply Z.ltb_antisym. Qed.
Lemma key_leb_negb_ltb a b : key_leb a b = negb (key_ltb b a).
Proof. unfold key_ltb, key_leb. apply Z.leb_antisym. Qed.
Lemma key_ltb_leb a b : key_ltb a b = true -> key_leb a b = true.
Proof. unfold key_ltb, key_leb. rewrite Z.ltb_lt, Z.leb_le. lia. Qed.
Lemma key_ltb_irrefl a : key_ltb a a = false.
Proof. unfold key_ltb. apply Z.ltb_irrefl. Qed.

(** transitivity needs the middle key to be well formed ([2^k > 0]) *)
Lemma key_leb_trans a b c : key_wf b ->
  key_leb a b = true -> key_leb b c = true -> key_leb a c = true.
Proof.
  unfold key_wf, key_leb. rewrite !Z.leb_le. intros Hb H1 H2.
  assert (Pb : (0 < 2 ^ snd b)%Z) by (apply Z.pow_pos_nonneg; lia).
  assert (Pa : (0 <= 2 ^ snd a)%Z) by (apply Z.pow_nonneg; lia).
  assert (Pc : (0 <= 2 ^ snd c)%Z) by (apply Z.pow_nonneg; lia).
  revert Pa Pb Pc H1 H2.
  generalize (2 ^ snd a)%Z (2 ^ snd b)%Z (2 ^ snd c)%Z (fst a) (fst b) (fst c).
  intros pa pb pc na nb nc Pa Pb Pc H1 H2.
  apply (Zmult_le_reg_r _ _ pb); [lia|].
  apply Z.le_trans with (nb * pa * pc)%Z; nia.
Qed.
Lemma key_ltb_trans a b c : key_wf a -> key_wf b -> key_wf c ->
  key_ltb a b = true -> key_ltb b c = true -> key_ltb a c = true.
Proof.
  unfold key_wf, key_ltb. rewrite !Z.ltb_lt. intros Ha Hb Hc H1 H2.
  assert (Pb : (0 < 2 ^ snd b)%Z) by (apply Z.pow_pos_nonneg; lia).
  assert (Pa : (0 < 2 ^ snd a)%Z) by (apply Z.pow_pos_nonneg; lia).
  assert (Pc : (0 < 2 ^ snd c)%Z) by (apply Z.pow_pos_nonneg; lia).
  revert Pa Pb Pc H1 H2.
  generalize (2 ^ snd a)%Z (2 ^ snd b)%Z (2 ^ snd c)%Z (fst a) (fst b) (fst c).
  intros pa pb pc na nb nc Pa Pb Pc H1 H2.
  apply (Zmult_lt_reg_r _ _ pb); [lia|].
  apply Z.lt_trans with (nb * pa * pc)%Z; nia.
Qed.

(** negation ([_unary_minus], scores) reverses the order *)
Lemma key_neg_wf a : key_wf a -> key_wf (key_neg a).
Proof. exact (fun H => H). Qed.
Lemma key_leb_neg a b : key_leb (key_neg a) (key_neg b) = key_leb b a.
Proof.
  unfold key_leb, key_neg. cbn [fst snd].
  destruct (Z.leb_spec (- fst a * 2 ^ snd b) (- fst b * 2 ^ snd a));
  destruct (Z.leb_spec (fst b * 2 ^ snd a) (fst a * 2 ^ snd b)); try reflexivity; lia.
Qed.
Lemma key_ltb_neg a b : key_ltb (key_neg a) (key_neg b) = key_ltb b a.
Proof. now rewrite !key_ltb_negb_leb, key_leb_neg. Qed.
Lemma key_neg_involutive a : key_neg (key_neg a) = a.
Proof. destruct a as [n k]. unfold key_neg. cbn. now rewrite Z.opp_involutive. Qed.

(** natural numbers as keys: [0,1,..,n-1] *)
Lemma key_of_nat_wf n : key_wf (key_of_nat n).
Proof. unfold key_wf, key_of_nat. cbn. lia. Qed.
Lemma key_leb_of_nat a b : key_leb (key_of_nat a) (key_of_nat b) = Nat.leb a b.
Proof.
  unfold key_leb, key_of_nat. cbn [fst snd]. rewrite Z.pow_0_r, !Z.mul_1_r.
  destruct (Nat.leb_spec a b); [apply Z.leb_le | apply Z.leb_gt]; lia.
Qed.
Lemma key_ltb_of_nat a b : key_ltb (key_of_nat a) (key_of_nat b) = Nat.ltb a b.
Proof.
  unfold key_ltb, key_of_nat. cbn [fst snd]. rewrite Z.pow_0_r, !Z.mul_1_r.
  destruct (Nat.ltb_spec a b); [apply Z.ltb_lt | apply Z.ltb_ge]; lia.
Qed.

(** ** small list facts *)
Lemma filter_all_true {A} (p : A -> bool) l : (forall y, In y l -> p y = true) -> filter p l = l.
Proof. induction l as [|x l IH]; intros Hp; cbn; [reflexivity|].
  rewrite (Hp x (or_introl eq_refl)). f_equal. apply IH. intros; apply Hp; now right. Qed.
Lemma filter_all_false {A} (p : A -> bool) l : (forall y, In y l -> p y = false) -> filter p l = [].
Proof. induction l as [|x l IH]; intros Hp; cbn; [reflexivity|].
  rewrite (Hp x (or_introl eq_refl)). apply IH. intros; apply Hp; now right. Qed.
Lemma filter_length_le_impl {A} (p q : A -> bool) l :
  (forall z, In z l -> p z = true -> q z = true) -> length (filter p l) <= length (filter q l).
Proof.
  induction l as [|z l IH]; intros Hpq; cbn; [lia|].
  assert (IH' : length (filter p l) <= length (filter q l)) by (apply IH; intros; apply Hpq; auto; now right).
  destruct (p z) eqn:Ep.
  - rewrite (Hpq z (or_introl eq_refl) Ep). cbn. lia.
  - destruct (q z); cbn; lia.
Qed.
Lemma filter_length_lt_impl {A} (p q : A -> bool) l w :
  (forall z, In z l -> p z = true -> q z = true) -> In w l -> p w = false -> q w = true ->
  length (filter p l) < length (filter q l).
Proof.
  induction l as [|z l IH]; intros Hpq Hw Pw Qw; [destruct Hw|].
  assert (Hpq' : forall z0, In z0 l -> p z0 = true -> q z0 = true) by (intros; apply Hpq; auto; now right).
  cbn. destruct Hw as [->|Hw].
  - rewrite Pw, Qw. cbn. pose proof (filter_length_le_impl p q l Hpq'). lia.
  - specialize (IH Hpq' Hw Pw Qw). destruct (p z) eqn:Ep.
    + rewrite (Hpq z (or_introl eq_refl) Ep). cbn. lia.
    + destruct (q z); cbn; lia.
Qed.
Lemma filter_length_perm {A} (p : A -> bool) l l' :
  Permutation l l' -> length (filter p l) = length (filter p l').
Proof.
  induction 1 as [|x l l' P IH|x y l|l l' l'' P1 IH1 P2 IH2]; cbn.
  - reflexivity.
  - destruct (p x); cbn; congruence.
  - destruct (p x), (p y); reflexivity.
  - congruence.
Qed.
Lemma StronglySorted_app_inv {A} (R : A -> A -> Prop) a b :
  StronglySorted R (a ++ b) ->
  StronglySorted R a /\ StronglySorted R b /\ (forall x y, In x a -> In y b -> R x y).
Proof.
  induction a as [|z a IH]; cbn; intros S.
  - repeat split; [constructor|assumption|intros x y []].
  - inversion S as [|? ? S' F]; subst. destruct (IH S') as [Sa [Sb Hab]].
    rewrite Forall_forall in F. repeat split.
    + constructor; [assumption|]. rewrite Forall_forall. intros y Hy. apply F, in_or_app. now left.
    + assumption.
    + intros x y [<-|Hx] Hy; [apply F, in_or_app; now right | now apply Hab].
Qed.
Lemma StronglySorted_cons_inv {A} (R : A -> A -> Prop) x l :
  StronglySorted R (x :: l) -> StronglySorted R l /\ (forall y, In y l -> R x y).
Proof. intros S. inversion S as [|? ? S' F]; subst. rewrite Forall_forall in F. auto. Qed.
Lemma nth_error_In' {A} (l : list A) i x : nth_error l i = Some x -> In x l.
Proof. apply nth_error_In. Qed.

(** ** stable insertion sort on a domain [D] where the comparison is a total preorder *)
Section SortOn.
Context {A : Type} (leb : A -> A -> bool) (D : A -> Prop).
Hypothesis total : forall a b, D a -> D b -> leb a b = true \/ leb b a = true.
Hypothesis trans : forall a b c, D a -> D b -> D c -> leb a b = true -> leb b c = true -> leb a c = true.

Lemma insert_sorted_on x l : D x -> Forall D l ->
  StronglySorted (fun a b => leb a b = true) l ->
  StronglySorted (fun a b => leb a b = true) (insert leb x l).
Proof.
  intros Dx Dl S. induction S as [|y ys S IH Fy]; cbn; [repeat constructor|].
  inversion Dl as [|? ? Dy Dys]; subst. specialize (IH Dys).
  rewrite Forall_forall in Fy, Dys.
  destruct (leb x y) eqn:E.
  - constructor; [now constructor; [|rewrite Forall_forall]|]. constructor; [exact E|].
    rewrite Forall_forall. intros z Hz. apply (trans x y z); auto.
  - constructor; [exact IH|]. rewrite Forall_forall. intros z Hz.
    apply (Permutation_in _ (Permutation_sym (insert_perm leb x ys))) in Hz. destruct Hz as [<-|Hz].
    + destruct (total x y Dx Dy) as [H|H]; congruence.
    + now apply Fy.
Qed.
Lemma isort_sorted_on l : Forall D l -> StronglySorted (fun a b => leb a b = true) (isort leb l).
Proof.
  induction l as [|x xs IH]; intros Dl; [constructor|]. inversion Dl as [|? ? Dx Dxs]; subst.
  rewrite isort_cons. apply insert_sorted_on; auto.
  rewrite Forall_forall in *. intros z Hz. apply Dxs. now apply isort_in in Hz.
Qed.
End SortOn.

(** sorting an already (weakly) sorted list changes nothing: no law on [leb] is needed *)
Lemma isort_sorted_id {A} (leb : A -> A -> bool) l :
  StronglySorted (fun a b => leb a b = true) l -> isort leb l = l.
Proof.
  induction 1 as [|x xs S IH Fx]; [reflexivity|]. rewrite isort_cons, IH.
  destruct xs as [|y ys]; [reflexivity|]. cbn. inversion Fx as [|? ? Hxy _]; subst. now rewrite Hxy.
Qed.

Lemma combine_sorted_fst {K B} (R : K -> K -> Prop) (ks : list K) (ys : list B) :
  StronglySorted R ks -> StronglySorted (fun a b => R (fst a) (fst b)) (combine ks ys).
Proof.
  intros S. revert ys. induction S as [|k ks S IH Fk]; intros [|y ys]; cbn; try constructor.
  - apply IH.
  - rewrite Forall_forall in *. intros [k' y'] Hin. cbn. apply Fk. eapply in_combine_l; exact Hin.
Qed.
Lemma map_fst_snd_combine3 {K A B} (ks : list K) (xs : list A) (ns : list B) :
  length ks = length xs -> length ns = length xs ->
  map (fun e : K * (A * B) => fst (snd e)) (combine ks (combine xs ns)) = xs /\
  map (fun e : K * (A * B) => snd (snd e)) (combine ks (combine xs ns)) = ns.
Proof.
  revert ks ns. induction xs as [|x xs IH]; intros [|k ks] [|n ns] E1 E2; cbn in *; try discriminate; [auto|].
  destruct (IH ks ns) as [H1 H2]; [congruence|congruence|]. split; f_equal; assumption.
Qed.

(** [unwind] by keys that are already in (weak) order: the objects stay put *)
Lemma unwind_sorted_id {K A} (kleb : K -> K -> bool) (ks : list K) (xs : list A) :
  length ks = length xs -> StronglySorted (fun a b => kleb a b = true) ks ->
  unwind kleb ks xs = (xs, seq 0 (length xs)).
Proof.
  intros E S. unfold unwind. rewrite isort_sorted_id.
  - destruct (map_fst_snd_combine3 ks xs (seq 0 (length xs)) E (seq_length _ _)) as [-> ->]. reflexivity.
  - unfold tag_leb. apply (combine_sorted_fst (fun a b => kleb a b = true)). exact S.
Qed.

Lemma seq_sorted_leb s n : StronglySorted (fun a b => Nat.leb a b = true) (seq s n).
Proof.
  revert s; induction n as [|n IH]; intros s; cbn; constructor; [apply IH|].
  rewrite Forall_forall. intros z Hz. apply in_seq in Hz. apply Nat.leb_le. lia.
Qed.
Lemma key_of_nat_seq_sorted s n :
  StronglySorted (fun a b => key_leb a b = true) (map key_of_nat (seq s n)).
Proof.
  apply StronglySorted_map. revert s; induction n as [|n IH]; intros s; cbn; constructor; [apply IH|].
  rewrite Forall_forall. intros z Hz. apply in_seq in Hz. rewrite key_leb_of_nat. apply Nat.leb_le. lia.
Qed.
Lemma key_of_nat_seq_increasing s n :
  StronglySorted (fun a b => key_ltb a b = true) (map key_of_nat (seq s n)).
Proof.
  apply StronglySorted_map. revert s; induction n as [|n IH]; intros s; cbn; constructor; [apply IH|].
  rewrite Forall_forall. intros z Hz. apply in_seq in Hz. rewrite key_ltb_of_nat. apply Nat.ltb_lt. lia.
Qed.

(** ** [unwind] and [calc_rankings] only look at comparison results *)
Section RankRel.
Context {K K' : Type} (ltb : K -> K -> bool) (ltb' : K' -> K' -> bool) (Q : K -> K' -> Prop).
Hypothesis Hlt : forall x x' y y', Q x x' -> Q y y' -> ltb x y = ltb' x' y'.
Lemma calc_rankings_aux_rel p p' s i l l' : Q p p' -> Forall2 Q l l' ->
  calc_rankings_aux ltb p s i l = calc_rankings_aux ltb' p' s i l'.
Proof.
  intros Hp H. revert p p' s i Hp. induction H as [|x x' l l' Hx H IH]; intros p p' s i Hp; cbn; [reflexivity|].
  rewrite (Hlt p p' x x' Hp Hx). f_equal. now apply IH.
Qed.
Lemma calc_rankings_rel l l' : Forall2 Q l l' -> calc_rankings ltb l = calc_rankings ltb' l'.
Proof. intros H. destruct H as [|x x' xs xs' Hx H]; cbn; [reflexivity|]. f_equal. now apply calc_rankings_aux_rel. Qed.
End RankRel.

Lemma Forall2_map_in {A B} (f : A -> B) (l : list A) : Forall2 (fun b a => b = f a /\ In a l) (map f l) l.
Proof.
  enough (G : forall l0, (forall a, In a l0 -> In a l) -> Forall2 (fun b a => b = f a /\ In a l) (map f l0) l0)
    by (apply G; auto).
  induction l0 as [|a l0 IH]; intros Hin; cbn; constructor.
  - split; [reflexivity|]. apply Hin. now left.
  - apply IH. intros; apply Hin. now right.
Qed.

(** ranking the images under [f] with [ltb] is ranking the originals with the pulled-back comparison *)
Lemma calc_rankings_ext {K K'} (ltb : K' -> K' -> bool) (ltb' : K -> K -> bool) (f : K -> K') l :
  (forall a b, In a l -> In b l -> ltb' a b = ltb (f a) (f b)) ->
  calc_rankings ltb (map f l) = calc_rankings ltb' l.
Proof.
  intros H. apply (calc_rankings_rel ltb ltb' (fun b a => b = f a /\ In a l)).
  - intros x x' y y' [-> Hx] [-> Hy]. symmetry. now apply H.
  - apply Forall2_map_in.
Qed.

(** on a strictly increasing list the dense ranks are 0,1,..,n-1 *)
Lemma calc_rankings_aux_seq {K} (ltb : K -> K -> bool) p s i l :
  StronglySorted (fun a b => ltb a b = true) (p :: l) ->
  calc_rankings_aux ltb p s i l = seq i (length l).
Proof.
  revert p s i. induction l as [|x xs IH]; intros p s i S; cbn; [reflexivity|].
  destruct (StronglySorted_cons_inv _ _ _ S) as [S' Hp]. rewrite (Hp x (or_introl eq_refl)).
  f_equal. now apply IH.
Qed.
Lemma calc_rankings_seq {K} (ltb : K -> K -> bool) l :
  StronglySorted (fun a b => ltb a b = true) l -> calc_rankings ltb l = seq 0 (length l).
Proof. destruct l as [|x xs]; intros S; cbn; [reflexivity|]. f_equal. now apply calc_rankings_aux_seq. Qed.

(** two key vectors of equal length with the same comparison matrix are sorted by the same
    permutation: same sorted objects, same remembered indices *)
Section UnwindRel.
Context {K K' A : Type} (kleb : K -> K -> bool) (kleb' : K' -> K' -> bool).
Lemma unwind_rel (ks : list K) (ks' : list K') (xs : list A) :
  length ks = length ks' ->
  (forall a a' b b', In (a, a') (combine ks ks') -> In (b, b') (combine ks ks') -> kleb a b = kleb' a' b') ->
  unwind kleb ks xs = unwind kleb' ks' xs /\
  Forall2 (fun a a' => In (a, a') (combine ks ks')) (isort kleb ks) (isort kleb' ks').
Proof.
  intros E Hc.
  set (Q := fun (a : K * (A * nat)) (b : K' * (A * nat)) => snd a = snd b /\ In (fst a, fst b) (combine ks ks')).
  assert (HQ : forall x x' y y', Q x x' -> Q y y' -> tag_leb kleb x y = tag_leb kleb' x' y').
  { intros x x' y y' [_ Hx] [_ Hy]. unfold tag_leb. now apply Hc. }
  split.
  - assert (G : Forall2 Q (isort (tag_leb kleb) (combine ks (combine xs (seq 0 (length xs)))))
                          (isort (tag_leb kleb') (combine ks' (combine xs (seq 0 (length xs)))))).
    { apply isort_rel; [|intros; now apply HQ]. unfold Q. clear HQ Q Hc.
      generalize (combine xs (seq 0 (length xs))) as ps.
      enough (G : forall (pre : list (K * K')) ks0 ks0' (ps : list (A * nat)),
                 length ks0 = length ks0' -> (forall p, In p (combine ks0 ks0') -> In p (combine ks ks')) ->
                 Forall2 (fun a b => snd a = snd b /\ In (fst a, fst b) (combine ks ks')) (combine ks0 ps) (combine ks0' ps))
        by (intros ps; apply (G [] ks ks' ps E); auto).
      intros _. induction ks0 as [|k ks0 IH]; intros [|k' ks0'] ps E0 Hin; cbn in *; try discriminate; [constructor|].
      destruct ps as [|p ps]; constructor.
      - cbn. split; [reflexivity|]. apply Hin. now left.
      - apply IH; [congruence|]. intros; apply Hin. now right. }
    unfold unwind. f_equal.
    + apply Forall2_map_eq. eapply Forall2_weaken; [|exact G]. intros a b [H _]. now rewrite H.
    + apply Forall2_map_eq. eapply Forall2_weaken; [|exact G]. intros a b [H _]. now rewrite H.
  - apply isort_rel; [|intros; now apply Hc].
    clear Hc HQ Q.
    enough (G : forall ks0 ks0', length ks0 = length ks0' -> (forall p, In p (combine ks0 ks0') -> In p (combine ks ks')) ->
                 Forall2 (fun a a' => In (a, a') (combine ks ks')) ks0 ks0') by (apply G; auto).
    induction ks0 as [|k ks0 IH]; intros [|k' ks0'] E0 Hin; cbn in *; try discriminate; constructor.
    + apply Hin. now left.
    + apply IH; [congruence|]. intros; apply Hin. now right.
Qed.
End UnwindRel.

(** ** what the dense ranks mean on a sorted list *)
Definition count_less {K} (ltb : K -> K -> bool) (l : list K) (x : K) : nat :=
  length (filter (fun y => ltb y x) l).

Lemma count_less_perm {K} (ltb : K -> K -> bool) l l' x :
  Permutation l l' -> count_less ltb l x = count_less ltb l' x.
Proof. apply filter_length_perm. Qed.

Section RankSpec.
Context {K : Type} (leb ltb : K -> K -> bool) (D : K -> Prop).
Hypothesis total : forall a b, D a -> D b -> leb a b = true \/ leb b a = true.
Hypothesis trans : forall a b c, D a -> D b -> D c -> leb a b = true -> leb b c = true -> leb a c = true.
Hypothesis lt_def : forall a b, D a -> D b -> ltb a b = negb (leb b a).

Lemma leb_refl_on a : D a -> leb a a = true.
Proof. intros Da. now destruct (total a a Da Da). Qed.
Lemma ltb_true_leb a b : D a -> D b -> ltb a b = true -> leb a b = true /\ ltb b a = false.
Proof.
  intros Da Db H. rewrite lt_def in H by assumption. apply negb_true_iff in H.
  assert (L : leb a b = true) by (destruct (total a b Da Db); congruence).
  split; [assumption|]. rewrite lt_def by assumption. now rewrite L.
Qed.
Lemma leb_ltb_trans a b c : D a -> D b -> D c -> leb a b = true -> ltb b c = true -> ltb a c = true.
Proof.
  intros Da Db Dc H1 H2. rewrite lt_def in * by assumption. apply negb_true_iff in H2. apply negb_true_iff.
  destruct (leb c a) eqn:E; [|reflexivity]. rewrite (trans c a b Dc Da Db E H1) in H2. discriminate.
Qed.
Lemma ltb_leb_trans a b c : D a -> D b -> D c -> ltb a b = true -> leb b c = true -> ltb a c = true.
Proof.
  intros Da Db Dc H1 H2. rewrite lt_def in * by assumption. apply negb_true_iff in H1. apply negb_true_iff.
  destruct (leb c a) eqn:E; [|reflexivity]. rewrite (trans b c a Db Dc Da H2 E) in H1. discriminate.
Qed.
Lemma ltb_equiv_r x y z : D x -> D y -> D z -> leb x y = true -> leb y x = true -> ltb z x = ltb z y.
Proof.
  intros Dx Dy Dz H1 H2. rewrite !lt_def by assumption. f_equal.
  destruct (leb x z) eqn:E1, (leb y z) eqn:E2; try reflexivity.
  - rewrite (trans y x z Dy Dx Dz H2 E1) in E2. discriminate.
  - rewrite (trans x y z Dx Dy Dz H1 E2) in E1. discriminate.
Qed.

(** facts about the number of strictly smaller elements (any list over [D]) *)
Lemma count_less_equiv l a b : Forall D l -> D a -> D b ->
  leb a b = true -> leb b a = true -> count_less ltb l a = count_less ltb l b.
Proof.
  intros Dl Da Db H1 H2. unfold count_less. f_equal. apply filter_ext_in. intros z Hz.
  rewrite Forall_forall in Dl. apply ltb_equiv_r; auto.
Qed.
Lemma count_less_lt l a b : Forall D l -> D a -> D b -> In a l ->
  ltb a b = true -> count_less ltb l a < count_less ltb l b.
Proof.
  intros Dl Da Db Ha H. rewrite Forall_forall in Dl. unfold count_less.
  apply (filter_length_lt_impl _ _ l a).
  - intros z Hz Hza. destruct (ltb_true_leb a b Da Db H) as [L _].
    apply (ltb_leb_trans z a b); auto.
  - exact Ha.
  - rewrite lt_def by assumption. now rewrite leb_refl_on.
  - exact H.
Qed.
Theorem count_less_spec l a b : Forall D l -> D a -> D b -> In a l -> In b l ->
  (count_less ltb l a < count_less ltb l b <-> ltb a b = true) /\
  (count_less ltb l a = count_less ltb l b <-> ltb a b = false /\ ltb b a = false).
Proof.
  intros Dl Da Db Ha Hb.
  destruct (ltb a b) eqn:Eab.
  - pose proof (count_less_lt l a b Dl Da Db Ha Eab) as Hlt. destruct (ltb_true_leb a b Da Db Eab) as [_ Eba].
    split; split.
    + reflexivity.
    + intros _. exact Hlt.
    + intros Heq. lia.
    + intros [Hf _]. discriminate Hf.
  - destruct (ltb b a) eqn:Eba.
    + pose proof (count_less_lt l b a Dl Db Da Hb Eba) as Hlt.
      split; split.
      * intros Hc. lia.
      * intros Hf. discriminate Hf.
      * intros Heq. lia.
      * intros [_ Hf]. discriminate Hf.
    + rewrite lt_def in Eab, Eba by assumption. apply negb_false_iff in Eab, Eba.
      pose proof (count_less_equiv l a b Dl Da Db Eba Eab) as Heq.
      split; split.
      * intros Hc. lia.
      * intros Hf. discriminate Hf.
      * intros _. split; reflexivity.
      * intros _. exact Heq.
Qed.

(** the main invariant of [_calculate_rankings] on a sorted list *)
Lemma calc_rankings_aux_count l : Forall D l -> StronglySorted (fun a b => leb a b = true) l ->
  forall xs done prev, l = done ++ prev :: xs ->
  calc_rankings_aux ltb prev (count_less ltb l prev) (S (length done)) xs = map (count_less ltb l) xs.
Proof.
  intros Dl HS. pose proof Dl as Dl'. rewrite Forall_forall in Dl'.
  induction xs as [|x xs IH]; intros done prev E; cbn [calc_rankings_aux map]; [reflexivity|].
  assert (E' : l = (done ++ [prev]) ++ x :: xs) by (rewrite <- app_assoc; exact E).
  assert (Hx : In x l) by (rewrite E'; apply in_or_app; right; now left).
  assert (Hp : In prev l) by (rewrite E; apply in_or_app; right; now left).
  assert (Sx : StronglySorted (fun a b => leb a b = true) ((done ++ [prev]) ++ x :: xs)) by (rewrite <- E'; exact HS).
  destruct (StronglySorted_app_inv _ _ _ Sx) as [S1 [S2 H12]].
  destruct (StronglySorted_app_inv _ _ _ S1) as [_ [_ Hdp]].
  destruct (StronglySorted_cons_inv _ _ _ S2) as [_ Hxs].
  assert (Hlow : forall y, In y (done ++ [prev]) -> leb y prev = true).
  { intros y Hy. apply in_app_or in Hy. destruct Hy as [Hy|[<-|[]]].
    - apply Hdp; [assumption|now left].
    - apply leb_refl_on. auto. }
  assert (Hpx : leb prev x = true) by (apply H12; [apply in_or_app; right; now left | now left]).
  assert (Hhigh : forall y, In y (x :: xs) -> leb x y = true).
  { intros y [<-|Hy]; [apply leb_refl_on; auto | now apply Hxs]. }
  assert (Hc : (if ltb prev x then S (length done) else count_less ltb l prev) = count_less ltb l x).
  { destruct (ltb prev x) eqn:Elt.
    - unfold count_less. rewrite E' at 1. rewrite filter_app, app_length.
      rewrite filter_all_true, filter_all_false.
      + rewrite app_length. cbn. lia.
      + intros y Hy. rewrite lt_def; [|apply Dl'; rewrite E'; apply in_or_app; now right | auto].
        now rewrite (Hhigh y Hy).
      + intros y Hy. apply (leb_ltb_trans y prev x); auto.
        apply Dl'. rewrite E'. apply in_or_app. now left.
    - rewrite lt_def in Elt by auto. apply negb_false_iff in Elt.
      apply count_less_equiv; auto. }
  rewrite Hc. f_equal.
  replace (S (length done)) with (length (done ++ [prev])) by (rewrite app_length; cbn; lia).
  specialize (IH (done ++ [prev]) x E'). rewrite app_length in *. cbn [length] in *.
  replace (S (length done)) with (length done + 1) by lia. exact IH.
Qed.

(** every element's dense rank is the number of elements strictly smaller than it *)
Theorem calc_rankings_count l : Forall D l -> StronglySorted (fun a b => leb a b = true) l ->
  calc_rankings ltb l = map (count_less ltb l) l.
Proof.
  intros Dl S. destruct l as [|x xs]; [reflexivity|]. cbn [calc_rankings map].
  assert (Dx : D x) by (inversion Dl; assumption).
  pose proof Dl as Dl'. rewrite Forall_forall in Dl'.
  destruct (StronglySorted_cons_inv _ _ _ S) as [_ Hxs].
  assert (H0 : count_less ltb (x :: xs) x = 0).
  { unfold count_less. rewrite filter_all_false; [reflexivity|]. intros y Hy.
    rewrite lt_def by auto. destruct Hy as [<-|Hy]; [now rewrite leb_refl_on | now rewrite Hxs]. }
  rewrite H0. f_equal. rewrite <- H0 at 1.
  apply (calc_rankings_aux_count (x :: xs) Dl S xs [] x). reflexivity.
Qed.

(** ranks compare as the elements do; ties are exactly the equivalent elements *)
Theorem calc_rankings_spec l : Forall D l -> StronglySorted (fun a b => leb a b = true) l ->
  forall i j xi xj ri rj,
  nth_error l i = Some xi -> nth_error l j = Some xj ->
  nth_error (calc_rankings ltb l) i = Some ri -> nth_error (calc_rankings ltb l) j = Some rj ->
  (ri < rj <-> ltb xi xj = true) /\
  (ri = rj <-> ltb xi xj = false /\ ltb xj xi = false) /\
  (ri = rj <-> leb xi xj = true /\ leb xj xi = true).
Proof.
  intros Dl S i j xi xj ri rj Hi Hj Ri Rj. rewrite calc_rankings_count in Ri, Rj by assumption.
  rewrite (map_nth_error _ _ _ Hi) in Ri. rewrite (map_nth_error _ _ _ Hj) in Rj.
  injection Ri as <-. injection Rj as <-.
  pose proof Dl as Dl'. rewrite Forall_forall in Dl'.
  assert (Ii : In xi l) by (eapply nth_error_In; eauto).
  assert (Ij : In xj l) by (eapply nth_error_In; eauto).
  destruct (count_less_spec l xi xj Dl (Dl' _ Ii) (Dl' _ Ij) Ii Ij) as [H1 H2].
  split; [exact H1|]. split; [exact H2|]. rewrite H2.
  rewrite !lt_def by auto. rewrite !negb_false_iff. tauto.
Qed.

(** a downward-closed predicate cuts a sorted list into a prefix and a suffix *)
Lemma sorted_pred_split (p : K -> bool) l : Forall D l -> StronglySorted (fun a b => leb a b = true) l ->
  (forall y z, D y -> D z -> leb y z = true -> p z = true -> p y = true) ->
  exists a b, l = a ++ b /\ Forall (fun y => p y = true) a /\ Forall (fun y => p y = false) b.
Proof.
  intros Dl S Hp. induction S as [|y ys S IH Fy].
  - exists [], []. repeat split; constructor.
  - inversion Dl as [|? ? Dy Dys]; subst. destruct (p y) eqn:Ey.
    + destruct (IH Dys) as [a [b [-> [Fa Fb]]]]. exists (y :: a), b. repeat split; auto.
    + exists [], (y :: ys). repeat split; [constructor|]. constructor; [exact Ey|].
      rewrite Forall_forall in *. intros z Hz. destruct (p z) eqn:Ez; [|reflexivity].
      rewrite (Hp y z Dy (Dys z Hz) (Fy z Hz) Ez) in Ey. discriminate.
Qed.

(** the dense rank is the index of the first element equivalent to the given one *)
Theorem calc_rankings_first l : Forall D l -> StronglySorted (fun a b => leb a b = true) l ->
  forall i xi ri, nth_error l i = Some xi -> nth_error (calc_rankings ltb l) i = Some ri ->
  ri = count_less ltb l xi /\ ri <= i /\
  (forall j y, j < ri -> nth_error l j = Some y -> ltb y xi = true) /\
  (exists y, nth_error l ri = Some y /\ leb y xi = true /\ leb xi y = true).
Proof.
  intros Dl S i xi ri Hi Ri. rewrite calc_rankings_count in Ri by assumption.
  rewrite (map_nth_error _ _ _ Hi) in Ri. injection Ri as <-.
  pose proof Dl as Dl'. rewrite Forall_forall in Dl'.
  assert (Ii : In xi l) by (eapply nth_error_In; eauto). assert (Di : D xi) by auto.
  destruct (sorted_pred_split (fun y => ltb y xi) l Dl S) as [a [b [E [Fa Fb]]]].
  { intros y z Dy Dz Hyz Hz. apply (leb_ltb_trans y z xi); auto. }
  rewrite Forall_forall in Fa, Fb.
  assert (Hc : count_less ltb l xi = length a).
  { unfold count_less. rewrite E, filter_app, filter_all_true, filter_all_false by assumption. now rewrite app_nil_r. }
  assert (Pxi : ltb xi xi = false) by (rewrite lt_def by auto; now rewrite leb_refl_on).
  assert (Hge : length a <= i).
  { destruct (Nat.le_gt_cases (length a) i) as [G|G]; [exact G|].
    rewrite E, nth_error_app1 in Hi by exact G. apply nth_error_In in Hi. rewrite (Fa _ Hi) in Pxi. discriminate. }
  split; [reflexivity|]. rewrite Hc. split; [exact Hge|]. split.
  - intros j y Hj Hy. rewrite E, nth_error_app1 in Hy by exact Hj. apply nth_error_In in Hy. now apply Fa.
  - rewrite E in Hi, S. rewrite nth_error_app2 in Hi by exact Hge.
    destruct (StronglySorted_app_inv _ _ _ S) as [_ [Sb _]].
    destruct b as [|y b]; [destruct (i - length a); discriminate|].
    exists y. split; [rewrite E, nth_error_app2, Nat.sub_diag by lia; reflexivity|].
    assert (Dy : D y) by (apply Dl'; rewrite E; apply in_or_app; right; now left).
    split.
    + apply nth_error_In in Hi. destruct Hi as [<-|Hi]; [now apply leb_refl_on|].
      destruct (StronglySorted_cons_inv _ _ _ Sb) as [_ Hb]. now apply Hb.
    + pose proof (Fb y (or_introl eq_refl)) as Py. cbn in Py. rewrite lt_def in Py by auto.
      now apply negb_false_iff in Py.
Qed.
End RankSpec.

(** ** the instances for keys *)
Lemma isort_keys_sorted ks : Forall key_wf ks ->
  StronglySorted (fun a b => key_leb a b = true) (isort key_leb ks).
Proof.
  apply (isort_sorted_on key_leb key_wf).
  - intros a b _ _. apply key_leb_total.
  - intros a b c _ Hb _. now apply key_leb_trans.
Qed.
Lemma isort_keys_wf ks : Forall key_wf ks -> Forall key_wf (isort key_leb ks).
Proof. rewrite !Forall_forall. intros H k Hk. apply H. now apply isort_in in Hk. Qed.

Theorem key_rankings_count ks : Forall key_wf ks ->
  calc_rankings key_ltb (isort key_leb ks) = map (count_less key_ltb ks) (isort key_leb ks).
Proof.
  intros W. rewrite (calc_rankings_count key_leb key_ltb key_wf).
  - apply map_ext. intros k. apply count_less_perm. symmetry. apply isort_perm.
  - intros a b _ _. apply key_leb_total.
  - intros a b c _ Hb _. now apply key_leb_trans.
  - intros a b _ _. apply key_ltb_negb_leb.
  - now apply isort_keys_wf.
  - now apply isort_keys_sorted.
Qed.

Theorem key_count_less_spec ks a b : Forall key_wf ks -> In a ks -> In b ks ->
  (count_less key_ltb ks a < count_less key_ltb ks b <-> key_ltb a b = true) /\
  (count_less key_ltb ks a = count_less key_ltb ks b <-> key_leb a b = true /\ key_leb b a = true).
Proof.
  intros W Ha Hb. pose proof W as W'. rewrite Forall_forall in W'.
  destruct (count_less_spec key_leb key_ltb key_wf) with (l := ks) (a := a) (b := b) as [H1 H2]; auto.
  - intros x y _ _. apply key_leb_total.
  - intros x y z _ Hy _. now apply key_leb_trans.
  - intros x y _ _. apply key_ltb_negb_leb.
  - split; [exact H1|]. rewrite H2, !key_ltb_negb_leb, !negb_false_iff. tauto.
Qed.

Theorem key_rankings_spec ks : Forall key_wf ks ->
  forall i j ki kj ri rj,
  nth_error (isort key_leb ks) i = Some ki -> nth_error (isort key_leb ks) j = Some kj ->
  nth_error (calc_rankings key_ltb (isort key_leb ks)) i = Some ri ->
  nth_error (calc_rankings key_ltb (isort key_leb ks)) j = Some rj ->
  (ri < rj <-> key_ltb ki kj = true) /\
  (ri = rj <-> key_leb ki kj = true /\ key_leb kj ki = true).
Proof.
  intros W i j ki kj ri rj Hi Hj Ri Rj.
  destruct (calc_rankings_spec key_leb key_ltb key_wf) with (l := isort key_leb ks)
    (i := i) (j := j) (xi := ki) (xj := kj) (ri := ri) (rj := rj) as [H1 [_ H3]]; auto.
  - intros x y _ _. apply key_leb_total.
  - intros x y z _ Hy _. now apply key_leb_trans.
  - intros x y _ _. apply key_ltb_negb_leb.
  - now apply isort_keys_wf.
  - now apply isort_keys_sorted.
Qed.

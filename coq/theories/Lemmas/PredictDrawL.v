(** * PredictDrawL: shared lemmas for C10 / C11.

    - [rows l] pairs each element with the list of all the others, in order;
    - sums over the ordered pairs of distinct positions ([pairsum]);
    - on R: [agg] is (sum of mu, sum of sigma^2), [pair_scale > 0] under
      [beta > 0], the draw margin is positive, and [predict_draw] /
      [predict_rank_probs] written with [pairsum]. *)
From Coq Require Import List ZArith Arith Bool Lia Permutation Reals Lra.
From OSV Require Import Num Order Gauss Core Predict RInst.
Import ListNotations.

(** ** [rows] *)
Section Rows.
Context {A : Type}.

Lemma rows_aux_fst (pre l : list A) : map fst (rows_aux pre l) = l.
Proof. revert pre; induction l as [|x xs IH]; intros pre; cbn [rows_aux map fst]; [reflexivity|]. now rewrite IH. Qed.

Lemma rows_aux_perm (pre l : list A) :
  Forall (fun ro => Permutation (fst ro :: snd ro) (rev pre ++ l)) (rows_aux pre l).
Proof.
  revert pre; induction l as [|x xs IH]; intros pre; cbn [rows_aux]; constructor.
  - cbn [fst snd]. apply Permutation_middle.
  - specialize (IH (x :: pre)). cbn [rev] in IH. rewrite <- app_assoc in IH. exact IH.
Qed.

Lemma rows_aux_nth (d : A) (pre l : list A) :
  rows_aux pre l
  = map (fun k => (nth k l d, rev pre ++ firstn k l ++ skipn (S k) l)) (seq 0 (length l)).
Proof.
  revert pre; induction l as [|x xs IH]; intros pre; [reflexivity|].
  cbn [rows_aux length seq map nth firstn skipn app]. f_equal.
  rewrite <- seq_shift, map_map, (IH (x :: pre)).
  apply map_ext. intros k. cbn [rev nth firstn skipn]. now rewrite <- app_assoc.
Qed.

Lemma rows_fst (l : list A) : map fst (rows l) = l.
Proof. apply rows_aux_fst. Qed.
Lemma rows_length (l : list A) : length (rows l) = length l.
Proof. rewrite <- (rows_fst l) at 2. now rewrite map_length. Qed.
Lemma rows_perm (l : list A) : Forall (fun ro => Permutation (fst ro :: snd ro) l) (rows l).
Proof. exact (rows_aux_perm [] l). Qed.

(** the characterisation: row [k] is element [k] with all the others, in order *)
Lemma rows_nth (d : A) (l : list A) :
  rows l = map (fun k => (nth k l d, firstn k l ++ skipn (S k) l)) (seq 0 (length l)).
Proof. exact (rows_aux_nth d [] l). Qed.

Lemma rows_In (l : list A) ro : In ro (rows l) ->
  In (fst ro) l /\ (forall y, In y (snd ro) -> In y l) /\ S (length (snd ro)) = length l.
Proof.
  intros Hin. pose proof (rows_perm l) as HP. rewrite Forall_forall in HP. specialize (HP ro Hin).
  repeat split.
  - apply (Permutation_in _ HP). now left.
  - intros y Hy. apply (Permutation_in _ HP). now right.
  - apply Permutation_length in HP. exact HP.
Qed.
End Rows.

Lemma rows_aux_map {A B} (f : A -> B) pre l :
  rows_aux (map f pre) (map f l) = map (fun ro => (f (fst ro), map f (snd ro))) (rows_aux pre l).
Proof.
  revert pre; induction l as [|x xs IH]; intros pre; cbn [rows_aux map fst snd]; [reflexivity|].
  f_equal.
  - now rewrite map_app, map_rev.
  - exact (IH (x :: pre)).
Qed.
Lemma rows_map {A B} (f : A -> B) l :
  rows (map f l) = map (fun ro => (f (fst ro), map f (snd ro))) (rows l).
Proof. exact (rows_aux_map f [] l). Qed.

(** ** real sums *)
Lemma Rsum_flat_map {A} (g : A -> list R) l :
  Rsum (flat_map g l) = Rsum (map (fun x => Rsum (g x)) l).
Proof. induction l as [|a l IH]; cbn [flat_map map Rsum]; [reflexivity|]. now rewrite Rsum_app, IH. Qed.

Lemma Rsum_map_minus {A} (f g : A -> R) l :
  Rsum (map (fun a => f a - g a) l) = Rsum (map f l) - Rsum (map g l).
Proof. induction l as [|a l IH]; cbn [map Rsum]; [lra|]. rewrite IH. lra. Qed.

Lemma Rsum_map_const {A} (c : R) (l : list A) : Rsum (map (fun _ => c) l) = c * INR (length l).
Proof.
  induction l as [|a l IH]; [cbn; lra|].
  cbn [map Rsum]. rewrite IH. cbn [length]. rewrite S_INR. lra.
Qed.

Lemma Rsum_map_le {A} (f g : A -> R) l :
  (forall a, In a l -> f a <= g a) -> Rsum (map f l) <= Rsum (map g l).
Proof.
  induction l as [|a l IH]; intros H; cbn [map Rsum]; [lra|].
  pose proof (H a (or_introl eq_refl)). assert (Rsum (map f l) <= Rsum (map g l)).
  { apply IH. intros b Hb. apply H. now right. }
  lra.
Qed.

Lemma Rsum_map_div {A} (f : A -> R) c l : Rsum (map (fun a => f a / c) l) = Rsum (map f l) / c.
Proof. induction l as [|a l IH]; cbn [map Rsum]; [unfold Rdiv; lra|]. rewrite IH. unfold Rdiv; lra. Qed.

Lemma dsum_swap {A B} (f : A -> B -> R) l l' :
  Rsum (map (fun x => Rsum (map (f x) l')) l) = Rsum (map (fun y => Rsum (map (fun x => f x y) l)) l').
Proof.
  induction l as [|a l IH]; cbn [map Rsum].
  - induction l' as [|b l' IH']; cbn [map Rsum]; [reflexivity|]. rewrite <- IH'. lra.
  - rewrite IH. rewrite <- Rsum_map_plus. reflexivity.
Qed.

(** sum of [f x y] over the ordered pairs of distinct positions of [l] *)
Definition pairsum {A} (f : A -> A -> R) (l : list A) : R :=
  Rsum (map (fun ro => Rsum (map (f (fst ro)) (snd ro))) (rows l)).

Section Pairsum.
Context {A : Type}.
Implicit Types (f g : A -> A -> R) (l : list A).

Lemma pairsum_full f l :
  pairsum f l = Rsum (map (fun x => Rsum (map (f x) l)) l) - Rsum (map (fun x => f x x) l).
Proof.
  unfold pairsum. rewrite <- Rsum_map_minus.
  set (H := fun x => Rsum (map (f x) l) - f x x).
  replace (map H l) with (map (fun ro => H (fst ro)) (rows l))
    by (rewrite <- (map_map fst H), rows_fst; reflexivity).
  unfold H. apply Rsum_map_ext. intros ro Hro.
  pose proof (rows_perm l) as HP. rewrite Forall_forall in HP. specialize (HP ro Hro).
  rewrite <- (Rsum_perm _ _ (Permutation_map (f (fst ro)) HP)). cbn [map Rsum]. lra.
Qed.

Lemma pairsum_perm f l l' : Permutation l l' -> pairsum f l = pairsum f l'.
Proof.
  intros HP. rewrite !pairsum_full. f_equal.
  - rewrite (Rsum_perm _ _ (Permutation_map (fun x => Rsum (map (f x) l)) HP)).
    apply Rsum_map_ext. intros x _. apply Rsum_perm. now apply Permutation_map.
  - apply Rsum_perm. now apply Permutation_map.
Qed.

Lemma pairsum_flip f l : pairsum f l = pairsum (fun x y => f y x) l.
Proof. rewrite !pairsum_full. f_equal. apply dsum_swap. Qed.

Lemma pairsum_ext f g l : (forall x y, In x l -> In y l -> f x y = g x y) -> pairsum f l = pairsum g l.
Proof.
  intros H. unfold pairsum. apply Rsum_map_ext. intros ro Hro.
  destruct (rows_In l ro Hro) as [Hx [Hy _]].
  apply Rsum_map_ext. intros y Hin. apply H; auto.
Qed.

Lemma pairsum_le f g l : (forall x y, In x l -> In y l -> f x y <= g x y) -> pairsum f l <= pairsum g l.
Proof.
  intros H. unfold pairsum. apply Rsum_map_le. intros ro Hro.
  destruct (rows_In l ro Hro) as [Hx [Hy _]].
  apply Rsum_map_le. intros y Hin. apply H; auto.
Qed.

Lemma pairsum_plus f g l : pairsum (fun x y => f x y + g x y) l = pairsum f l + pairsum g l.
Proof.
  unfold pairsum. rewrite <- Rsum_map_plus. apply Rsum_map_ext. intros ro _.
  apply Rsum_map_plus.
Qed.

Lemma pairsum_scal c f l : pairsum (fun x y => c * f x y) l = c * pairsum f l.
Proof.
  unfold pairsum. rewrite <- Rsum_map_scal. apply Rsum_map_ext. intros ro _.
  apply Rsum_map_scal.
Qed.

Lemma pairsum_const c l : pairsum (fun _ _ => c) l = c * INR (length l * (length l - 1)).
Proof.
  unfold pairsum.
  rewrite (Rsum_map_ext _ (fun _ => c * INR (length l - 1))).
  - rewrite Rsum_map_const, rows_length, mult_INR. lra.
  - intros ro Hro. destruct (rows_In l ro Hro) as [_ [_ Hlen]].
    rewrite Rsum_map_const. f_equal. f_equal. lia.
Qed.

(** pairing the two orders of each pair *)
Lemma pairsum_sym2 f g l : (forall x y, f x y + f y x = 2 * g x y) -> pairsum f l = pairsum g l.
Proof.
  intros H. assert (E : 2 * pairsum f l = 2 * pairsum g l); [|lra].
  replace (2 * pairsum f l) with (pairsum f l + pairsum (fun x y => f y x) l)
    by (rewrite <- pairsum_flip; lra).
  rewrite <- pairsum_plus, <- pairsum_scal. apply pairsum_ext. intros x y _ _. apply H.
Qed.

Lemma pairsum_sym1 f g l : (forall x y, f x y + f y x = 1 - g x y) ->
  2 * pairsum f l = INR (length l * (length l - 1)) - pairsum g l.
Proof.
  intros H.
  replace (2 * pairsum f l) with (pairsum f l + pairsum (fun x y => f y x) l)
    by (rewrite <- pairsum_flip; lra).
  rewrite <- pairsum_plus.
  rewrite (pairsum_ext _ (fun x y => 1 + (-1) * g x y)) by (intros x y _ _; rewrite H; lra).
  rewrite pairsum_plus, pairsum_const, pairsum_scal. lra.
Qed.
End Pairsum.

Lemma pairsum_map {A B} (phi : A -> B) (g : B -> B -> R) l :
  pairsum g (map phi l) = pairsum (fun x y => g (phi x) (phi y)) l.
Proof.
  unfold pairsum. rewrite rows_map, map_map. apply Rsum_map_ext. intros ro _.
  cbn [fst snd]. now rewrite map_map.
Qed.

Lemma pairsum_two {A} (f : A -> A -> R) x y : pairsum f [x; y] = f x y + f y x.
Proof. unfold pairsum, rows. cbn. lra. Qed.

(** ** number of players *)
Lemma fold_left_nplayers {A} (teams : list (list A)) a :
  fold_left (fun acc t => (acc + length t)%nat) teams a = (a + list_sum (map (@length A) teams))%nat.
Proof.
  revert a; induction teams as [|t ts IH]; intros a; cbn [fold_left map]; [cbn; lia|].
  rewrite IH. unfold list_sum. cbn [fold_right]. lia.
Qed.
Lemma list_sum_perm l l' : Permutation l l' -> list_sum l = list_sum l'.
Proof. induction 1; unfold list_sum in *; cbn [fold_right]; lia. Qed.
Lemma list_sum_ge_length l : Forall (fun k => 1 <= k)%nat l -> (length l <= list_sum l)%nat.
Proof. induction 1; unfold list_sum in *; cbn [fold_right length]; lia. Qed.

Lemma map_eq_Forall {A B} (f g : A -> B) l : map f l = map g l -> Forall (fun x => f x = g x) l.
Proof.
  induction l as [|a l IH]; intros H; constructor; cbn [map] in H; inversion H; auto.
Qed.

Lemma map_fst_combine' {A B} (l : list A) (l' : list B) :
  length l = length l' -> map fst (combine l l') = l.
Proof.
  revert l'; induction l as [|a l IH]; intros [|b l'] H; cbn in *; try reflexivity; try discriminate.
  f_equal. apply IH. lia.
Qed.
Lemma map_snd_combine' {A B} (l : list A) (l' : list B) :
  length l = length l' -> map snd (combine l l') = l'.
Proof.
  revert l'; induction l as [|a l IH]; intros [|b l'] H; cbn in *; try reflexivity; try discriminate.
  f_equal. apply IH. lia.
Qed.

(** ** the model on R *)
Section OnR.
Variables Phi Phiinv : R -> R.
Hypothesis GF : GaussCDF Phi Phiinv.
Local Hint Extern 0 (Num R) => exact (RN Phi Phiinv) : typeclass_instances.

Implicit Types (beta : R) (t : list (rating R)) (teams : list (list (rating R))) (a b : R * R).

Lemma R_agg t :
  agg t = (Rsum (map r_mu t), Rsum (map (fun p => r_sigma p * r_sigma p) t)).
Proof. unfold agg. now rewrite !R_reduce_add. Qed.

Lemma agg_var_nonneg t : 0 <= snd (agg t).
Proof.
  rewrite R_agg. cbn [snd]. apply Rsum_nonneg. apply Forall_forall. intros x Hx.
  apply in_map_iff in Hx. destruct Hx as [p [<- _]]. nra.
Qed.

Lemma agg_perm t t' : Permutation t t' -> agg t = agg t'.
Proof.
  intros HP. rewrite !R_agg. f_equal; apply Rsum_perm; now apply Permutation_map.
Qed.

Lemma agg_sigma_eq t t' : map r_sigma t = map r_sigma t' -> snd (agg t) = snd (agg t').
Proof.
  intros H. rewrite !R_agg. cbn [snd].
  rewrite <- (map_map r_sigma (fun s => s * s) t), <- (map_map r_sigma (fun s => s * s) t').
  now rewrite H.
Qed.

Lemma R_nplayers teams : nplayers teams = list_sum (map (@length _) teams).
Proof. unfold nplayers. now rewrite fold_left_nplayers. Qed.

Lemma nplayers_ge teams : Forall (fun t => t <> []) teams -> (length teams <= nplayers teams)%nat.
Proof.
  intros H. rewrite R_nplayers. rewrite <- (map_length (@length _) teams).
  apply list_sum_ge_length. apply Forall_forall. intros k Hk.
  apply in_map_iff in Hk. destruct Hk as [t [<- Ht]].
  rewrite Forall_forall in H. specialize (H t Ht). destruct t; [congruence|cbn; lia].
Qed.

Lemma nplayers_perm teams teams' : Permutation teams teams' -> nplayers teams = nplayers teams'.
Proof. intros HP. rewrite !R_nplayers. apply list_sum_perm. now apply Permutation_map. Qed.

(** the model's scale, margin and pair terms, on aggregates *)
Definition sc beta (n : nat) a b : R := sqrt (INR n * (beta * beta) + snd a + snd b).
Definition margin beta (N : nat) : R := sqrt (INR N) * beta * Phiinv ((1 + 1 / INR N) / 2).
(** window mass: Phi(x + h) - Phi(x - h) *)
Definition W (x h : R) : R := Phi (x + h) - Phi (x - h).

Lemma R_pair_scale beta n a b : pair_scale beta n a b = sc beta n a b.
Proof. unfold pair_scale, sc. cbn. now rewrite <- INR_IZR_INZ. Qed.

Lemma sc_sym beta n a b : sc beta n a b = sc beta n b a.
Proof. unfold sc. f_equal. ring. Qed.

Lemma sc_pos beta n a b : 0 < beta -> (1 <= n)%nat -> 0 <= snd a -> 0 <= snd b -> 0 < sc beta n a b.
Proof.
  intros Hb Hn Ha Hbb. unfold sc. apply sqrt_lt_R0.
  assert (1 <= INR n) by (change 1 with (INR 1); now apply le_INR).
  assert (0 < beta * beta) by nra. nra.
Qed.

Lemma R_draw_margin beta teams : draw_margin beta teams = margin beta (nplayers teams).
Proof. unfold draw_margin, margin. cbn. now rewrite <- INR_IZR_INZ. Qed.

Lemma Phi_0 : Phi 0 = / 2.
Proof. pose proof (gc_sym _ _ GF 0) as H. rewrite Ropp_0 in H. lra. Qed.

Lemma Phi_le x y : x <= y -> Phi x <= Phi y.
Proof. intros [H| ->]; [left; now apply (gc_mono _ _ GF)|right; reflexivity]. Qed.

Lemma pN_range (N : nat) : (2 <= N)%nat ->
  / 2 < (1 + 1 / INR N) / 2 <= 3 / 4 /\ (1 + 1 / INR N) / 2 = / 2 + / (2 * INR N).
Proof.
  intros HN. assert (H2 : 2 <= INR N) by (change 2 with (INR 2); now apply le_INR).
  assert (Hi : 0 < / INR N) by (apply Rinv_0_lt_compat; lra).
  assert (Hi2 : / INR N <= / 2) by (apply Rinv_le_contravar; lra).
  split; [unfold Rdiv; lra|]. field. lra.
Qed.

Lemma zN_facts (N : nat) : (2 <= N)%nat ->
  let z := Phiinv ((1 + 1 / INR N) / 2) in
  0 < z /\ Phi z = / 2 + / (2 * INR N).
Proof.
  intros HN z. destruct (pN_range N HN) as [[Hlo Hhi] Heq].
  assert (Hz : Phi z = (1 + 1 / INR N) / 2) by (apply (gc_inv _ _ GF); lra).
  split; [|now rewrite Hz].
  destruct (Rlt_le_dec 0 z) as [Hpos|Hneg]; [assumption|].
  pose proof (Phi_le z 0 Hneg) as Hle. rewrite Phi_0 in Hle. lra.
Qed.

Lemma margin_pos beta N : 0 < beta -> (2 <= N)%nat -> 0 < margin beta N.
Proof.
  intros Hb HN. unfold margin. destruct (zN_facts N HN) as [Hz _].
  assert (0 < sqrt (INR N)).
  { apply sqrt_lt_R0. assert (2 <= INR N) by (change 2 with (INR 2); now apply le_INR). lra. }
  apply Rmult_lt_0_compat; [apply Rmult_lt_0_compat|]; assumption.
Qed.

(** the two facts in the model's own terms *)
Lemma pair_scale_pos beta teams ta tb :
  0 < beta -> (1 <= length teams)%nat ->
  0 < pair_scale beta (length teams) (agg ta) (agg tb).
Proof.
  intros Hb Hn. rewrite R_pair_scale. apply sc_pos; auto using agg_var_nonneg.
Qed.
Lemma draw_margin_pos beta teams :
  0 < beta -> (2 <= length teams)%nat -> Forall (fun t => t <> []) teams ->
  0 < draw_margin beta teams.
Proof.
  intros Hb Hn Hne. rewrite R_draw_margin. apply margin_pos; [assumption|].
  pose proof (nplayers_ge teams Hne). lia.
Qed.

(** window mass facts *)
Lemma W_nonneg x h : 0 <= h -> 0 <= W x h.
Proof. intros Hh. unfold W. assert (Phi (x - h) <= Phi (x + h)) by (apply Phi_le; lra). lra. Qed.
Lemma W_lt_1 x h : W x h < 1.
Proof. unfold W. pose proof (gc_range _ _ GF (x + h)). pose proof (gc_range _ _ GF (x - h)). lra. Qed.
Lemma W_even x h : W (- x) h = W x h.
Proof.
  unfold W. replace (- x + h) with (- (x - h)) by ring. replace (- x - h) with (- (x + h)) by ring.
  rewrite !(gc_sym _ _ GF). lra.
Qed.
Lemma W_window x y h : 0 <= h -> Rabs x <= Rabs y -> W y h <= W x h.
Proof. intros Hh Hxy. unfold W. now apply (gc_window _ _ GF). Qed.
Lemma W_0 h : W 0 h = 2 * Phi h - 1.
Proof. unfold W. rewrite Rplus_0_l, Rminus_0_l, (gc_sym _ _ GF). lra. Qed.

(** the two orders of a pair, added up *)
Lemma draw_pair m s d :
  (Phi ((m - d) / s) - Phi ((d - m) / s)) + (Phi ((m - - d) / s) - Phi ((- d - m) / s))
  = 2 * W (d / s) (m / s).
Proof.
  unfold W.
  replace ((m - d) / s) with (- (d / s - m / s)) by (unfold Rdiv; ring).
  replace ((d - m) / s) with (d / s - m / s) by (unfold Rdiv; ring).
  replace ((m - - d) / s) with (d / s + m / s) by (unfold Rdiv; ring).
  replace ((- d - m) / s) with (- (d / s + m / s)) by (unfold Rdiv; ring).
  rewrite !(gc_sym _ _ GF). lra.
Qed.
Lemma rank_pair m s d :
  Phi ((d - m) / s) + Phi ((- d - m) / s) = 1 - W (d / s) (m / s).
Proof.
  unfold W.
  replace ((d - m) / s) with (d / s - m / s) by (unfold Rdiv; ring).
  replace ((- d - m) / s) with (- (d / s + m / s)) by (unfold Rdiv; ring).
  rewrite !(gc_sym _ _ GF). lra.
Qed.

(** *** [predict_draw] and [predict_rank_probs] in terms of [pairsum] over the aggregates *)
Definition drawterm beta n N a b : R :=
  Phi ((margin beta N - (fst a - fst b)) / sc beta n a b)
  - Phi (((fst a - fst b) - margin beta N) / sc beta n a b).
Definition rankterm beta n N a b : R :=
  Phi (((fst a - fst b) - margin beta N) / sc beta n a b).
Definition wterm beta n N a b : R :=
  W ((fst a - fst b) / sc beta n a b) (margin beta N / sc beta n a b).
Definition den (n : nat) : R := if Nat.ltb 2 n then INR (n * (n - 1)) else 1.

Lemma pairsum_drawterm beta n N l :
  pairsum (drawterm beta n N) l = pairsum (wterm beta n N) l.
Proof.
  apply pairsum_sym2. intros a b. unfold drawterm, wterm.
  rewrite (sc_sym beta n b a).
  replace (fst b - fst a) with (- (fst a - fst b)) by ring.
  apply draw_pair.
Qed.

Lemma pairsum_rankterm beta n N l :
  2 * pairsum (rankterm beta n N) l
  = INR (length l * (length l - 1)) - pairsum (wterm beta n N) l.
Proof.
  apply pairsum_sym1. intros a b. unfold rankterm, wterm.
  rewrite (sc_sym beta n b a).
  replace (fst b - fst a) with (- (fst a - fst b)) by ring.
  apply rank_pair.
Qed.

Definition PD beta n N (aggs : list (R * R)) : R :=
  Rabs (pairsum (wterm beta n N) aggs) / den n.

Lemma predict_draw_norm beta teams :
  predict_draw beta teams = PD beta (length teams) (nplayers teams) (map agg teams).
Proof.
  unfold predict_draw, PD. rewrite R_py_sum, Rsum_flat_map.
  rewrite <- pairsum_drawterm, pairsum_map.
  cbn [fabs fdiv RN RNum]. f_equal.
  - f_equal. unfold pairsum. apply Rsum_map_ext. intros ro _. apply Rsum_map_ext. intros tb _.
    rewrite !R_cdf, R_pair_scale, R_draw_margin. unfold drawterm. cbn [fsub fadd fdiv RN RNum].
    f_equal; f_equal; f_equal; ring.
  - unfold den. destruct (Nat.ltb 2 (length teams)); [|reflexivity].
    cbn [fofZ RN RNum]. now rewrite <- INR_IZR_INZ.
Qed.

Lemma R_half_pairs (n : nat) : half_pairs n = INR (n * (n - 1)) / 2.
Proof. unfold half_pairs. cbn. now rewrite <- INR_IZR_INZ. Qed.

Lemma predict_rank_probs_norm beta teams :
  predict_rank_probs beta teams
  = map (fun ro => Rabs (Rsum (map (rankterm beta (length teams) (nplayers teams) (agg (fst ro)))
                                   (map agg (snd ro)))
                         / (INR (length teams * (length teams - 1)) / 2)))
        (rows teams).
Proof.
  unfold predict_rank_probs. apply map_ext. intros ro.
  rewrite R_py_sum, R_half_pairs. cbn [fabs fdiv RN RNum]. f_equal. f_equal.
  rewrite map_map. apply Rsum_map_ext. intros tb _.
  rewrite R_cdf, R_pair_scale, R_draw_margin. unfold rankterm. cbn [fsub fdiv RN RNum]. reflexivity.
Qed.

(** valid aggregates *)
Lemma wterm_range beta n N a b :
  0 < beta -> (1 <= n)%nat -> (2 <= N)%nat -> 0 <= snd a -> 0 <= snd b ->
  0 <= wterm beta n N a b < 1.
Proof.
  intros Hb Hn HN Ha Hbb. unfold wterm. split; [|apply W_lt_1].
  apply W_nonneg. pose proof (sc_pos beta n a b Hb Hn Ha Hbb). pose proof (margin_pos beta N Hb HN).
  apply Rlt_le. now apply Rdiv_lt_0_compat.
Qed.

Lemma pairsum_wterm_range beta n N (l : list (R * R)) :
  0 < beta -> (1 <= n)%nat -> (2 <= N)%nat -> Forall (fun a => 0 <= snd a) l ->
  0 <= pairsum (wterm beta n N) l <= INR (length l * (length l - 1)).
Proof.
  intros Hb Hn HN Hl. rewrite Forall_forall in Hl. split.
  - replace 0 with (pairsum (fun _ _ : R * R => 0) l) by (rewrite pairsum_const; lra).
    apply pairsum_le. intros x y Hx Hy. apply wterm_range; auto.
  - replace (INR (length l * (length l - 1))) with (pairsum (fun _ _ : R * R => 1) l)
      by (rewrite pairsum_const; lra).
    apply pairsum_le. intros x y Hx Hy. apply Rlt_le. apply wterm_range; auto.
Qed.

Lemma aggs_var_nonneg teams : Forall (fun a => 0 <= snd a) (map agg teams).
Proof.
  apply Forall_forall. intros a Ha. apply in_map_iff in Ha. destruct Ha as [t [<- _]].
  apply agg_var_nonneg.
Qed.

End OnR.

(** * FloatOrderInstL: the order-law based theorems (C11 ranks of [predict_rank], C18 sorting of
    rating objects) instantiated at IEEE 754 binary64 for FINITE doubles.

    The polymorphic theorems of [RankDataL] / [C18L] take order laws quantified over the whole
    carrier; for [binary64] as a whole these laws are false (NaN).  They hold on the finite
    doubles: we instantiate the polymorphic theorems at the subset type
    [{ x : binary64 | is_finite 53 1024 x = true }] (comparisons through [proj1_sig]) and transfer
    the conclusions along [map proj1_sig] ([isort], [rank_data] commute with a map that
    respects the comparison functions).  No proof-irrelevance is needed: lists of finite doubles
    are lifted to lists over the subset type by induction on [Forall]. *)
From Coq Require Import List ZArith Bool Arith Lia Reals Lra Sorted Permutation.
From Flocq Require Import Core.Raux IEEE754.BinarySingleNaN IEEE754.Binary IEEE754.Bits.
From OSV Require Import Num Order Gauss Core Predict PyVal Prog RatingOps FloatInst.
From OSV.Lemmas Require RankDataL C11L C18L FloatOrderL FloatRangeL.
Import ListNotations.

(** ** Generic transfer along a map *)
Section MapTransfer.
Context {A B : Type} (f : A -> B).

Lemma insert_map (leb : B -> B -> bool) x l :
  insert leb (f x) (map f l) = map f (insert (fun a b => leb (f a) (f b)) x l).
Proof.
  induction l as [|y ys IH]; cbn [insert map]; [reflexivity|].
  destruct (leb (f x) (f y)); cbn [map]; [reflexivity|]. rewrite IH. reflexivity.
Qed.

Lemma isort_map (leb : B -> B -> bool) l :
  isort leb (map f l) = map f (isort (fun a b => leb (f a) (f b)) l).
Proof.
  induction l as [|x xs IH]; [reflexivity|]. unfold isort in *. cbn [map fold_right].
  rewrite IH. apply insert_map.
Qed.

Lemma HdRel_map (R : B -> B -> Prop) a l :
  HdRel (fun x y => R (f x) (f y)) a l -> HdRel R (f a) (map f l).
Proof. intros H. destruct H; cbn [map]; constructor; assumption. Qed.

Lemma Sorted_map (R : B -> B -> Prop) l :
  Sorted (fun x y => R (f x) (f y)) l -> Sorted R (map f l).
Proof.
  induction 1 as [|a l Hs IH Hh]; cbn [map]; constructor; [exact IH | apply HdRel_map; exact Hh].
Qed.

Lemma StronglySorted_map (R : B -> B -> Prop) l :
  StronglySorted (fun x y => R (f x) (f y)) l -> StronglySorted R (map f l).
Proof.
  induction 1 as [|a l Hs IH Hf]; cbn [map]; constructor; [exact IH|].
  apply Forall_map. exact Hf.
Qed.

Lemma filter_map_length (p : B -> bool) l :
  length (filter p (map f l)) = length (filter (fun x => p (f x)) l).
Proof.
  induction l as [|x xs IH]; [reflexivity|]. cbn [map filter].
  destruct (p (f x)); cbn [length]; rewrite IH; reflexivity.
Qed.
End MapTransfer.

Lemma Forall_sig {A : Type} (P : A -> Prop) (l : list A) :
  Forall P l -> exists l' : list (sig P), map (@proj1_sig A P) l' = l.
Proof.
  induction 1 as [|x l Hx Hl [l' El']]; [exists []; reflexivity|].
  exists (exist P x Hx :: l'). cbn [map proj1_sig]. rewrite El'. reflexivity.
Qed.

(** [rank_data] commutes with a map that respects the comparisons *)
Section RankDataMap.
Context {V W : Type} (f : V -> W) (wltb weqb : W -> W -> bool).
Let vltb (a b : V) : bool := wltb (f a) (f b).
Let veqb (a b : V) : bool := weqb (f a) (f b).
Let g (p : V * nat) : W * nat := (f (fst p), snd p).

Lemma combine_map_l (v : list V) (s : list nat) : combine (map f v) s = map g (combine v s).
Proof.
  revert s. induction v as [|x xs IH]; intros [|n s]; cbn [map combine]; try reflexivity.
  rewrite IH. reflexivity.
Qed.

Lemma arg_sort_pairs_map v :
  arg_sort_pairs wltb weqb (map f v) = map g (arg_sort_pairs vltb veqb v).
Proof.
  unfold arg_sort_pairs. rewrite map_length, combine_map_l, isort_map. reflexivity.
Qed.

Lemma rank_groups_map l : forall prev start pos,
  rank_groups weqb (f prev) start pos (map g l) = rank_groups veqb prev start pos l.
Proof.
  induction l as [|[x i] xs IH]; intros prev start pos; [reflexivity|].
  cbn [map rank_groups g fst snd]. rewrite IH. reflexivity.
Qed.

Lemma rank_assoc_map v : rank_assoc wltb weqb (map f v) = rank_assoc vltb veqb v.
Proof.
  unfold rank_assoc. rewrite arg_sort_pairs_map.
  destruct (arg_sort_pairs vltb veqb v) as [|[x i] xs]; [reflexivity|].
  cbn [map g fst snd]. rewrite rank_groups_map. reflexivity.
Qed.

Lemma rank_data_map v : rank_data wltb weqb (map f v) = rank_data vltb veqb v.
Proof. unfold rank_data. rewrite rank_assoc_map, map_length. reflexivity. Qed.
End RankDataMap.

(** ** The order laws on the finite doubles *)
Definition finP (x : binary64) : Prop := is_finite 53 1024 x = true.

Lemma b64_ltb_true_iff (a b : binary64) : finP a -> finP b ->
  (b64_ltb a b = true <-> (B2R 53 1024 a < B2R 53 1024 b)%R).
Proof.
  intros Fa Fb. rewrite (FloatOrderL.b64_ltb_spec a b Fa Fb).
  destruct (Rlt_bool_spec (B2R 53 1024 a) (B2R 53 1024 b)) as [H|H]; split; intros H'; try reflexivity;
    try assumption; [discriminate H' | lra].
Qed.

Lemma b64_ltb_false_iff (a b : binary64) : finP a -> finP b ->
  (b64_ltb a b = false <-> (B2R 53 1024 b <= B2R 53 1024 a)%R).
Proof.
  intros Fa Fb. rewrite (FloatOrderL.b64_ltb_spec a b Fa Fb).
  destruct (Rlt_bool_spec (B2R 53 1024 a) (B2R 53 1024 b)) as [H|H]; split; intros H'; try reflexivity;
    try assumption; [discriminate H' | lra].
Qed.

Lemma b64_leb_true_iff (a b : binary64) : finP a -> finP b ->
  (b64_leb a b = true <-> (B2R 53 1024 a <= B2R 53 1024 b)%R).
Proof.
  intros Fa Fb. rewrite (FloatOrderL.b64_leb_spec a b Fa Fb).
  destruct (Rle_bool_spec (B2R 53 1024 a) (B2R 53 1024 b)) as [H|H]; split; intros H'; try reflexivity;
    try assumption; [discriminate H' | lra].
Qed.

Lemma b64_eqb_true_iff (a b : binary64) : finP a -> finP b ->
  (b64_eqb a b = true <-> B2R 53 1024 a = B2R 53 1024 b).
Proof.
  intros Fa Fb. unfold b64_eqb, b64_compare. rewrite (Bcompare_correct 53 1024 a b Fa Fb).
  destruct (Rcompare_spec (B2R 53 1024 a) (B2R 53 1024 b)) as [H|H|H]; split; intros H'; try reflexivity;
    try assumption; try discriminate H'; lra.
Qed.

Lemma b64_ltb_irrefl_fin x : finP x -> b64_ltb x x = false.
Proof. intros Fx. apply (b64_ltb_false_iff x x Fx Fx). apply Rle_refl. Qed.

Lemma b64_ltb_trans_fin x y z : finP x -> finP y -> finP z ->
  b64_ltb x y = true -> b64_ltb y z = true -> b64_ltb x z = true.
Proof.
  intros Fx Fy Fz. rewrite (b64_ltb_true_iff x y Fx Fy), (b64_ltb_true_iff y z Fy Fz), (b64_ltb_true_iff x z Fx Fz). lra.
Qed.

Lemma b64_eqb_spec_fin x y : finP x -> finP y ->
  (b64_eqb x y = true <-> (b64_ltb x y = false /\ b64_ltb y x = false)).
Proof.
  intros Fx Fy. rewrite (b64_eqb_true_iff x y Fx Fy), (b64_ltb_false_iff x y Fx Fy), (b64_ltb_false_iff y x Fy Fx). lra.
Qed.

Lemma b64_eqb_trans_fin x y z : finP x -> finP y -> finP z ->
  b64_eqb x y = true -> b64_eqb y z = true -> b64_eqb x z = true.
Proof.
  intros Fx Fy Fz. rewrite (b64_eqb_true_iff x y Fx Fy), (b64_eqb_true_iff y z Fy Fz), (b64_eqb_true_iff x z Fx Fz).
  congruence.
Qed.

Lemma b64_leb_negb_ltb_fin x y : finP x -> finP y -> b64_leb x y = negb (b64_ltb y x).
Proof.
  intros Fx Fy. destruct (b64_ltb y x) eqn:E; cbn [negb].
  - apply (b64_ltb_true_iff y x Fy Fx) in E. destruct (b64_leb x y) eqn:E'; [|reflexivity].
    apply (b64_leb_true_iff x y Fx Fy) in E'. lra.
  - apply (b64_ltb_false_iff y x Fy Fx) in E. apply (b64_leb_true_iff x y Fx Fy). exact E.
Qed.

Lemma b64_ltb_negtrans_fin x y z : finP x -> finP y -> finP z ->
  b64_ltb x z = true -> b64_ltb x y = true \/ b64_ltb y z = true.
Proof.
  intros Fx Fy Fz. rewrite (b64_ltb_true_iff x z Fx Fz), (b64_ltb_true_iff x y Fx Fy), (b64_ltb_true_iff y z Fy Fz).
  intros H. destruct (Rlt_le_dec (B2R 53 1024 x) (B2R 53 1024 y)) as [H1|H1]; [left; exact H1 | right; lra].
Qed.

(** the four laws of [C11] restricted to finite doubles, in one statement *)
Lemma b64_order_laws_fin :
  (forall x, finP x -> b64_ltb x x = false) /\
  (forall x y z, finP x -> finP y -> finP z -> b64_ltb x y = true -> b64_ltb y z = true -> b64_ltb x z = true) /\
  (forall x y, finP x -> finP y -> (b64_eqb x y = true <-> (b64_ltb x y = false /\ b64_ltb y x = false))) /\
  (forall x y z, finP x -> finP y -> finP z -> b64_eqb x y = true -> b64_eqb y z = true -> b64_eqb x z = true).
Proof.
  split; [exact b64_ltb_irrefl_fin|]. split; [exact b64_ltb_trans_fin|].
  split; [exact b64_eqb_spec_fin | exact b64_eqb_trans_fin].
Qed.

(** ** The subset type of finite doubles: the laws hold on the WHOLE type *)
Definition FD : Type := sig finP.
Definition fdv (a : FD) : binary64 := proj1_sig a.
Definition fd_ltb (a b : FD) : bool := b64_ltb (fdv a) (fdv b).
Definition fd_eqb (a b : FD) : bool := b64_eqb (fdv a) (fdv b).

Lemma fd_ltb_irrefl : forall x : FD, fd_ltb x x = false.
Proof. intros [x Fx]. exact (b64_ltb_irrefl_fin x Fx). Qed.
Lemma fd_ltb_trans : forall x y z : FD, fd_ltb x y = true -> fd_ltb y z = true -> fd_ltb x z = true.
Proof. intros [x Fx] [y Fy] [z Fz]. exact (b64_ltb_trans_fin x y z Fx Fy Fz). Qed.
Lemma fd_eqb_spec : forall x y : FD, fd_eqb x y = true <-> (fd_ltb x y = false /\ fd_ltb y x = false).
Proof. intros [x Fx] [y Fy]. exact (b64_eqb_spec_fin x y Fx Fy). Qed.
Lemma fd_eqb_trans : forall x y z : FD, fd_eqb x y = true -> fd_eqb y z = true -> fd_eqb x z = true.
Proof. intros [x Fx] [y Fy] [z Fz]. exact (b64_eqb_trans_fin x y z Fx Fy Fz). Qed.

(** a non-empty list of finite doubles is the image of a list over [FD] *)
Lemma fin_list_repr (v : list binary64) (d : binary64) :
  Forall finP v -> v <> [] ->
  exists (v' : list FD) (d' : FD),
    v = map fdv v' /\ forall k, k < length v -> nth k v d = fdv (nth k v' d').
Proof.
  intros Hv Hne. destruct (Forall_sig finP v Hv) as [v' E]. subst v.
  destruct v' as [|d' v'']; [exfalso; apply Hne; reflexivity|].
  exists (d' :: v''), d'. split; [reflexivity|].
  intros k Hk. rewrite (nth_indep _ d (fdv d') Hk). apply map_nth.
Qed.

Lemma rank_data_fd v' : rank_data b64_ltb b64_eqb (map fdv v') = rank_data fd_ltb fd_eqb v'.
Proof. apply (rank_data_map fdv b64_ltb b64_eqb). Qed.

Lemma rks_fd v' : RankDataL.rks b64_ltb b64_eqb (map fdv v') = RankDataL.rks fd_ltb fd_eqb v'.
Proof. unfold RankDataL.rks. rewrite rank_data_fd. reflexivity. Qed.

Lemma nonempty_of_lt {A} (v : list A) i : i < length v -> v <> [].
Proof. intros Hi E. subst v. cbn in Hi. lia. Qed.

(** ** [rank_data] on lists of finite doubles *)
Theorem rank_data_spec_b64 (v : list binary64) : Forall finP v ->
  forall (d : binary64) (i : nat), i < length v ->
    nth i (rank_data b64_ltb b64_eqb v) 0
    = S (length (filter (fun w => b64_ltb w (nth i v d)) v)).
Proof.
  intros Hv d i Hi.
  destruct (fin_list_repr v d Hv (nonempty_of_lt v i Hi)) as (v' & d' & E & Hn).
  rewrite (Hn i Hi). subst v. rewrite map_length in Hi.
  rewrite rank_data_fd, filter_map_length.
  exact (RankDataL.rank_data_spec fd_ltb fd_eqb fd_ltb_irrefl fd_ltb_trans fd_eqb_spec fd_eqb_trans v' d' i Hi).
Qed.

Lemma rank_data_length_b64 (v : list binary64) : length (rank_data b64_ltb b64_eqb v) = length v.
Proof. apply RankDataL.rank_data_length. Qed.

Theorem rks_order_b64 (v : list binary64) : Forall finP v ->
  forall d i j, i < length v -> j < length v ->
    b64_ltb (nth j v d) (nth i v d) = true ->
    nth i (RankDataL.rks b64_ltb b64_eqb v) 0 < nth j (RankDataL.rks b64_ltb b64_eqb v) 0.
Proof.
  intros Hv d i j Hi Hj.
  destruct (fin_list_repr v d Hv (nonempty_of_lt v i Hi)) as (v' & d' & E & Hn).
  rewrite (Hn i Hi), (Hn j Hj). subst v. rewrite map_length in Hi, Hj. rewrite rks_fd.
  exact (RankDataL.rks_order fd_ltb fd_eqb fd_ltb_irrefl fd_ltb_trans fd_eqb_spec fd_eqb_trans v' d' i j Hi Hj).
Qed.

Theorem rks_ties_b64 (v : list binary64) : Forall finP v ->
  forall d i j, i < length v -> j < length v ->
    b64_eqb (nth i v d) (nth j v d) = true ->
    nth i (RankDataL.rks b64_ltb b64_eqb v) 0 = nth j (RankDataL.rks b64_ltb b64_eqb v) 0.
Proof.
  intros Hv d i j Hi Hj.
  destruct (fin_list_repr v d Hv (nonempty_of_lt v i Hi)) as (v' & d' & E & Hn).
  rewrite (Hn i Hi), (Hn j Hj). subst v. rewrite map_length in Hi, Hj. rewrite rks_fd.
  exact (RankDataL.rks_ties fd_ltb fd_eqb fd_ltb_irrefl fd_ltb_trans fd_eqb_spec fd_eqb_trans v' d' i j Hi Hj).
Qed.

Theorem rks_best_b64 (v : list binary64) : Forall finP v ->
  forall d i, i < length v ->
    (forall j, j < length v -> b64_ltb (nth i v d) (nth j v d) = false) ->
    nth i (RankDataL.rks b64_ltb b64_eqb v) 0 = 1.
Proof.
  intros Hv d i Hi Hmax.
  destruct (fin_list_repr v d Hv (nonempty_of_lt v i Hi)) as (v' & d' & E & Hn).
  assert (Hmax' : forall j, j < length v' -> fd_ltb (nth i v' d') (nth j v' d') = false).
  { intros j Hj. assert (Hj' : j < length v) by (rewrite E, map_length; exact Hj).
    specialize (Hmax j Hj'). rewrite (Hn i Hi), (Hn j Hj') in Hmax. exact Hmax. }
  subst v. rewrite map_length in Hi. rewrite rks_fd.
  exact (RankDataL.rks_best fd_ltb fd_eqb fd_ltb_irrefl fd_ltb_trans fd_eqb_spec fd_eqb_trans v' d' i Hi Hmax').
Qed.

Theorem rks_bounds_b64 (v : list binary64) : Forall finP v ->
  forall i, i < length v -> 1 <= nth i (RankDataL.rks b64_ltb b64_eqb v) 0 <= length v.
Proof.
  intros Hv i Hi.
  destruct (Forall_sig finP v Hv) as [v' E]. subst v. change (@proj1_sig binary64 finP) with fdv in *.
  rewrite map_length in *. rewrite rks_fd.
  exact (RankDataL.rks_bounds fd_ltb fd_eqb fd_ltb_irrefl fd_ltb_trans fd_eqb_spec fd_eqb_trans v' i Hi).
Qed.

Lemma exists_maximal_b64 (v : list binary64) : Forall finP v ->
  forall d, v <> [] ->
  exists i, i < length v /\ forall j, j < length v -> b64_ltb (nth i v d) (nth j v d) = false.
Proof.
  intros Hv d Hne.
  destruct (fin_list_repr v d Hv Hne) as (v' & d' & E & Hn).
  destruct (RankDataL.exists_maximal fd_ltb fd_eqb fd_ltb_irrefl fd_ltb_trans fd_eqb_spec fd_eqb_trans v' d')
    as [i [Hi Hmax]].
  { intros E'. apply Hne. rewrite E, E'. reflexivity. }
  assert (L : length v = length v') by (rewrite E; apply map_length).
  exists i. split; [rewrite L; exact Hi|].
  intros j Hj. rewrite (Hn i) by (rewrite L; exact Hi). rewrite (Hn j Hj).
  apply Hmax. rewrite <- L. exact Hj.
Qed.

(** ** [predict_rank] on the binary64 instance, when its probabilities are finite doubles *)
Section PredictRankB64.
Variables f_exp f_erfc f_pow2 f_icdf : binary64 -> binary64.
Let N64 : Num binary64 := B64Num f_exp f_erfc f_pow2 f_icdf.
Variables (beta : binary64) (teams : list (list (rating binary64))).
Let probs : list binary64 := @predict_rank_probs binary64 N64 beta teams.
Let pr : list (nat * binary64) := @predict_rank binary64 N64 beta teams.
Hypothesis probs_fin : Forall finP probs.

Let pr_nth i d : nth i pr (0%nat, d) = (nth i (RankDataL.rks b64_ltb b64_eqb probs) 0, nth i probs d).
Proof. exact (@C11L.predict_rank_nth binary64 N64 beta teams i d). Qed.
Let probs_len : length probs = length teams.
Proof. exact (@C11L.probs_length binary64 N64 beta teams). Qed.

Lemma order_b64 i j d : i < length teams -> j < length teams ->
  b64_ltb (snd (nth j pr (0%nat, d))) (snd (nth i pr (0%nat, d))) = true ->
  fst (nth i pr (0%nat, d)) < fst (nth j pr (0%nat, d)).
Proof.
  rewrite !pr_nth. cbn [fst snd]. rewrite <- probs_len.
  apply rks_order_b64. exact probs_fin.
Qed.

Lemma ties_b64 i j d : i < length teams -> j < length teams ->
  b64_eqb (snd (nth i pr (0%nat, d))) (snd (nth j pr (0%nat, d))) = true ->
  fst (nth i pr (0%nat, d)) = fst (nth j pr (0%nat, d)).
Proof.
  rewrite !pr_nth. cbn [fst snd]. rewrite <- probs_len.
  apply rks_ties_b64. exact probs_fin.
Qed.

Lemma best_is_1_b64 i d : i < length teams ->
  (forall j, j < length teams ->
     b64_ltb (snd (nth i pr (0%nat, d))) (snd (nth j pr (0%nat, d))) = false) ->
  fst (nth i pr (0%nat, d)) = 1.
Proof.
  rewrite pr_nth. cbn [fst snd]. intros Hi Hmax. rewrite <- probs_len in Hi.
  apply (rks_best_b64 probs probs_fin d i Hi).
  intros j Hj. rewrite probs_len in Hj. specialize (Hmax j Hj).
  rewrite pr_nth in Hmax. exact Hmax.
Qed.

Lemma rank1_exists_b64 d : teams <> [] ->
  exists i, i < length teams /\ fst (nth i pr (0%nat, d)) = 1.
Proof.
  intros Hne.
  destruct (exists_maximal_b64 probs probs_fin d) as [i [Hi Hmax]].
  { intros E. apply Hne. pose proof probs_len as L. rewrite E in L. cbn in L.
    destruct teams; [reflexivity|discriminate]. }
  exists i. rewrite probs_len in Hi. split; [assumption|].
  apply best_is_1_b64; [assumption|]. intros j Hj. rewrite !pr_nth. cbn [snd].
  apply Hmax. rewrite probs_len. exact Hj.
Qed.

Lemma bounds_b64 i d : i < length teams -> 1 <= fst (nth i pr (0%nat, d)) <= length teams.
Proof.
  rewrite pr_nth. cbn [fst]. rewrite <- probs_len.
  apply rks_bounds_b64. exact probs_fin.
Qed.

Lemma prob_nth_fin i d : i < length teams -> finP (snd (nth i pr (0%nat, d))).
Proof.
  intros Hi. rewrite pr_nth. cbn [snd]. rewrite <- probs_len in Hi.
  exact (proj1 (Forall_forall finP probs) probs_fin _ (nth_In probs d Hi)).
Qed.

(** the same clauses read on the real values of the doubles *)
Lemma ranks_real_b64 i j d : i < length teams -> j < length teams ->
  ((B2R 53 1024 (snd (nth j pr (0%nat, d))) < B2R 53 1024 (snd (nth i pr (0%nat, d))))%R ->
     fst (nth i pr (0%nat, d)) < fst (nth j pr (0%nat, d)))
  /\ (B2R 53 1024 (snd (nth i pr (0%nat, d))) = B2R 53 1024 (snd (nth j pr (0%nat, d))) ->
     fst (nth i pr (0%nat, d)) = fst (nth j pr (0%nat, d)))
  /\ ((forall k, k < length teams ->
         (B2R 53 1024 (snd (nth k pr (0%nat, d))) <= B2R 53 1024 (snd (nth i pr (0%nat, d))))%R) ->
     fst (nth i pr (0%nat, d)) = 1)
  /\ 1 <= fst (nth i pr (0%nat, d)) <= length teams.
Proof.
  intros Hi Hj. pose proof (prob_nth_fin i d Hi) as Fi. pose proof (prob_nth_fin j d Hj) as Fj.
  split; [|split; [|split]].
  - intros H. apply (order_b64 i j d Hi Hj). apply (b64_ltb_true_iff _ _ Fj Fi). exact H.
  - intros H. apply (ties_b64 i j d Hi Hj). apply (b64_eqb_true_iff _ _ Fi Fj). exact H.
  - intros H. apply (best_is_1_b64 i d Hi). intros k Hk.
    apply (b64_ltb_false_iff _ _ Fi (prob_nth_fin k d Hk)). apply H. exact Hk.
  - apply bounds_b64. exact Hi.
Qed.
End PredictRankB64.

(** end to end: under the hypotheses of [FloatRangeL.rank_probs_range_b64] the probabilities are
    finite, so the clauses hold *)
Lemma predict_rank_order_b64
  (f_exp f_erfc f_pow2 f_icdf : binary64 -> binary64) :
  (forall x : binary64, is_finite 53 1024 x = true ->
     is_finite 53 1024 (f_erfc x) = true /\ (0 <= B2R 53 1024 (f_erfc x) <= 2)%R) ->
  forall (beta : binary64) (teams : list (list (rating binary64))),
  2 <= length teams -> (Z.of_nat (length teams) <= 2 ^ 20)%Z ->
  (forall (ro : list (rating binary64) * list (list (rating binary64))) (tb : list (rating binary64)),
     In ro (rows teams) -> In tb (snd ro) ->
     is_finite 53 1024
       (@fdiv binary64 (B64Num f_exp f_erfc f_pow2 f_icdf)
          (@fsub binary64 (B64Num f_exp f_erfc f_pow2 f_icdf)
             (@fsub binary64 (B64Num f_exp f_erfc f_pow2 f_icdf)
                (fst (@agg binary64 (B64Num f_exp f_erfc f_pow2 f_icdf) (fst ro)))
                (fst (@agg binary64 (B64Num f_exp f_erfc f_pow2 f_icdf) tb)))
             (@draw_margin binary64 (B64Num f_exp f_erfc f_pow2 f_icdf) beta teams))
          (@pair_scale binary64 (B64Num f_exp f_erfc f_pow2 f_icdf) beta (length teams)
             (@agg binary64 (B64Num f_exp f_erfc f_pow2 f_icdf) (fst ro))
             (@agg binary64 (B64Num f_exp f_erfc f_pow2 f_icdf) tb))) = true) ->
  forall (i j : nat) (d : binary64), i < length teams -> j < length teams ->
  let pr := @predict_rank binary64 (B64Num f_exp f_erfc f_pow2 f_icdf) beta teams in
  ((B2R 53 1024 (snd (nth j pr (0%nat, d))) < B2R 53 1024 (snd (nth i pr (0%nat, d))))%R ->
     fst (nth i pr (0%nat, d)) < fst (nth j pr (0%nat, d)))
  /\ (B2R 53 1024 (snd (nth i pr (0%nat, d))) = B2R 53 1024 (snd (nth j pr (0%nat, d))) ->
     fst (nth i pr (0%nat, d)) = fst (nth j pr (0%nat, d)))
  /\ ((forall k, k < length teams ->
         (B2R 53 1024 (snd (nth k pr (0%nat, d))) <= B2R 53 1024 (snd (nth i pr (0%nat, d))))%R) ->
     fst (nth i pr (0%nat, d)) = 1)
  /\ 1 <= fst (nth i pr (0%nat, d)) <= length teams.
Proof.
  intros Herfc beta teams Hn2 Hn20 Hargs i j d Hi Hj.
  apply ranks_real_b64; [|exact Hi|exact Hj].
  pose proof (FloatRangeL.rank_probs_range_b64 f_exp f_erfc f_pow2 f_icdf Herfc beta teams Hn2 Hn20 Hargs) as HR.
  eapply Forall_impl; [|exact HR]. intros p [Hp _]. exact Hp.
Qed.

(** ** C18: sorting rating objects whose ordinals are finite doubles *)
Section SortB64.
Variables f_exp f_erfc f_pow2 f_icdf : binary64 -> binary64.
Let N64 : Num binary64 := B64Num f_exp f_erfc f_pow2 f_icdf.

Definition ord64 (r : rating binary64) : binary64 := @ordinal binary64 N64 r (@fofZ binary64 N64 3).
Definition ordfin (r : rating binary64) : Prop := is_finite 53 1024 (ord64 r) = true.
Definition FR : Type := sig ordfin.
Definition frv (a : FR) : rating binary64 := proj1_sig a.

Let leb_fr (a b : FR) : bool := b64_leb (ord64 (frv a)) (ord64 (frv b)).

Lemma leb_fr_total : forall x y : FR, leb_fr x y = false -> leb_fr y x = true.
Proof.
  intros [x Fx] [y Fy]. unfold leb_fr, frv. cbn [proj1_sig]. intros H.
  apply (b64_leb_true_iff _ _ Fy Fx).
  destruct (Rle_lt_dec (B2R 53 1024 (ord64 x)) (B2R 53 1024 (ord64 y))) as [Hle|Hlt]; [|lra].
  apply (b64_leb_true_iff _ _ Fx Fy) in Hle. rewrite Hle in H. discriminate H.
Qed.

Lemma leb_fr_trans : forall x y z : FR, leb_fr x y = true -> leb_fr y z = true -> leb_fr x z = true.
Proof.
  intros [x Fx] [y Fy] [z Fz]. unfold leb_fr, frv. cbn [proj1_sig].
  rewrite (b64_leb_true_iff _ _ Fx Fy), (b64_leb_true_iff _ _ Fy Fz), (b64_leb_true_iff _ _ Fx Fz). lra.
Qed.

(** on FR the [<]-driven comparison is the [<=]-driven one *)
Lemma lt_le_fr (a b : FR) :
  negb (b64_ltb (ord64 (frv b)) (ord64 (frv a))) = leb_fr a b.
Proof.
  destruct a as [x Fx], b as [y Fy]. unfold leb_fr, frv. cbn [proj1_sig].
  symmetry. apply (b64_leb_negb_ltb_fin _ _ Fx Fy).
Qed.

Lemma sort_le_repr (k : kind) (l' : list FR) :
  isort (@C18L.le_leb binary64 N64 k) (map frv l') = map frv (isort leb_fr l').
Proof.
  rewrite (@C18L.sort_le_is_sort_by_ordinal binary64 N64 k). rewrite isort_map. reflexivity.
Qed.

Lemma sort_lt_repr (k : kind) (l' : list FR) :
  isort (@C18L.lt_leb binary64 N64 k) (map frv l') = map frv (isort leb_fr l').
Proof.
  rewrite (@C18L.sort_lt_is_sort_by_ordinal binary64 N64 k). rewrite isort_map.
  f_equal. apply C18L.isort_ext. intros a b. apply lt_le_fr.
Qed.

Lemma sorted_repr (l' : list FR) :
  Sorted (fun a b => b64_leb (ord64 a) (ord64 b) = true) (map frv (isort leb_fr l')).
Proof. apply Sorted_map. apply (C18L.isort_sorted leb_fr leb_fr_total). Qed.

Lemma strongly_sorted_repr (l' : list FR) :
  StronglySorted (fun a b => b64_leb (ord64 a) (ord64 b) = true) (map frv (isort leb_fr l')).
Proof. apply StronglySorted_map. apply (C18L.isort_strongly_sorted leb_fr leb_fr_total leb_fr_trans). Qed.

Lemma strongly_sorted_lt_b64 (k : kind) (l : list (rating binary64)) : Forall ordfin l ->
  StronglySorted (fun a b => b64_leb (ord64 a) (ord64 b) = true) (isort (@C18L.lt_leb binary64 N64 k) l)
  /\ Permutation l (isort (@C18L.lt_leb binary64 N64 k) l).
Proof.
  intros Hl. split; [|apply C18L.isort_perm].
  destruct (Forall_sig ordfin l Hl) as [l' E]. subst l. change (@proj1_sig _ ordfin) with frv.
  rewrite sort_lt_repr. apply strongly_sorted_repr.
Qed.

Lemma strongly_sorted_le_b64 (k : kind) (l : list (rating binary64)) : Forall ordfin l ->
  StronglySorted (fun a b => b64_leb (ord64 a) (ord64 b) = true) (isort (@C18L.le_leb binary64 N64 k) l)
  /\ Permutation l (isort (@C18L.le_leb binary64 N64 k) l).
Proof.
  intros Hl. split; [|apply C18L.isort_perm].
  destruct (Forall_sig ordfin l Hl) as [l' E]. subst l. change (@proj1_sig _ ordfin) with frv.
  rewrite sort_le_repr. apply strongly_sorted_repr.
Qed.

Lemma sorted_lt_b64 (k : kind) (l : list (rating binary64)) : Forall ordfin l ->
  Sorted (fun a b => b64_leb (ord64 a) (ord64 b) = true) (isort (@C18L.lt_leb binary64 N64 k) l)
  /\ Permutation l (isort (@C18L.lt_leb binary64 N64 k) l).
Proof.
  intros Hl. destruct (strongly_sorted_lt_b64 k l Hl) as [H1 H2]. split; [|exact H2].
  apply StronglySorted_Sorted. exact H1.
Qed.

Lemma sorted_le_b64 (k : kind) (l : list (rating binary64)) : Forall ordfin l ->
  Sorted (fun a b => b64_leb (ord64 a) (ord64 b) = true) (isort (@C18L.le_leb binary64 N64 k) l)
  /\ Permutation l (isort (@C18L.le_leb binary64 N64 k) l).
Proof.
  intros Hl. destruct (strongly_sorted_le_b64 k l Hl) as [H1 H2]. split; [|exact H2].
  apply StronglySorted_Sorted. exact H1.
Qed.
End SortB64.

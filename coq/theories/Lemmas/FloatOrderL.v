(** * FloatOrderL: order facts about the IEEE 754 binary64 operations (Flocq), and the
    float-level core of property C06: in binary64 arithmetic (round to nearest even), the
    new sigma computed by [update_player] is no larger than the old one, the clamp of
    [limit_sigma] caps sigma at the prior sigma, and the Bradley-Terry delta is >= 0.

    Everything is stated on [B2R] (the real value of a double) with finiteness hypotheses:
    "finite" = no overflow / no NaN.  The proofs use only Flocq's correctness theorems
    ([Bmult_correct], [Bplus_correct], [Bminus_correct], [Bdiv_correct], [Bsqrt_correct],
    [Bcompare_correct]) and the monotonicity of rounding ([round_le]) together with the fact
    that doubles are fixed points of rounding ([round_generic], [generic_format_B2R]). *)
From Coq Require Import List ZArith Bool Arith Reals Lra.
From Flocq Require Import Core.Raux Core.Defs Core.Zaux Core.Generic_fmt Core.FLT
  IEEE754.BinarySingleNaN IEEE754.Binary IEEE754.Bits.
From OSV Require Import Num Order Gauss Core FloatInst.
Import ListNotations.
Open Scope R_scope.

Notation fin := (is_finite 53 1024).
Notation RV := (B2R 53 1024).

(** ** Rounding to nearest even in binary64 *)
Definition rnd (x : R) : R := round radix2 (SpecFloat.fexp 53 1024) (round_mode mode_NE) x.

Local Instance prec64_gt_0 : FLX.Prec_gt_0 53 := Hprec64.
Local Instance fexp64_valid : Valid_exp (SpecFloat.fexp 53 1024) := fexp_correct 53 1024 Hprec64.

Lemma rnd_le (x y : R) : x <= y -> rnd x <= rnd y.
Proof. intros H. unfold rnd. apply round_le; [exact fexp64_valid | apply valid_rnd_round_mode | exact H]. Qed.

Lemma rnd_B2R (x : binary64) : rnd (RV x) = RV x.
Proof.
  unfold rnd. apply round_generic; [apply valid_rnd_round_mode|].
  apply (generic_format_B2R 53 1024).
Qed.

Lemma rnd_0 : rnd 0 = 0.
Proof. unfold rnd. apply round_0. apply valid_rnd_round_mode. Qed.

Lemma rnd_1 : rnd 1 = 1.
Proof.
  rewrite <- (Bone_correct 53 1024 Hprec64 Hmax64). apply rnd_B2R.
Qed.

Lemma rnd_ge_0 (x : R) : 0 <= x -> 0 <= rnd x.
Proof. intros H. rewrite <- rnd_0. apply rnd_le. exact H. Qed.

Lemma rnd_le_1 (x : R) : x <= 1 -> rnd x <= 1.
Proof. intros H. rewrite <- rnd_1. apply rnd_le. exact H. Qed.

Lemma rnd_ge_1 (x : R) : 1 <= x -> 1 <= rnd x.
Proof. intros H. rewrite <- rnd_1. apply rnd_le. exact H. Qed.

Lemma rnd_le_B2R (x : R) (b : binary64) : x <= RV b -> rnd x <= RV b.
Proof. intros H. rewrite <- (rnd_B2R b). apply rnd_le. exact H. Qed.

Lemma rnd_ge_B2R (x : R) (b : binary64) : RV b <= x -> RV b <= rnd x.
Proof. intros H. rewrite <- (rnd_B2R b). apply rnd_le. exact H. Qed.

(** a finite result is not the overflow value of round-to-nearest (an infinity) *)
Lemma finite_not_overflow (r : binary64) (s : bool) :
  fin r = true -> B2FF 53 1024 r = binary_overflow 53 1024 mode_NE s -> False.
Proof.
  intros Hf He. rewrite <- is_finite_B2FF in Hf. rewrite He in Hf.
  destruct s; vm_compute in Hf; discriminate Hf.
Qed.

(** ** The value of a finite result is the rounded exact result *)
Lemma b64_mult_val (x y : binary64) :
  fin (b64_mult mode_NE x y) = true ->
  RV (b64_mult mode_NE x y) = rnd (RV x * RV y) /\ fin x = true /\ fin y = true.
Proof.
  intros Hf.
  change (b64_mult mode_NE x y) with (Bmult 53 1024 Hprec64 Hmax64 binop_nan_pl64 mode_NE x y) in *.
  pose proof (Bmult_correct 53 1024 Hprec64 Hmax64 binop_nan_pl64 mode_NE x y) as H.
  destruct (Rlt_bool _ _) in H.
  - destruct H as (HR & HF & _). split; [exact HR|].
    rewrite Hf in HF. symmetry in HF. apply andb_true_iff in HF. exact HF.
  - exfalso. eapply finite_not_overflow; eassumption.
Qed.

Lemma b64_plus_val (x y : binary64) :
  fin x = true -> fin y = true -> fin (b64_plus mode_NE x y) = true ->
  RV (b64_plus mode_NE x y) = rnd (RV x + RV y).
Proof.
  intros Fx Fy Hf.
  change (b64_plus mode_NE x y) with (Bplus 53 1024 Hprec64 Hmax64 binop_nan_pl64 mode_NE x y) in *.
  pose proof (Bplus_correct 53 1024 Hprec64 Hmax64 binop_nan_pl64 mode_NE x y Fx Fy) as H.
  destruct (Rlt_bool _ _) in H.
  - destruct H as (HR & _). exact HR.
  - exfalso. destruct H as (H & _). eapply finite_not_overflow; eassumption.
Qed.

Lemma b64_minus_val (x y : binary64) :
  fin x = true -> fin y = true -> fin (b64_minus mode_NE x y) = true ->
  RV (b64_minus mode_NE x y) = rnd (RV x - RV y).
Proof.
  intros Fx Fy Hf.
  change (b64_minus mode_NE x y) with (Bminus 53 1024 Hprec64 Hmax64 binop_nan_pl64 mode_NE x y) in *.
  pose proof (Bminus_correct 53 1024 Hprec64 Hmax64 binop_nan_pl64 mode_NE x y Fx Fy) as H.
  destruct (Rlt_bool _ _) in H.
  - destruct H as (HR & _). exact HR.
  - exfalso. destruct H as (H & _). eapply finite_not_overflow; eassumption.
Qed.

Lemma b64_div_val (x y : binary64) :
  RV y <> 0 -> fin (b64_div mode_NE x y) = true ->
  RV (b64_div mode_NE x y) = rnd (RV x / RV y) /\ fin x = true.
Proof.
  intros Hy Hf.
  change (b64_div mode_NE x y) with (Bdiv 53 1024 Hprec64 Hmax64 binop_nan_pl64 mode_NE x y) in *.
  pose proof (Bdiv_correct 53 1024 Hprec64 Hmax64 binop_nan_pl64 mode_NE x y Hy) as H.
  destruct (Rlt_bool _ _) in H.
  - destruct H as (HR & HF & _). split; [exact HR|]. rewrite <- HF. exact Hf.
  - exfalso. eapply finite_not_overflow; eassumption.
Qed.

Lemma b64_sqrt_val (x : binary64) : RV (b64_sqrt mode_NE x) = rnd (sqrt (RV x)).
Proof.
  change (b64_sqrt mode_NE x) with (Bsqrt 53 1024 Hprec64 Hmax64 unop_nan_pl64 mode_NE x).
  exact (proj1 (Bsqrt_correct 53 1024 Hprec64 Hmax64 unop_nan_pl64 mode_NE x)).
Qed.

(** ** Item 1: order facts *)

(** x * y <= x for x >= 0 and 0 <= y <= 1 *)
Lemma b64_mult_le_l (x y : binary64) :
  fin (b64_mult mode_NE x y) = true -> 0 <= RV x -> 0 <= RV y <= 1 ->
  RV (b64_mult mode_NE x y) <= RV x.
Proof.
  intros Hf Hx Hy. destruct (b64_mult_val x y Hf) as (HR & _). rewrite HR.
  apply rnd_le_B2R.
  apply Rle_trans with (RV x * 1); [apply Rmult_le_compat_l; [exact Hx | apply Hy] | lra].
Qed.

Lemma b64_mult_nonneg (x y : binary64) :
  fin (b64_mult mode_NE x y) = true -> 0 <= RV x -> 0 <= RV y ->
  0 <= RV (b64_mult mode_NE x y).
Proof.
  intros Hf Hx Hy. destruct (b64_mult_val x y Hf) as (HR & _). rewrite HR.
  apply rnd_ge_0. apply Rmult_le_pos; assumption.
Qed.

Lemma b64_plus_nonneg (x y : binary64) :
  fin x = true -> fin y = true -> fin (b64_plus mode_NE x y) = true -> 0 <= RV x -> 0 <= RV y ->
  0 <= RV (b64_plus mode_NE x y).
Proof.
  intros Fx Fy Hf Hx Hy. rewrite (b64_plus_val x y Fx Fy Hf).
  apply rnd_ge_0. lra.
Qed.

Lemma b64_plus_ge_l (x y : binary64) :
  fin x = true -> fin y = true -> fin (b64_plus mode_NE x y) = true -> 0 <= RV y ->
  RV x <= RV (b64_plus mode_NE x y).
Proof.
  intros Fx Fy Hf Hy. rewrite (b64_plus_val x y Fx Fy Hf).
  apply rnd_ge_B2R. lra.
Qed.

Lemma b64_plus_ge_r (x y : binary64) :
  fin x = true -> fin y = true -> fin (b64_plus mode_NE x y) = true -> 0 <= RV x ->
  RV y <= RV (b64_plus mode_NE x y).
Proof.
  intros Fx Fy Hf Hx. rewrite (b64_plus_val x y Fx Fy Hf).
  apply rnd_ge_B2R. lra.
Qed.

Lemma b64_div_nonneg (x y : binary64) :
  fin (b64_div mode_NE x y) = true -> 0 <= RV x -> 0 < RV y ->
  0 <= RV (b64_div mode_NE x y).
Proof.
  intros Hf Hx Hy.
  destruct (b64_div_val x y (Rgt_not_eq _ _ Hy) Hf) as (HR & _). rewrite HR.
  apply rnd_ge_0. apply Rmult_le_pos; [exact Hx|].
  left. apply Rinv_0_lt_compat. exact Hy.
Qed.

(** 0 <= sqrt m <= 1 for 0 <= m <= 1 (needs no finiteness: sqrt never overflows) *)
Lemma b64_sqrt_01 (m : binary64) :
  0 <= RV m <= 1 -> 0 <= RV (b64_sqrt mode_NE m) <= 1.
Proof.
  intros Hm. rewrite b64_sqrt_val. split.
  - apply rnd_ge_0. apply sqrt_pos.
  - apply rnd_le_1. rewrite <- sqrt_1. apply sqrt_le_1_alt. apply Hm.
Qed.

Lemma b64_sqrt_nonneg (m : binary64) : 0 <= RV (b64_sqrt mode_NE m).
Proof. rewrite b64_sqrt_val. apply rnd_ge_0. apply sqrt_pos. Qed.

(** the double 1.0 *)
Lemma b64_one_val : RV (b64_of_Z 1) = 1.
Proof.
  replace (b64_of_Z 1) with (Bone 53 1024 Hprec64 Hmax64) by (apply B2FF_inj; vm_compute; reflexivity).
  apply Bone_correct.
Qed.

Lemma b64_one_fin : fin (b64_of_Z 1) = true.
Proof. vm_compute. reflexivity. Qed.

Lemma b64_zero_val : RV (b64_of_Z 0) = 0.
Proof.
  replace (b64_of_Z 0) with (B754_zero 53 1024 false) by (apply B2FF_inj; vm_compute; reflexivity).
  reflexivity.
Qed.

Lemma b64_zero_fin : fin (b64_of_Z 0) = true.
Proof. vm_compute. reflexivity. Qed.

(** 1 - a <= 1 for a >= 0; 1 - a >= 0 for a <= 1 *)
Lemma b64_one_minus_le_1 (a : binary64) :
  fin a = true -> fin (b64_minus mode_NE (b64_of_Z 1) a) = true -> 0 <= RV a ->
  RV (b64_minus mode_NE (b64_of_Z 1) a) <= 1.
Proof.
  intros Fa Hf Ha. rewrite (b64_minus_val _ a b64_one_fin Fa Hf), b64_one_val.
  apply rnd_le_1. lra.
Qed.

Lemma b64_one_minus_nonneg (a : binary64) :
  fin a = true -> fin (b64_minus mode_NE (b64_of_Z 1) a) = true -> RV a <= 1 ->
  0 <= RV (b64_minus mode_NE (b64_of_Z 1) a).
Proof.
  intros Fa Hf Ha. rewrite (b64_minus_val _ a b64_one_fin Fa Hf), b64_one_val.
  apply rnd_ge_0. lra.
Qed.

(** comparisons on finite doubles reflect the order of their real values *)
Lemma b64_ltb_spec (a b : binary64) :
  fin a = true -> fin b = true -> b64_ltb a b = Rlt_bool (RV a) (RV b).
Proof.
  intros Fa Fb. unfold b64_ltb, b64_compare.
  rewrite (Bcompare_correct 53 1024 a b Fa Fb). unfold Rlt_bool.
  destruct (Rcompare (RV a) (RV b)); reflexivity.
Qed.

Lemma b64_leb_spec (a b : binary64) :
  fin a = true -> fin b = true -> b64_leb a b = Rle_bool (RV a) (RV b).
Proof.
  intros Fa Fb. unfold b64_leb, b64_compare.
  rewrite (Bcompare_correct 53 1024 a b Fa Fb). unfold Rle_bool.
  destruct (Rcompare (RV a) (RV b)); reflexivity.
Qed.

Lemma b64_leb_true_le (a b : binary64) :
  fin a = true -> fin b = true -> b64_leb a b = true -> RV a <= RV b.
Proof.
  intros Fa Fb H. rewrite (b64_leb_spec a b Fa Fb) in H.
  destruct (Rle_bool_spec (RV a) (RV b)) as [Hle|Hlt]; [exact Hle | discriminate H].
Qed.

(** a finite sum / difference has finite operands *)
Lemma b64_plus_fin_inv (x y : binary64) :
  fin (b64_plus mode_NE x y) = true -> fin x = true /\ fin y = true.
Proof.
  unfold b64_plus, Bplus. rewrite is_finite_BSN2B.
  destruct x as [sx|sx|sx plx Hx|sx mx ex Hx], y as [sy|sy|sy ply Hy|sy my ey Hy];
    cbn; try (intros H; discriminate H); try (split; reflexivity);
    try (destruct (Bool.eqb _ _); intros H; discriminate H).
Qed.

Lemma b64_minus_fin_inv (x y : binary64) :
  fin (b64_minus mode_NE x y) = true -> fin x = true /\ fin y = true.
Proof.
  unfold b64_minus, Bminus. rewrite is_finite_BSN2B.
  destruct x as [sx|sx|sx plx Hx|sx mx ex Hx], y as [sy|sy|sy ply Hy|sy my ey Hy];
    cbn; try (intros H; discriminate H); try (split; reflexivity);
    try (destruct (Bool.eqb _ _); intros H; discriminate H).
Qed.

(** Python's [max(a, b)] ([b] iff [a < b], else [a]) on the double comparison *)
Definition b64_max (a b : binary64) : binary64 := if b64_ltb a b then b else a.

Lemma b64_max_val (a b : binary64) :
  fin a = true -> fin b = true ->
  RV (b64_max a b) = Rmax (RV a) (RV b) /\ fin (b64_max a b) = true.
Proof.
  intros Fa Fb. unfold b64_max. rewrite (b64_ltb_spec a b Fa Fb).
  destruct (Rlt_bool_spec (RV a) (RV b)) as [Hlt|Hge].
  - split; [|exact Fb]. rewrite Rmax_right; [reflexivity | lra].
  - split; [|exact Fa]. rewrite Rmax_left; [reflexivity | exact Hge].
Qed.

Lemma b64_max_le_1 (a b : binary64) :
  fin a = true -> fin b = true -> RV a <= 1 -> RV b <= 1 -> RV (b64_max a b) <= 1.
Proof.
  intros Fa Fb Ha Hb. rewrite (proj1 (b64_max_val a b Fa Fb)). apply Rmax_lub; assumption.
Qed.

(** sign-based positivity tests (for checking concrete doubles by computation) *)
Lemma b64_sign_nonneg (x : binary64) : Bsign 53 1024 x = false -> 0 <= RV x.
Proof.
  destruct x as [s|s|s pl H|s m e H]; cbn [B2R Bsign]; intros Hs; try apply Rle_refl.
  subst s. apply Float_prop.F2R_ge_0. cbn. apply Pos2Z.is_nonneg.
Qed.

Lemma b64_sign_pos (x : binary64) :
  is_finite_strict 53 1024 x = true -> Bsign 53 1024 x = false -> 0 < RV x.
Proof.
  destruct x as [s|s|s pl H|s m e H]; cbn [B2R Bsign is_finite_strict]; intros Hf Hs; try discriminate Hf.
  subst s. apply Float_prop.F2R_gt_0. cbn. apply Pos2Z.is_pos.
Qed.

Lemma b64_leb_one_le_1 (x : binary64) : fin x = true -> b64_leb x (b64_of_Z 1) = true -> RV x <= 1.
Proof. intros Fx H. rewrite <- b64_one_val. apply b64_leb_true_le; [exact Fx | exact b64_one_fin | exact H]. Qed.

(** ** The model on binary64 *)
Section Model.
Variables fe fc fp fi : binary64 -> binary64.
Notation BN := (B64Num fe fc fp fi).

Lemma b64_fmax_val (a b : binary64) :
  fin a = true -> fin b = true ->
  RV (@fmax binary64 BN a b) = Rmax (RV a) (RV b) /\ fin (@fmax binary64 BN a b) = true.
Proof. exact (b64_max_val a b). Qed.

Lemma b64_fmax_le_1 (a b : binary64) :
  fin a = true -> fin b = true -> RV a <= 1 -> RV b <= 1 -> RV (@fmax binary64 BN a b) <= 1.
Proof. exact (b64_max_le_1 a b). Qed.

(** ** Item 2: the local step.  sigma' = sigma * sqrt (max (1 - share * delta, kappa)), and in
    binary64 every factor is <= 1: share * delta >= 0 (rounding is monotone, 0 is a double), so
    1 - share * delta rounds to at most 1 (1 is a double); the max with kappa in [0,1] is in
    [0,1]; its correctly rounded square root is in [0,1]; and sigma * y for y in [0,1] rounds
    to at most sigma (sigma is a double). *)
Lemma sigma_factor_le_b64 (s sh d k : binary64) :
  fin k = true -> 0 <= RV k <= 1 ->
  0 <= RV s -> 0 <= RV sh -> 0 <= RV d ->
  fin (b64_mult mode_NE sh d) = true ->
  fin (b64_minus mode_NE (b64_of_Z 1) (b64_mult mode_NE sh d)) = true ->
  fin (b64_mult mode_NE s
         (b64_sqrt mode_NE (b64_max (b64_minus mode_NE (b64_of_Z 1) (b64_mult mode_NE sh d)) k))) = true ->
  0 <= RV (b64_mult mode_NE s
         (b64_sqrt mode_NE (b64_max (b64_minus mode_NE (b64_of_Z 1) (b64_mult mode_NE sh d)) k)))
    <= RV s.
Proof.
  intros Fk Hk Hs Hsh Hd Fsd Fom Fres.
  pose proof (b64_mult_nonneg sh d Fsd Hsh Hd) as Hsd.
  pose proof (b64_one_minus_le_1 _ Fsd Fom Hsd) as Hom.
  destruct (b64_max_val _ k Fom Fk) as (Hmv & Fm).
  assert (Hm : 0 <= RV (b64_max (b64_minus mode_NE (b64_of_Z 1) (b64_mult mode_NE sh d)) k) <= 1).
  { rewrite Hmv. split.
    - apply Rle_trans with (RV k); [apply Hk | apply Rmax_r].
    - apply Rmax_lub; [exact Hom | apply Hk]. }
  pose proof (b64_sqrt_01 _ Hm) as Hsq.
  split.
  - apply b64_mult_nonneg; [exact Fres | exact Hs | apply Hsq].
  - apply b64_mult_le_l; [exact Fres | exact Hs | exact Hsq].
Qed.

Lemma update_player_sigma_le_b64 (P : params binary64) (ti : trating binary64)
      (omega delta : binary64) (p : rating binary64) :
  0 <= RV (r_sigma p) ->
  0 <= RV (@fdiv binary64 BN (@fpow2 binary64 BN (r_sigma p)) (t_ss ti)) ->
  0 <= RV delta ->
  fin (p_kappa P) = true -> 0 <= RV (p_kappa P) <= 1 ->
  fin (@fmul binary64 BN (@fdiv binary64 BN (@fpow2 binary64 BN (r_sigma p)) (t_ss ti)) delta) = true ->
  fin (@fsub binary64 BN (@fone binary64 BN)
         (@fmul binary64 BN (@fdiv binary64 BN (@fpow2 binary64 BN (r_sigma p)) (t_ss ti)) delta)) = true ->
  fin (r_sigma (@update_player binary64 BN P ti omega delta p)) = true ->
  0 <= RV (r_sigma (@update_player binary64 BN P ti omega delta p)) <= RV (r_sigma p).
Proof.
  intros Hs Hsh Hd Fk Hk Fsd Fom Fres.
  exact (sigma_factor_le_b64 (r_sigma p) _ delta (p_kappa P) Fk Hk Hs Hsh Hd Fsd Fom Fres).
Qed.

(** the finiteness of the remaining intermediates follows from the three finiteness
    hypotheses above (a finite IEEE product has finite factors, ...) *)
Lemma update_player_intermediates_finite_b64 (P : params binary64) (ti : trating binary64)
      (omega delta : binary64) (p : rating binary64) :
  fin (p_kappa P) = true ->
  fin (@fmul binary64 BN (@fdiv binary64 BN (@fpow2 binary64 BN (r_sigma p)) (t_ss ti)) delta) = true ->
  fin (@fsub binary64 BN (@fone binary64 BN)
         (@fmul binary64 BN (@fdiv binary64 BN (@fpow2 binary64 BN (r_sigma p)) (t_ss ti)) delta)) = true ->
  fin (r_sigma (@update_player binary64 BN P ti omega delta p)) = true ->
  fin (r_sigma p) = true
  /\ fin (@fdiv binary64 BN (@fpow2 binary64 BN (r_sigma p)) (t_ss ti)) = true
  /\ fin delta = true
  /\ fin (@fmax binary64 BN (@fsub binary64 BN (@fone binary64 BN)
            (@fmul binary64 BN (@fdiv binary64 BN (@fpow2 binary64 BN (r_sigma p)) (t_ss ti)) delta))
            (p_kappa P)) = true
  /\ fin (@fsqrt binary64 BN (@fmax binary64 BN (@fsub binary64 BN (@fone binary64 BN)
            (@fmul binary64 BN (@fdiv binary64 BN (@fpow2 binary64 BN (r_sigma p)) (t_ss ti)) delta))
            (p_kappa P))) = true.
Proof.
  intros Fk Fsd Fom Fres.
  destruct (b64_mult_val _ _ Fsd) as (_ & Fsh & Fd).
  destruct (b64_mult_val _ _ Fres) as (_ & Fs & Fsq).
  repeat split; try assumption.
  exact (proj2 (b64_max_val _ _ Fom Fk)).
Qed.

(** ** Item 3: the clamp of [limit_sigma] *)
Lemma clamp_player_sigma_le_b64 (orig res : rating binary64) :
  fin (r_sigma orig) = true -> fin (r_sigma res) = true ->
  fin (r_sigma (@clamp_player binary64 BN orig res)) = true
  /\ RV (r_sigma (@clamp_player binary64 BN orig res)) <= RV (r_sigma orig)
  /\ RV (r_sigma (@clamp_player binary64 BN orig res)) <= RV (r_sigma res).
Proof.
  intros Fo Fr. unfold clamp_player.
  change (@fleb binary64 BN (r_sigma res) (r_sigma orig)) with (b64_leb (r_sigma res) (r_sigma orig)).
  rewrite (b64_leb_spec _ _ Fr Fo).
  destruct (Rle_bool_spec (RV (r_sigma res)) (RV (r_sigma orig))) as [Hle|Hlt].
  - split; [exact Fr|]. split; [exact Hle | apply Rle_refl].
  - cbn [set_sigma set_mu_sigma r_sigma]. split; [exact Fo|]. split; [apply Rle_refl | lra].
Qed.

(** ** Item 4: the Bradley-Terry delta is >= 0 in binary64 *)

(** p = 1 / (1 + e) is in [0,1] for e >= 0 *)
Lemma b64_logistic_01 (e : binary64) :
  fin e = true -> 0 <= RV e ->
  fin (b64_plus mode_NE (b64_of_Z 1) e) = true ->
  fin (b64_div mode_NE (b64_of_Z 1) (b64_plus mode_NE (b64_of_Z 1) e)) = true ->
  0 <= RV (b64_div mode_NE (b64_of_Z 1) (b64_plus mode_NE (b64_of_Z 1) e)) <= 1.
Proof.
  intros Fe He F1e Fp.
  assert (H1e : 1 <= RV (b64_plus mode_NE (b64_of_Z 1) e)).
  { rewrite (b64_plus_val _ e b64_one_fin Fe F1e), b64_one_val. apply rnd_ge_1. lra. }
  assert (Hnz : RV (b64_plus mode_NE (b64_of_Z 1) e) <> 0) by lra.
  destruct (b64_div_val _ _ Hnz Fp) as (HR & _). rewrite HR, b64_one_val.
  assert (Hinv : 0 < / RV (b64_plus mode_NE (b64_of_Z 1) e) <= 1).
  { split; [apply Rinv_0_lt_compat; lra|].
    apply Rle_trans with (/ 1); [apply Rinv_le_contravar; lra | rewrite Rinv_1; apply Rle_refl]. }
  split.
  - apply rnd_ge_0. unfold Rdiv. lra.
  - apply rnd_le_1. unfold Rdiv. lra.
Qed.

Lemma bt_term_delta_nonneg_b64 (P : params binary64) (trs : list (trating binary64))
      (ti : trating binary64) (od : binary64 * binary64) (tq : trating binary64) :
  (forall x : binary64, fin x = true -> 0 <= RV (fe x)) ->
  0 < RV (@c_iq binary64 BN P ti tq) ->
  0 <= RV (t_ss ti) ->
  0 <= RV (@gamma_of binary64 P (@c_iq binary64 BN P ti tq) trs ti) ->
  fin (@fdiv binary64 BN (@fsub binary64 BN (t_mu tq) (t_mu ti)) (@c_iq binary64 BN P ti tq)) = true ->
  fin (@fadd binary64 BN (@fone binary64 BN)
         (fe (@fdiv binary64 BN (@fsub binary64 BN (t_mu tq) (t_mu ti)) (@c_iq binary64 BN P ti tq)))) = true ->
  fin (snd od) = true -> 0 <= RV (snd od) ->
  fin (snd (@bt_term binary64 BN P trs ti od tq)) = true ->
  0 <= RV (snd (@bt_term binary64 BN P trs ti od tq)).
Proof.
  intros Hexp Hc Hss Hg Farg F1e Fod Hod Fres.
  set (c := @c_iq binary64 BN P ti tq) in *.
  set (g := @gamma_of binary64 P c trs ti) in *.
  set (e := fe (@fdiv binary64 BN (@fsub binary64 BN (t_mu tq) (t_mu ti)) c)) in *.
  assert (He : 0 <= RV e) by (apply Hexp; exact Farg).
  change (@fadd binary64 BN (@fone binary64 BN) e) with (b64_plus mode_NE (b64_of_Z 1) e) in F1e.
  destruct (b64_plus_fin_inv _ _ F1e) as (_ & Fe).
  set (p := b64_div mode_NE (b64_of_Z 1) (b64_plus mode_NE (b64_of_Z 1) e)).
  set (s2c := b64_div mode_NE (t_ss ti) c).
  change (snd (@bt_term binary64 BN P trs ti od tq))
    with (b64_plus mode_NE (snd od)
            (b64_mult mode_NE (b64_mult mode_NE (b64_div mode_NE (b64_mult mode_NE g s2c) c) p)
               (b64_minus mode_NE (b64_of_Z 1) p))) in *.
  destruct (b64_plus_fin_inv _ _ Fres) as (_ & Fterm).
  destruct (b64_mult_val _ _ Fterm) as (_ & Fq & F1p).
  destruct (b64_mult_val _ _ Fq) as (_ & Fd & Fp).
  destruct (b64_logistic_01 e Fe He F1e Fp) as (Hp0 & Hp1). fold p in Hp0, Hp1.
  pose proof (b64_one_minus_nonneg p Fp F1p Hp1) as H1p.
  assert (Hcnz : RV c <> 0) by lra.
  destruct (b64_div_val _ _ Hcnz Fd) as (_ & Fgs).
  destruct (b64_mult_val _ _ Fgs) as (_ & Fg & Fs2c).
  pose proof (b64_div_nonneg _ _ Fs2c Hss Hc) as Hs2c. fold s2c in Hs2c.
  pose proof (b64_mult_nonneg _ _ Fgs Hg Hs2c) as Hgs.
  pose proof (b64_div_nonneg _ _ Fd Hgs Hc) as Hd.
  pose proof (b64_mult_nonneg _ _ Fq Hd Hp0) as Hq.
  pose proof (b64_mult_nonneg _ _ Fterm Hq H1p) as Hterm.
  apply b64_plus_nonneg; assumption.
Qed.

(** the accumulated delta over a whole list of opponents *)
Lemma bt_delta_nonneg_b64 (P : params binary64) (trs : list (trating binary64))
      (ti : trating binary64) (opp : list (trating binary64)) :
  (forall x : binary64, fin x = true -> 0 <= RV (fe x)) ->
  0 <= RV (t_ss ti) ->
  (forall tq : trating binary64, In tq opp ->
     0 < RV (@c_iq binary64 BN P ti tq)
     /\ 0 <= RV (@gamma_of binary64 P (@c_iq binary64 BN P ti tq) trs ti)
     /\ fin (@fdiv binary64 BN (@fsub binary64 BN (t_mu tq) (t_mu ti)) (@c_iq binary64 BN P ti tq)) = true
     /\ fin (@fadd binary64 BN (@fone binary64 BN)
               (fe (@fdiv binary64 BN (@fsub binary64 BN (t_mu tq) (t_mu ti)) (@c_iq binary64 BN P ti tq)))) = true) ->
  (forall pre post : list (trating binary64), opp = pre ++ post ->
     fin (snd (fold_left (@bt_term binary64 BN P trs ti) pre (@fzero binary64 BN, @fzero binary64 BN))) = true) ->
  0 <= RV (snd (fold_left (@bt_term binary64 BN P trs ti) opp (@fzero binary64 BN, @fzero binary64 BN))).
Proof.
  intros Hexp Hss.
  induction opp as [|tq l IH] using rev_ind; intros Hin Hpre.
  - cbn [fold_left snd]. change (@fzero binary64 BN) with (b64_of_Z 0). rewrite b64_zero_val. apply Rle_refl.
  - rewrite fold_left_app. cbn [fold_left].
    assert (Htq : In tq (l ++ [tq])) by (apply in_or_app; right; left; reflexivity).
    destruct (Hin tq Htq) as (Hc & Hg & Farg & F1e).
    apply bt_term_delta_nonneg_b64; try assumption.
    + apply (Hpre l [tq]). reflexivity.
    + apply IH.
      * intros t Ht. apply Hin. apply in_or_app. left. exact Ht.
      * intros pre post E. apply (Hpre pre (post ++ [tq])). rewrite E, app_assoc. reflexivity.
    + specialize (Hpre (l ++ [tq]) [] (eq_sym (app_nil_r _))).
      rewrite fold_left_app in Hpre. exact Hpre.
Qed.

End Model.

(** * OmegaL: closed forms, over R, of the team-level mu increment [omega] that each of the
    five [_compute] rules hands to [update_team].

    [compute_nth_*]: the [i]-th output team of [compute k P trs] is
    [update_team P ti (omega, delta)] with [omega] given as a plain real sum:
    - BTF/TMF: [Rsum (map (bt_om P ti) (others i trs))] / [tm_om false];
    - BTP/TMP: the same over the ladder neighbours [nbrs i trs];
    - PL: [pl_sum i ti e qs * (t_ss ti / c)], [pl_sum] a sum of guarded terms over the
      index-tagged list [pl_qs].
    No Gaussian facts are used in this file. *)
From Coq Require Import List ZArith Bool Arith Reals Lra Lia Permutation.
From OSV Require Import Num Order Gauss Core RInst.
From OSV.Lemmas Require Import OrderL RateL.
Import ListNotations.
Open Scope R_scope.

(** ** list plumbing *)
Definition others {A} (i : nat) (l : list A) : list A := firstn i l ++ skipn (S i) l.
Definition nbrs {A} (i : nat) (l : list A) : list A :=
  opt_list (match i with O => None | S k => nth_error l k end) ++ opt_list (nth_error l (S i)).

Lemma rows_aux_nth {A} (pre l : list A) i x : nth_error l i = Some x ->
  nth_error (rows_aux pre l) i = Some (x, rev pre ++ others i l).
Proof.
  revert pre i. induction l as [|y ys IH]; intros pre [|i] E; cbn in E; try discriminate.
  - injection E as ->. reflexivity.
  - cbn [rows_aux nth_error]. rewrite (IH (y :: pre) i E). unfold others. cbn [rev firstn skipn].
    rewrite <- !app_assoc. reflexivity.
Qed.
Lemma rows_nth {A} (l : list A) i x : nth_error l i = Some x ->
  nth_error (rows l) i = Some (x, others i l).
Proof. intros E. unfold rows. now rewrite (rows_aux_nth [] l i x E). Qed.

Lemma ladder_aux_nth {A} (prev : option A) l i x : nth_error l i = Some x ->
  nth_error (ladder_aux prev l) i
  = Some (opt_list (match i with O => prev | S k => nth_error l k end) ++ opt_list (nth_error l (S i))).
Proof.
  revert prev i. induction l as [|y ys IH]; intros prev [|i] E; cbn in E; try discriminate.
  - cbn. destruct ys; reflexivity.
  - cbn [ladder_aux nth_error]. rewrite (IH (Some y) i E). destruct i; reflexivity.
Qed.
Lemma ladder_nth {A} (l : list A) i x : nth_error l i = Some x ->
  nth_error (ladder_pairs l) i = Some (nbrs i l).
Proof. intros E. unfold ladder_pairs, nbrs. now rewrite (ladder_aux_nth None l i x E). Qed.

Lemma nth_error_combine {A B} (l : list A) (l' : list B) i x y :
  nth_error l i = Some x -> nth_error l' i = Some y -> nth_error (combine l l') i = Some (x, y).
Proof.
  revert l' i. induction l as [|a l IH]; intros [|b l'] [|i] E E'; cbn in *; try discriminate.
  - congruence.
  - now apply IH.
Qed.

Lemma others_in {A} i (l : list A) y : In y (others i l) -> exists q, q <> i /\ nth_error l q = Some y.
Proof.
  unfold others. revert i. induction l as [|a l IH]; intros i H.
  - destruct i; cbn in H; contradiction.
  - destruct i as [|i].
    + cbn in H. apply In_nth_error in H. destruct H as [n Hn]. exists (S n). split; [lia|exact Hn].
    + cbn in H. destruct H as [<-|H].
      * exists O. split; [lia|reflexivity].
      * destruct (IH i H) as [q [Hq Eq]]. exists (S q). split; [lia|exact Eq].
Qed.
Lemma nbrs_in {A} i (l : list A) y : In y (nbrs i l) -> exists q, q <> i /\ nth_error l q = Some y.
Proof.
  unfold nbrs. intros H. apply in_app_or in H. destruct H as [H|H].
  - destruct i as [|k]; [contradiction|]. destruct (nth_error l k) eqn:E; cbn in H; [|contradiction].
    destruct H as [<-|[]]. exists k. split; [lia|exact E].
  - destruct (nth_error l (S i)) eqn:E; cbn in H; [|contradiction].
    destruct H as [<-|[]]. exists (S i). split; [lia|exact E].
Qed.
Lemma others_map {A B} (f : A -> B) i l : others i (map f l) = map f (others i l).
Proof. unfold others. now rewrite firstn_map, skipn_map, map_app. Qed.

Lemma nth_error_seq_combine {A} (l : list A) s i x : nth_error l i = Some x ->
  nth_error (combine (seq s (length l)) l) i = Some ((s + i)%nat, x).
Proof.
  revert s i. induction l as [|a l IH]; intros s [|i] E; cbn in *; try discriminate.
  - injection E as ->. now rewrite Nat.add_0_r.
  - rewrite (IH (S s) i E). f_equal. f_equal. lia.
Qed.
Lemma in_seq_combine {A} (l : list A) s q x : In (q, x) (combine (seq s (length l)) l) ->
  (s <= q)%nat /\ nth_error l (q - s) = Some x.
Proof.
  revert s. induction l as [|a l IH]; intros s H; cbn in H; [contradiction|].
  destruct H as [H|H].
  - injection H as <- <-. rewrite Nat.sub_diag. split; [lia|reflexivity].
  - destruct (IH (S s) H) as [H1 H2]. split; [lia|]. replace (q - s)%nat with (S (q - S s)) by lia. exact H2.
Qed.

Section OmegaL.
Variables Phi Phiinv : R -> R.
Local Hint Extern 0 (Num R) => exact (RInst.RN Phi Phiinv) : typeclass_instances.

(** the reflection lemmas of RInst, restated for this section's instance *)
Lemma fhalf_R : (fhalf : R) = / 2. Proof. exact (R_fhalf Phi Phiinv). Qed.
Lemma reduce_add_R l : reduce_add l = Rsum l. Proof. exact (R_reduce_add Phi Phiinv l). Qed.

(** ** the player-level split *)
Lemma update_player_mu P (ti : trating R) omega delta (p : rating R) :
  r_mu (update_player P ti omega delta p) = r_mu p + r_sigma p * r_sigma p / t_ss ti * omega.
Proof. reflexivity. Qed.

Lemma share_nth P (ti : trating R) omega delta j p : nth_error (t_team ti) j = Some p ->
  exists p', nth_error (update_team P ti (omega, delta)) j = Some p'
    /\ r_mu p' = r_mu p + r_sigma p * r_sigma p / t_ss ti * omega.
Proof.
  intros E. eexists. split; [unfold update_team; apply map_nth_error; exact E|]. reflexivity.
Qed.

Lemma share_nonneg (ti : trating R) (p : rating R) : 0 < t_ss ti -> 0 <= r_sigma p * r_sigma p / t_ss ti.
Proof.
  intros H. apply Rmult_le_pos; [nra|]. left. now apply Rinv_0_lt_compat.
Qed.

(** teams with the same members and the same [t_ss]: the mu's move with omega *)
Lemma update_team_mu_mono P (ti tj : trating R) om om' de de' :
  t_team ti = t_team tj -> t_ss ti = t_ss tj -> 0 < t_ss ti -> om <= om' ->
  Forall2 (fun p p' => r_mu p <= r_mu p') (update_team P ti (om, de)) (update_team P tj (om', de')).
Proof.
  intros Et Es Hs Ho. unfold update_team. rewrite <- Et. cbn [fst snd]. clear Et.
  generalize (t_team ti) as l. induction l as [|p l IH]; cbn [map]; constructor; [|exact IH].
  rewrite !update_player_mu, <- Es. pose proof (share_nonneg ti p Hs). nra.
Qed.
Lemma update_team_mu_up P (ti : trating R) om de : 0 < t_ss ti -> 0 <= om ->
  Forall2 (fun p p' => r_mu p <= r_mu p') (t_team ti) (update_team P ti (om, de)).
Proof.
  intros Hs Ho. unfold update_team. cbn [fst snd].
  generalize (t_team ti) as l. induction l as [|p l IH]; cbn [map]; constructor; [|exact IH].
  rewrite update_player_mu. pose proof (share_nonneg ti p Hs). nra.
Qed.
Lemma update_team_mu_down P (ti : trating R) om de : 0 < t_ss ti -> om <= 0 ->
  Forall2 (fun p p' => r_mu p' <= r_mu p) (t_team ti) (update_team P ti (om, de)).
Proof.
  intros Hs Ho. unfold update_team. cbn [fst snd].
  generalize (t_team ti) as l. induction l as [|p l IH]; cbn [map]; constructor; [|exact IH].
  rewrite update_player_mu. pose proof (share_nonneg ti p Hs). nra.
Qed.

(** ** pairwise models *)
Definition bt_s (ri rq : nat) : R :=
  if Nat.ltb ri rq then 1 else if Nat.eqb rq ri then / 2 else 0.
Definition bt_p (P : params R) (ti tq : trating R) : R :=
  1 / (1 + exp ((t_mu tq - t_mu ti) / c_iq P ti tq)).
Definition bt_om (P : params R) (ti tq : trating R) : R :=
  t_ss ti / c_iq P ti tq * (bt_s (t_rank ti) (t_rank tq) - bt_p P ti tq).

Definition tm_c (two_c : bool) (P : params R) (ti tq : trating R) : R :=
  if two_c then 2 * c_iq P ti tq else c_iq P ti tq.
Definition tm_x two_c P (ti tq : trating R) : R := (t_mu ti - t_mu tq) / tm_c two_c P ti tq.
Definition tm_t two_c (P : params R) (ti tq : trating R) : R := p_kappa P / tm_c two_c P ti tq.
Definition tm_g (ri rq : nat) (x t : R) : R :=
  if Nat.ltb ri rq then v x t else if Nat.ltb rq ri then - v (- x) t else vt x t.
Definition tm_om (two_c : bool) (P : params R) (ti tq : trating R) : R :=
  t_ss ti / tm_c two_c P ti tq * tm_g (t_rank ti) (t_rank tq) (tm_x two_c P ti tq) (tm_t two_c P ti tq).

Lemma bt_term_fst P trs ti od tq : fst (bt_term P trs ti od tq) = fst od + bt_om P ti tq.
Proof.
  unfold bt_term, bt_om, bt_s, bt_p. cbn [fst]. rewrite fhalf_R.
  cbn [fadd fmul fdiv fsub fexp fone fzero fofZ RInst.RN RNum].
  destruct (Nat.ltb _ _); [reflexivity|]. destruct (Nat.eqb _ _); reflexivity.
Qed.
Lemma tm_term_fst two_c P trs ti od tq : fst (tm_term two_c P trs ti od tq) = fst od + tm_om two_c P ti tq.
Proof.
  unfold tm_term, tm_om, tm_g, tm_x, tm_t, tm_c.
  destruct two_c; (destruct (Nat.ltb (t_rank ti) (t_rank tq)); [|destruct (Nat.ltb (t_rank tq) (t_rank ti))]);
    cbn [fst fadd fmul fdiv fsub fneg ftwo fofZ RInst.RN RNum]; ring.
Qed.

Lemma fold_fst_sum (term : R * R -> trating R -> R * R) (om : trating R -> R) l od :
  (forall od tq, fst (term od tq) = fst od + om tq) ->
  fst (fold_left term l od) = fst od + Rsum (map om l).
Proof.
  intros H. revert od. induction l as [|x l IH]; intros od; cbn [fold_left map Rsum]; [lra|].
  rewrite IH, H. lra.
Qed.

Lemma compute_pairs_nth term opp P i ti (os : list (trating R)) : nth_error opp i = Some (ti, os) ->
  nth_error (compute_pairs term opp P) i = Some (update_team P ti (fold_left (term ti) os (fzero, fzero))).
Proof. intros E. unfold compute_pairs. now rewrite (map_nth_error _ _ _ E). Qed.

Lemma opponents_full_nth (trs : list (trating R)) i ti : nth_error trs i = Some ti ->
  nth_error (opponents_full trs) i = Some (ti, others i trs).
Proof. apply rows_nth. Qed.
Lemma opponents_part_nth (trs : list (trating R)) i ti : nth_error trs i = Some ti ->
  nth_error (opponents_part trs) i = Some (ti, nbrs i trs).
Proof. intros E. unfold opponents_part. apply nth_error_combine; [exact E|]. now apply (ladder_nth trs i ti). Qed.

Definition pair_opps (k : kind) (i : nat) (trs : list (trating R)) : list (trating R) :=
  match k with BTP | TMP => nbrs i trs | _ => others i trs end.
Definition pair_om (k : kind) (P : params R) (ti tq : trating R) : R :=
  match k with BTF | BTP => bt_om P ti tq | TMF => tm_om false P ti tq | TMP => tm_om true P ti tq | PL => 0 end.

Lemma compute_nth_pairs k P trs i ti : k <> PL -> nth_error trs i = Some ti ->
  exists delta, nth_error (compute k P trs) i
    = Some (update_team P ti (Rsum (map (pair_om k P ti) (pair_opps k i trs)), delta)).
Proof.
  intros Hk E. destruct k; [congruence| | | |]; cbn [compute pair_opps pair_om].
  - rewrite (compute_pairs_nth _ _ _ _ _ _ (opponents_full_nth trs i ti E)).
    eexists. f_equal. f_equal. apply injective_projections; cbn [fst snd]; [|reflexivity].
    rewrite (fold_fst_sum _ (bt_om P ti)); [cbn [fst fzero fofZ RInst.RN RNum]; rewrite Rplus_0_l; reflexivity|]. intros; apply bt_term_fst.
  - rewrite (compute_pairs_nth _ _ _ _ _ _ (opponents_part_nth trs i ti E)).
    eexists. f_equal. f_equal. apply injective_projections; cbn [fst snd]; [|reflexivity].
    rewrite (fold_fst_sum _ (bt_om P ti)); [cbn [fst fzero fofZ RInst.RN RNum]; rewrite Rplus_0_l; reflexivity|]. intros; apply bt_term_fst.
  - rewrite (compute_pairs_nth _ _ _ _ _ _ (opponents_full_nth trs i ti E)).
    eexists. f_equal. f_equal. apply injective_projections; cbn [fst snd]; [|reflexivity].
    rewrite (fold_fst_sum _ (tm_om false P ti)); [cbn [fst fzero fofZ RInst.RN RNum]; rewrite Rplus_0_l; reflexivity|]. intros; apply tm_term_fst.
  - rewrite (compute_pairs_nth _ _ _ _ _ _ (opponents_part_nth trs i ti E)).
    eexists. f_equal. f_equal. apply injective_projections; cbn [fst snd]; [|reflexivity].
    rewrite (fold_fst_sum _ (tm_om true P ti)); [cbn [fst fzero fofZ RInst.RN RNum]; rewrite Rplus_0_l; reflexivity|]. intros; apply tm_term_fst.
Qed.

(** every opponent in the sum is another team of the game *)
Lemma pair_opps_in k i (trs : list (trating R)) tq : In tq (pair_opps k i trs) ->
  exists q, q <> i /\ nth_error trs q = Some tq.
Proof. destruct k; cbn [pair_opps]; first [apply others_in | apply nbrs_in]. Qed.

Lemma c_iq_pos P (ti tq : trating R) : 0 < t_ss ti -> 0 < t_ss tq -> 0 < c_iq P ti tq.
Proof.
  intros Hi Hq. unfold c_iq. cbn [fsqrt fadd fmul fpow2 ftwo fofZ RInst.RN RNum].
  apply sqrt_lt_R0. nra.
Qed.
Lemma tm_c_pos two_c P (ti tq : trating R) : 0 < t_ss ti -> 0 < t_ss tq -> 0 < tm_c two_c P ti tq.
Proof. intros Hi Hq. pose proof (c_iq_pos P ti tq Hi Hq). unfold tm_c. destruct two_c; lra. Qed.

(** ** Plackett-Luce *)
Definition pl_e (c : R) (t : trating R) : R := exp (t_mu t / c).
Definition pl_S (trs : list (trating R)) (c : R) (tq : trating R) : R :=
  Rsum (map (pl_e c) (filter (fun ti => Nat.leb (t_rank tq) (t_rank ti)) trs)).
Definition pl_A (trs : list (trating R)) (tq : trating R) : nat :=
  length (filter (fun t => Nat.eqb (t_rank tq) (t_rank t)) trs).
(** the term that team [q] contributes to team [i]'s omega *)
Definition pl_tm (trs : list (trating R)) (c : R) (i : nat) (ti : trating R) (qt : nat * trating R) : R :=
  if Nat.leb (t_rank (snd qt)) (t_rank ti) then
    (if Nat.eqb (fst qt) i then (1 - pl_e c ti / pl_S trs c (snd qt)) / INR (pl_A trs (snd qt))
     else - (pl_e c ti / pl_S trs c (snd qt) / INR (pl_A trs (snd qt))))
  else 0.
Definition pl_sum (trs : list (trating R)) (c : R) (i : nat) (ti : trating R) : R :=
  Rsum (map (pl_tm trs c i ti) (combine (seq 0 (length trs)) trs)).

Definition pl_pack (trs : list (trating R)) (c : R) (it : nat * trating R) : nat * (trating R * (R * nat)) :=
  (fst it, (snd it, (pl_S trs c (snd it), pl_A trs (snd it)))).

Lemma pl_qs_eq (trs : list (trating R)) c :
  combine (seq 0 (length trs)) (combine trs (combine (pl_sum_q trs c) (pl_a trs)))
  = map (pl_pack trs c) (combine (seq 0 (length trs)) trs).
Proof.
  unfold pl_sum_q, pl_a. rewrite combine_map_same.
  rewrite <- (map_id trs) at 2. rewrite combine_map_same.
  rewrite <- (map_id (seq 0 (length trs))) at 1. rewrite combine_map.
  apply map_ext. intros [q tq]. unfold pl_pack, pl_S, pl_A, pl_e. cbn [fst snd].
  rewrite reduce_add_R. reflexivity.
Qed.

Lemma pl_step_fst trs c i ti od it :
  fst (pl_step i ti (pl_e c ti) od (pl_pack trs c it)) = fst od + pl_tm trs c i ti it.
Proof.
  unfold pl_step, pl_tm, pl_pack. cbn [fst snd]. rewrite <- INR_IZR_INZ.
  destruct (Nat.leb _ _); [|lra]. destruct (Nat.eqb _ _); cbn [fst fadd fsub fdiv fone fofZ RInst.RN RNum]; lra.
Qed.

Lemma compute_nth_pl P trs i ti : nth_error trs i = Some ti ->
  exists delta, nth_error (compute PL P trs) i
    = Some (update_team P ti (pl_sum trs (pl_c P trs) i ti * (t_ss ti / pl_c P trs), delta)).
Proof.
  intros E. cbn [compute]. unfold compute_pl. rewrite pl_qs_eq.
  pose proof (nth_error_seq_combine trs 0 i ti E) as E2. cbn [Nat.add] in E2.
  rewrite (map_nth_error _ _ _ (map_nth_error (pl_pack trs (pl_c P trs)) _ _ E2)).
  cbn [pl_pack fst snd]. unfold pl_omega_delta. eexists. f_equal. f_equal.
  apply injective_projections; cbn [fst snd]; [|reflexivity].
  cbn [fmul fdiv RInst.RN RNum]. f_equal.
  change (fexp (fdiv (t_mu ti) (pl_c P trs))) with (pl_e (pl_c P trs) ti).
  unfold pl_sum. generalize (combine (seq 0 (length trs)) trs) as l. intros l.
  enough (G : forall od, fst (fold_left (pl_step i ti (pl_e (pl_c P trs) ti)) (map (pl_pack trs (pl_c P trs)) l) od)
                 = fst od + Rsum (map (pl_tm trs (pl_c P trs) i ti) l)).
  { rewrite G. cbn. lra. }
  induction l as [|x l IH]; intros od; cbn [map fold_left Rsum]; [lra|].
  rewrite IH, pl_step_fst. lra.
Qed.

Lemma pl_c_pos P (trs : list (trating R)) : trs <> [] -> Forall (fun t => 0 < t_ss t) trs -> 0 < pl_c P trs.
Proof.
  intros Hne Hs. unfold pl_c. cbn [fsqrt RInst.RN RNum]. apply sqrt_lt_R0.
  assert (G : forall acc l, Forall (fun t : trating R => 0 < t_ss t) l -> 0 <= acc ->
     acc <= fold_left (fun acc t => fadd acc (fadd (t_ss t) (fpow2 (p_beta P)))) l acc
     /\ (l <> [] -> acc < fold_left (fun acc t => fadd acc (fadd (t_ss t) (fpow2 (p_beta P)))) l acc)).
  { intros acc l Hl. revert acc. induction Hl as [|t l Ht Hl IH]; intros acc Ha; cbn [fold_left].
    - split; [lra|congruence].
    - cbn [fadd fpow2 RInst.RN RNum].
      assert (Hb : 0 <= p_beta P * p_beta P) by nra.
      destruct (IH (acc + (t_ss t + p_beta P * p_beta P))) as [I1 _]; [lra|].
      cbn [fadd fpow2 RInst.RN RNum] in I1. split; [lra|intros _; lra]. }
  destruct (G fzero trs Hs) as [_ G2]; [cbn; lra|]. exact (G2 Hne).
Qed.

End OmegaL.

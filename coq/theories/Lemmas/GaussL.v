(** * GaussL: general consequences of [GaussFacts] (reusable).

    Everything here is stated with the quotients written out
    ([phi x / Phi x] is the function V of Weng & Lin, [phi x / Phi x *
    (phi x / Phi x + x)] is W), for a standard normal distribution function
    [Phi] about which only the record [GaussFacts Phi Phiinv] is assumed.
    No definition is introduced; nothing is an axiom.

    Contents
    - [phi]: [phi_nonneg], [phi_le_abs], [phi_lt_abs], [phi_le_phi0]
    - [Phi]: [Phi_pos], [Phi_lt_1], [Phi_neq_0], [Phi_0], [Phi_le], [Phi_lt_inv],
      [Phi_le_inv], [Phi_inj], [Phi_diff_pos], [Phi_diff_nonneg], [Phi_diff_lt_1],
      [Phi_neg_lt_half], [Phi_pos_gt_half], [Phi_diff_pos_inv]
    - the guard: [Phi_lt_eps_lt_m8]  (Phi y < 2^-52 -> y < -8)
    - V and W: [V_pos], [V_plus_pos], [V_gt_neg], [W_pos], [W_lt_1],
      [V_upper_neg], [V_lower2_neg], [V_minus_window_neg], [W_lower_neg]
    - truncated mean: [trunc_mean_in_window], [trunc_mean_abs_le],
      [trunc_var_range], [window_sym], [window_abs], [window_mass_pos_iff]  *)
From Coq Require Import Reals Lra.
From OSV Require Import Num Gauss RInst.
Open Scope R_scope.

(** ** Facts about the density alone (no hypothesis). *)
Lemma phi_nonneg x : 0 <= phi x.
Proof. pose proof (phi_pos x). lra. Qed.

Lemma phi_lt_sqr x y : x * x < y * y -> phi y < phi x.
Proof.
  intros H. unfold phi. pose proof sqrt_2PI_pos as Hs.
  apply Rmult_lt_compat_r; [apply Rinv_0_lt_compat; exact Hs|].
  apply exp_increasing. lra.
Qed.

Lemma phi_le_sqr x y : x * x <= y * y -> phi y <= phi x.
Proof.
  intros [H|H]; [left; apply phi_lt_sqr; exact H|].
  right. unfold phi. rewrite H. reflexivity.
Qed.

Lemma phi_le_abs x y : Rabs x <= Rabs y -> phi y <= phi x.
Proof. intros H. apply phi_le_sqr. apply Rsqr_le_abs_1 in H. exact H. Qed.

Lemma phi_lt_abs x y : Rabs x < Rabs y -> phi y < phi x.
Proof. intros H. apply phi_lt_sqr. apply Rsqr_lt_abs_1 in H. exact H. Qed.

Lemma phi_le_phi0 x : phi x <= phi 0.
Proof. apply phi_le_sqr. nra. Qed.

Section GaussL.
Variables Phi Phiinv : R -> R.
Hypothesis GF : GaussFacts Phi Phiinv.

(** ** The distribution function. *)
Lemma Phi_pos x : 0 < Phi x.
Proof. apply (gf_range _ _ GF x). Qed.

Lemma Phi_lt_1 x : Phi x < 1.
Proof. apply (gf_range _ _ GF x). Qed.

Lemma Phi_neq_0 x : Phi x <> 0.
Proof. pose proof (Phi_pos x). lra. Qed.

Lemma Phi_0 : Phi 0 = / 2.
Proof. pose proof (gf_sym _ _ GF 0) as H. rewrite Ropp_0 in H. lra. Qed.

Lemma Phi_le x y : x <= y -> Phi x <= Phi y.
Proof. intros [H|H]; [left; apply (gf_mono _ _ GF); exact H | subst; lra]. Qed.

Lemma Phi_lt_inv x y : Phi x < Phi y -> x < y.
Proof.
  intros H. destruct (Rlt_le_dec x y) as [L|L]; [exact L|].
  apply Phi_le in L. lra.
Qed.

Lemma Phi_le_inv x y : Phi x <= Phi y -> x <= y.
Proof.
  intros H. destruct (Rle_lt_dec x y) as [L|L]; [exact L|].
  apply (gf_mono _ _ GF) in L. lra.
Qed.

Lemma Phi_inj x y : Phi x = Phi y -> x = y.
Proof. intros H. apply Rle_antisym; apply Phi_le_inv; lra. Qed.

Lemma Phi_diff_pos a b : a < b -> 0 < Phi b - Phi a.
Proof. intros H. apply (gf_mono _ _ GF) in H. lra. Qed.

Lemma Phi_diff_nonneg a b : a <= b -> 0 <= Phi b - Phi a.
Proof. intros H. apply Phi_le in H. lra. Qed.

Lemma Phi_diff_pos_inv a b : 0 < Phi b - Phi a -> a < b.
Proof. intros H. apply Phi_lt_inv. lra. Qed.

Lemma Phi_diff_lt_1 a b : Phi b - Phi a < 1.
Proof. pose proof (Phi_pos a). pose proof (Phi_lt_1 b). lra. Qed.

Lemma Phi_neg_lt_half x : x < 0 -> Phi x < / 2.
Proof. intros H. apply (gf_mono _ _ GF) in H. rewrite Phi_0 in H. exact H. Qed.

Lemma Phi_pos_gt_half x : 0 < x -> / 2 < Phi x.
Proof. intros H. apply (gf_mono _ _ GF) in H. rewrite Phi_0 in H. exact H. Qed.

(** the library's epsilon guard [Phi y < 2^-52] is only taken below -8 *)
Lemma Phi_lt_eps_lt_m8 y : Phi y < / 4503599627370496 -> y < - 8.
Proof.
  intros H. apply Phi_lt_inv. pose proof (gf_tail8 _ _ GF). lra.
Qed.

(** ** V = phi / Phi and W = V (V + x). *)
Lemma V_pos x : 0 < phi x / Phi x.
Proof. apply Rdiv_lt_0_compat; [apply phi_pos | apply Phi_pos]. Qed.

Lemma V_plus_eq x : phi x / Phi x + x = (phi x + x * Phi x) / Phi x.
Proof. field. apply Phi_neq_0. Qed.

(** Mills: V x + x > 0 *)
Lemma V_plus_pos x : 0 < phi x / Phi x + x.
Proof.
  rewrite V_plus_eq. apply Rdiv_lt_0_compat; [apply (gf_mills _ _ GF) | apply Phi_pos].
Qed.

Lemma V_gt_neg x : - x < phi x / Phi x.
Proof. pose proof (V_plus_pos x). lra. Qed.

Lemma W_eq x :
  phi x / Phi x * (phi x / Phi x + x) = phi x * (phi x + x * Phi x) / (Phi x * Phi x).
Proof. field. apply Phi_neq_0. Qed.

Lemma W_pos x : 0 < phi x / Phi x * (phi x / Phi x + x).
Proof. apply Rmult_lt_0_compat; [apply V_pos | apply V_plus_pos]. Qed.

(** Sampford: W < 1 *)
Lemma W_lt_1 x : phi x / Phi x * (phi x / Phi x + x) < 1.
Proof.
  rewrite W_eq. pose proof (Phi_pos x) as Hp.
  assert (0 < Phi x * Phi x) as Hpp by (apply Rmult_lt_0_compat; exact Hp).
  apply (Rmult_lt_reg_r (Phi x * Phi x)); [exact Hpp|].
  unfold Rdiv. rewrite Rmult_assoc, Rinv_l, Rmult_1_r, Rmult_1_l by lra.
  apply (gf_sampford _ _ GF).
Qed.

(** first convergent from above: for x < 0, V x < -x + 1/(-x) *)
Lemma V_upper_neg x : x < 0 -> phi x / Phi x < - x + / - x.
Proof.
  intros Hx. pose proof (Phi_pos x) as Hp. pose proof (gf_mills_up _ _ GF x Hx) as H.
  assert (0 < - x) as Hn by lra.
  apply (Rmult_lt_reg_r (Phi x * - x)); [apply Rmult_lt_0_compat; assumption|].
  replace (phi x / Phi x * (Phi x * - x)) with (phi x * - x) by (field; lra).
  replace ((- x + / - x) * (Phi x * - x)) with ((x * x + 1) * Phi x) by (field; lra).
  exact H.
Qed.

(** second convergent from below: for x < 0, with s = -x, V x > s + s/(s^2+2) *)
Lemma V_lower2_neg x : x < 0 -> - x + - x / (x * x + 2) < phi x / Phi x.
Proof.
  intros Hx. pose proof (Phi_pos x) as Hp. pose proof (gf_mills_low2 _ _ GF x Hx) as H.
  assert (0 < x * x + 2) as Hq by nra.
  apply (Rmult_lt_reg_r (Phi x * (x * x + 2))); [apply Rmult_lt_0_compat; assumption|].
  replace (phi x / Phi x * (Phi x * (x * x + 2))) with (phi x * (x * x + 2)) by (field; lra).
  replace ((- x + - x / (x * x + 2)) * (Phi x * (x * x + 2)))
    with ((- x * (x * x) + 3 * - x) * Phi x) by (field; lra).
  exact H.
Qed.

(** for x < 0:  -x/(x^2+2) < V x - (-x) < 1/(-x) *)
Lemma V_minus_window_neg x : x < 0 ->
  - x / (x * x + 2) < phi x / Phi x + x < / - x.
Proof.
  intros Hx. pose proof (V_upper_neg x Hx). pose proof (V_lower2_neg x Hx). lra.
Qed.

(** for x < 0:  W x > 1 - (x^2+4)/(x^2+2)^2 *)
Lemma W_lower_neg x : x < 0 ->
  1 - (x * x + 4) / ((x * x + 2) * (x * x + 2)) < phi x / Phi x * (phi x / Phi x + x).
Proof.
  intros Hx. pose proof (V_lower2_neg x Hx) as HV.
  assert (0 < x * x + 2) as Hq by nra.
  set (q := x * x + 2) in *. set (V := phi x / Phi x) in *.
  assert (0 < - x / q) as Hd by (apply Rdiv_lt_0_compat; lra).
  assert (1 - (x * x + 4) / (q * q) = (- x + - x / q) * (- x / q)) as ->
    by (unfold q; field; fold q; lra).
  assert (- x / q < V + x) as H1 by lra.
  assert (0 < - x + - x / q) as H2 by lra.
  apply Rle_lt_trans with ((- x + - x / q) * (V + x)).
  - apply Rmult_le_compat_l; lra.
  - apply Rmult_lt_compat_r; lra.
Qed.

(** ** Mean and variance of the standard normal truncated to (a, b). *)

(** its (negated) mean lies in the window *)
Lemma trunc_mean_in_window a b : a < b ->
  a <= (phi a - phi b) / (Phi b - Phi a) <= b.
Proof.
  intros Hab. pose proof (Phi_diff_pos a b Hab) as HD.
  pose proof (gf_band _ _ GF a b Hab) as [H1 H2].
  split.
  - apply (Rmult_le_reg_r (Phi b - Phi a)); [exact HD|].
    unfold Rdiv. rewrite Rmult_assoc, Rinv_l, Rmult_1_r by lra. exact H1.
  - apply (Rmult_le_reg_r (Phi b - Phi a)); [exact HD|].
    unfold Rdiv. rewrite Rmult_assoc, Rinv_l, Rmult_1_r by lra. exact H2.
Qed.

Lemma trunc_mean_abs_le a b : a < b ->
  Rabs ((phi a - phi b) / (Phi b - Phi a)) <= Rmax (Rabs a) (Rabs b).
Proof.
  intros Hab. pose proof (trunc_mean_in_window a b Hab) as [H1 H2].
  pose proof (Rmax_l (Rabs a) (Rabs b)). pose proof (Rmax_r (Rabs a) (Rabs b)).
  pose proof (Rle_abs b). pose proof (Rle_abs (- a)) as Ha. rewrite Rabs_Ropp in Ha.
  apply Rabs_le. lra.
Qed.

(** [1 - variance], which is the function W~ of the window, lies in [1 - h^2, 1], h the
    half-width *)
Lemma trunc_var_range a b : a < b ->
  1 - ((b - a) / 2) * ((b - a) / 2)
    <= (b * phi b - a * phi a) / (Phi b - Phi a)
       + ((phi a - phi b) / (Phi b - Phi a)) * ((phi a - phi b) / (Phi b - Phi a))
    <= 1.
Proof.
  intros Hab. pose proof (Phi_diff_pos a b Hab) as HD.
  pose proof (gf_window_var _ _ GF a b Hab) as H. cbv zeta in H.
  replace ((b * phi b - a * phi a) / (Phi b - Phi a))
    with (- ((a * phi a - b * phi b) / (Phi b - Phi a))) by (field; lra).
  lra.
Qed.

(** the mass of a window of half-width t around -x equals that around x *)
Lemma window_sym x t : Phi (t - x) - Phi (- t - x) = Phi (t + x) - Phi (- t + x).
Proof.
  pose proof (gf_sym _ _ GF (t + x)) as H1. pose proof (gf_sym _ _ GF (- t + x)) as H2.
  replace (- (t + x)) with (- t - x) in H1 by ring.
  replace (- (- t + x)) with (t - x) in H2 by ring. lra.
Qed.

Lemma window_abs x t : Phi (t - Rabs x) - Phi (- t - Rabs x) = Phi (t - x) - Phi (- t - x).
Proof.
  unfold Rabs. destruct (Rcase_abs x) as [Hx|Hx]; [|reflexivity].
  rewrite window_sym. f_equal; f_equal; ring.
Qed.

Lemma window_mass_pos_iff x t : 0 < Phi (t - x) - Phi (- t - x) <-> 0 < t.
Proof.
  split; intros H.
  - apply Phi_diff_pos_inv in H. lra.
  - apply Phi_diff_pos. lra.
Qed.

End GaussL.

(** * C02L: the result of [rate] corresponds to its input position by position and player by
    player; the rating objects that were passed in end up equal to the returned ratings.
    Polymorphic in the number type, no laws, no axioms. *)
From Coq Require Import List Arith Bool Lia Permutation ZArith.
From OSV Require Import Num Order Gauss Core PyVal Prog.
From OSV.Lemmas Require Import OrderL RateL ProgL.
Import ListNotations.

(** ** list plumbing *)
Lemma Forall2_map_self {A B} (f : A -> B) l : Forall2 (fun a b => b = f a) l (map f l).
Proof. induction l; cbn; constructor; auto. Qed.
Lemma Forall2_nth_error {A B} (Q : A -> B -> Prop) l l' i a :
  Forall2 Q l l' -> nth_error l i = Some a -> exists b, nth_error l' i = Some b /\ Q a b.
Proof.
  intros H. revert i. induction H as [|x y l l' Hxy H IH]; intros [|i] Hi; cbn in *; try discriminate.
  - injection Hi as <-. eauto.
  - now apply IH.
Qed.
Lemma Forall2_nested_map_eq {A B C} (f : A -> C) (g : B -> C) (T : list (list A)) (R : list (list B)) :
  Forall2 (Forall2 (fun a b => g b = f a)) T R -> map (map g) R = map (map f) T.
Proof.
  induction 1 as [|t r T R Htr H IH]; cbn; [reflexivity|]. f_equal; [|exact IH].
  clear -Htr. induction Htr; cbn; congruence.
Qed.
Lemma Forall2_nested_length {A B} (Q : A -> B -> Prop) (T : list (list A)) (R : list (list B)) :
  Forall2 (Forall2 Q) T R -> length R = length T /\ map (@length _) R = map (@length _) T.
Proof.
  induction 1 as [|t r T R Htr H [IH1 IH2]]; cbn; [auto|]. split; [congruence|].
  f_equal; [|exact IH2]. symmetry. eapply Forall2_length'; exact Htr.
Qed.
Lemma Forall2_nested_weaken {A B} (Q Q' : A -> B -> Prop) (T : list (list A)) (R : list (list B)) :
  (forall a b, Q a b -> Q' a b) -> Forall2 (Forall2 Q) T R -> Forall2 (Forall2 Q') T R.
Proof. intros H. apply Forall2_weaken. intros t r. now apply Forall2_weaken. Qed.

Lemma Forall2_of_map_l {A B C} (f : A -> C) (Q : C -> B -> Prop) l l' :
  Forall2 Q (map f l) l' -> Forall2 (fun a b => Q (f a) b) l l'.
Proof. apply Forall2_map_l. Qed.
Lemma Forall2_to_map_l {A B C} (f : A -> C) (Q : C -> B -> Prop) l l' :
  Forall2 (fun a b => Q (f a) b) l l' -> Forall2 Q (map f l) l'.
Proof. apply Forall2_map_l. Qed.
Lemma Forall2_to_map_r {A B C} (f : B -> C) (Q : A -> C -> Prop) l l' :
  Forall2 (fun a b => Q a (f b)) l l' -> Forall2 Q l (map f l').
Proof. apply Forall2_map_r. Qed.

Section C02.
Context {F : Type} {N : Num F}.

(** ** [rate_sorted]: a relation established by [compute] on every game of team ratings built
    by [team_ratings] transfers to [rate_sorted], position by position (a strengthening of
    [RateL.rate_sorted_pointwise]: the relation may mention the team aggregates) *)
Theorem rate_sorted_pointwise_tr k P teams keys (R : list (rating F) -> list (rating F) -> Prop) :
  match keys with Some ks => length ks = length teams | None => True end ->
  (forall g rk, length rk = length g -> Forall2 R g (compute k P (team_ratings g rk))) ->
  Forall2 R teams (rate_sorted k P teams keys).
Proof.
  intros E HR. destruct keys as [ks|].
  - destruct (rate_sorted_some k P teams ks E) as [L Pm].
    apply Forall2_combine; [now rewrite L|].
    assert (G : Forall (fun p : key * list (rating F) * list (rating F) => R (snd (fst p)) (snd p))
                  (combine (combine ks teams) (rate_sorted k P teams (Some ks)))).
    { eapply Permutation_Forall; [symmetry; exact Pm|].
      specialize (HR (snd (sorted_game teams ks)) (calc_rankings key_ltb (fst (sorted_game teams ks)))).
      change (team_ratings (snd (sorted_game teams ks)) (calc_rankings key_ltb (fst (sorted_game teams ks))))
        with (sorted_trs teams ks) in HR.
      assert (HL : length (calc_rankings key_ltb (fst (sorted_game teams ks))) = length (snd (sorted_game teams ks))).
      { unfold sorted_game. cbn [fst snd]. rewrite calc_rankings_length, isort_length, unwind_fst_length; auto. }
      specialize (HR HL). apply Forall2_combine_inv in HR. revert HR.
      generalize (compute k P (sorted_trs teams ks)) (snd (sorted_game teams ks)) (fst (sorted_game teams ks)).
      intros cs ts kk. revert ts kk. induction cs as [|c cs IH]; intros [|t ts] [|k0 kk] HR; cbn in *; try constructor.
      - inversion HR; subst. assumption.
      - apply IH. inversion HR; subst. assumption. }
    clear -G E. revert G. generalize (rate_sorted k P teams (Some ks)). revert ks E.
    induction teams as [|t teams IH]; intros [|k0 ks] E res G; cbn in *; try discriminate; [constructor|].
    destruct res as [|r res]; cbn in *; [constructor|]. inversion G; subst. constructor; [assumption|].
    apply (IH ks); [congruence|assumption].
  - rewrite rate_sorted_none. apply HR. now rewrite seq_length.
Qed.

(** every output team of [compute] is the [update_team] of the team rating of the input team
    at the same position, for one (omega, delta) *)
Lemma compute_team_ratings_shape k P g rk : length rk = length g ->
  Forall2 (fun t res => exists (rank : nat) (od : F * F), res = update_team P (team_rating t rank) od)
          g (compute k P (team_ratings g rk)).
Proof.
  intros E. pose proof (compute_shape k P (team_ratings g rk)) as H. unfold team_ratings in H at 1.
  apply Forall2_map_l in H.
  rewrite <- (combine_map_fst g rk) at 1 by (symmetry; exact E).
  apply Forall2_map_l. eapply Forall2_weaken; [|exact H].
  intros [t r] res [od Hod]. cbn in *. eauto.
Qed.

(** ** players keep id and name through every stage *)
Lemma inflate_id tau (r : rating F) : r_id (inflate tau r) = r_id r.
Proof. reflexivity. Qed.
Lemma inflate_name tau (r : rating F) : r_name (inflate tau r) = r_name r.
Proof. reflexivity. Qed.
Lemma update_player_id P ti o d (p : rating F) : r_id (update_player P ti o d p) = r_id p.
Proof. reflexivity. Qed.
Lemma update_player_name P ti o d (p : rating F) : r_name (update_player P ti o d p) = r_name p.
Proof. reflexivity. Qed.
Lemma clamp_player_id (o r : rating F) : r_id (clamp_player o r) = r_id r.
Proof. unfold clamp_player. destruct (fleb _ _); reflexivity. Qed.
Lemma clamp_player_name (o r : rating F) : r_name (clamp_player o r) = r_name r.
Proof. unfold clamp_player. destruct (fleb _ _); reflexivity. Qed.
Lemma clamp_player_mu (o r : rating F) : r_mu (clamp_player o r) = r_mu r.
Proof. unfold clamp_player. destruct (fleb _ _); reflexivity. Qed.

(** [clamp] against a result of the same shape: player by player *)
Lemma clamp_row_Forall2 {Q : rating F -> rating F -> Prop} (t r : list (rating F)) :
  Forall2 Q t r ->
  Forall2 (fun o c => exists x, Q o x /\ c = clamp_player o x) t
          (map (fun pp => clamp_player (fst pp) (snd pp)) (combine t r)).
Proof. induction 1; cbn; constructor; eauto. Qed.
Lemma clamp_Forall2 {Q : rating F -> rating F -> Prop} (T R : list (list (rating F))) :
  Forall2 (Forall2 Q) T R ->
  Forall2 (Forall2 (fun o c => exists x, Q o x /\ c = clamp_player o x)) T (clamp T R).
Proof. unfold clamp. induction 1; cbn; constructor; auto. now apply clamp_row_Forall2. Qed.
Lemma clamp_Forall2_res {Q : rating F -> rating F -> Prop} (T R : list (list (rating F))) :
  Forall2 (Forall2 Q) T R ->
  Forall2 (Forall2 (fun x c => exists o, Q o x /\ c = clamp_player o x)) R (clamp T R).
Proof.
  unfold clamp. induction 1 as [|t r T R Htr H IH]; cbn; constructor; auto.
  clear -Htr. induction Htr; cbn; constructor; eauto.
Qed.

(** ** C02, value level: the posterior at [i][j] is the update of the player passed at [i][j] *)
Theorem posterior_of_same_player k P tau (limit : bool) (teams : list (list (rating F))) keys :
  match keys with Some ks => length ks = length teams | None => True end ->
  Forall2 (fun team res => exists (rank : nat) (omega delta : F),
     Forall2 (fun p r =>
        r = let u := update_player P (team_rating (map (inflate tau) team) rank) omega delta (inflate tau p) in
            if limit then clamp_player p u else u) team res)
    teams (rate_core k P tau limit teams keys).
Proof.
  intros E. unfold rate_core.
  assert (G : Forall2 (fun team res => exists (rank : nat) (omega delta : F),
     Forall2 (fun p r => r = update_player P (team_rating (map (inflate tau) team) rank) omega delta (inflate tau p)) team res)
    teams (rate_sorted k P (map (map (inflate tau)) teams) keys)).
  { pose proof (rate_sorted_pointwise_tr k P (map (map (inflate tau)) teams) keys
             (fun t res => exists (rank : nat) (omega delta : F),
                 Forall2 (fun p r => r = update_player P (team_rating t rank) omega delta p) t res)) as H0.
    assert (H1 : match keys with Some ks => length ks = length (map (map (inflate tau)) teams) | None => True end)
      by (destruct keys; [now rewrite map_length|exact I]).
    specialize (H0 H1). clear H1.
    assert (H2 : forall g rk, length rk = length g ->
       Forall2 (fun t res => exists (rank : nat) (omega delta : F),
                 Forall2 (fun p r => r = update_player P (team_rating t rank) omega delta p) t res)
               g (compute k P (team_ratings g rk))).
    { intros g rk Hl. eapply Forall2_weaken; [|apply compute_team_ratings_shape; exact Hl].
      intros t res [rank [[o d] ->]]. exists rank, o, d. unfold update_team. cbn [t_team team_rating fst snd].
      apply Forall2_map_self. }
    specialize (H0 H2). clear H2. apply Forall2_of_map_l in H0.
    eapply Forall2_weaken; [|exact H0]. intros t res [rank [o [d H]]]. exists rank, o, d.
    apply Forall2_of_map_l in H. exact H. }
  destruct limit; [|exact G].
  unfold clamp. revert G. generalize (rate_sorted k P (map (map (inflate tau)) teams) keys).
  clear E. intros R G. induction G as [|t r T R' Htr G IH]; cbn; [constructor|]. constructor; [|exact IH].
  destruct Htr as [rank [o [d H]]]. exists rank, o, d. cbn [fst snd].
  revert H. generalize (team_rating (map (inflate tau) t) rank). intros ti H. clear -H.
  induction H as [|p x t0 r0 Hpx H IH]; cbn; [constructor|]. constructor; [|exact IH]. cbn. now subst x.
Qed.

(** ids, names: every player is where they were passed *)
Theorem result_same_players k P tau (limit : bool) (teams : list (list (rating F))) keys :
  match keys with Some ks => length ks = length teams | None => True end ->
  Forall2 (Forall2 (fun p r => r_id r = r_id p /\ r_name r = r_name p))
          teams (rate_core k P tau limit teams keys).
Proof.
  intros E. eapply Forall2_weaken; [|apply posterior_of_same_player; exact E].
  intros t res [rank [o [d H]]]. eapply Forall2_weaken; [|exact H].
  intros p r ->. cbn zeta. destruct limit.
  - now rewrite clamp_player_id, clamp_player_name.
  - split; reflexivity.
Qed.

Theorem shape_ids k P tau (limit : bool) (teams : list (list (rating F))) keys :
  match keys with Some ks => length ks = length teams | None => True end ->
  let res := rate_core k P tau limit teams keys in
  map (map r_id) res = map (map r_id) teams /\
  map (map r_name) res = map (map r_name) teams /\
  length res = length teams /\
  map (@length _) res = map (@length _) teams.
Proof.
  intros E res. pose proof (result_same_players k P tau limit teams keys E) as H. fold res in H.
  split; [|split].
  - apply Forall2_nested_map_eq. eapply Forall2_nested_weaken; [|exact H]. now intros a b [? _].
  - apply Forall2_nested_map_eq. eapply Forall2_nested_weaken; [|exact H]. now intros a b [_ ?].
  - eapply Forall2_nested_length; exact H.
Qed.

(** the same, read at a position [i][j] *)
Theorem posterior_nth k P tau (limit : bool) (teams : list (list (rating F))) keys i team :
  match keys with Some ks => length ks = length teams | None => True end ->
  nth_error teams i = Some team ->
  exists res (rank : nat) (omega delta : F),
    nth_error (rate_core k P tau limit teams keys) i = Some res /\
    length res = length team /\
    forall j p, nth_error team j = Some p ->
      nth_error res j =
      Some (let u := update_player P (team_rating (map (inflate tau) team) rank) omega delta (inflate tau p) in
            if limit then clamp_player p u else u).
Proof.
  intros E Hi. destruct (Forall2_nth_error _ _ _ i team (posterior_of_same_player k P tau limit teams keys E) Hi)
    as [res [Hres [rank [o [d H]]]]].
  exists res, rank, o, d. split; [exact Hres|]. split; [symmetry; eapply Forall2_length'; exact H|].
  intros j p Hj. destruct (Forall2_nth_error _ _ _ j p H Hj) as [r [Hr ->]]. exact Hr.
Qed.

(** ** C02, program level: replaying the mutation events on the passed objects *)
Fixpoint upd_nth {A} (n : nat) (f : A -> A) (l : list A) : list A :=
  match l with
  | [] => []
  | x :: xs => match n with 0 => f x :: xs | S n' => x :: upd_nth n' f xs end
  end.

(** the effect of one event on the rating objects that were passed in ([i] = team, [j] = slot) *)
Definition apply_mut (e : event F) (teams : list (list (rating F))) : list (list (rating F)) :=
  match e with
  | EMutMu i j x => upd_nth i (upd_nth j (fun r => set_mu_sigma r x (r_sigma r))) teams
  | EMutSigma i j x => upd_nth i (upd_nth j (fun r => set_sigma r x)) teams
  | _ => teams
  end.
Definition apply_muts (tr : list (event F)) (teams : list (list (rating F))) : list (list (rating F)) :=
  fold_left (fun t e => apply_mut e t) tr teams.

Lemma apply_muts_app t1 t2 T : apply_muts (t1 ++ t2) T = apply_muts t2 (apply_muts t1 T).
Proof. apply fold_left_app. Qed.
Lemma apply_muts_nonmut tr T : Forall (fun e => is_mut e = false) tr -> apply_muts tr T = T.
Proof.
  intros H. revert T. induction H as [|e tr He H IH]; intros T; [reflexivity|]. cbn.
  destruct e; try discriminate; apply IH.
Qed.

Lemma upd_nth_app {A} (f : A -> A) pre x post n : length pre = n ->
  upd_nth n f (pre ++ x :: post) = pre ++ f x :: post.
Proof. revert n. induction pre as [|y pre IH]; intros n E; cbn in *; subst n; [reflexivity|]. cbn. f_equal. now apply IH. Qed.
Lemma upd_nth_comp {A} (f g : A -> A) n l : upd_nth n f (upd_nth n g l) = upd_nth n (fun x => f (g x)) l.
Proof. revert n. induction l as [|x l IH]; intros [|n]; cbn; try reflexivity. f_equal. apply IH. Qed.
Lemma upd_nth_ext {A} (f g : A -> A) n l : (forall x, f x = g x) -> upd_nth n f l = upd_nth n g l.
Proof. intros H. revert n. induction l as [|x l IH]; intros [|n]; cbn; try reflexivity; [now rewrite H | now rewrite IH]. Qed.

(** what one replayed event does, read position by position *)
Lemma upd_nth_nth_error {A} (f : A -> A) n l m :
  nth_error (upd_nth n f l) m = if Nat.eqb n m then option_map f (nth_error l m) else nth_error l m.
Proof.
  revert n m. induction l as [|x l IH]; intros [|n] [|m]; cbn; try reflexivity.
  - now destruct (Nat.eqb n m).
  - apply IH.
Qed.
Definition at2 (T : list (list (rating F))) (i j : nat) : option (rating F) :=
  match nth_error T i with Some t => nth_error t j | None => None end.
Theorem apply_mut_meaning (e : event F) T i' j' :
  at2 (apply_mut e T) i' j' =
  match e with
  | EMutMu i j x => if Nat.eqb i i' && Nat.eqb j j'
                    then option_map (fun r => set_mu_sigma r x (r_sigma r)) (at2 T i' j') else at2 T i' j'
  | EMutSigma i j x => if Nat.eqb i i' && Nat.eqb j j'
                       then option_map (fun r => set_sigma r x) (at2 T i' j') else at2 T i' j'
  | _ => at2 T i' j'
  end.
Proof.
  destruct e; try reflexivity; unfold apply_mut, at2; rewrite upd_nth_nth_error;
    destruct (Nat.eqb i i'); cbn [andb]; try reflexivity;
    destruct (nth_error T i') as [t|]; cbn [option_map];
    try rewrite upd_nth_nth_error; destruct (Nat.eqb j j'); reflexivity.
Qed.

(** replaying one write per player, [h new old] being the object after the write *)
Definition replay (h : rating F -> rating F -> rating F) (l : list (nat * nat * rating F))
           (T : list (list (rating F))) : list (list (rating F)) :=
  fold_left (fun T x => upd_nth (fst (fst x)) (upd_nth (snd (fst x)) (h (snd x))) T) l T.

Lemma replay_row h i tpre tpost : length tpre = i ->
  forall qs ps, Forall2 (fun q p => h p q = p) qs ps ->
  forall ppre c, length ppre = c ->
  replay h (map (fun jp : nat * rating F => (i, fst jp, snd jp)) (combine (seq c (length ps)) ps))
         (tpre ++ (ppre ++ qs) :: tpost)
  = tpre ++ (ppre ++ ps) :: tpost.
Proof.
  intros Ei qs ps H. induction H as [|q p qs ps Hqp H IH]; intros ppre c Ec; [reflexivity|].
  cbn [length seq combine map]. unfold replay. cbn [fold_left fst snd].
  rewrite (upd_nth_app _ tpre _ tpost i Ei). rewrite (upd_nth_app _ ppre q qs c Ec). rewrite Hqp.
  replace (ppre ++ p :: qs) with ((ppre ++ [p]) ++ qs) by (now rewrite <- app_assoc).
  replace (ppre ++ p :: ps) with ((ppre ++ [p]) ++ ps) by (now rewrite <- app_assoc).
  apply (IH (ppre ++ [p]) (S c)). rewrite app_length. cbn. lia.
Qed.

Lemma replay_teams h : forall T R, Forall2 (Forall2 (fun q p => h p q = p)) T R ->
  forall tpre s, length tpre = s ->
  replay h (flat_map (fun it : nat * list (rating F) =>
                        map (fun jp : nat * rating F => (fst it, fst jp, snd jp))
                            (combine (seq 0 (length (snd it))) (snd it)))
                     (combine (seq s (length R)) R))
         (tpre ++ T)
  = tpre ++ R.
Proof.
  intros T R H. induction H as [|t r T R Htr H IH]; intros tpre s Es; [reflexivity|].
  cbn [length seq combine flat_map fst snd]. unfold replay. rewrite fold_left_app.
  pose proof (replay_row h s tpre T Es t r Htr [] 0 eq_refl) as Hrow. unfold replay in Hrow.
  cbn [app] in Hrow. rewrite Hrow. clear Hrow.
  assert (El : length (tpre ++ [r]) = S s) by (rewrite app_length; cbn; lia).
  specialize (IH (tpre ++ [r]) (S s) El). unfold replay in IH.
  rewrite <- !app_assoc in IH. cbn [app] in IH. exact IH.
Qed.

Lemma replay_indexed h T R : Forall2 (Forall2 (fun q p => h p q = p)) T R -> replay h (indexed R) T = R.
Proof. intros H. exact (replay_teams h T R H [] 0 eq_refl). Qed.

Lemma apply_muts_ev_sigmas l T :
  apply_muts (ev_sigmas l) T = replay (fun p q => set_sigma q (r_sigma p)) l T.
Proof. revert T. induction l as [|[[i j] p] l IH]; intros T; [reflexivity|]. cbn. apply IH. Qed.
Lemma apply_muts_ev_both l T :
  apply_muts (ev_both l) T = replay (fun p q => set_mu_sigma q (r_mu p) (r_sigma p)) l T.
Proof.
  revert T. induction l as [|[[i j] p] l IH]; intros T; [reflexivity|].
  cbn [ev_both flat_map app]. unfold apply_muts, replay. cbn [fold_left apply_mut fst snd].
  rewrite upd_nth_comp.
  rewrite (upd_nth_ext _ (upd_nth j (fun q => set_mu_sigma q (r_mu p) (r_sigma p)))).
  - apply IH.
  - intros t. rewrite upd_nth_comp. apply upd_nth_ext. intros q. reflexivity.
Qed.

(** validated rank / score vectors have one entry per team *)
Lemma mapM_length {A B} (f : A -> res B) l l' : mapM f l = Ok l' -> length l' = length l.
Proof.
  revert l'. induction l as [|x l IH]; intros l' H; cbn in H.
  - injection H as <-. reflexivity.
  - destruct (f x) as [y|e]; cbn in H; [|discriminate]. destruct (mapM f l) as [ys|e]; cbn in H; [|discriminate].
    injection H as <-. cbn. f_equal. now apply IH.
Qed.
Lemma check_keys_length n v ks : check_keys (F:=F) n v = Ok ks -> length ks = n.
Proof.
  destruct v; cbn; try discriminate. destruct (Nat.eqb (length l) n) eqn:E; cbn; [|discriminate].
  intros H. apply mapM_length in H. apply Nat.eqb_eq in E. congruence.
Qed.
Lemma validate_rate_ok k teams ranks scores tms keys :
  validate_rate (F:=F) k teams ranks scores = Ok (tms, keys) ->
  check_teams k teams = Ok tms /\
  match keys with Some ks => length ks = length tms | None => True end.
Proof.
  unfold validate_rate. destruct (check_teams k teams) as [tms0|e]; cbn [rbind]; [|discriminate].
  destruct (truthy ranks).
  - destruct (check_keys (length tms0) ranks) as [rk|e] eqn:Erk; cbn [rbind]; [|discriminate].
    destruct (truthy scores); cbn [rbind]; [discriminate|].
    intros H. injection H as <- <-. split; [reflexivity|]. eapply check_keys_length; exact Erk.
  - cbn [rbind]. destruct (truthy scores).
    + destruct (check_keys (length tms0) scores) as [sc|e] eqn:Esc; cbn [rbind]; [|discriminate].
      intros H. injection H as <- <-. split; [reflexivity|]. rewrite map_length. eapply check_keys_length; exact Esc.
    + cbn [rbind]. intros H. injection H as <- <-. split; [reflexivity|exact I].
Qed.

Lemma tau_of_nonmut st tau (ex : list (event F) * F) : tau_of st tau = Ok ex -> Forall (fun e => is_mut e = false) (fst ex).
Proof.
  destruct tau; cbn; intros H; try discriminate; try (injection H as <-; cbn; repeat constructor).
Qed.
Lemma lim_of_nonmut st limit : Forall (fun e : event F => is_mut e = false) (fst (lim_of st limit)).
Proof. destruct limit; cbn; repeat constructor. Qed.

Lemma set_mu_sigma_eta (q p : rating F) : r_id p = r_id q -> r_name p = r_name q ->
  set_mu_sigma q (r_mu p) (r_sigma p) = p.
Proof. destruct p, q; cbn. intros -> ->. reflexivity. Qed.
Lemma set_sigma_eta (q : rating F) : set_sigma q (r_sigma q) = q.
Proof. destruct q; reflexivity. Qed.

(** the trace of the part of [rate] after validation, replayed on the passed objects, leaves
    them equal to the returned ratings *)
Lemma rate_tail_trace_replay k st limit (tms : list (list (rating F))) keys t :
  match keys with Some ks => length ks = length tms | None => True end ->
  apply_muts (rate_tail_trace k st limit tms keys t) tms
  = rate_core k (params_of st) t (snd (lim_of st limit)) tms keys.
Proof.
  intros E. unfold rate_tail_trace. cbn zeta.
  set (infl := map (map (inflate t)) tms).
  set (res0 := rate_sorted k (params_of st) infl keys).
  rewrite !apply_muts_app.
  (* 1: inflation writes *)
  assert (S1 : apply_muts (ev_sigmas (indexed infl)) tms = infl).
  { rewrite apply_muts_ev_sigmas. apply replay_indexed. unfold infl.
    apply (Forall2_to_map_r (map (inflate t)) (Forall2 (fun q p : rating F => set_sigma q (r_sigma p) = p))).
    apply Forall2_refl. intros tm _.
    apply (Forall2_to_map_r (inflate t) (fun q p : rating F => set_sigma q (r_sigma p) = p)).
    apply Forall2_refl. intros q _. reflexivity. }
  rewrite S1.
  rewrite (apply_muts_nonmut [ERdF ABeta; ERdF AKappa; ERdGamma]) by (repeat constructor).
  (* 2: the posterior writes *)
  assert (Hsame : Forall2 (Forall2 (fun q p : rating F => r_id p = r_id q /\ r_name p = r_name q)) infl res0).
  { pose proof (result_same_players k (params_of st) t false tms keys E) as H.
    unfold rate_core in H. fold infl in H. fold res0 in H. unfold infl.
    apply (Forall2_to_map_l (map (inflate t)) (Forall2 (fun q p : rating F => r_id p = r_id q /\ r_name p = r_name q))).
    eapply Forall2_weaken; [|exact H]. intros tm r H1.
    apply (Forall2_to_map_l (inflate t) (fun q p : rating F => r_id p = r_id q /\ r_name p = r_name q)).
    eapply Forall2_weaken; [|exact H1]. intros q p [H2 H3]. rewrite inflate_id, inflate_name. auto. }
  assert (S2 : apply_muts (ev_both (indexed res0)) infl = res0).
  { rewrite apply_muts_ev_both. apply replay_indexed.
    eapply Forall2_nested_weaken; [|exact Hsame]. intros q p [H1 H2]. now apply set_mu_sigma_eta. }
  rewrite S2.
  rewrite (apply_muts_nonmut (fst (lim_of st limit))) by apply lim_of_nonmut.
  unfold rate_core. fold infl. fold res0.
  destruct (snd (lim_of st limit)); [|reflexivity].
  (* 3: the clamping writes *)
  rewrite apply_muts_ev_sigmas. apply replay_indexed.
  assert (Hshape : Forall2 (Forall2 (fun (_ _ : rating F) => True)) tms res0).
  { unfold infl in Hsame. apply Forall2_of_map_l in Hsame. eapply Forall2_weaken; [|exact Hsame].
    intros tm r H1. apply Forall2_of_map_l in H1. eapply Forall2_weaken; [|exact H1]. auto. }
  eapply Forall2_nested_weaken; [|apply (clamp_Forall2_res tms res0 Hshape)].
  intros q p [o [_ ->]]. unfold clamp_player. destruct (fleb _ _); [apply set_sigma_eta | reflexivity].
Qed.

Theorem passed_objects k teams ranks scores tau limit st tr st' res :
  run (rate_prog k teams ranks scores tau limit) st = (tr, st', Ok res) ->
  exists tms, check_teams k teams = Ok tms /\ apply_muts tr tms = res.
Proof.
  rewrite run_rate_prog. destruct (validate_rate k teams ranks scores) as [[tms keys]|e] eqn:Ev; [|discriminate].
  destruct (tau_of st tau) as [ex|e] eqn:Et; [|discriminate].
  intros H. injection H as <- _ <-. cbn [fst snd].
  destruct (validate_rate_ok _ _ _ _ _ _ Ev) as [Hc Hk].
  exists tms. split; [exact Hc|].
  rewrite apply_muts_app, (apply_muts_nonmut (fst ex)) by (eapply tau_of_nonmut; exact Et).
  now apply rate_tail_trace_replay.
Qed.

Theorem raise_no_events k teams ranks scores tau limit st tr st' e :
  run (rate_prog k teams ranks scores tau limit) st = (tr, st', Raise e) -> tr = [] /\ st' = st.
Proof.
  rewrite run_rate_prog. destruct (validate_rate k teams ranks scores) as [[tms keys]|e0].
  - destruct (tau_of st tau) as [ex|e1]; [discriminate|]. intros H. injection H as <- <- _. auto.
  - intros H. injection H as <- <- _. auto.
Qed.

(** on success the returned ratings are those of [rate_core] on the validated arguments *)
Theorem ok_is_rate_core k teams ranks scores tau limit st tr st' res :
  run (rate_prog k teams ranks scores tau limit) st = (tr, st', Ok res) ->
  exists tms keys t lim, validate_rate k teams ranks scores = Ok (tms, keys) /\
    match keys with Some ks => length ks = length tms | None => True end /\
    res = rate_core k (params_of st) t lim tms keys.
Proof.
  rewrite run_rate_prog. destruct (validate_rate k teams ranks scores) as [[tms keys]|e] eqn:Ev; [|discriminate].
  destruct (tau_of st tau) as [ex|e] eqn:Et; [|discriminate].
  intros H. injection H as _ _ <-. cbn [fst snd].
  exists tms, keys, (snd ex), (snd (lim_of st limit)). split; [reflexivity|]. split; [|reflexivity].
  now destruct (validate_rate_ok _ _ _ _ _ _ Ev).
Qed.
End C02.

(** ** a small concrete carrier for the non-vacuity [Example]s: fixed point with three decimal
    digits on [Z] (no law is claimed or used) *)
Definition FixNum : Num Z :=
  {| fadd := Z.add; fsub := Z.sub; fmul := fun a b => (a * b / 1000)%Z; fdiv := fun a b => (a * 1000 / b)%Z;
     fneg := Z.opp; fabs := Z.abs; fsqrt := fun x => Z.sqrt (x * 1000);
     fexp := fun x => (1000 + x + x * x / 2000)%Z; ferfc := fun x => x;
     fpow2 := fun x => (x * x / 1000)%Z; ficdf := fun x => x;
     fltb := Z.ltb; fleb := Z.leb; feqb := Z.eqb; ffinite := fun _ => true;
     fofZ := fun z => (1000 * z)%Z; fofdy := fun m e => (1000 * Z.shiftl m e)%Z; ftau := 6283%Z |}.
Definition fix_rating (mu sigma id : Z) : rating Z := mkRating (1000 * mu)%Z (1000 * sigma)%Z id (NmStr true id).
Definition fix_params : params Z := mkParams 4167%Z 1%Z (@gamma_default Z FixNum).
Definition fix_state : mstate Z :=
  {| m_mu := 25000; m_sigma := 8333; m_beta := 4167; m_kappa := 1; m_tau := 83;
     m_gamma := @gamma_default Z FixNum; m_limit := false |}%Z.

(** * C15L: the per-call [tau] / [limit_sigma] arguments of [rate] mean what the
    model-level settings mean. *)
From Coq Require Import List ZArith Bool Arith Lia.
From OSV Require Import Num Order Gauss Core Predict PyVal Prog.
From OSV.Lemmas Require Import ProgL.
Import ListNotations.

Section C15.
Context {F : Type} {N : Num F}.

Definition not_read (e : event F) : bool :=
  match e with ERdF _ | ERdLimit | ERdGamma => false | _ => true end.

Lemma params_of_set_tau (st : mstate F) x : params_of (set_f st ATau x) = params_of st.
Proof. reflexivity. Qed.
Lemma params_of_set_limit (st : mstate F) b : params_of (set_limit st b) = params_of st.
Proof. reflexivity. Qed.
Lemma lim_of_set_tau (st : mstate F) x limit : lim_of (set_f st ATau x) limit = lim_of st limit.
Proof. destruct limit; reflexivity. Qed.
Lemma tau_of_set_limit (st : mstate F) b tau : tau_of (set_limit st b) tau = tau_of st tau.
Proof. destruct tau; reflexivity. Qed.

Lemma rate_tail_trace_set_tau k (st : mstate F) x limit tms keys t :
  rate_tail_trace k (set_f st ATau x) limit tms keys t = rate_tail_trace k st limit tms keys t.
Proof. unfold rate_tail_trace. rewrite params_of_set_tau, lim_of_set_tau. reflexivity. Qed.

Lemma tau_of_number (st : mstate F) t x : as_float t = Ok x -> tau_of st t = Ok ([], x).
Proof. destruct t; cbn; intros Ht; inversion Ht; reflexivity. Qed.

(** the full result of [rate] as a function of the value-level core *)
Lemma rate_semantics k teams ranks scores tau limit (st : mstate F) :
  snd (run (rate_prog k teams ranks scores tau limit) st) =
  rbind (validate_rate k teams ranks scores) (fun tk =>
  rbind (match tau with PNone => Ok (m_tau st) | v => as_float v end) (fun t =>
  Ok (rate_core k (params_of st) t
        (match limit with PNone => m_limit st | v => truthy v end) (fst tk) (snd tk)))).
Proof.
  rewrite run_rate_prog.
  destruct (validate_rate k teams ranks scores) as [tk|e]; cbn [rbind snd]; [|reflexivity].
  assert (Hl : snd (lim_of st limit) = match limit with PNone => m_limit st | v => truthy v end)
    by (destruct limit; reflexivity).
  destruct tau; cbn [tau_of as_float rbind snd fst]; rewrite ?Hl; reflexivity.
Qed.

(** per-call tau = t  vs.  model tau := float(t), no per-call tau *)
Lemma tau_equiv k teams ranks scores t limit (st : mstate F) x :
  as_float t = Ok x ->
  let a := run (rate_prog k teams ranks scores t limit) st in
  let b := run (rate_prog k teams ranks scores PNone limit) (set_f st ATau x) in
  snd b = snd a /\
  (fst (fst b) = fst (fst a) \/ fst (fst b) = ERdF ATau :: fst (fst a)) /\
  filter not_read (fst (fst b)) = filter not_read (fst (fst a)) /\
  snd (fst a) = st /\ snd (fst b) = set_f st ATau x.
Proof.
  intros Ht. cbn zeta. rewrite !run_rate_prog.
  destruct (validate_rate k teams ranks scores) as [tk|e]; cbn [fst snd].
  2: { repeat split; auto. }
  rewrite (tau_of_number st t x Ht). cbn [tau_of fst snd app].
  rewrite params_of_set_tau, lim_of_set_tau, rate_tail_trace_set_tau.
  change (m_tau (set_f st ATau x)) with x.
  repeat split; auto.
Qed.

(** per-call limit_sigma = b  vs.  model limit_sigma := b, no per-call argument *)
Lemma filter_app' {A} (f : A -> bool) l1 l2 : filter f (l1 ++ l2) = filter f l1 ++ filter f l2.
Proof. induction l1 as [|x xs IH]; cbn; [reflexivity|]. destruct (f x); cbn; rewrite IH; reflexivity. Qed.

Lemma limit_equiv k teams ranks scores tau b (st : mstate F) :
  let a := run (rate_prog k teams ranks scores tau (PBool b)) st in
  let c := run (rate_prog k teams ranks scores tau PNone) (set_limit st b) in
  snd c = snd a /\
  filter not_read (fst (fst c)) = filter not_read (fst (fst a)) /\
  snd (fst a) = st /\ snd (fst c) = set_limit st b.
Proof.
  cbn zeta. rewrite !run_rate_prog.
  destruct (validate_rate k teams ranks scores) as [tk|e]; cbn [fst snd].
  2: { repeat split; auto. }
  rewrite tau_of_set_limit.
  destruct (tau_of st tau) as [ex|e]; cbn [fst snd].
  2: { repeat split; auto. }
  rewrite params_of_set_limit. cbn [lim_of snd truthy].
  change (m_limit (set_limit st b)) with b.
  repeat split; auto.
  unfold rate_tail_trace. rewrite params_of_set_limit. cbn [lim_of fst snd truthy].
  change (m_limit (set_limit st b)) with b.
  rewrite !filter_app'. cbn [filter not_read app]. reflexivity.
Qed.

(** both at once *)
Lemma both_equiv k teams ranks scores t b (st : mstate F) x :
  as_float t = Ok x ->
  snd (run (rate_prog k teams ranks scores PNone PNone) (set_limit (set_f st ATau x) b)) =
  snd (run (rate_prog k teams ranks scores t (PBool b)) st).
Proof.
  intros Ht. rewrite !rate_semantics.
  destruct (validate_rate k teams ranks scores) as [tk|e]; cbn [rbind]; [|reflexivity].
  destruct t; cbn in Ht; inversion Ht; subst; reflexivity.
Qed.

(** omitted arguments: the model's own settings are read and used *)
Lemma omitted k teams ranks scores (st : mstate F) :
  snd (run (rate_prog k teams ranks scores PNone PNone) st) =
  rbind (validate_rate k teams ranks scores) (fun tk =>
    Ok (rate_core k (params_of st) (m_tau st) (m_limit st) (fst tk) (snd tk))).
Proof.
  rewrite rate_semantics. destruct (validate_rate k teams ranks scores); reflexivity.
Qed.

Lemma omitted_reads k teams ranks scores (st : mstate F) r :
  snd (run (rate_prog k teams ranks scores PNone PNone) st) = Ok r ->
  In (ERdF ATau) (fst (fst (run (rate_prog k teams ranks scores PNone PNone) st))) /\
  In ERdLimit (fst (fst (run (rate_prog k teams ranks scores PNone PNone) st))).
Proof.
  rewrite run_rate_prog.
  destruct (validate_rate k teams ranks scores) as [tk|e]; cbn [fst snd tau_of]; [|discriminate].
  intros _. split; [apply in_or_app; left; left; reflexivity|].
  unfold rate_tail_trace. cbn [lim_of fst].
  rewrite !in_app_iff. right. right. right. right. left. left. reflexivity.
Qed.

End C15.

(** * RatingOps: building, copying and comparing rating objects. *)
From Coq Require Import List ZArith Bool Arith.
From OSV Require Import Num Order Gauss Core PyVal Prog.
Import ListNotations.

Inductive cmpop := OpLt | OpLe | OpGt | OpGe | OpEq | OpNe.

Section RatingOps.
Context {F : Type} `{Num F}.

(** [*Rating(mu, sigma, name)] with a fresh id *)
Definition new_rating (mu sigma : F) (nm : name) (fresh : Z) : rating F := mkRating mu sigma fresh nm.

(** [model.rating(mu=None, sigma=None, name=None)] *)
Definition model_rating (st : mstate F) (mu sigma : option F) (nm : name) (fresh : Z) : rating F :=
  new_rating (match mu with Some x => x | None => m_mu st end)
             (match sigma with Some x => x | None => m_sigma st end) nm fresh.

(** [Model.create_rating(rating, name)] *)
Definition create_rating (k : kind) (v : pyval F) (nm : name) (fresh : Z) : res (rating F) :=
  match v with
  | PList [a; b] =>
      rbind (match as_float a with Ok x => Ok x | Raise _ => Raise ValueError end) (fun mu =>
      rbind (match as_float b with Ok x => Ok x | Raise _ => Raise ValueError end) (fun sigma =>
      Ok (new_rating mu sigma nm fresh)))
  | _ => Raise TypeError
  end.

(** [__deepcopy__]: a new object (fresh id) whose id is then overwritten *)
Definition set_id (r : rating F) (i : Z) : rating F := mkRating (r_mu r) (r_sigma r) i (r_name r).
Definition deepcopy (r : rating F) (fresh : Z) : rating F :=
  set_id (new_rating (r_mu r) (r_sigma r) (r_name r) fresh) (r_id r).

Definition ordinal (r : rating F) (z : F) : F := fsub (r_mu r) (fmul z (r_sigma r)).
Definition ordinal3 (r : rating F) : F := ordinal r (fofZ 3).

Definition rating_eq (a b : rating F) : bool :=
  andb (feqb (r_mu a) (r_mu b)) (feqb (r_sigma a) (r_sigma b)).

(** a comparison of a rating of kind [k] with an arbitrary Python value *)
Definition rating_compare (op : cmpop) (k : kind) (a : rating F) (other : pyval F) : res bool :=
  let same := match other with
              | PRating k' b => if kind_eqb k k' then Some b else None
              | _ => None end in
  match op, same with
  | OpLt, Some b => Ok (fltb (ordinal3 a) (ordinal3 b))
  | OpLe, Some b => Ok (fleb (ordinal3 a) (ordinal3 b))
  | OpGt, Some b => Ok (fltb (ordinal3 b) (ordinal3 a))
  | OpGe, Some b => Ok (fleb (ordinal3 b) (ordinal3 a))
  | OpEq, Some b => Ok (rating_eq a b)
  | OpNe, Some b => Ok (negb (rating_eq a b))
  | OpEq, None => Ok false
  | OpNe, None => Ok true
  | _, None => Raise ValueError
  end.

(** what [__hash__] hashes: equal triples give equal hashes *)
Definition hash_key (r : rating F) : Z * F * F := (r_id r, r_mu r, r_sigma r).
End RatingOps.

(** * RatingOps: building, copying and comparing rating objects. *)
From Coq Require Import List ZArith Bool Arith.
From OSV Require Import Num Order Gauss Core PyVal Prog.
Import ListNotations.

Inductive cmpop := OpLt | OpLe | OpGt | OpGe | OpEq | OpNe.

Section RatingOps.
Context {F : Type} `{Num F}.

(** [*Rating(mu, sigma, name)] with a fresh id *)
Definition new_rating (mu sigma : F) (nm : name) (fresh : Z) : rating F := mkRating mu sigma fresh nm.

(** [model.rating(mu=None, sigma=None, name=None)] *)
Definition model_rating (st : mstate F) (mu sigma : option F) (nm : name) (fresh : Z) : rating F :=
  new_rating (match mu with Some x => x | None => m_mu st end)
             (match sigma with Some x => x | None => m_sigma st end) nm fresh.

(** [Model.create_rating(rating, name)] *)
Definition create_rating (k : kind) (v : pyval F) (nm : name) (fresh : Z) : res (rating F) :=
  match v with
  | PList [a; b] =>
      rbind (match as_float a with Ok x => Ok x | Raise _ => Raise ValueError end) (fun mu =>
      rbind (match as_float b with Ok x => Ok x | Raise _ => Raise ValueError end) (fun sigma =>
      Ok (new_rating mu sigma nm fresh)))
  | _ => Raise TypeError
  end.

(** [__deepcopy__]: a new object (fresh id) whose id is then overwritten *)
Definition set_id (r : rating F) (i : Z) : rating F := mkRating (r_mu r) (r_sigma r) i (r_name r).
Definition deepcopy (r : rating F) (fresh : Z) : rating F :=
  set_id (new_rating (r_mu r) (r_sigma r) (r_name r) fresh) (r_id r).

Definition ordinal (r : rating F) (z : F) : F := fsub (r_mu r) (fmul z (r_sigma r)).
Definition ordinal3 (r : rating F) : F := ordinal r (fofZ 3).

Definition rating_eq (a b : rating F) : bool :=
  andb (feqb (r_mu a) (r_mu b)) (feqb (r_sigma a) (r_sigma b)).

(** a comparison of a rating of kind [k] with an arbitrary Python value *)
Definition rating_compare (op : cmpop) (k : kind) (a : rating F) (other : pyval F) : res bool :=
  let same := match other with
              | PRating k' b => if kind_eqb k k' then Some b else None
              | _ => None end in
  match op, same with
  | OpLt, Some b => Ok (fltb (ordinal3 a) (ordinal3 b))
  | OpLe, Some b => Ok (fleb (ordinal3 a) (ordinal3 b))
  | OpGt, Some b => Ok (fltb (ordinal3 b) (ordinal3 a))
  | OpGe, Some b => Ok (fleb (ordinal3 b) (ordinal3 a))
  | OpEq, Some b => Ok (rating_eq a b)
  | OpNe, Some b => Ok (negb (rating_eq a b))
  | OpEq, None => Ok false
  | OpNe, None => Ok true
  | _, None => Raise ValueError
  end.

(** the model constructor [Model(mu=25.0, sigma=25.0/3.0, beta=25.0/6.0, kappa=0.0001, gamma=_gamma,
    tau=25.0/300.0, limit_sigma=False)]: given values are kept, omitted ones take these defaults *)
Definition default_mu : F := fofZ 25.
Definition default_sigma : F := fdiv (fofZ 25) (fofZ 3).
Definition default_beta : F := fdiv (fofZ 25) (fofZ 6).
Definition default_kappa : F := fofdy 7378697629483821 (-66).      (* the double nearest 0.0001 *)
Definition default_tau : F := fdiv (fofZ 25) (fofZ 300).
Definition opt_or {A} (o : option A) (d : A) : A := match o with Some x => x | None => d end.
Definition model_init (mu sigma beta kappa tau : option F) (g : option (gamma_fn F)) (lim : option bool)
  : mstate F :=
  mkState (opt_or mu default_mu) (opt_or sigma default_sigma) (opt_or beta default_beta)
          (opt_or kappa default_kappa) (opt_or tau default_tau) (opt_or g gamma_default) (opt_or lim false).

(** the public helpers [_calculate_team_ratings(game, ranks)], [_c], [_sum_q], [_a] (all five classes carry them;
    [ranks], when given, are the already sorted rank values) *)
Definition calculate_team_ratings (game : list (list (rating F))) (ranks : option (list key)) : list (trating F) :=
  team_ratings game (match ranks with
                     | Some ks => calc_rankings key_ltb ks
                     | None => seq 0 (length game) end).
Definition helper_c (beta : F) (trs : list (trating F)) : F := pl_c (mkParams beta fzero gamma_default) trs.
Definition helper_sum_q (trs : list (trating F)) (c : F) : list F := pl_sum_q trs c.
Definition helper_a (trs : list (trating F)) : list nat := pl_a trs.

(** what [__hash__] hashes: equal triples give equal hashes *)
Definition hash_key (r : rating F) : Z * F * F := (r_id r, r_mu r, r_sigma r).
End RatingOps.

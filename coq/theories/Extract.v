(** Extraction of the executable model (ExtrOcamlBasic only; no Extract Constant). *)
From Coq Require Import List ZArith.
From OSV Require Import Num Order Gauss Core Predict PyVal Prog RatingOps.
Require Extraction.
Require Import ExtrOcamlBasic.
Extraction "model.ml"
  run rate_prog predict_win_prog predict_draw_prog predict_rank_prog
  rate_core gamma_default
  cdf pdf icdf v w vt wt
  create_rating model_rating deepcopy rating_compare ordinal hash_key
  model_init calculate_team_ratings helper_c helper_sum_q helper_a
  rank_data arg_sort unwind ladder_pairs calc_rankings rows reverse_ranks
  key_leb key_ltb key_neg isort py_sum reduce_add.

(** * Gauss: normal CDF/PDF and the truncated-Gaussian corrections V, W, V~, W~
    of openskill/models/weng_lin/common.py, on the abstract number type. *)
From Coq Require Import List ZArith Bool.
From OSV Require Import Num.
Import ListNotations.

Section Gauss.
Context {F : Type} `{Num F}.

(** [phi_major(x) = 0.5 * math.erfc(-x / math.sqrt(2.0))] *)
Definition cdf (x : F) : F := fmul fhalf (ferfc (fdiv (fneg x) (fsqrt ftwo))).
(** [statistics.NormalDist(0,1).pdf(x) = exp(x*x / -2.0) / sqrt(tau)] *)
Definition pdf (x : F) : F := fdiv (fexp (fdiv (fmul x x) (fneg ftwo))) (fsqrt ftau).
(** [phi_major_inverse] *)
Definition icdf (p : F) : F := ficdf p.

Definition v (x t : F) : F :=
  let xt := fsub x t in
  let d := cdf xt in
  if fltb d feps then fneg xt else fdiv (pdf xt) d.

Definition w (x t : F) : F :=
  let xt := fsub x t in
  let d := cdf xt in
  if fltb d feps then (if fltb x fzero then fone else fzero)
  else fmul (v x t) (fadd (v x t) xt).

Definition vt (x t : F) : F :=
  let xx := fabs x in
  let b := fsub (cdf (fsub t xx)) (cdf (fsub (fneg t) xx)) in
  if fltb b f1em5 then
    (if fltb x fzero then fsub (fneg x) t else fadd (fneg x) t)
  else
    let a := fsub (pdf (fsub (fneg t) xx)) (pdf (fsub t xx)) in
    fdiv (if fltb x fzero then fneg a else a) b.

Definition wt (x t : F) : F :=
  let xx := fabs x in
  let b := fsub (cdf (fsub t xx)) (cdf (fsub (fneg t) xx)) in
  if fltb b feps then fone
  else
    fmin (fmax (fadd (fdiv (fadd (fmul (fsub t xx) (pdf (fsub t xx)))
                                 (fmul (fadd t xx) (pdf (fsub (fneg t) xx)))) b)
                     (fmul (vt x t) (vt x t))) fzero) fone.
End Gauss.

(** * Prog: the public operations as programs over explicit effects —
    reads/writes of the shared model object's attributes and writes to the
    rating objects that were passed in — in the order the code performs them. *)
From Coq Require Import List ZArith Bool Arith.
From OSV Require Import Num Order Gauss Core Predict PyVal.
Import ListNotations.

Inductive fattr := AMu | ASigma | ABeta | AKappa | ATau.

Section Prog.
Context {F : Type} `{Num F}.

Record mstate := mkState {
  m_mu : F; m_sigma : F; m_beta : F; m_kappa : F; m_tau : F;
  m_gamma : gamma_fn F; m_limit : bool }.

Definition get_f (st : mstate) (a : fattr) : F :=
  match a with AMu => m_mu st | ASigma => m_sigma st | ABeta => m_beta st
             | AKappa => m_kappa st | ATau => m_tau st end.
Definition set_f (st : mstate) (a : fattr) (x : F) : mstate :=
  match a with
  | AMu => mkState x (m_sigma st) (m_beta st) (m_kappa st) (m_tau st) (m_gamma st) (m_limit st)
  | ASigma => mkState (m_mu st) x (m_beta st) (m_kappa st) (m_tau st) (m_gamma st) (m_limit st)
  | ABeta => mkState (m_mu st) (m_sigma st) x (m_kappa st) (m_tau st) (m_gamma st) (m_limit st)
  | AKappa => mkState (m_mu st) (m_sigma st) (m_beta st) x (m_tau st) (m_gamma st) (m_limit st)
  | ATau => mkState (m_mu st) (m_sigma st) (m_beta st) (m_kappa st) x (m_gamma st) (m_limit st)
  end.
Definition set_limit (st : mstate) (b : bool) : mstate :=
  mkState (m_mu st) (m_sigma st) (m_beta st) (m_kappa st) (m_tau st) (m_gamma st) b.

Inductive event :=
| ERdF (a : fattr) | ERdLimit | ERdGamma
| EWrF (a : fattr) (x : F) | EWrLimit (b : bool)
| EMutMu (i j : nat) (x : F) | EMutSigma (i j : nat) (x : F).

Inductive prog (A : Type) : Type :=
| Ret (a : A)
| Fail (e : exn)
| RdF (a : fattr) (k : F -> prog A)
| RdLimit (k : bool -> prog A)
| RdGamma (k : gamma_fn F -> prog A)
| WrF (a : fattr) (x : F) (k : prog A)
| WrLimit (b : bool) (k : prog A)
| MutMu (i j : nat) (x : F) (k : prog A)
| MutSigma (i j : nat) (x : F) (k : prog A).
Arguments Ret {A} a.
Arguments Fail {A} e.
Arguments RdF {A} a k.
Arguments RdLimit {A} k.
Arguments RdGamma {A} k.
Arguments WrF {A} a x k.
Arguments WrLimit {A} b k.
Arguments MutMu {A} i j x k.
Arguments MutSigma {A} i j x k.

Fixpoint bind {A B} (p : prog A) (f : A -> prog B) : prog B :=
  match p with
  | Ret a => f a
  | Fail e => Fail e
  | RdF a k => RdF a (fun x => bind (k x) f)
  | RdLimit k => RdLimit (fun b => bind (k b) f)
  | RdGamma k => RdGamma (fun g => bind (k g) f)
  | WrF a x k => WrF a x (bind k f)
  | WrLimit b k => WrLimit b (bind k f)
  | MutMu i j x k => MutMu i j x (bind k f)
  | MutSigma i j x k => MutSigma i j x (bind k f)
  end.

Definition lift {A} (r : res A) : prog A :=
  match r with Ok a => Ret a | Raise e => Fail e end.

(** running a program alone from a model state: trace, final state, outcome *)
Fixpoint run {A} (p : prog A) (st : mstate) : list event * mstate * res A :=
  match p with
  | Ret a => ([], st, Ok a)
  | Fail e => ([], st, Raise e)
  | RdF a k => let r := run (k (get_f st a)) st in (ERdF a :: fst (fst r), snd (fst r), snd r)
  | RdLimit k => let r := run (k (m_limit st)) st in (ERdLimit :: fst (fst r), snd (fst r), snd r)
  | RdGamma k => let r := run (k (m_gamma st)) st in (ERdGamma :: fst (fst r), snd (fst r), snd r)
  | WrF a x k => let r := run k (set_f st a x) in (EWrF a x :: fst (fst r), snd (fst r), snd r)
  | WrLimit b k => let r := run k (set_limit st b) in (EWrLimit b :: fst (fst r), snd (fst r), snd r)
  | MutMu i j x k => let r := run k st in (EMutMu i j x :: fst (fst r), snd (fst r), snd r)
  | MutSigma i j x k => let r := run k st in (EMutSigma i j x :: fst (fst r), snd (fst r), snd r)
  end.

(** emit one write per player: sigma only, or mu and sigma *)
Definition indexed (teams : list (list (rating F))) : list (nat * nat * rating F) :=
  flat_map (fun it => map (fun jp => (fst it, fst jp, snd jp))
                          (combine (seq 0 (length (snd it))) (snd it)))
           (combine (seq 0 (length teams)) teams).

Fixpoint mut_sigmas {A} (l : list (nat * nat * rating F)) (k : prog A) : prog A :=
  match l with
  | [] => k
  | (i, j, r) :: xs => MutSigma i j (r_sigma r) (mut_sigmas xs k)
  end.
Fixpoint mut_both {A} (l : list (nat * nat * rating F)) (k : prog A) : prog A :=
  match l with
  | [] => k
  | (i, j, r) :: xs => MutMu i j (r_mu r) (MutSigma i j (r_sigma r) (mut_both xs k))
  end.

(** ** [rate] *)
Definition rate_prog (k : kind) (teams ranks scores tau limit : pyval F)
  : prog (list (list (rating F))) :=
  bind (lift (validate_rate k teams ranks scores)) (fun tk =>
  let tms := fst tk in let keys := snd tk in
  bind (match tau with PNone => RdF ATau Ret | v => lift (as_float v) end) (fun t =>
  let infl := map (map (inflate t)) tms in
  mut_sigmas (indexed infl) (
  RdF ABeta (fun beta => RdF AKappa (fun kappa => RdGamma (fun g =>
  let res := rate_sorted k (mkParams beta kappa g) infl keys in
  mut_both (indexed res) (
  bind (match limit with PNone => RdLimit Ret | v => Ret (truthy v) end) (fun lim =>
  if lim then let res' := clamp tms res in mut_sigmas (indexed res') (Ret res')
  else Ret res)))))))).

(** ** [predict_*] *)
Definition predict_prog {A} (f : F -> list (list (rating F)) -> A) (k : kind) (teams : pyval F) : prog A :=
  bind (lift (check_teams k teams)) (fun tms => RdF ABeta (fun beta => Ret (f beta tms))).
Definition predict_win_prog := predict_prog predict_win.
Definition predict_draw_prog := predict_prog predict_draw.
Definition predict_rank_prog := predict_prog predict_rank.

(** the value-level view used by the analytic theorems *)
Definition params_of (st : mstate) : params F := mkParams (m_beta st) (m_kappa st) (m_gamma st).
End Prog.

Arguments mstate F : clear implicits.
Arguments event F : clear implicits.
Arguments prog F A : clear implicits.
Arguments Ret {F A} a.
Arguments Fail {F A} e.
Arguments RdF {F A} a k.
Arguments RdLimit {F A} k.
Arguments RdGamma {F A} k.
Arguments WrF {F A} a x k.
Arguments WrLimit {F A} b k.
Arguments MutMu {F A} i j x k.
Arguments MutSigma {F A} i j x k.

(** * C05 — "Direction of learning: winning never costs mu, losing never earns it" (over R).

    Part 1 is stated on [compute k P trs] for an arbitrary list [trs] of team ratings whose
    [t_ss] (sum of the members' tau-inflated variances) is positive; the finishing order is
    [t_rank] (smaller = better).  Part 2 lifts first/last alone (no rank values, and explicit
    rank values for any number of teams), the two-team order, the draw direction and (for
    games without rank values) the order of identical teams to [rate_core] (tau inflation,
    sort, update, unsort, sigma clamp).  [C05_exchange] and [C05_identical_ordered] are stated
    at the compute level (the exchange swaps the [t_rank] of the two teams in place; the list
    order is kept; for PL/BTF/TMF [compute] does not depend on it, which is C04's subject) and
    lifted through the sort of [rate_core] with explicit rank values at the end of the file
    ([C05_rate_exchange], [C05_rate_identical_ordered_keys]); [C05_identical_partial] is
    compute-level only.  Nothing is [_partial]: every clause of the property text has a
    theorem, the TM middle inequality (loss <= draw <= win) and the TM draw bound hold on both
    branches of V~.  Reading of "weakly so under partial pairing": DESIGN.md §9-I1
    ([C05_identical_partial]: a game of identical teams listed in finishing order).

    [Phi], [Phiinv] are arbitrary; the Thurstone-Mosteller theorems take
    [GaussFacts Phi Phiinv] as a premise (they use only [gf_mono], [gf_range], [gf_tail8],
    [gf_mills], [gf_band]); Plackett-Luce and Bradley-Terry need nothing.

    Non-vacuity: the [GaussFacts] premise is instantiated: [GaussInst.PhiK] is the standard
    normal distribution function constructed in GaussInst.v, [GaussInst.PhiinvK] its inverse,
    and [GaussFull.GaussFacts_inst : GaussFacts GaussInst.PhiK GaussInst.PhiinvK] is proved
    without hypothesis (calculus facts in GaussCalc.v, the value of the Gaussian integral in
    GaussIntegral.v).  Every theorem with a [GaussFacts] premise (also in the conditional form
    [k = TMF \/ k = TMP -> GaussFacts Phi Phiinv]) has an [_inst] corollary at the end of the
    file, stated for [GaussInst.PhiK] / [GaussInst.PhiinvK] with that premise removed: nothing
    about the normal distribution is assumed any more; the only remaining link is that
    CPython's NormalDist computes this function.  The PL/BT theorems have
    obviously satisfiable hypotheses; Examples instantiating them on concrete games are given.
    Hypotheses of the form [compute ... = [x; y]] / [nth_error (compute ...) i = Some res] are
    always satisfiable ([compute] returns one team per team: [C05_two_team_games_ex]). *)
From Coq Require Import List Arith ZArith Bool Reals Lra Lia.
From OSV Require Import Num Order Gauss Core RInst.
From OSV.Lemmas Require C05L C05RateL C05LiftL.
From OSV Require GaussInst GaussFull.
Import ListNotations.
Open Scope R_scope.

(** Every output team of every model is the input team with each member's mu moved by
    (own inflated variance / team variance) * omega, one omega per team: all members move in
    the same direction, proportionally to their own variance. *)
Theorem C05_share : forall (Phi Phiinv : R -> R) (k : kind) (P : params R) (trs : list (trating R)),
  Forall2 (fun ti res => length res = length (t_team ti) /\ exists omega : R,
             forall j p, nth_error (t_team ti) j = Some p ->
               exists p', nth_error res j = Some p'
                 /\ r_mu p' = r_mu p + r_sigma p * r_sigma p / t_ss ti * omega)
    trs (compute (H := RNum Phi Phiinv) k P trs).
Proof. exact C05L.C05_share_compute. Qed.
Print Assumptions C05_share.

Theorem C05_share_team : forall (Phi Phiinv : R -> R) (P : params R) (ti : trating R) (omega delta : R) (j : nat) (p : rating R),
  nth_error (t_team ti) j = Some p ->
  exists p', nth_error (update_team (H := RNum Phi Phiinv) P ti (omega, delta)) j = Some p'
    /\ r_mu p' = r_mu p + r_sigma p * r_sigma p / t_ss ti * omega.
Proof. exact C05L.C05_share_team. Qed.
Print Assumptions C05_share_team.

(** A team alone in first place: no member's mu decreases. *)
Theorem C05_first_alone_PL : forall (Phi Phiinv : R -> R) (P : params R) (trs : list (trating R))
    (i : nat) (ti : trating R) (res : list (rating R)),
  (2 <= length trs)%nat -> 0 < p_beta P -> 0 < p_kappa P -> Forall (fun t => 0 < t_ss t) trs ->
  nth_error trs i = Some ti ->
  (forall q tq, q <> i -> nth_error trs q = Some tq -> (t_rank ti < t_rank tq)%nat) ->
  nth_error (compute (H := RNum Phi Phiinv) PL P trs) i = Some res ->
  Forall2 (fun p p' => r_mu p <= r_mu p') (t_team ti) res.
Proof. intros; eapply (C05L.first_alone Phi Phiinv PL); eauto; apply C05L.no_gf; auto. Qed.
Print Assumptions C05_first_alone_PL.

Theorem C05_first_alone_BTF : forall (Phi Phiinv : R -> R) (P : params R) (trs : list (trating R))
    (i : nat) (ti : trating R) (res : list (rating R)),
  (2 <= length trs)%nat -> 0 < p_beta P -> 0 < p_kappa P -> Forall (fun t => 0 < t_ss t) trs ->
  nth_error trs i = Some ti ->
  (forall q tq, q <> i -> nth_error trs q = Some tq -> (t_rank ti < t_rank tq)%nat) ->
  nth_error (compute (H := RNum Phi Phiinv) BTF P trs) i = Some res ->
  Forall2 (fun p p' => r_mu p <= r_mu p') (t_team ti) res.
Proof. intros; eapply (C05L.first_alone Phi Phiinv BTF); eauto; apply C05L.no_gf; auto. Qed.
Print Assumptions C05_first_alone_BTF.

Theorem C05_first_alone_BTP : forall (Phi Phiinv : R -> R) (P : params R) (trs : list (trating R))
    (i : nat) (ti : trating R) (res : list (rating R)),
  (2 <= length trs)%nat -> 0 < p_beta P -> 0 < p_kappa P -> Forall (fun t => 0 < t_ss t) trs ->
  nth_error trs i = Some ti ->
  (forall q tq, q <> i -> nth_error trs q = Some tq -> (t_rank ti < t_rank tq)%nat) ->
  nth_error (compute (H := RNum Phi Phiinv) BTP P trs) i = Some res ->
  Forall2 (fun p p' => r_mu p <= r_mu p') (t_team ti) res.
Proof. intros; eapply (C05L.first_alone Phi Phiinv BTP); eauto; apply C05L.no_gf; auto. Qed.
Print Assumptions C05_first_alone_BTP.

Theorem C05_first_alone_TMF : forall (Phi Phiinv : R -> R) (P : params R) (trs : list (trating R))
    (i : nat) (ti : trating R) (res : list (rating R)),
  GaussFacts Phi Phiinv ->
  (2 <= length trs)%nat -> 0 < p_beta P -> 0 < p_kappa P -> Forall (fun t => 0 < t_ss t) trs ->
  nth_error trs i = Some ti ->
  (forall q tq, q <> i -> nth_error trs q = Some tq -> (t_rank ti < t_rank tq)%nat) ->
  nth_error (compute (H := RNum Phi Phiinv) TMF P trs) i = Some res ->
  Forall2 (fun p p' => r_mu p <= r_mu p') (t_team ti) res.
Proof. intros; eapply (C05L.first_alone Phi Phiinv TMF); eauto; apply C05L.with_gf; assumption. Qed.
Print Assumptions C05_first_alone_TMF.

Theorem C05_first_alone_TMP : forall (Phi Phiinv : R -> R) (P : params R) (trs : list (trating R))
    (i : nat) (ti : trating R) (res : list (rating R)),
  GaussFacts Phi Phiinv ->
  (2 <= length trs)%nat -> 0 < p_beta P -> 0 < p_kappa P -> Forall (fun t => 0 < t_ss t) trs ->
  nth_error trs i = Some ti ->
  (forall q tq, q <> i -> nth_error trs q = Some tq -> (t_rank ti < t_rank tq)%nat) ->
  nth_error (compute (H := RNum Phi Phiinv) TMP P trs) i = Some res ->
  Forall2 (fun p p' => r_mu p <= r_mu p') (t_team ti) res.
Proof. intros; eapply (C05L.first_alone Phi Phiinv TMP); eauto; apply C05L.with_gf; assumption. Qed.
Print Assumptions C05_first_alone_TMP.

(** A team alone in last place: no member's mu increases. *)
Theorem C05_last_alone_PL : forall (Phi Phiinv : R -> R) (P : params R) (trs : list (trating R))
    (i : nat) (ti : trating R) (res : list (rating R)),
  (2 <= length trs)%nat -> 0 < p_beta P -> 0 < p_kappa P -> Forall (fun t => 0 < t_ss t) trs ->
  nth_error trs i = Some ti ->
  (forall q tq, q <> i -> nth_error trs q = Some tq -> (t_rank tq < t_rank ti)%nat) ->
  nth_error (compute (H := RNum Phi Phiinv) PL P trs) i = Some res ->
  Forall2 (fun p p' => r_mu p' <= r_mu p) (t_team ti) res.
Proof. intros; eapply (C05L.last_alone Phi Phiinv PL); eauto; apply C05L.no_gf; auto. Qed.
Print Assumptions C05_last_alone_PL.

Theorem C05_last_alone_BTF : forall (Phi Phiinv : R -> R) (P : params R) (trs : list (trating R))
    (i : nat) (ti : trating R) (res : list (rating R)),
  (2 <= length trs)%nat -> 0 < p_beta P -> 0 < p_kappa P -> Forall (fun t => 0 < t_ss t) trs ->
  nth_error trs i = Some ti ->
  (forall q tq, q <> i -> nth_error trs q = Some tq -> (t_rank tq < t_rank ti)%nat) ->
  nth_error (compute (H := RNum Phi Phiinv) BTF P trs) i = Some res ->
  Forall2 (fun p p' => r_mu p' <= r_mu p) (t_team ti) res.
Proof. intros; eapply (C05L.last_alone Phi Phiinv BTF); eauto; apply C05L.no_gf; auto. Qed.
Print Assumptions C05_last_alone_BTF.

Theorem C05_last_alone_BTP : forall (Phi Phiinv : R -> R) (P : params R) (trs : list (trating R))
    (i : nat) (ti : trating R) (res : list (rating R)),
  (2 <= length trs)%nat -> 0 < p_beta P -> 0 < p_kappa P -> Forall (fun t => 0 < t_ss t) trs ->
  nth_error trs i = Some ti ->
  (forall q tq, q <> i -> nth_error trs q = Some tq -> (t_rank tq < t_rank ti)%nat) ->
  nth_error (compute (H := RNum Phi Phiinv) BTP P trs) i = Some res ->
  Forall2 (fun p p' => r_mu p' <= r_mu p) (t_team ti) res.
Proof. intros; eapply (C05L.last_alone Phi Phiinv BTP); eauto; apply C05L.no_gf; auto. Qed.
Print Assumptions C05_last_alone_BTP.

Theorem C05_last_alone_TMF : forall (Phi Phiinv : R -> R) (P : params R) (trs : list (trating R))
    (i : nat) (ti : trating R) (res : list (rating R)),
  GaussFacts Phi Phiinv ->
  (2 <= length trs)%nat -> 0 < p_beta P -> 0 < p_kappa P -> Forall (fun t => 0 < t_ss t) trs ->
  nth_error trs i = Some ti ->
  (forall q tq, q <> i -> nth_error trs q = Some tq -> (t_rank tq < t_rank ti)%nat) ->
  nth_error (compute (H := RNum Phi Phiinv) TMF P trs) i = Some res ->
  Forall2 (fun p p' => r_mu p' <= r_mu p) (t_team ti) res.
Proof. intros; eapply (C05L.last_alone Phi Phiinv TMF); eauto; apply C05L.with_gf; assumption. Qed.
Print Assumptions C05_last_alone_TMF.

Theorem C05_last_alone_TMP : forall (Phi Phiinv : R -> R) (P : params R) (trs : list (trating R))
    (i : nat) (ti : trating R) (res : list (rating R)),
  GaussFacts Phi Phiinv ->
  (2 <= length trs)%nat -> 0 < p_beta P -> 0 < p_kappa P -> Forall (fun t => 0 < t_ss t) trs ->
  nth_error trs i = Some ti ->
  (forall q tq, q <> i -> nth_error trs q = Some tq -> (t_rank tq < t_rank ti)%nat) ->
  nth_error (compute (H := RNum Phi Phiinv) TMP P trs) i = Some res ->
  Forall2 (fun p p' => r_mu p' <= r_mu p) (t_team ti) res.
Proof. intros; eapply (C05L.last_alone Phi Phiinv TMP); eauto; apply C05L.with_gf; assumption. Qed.
Print Assumptions C05_last_alone_TMP.

(** Two-team games.  [a] = (ma, sa, ta) and [b] = (mb, sb, tb) play three times: [a] wins
    (ranks rw < rw'), they draw (equal ranks rd), [a] loses (rl > rl').  For every player of
    either team: loss <= draw <= win, and the prior mu lies between loss and win.
    (Two teams: BTP = BTF, TMP = TMF with c doubled; all five kinds are covered.) *)
Theorem C05_two_team_order : forall (Phi Phiinv : R -> R) (k : kind) (P : params R) (ma sa : R) (ta : list (rating R)) (mb sb : R) (tb : list (rating R))
    (rw rw' rd rl rl' : nat) (aw bl ad bd al bw : list (rating R)),
  GaussFacts Phi Phiinv -> 0 < p_beta P -> 0 < p_kappa P -> 0 < sa -> 0 < sb ->
  (rw < rw')%nat -> (rl' < rl)%nat ->
  compute (H := RNum Phi Phiinv) k P [mkT ma sa ta rw; mkT mb sb tb rw'] = [aw; bl] ->
  compute (H := RNum Phi Phiinv) k P [mkT ma sa ta rd; mkT mb sb tb rd] = [ad; bd] ->
  compute (H := RNum Phi Phiinv) k P [mkT ma sa ta rl; mkT mb sb tb rl'] = [al; bw] ->
  (Forall2 (fun x y => r_mu x <= r_mu y) al ad /\ Forall2 (fun x y => r_mu x <= r_mu y) ad aw
   /\ Forall2 (fun p0 x => r_mu x <= r_mu p0) ta al /\ Forall2 (fun p0 x => r_mu p0 <= r_mu x) ta aw)
  /\ (Forall2 (fun x y => r_mu x <= r_mu y) bl bd /\ Forall2 (fun x y => r_mu x <= r_mu y) bd bw
   /\ Forall2 (fun p0 x => r_mu x <= r_mu p0) tb bl /\ Forall2 (fun p0 x => r_mu p0 <= r_mu x) tb bw).
Proof. intros; eapply (C05L.two_team_order Phi Phiinv k P ma sa ta mb sb tb rw rw' rd rl rl'); eauto; apply C05L.with_gf; assumption. Qed.
Print Assumptions C05_two_team_order.

Theorem C05_two_team_order_PLBT : forall (Phi Phiinv : R -> R) (k : kind) (P : params R) (ma sa : R) (ta : list (rating R)) (mb sb : R) (tb : list (rating R))
    (rw rw' rd rl rl' : nat) (aw bl ad bd al bw : list (rating R)),
  (k = PL \/ k = BTF \/ k = BTP) -> 0 < p_beta P -> 0 < p_kappa P -> 0 < sa -> 0 < sb ->
  (rw < rw')%nat -> (rl' < rl)%nat ->
  compute (H := RNum Phi Phiinv) k P [mkT ma sa ta rw; mkT mb sb tb rw'] = [aw; bl] ->
  compute (H := RNum Phi Phiinv) k P [mkT ma sa ta rd; mkT mb sb tb rd] = [ad; bd] ->
  compute (H := RNum Phi Phiinv) k P [mkT ma sa ta rl; mkT mb sb tb rl'] = [al; bw] ->
  (Forall2 (fun x y => r_mu x <= r_mu y) al ad /\ Forall2 (fun x y => r_mu x <= r_mu y) ad aw
   /\ Forall2 (fun p0 x => r_mu x <= r_mu p0) ta al /\ Forall2 (fun p0 x => r_mu p0 <= r_mu x) ta aw)
  /\ (Forall2 (fun x y => r_mu x <= r_mu y) bl bd /\ Forall2 (fun x y => r_mu x <= r_mu y) bd bw
   /\ Forall2 (fun p0 x => r_mu x <= r_mu p0) tb bl /\ Forall2 (fun p0 x => r_mu p0 <= r_mu x) tb bw).
Proof. intros; eapply (C05L.two_team_order Phi Phiinv k P ma sa ta mb sb tb rw rw' rd rl rl'); eauto; apply C05L.no_gf; assumption. Qed.
Print Assumptions C05_two_team_order_PLBT.

Example C05_two_team_games_ex : forall (Phi Phiinv : R -> R) (k : kind) (r r' : nat),
  exists x y, compute (H := RNum Phi Phiinv) k (mkParams (25/6) (1/10000) (gamma_default (H := RNum Phi Phiinv)))
     [mkT 25 64 [mkRating 25 8 0%Z NmNone] r; mkT 30 49 [mkRating 30 7 1%Z NmNone] r'] = [x; y].
Proof. intros. destruct k; eexists; eexists; reflexivity. Qed.

Example C05_two_team_order_PLBT_ex : forall (Phi Phiinv : R -> R) (aw bl ad bd al bw : list (rating R)),
  let P := mkParams (25/6) (1/10000) (gamma_default (H := RNum Phi Phiinv)) in
  let ta := [mkRating 25 8 0%Z NmNone] in let tb := [mkRating 30 7 1%Z NmNone] in
  compute (H := RNum Phi Phiinv) PL P [mkT 25 64 ta 0; mkT 30 49 tb 1] = [aw; bl] ->
  compute (H := RNum Phi Phiinv) PL P [mkT 25 64 ta 0; mkT 30 49 tb 0] = [ad; bd] ->
  compute (H := RNum Phi Phiinv) PL P [mkT 25 64 ta 1; mkT 30 49 tb 0] = [al; bw] ->
  Forall2 (fun x y => r_mu x <= r_mu y) al ad /\ Forall2 (fun x y => r_mu x <= r_mu y) ad aw.
Proof.
  intros Phi Phiinv aw bl ad bd al bw P ta tb Ew Ed El.
  destruct (C05_two_team_order_PLBT Phi Phiinv PL P 25 64 ta 30 49 tb 0 1 0 1 0 aw bl ad bd al bw) as [[H1 [H2 _]] _];
    auto; cbn; try lra; auto.
Qed.

(** A draw never raises the stronger team or lowers the weaker one (PL, BT); under
    Thurstone-Mosteller it does so by at most the draw-margin term
    (own share) * (team variance / c) * (kappa / c), c the pair's scale (doubled in TMP). *)
Theorem C05_draw_direction_PLBT : forall (Phi Phiinv : R -> R) (k : kind) (P : params R) (ma sa : R) (ta : list (rating R)) (mb sb : R) (tb : list (rating R))
    (r : nat) (ad bd : list (rating R)),
  (k = PL \/ k = BTF \/ k = BTP) -> 0 < p_beta P -> 0 < p_kappa P -> 0 < sa -> 0 < sb ->
  mb <= ma ->
  compute (H := RNum Phi Phiinv) k P [mkT ma sa ta r; mkT mb sb tb r] = [ad; bd] ->
  Forall2 (fun p0 x => r_mu x <= r_mu p0) ta ad /\ Forall2 (fun p0 x => r_mu p0 <= r_mu x) tb bd.
Proof. intros; eapply (C05L.draw_direction_plbt Phi Phiinv k P ma sa ta mb sb tb r); eauto. Qed.
Print Assumptions C05_draw_direction_PLBT.

Theorem C05_draw_direction_TMF : forall (Phi Phiinv : R -> R) (P : params R) (ma sa : R) (ta : list (rating R)) (mb sb : R) (tb : list (rating R))
    (r : nat) (ad bd : list (rating R)),
  GaussFacts Phi Phiinv -> 0 < p_beta P -> 0 < p_kappa P -> 0 < sa -> 0 < sb ->
  mb <= ma ->
  compute (H := RNum Phi Phiinv) TMF P [mkT ma sa ta r; mkT mb sb tb r] = [ad; bd] ->
  let c := sqrt (sa + sb + 2 * (p_beta P * p_beta P)) in
  Forall2 (fun p0 x => r_mu x <= r_mu p0 + r_sigma p0 * r_sigma p0 / sa * (sa / c * (p_kappa P / c))) ta ad
  /\ Forall2 (fun p0 x => r_mu p0 + r_sigma p0 * r_sigma p0 / sb * - (sb / c * (p_kappa P / c)) <= r_mu x) tb bd.
Proof. intros; eapply (C05L.draw_direction_tm Phi Phiinv false TMF P ma sa ta mb sb tb r); eauto. Qed.
Print Assumptions C05_draw_direction_TMF.

Theorem C05_draw_direction_TMP : forall (Phi Phiinv : R -> R) (P : params R) (ma sa : R) (ta : list (rating R)) (mb sb : R) (tb : list (rating R))
    (r : nat) (ad bd : list (rating R)),
  GaussFacts Phi Phiinv -> 0 < p_beta P -> 0 < p_kappa P -> 0 < sa -> 0 < sb ->
  mb <= ma ->
  compute (H := RNum Phi Phiinv) TMP P [mkT ma sa ta r; mkT mb sb tb r] = [ad; bd] ->
  let c := 2 * sqrt (sa + sb + 2 * (p_beta P * p_beta P)) in
  Forall2 (fun p0 x => r_mu x <= r_mu p0 + r_sigma p0 * r_sigma p0 / sa * (sa / c * (p_kappa P / c))) ta ad
  /\ Forall2 (fun p0 x => r_mu p0 + r_sigma p0 * r_sigma p0 / sb * - (sb / c * (p_kappa P / c)) <= r_mu x) tb bd.
Proof. intros; eapply (C05L.draw_direction_tm Phi Phiinv true TMP P ma sa ta mb sb tb r); eauto. Qed.
Print Assumptions C05_draw_direction_TMP.

(** No ties; PL and the full-pairing models: team [i] exchanges places with a better-placed
    team [j] (the ranks of the two are swapped, everything else is unchanged): no member's
    posterior mu is lower than without the exchange. *)
Theorem C05_exchange : forall (Phi Phiinv : R -> R) (k : kind) (P : params R) (trs : list (trating R))
    (i j : nat) (ti tj : trating R) (res res' : list (rating R)),
  GaussFacts Phi Phiinv -> (k = PL \/ k = BTF \/ k = TMF) ->
  (2 <= length trs)%nat -> 0 < p_beta P -> 0 < p_kappa P -> Forall (fun t => 0 < t_ss t) trs ->
  NoDup (map t_rank trs) ->
  nth_error trs i = Some ti -> nth_error trs j = Some tj -> (t_rank tj < t_rank ti)%nat ->
  nth_error (compute (H := RNum Phi Phiinv) k P trs) i = Some res ->
  nth_error (compute (H := RNum Phi Phiinv) k P
     (map (fun t => mkT (t_mu t) (t_ss t) (t_team t) (if Nat.eqb (t_rank t) (t_rank ti) then t_rank tj else if Nat.eqb (t_rank t) (t_rank tj) then t_rank ti else t_rank t)) trs)) i = Some res' ->
  Forall2 (fun p p' => r_mu p <= r_mu p') res res'.
Proof. intros; eapply (C05L.exchange Phi Phiinv k P trs i ti j tj); eauto; apply C05L.with_gf; assumption. Qed.
Print Assumptions C05_exchange.

Theorem C05_exchange_PLBT : forall (Phi Phiinv : R -> R) (k : kind) (P : params R) (trs : list (trating R))
    (i j : nat) (ti tj : trating R) (res res' : list (rating R)),
  k <> TMF -> (k = PL \/ k = BTF \/ k = TMF) ->
  (2 <= length trs)%nat -> 0 < p_beta P -> 0 < p_kappa P -> Forall (fun t => 0 < t_ss t) trs ->
  NoDup (map t_rank trs) ->
  nth_error trs i = Some ti -> nth_error trs j = Some tj -> (t_rank tj < t_rank ti)%nat ->
  nth_error (compute (H := RNum Phi Phiinv) k P trs) i = Some res ->
  nth_error (compute (H := RNum Phi Phiinv) k P
     (map (fun t => mkT (t_mu t) (t_ss t) (t_team t) (if Nat.eqb (t_rank t) (t_rank ti) then t_rank tj else if Nat.eqb (t_rank t) (t_rank tj) then t_rank ti else t_rank t)) trs)) i = Some res' ->
  Forall2 (fun p p' => r_mu p <= r_mu p') res res'.
Proof. intros; eapply (C05L.exchange Phi Phiinv k P trs i ti j tj); eauto; intros [E|E]; subst k; intuition congruence. Qed.
Print Assumptions C05_exchange_PLBT.

(** No ties; PL and the full-pairing models: two teams with identical member lists anywhere
    in any game end with mu ordered by finishing place (member by member). *)
Theorem C05_identical_ordered : forall (Phi Phiinv : R -> R) (k : kind) (P : params R) (trs : list (trating R))
    (i j : nat) (ti tj : trating R) (resi resj : list (rating R)),
  GaussFacts Phi Phiinv -> (k = PL \/ k = BTF \/ k = TMF) ->
  (2 <= length trs)%nat -> 0 < p_beta P -> 0 < p_kappa P -> Forall (fun t => 0 < t_ss t) trs ->
  NoDup (map t_rank trs) ->
  nth_error trs i = Some ti -> nth_error trs j = Some tj ->
  t_mu ti = t_mu tj -> t_ss ti = t_ss tj -> t_team ti = t_team tj -> (t_rank ti < t_rank tj)%nat ->
  nth_error (compute (H := RNum Phi Phiinv) k P trs) i = Some resi ->
  nth_error (compute (H := RNum Phi Phiinv) k P trs) j = Some resj ->
  Forall2 (fun pj pi => r_mu pj <= r_mu pi) resj resi.
Proof. intros; eapply (C05L.identical_ordered Phi Phiinv k P trs i ti j tj); eauto; apply C05L.with_gf; assumption. Qed.
Print Assumptions C05_identical_ordered.

Theorem C05_identical_ordered_PLBT : forall (Phi Phiinv : R -> R) (k : kind) (P : params R) (trs : list (trating R))
    (i j : nat) (ti tj : trating R) (resi resj : list (rating R)),
  k <> TMF -> (k = PL \/ k = BTF \/ k = TMF) ->
  (2 <= length trs)%nat -> 0 < p_beta P -> 0 < p_kappa P -> Forall (fun t => 0 < t_ss t) trs ->
  NoDup (map t_rank trs) ->
  nth_error trs i = Some ti -> nth_error trs j = Some tj ->
  t_mu ti = t_mu tj -> t_ss ti = t_ss tj -> t_team ti = t_team tj -> (t_rank ti < t_rank tj)%nat ->
  nth_error (compute (H := RNum Phi Phiinv) k P trs) i = Some resi ->
  nth_error (compute (H := RNum Phi Phiinv) k P trs) j = Some resj ->
  Forall2 (fun pj pi => r_mu pj <= r_mu pi) resj resi.
Proof. intros; eapply (C05L.identical_ordered Phi Phiinv k P trs i ti j tj); eauto; intros [E|E]; subst k; intuition congruence. Qed.
Print Assumptions C05_identical_ordered_PLBT.

(** Partial pairing (reading fixed in DESIGN §9-I1): in a game of identical teams listed in
    finishing order without ties, posterior mu is weakly ordered by place. *)
Theorem C05_identical_partial : forall (Phi Phiinv : R -> R) (k : kind) (P : params R) (trs : list (trating R))
    (m s : R) (tm : list (rating R)) (i j : nat) (resi resj : list (rating R)),
  GaussFacts Phi Phiinv -> (k = BTP \/ k = TMP) ->
  (2 <= length trs)%nat -> 0 < p_beta P -> 0 < p_kappa P -> 0 < s ->
  Forall (fun t => t_mu t = m /\ t_ss t = s /\ t_team t = tm) trs ->
  (forall a b ta tb, (a < b)%nat -> nth_error trs a = Some ta -> nth_error trs b = Some tb ->
     (t_rank ta < t_rank tb)%nat) ->
  (i < j)%nat ->
  nth_error (compute (H := RNum Phi Phiinv) k P trs) i = Some resi ->
  nth_error (compute (H := RNum Phi Phiinv) k P trs) j = Some resj ->
  Forall2 (fun pj pi => r_mu pj <= r_mu pi) resj resi.
Proof. intros; eapply (C05L.identical_partial Phi Phiinv k P trs m s tm i j); eauto; apply C05L.with_gf; assumption. Qed.
Print Assumptions C05_identical_partial.

Theorem C05_identical_partial_BTP : forall (Phi Phiinv : R -> R) (k : kind) (P : params R) (trs : list (trating R))
    (m s : R) (tm : list (rating R)) (i j : nat) (resi resj : list (rating R)),
  k = BTP ->
  (2 <= length trs)%nat -> 0 < p_beta P -> 0 < p_kappa P -> 0 < s ->
  Forall (fun t => t_mu t = m /\ t_ss t = s /\ t_team t = tm) trs ->
  (forall a b ta tb, (a < b)%nat -> nth_error trs a = Some ta -> nth_error trs b = Some tb ->
     (t_rank ta < t_rank tb)%nat) ->
  (i < j)%nat ->
  nth_error (compute (H := RNum Phi Phiinv) k P trs) i = Some resi ->
  nth_error (compute (H := RNum Phi Phiinv) k P trs) j = Some resj ->
  Forall2 (fun pj pi => r_mu pj <= r_mu pi) resj resi.
Proof. intros; eapply (C05L.identical_partial Phi Phiinv k P trs m s tm i j); eauto; first [apply C05L.no_gf; auto | auto]. Qed.
Print Assumptions C05_identical_partial_BTP.

(** ** The same statements for [rate_core] (tau inflation, sorting by rank value, update,
    unsorting, optional sigma clamp).  Domain: non-empty teams, sigma^2 + tau^2 > 0 for every
    player, well-formed rank values (a dyadic rational num / 2^k with k >= 0).  The premise
    [GaussFacts] is required for the Thurstone-Mosteller kinds only. *)

(** no rank values: teams finish in input order; the first team is alone in first place *)
Theorem C05_rate_first_alone_none : forall (Phi Phiinv : R -> R) (k : kind) (P : params R) (tau : R) (limit : bool)
    (teams : list (list (rating R))) (t res : list (rating R)),
  (k = TMF \/ k = TMP -> GaussFacts Phi Phiinv) -> (2 <= length teams)%nat -> 0 < p_beta P -> 0 < p_kappa P ->
  Forall (fun t => t <> [] /\ Forall (fun p => 0 < r_sigma p * r_sigma p + tau * tau) t) teams ->
  nth_error teams 0 = Some t ->
  nth_error (rate_core (H := RNum Phi Phiinv) k P tau limit teams None) 0 = Some res ->
  Forall2 (fun p p' => r_mu p <= r_mu p') t res.
Proof. intros; eapply (C05RateL.rate_first_none Phi Phiinv k P tau limit teams); eauto. Qed.
Print Assumptions C05_rate_first_alone_none.

Theorem C05_rate_last_alone_none : forall (Phi Phiinv : R -> R) (k : kind) (P : params R) (tau : R) (limit : bool)
    (teams : list (list (rating R))) (t res : list (rating R)),
  (k = TMF \/ k = TMP -> GaussFacts Phi Phiinv) -> (2 <= length teams)%nat -> 0 < p_beta P -> 0 < p_kappa P ->
  Forall (fun t => t <> [] /\ Forall (fun p => 0 < r_sigma p * r_sigma p + tau * tau) t) teams ->
  nth_error teams (length teams - 1) = Some t ->
  nth_error (rate_core (H := RNum Phi Phiinv) k P tau limit teams None) (length teams - 1) = Some res ->
  Forall2 (fun p p' => r_mu p' <= r_mu p) t res.
Proof. intros; eapply (C05RateL.rate_last_none Phi Phiinv k P tau limit teams); eauto. Qed.
Print Assumptions C05_rate_last_alone_none.

Example C05_rate_first_alone_none_ex : forall (Phi Phiinv : R -> R) (res : list (rating R)),
  nth_error (rate_core (H := RNum Phi Phiinv) PL (mkParams (25/6) (1/10000) (gamma_default (H := RNum Phi Phiinv))) (1/12) false
     [[mkRating 25 8 0%Z NmNone; mkRating 20 3 1%Z NmNone]; [mkRating 30 7 2%Z NmNone]; [mkRating 27 5 3%Z NmNone]] None) 0 = Some res ->
  Forall2 (fun p p' => r_mu p <= r_mu p') [mkRating 25 8 0%Z NmNone; mkRating 20 3 1%Z NmNone] res.
Proof.
  intros Phi Phiinv res E.
  pose proof (fun H1 H2 H3 H4 H5 H6 => C05_rate_first_alone_none Phi Phiinv PL _ _ _ _ [mkRating 25 8 0%Z NmNone; mkRating 20 3 1%Z NmNone] _ H1 H2 H3 H4 H5 H6 E) as T.
  apply T; cbn; try lra; try lia; try reflexivity; [intros [X|X]; discriminate|].
  repeat constructor; cbn; try discriminate; lra.
Qed.

(** explicit rank values (lower is better), any number of teams *)
Theorem C05_rate_first_alone_keys : forall (Phi Phiinv : R -> R) (k : kind) (P : params R) (tau : R) (limit : bool)
    (teams : list (list (rating R))) (ks : list key) (i : nat) (ki : key) (t res : list (rating R)),
  (k = TMF \/ k = TMP -> GaussFacts Phi Phiinv) -> (2 <= length teams)%nat -> 0 < p_beta P -> 0 < p_kappa P ->
  Forall (fun t => t <> [] /\ Forall (fun p => 0 < r_sigma p * r_sigma p + tau * tau) t) teams ->
  Forall (fun k : key => (0 <= snd k)%Z) ks -> length ks = length teams ->
  nth_error ks i = Some ki -> nth_error teams i = Some t ->
  (forall q kq, q <> i -> nth_error ks q = Some kq -> key_ltb ki kq = true) ->
  nth_error (rate_core (H := RNum Phi Phiinv) k P tau limit teams (Some ks)) i = Some res ->
  Forall2 (fun p p' => r_mu p <= r_mu p') t res.
Proof. intros; eapply (C05RateL.rate_some_alone Phi Phiinv true k P tau limit teams ks i ki); eauto. Qed.
Print Assumptions C05_rate_first_alone_keys.

Theorem C05_rate_last_alone_keys : forall (Phi Phiinv : R -> R) (k : kind) (P : params R) (tau : R) (limit : bool)
    (teams : list (list (rating R))) (ks : list key) (i : nat) (ki : key) (t res : list (rating R)),
  (k = TMF \/ k = TMP -> GaussFacts Phi Phiinv) -> (2 <= length teams)%nat -> 0 < p_beta P -> 0 < p_kappa P ->
  Forall (fun t => t <> [] /\ Forall (fun p => 0 < r_sigma p * r_sigma p + tau * tau) t) teams ->
  Forall (fun k : key => (0 <= snd k)%Z) ks -> length ks = length teams ->
  nth_error ks i = Some ki -> nth_error teams i = Some t ->
  (forall q kq, q <> i -> nth_error ks q = Some kq -> key_ltb kq ki = true) ->
  nth_error (rate_core (H := RNum Phi Phiinv) k P tau limit teams (Some ks)) i = Some res ->
  Forall2 (fun p p' => r_mu p' <= r_mu p) t res.
Proof. intros; eapply (C05RateL.rate_some_alone Phi Phiinv false k P tau limit teams ks i ki); eauto. Qed.
Print Assumptions C05_rate_last_alone_keys.

Example C05_rate_last_alone_keys_ex : forall (Phi Phiinv : R -> R) (res : list (rating R)),
  nth_error (rate_core (H := RNum Phi Phiinv) BTP (mkParams (25/6) (1/10000) (gamma_default (H := RNum Phi Phiinv))) (1/12) true
     [[mkRating 25 8 0%Z NmNone; mkRating 20 3 1%Z NmNone]; [mkRating 30 7 2%Z NmNone]; [mkRating 27 5 3%Z NmNone]]
     (Some [(2, 0); (7, 1); (1, 0)]%Z)) 1 = Some res ->
  Forall2 (fun p p' => r_mu p' <= r_mu p) [mkRating 30 7 2%Z NmNone] res.
Proof.
  intros Phi Phiinv res E.
  pose proof (fun H1 H2 H3 H4 H5 H6 H7 H8 H9 H10 =>
     C05_rate_last_alone_keys Phi Phiinv BTP _ _ _ _ _ 1%nat (7, 1)%Z [mkRating 30 7 2%Z NmNone] _ H1 H2 H3 H4 H5 H6 H7 H8 H9 H10 E) as T.
  apply T; cbn; try lra; try lia; try reflexivity.
  - intros [X|X]; discriminate.
  - repeat constructor; cbn; try discriminate; lra.
  - repeat constructor; cbn; lia.
  - intros [|[|[|q]]] kq Hq Eq; cbn in Eq; try congruence; try (destruct q; discriminate); injection Eq as <-; reflexivity.
Qed.

(** two-team games with explicit rank values: [a] wins with (kw, kw'), draws with (kd, kd'),
    loses with (kl, kl') *)
Theorem C05_rate_two_team_order : forall (Phi Phiinv : R -> R) (k : kind) (P : params R) (tau : R) (limit : bool)
    (ta tb : list (rating R)) (kw kw' kd kd' kl kl' : key) (aw bl ad bd al bw : list (rating R)),
  (k = TMF \/ k = TMP -> GaussFacts Phi Phiinv) -> 0 < p_beta P -> 0 < p_kappa P ->
  Forall (fun t => t <> [] /\ Forall (fun p => 0 < r_sigma p * r_sigma p + tau * tau) t) [ta; tb] ->
  key_ltb kw kw' = true -> key_leb kd kd' = true -> key_leb kd' kd = true -> key_ltb kl' kl = true ->
  rate_core (H := RNum Phi Phiinv) k P tau limit [ta; tb] (Some [kw; kw']) = [aw; bl] ->
  rate_core (H := RNum Phi Phiinv) k P tau limit [ta; tb] (Some [kd; kd']) = [ad; bd] ->
  rate_core (H := RNum Phi Phiinv) k P tau limit [ta; tb] (Some [kl; kl']) = [al; bw] ->
  (Forall2 (fun x y => r_mu x <= r_mu y) al ad /\ Forall2 (fun x y => r_mu x <= r_mu y) ad aw
   /\ Forall2 (fun p0 x => r_mu x <= r_mu p0) ta al /\ Forall2 (fun p0 x => r_mu p0 <= r_mu x) ta aw)
  /\ (Forall2 (fun x y => r_mu x <= r_mu y) bl bd /\ Forall2 (fun x y => r_mu x <= r_mu y) bd bw
   /\ Forall2 (fun p0 x => r_mu x <= r_mu p0) tb bl /\ Forall2 (fun p0 x => r_mu p0 <= r_mu x) tb bw).
Proof. intros; eapply (C05RateL.rate_two_team_order Phi Phiinv k P tau limit ta tb kw kw' kd kd' kl kl'); eauto. Qed.
Print Assumptions C05_rate_two_team_order.

Theorem C05_rate_draw_direction_PLBT : forall (Phi Phiinv : R -> R) (k : kind) (P : params R) (tau : R) (limit : bool)
    (ta tb : list (rating R)) (kd kd' : key) (ad bd : list (rating R)),
  (k = PL \/ k = BTF \/ k = BTP) -> 0 < p_beta P -> 0 < p_kappa P ->
  Forall (fun t => t <> [] /\ Forall (fun p => 0 < r_sigma p * r_sigma p + tau * tau) t) [ta; tb] ->
  key_leb kd kd' = true -> key_leb kd' kd = true ->
  Rsum (map r_mu tb) <= Rsum (map r_mu ta) ->
  rate_core (H := RNum Phi Phiinv) k P tau limit [ta; tb] (Some [kd; kd']) = [ad; bd] ->
  Forall2 (fun p0 x => r_mu x <= r_mu p0) ta ad /\ Forall2 (fun p0 x => r_mu p0 <= r_mu x) tb bd.
Proof. intros; eapply (C05RateL.rate_draw_direction_plbt Phi Phiinv k P tau limit ta tb kd kd'); eauto. Qed.
Print Assumptions C05_rate_draw_direction_PLBT.

(** no rank values (input order = finishing order, no ties), PL and full pairing: of two
    teams with identical member lists the earlier (better placed) one ends with mu >= *)
Theorem C05_rate_identical_ordered_none : forall (Phi Phiinv : R -> R) (k : kind) (P : params R) (tau : R) (limit : bool)
    (teams : list (list (rating R))) (i j : nat) (t resi resj : list (rating R)),
  (k = TMF -> GaussFacts Phi Phiinv) -> (k = PL \/ k = BTF \/ k = TMF) ->
  (2 <= length teams)%nat -> 0 < p_beta P -> 0 < p_kappa P ->
  Forall (fun t => t <> [] /\ Forall (fun p => 0 < r_sigma p * r_sigma p + tau * tau) t) teams ->
  (i < j)%nat -> nth_error teams i = Some t -> nth_error teams j = Some t ->
  nth_error (rate_core (H := RNum Phi Phiinv) k P tau limit teams None) i = Some resi ->
  nth_error (rate_core (H := RNum Phi Phiinv) k P tau limit teams None) j = Some resj ->
  Forall2 (fun pj pi => r_mu pj <= r_mu pi) resj resi.
Proof. intros; eapply (C05RateL.rate_identical_none Phi Phiinv k P tau limit teams i j t); eauto; intros [E|E]; subst k; intuition congruence. Qed.
Print Assumptions C05_rate_identical_ordered_none.

Theorem C05_rate_draw_direction_TMF : forall (Phi Phiinv : R -> R) (P : params R) (tau : R) (limit : bool)
    (ta tb : list (rating R)) (kd kd' : key) (ad bd : list (rating R)),
  GaussFacts Phi Phiinv -> 0 < p_beta P -> 0 < p_kappa P ->
  Forall (fun t => t <> [] /\ Forall (fun p => 0 < r_sigma p * r_sigma p + tau * tau) t) [ta; tb] ->
  key_leb kd kd' = true -> key_leb kd' kd = true ->
  Rsum (map r_mu tb) <= Rsum (map r_mu ta) ->
  rate_core (H := RNum Phi Phiinv) TMF P tau limit [ta; tb] (Some [kd; kd']) = [ad; bd] ->
  let sa := t_ss (team_rating (H := RNum Phi Phiinv) (map (inflate (H := RNum Phi Phiinv) tau) ta) 0) in
  let sb := t_ss (team_rating (H := RNum Phi Phiinv) (map (inflate (H := RNum Phi Phiinv) tau) tb) 0) in
  let c := sqrt (sa + sb + 2 * (p_beta P * p_beta P)) in
  Forall2 (fun p0 x => r_mu x <= r_mu p0 + r_sigma (inflate (H := RNum Phi Phiinv) tau p0) * r_sigma (inflate (H := RNum Phi Phiinv) tau p0) / sa * (sa / c * (p_kappa P / c))) ta ad
  /\ Forall2 (fun p0 x => r_mu p0 + r_sigma (inflate (H := RNum Phi Phiinv) tau p0) * r_sigma (inflate (H := RNum Phi Phiinv) tau p0) / sb * - (sb / c * (p_kappa P / c)) <= r_mu x) tb bd.
Proof. intros; eapply (C05RateL.rate_draw_direction_tm Phi Phiinv false TMF P tau limit ta tb kd kd'); eauto. Qed.
Print Assumptions C05_rate_draw_direction_TMF.

Theorem C05_rate_draw_direction_TMP : forall (Phi Phiinv : R -> R) (P : params R) (tau : R) (limit : bool)
    (ta tb : list (rating R)) (kd kd' : key) (ad bd : list (rating R)),
  GaussFacts Phi Phiinv -> 0 < p_beta P -> 0 < p_kappa P ->
  Forall (fun t => t <> [] /\ Forall (fun p => 0 < r_sigma p * r_sigma p + tau * tau) t) [ta; tb] ->
  key_leb kd kd' = true -> key_leb kd' kd = true ->
  Rsum (map r_mu tb) <= Rsum (map r_mu ta) ->
  rate_core (H := RNum Phi Phiinv) TMP P tau limit [ta; tb] (Some [kd; kd']) = [ad; bd] ->
  let sa := t_ss (team_rating (H := RNum Phi Phiinv) (map (inflate (H := RNum Phi Phiinv) tau) ta) 0) in
  let sb := t_ss (team_rating (H := RNum Phi Phiinv) (map (inflate (H := RNum Phi Phiinv) tau) tb) 0) in
  let c := 2 * sqrt (sa + sb + 2 * (p_beta P * p_beta P)) in
  Forall2 (fun p0 x => r_mu x <= r_mu p0 + r_sigma (inflate (H := RNum Phi Phiinv) tau p0) * r_sigma (inflate (H := RNum Phi Phiinv) tau p0) / sa * (sa / c * (p_kappa P / c))) ta ad
  /\ Forall2 (fun p0 x => r_mu p0 + r_sigma (inflate (H := RNum Phi Phiinv) tau p0) * r_sigma (inflate (H := RNum Phi Phiinv) tau p0) / sb * - (sb / c * (p_kappa P / c)) <= r_mu x) tb bd.
Proof. intros; eapply (C05RateL.rate_draw_direction_tm Phi Phiinv true TMP P tau limit ta tb kd kd'); eauto. Qed.
Print Assumptions C05_rate_draw_direction_TMP.

(** ** Non-vacuity of the compute-level PL/BT statements: concrete games satisfying the hypotheses *)
Example C05_first_alone_PL_ex : forall (Phi Phiinv : R -> R) (res : list (rating R)),
  let a := [mkRating 25 8 0%Z NmNone; mkRating 20 3 1%Z NmNone] in
  nth_error (compute (H := RNum Phi Phiinv) PL (mkParams (25/6) (1/10000) (gamma_default (H := RNum Phi Phiinv)))
     [mkT 45 73 a 0; mkT 30 49 [mkRating 30 7 2%Z NmNone] 1; mkT 27 25 [mkRating 27 5 3%Z NmNone] 1]) 0 = Some res ->
  Forall2 (fun p p' => r_mu p <= r_mu p') a res.
Proof.
  intros Phi Phiinv res a E.
  pose proof (fun H1 H2 H3 H4 H5 H6 => C05_first_alone_PL Phi Phiinv _ _ 0%nat (mkT 45 73 a 0) _ H1 H2 H3 H4 H5 H6 E) as T.
  apply T; cbn; try lra; try lia; try reflexivity.
  - repeat constructor; cbn; lra.
  - intros [|[|[|q]]] tq Hq Eq; cbn in Eq; try congruence; try (destruct q; discriminate); injection Eq as <-; cbn; lia.
Qed.

Example C05_last_alone_BTF_ex : forall (Phi Phiinv : R -> R) (res : list (rating R)),
  let c := [mkRating 27 5 3%Z NmNone] in
  nth_error (compute (H := RNum Phi Phiinv) BTF (mkParams (25/6) (1/10000) (gamma_default (H := RNum Phi Phiinv)))
     [mkT 45 73 [mkRating 25 8 0%Z NmNone; mkRating 20 3 1%Z NmNone] 0; mkT 30 49 [mkRating 30 7 2%Z NmNone] 0; mkT 27 25 c 2]) 2 = Some res ->
  Forall2 (fun p p' => r_mu p' <= r_mu p) c res.
Proof.
  intros Phi Phiinv res c E.
  pose proof (fun H1 H2 H3 H4 H5 H6 => C05_last_alone_BTF Phi Phiinv _ _ 2%nat (mkT 27 25 c 2) _ H1 H2 H3 H4 H5 H6 E) as T.
  apply T; cbn; try lra; try lia; try reflexivity.
  - repeat constructor; cbn; lra.
  - intros [|[|[|q]]] tq Hq Eq; cbn in Eq; try congruence; try (destruct q; discriminate); injection Eq as <-; cbn; lia.
Qed.

Example C05_draw_direction_PLBT_ex : forall (Phi Phiinv : R -> R) (ad bd : list (rating R)),
  compute (H := RNum Phi Phiinv) BTP (mkParams (25/6) (1/10000) (gamma_default (H := RNum Phi Phiinv)))
     [mkT 30 49 [mkRating 30 7 1%Z NmNone] 0; mkT 25 64 [mkRating 25 8 0%Z NmNone] 0] = [ad; bd] ->
  Forall2 (fun p0 x => r_mu x <= r_mu p0) [mkRating 30 7 1%Z NmNone] ad
  /\ Forall2 (fun p0 x => r_mu p0 <= r_mu x) [mkRating 25 8 0%Z NmNone] bd.
Proof.
  intros Phi Phiinv ad bd E.
  apply (C05_draw_direction_PLBT Phi Phiinv BTP _ _ _ _ _ _ _ _ _ _ (or_intror (or_intror eq_refl))) in E; cbn; try lra. exact E.
Qed.

Example C05_exchange_PLBT_ex : forall (Phi Phiinv : R -> R) (res res' : list (rating R)),
  let P := mkParams (25/6) (1/10000) (gamma_default (H := RNum Phi Phiinv)) in
  let a := [mkRating 25 8 0%Z NmNone; mkRating 20 3 1%Z NmNone] in
  let b := [mkRating 30 7 2%Z NmNone] in let c := [mkRating 27 5 3%Z NmNone] in
  nth_error (compute (H := RNum Phi Phiinv) PL P [mkT 45 73 a 0; mkT 30 49 b 1; mkT 27 25 c 2]) 2 = Some res ->
  nth_error (compute (H := RNum Phi Phiinv) PL P [mkT 45 73 a 2; mkT 30 49 b 1; mkT 27 25 c 0]) 2 = Some res' ->
  Forall2 (fun p p' => r_mu p <= r_mu p') res res'.
Proof.
  intros Phi Phiinv res res' P a b c E E'.
  apply (C05_exchange_PLBT Phi Phiinv PL P [mkT 45 73 a 0; mkT 30 49 b 1; mkT 27 25 c 2] 2 0 (mkT 27 25 c 2) (mkT 45 73 a 0) res res');
    cbn; try lra; try lia; try reflexivity; try discriminate; auto.
  - repeat constructor; cbn; lra.
  - repeat constructor; cbn; intuition lia.
Qed.

Example C05_identical_ordered_PLBT_ex : forall (Phi Phiinv : R -> R) (resi resj : list (rating R)),
  let P := mkParams (25/6) (1/10000) (gamma_default (H := RNum Phi Phiinv)) in
  let a := [mkRating 25 8 0%Z NmNone] in let b := [mkRating 30 7 2%Z NmNone] in
  nth_error (compute (H := RNum Phi Phiinv) BTF P [mkT 25 64 a 0; mkT 30 49 b 1; mkT 25 64 a 2]) 0 = Some resi ->
  nth_error (compute (H := RNum Phi Phiinv) BTF P [mkT 25 64 a 0; mkT 30 49 b 1; mkT 25 64 a 2]) 2 = Some resj ->
  Forall2 (fun pj pi => r_mu pj <= r_mu pi) resj resi.
Proof.
  intros Phi Phiinv resi resj P a b E E'.
  apply (C05_identical_ordered_PLBT Phi Phiinv BTF P [mkT 25 64 a 0; mkT 30 49 b 1; mkT 25 64 a 2] 0 2 (mkT 25 64 a 0) (mkT 25 64 a 2) resi resj);
    cbn; try lra; try lia; try reflexivity; try discriminate; auto.
  - repeat constructor; cbn; lra.
  - repeat constructor; cbn; intuition lia.
Qed.

Example C05_identical_partial_BTP_ex : forall (Phi Phiinv : R -> R) (resi resj : list (rating R)),
  let P := mkParams (25/6) (1/10000) (gamma_default (H := RNum Phi Phiinv)) in
  let a := [mkRating 25 8 0%Z NmNone] in
  nth_error (compute (H := RNum Phi Phiinv) BTP P [mkT 25 64 a 0; mkT 25 64 a 1; mkT 25 64 a 2]) 1 = Some resi ->
  nth_error (compute (H := RNum Phi Phiinv) BTP P [mkT 25 64 a 0; mkT 25 64 a 1; mkT 25 64 a 2]) 2 = Some resj ->
  Forall2 (fun pj pi => r_mu pj <= r_mu pi) resj resi.
Proof.
  intros Phi Phiinv resi resj P a E E'.
  apply (C05_identical_partial_BTP Phi Phiinv BTP P [mkT 25 64 a 0; mkT 25 64 a 1; mkT 25 64 a 2] 25 64 a 1 2 resi resj);
    cbn; try lra; try lia; try reflexivity; auto.
  - repeat constructor.
  - intros [|[|[|x]]] [|[|[|y]]] u w Hxy Eu Ew; cbn in Eu, Ew; try lia; try (destruct x; discriminate); try (destruct y; discriminate);
      injection Eu as <-; injection Ew as <-; cbn; lia.
Qed.

(** ** The [GaussFacts] premise instantiated.

    Each theorem above that takes [GaussFacts Phi Phiinv] as a premise is restated here for
    the concrete standard normal distribution function [GaussInst.PhiK] and its inverse
    [GaussInst.PhiinvK] (constructed in GaussInst.v), with no premise about the normal law:
    [GaussFull.GaussFacts_inst : GaussFacts GaussInst.PhiK GaussInst.PhiinvK] is proved
    outright (calculus facts in GaussCalc.v, the Gaussian integral in GaussIntegral.v). *)
Theorem C05_first_alone_TMF_inst : forall (P : params R) (trs : list (trating R))
    (i : nat) (ti : trating R) (res : list (rating R)),
  (2 <= length trs)%nat -> 0 < p_beta P -> 0 < p_kappa P -> Forall (fun t => 0 < t_ss t) trs ->
  nth_error trs i = Some ti ->
  (forall q tq, q <> i -> nth_error trs q = Some tq -> (t_rank ti < t_rank tq)%nat) ->
  nth_error (compute (H := RNum GaussInst.PhiK GaussInst.PhiinvK) TMF P trs) i = Some res ->
  Forall2 (fun p p' => r_mu p <= r_mu p') (t_team ti) res.
Proof. intros P trs i ti res; exact (C05_first_alone_TMF GaussInst.PhiK GaussInst.PhiinvK P trs i ti res GaussFull.GaussFacts_inst). Qed.
Print Assumptions C05_first_alone_TMF_inst.

Theorem C05_first_alone_TMP_inst : forall (P : params R) (trs : list (trating R))
    (i : nat) (ti : trating R) (res : list (rating R)),
  (2 <= length trs)%nat -> 0 < p_beta P -> 0 < p_kappa P -> Forall (fun t => 0 < t_ss t) trs ->
  nth_error trs i = Some ti ->
  (forall q tq, q <> i -> nth_error trs q = Some tq -> (t_rank ti < t_rank tq)%nat) ->
  nth_error (compute (H := RNum GaussInst.PhiK GaussInst.PhiinvK) TMP P trs) i = Some res ->
  Forall2 (fun p p' => r_mu p <= r_mu p') (t_team ti) res.
Proof. intros P trs i ti res; exact (C05_first_alone_TMP GaussInst.PhiK GaussInst.PhiinvK P trs i ti res GaussFull.GaussFacts_inst). Qed.
Print Assumptions C05_first_alone_TMP_inst.

Theorem C05_last_alone_TMF_inst : forall (P : params R) (trs : list (trating R))
    (i : nat) (ti : trating R) (res : list (rating R)),
  (2 <= length trs)%nat -> 0 < p_beta P -> 0 < p_kappa P -> Forall (fun t => 0 < t_ss t) trs ->
  nth_error trs i = Some ti ->
  (forall q tq, q <> i -> nth_error trs q = Some tq -> (t_rank tq < t_rank ti)%nat) ->
  nth_error (compute (H := RNum GaussInst.PhiK GaussInst.PhiinvK) TMF P trs) i = Some res ->
  Forall2 (fun p p' => r_mu p' <= r_mu p) (t_team ti) res.
Proof. intros P trs i ti res; exact (C05_last_alone_TMF GaussInst.PhiK GaussInst.PhiinvK P trs i ti res GaussFull.GaussFacts_inst). Qed.
Print Assumptions C05_last_alone_TMF_inst.

Theorem C05_last_alone_TMP_inst : forall (P : params R) (trs : list (trating R))
    (i : nat) (ti : trating R) (res : list (rating R)),
  (2 <= length trs)%nat -> 0 < p_beta P -> 0 < p_kappa P -> Forall (fun t => 0 < t_ss t) trs ->
  nth_error trs i = Some ti ->
  (forall q tq, q <> i -> nth_error trs q = Some tq -> (t_rank tq < t_rank ti)%nat) ->
  nth_error (compute (H := RNum GaussInst.PhiK GaussInst.PhiinvK) TMP P trs) i = Some res ->
  Forall2 (fun p p' => r_mu p' <= r_mu p) (t_team ti) res.
Proof. intros P trs i ti res; exact (C05_last_alone_TMP GaussInst.PhiK GaussInst.PhiinvK P trs i ti res GaussFull.GaussFacts_inst). Qed.
Print Assumptions C05_last_alone_TMP_inst.

Theorem C05_two_team_order_inst : forall (k : kind) (P : params R) (ma sa : R) (ta : list (rating R)) (mb sb : R) (tb : list (rating R))
    (rw rw' rd rl rl' : nat) (aw bl ad bd al bw : list (rating R)),
  0 < p_beta P -> 0 < p_kappa P -> 0 < sa -> 0 < sb ->
  (rw < rw')%nat -> (rl' < rl)%nat ->
  compute (H := RNum GaussInst.PhiK GaussInst.PhiinvK) k P [mkT ma sa ta rw; mkT mb sb tb rw'] = [aw; bl] ->
  compute (H := RNum GaussInst.PhiK GaussInst.PhiinvK) k P [mkT ma sa ta rd; mkT mb sb tb rd] = [ad; bd] ->
  compute (H := RNum GaussInst.PhiK GaussInst.PhiinvK) k P [mkT ma sa ta rl; mkT mb sb tb rl'] = [al; bw] ->
  (Forall2 (fun x y => r_mu x <= r_mu y) al ad /\ Forall2 (fun x y => r_mu x <= r_mu y) ad aw
   /\ Forall2 (fun p0 x => r_mu x <= r_mu p0) ta al /\ Forall2 (fun p0 x => r_mu p0 <= r_mu x) ta aw)
  /\ (Forall2 (fun x y => r_mu x <= r_mu y) bl bd /\ Forall2 (fun x y => r_mu x <= r_mu y) bd bw
   /\ Forall2 (fun p0 x => r_mu x <= r_mu p0) tb bl /\ Forall2 (fun p0 x => r_mu p0 <= r_mu x) tb bw).
Proof. intros k P ma sa ta mb sb tb rw rw' rd rl rl' aw bl ad bd al bw; exact (C05_two_team_order GaussInst.PhiK GaussInst.PhiinvK k P ma sa ta mb sb tb rw rw' rd rl rl' aw bl ad bd al bw GaussFull.GaussFacts_inst). Qed.
Print Assumptions C05_two_team_order_inst.

Theorem C05_draw_direction_TMF_inst : forall (P : params R) (ma sa : R) (ta : list (rating R)) (mb sb : R) (tb : list (rating R))
    (r : nat) (ad bd : list (rating R)),
  0 < p_beta P -> 0 < p_kappa P -> 0 < sa -> 0 < sb ->
  mb <= ma ->
  compute (H := RNum GaussInst.PhiK GaussInst.PhiinvK) TMF P [mkT ma sa ta r; mkT mb sb tb r] = [ad; bd] ->
  let c := sqrt (sa + sb + 2 * (p_beta P * p_beta P)) in
  Forall2 (fun p0 x => r_mu x <= r_mu p0 + r_sigma p0 * r_sigma p0 / sa * (sa / c * (p_kappa P / c))) ta ad
  /\ Forall2 (fun p0 x => r_mu p0 + r_sigma p0 * r_sigma p0 / sb * - (sb / c * (p_kappa P / c)) <= r_mu x) tb bd.
Proof. intros P ma sa ta mb sb tb r ad bd; exact (C05_draw_direction_TMF GaussInst.PhiK GaussInst.PhiinvK P ma sa ta mb sb tb r ad bd GaussFull.GaussFacts_inst). Qed.
Print Assumptions C05_draw_direction_TMF_inst.

Theorem C05_draw_direction_TMP_inst : forall (P : params R) (ma sa : R) (ta : list (rating R)) (mb sb : R) (tb : list (rating R))
    (r : nat) (ad bd : list (rating R)),
  0 < p_beta P -> 0 < p_kappa P -> 0 < sa -> 0 < sb ->
  mb <= ma ->
  compute (H := RNum GaussInst.PhiK GaussInst.PhiinvK) TMP P [mkT ma sa ta r; mkT mb sb tb r] = [ad; bd] ->
  let c := 2 * sqrt (sa + sb + 2 * (p_beta P * p_beta P)) in
  Forall2 (fun p0 x => r_mu x <= r_mu p0 + r_sigma p0 * r_sigma p0 / sa * (sa / c * (p_kappa P / c))) ta ad
  /\ Forall2 (fun p0 x => r_mu p0 + r_sigma p0 * r_sigma p0 / sb * - (sb / c * (p_kappa P / c)) <= r_mu x) tb bd.
Proof. intros P ma sa ta mb sb tb r ad bd; exact (C05_draw_direction_TMP GaussInst.PhiK GaussInst.PhiinvK P ma sa ta mb sb tb r ad bd GaussFull.GaussFacts_inst). Qed.
Print Assumptions C05_draw_direction_TMP_inst.

Theorem C05_exchange_inst : forall (k : kind) (P : params R) (trs : list (trating R))
    (i j : nat) (ti tj : trating R) (res res' : list (rating R)),
  (k = PL \/ k = BTF \/ k = TMF) ->
  (2 <= length trs)%nat -> 0 < p_beta P -> 0 < p_kappa P -> Forall (fun t => 0 < t_ss t) trs ->
  NoDup (map t_rank trs) ->
  nth_error trs i = Some ti -> nth_error trs j = Some tj -> (t_rank tj < t_rank ti)%nat ->
  nth_error (compute (H := RNum GaussInst.PhiK GaussInst.PhiinvK) k P trs) i = Some res ->
  nth_error (compute (H := RNum GaussInst.PhiK GaussInst.PhiinvK) k P
     (map (fun t => mkT (t_mu t) (t_ss t) (t_team t) (if Nat.eqb (t_rank t) (t_rank ti) then t_rank tj else if Nat.eqb (t_rank t) (t_rank tj) then t_rank ti else t_rank t)) trs)) i = Some res' ->
  Forall2 (fun p p' => r_mu p <= r_mu p') res res'.
Proof. intros k P trs i j ti tj res res'; exact (C05_exchange GaussInst.PhiK GaussInst.PhiinvK k P trs i j ti tj res res' GaussFull.GaussFacts_inst). Qed.
Print Assumptions C05_exchange_inst.

Theorem C05_identical_ordered_inst : forall (k : kind) (P : params R) (trs : list (trating R))
    (i j : nat) (ti tj : trating R) (resi resj : list (rating R)),
  (k = PL \/ k = BTF \/ k = TMF) ->
  (2 <= length trs)%nat -> 0 < p_beta P -> 0 < p_kappa P -> Forall (fun t => 0 < t_ss t) trs ->
  NoDup (map t_rank trs) ->
  nth_error trs i = Some ti -> nth_error trs j = Some tj ->
  t_mu ti = t_mu tj -> t_ss ti = t_ss tj -> t_team ti = t_team tj -> (t_rank ti < t_rank tj)%nat ->
  nth_error (compute (H := RNum GaussInst.PhiK GaussInst.PhiinvK) k P trs) i = Some resi ->
  nth_error (compute (H := RNum GaussInst.PhiK GaussInst.PhiinvK) k P trs) j = Some resj ->
  Forall2 (fun pj pi => r_mu pj <= r_mu pi) resj resi.
Proof. intros k P trs i j ti tj resi resj; exact (C05_identical_ordered GaussInst.PhiK GaussInst.PhiinvK k P trs i j ti tj resi resj GaussFull.GaussFacts_inst). Qed.
Print Assumptions C05_identical_ordered_inst.

Theorem C05_identical_partial_inst : forall (k : kind) (P : params R) (trs : list (trating R))
    (m s : R) (tm : list (rating R)) (i j : nat) (resi resj : list (rating R)),
  (k = BTP \/ k = TMP) ->
  (2 <= length trs)%nat -> 0 < p_beta P -> 0 < p_kappa P -> 0 < s ->
  Forall (fun t => t_mu t = m /\ t_ss t = s /\ t_team t = tm) trs ->
  (forall a b ta tb, (a < b)%nat -> nth_error trs a = Some ta -> nth_error trs b = Some tb ->
     (t_rank ta < t_rank tb)%nat) ->
  (i < j)%nat ->
  nth_error (compute (H := RNum GaussInst.PhiK GaussInst.PhiinvK) k P trs) i = Some resi ->
  nth_error (compute (H := RNum GaussInst.PhiK GaussInst.PhiinvK) k P trs) j = Some resj ->
  Forall2 (fun pj pi => r_mu pj <= r_mu pi) resj resi.
Proof. intros k P trs m s tm i j resi resj; exact (C05_identical_partial GaussInst.PhiK GaussInst.PhiinvK k P trs m s tm i j resi resj GaussFull.GaussFacts_inst). Qed.
Print Assumptions C05_identical_partial_inst.

Theorem C05_rate_first_alone_none_inst : forall (k : kind) (P : params R) (tau : R) (limit : bool)
    (teams : list (list (rating R))) (t res : list (rating R)),
  (2 <= length teams)%nat -> 0 < p_beta P -> 0 < p_kappa P ->
  Forall (fun t => t <> [] /\ Forall (fun p => 0 < r_sigma p * r_sigma p + tau * tau) t) teams ->
  nth_error teams 0 = Some t ->
  nth_error (rate_core (H := RNum GaussInst.PhiK GaussInst.PhiinvK) k P tau limit teams None) 0 = Some res ->
  Forall2 (fun p p' => r_mu p <= r_mu p') t res.
Proof. intros k P tau limit teams t res; exact (C05_rate_first_alone_none GaussInst.PhiK GaussInst.PhiinvK k P tau limit teams t res (fun _ => GaussFull.GaussFacts_inst)). Qed.
Print Assumptions C05_rate_first_alone_none_inst.

Theorem C05_rate_last_alone_none_inst : forall (k : kind) (P : params R) (tau : R) (limit : bool)
    (teams : list (list (rating R))) (t res : list (rating R)),
  (2 <= length teams)%nat -> 0 < p_beta P -> 0 < p_kappa P ->
  Forall (fun t => t <> [] /\ Forall (fun p => 0 < r_sigma p * r_sigma p + tau * tau) t) teams ->
  nth_error teams (length teams - 1) = Some t ->
  nth_error (rate_core (H := RNum GaussInst.PhiK GaussInst.PhiinvK) k P tau limit teams None) (length teams - 1) = Some res ->
  Forall2 (fun p p' => r_mu p' <= r_mu p) t res.
Proof. intros k P tau limit teams t res; exact (C05_rate_last_alone_none GaussInst.PhiK GaussInst.PhiinvK k P tau limit teams t res (fun _ => GaussFull.GaussFacts_inst)). Qed.
Print Assumptions C05_rate_last_alone_none_inst.

Theorem C05_rate_first_alone_keys_inst : forall (k : kind) (P : params R) (tau : R) (limit : bool)
    (teams : list (list (rating R))) (ks : list key) (i : nat) (ki : key) (t res : list (rating R)),
  (2 <= length teams)%nat -> 0 < p_beta P -> 0 < p_kappa P ->
  Forall (fun t => t <> [] /\ Forall (fun p => 0 < r_sigma p * r_sigma p + tau * tau) t) teams ->
  Forall (fun k : key => (0 <= snd k)%Z) ks -> length ks = length teams ->
  nth_error ks i = Some ki -> nth_error teams i = Some t ->
  (forall q kq, q <> i -> nth_error ks q = Some kq -> key_ltb ki kq = true) ->
  nth_error (rate_core (H := RNum GaussInst.PhiK GaussInst.PhiinvK) k P tau limit teams (Some ks)) i = Some res ->
  Forall2 (fun p p' => r_mu p <= r_mu p') t res.
Proof. intros k P tau limit teams ks i ki t res; exact (C05_rate_first_alone_keys GaussInst.PhiK GaussInst.PhiinvK k P tau limit teams ks i ki t res (fun _ => GaussFull.GaussFacts_inst)). Qed.
Print Assumptions C05_rate_first_alone_keys_inst.

Theorem C05_rate_last_alone_keys_inst : forall (k : kind) (P : params R) (tau : R) (limit : bool)
    (teams : list (list (rating R))) (ks : list key) (i : nat) (ki : key) (t res : list (rating R)),
  (2 <= length teams)%nat -> 0 < p_beta P -> 0 < p_kappa P ->
  Forall (fun t => t <> [] /\ Forall (fun p => 0 < r_sigma p * r_sigma p + tau * tau) t) teams ->
  Forall (fun k : key => (0 <= snd k)%Z) ks -> length ks = length teams ->
  nth_error ks i = Some ki -> nth_error teams i = Some t ->
  (forall q kq, q <> i -> nth_error ks q = Some kq -> key_ltb kq ki = true) ->
  nth_error (rate_core (H := RNum GaussInst.PhiK GaussInst.PhiinvK) k P tau limit teams (Some ks)) i = Some res ->
  Forall2 (fun p p' => r_mu p' <= r_mu p) t res.
Proof. intros k P tau limit teams ks i ki t res; exact (C05_rate_last_alone_keys GaussInst.PhiK GaussInst.PhiinvK k P tau limit teams ks i ki t res (fun _ => GaussFull.GaussFacts_inst)). Qed.
Print Assumptions C05_rate_last_alone_keys_inst.

Theorem C05_rate_two_team_order_inst : forall (k : kind) (P : params R) (tau : R) (limit : bool)
    (ta tb : list (rating R)) (kw kw' kd kd' kl kl' : key) (aw bl ad bd al bw : list (rating R)),
  0 < p_beta P -> 0 < p_kappa P ->
  Forall (fun t => t <> [] /\ Forall (fun p => 0 < r_sigma p * r_sigma p + tau * tau) t) [ta; tb] ->
  key_ltb kw kw' = true -> key_leb kd kd' = true -> key_leb kd' kd = true -> key_ltb kl' kl = true ->
  rate_core (H := RNum GaussInst.PhiK GaussInst.PhiinvK) k P tau limit [ta; tb] (Some [kw; kw']) = [aw; bl] ->
  rate_core (H := RNum GaussInst.PhiK GaussInst.PhiinvK) k P tau limit [ta; tb] (Some [kd; kd']) = [ad; bd] ->
  rate_core (H := RNum GaussInst.PhiK GaussInst.PhiinvK) k P tau limit [ta; tb] (Some [kl; kl']) = [al; bw] ->
  (Forall2 (fun x y => r_mu x <= r_mu y) al ad /\ Forall2 (fun x y => r_mu x <= r_mu y) ad aw
   /\ Forall2 (fun p0 x => r_mu x <= r_mu p0) ta al /\ Forall2 (fun p0 x => r_mu p0 <= r_mu x) ta aw)
  /\ (Forall2 (fun x y => r_mu x <= r_mu y) bl bd /\ Forall2 (fun x y => r_mu x <= r_mu y) bd bw
   /\ Forall2 (fun p0 x => r_mu x <= r_mu p0) tb bl /\ Forall2 (fun p0 x => r_mu p0 <= r_mu x) tb bw).
Proof. intros k P tau limit ta tb kw kw' kd kd' kl kl' aw bl ad bd al bw; exact (C05_rate_two_team_order GaussInst.PhiK GaussInst.PhiinvK k P tau limit ta tb kw kw' kd kd' kl kl' aw bl ad bd al bw (fun _ => GaussFull.GaussFacts_inst)). Qed.
Print Assumptions C05_rate_two_team_order_inst.

Theorem C05_rate_identical_ordered_none_inst : forall (k : kind) (P : params R) (tau : R) (limit : bool)
    (teams : list (list (rating R))) (i j : nat) (t resi resj : list (rating R)),
  (k = PL \/ k = BTF \/ k = TMF) ->
  (2 <= length teams)%nat -> 0 < p_beta P -> 0 < p_kappa P ->
  Forall (fun t => t <> [] /\ Forall (fun p => 0 < r_sigma p * r_sigma p + tau * tau) t) teams ->
  (i < j)%nat -> nth_error teams i = Some t -> nth_error teams j = Some t ->
  nth_error (rate_core (H := RNum GaussInst.PhiK GaussInst.PhiinvK) k P tau limit teams None) i = Some resi ->
  nth_error (rate_core (H := RNum GaussInst.PhiK GaussInst.PhiinvK) k P tau limit teams None) j = Some resj ->
  Forall2 (fun pj pi => r_mu pj <= r_mu pi) resj resi.
Proof. intros k P tau limit teams i j t resi resj; exact (C05_rate_identical_ordered_none GaussInst.PhiK GaussInst.PhiinvK k P tau limit teams i j t resi resj (fun _ => GaussFull.GaussFacts_inst)). Qed.
Print Assumptions C05_rate_identical_ordered_none_inst.

Theorem C05_rate_draw_direction_TMF_inst : forall (P : params R) (tau : R) (limit : bool)
    (ta tb : list (rating R)) (kd kd' : key) (ad bd : list (rating R)),
  0 < p_beta P -> 0 < p_kappa P ->
  Forall (fun t => t <> [] /\ Forall (fun p => 0 < r_sigma p * r_sigma p + tau * tau) t) [ta; tb] ->
  key_leb kd kd' = true -> key_leb kd' kd = true ->
  Rsum (map r_mu tb) <= Rsum (map r_mu ta) ->
  rate_core (H := RNum GaussInst.PhiK GaussInst.PhiinvK) TMF P tau limit [ta; tb] (Some [kd; kd']) = [ad; bd] ->
  let sa := t_ss (team_rating (H := RNum GaussInst.PhiK GaussInst.PhiinvK) (map (inflate (H := RNum GaussInst.PhiK GaussInst.PhiinvK) tau) ta) 0) in
  let sb := t_ss (team_rating (H := RNum GaussInst.PhiK GaussInst.PhiinvK) (map (inflate (H := RNum GaussInst.PhiK GaussInst.PhiinvK) tau) tb) 0) in
  let c := sqrt (sa + sb + 2 * (p_beta P * p_beta P)) in
  Forall2 (fun p0 x => r_mu x <= r_mu p0 + r_sigma (inflate (H := RNum GaussInst.PhiK GaussInst.PhiinvK) tau p0) * r_sigma (inflate (H := RNum GaussInst.PhiK GaussInst.PhiinvK) tau p0) / sa * (sa / c * (p_kappa P / c))) ta ad
  /\ Forall2 (fun p0 x => r_mu p0 + r_sigma (inflate (H := RNum GaussInst.PhiK GaussInst.PhiinvK) tau p0) * r_sigma (inflate (H := RNum GaussInst.PhiK GaussInst.PhiinvK) tau p0) / sb * - (sb / c * (p_kappa P / c)) <= r_mu x) tb bd.
Proof. intros P tau limit ta tb kd kd' ad bd; exact (C05_rate_draw_direction_TMF GaussInst.PhiK GaussInst.PhiinvK P tau limit ta tb kd kd' ad bd GaussFull.GaussFacts_inst). Qed.
Print Assumptions C05_rate_draw_direction_TMF_inst.

Theorem C05_rate_draw_direction_TMP_inst : forall (P : params R) (tau : R) (limit : bool)
    (ta tb : list (rating R)) (kd kd' : key) (ad bd : list (rating R)),
  0 < p_beta P -> 0 < p_kappa P ->
  Forall (fun t => t <> [] /\ Forall (fun p => 0 < r_sigma p * r_sigma p + tau * tau) t) [ta; tb] ->
  key_leb kd kd' = true -> key_leb kd' kd = true ->
  Rsum (map r_mu tb) <= Rsum (map r_mu ta) ->
  rate_core (H := RNum GaussInst.PhiK GaussInst.PhiinvK) TMP P tau limit [ta; tb] (Some [kd; kd']) = [ad; bd] ->
  let sa := t_ss (team_rating (H := RNum GaussInst.PhiK GaussInst.PhiinvK) (map (inflate (H := RNum GaussInst.PhiK GaussInst.PhiinvK) tau) ta) 0) in
  let sb := t_ss (team_rating (H := RNum GaussInst.PhiK GaussInst.PhiinvK) (map (inflate (H := RNum GaussInst.PhiK GaussInst.PhiinvK) tau) tb) 0) in
  let c := 2 * sqrt (sa + sb + 2 * (p_beta P * p_beta P)) in
  Forall2 (fun p0 x => r_mu x <= r_mu p0 + r_sigma (inflate (H := RNum GaussInst.PhiK GaussInst.PhiinvK) tau p0) * r_sigma (inflate (H := RNum GaussInst.PhiK GaussInst.PhiinvK) tau p0) / sa * (sa / c * (p_kappa P / c))) ta ad
  /\ Forall2 (fun p0 x => r_mu p0 + r_sigma (inflate (H := RNum GaussInst.PhiK GaussInst.PhiinvK) tau p0) * r_sigma (inflate (H := RNum GaussInst.PhiK GaussInst.PhiinvK) tau p0) / sb * - (sb / c * (p_kappa P / c)) <= r_mu x) tb bd.
Proof. intros P tau limit ta tb kd kd' ad bd; exact (C05_rate_draw_direction_TMP GaussInst.PhiK GaussInst.PhiinvK P tau limit ta tb kd kd' ad bd GaussFull.GaussFacts_inst). Qed.
Print Assumptions C05_rate_draw_direction_TMP_inst.

(** ** Exchanging places and identical teams through [rate_core], with explicit rank values.

    The two compute-level statements [C05_exchange] and [C05_identical_ordered] lifted through
    tau inflation, the stable sort by rank value, the update, the unsort and the optional sigma
    clamp.  A game is given by its teams and the list [ks] of their rank values (smaller =
    better placed); "no ties" = no two POSITIONS carry equal rank values ([key_leb] both ways).
    For Plackett-Luce and the full-pairing models the result of the call is [compute] on the
    team ratings of the caller's game in input order with the dense ranks (C01: both are the
    closed form), so the compute-level theorems apply position by position; exchanging two
    rank values exchanges the two dense ranks and leaves the others unchanged.
    The premise [GaussFacts] is required for Thurstone-Mosteller only. *)

(** Team [i] exchanges places with the better-placed team [j]: [ks'] is [ks] with the entries
    at positions [i] and [j] exchanged.  No member of team [i] ends with a lower mu. *)
Theorem C05_rate_exchange : forall (Phi Phiinv : R -> R) (k : kind) (P : params R) (tau : R) (limit : bool)
    (teams : list (list (rating R))) (ks ks' : list key) (i j : nat) (ki kj : key) (res res' : list (rating R)),
  (k = TMF -> GaussFacts Phi Phiinv) -> (k = PL \/ k = BTF \/ k = TMF) ->
  (2 <= length teams)%nat -> 0 < p_beta P -> 0 < p_kappa P ->
  Forall (fun t => t <> [] /\ Forall (fun p => 0 < r_sigma p * r_sigma p + tau * tau) t) teams ->
  length ks = length teams -> Forall (fun k : key => (0 <= snd k)%Z) ks ->
  (forall a b ka kb, a <> b -> nth_error ks a = Some ka -> nth_error ks b = Some kb ->
     key_leb ka kb && key_leb kb ka = false) ->
  nth_error ks i = Some ki -> nth_error ks j = Some kj -> key_ltb kj ki = true ->
  length ks' = length ks -> nth_error ks' i = Some kj -> nth_error ks' j = Some ki ->
  (forall q, q <> i -> q <> j -> nth_error ks' q = nth_error ks q) ->
  nth_error (rate_core (H := RNum Phi Phiinv) k P tau limit teams (Some ks)) i = Some res ->
  nth_error (rate_core (H := RNum Phi Phiinv) k P tau limit teams (Some ks')) i = Some res' ->
  Forall2 (fun p p' => r_mu p <= r_mu p') res res'.
Proof. intros; eapply (C05LiftL.rate_exchange Phi Phiinv k P tau limit teams ks ks' i j ki kj); eauto; intros [E|E]; subst k; intuition congruence. Qed.
Print Assumptions C05_rate_exchange.

(** Two teams with identical skills at positions [a] (better placed) and [b]: member by member
    the same mu and the same sigma (the identity of the players -- id, name -- may differ, as it
    does in any real game).  Every member of the better-placed team ends with mu >= the
    corresponding member of the other. *)
Theorem C05_rate_identical_ordered_keys : forall (Phi Phiinv : R -> R) (k : kind) (P : params R) (tau : R) (limit : bool)
    (teams : list (list (rating R))) (ks : list key) (a b : nat) (ka kb : key) (ta tb resa resb : list (rating R)),
  (k = TMF -> GaussFacts Phi Phiinv) -> (k = PL \/ k = BTF \/ k = TMF) ->
  (2 <= length teams)%nat -> 0 < p_beta P -> 0 < p_kappa P ->
  Forall (fun t => t <> [] /\ Forall (fun p => 0 < r_sigma p * r_sigma p + tau * tau) t) teams ->
  length ks = length teams -> Forall (fun k : key => (0 <= snd k)%Z) ks ->
  (forall a b ka kb, a <> b -> nth_error ks a = Some ka -> nth_error ks b = Some kb ->
     key_leb ka kb && key_leb kb ka = false) ->
  nth_error ks a = Some ka -> nth_error ks b = Some kb -> key_ltb ka kb = true ->
  nth_error teams a = Some ta -> nth_error teams b = Some tb ->
  map r_mu ta = map r_mu tb -> map r_sigma ta = map r_sigma tb ->
  nth_error (rate_core (H := RNum Phi Phiinv) k P tau limit teams (Some ks)) a = Some resa ->
  nth_error (rate_core (H := RNum Phi Phiinv) k P tau limit teams (Some ks)) b = Some resb ->
  Forall2 (fun pb pa => r_mu pb <= r_mu pa) resb resa.
Proof. intros; eapply (C05LiftL.rate_identical_keys_gen Phi Phiinv k P tau limit teams ks a b ka kb ta tb); eauto; intros [E|E]; subst k; intuition congruence. Qed.
Print Assumptions C05_rate_identical_ordered_keys.

(** the same for the concrete normal distribution function: no premise about the normal law *)
Theorem C05_rate_exchange_inst : forall (k : kind) (P : params R) (tau : R) (limit : bool)
    (teams : list (list (rating R))) (ks ks' : list key) (i j : nat) (ki kj : key) (res res' : list (rating R)),
  (k = PL \/ k = BTF \/ k = TMF) ->
  (2 <= length teams)%nat -> 0 < p_beta P -> 0 < p_kappa P ->
  Forall (fun t => t <> [] /\ Forall (fun p => 0 < r_sigma p * r_sigma p + tau * tau) t) teams ->
  length ks = length teams -> Forall (fun k : key => (0 <= snd k)%Z) ks ->
  (forall a b ka kb, a <> b -> nth_error ks a = Some ka -> nth_error ks b = Some kb ->
     key_leb ka kb && key_leb kb ka = false) ->
  nth_error ks i = Some ki -> nth_error ks j = Some kj -> key_ltb kj ki = true ->
  length ks' = length ks -> nth_error ks' i = Some kj -> nth_error ks' j = Some ki ->
  (forall q, q <> i -> q <> j -> nth_error ks' q = nth_error ks q) ->
  nth_error (rate_core (H := RNum GaussInst.PhiK GaussInst.PhiinvK) k P tau limit teams (Some ks)) i = Some res ->
  nth_error (rate_core (H := RNum GaussInst.PhiK GaussInst.PhiinvK) k P tau limit teams (Some ks')) i = Some res' ->
  Forall2 (fun p p' => r_mu p <= r_mu p') res res'.
Proof. intros k P tau limit teams ks ks' i j ki kj res res'; exact (C05_rate_exchange GaussInst.PhiK GaussInst.PhiinvK k P tau limit teams ks ks' i j ki kj res res' (fun _ => GaussFull.GaussFacts_inst)). Qed.
Print Assumptions C05_rate_exchange_inst.

Theorem C05_rate_identical_ordered_keys_inst : forall (k : kind) (P : params R) (tau : R) (limit : bool)
    (teams : list (list (rating R))) (ks : list key) (a b : nat) (ka kb : key) (ta tb resa resb : list (rating R)),
  (k = PL \/ k = BTF \/ k = TMF) ->
  (2 <= length teams)%nat -> 0 < p_beta P -> 0 < p_kappa P ->
  Forall (fun t => t <> [] /\ Forall (fun p => 0 < r_sigma p * r_sigma p + tau * tau) t) teams ->
  length ks = length teams -> Forall (fun k : key => (0 <= snd k)%Z) ks ->
  (forall a b ka kb, a <> b -> nth_error ks a = Some ka -> nth_error ks b = Some kb ->
     key_leb ka kb && key_leb kb ka = false) ->
  nth_error ks a = Some ka -> nth_error ks b = Some kb -> key_ltb ka kb = true ->
  nth_error teams a = Some ta -> nth_error teams b = Some tb ->
  map r_mu ta = map r_mu tb -> map r_sigma ta = map r_sigma tb ->
  nth_error (rate_core (H := RNum GaussInst.PhiK GaussInst.PhiinvK) k P tau limit teams (Some ks)) a = Some resa ->
  nth_error (rate_core (H := RNum GaussInst.PhiK GaussInst.PhiinvK) k P tau limit teams (Some ks)) b = Some resb ->
  Forall2 (fun pb pa => r_mu pb <= r_mu pa) resb resa.
Proof. intros k P tau limit teams ks a b ka kb ta tb resa resb; exact (C05_rate_identical_ordered_keys GaussInst.PhiK GaussInst.PhiinvK k P tau limit teams ks a b ka kb ta tb resa resb (fun _ => GaussFull.GaussFacts_inst)). Qed.
Print Assumptions C05_rate_identical_ordered_keys_inst.

(** non-vacuity: a concrete three-team game with rank values 2, 1, 7/2 (no ties); team 0
    (second place) exchanges places with team 1 (first place): the rank values become 1, 2, 7/2 *)
Example C05_rate_exchange_ex : forall (Phi Phiinv : R -> R) (res res' : list (rating R)),
  let P := mkParams (25/6) (1/10000) (gamma_default (H := RNum Phi Phiinv)) in
  let teams := [[mkRating 25 8 0%Z NmNone; mkRating 20 3 1%Z NmNone]; [mkRating 30 7 2%Z NmNone]; [mkRating 27 5 3%Z NmNone]] in
  nth_error (rate_core (H := RNum Phi Phiinv) PL P (1/12) true teams (Some [(2, 0); (1, 0); (7, 1)]%Z)) 0 = Some res ->
  nth_error (rate_core (H := RNum Phi Phiinv) PL P (1/12) true teams (Some [(1, 0); (2, 0); (7, 1)]%Z)) 0 = Some res' ->
  Forall2 (fun p p' => r_mu p <= r_mu p') res res'.
Proof.
  intros Phi Phiinv res res' P teams E E'.
  apply (C05_rate_exchange Phi Phiinv PL P (1/12) true teams [(2, 0); (1, 0); (7, 1)]%Z [(1, 0); (2, 0); (7, 1)]%Z
           0 1 (2, 0)%Z (1, 0)%Z res res'); cbn; try lra; try lia; try reflexivity; auto; try discriminate.
  - repeat constructor; cbn; try discriminate; lra.
  - repeat constructor; cbn; lia.
  - intros [|[|[|a]]] [|[|[|b]]] ka kb Hab Ea Eb; cbn in Ea, Eb; try congruence;
      try (destruct a; discriminate); try (destruct b; discriminate);
      injection Ea as <-; injection Eb as <-; reflexivity.
  - intros [|[|q]] H0 H1; try congruence; reflexivity.
Qed.

(** non-vacuity: two one-player teams of identical skill (different players) at positions 2
    (rank value 1, first place) and 0 (rank value 7/2, last place) *)
Example C05_rate_identical_ordered_keys_ex : forall (Phi Phiinv : R -> R) (resa resb : list (rating R)),
  let P := mkParams (25/6) (1/10000) (gamma_default (H := RNum Phi Phiinv)) in
  let teams := [[mkRating 25 8 0%Z NmNone]; [mkRating 30 7 1%Z NmNone]; [mkRating 25 8 2%Z (NmStr true 5%Z)]] in
  nth_error (rate_core (H := RNum Phi Phiinv) BTF P (1/12) false teams (Some [(7, 1); (2, 0); (1, 0)]%Z)) 2 = Some resa ->
  nth_error (rate_core (H := RNum Phi Phiinv) BTF P (1/12) false teams (Some [(7, 1); (2, 0); (1, 0)]%Z)) 0 = Some resb ->
  Forall2 (fun pb pa => r_mu pb <= r_mu pa) resb resa.
Proof.
  intros Phi Phiinv resa resb P teams E E'.
  apply (C05_rate_identical_ordered_keys Phi Phiinv BTF P (1/12) false teams [(7, 1); (2, 0); (1, 0)]%Z
           2 0 (1, 0)%Z (7, 1)%Z [mkRating 25 8 2%Z (NmStr true 5%Z)] [mkRating 25 8 0%Z NmNone] resa resb);
    cbn; try lra; try lia; try reflexivity; auto; try discriminate.
  - repeat constructor; cbn; try discriminate; lra.
  - repeat constructor; cbn; lia.
  - intros [|[|[|a]]] [|[|[|b]]] ka kb Hab Ea Eb; cbn in Ea, Eb; try congruence;
      try (destruct a; discriminate); try (destruct b; discriminate);
      injection Ea as <-; injection Eb as <-; reflexivity.
Qed.

(** ** The direction of the mean update in IEEE 754 binary64 (float level, not over the reals).

    The model instantiated on [FloatInst.B64Num exp64 erfc64 pow64 icdf64 : Num binary64]
    (Flocq's binary64, round to nearest even; the libm functions are arbitrary parameters, the
    only premise being [0 <= exp64 x] on finite [x]).  [B2R 53 1024 x] is the real value of the
    double [x]; [is_finite 53 1024 x = true] says "no overflow / no NaN".

    Bradley-Terry ([bt_term], the fold of both BTF and BTP): [bt_term] takes the score s = 1
    exactly when [t_rank ti < t_rank tq] and s = 0 exactly when [t_rank tq < t_rank ti].
    [C05_bt_first_alone_omega_nonneg_binary64]: if the rank of [ti] is strictly better than the
    rank of every opponent of the fold, the accumulated omega is >= 0 as a double: each
    p = fl(1/fl(1+e)) is in [0,1], so fl(1-p) >= 0, fl(s2c * fl(1-p)) >= 0 and the float sum of
    non-negative terms is >= 0 (rounding is monotone and 0, 1 are doubles).
    [C05_bt_last_alone_omega_nonpos_binary64]: strictly worse than every opponent: omega <= 0.
    [C05_update_mu_direction_binary64]: mu' = fl(mu + fl(share * omega)) with share >= 0 is
    >= mu when omega >= 0 and <= mu when omega <= 0, as doubles, with no rounding slack; the
    only finiteness hypothesis is that of the result.
    [C05_bt_first_alone_mu_binary64], [C05_bt_last_alone_mu_binary64]: the two composed: "a team
    that finishes first alone never loses rating, last alone never gains", on the very doubles.
    Finiteness of the operands is derived from the finiteness of the accumulated sums. *)
From Flocq Require Import IEEE754.BinarySingleNaN IEEE754.Binary IEEE754.Bits.
From OSV Require Import FloatInst.
From OSV.Lemmas Require FloatOrderL FloatSignL.

Theorem C05_bt_first_alone_omega_nonneg_binary64 :
  forall (exp64 erfc64 pow64 icdf64 : binary64 -> binary64)
         (P : params binary64) (trs : list (trating binary64)) (ti : trating binary64)
         (opp : list (trating binary64)),
  (forall x : binary64, is_finite 53 1024 x = true -> 0 <= B2R 53 1024 (exp64 x)) ->
  0 <= B2R 53 1024 (t_ss ti) ->
  (forall tq : trating binary64, In tq opp ->
     (t_rank ti < t_rank tq)%nat
     /\ 0 < B2R 53 1024 (@c_iq binary64 (B64Num exp64 erfc64 pow64 icdf64) P ti tq)
     /\ is_finite 53 1024
          (@fdiv binary64 (B64Num exp64 erfc64 pow64 icdf64)
             (@fsub binary64 (B64Num exp64 erfc64 pow64 icdf64) (t_mu tq) (t_mu ti))
             (@c_iq binary64 (B64Num exp64 erfc64 pow64 icdf64) P ti tq)) = true
     /\ is_finite 53 1024
          (@fadd binary64 (B64Num exp64 erfc64 pow64 icdf64) (@fone binary64 (B64Num exp64 erfc64 pow64 icdf64))
             (exp64 (@fdiv binary64 (B64Num exp64 erfc64 pow64 icdf64)
                       (@fsub binary64 (B64Num exp64 erfc64 pow64 icdf64) (t_mu tq) (t_mu ti))
                       (@c_iq binary64 (B64Num exp64 erfc64 pow64 icdf64) P ti tq)))) = true) ->
  (forall pre post : list (trating binary64), opp = pre ++ post ->
     is_finite 53 1024
       (fst (fold_left (@bt_term binary64 (B64Num exp64 erfc64 pow64 icdf64) P trs ti) pre
               (@fzero binary64 (B64Num exp64 erfc64 pow64 icdf64),
                @fzero binary64 (B64Num exp64 erfc64 pow64 icdf64)))) = true) ->
  0 <= B2R 53 1024
         (fst (fold_left (@bt_term binary64 (B64Num exp64 erfc64 pow64 icdf64) P trs ti) opp
                 (@fzero binary64 (B64Num exp64 erfc64 pow64 icdf64),
                  @fzero binary64 (B64Num exp64 erfc64 pow64 icdf64)))).
Proof. exact FloatSignL.bt_omega_nonneg_b64. Qed.
Print Assumptions C05_bt_first_alone_omega_nonneg_binary64.

Theorem C05_bt_last_alone_omega_nonpos_binary64 :
  forall (exp64 erfc64 pow64 icdf64 : binary64 -> binary64)
         (P : params binary64) (trs : list (trating binary64)) (ti : trating binary64)
         (opp : list (trating binary64)),
  (forall x : binary64, is_finite 53 1024 x = true -> 0 <= B2R 53 1024 (exp64 x)) ->
  0 <= B2R 53 1024 (t_ss ti) ->
  (forall tq : trating binary64, In tq opp ->
     (t_rank tq < t_rank ti)%nat
     /\ 0 < B2R 53 1024 (@c_iq binary64 (B64Num exp64 erfc64 pow64 icdf64) P ti tq)
     /\ is_finite 53 1024
          (@fdiv binary64 (B64Num exp64 erfc64 pow64 icdf64)
             (@fsub binary64 (B64Num exp64 erfc64 pow64 icdf64) (t_mu tq) (t_mu ti))
             (@c_iq binary64 (B64Num exp64 erfc64 pow64 icdf64) P ti tq)) = true
     /\ is_finite 53 1024
          (@fadd binary64 (B64Num exp64 erfc64 pow64 icdf64) (@fone binary64 (B64Num exp64 erfc64 pow64 icdf64))
             (exp64 (@fdiv binary64 (B64Num exp64 erfc64 pow64 icdf64)
                       (@fsub binary64 (B64Num exp64 erfc64 pow64 icdf64) (t_mu tq) (t_mu ti))
                       (@c_iq binary64 (B64Num exp64 erfc64 pow64 icdf64) P ti tq)))) = true) ->
  (forall pre post : list (trating binary64), opp = pre ++ post ->
     is_finite 53 1024
       (fst (fold_left (@bt_term binary64 (B64Num exp64 erfc64 pow64 icdf64) P trs ti) pre
               (@fzero binary64 (B64Num exp64 erfc64 pow64 icdf64),
                @fzero binary64 (B64Num exp64 erfc64 pow64 icdf64)))) = true) ->
  B2R 53 1024
    (fst (fold_left (@bt_term binary64 (B64Num exp64 erfc64 pow64 icdf64) P trs ti) opp
            (@fzero binary64 (B64Num exp64 erfc64 pow64 icdf64),
             @fzero binary64 (B64Num exp64 erfc64 pow64 icdf64)))) <= 0.
Proof. exact FloatSignL.bt_omega_nonpos_b64. Qed.
Print Assumptions C05_bt_last_alone_omega_nonpos_binary64.

Theorem C05_update_mu_direction_binary64 :
  forall (exp64 erfc64 pow64 icdf64 : binary64 -> binary64)
         (P : params binary64) (ti : trating binary64) (omega delta : binary64) (p : rating binary64),
  0 <= B2R 53 1024 (@fdiv binary64 (B64Num exp64 erfc64 pow64 icdf64)
                      (@fpow2 binary64 (B64Num exp64 erfc64 pow64 icdf64) (r_sigma p)) (t_ss ti)) ->
  is_finite 53 1024
    (r_mu (@update_player binary64 (B64Num exp64 erfc64 pow64 icdf64) P ti omega delta p)) = true ->
  (0 <= B2R 53 1024 omega ->
   B2R 53 1024 (r_mu p)
   <= B2R 53 1024 (r_mu (@update_player binary64 (B64Num exp64 erfc64 pow64 icdf64) P ti omega delta p)))
  /\ (B2R 53 1024 omega <= 0 ->
      B2R 53 1024 (r_mu (@update_player binary64 (B64Num exp64 erfc64 pow64 icdf64) P ti omega delta p))
      <= B2R 53 1024 (r_mu p)).
Proof. exact FloatSignL.update_player_mu_direction_b64. Qed.
Print Assumptions C05_update_mu_direction_binary64.

(** composed: every member [p] of a team ranked strictly better than all its opponents gets a
    new mu >= the old one (instantiate [p] by each element of [t_team ti]: this is the mu that
    [update_team], i.e. [compute BTF/BTP], returns for that player) *)
Theorem C05_bt_first_alone_mu_binary64 :
  forall (exp64 erfc64 pow64 icdf64 : binary64 -> binary64)
         (P : params binary64) (trs : list (trating binary64)) (ti : trating binary64)
         (opp : list (trating binary64)) (p : rating binary64),
  (forall x : binary64, is_finite 53 1024 x = true -> 0 <= B2R 53 1024 (exp64 x)) ->
  0 <= B2R 53 1024 (t_ss ti) ->
  (forall tq : trating binary64, In tq opp ->
     (t_rank ti < t_rank tq)%nat
     /\ 0 < B2R 53 1024 (@c_iq binary64 (B64Num exp64 erfc64 pow64 icdf64) P ti tq)
     /\ is_finite 53 1024
          (@fdiv binary64 (B64Num exp64 erfc64 pow64 icdf64)
             (@fsub binary64 (B64Num exp64 erfc64 pow64 icdf64) (t_mu tq) (t_mu ti))
             (@c_iq binary64 (B64Num exp64 erfc64 pow64 icdf64) P ti tq)) = true
     /\ is_finite 53 1024
          (@fadd binary64 (B64Num exp64 erfc64 pow64 icdf64) (@fone binary64 (B64Num exp64 erfc64 pow64 icdf64))
             (exp64 (@fdiv binary64 (B64Num exp64 erfc64 pow64 icdf64)
                       (@fsub binary64 (B64Num exp64 erfc64 pow64 icdf64) (t_mu tq) (t_mu ti))
                       (@c_iq binary64 (B64Num exp64 erfc64 pow64 icdf64) P ti tq)))) = true) ->
  (forall pre post : list (trating binary64), opp = pre ++ post ->
     is_finite 53 1024
       (fst (fold_left (@bt_term binary64 (B64Num exp64 erfc64 pow64 icdf64) P trs ti) pre
               (@fzero binary64 (B64Num exp64 erfc64 pow64 icdf64),
                @fzero binary64 (B64Num exp64 erfc64 pow64 icdf64)))) = true) ->
  0 <= B2R 53 1024 (@fdiv binary64 (B64Num exp64 erfc64 pow64 icdf64)
                      (@fpow2 binary64 (B64Num exp64 erfc64 pow64 icdf64) (r_sigma p)) (t_ss ti)) ->
  is_finite 53 1024
    (r_mu (@update_player binary64 (B64Num exp64 erfc64 pow64 icdf64) P ti
       (fst (fold_left (@bt_term binary64 (B64Num exp64 erfc64 pow64 icdf64) P trs ti) opp
               (@fzero binary64 (B64Num exp64 erfc64 pow64 icdf64),
                @fzero binary64 (B64Num exp64 erfc64 pow64 icdf64))))
       (snd (fold_left (@bt_term binary64 (B64Num exp64 erfc64 pow64 icdf64) P trs ti) opp
               (@fzero binary64 (B64Num exp64 erfc64 pow64 icdf64),
                @fzero binary64 (B64Num exp64 erfc64 pow64 icdf64)))) p)) = true ->
  B2R 53 1024 (r_mu p)
  <= B2R 53 1024
       (r_mu (@update_player binary64 (B64Num exp64 erfc64 pow64 icdf64) P ti
          (fst (fold_left (@bt_term binary64 (B64Num exp64 erfc64 pow64 icdf64) P trs ti) opp
                  (@fzero binary64 (B64Num exp64 erfc64 pow64 icdf64),
                   @fzero binary64 (B64Num exp64 erfc64 pow64 icdf64))))
          (snd (fold_left (@bt_term binary64 (B64Num exp64 erfc64 pow64 icdf64) P trs ti) opp
                  (@fzero binary64 (B64Num exp64 erfc64 pow64 icdf64),
                   @fzero binary64 (B64Num exp64 erfc64 pow64 icdf64)))) p)).
Proof. exact FloatSignL.bt_first_alone_mu_b64. Qed.
Print Assumptions C05_bt_first_alone_mu_binary64.

Theorem C05_bt_last_alone_mu_binary64 :
  forall (exp64 erfc64 pow64 icdf64 : binary64 -> binary64)
         (P : params binary64) (trs : list (trating binary64)) (ti : trating binary64)
         (opp : list (trating binary64)) (p : rating binary64),
  (forall x : binary64, is_finite 53 1024 x = true -> 0 <= B2R 53 1024 (exp64 x)) ->
  0 <= B2R 53 1024 (t_ss ti) ->
  (forall tq : trating binary64, In tq opp ->
     (t_rank tq < t_rank ti)%nat
     /\ 0 < B2R 53 1024 (@c_iq binary64 (B64Num exp64 erfc64 pow64 icdf64) P ti tq)
     /\ is_finite 53 1024
          (@fdiv binary64 (B64Num exp64 erfc64 pow64 icdf64)
             (@fsub binary64 (B64Num exp64 erfc64 pow64 icdf64) (t_mu tq) (t_mu ti))
             (@c_iq binary64 (B64Num exp64 erfc64 pow64 icdf64) P ti tq)) = true
     /\ is_finite 53 1024
          (@fadd binary64 (B64Num exp64 erfc64 pow64 icdf64) (@fone binary64 (B64Num exp64 erfc64 pow64 icdf64))
             (exp64 (@fdiv binary64 (B64Num exp64 erfc64 pow64 icdf64)
                       (@fsub binary64 (B64Num exp64 erfc64 pow64 icdf64) (t_mu tq) (t_mu ti))
                       (@c_iq binary64 (B64Num exp64 erfc64 pow64 icdf64) P ti tq)))) = true) ->
  (forall pre post : list (trating binary64), opp = pre ++ post ->
     is_finite 53 1024
       (fst (fold_left (@bt_term binary64 (B64Num exp64 erfc64 pow64 icdf64) P trs ti) pre
               (@fzero binary64 (B64Num exp64 erfc64 pow64 icdf64),
                @fzero binary64 (B64Num exp64 erfc64 pow64 icdf64)))) = true) ->
  0 <= B2R 53 1024 (@fdiv binary64 (B64Num exp64 erfc64 pow64 icdf64)
                      (@fpow2 binary64 (B64Num exp64 erfc64 pow64 icdf64) (r_sigma p)) (t_ss ti)) ->
  is_finite 53 1024
    (r_mu (@update_player binary64 (B64Num exp64 erfc64 pow64 icdf64) P ti
       (fst (fold_left (@bt_term binary64 (B64Num exp64 erfc64 pow64 icdf64) P trs ti) opp
               (@fzero binary64 (B64Num exp64 erfc64 pow64 icdf64),
                @fzero binary64 (B64Num exp64 erfc64 pow64 icdf64))))
       (snd (fold_left (@bt_term binary64 (B64Num exp64 erfc64 pow64 icdf64) P trs ti) opp
               (@fzero binary64 (B64Num exp64 erfc64 pow64 icdf64),
                @fzero binary64 (B64Num exp64 erfc64 pow64 icdf64)))) p)) = true ->
  B2R 53 1024
    (r_mu (@update_player binary64 (B64Num exp64 erfc64 pow64 icdf64) P ti
       (fst (fold_left (@bt_term binary64 (B64Num exp64 erfc64 pow64 icdf64) P trs ti) opp
               (@fzero binary64 (B64Num exp64 erfc64 pow64 icdf64),
                @fzero binary64 (B64Num exp64 erfc64 pow64 icdf64))))
       (snd (fold_left (@bt_term binary64 (B64Num exp64 erfc64 pow64 icdf64) P trs ti) opp
               (@fzero binary64 (B64Num exp64 erfc64 pow64 icdf64),
                @fzero binary64 (B64Num exp64 erfc64 pow64 icdf64)))) p))
  <= B2R 53 1024 (r_mu p).
Proof. exact FloatSignL.bt_last_alone_mu_b64. Qed.
Print Assumptions C05_bt_last_alone_mu_binary64.

(** ** Non-vacuity of the binary64 statements: concrete doubles.
    Stand-ins for the libm parameters: [x ** 2 := x * x], [exp := |x|] (non-negative, as the
    hypothesis on exp requires); the others are not used.  beta = 25/6, kappa = 2^-13, default
    gamma; team aggregates (mu, sigma^2, rank) = (25, 139, 0), (30, 50, 1), (20, 200, 2).
    The first team is alone in first place, the third alone in last place; omega is strictly
    positive resp. strictly negative here (second conjunct, by computation on doubles). *)
Example C05_bt_first_alone_omega_nonneg_binary64_example :
  let N := B64Num b64_abs (fun x => x) (fun x => b64_mult mode_NE x x) (fun x => x) in
  let P := @mkParams binary64 (b64_of_bits 4616377268039232171) (b64_of_dyadic 1 (-13))
             (@gamma_default binary64 N) in
  let ti := @mkT binary64 (b64_of_Z 25) (b64_of_Z 139) [] 0 in
  let t1 := @mkT binary64 (b64_of_Z 30) (b64_of_Z 50) [] 1 in
  let t2 := @mkT binary64 (b64_of_Z 20) (b64_of_Z 200) [] 2 in
  0 <= B2R 53 1024
         (fst (fold_left (@bt_term binary64 N P [ti; t1; t2] ti) [t1; t2]
                 (@fzero binary64 N, @fzero binary64 N)))
  /\ b64_ltb (@fzero binary64 N)
       (fst (fold_left (@bt_term binary64 N P [ti; t1; t2] ti) [t1; t2]
               (@fzero binary64 N, @fzero binary64 N))) = true.
Proof.
  intros N P ti t1 t2. split; [|vm_compute; reflexivity].
  apply C05_bt_first_alone_omega_nonneg_binary64.
  - intros x _. change (0 <= B2R 53 1024 (Babs 53 1024 unop_nan_pl64 x)).
    rewrite B2R_Babs. apply Rabs_pos.
  - apply FloatOrderL.b64_sign_nonneg. vm_compute. reflexivity.
  - intros tq [<-|[<-|[]]]; (split; [cbn; lia|]);
      (split; [apply FloatOrderL.b64_sign_pos; vm_compute; reflexivity|]);
      split; vm_compute; reflexivity.
  - intros [|a [|b [|c pre]]] post E; cbn [app] in E.
    + vm_compute. reflexivity.
    + injection E as <- _. vm_compute. reflexivity.
    + injection E as <- <- _. vm_compute. reflexivity.
    + discriminate E.
Qed.

Example C05_bt_last_alone_omega_nonpos_binary64_example :
  let N := B64Num b64_abs (fun x => x) (fun x => b64_mult mode_NE x x) (fun x => x) in
  let P := @mkParams binary64 (b64_of_bits 4616377268039232171) (b64_of_dyadic 1 (-13))
             (@gamma_default binary64 N) in
  let t0 := @mkT binary64 (b64_of_Z 25) (b64_of_Z 139) [] 0 in
  let t1 := @mkT binary64 (b64_of_Z 30) (b64_of_Z 50) [] 1 in
  let ti := @mkT binary64 (b64_of_Z 20) (b64_of_Z 200) [] 2 in
  B2R 53 1024
    (fst (fold_left (@bt_term binary64 N P [t0; t1; ti] ti) [t0; t1]
            (@fzero binary64 N, @fzero binary64 N))) <= 0
  /\ b64_ltb (fst (fold_left (@bt_term binary64 N P [t0; t1; ti] ti) [t0; t1]
                     (@fzero binary64 N, @fzero binary64 N)))
             (@fzero binary64 N) = true.
Proof.
  intros N P t0 t1 ti. split; [|vm_compute; reflexivity].
  apply C05_bt_last_alone_omega_nonpos_binary64.
  - intros x _. change (0 <= B2R 53 1024 (Babs 53 1024 unop_nan_pl64 x)).
    rewrite B2R_Babs. apply Rabs_pos.
  - apply FloatOrderL.b64_sign_nonneg. vm_compute. reflexivity.
  - intros tq [<-|[<-|[]]]; (split; [cbn; lia|]);
      (split; [apply FloatOrderL.b64_sign_pos; vm_compute; reflexivity|]);
      split; vm_compute; reflexivity.
  - intros [|a [|b [|c pre]]] post E; cbn [app] in E.
    + vm_compute. reflexivity.
    + injection E as <- _. vm_compute. reflexivity.
    + injection E as <- <- _. vm_compute. reflexivity.
    + discriminate E.
Qed.

(** mu = 25.0, sigma = 25/3 (0x4020AAAAAAAAAAAB), team sigma^2 = 139.0: omega = 0.5 raises mu,
    omega = -0.5 lowers it (strictly, by computation on doubles) *)
Example C05_update_mu_direction_binary64_example :
  let N := B64Num b64_abs (fun x => x) (fun x => b64_mult mode_NE x x) (fun x => x) in
  let P := @mkParams binary64 (b64_of_bits 4616377268039232171) (b64_of_dyadic 1 (-13))
             (fun _ _ _ _ _ _ => b64_of_Z 1) in
  let p := @mkRating binary64 (b64_of_bits 4627730092099895296) (b64_of_bits 4620880867666602667) 0%Z NmNone in
  let ti := @mkT binary64 (b64_of_bits 4627730092099895296) (b64_of_Z 139) [p] 0 in
  let up := b64_of_dyadic 1 (-1) in
  let down := b64_opp (b64_of_dyadic 1 (-1)) in
  let delta := b64_of_dyadic 1 (-2) in
  (B2R 53 1024 (r_mu p) <= B2R 53 1024 (r_mu (@update_player binary64 N P ti up delta p))
   /\ b64_ltb (r_mu p) (r_mu (@update_player binary64 N P ti up delta p)) = true)
  /\ (B2R 53 1024 (r_mu (@update_player binary64 N P ti down delta p)) <= B2R 53 1024 (r_mu p)
      /\ b64_ltb (r_mu (@update_player binary64 N P ti down delta p)) (r_mu p) = true).
Proof.
  intros N P p ti up down delta. split; (split; [|vm_compute; reflexivity]).
  - apply (C05_update_mu_direction_binary64 b64_abs (fun x => x) (fun x => b64_mult mode_NE x x) (fun x => x)
             P ti up delta p).
    + apply FloatOrderL.b64_sign_nonneg. vm_compute. reflexivity.
    + vm_compute. reflexivity.
    + apply FloatOrderL.b64_sign_nonneg. vm_compute. reflexivity.
  - apply (C05_update_mu_direction_binary64 b64_abs (fun x => x) (fun x => b64_mult mode_NE x x) (fun x => x)
             P ti down delta p).
    + apply FloatOrderL.b64_sign_nonneg. vm_compute. reflexivity.
    + vm_compute. reflexivity.
    + replace (B2R 53 1024 down) with (- B2R 53 1024 up) by (symmetry; apply B2R_Bopp).
      assert (0 <= B2R 53 1024 up) by (apply FloatOrderL.b64_sign_nonneg; vm_compute; reflexivity). lra.
Qed.

(** the composition on a two-player team (25, 25/3), (30.5, 7.25) ranked first alone against
    (30, 50, rank 1) and (20, 200, rank 2): both players' mu strictly increase *)
Example C05_bt_first_alone_mu_binary64_example :
  let N := B64Num b64_abs (fun x => x) (fun x => b64_mult mode_NE x x) (fun x => x) in
  let P := @mkParams binary64 (b64_of_bits 4616377268039232171) (b64_of_dyadic 1 (-13))
             (@gamma_default binary64 N) in
  let p1 := @mkRating binary64 (b64_of_bits 4627730092099895296) (b64_of_bits 4620880867666602667) 0%Z NmNone in
  let p2 := @mkRating binary64 (b64_of_bits 4629278204471803904) (b64_of_bits 4619848792751996928) 1%Z NmNone in
  let ti := @team_rating binary64 N [p1; p2] 0 in
  let t1 := @mkT binary64 (b64_of_Z 30) (b64_of_Z 50) [] 1 in
  let t2 := @mkT binary64 (b64_of_Z 20) (b64_of_Z 200) [] 2 in
  let od := fold_left (@bt_term binary64 N P [ti; t1; t2] ti) [t1; t2] (@fzero binary64 N, @fzero binary64 N) in
  forall p, In p (t_team ti) ->
  B2R 53 1024 (r_mu p) <= B2R 53 1024 (r_mu (@update_player binary64 N P ti (fst od) (snd od) p))
  /\ b64_ltb (r_mu p) (r_mu (@update_player binary64 N P ti (fst od) (snd od) p)) = true.
Proof.
  intros N P p1 p2 ti t1 t2 od p Hp.
  assert (Hp' : p = p1 \/ p = p2) by (destruct Hp as [<-|[<-|[]]]; auto).
  split; [|destruct Hp' as [->| ->]; vm_compute; reflexivity].
  apply C05_bt_first_alone_mu_binary64.
  - intros x _. change (0 <= B2R 53 1024 (Babs 53 1024 unop_nan_pl64 x)).
    rewrite B2R_Babs. apply Rabs_pos.
  - apply FloatOrderL.b64_sign_nonneg. vm_compute. reflexivity.
  - intros tq [<-|[<-|[]]]; (split; [cbn; lia|]);
      (split; [apply FloatOrderL.b64_sign_pos; vm_compute; reflexivity|]);
      split; vm_compute; reflexivity.
  - intros [|a [|b [|c pre]]] post E; cbn [app] in E.
    + vm_compute. reflexivity.
    + injection E as <- _. vm_compute. reflexivity.
    + injection E as <- <- _. vm_compute. reflexivity.
    + discriminate E.
  - destruct Hp' as [->| ->]; apply FloatOrderL.b64_sign_nonneg; vm_compute; reflexivity.
  - destruct Hp' as [->| ->]; vm_compute; reflexivity.
Qed.

(** ** Plackett-Luce in IEEE 754 binary64: a team alone in first place never loses rating.

    In [pl_omega_delta P trs c qs i ti] the omega of team [ti] is fl(S * fl(sigma_i^2 / c)),
    where S accumulates, over the entries [(q, (tq, (sum_q, A_q)))] with rank tq <= rank ti, the
    term fl(fl(1 - p) / A_q) for q = i and - fl(p / A_q) for q <> i, p = fl(e_i / sum_q),
    e_i = exp(mu_i / c); entries with rank tq > rank ti are skipped.
    [C05_pl_first_alone_omega_nonneg_binary64]: on the entries [compute_pl] builds, for the team
    [ti] at position [i], if the team at every other position has a rank strictly greater than
    [ti]'s (alone in first place; stated by position, so that a second copy of the same record
    elsewhere in the list is not mistaken for the team itself), omega >= 0 as a double, for any
    scale [c] ([compute_pl] passes [c := pl_c P trs]).  Why: the only entry used is the team's own,
    S = fl(0 + fl(fl(1 - p) / A_i)); sum_i is the left-to-right float sum of the exponentials
    of all teams (all are ranked no better than [ti]), e_i is one of the summands, so
    e_i <= sum_i as doubles, p in [0,1], fl(1 - p) >= 0; A_i is an int in [1, number of teams]
    converted exactly.  Premises: exp >= 0 on finite arguments; number of teams <= 2^53;
    sigma_i^2 / c >= 0; no overflow in the arguments of exp, in the team's own sum_i and in the
    result omega.  Derived: finiteness of S, of the term, of 1 - p and of p; sum_i <> 0.
    [C05_pl_first_alone_mu_binary64]: composed with [C05_update_mu_direction_binary64]: every
    member [p] gets a new mu >= the old one; the only result assumed finite is the new mu (the
    finiteness of omega is derived from it). *)
From OSV.Lemmas Require FloatPLFirstL.

Theorem C05_pl_first_alone_omega_nonneg_binary64 :
  forall (exp64 erfc64 pow64 icdf64 : binary64 -> binary64)
         (P : params binary64) (trs : list (trating binary64)) (c : binary64)
         (i : nat) (ti : trating binary64),
  (forall x : binary64, is_finite 53 1024 x = true -> 0 <= B2R 53 1024 (exp64 x)) ->
  nth_error trs i = Some ti ->
  (forall (j : nat) (tq : trating binary64), nth_error trs j = Some tq -> j <> i ->
     (t_rank ti < t_rank tq)%nat) ->
  (Z.of_nat (length trs) <= 9007199254740992)%Z ->
  0 <= B2R 53 1024 (@fdiv binary64 (B64Num exp64 erfc64 pow64 icdf64) (t_ss ti) c) ->
  (forall t : trating binary64, In t trs ->
     is_finite 53 1024 (@fdiv binary64 (B64Num exp64 erfc64 pow64 icdf64) (t_mu t) c) = true) ->
  (forall s : binary64,
     nth_error (@pl_sum_q binary64 (B64Num exp64 erfc64 pow64 icdf64) trs c) i = Some s ->
     is_finite 53 1024 s = true) ->
  is_finite 53 1024
    (fst (@pl_omega_delta binary64 (B64Num exp64 erfc64 pow64 icdf64) P trs c
            (combine (seq 0 (length trs))
               (combine trs (combine (@pl_sum_q binary64 (B64Num exp64 erfc64 pow64 icdf64) trs c)
                               (@pl_a binary64 trs))))
            i ti)) = true ->
  0 <= B2R 53 1024
         (fst (@pl_omega_delta binary64 (B64Num exp64 erfc64 pow64 icdf64) P trs c
                 (combine (seq 0 (length trs))
                    (combine trs (combine (@pl_sum_q binary64 (B64Num exp64 erfc64 pow64 icdf64) trs c)
                                    (@pl_a binary64 trs))))
                 i ti)).
Proof. exact FloatPLFirstL.pl_first_alone_omega_nonneg_b64. Qed.
Print Assumptions C05_pl_first_alone_omega_nonneg_binary64.

(** composed: instantiate [p] by each element of [t_team ti]: this is the mu that [update_team],
    i.e. [compute_pl], returns for that player *)
Theorem C05_pl_first_alone_mu_binary64 :
  forall (exp64 erfc64 pow64 icdf64 : binary64 -> binary64)
         (P : params binary64) (trs : list (trating binary64)) (c : binary64)
         (i : nat) (ti : trating binary64) (p : rating binary64),
  (forall x : binary64, is_finite 53 1024 x = true -> 0 <= B2R 53 1024 (exp64 x)) ->
  nth_error trs i = Some ti ->
  (forall (j : nat) (tq : trating binary64), nth_error trs j = Some tq -> j <> i ->
     (t_rank ti < t_rank tq)%nat) ->
  (Z.of_nat (length trs) <= 9007199254740992)%Z ->
  0 <= B2R 53 1024 (@fdiv binary64 (B64Num exp64 erfc64 pow64 icdf64) (t_ss ti) c) ->
  (forall t : trating binary64, In t trs ->
     is_finite 53 1024 (@fdiv binary64 (B64Num exp64 erfc64 pow64 icdf64) (t_mu t) c) = true) ->
  (forall s : binary64,
     nth_error (@pl_sum_q binary64 (B64Num exp64 erfc64 pow64 icdf64) trs c) i = Some s ->
     is_finite 53 1024 s = true) ->
  0 <= B2R 53 1024 (@fdiv binary64 (B64Num exp64 erfc64 pow64 icdf64)
                      (@fpow2 binary64 (B64Num exp64 erfc64 pow64 icdf64) (r_sigma p)) (t_ss ti)) ->
  is_finite 53 1024
    (r_mu (@update_player binary64 (B64Num exp64 erfc64 pow64 icdf64) P ti
       (fst (@pl_omega_delta binary64 (B64Num exp64 erfc64 pow64 icdf64) P trs c
               (combine (seq 0 (length trs))
                  (combine trs (combine (@pl_sum_q binary64 (B64Num exp64 erfc64 pow64 icdf64) trs c)
                                  (@pl_a binary64 trs))))
               i ti))
       (snd (@pl_omega_delta binary64 (B64Num exp64 erfc64 pow64 icdf64) P trs c
               (combine (seq 0 (length trs))
                  (combine trs (combine (@pl_sum_q binary64 (B64Num exp64 erfc64 pow64 icdf64) trs c)
                                  (@pl_a binary64 trs))))
               i ti)) p)) = true ->
  B2R 53 1024 (r_mu p)
  <= B2R 53 1024
       (r_mu (@update_player binary64 (B64Num exp64 erfc64 pow64 icdf64) P ti
          (fst (@pl_omega_delta binary64 (B64Num exp64 erfc64 pow64 icdf64) P trs c
                  (combine (seq 0 (length trs))
                     (combine trs (combine (@pl_sum_q binary64 (B64Num exp64 erfc64 pow64 icdf64) trs c)
                                     (@pl_a binary64 trs))))
                  i ti))
          (snd (@pl_omega_delta binary64 (B64Num exp64 erfc64 pow64 icdf64) P trs c
                  (combine (seq 0 (length trs))
                     (combine trs (combine (@pl_sum_q binary64 (B64Num exp64 erfc64 pow64 icdf64) trs c)
                                     (@pl_a binary64 trs))))
                  i ti)) p)).
Proof. exact FloatPLFirstL.pl_first_alone_mu_b64. Qed.
Print Assumptions C05_pl_first_alone_mu_binary64.

(** Non-vacuity: three teams with aggregates (mu, sigma^2, rank) = (25, 139, 0), (30, 50, 1),
    (20, 200, 1) (the last two tied behind the first), beta = 25/6, default gamma,
    [c := pl_c P trs], stand-ins [exp := |x|], [x ** 2 := x * x].  The first team (index 0) is
    alone in first place; its omega is strictly positive (by computation on doubles), and it is
    the omega [compute_pl] uses for that team. *)
Example C05_pl_first_alone_omega_nonneg_binary64_example :
  let N := B64Num b64_abs (fun x => x) (fun x => b64_mult mode_NE x x) (fun x => x) in
  let P := @mkParams binary64 (b64_of_bits 4616377268039232171) (b64_of_dyadic 1 (-13))
             (@gamma_default binary64 N) in
  let ti := @mkT binary64 (b64_of_Z 25) (b64_of_Z 139) [] 0 in
  let t1 := @mkT binary64 (b64_of_Z 30) (b64_of_Z 50) [] 1 in
  let t2 := @mkT binary64 (b64_of_Z 20) (b64_of_Z 200) [] 1 in
  let trs := [ti; t1; t2] in
  let c := @pl_c binary64 N P trs in
  let qs := combine (seq 0 (length trs)) (combine trs (combine (@pl_sum_q binary64 N trs c) (@pl_a binary64 trs))) in
  0 <= B2R 53 1024 (fst (@pl_omega_delta binary64 N P trs c qs 0 ti))
  /\ b64_ltb (@fzero binary64 N) (fst (@pl_omega_delta binary64 N P trs c qs 0 ti)) = true
  /\ nth_error (@compute_pl binary64 N P trs) 0
     = Some (@update_team binary64 N P ti (@pl_omega_delta binary64 N P trs c qs 0 ti)).
Proof.
  intros N P ti t1 t2 trs c qs. split; [|split; [vm_compute; reflexivity | reflexivity]].
  apply C05_pl_first_alone_omega_nonneg_binary64.
  - intros x _. change (0 <= B2R 53 1024 (Babs 53 1024 unop_nan_pl64 x)).
    rewrite B2R_Babs. apply Rabs_pos.
  - reflexivity.
  - intros j tq Hj Hne. unfold trs in Hj.
    destruct j as [|[|[|j]]]; cbn [nth_error] in Hj.
    + exfalso. apply Hne. reflexivity.
    + injection Hj as <-. unfold ti, t1. cbn [t_rank]. lia.
    + injection Hj as <-. unfold ti, t2. cbn [t_rank]. lia.
    + destruct j; discriminate Hj.
  - vm_compute. discriminate.
  - apply FloatOrderL.b64_sign_nonneg. vm_compute. reflexivity.
  - intros t [<-|[<-|[<-|[]]]]; vm_compute; reflexivity.
  - intros s Hs. unfold pl_sum_q, trs in Hs. cbn [map nth_error] in Hs.
    match type of Hs with Some ?x = Some _ => assert (E : x = s) by congruence end.
    rewrite <- E. vm_compute. reflexivity.
  - vm_compute. reflexivity.
Qed.

(** the composition on a two-player team (25, 25/3), (30.5, 7.25) alone in first place ahead of
    (30, 50, rank 1) and (20, 200, rank 1): both players' mu strictly increase *)
Example C05_pl_first_alone_mu_binary64_example :
  let N := B64Num b64_abs (fun x => x) (fun x => b64_mult mode_NE x x) (fun x => x) in
  let P := @mkParams binary64 (b64_of_bits 4616377268039232171) (b64_of_dyadic 1 (-13))
             (@gamma_default binary64 N) in
  let p1 := @mkRating binary64 (b64_of_bits 4627730092099895296) (b64_of_bits 4620880867666602667) 0%Z NmNone in
  let p2 := @mkRating binary64 (b64_of_bits 4629278204471803904) (b64_of_bits 4619848792751996928) 1%Z NmNone in
  let ti := @team_rating binary64 N [p1; p2] 0 in
  let t1 := @mkT binary64 (b64_of_Z 30) (b64_of_Z 50) [] 1 in
  let t2 := @mkT binary64 (b64_of_Z 20) (b64_of_Z 200) [] 1 in
  let trs := [ti; t1; t2] in
  let c := @pl_c binary64 N P trs in
  let qs := combine (seq 0 (length trs)) (combine trs (combine (@pl_sum_q binary64 N trs c) (@pl_a binary64 trs))) in
  let od := @pl_omega_delta binary64 N P trs c qs 0 ti in
  forall p, In p (t_team ti) ->
  B2R 53 1024 (r_mu p) <= B2R 53 1024 (r_mu (@update_player binary64 N P ti (fst od) (snd od) p))
  /\ b64_ltb (r_mu p) (r_mu (@update_player binary64 N P ti (fst od) (snd od) p)) = true.
Proof.
  intros N P p1 p2 ti t1 t2 trs c qs od p Hp.
  assert (Hp' : p = p1 \/ p = p2) by (destruct Hp as [<-|[<-|[]]]; auto).
  split; [|destruct Hp' as [->| ->]; vm_compute; reflexivity].
  apply C05_pl_first_alone_mu_binary64.
  - intros x _. change (0 <= B2R 53 1024 (Babs 53 1024 unop_nan_pl64 x)).
    rewrite B2R_Babs. apply Rabs_pos.
  - reflexivity.
  - intros j tq Hj Hne. unfold trs in Hj.
    destruct j as [|[|[|j]]]; cbn [nth_error] in Hj.
    + exfalso. apply Hne. reflexivity.
    + injection Hj as <-. unfold ti, t1, team_rating. cbn [t_rank]. lia.
    + injection Hj as <-. unfold ti, t2, team_rating. cbn [t_rank]. lia.
    + destruct j; discriminate Hj.
  - vm_compute. discriminate.
  - apply FloatOrderL.b64_sign_nonneg. vm_compute. reflexivity.
  - intros t [<-|[<-|[<-|[]]]]; vm_compute; reflexivity.
  - intros s Hs. unfold pl_sum_q, trs in Hs. cbn [map nth_error] in Hs.
    match type of Hs with Some ?x = Some _ => assert (E : x = s) by congruence end.
    rewrite <- E. vm_compute. reflexivity.
  - destruct Hp' as [->| ->]; apply FloatOrderL.b64_sign_nonneg; vm_compute; reflexivity.
  - destruct Hp' as [->| ->]; vm_compute; reflexivity.
Qed.

(** * C04: rate() is equivariant under reordering of teams and of players within a team.

    A call of [rate] is modelled by [rate_core k P tau limit teams (Some ks)]: [teams] the prior
    ratings, [ks] the rank keys (ranks, or negated scores), one per team.  "The same game with the
    teams listed in a different order" is a second pair [(teams', ks')] such that the lists of
    (key, team) pairs are permutations of each other.  "Every player keeps their posterior" is
    stated as: the list of (key, prior team, posterior team) triples of the second call is a
    permutation of that of the first (ratings carry the player's id and name, and [C02] shows the
    posterior team lists the same players in the same order as the prior team).

    - [C04_teams]: Plackett-Luce, Bradley-Terry full, Thurstone-Mosteller full; every permutation,
      ties allowed.  Over the reals, from the closed form of C01 (all its sums are invariant).
    - [C04_teams_same_stable_order]: all five models (in particular the two partial-pairing ones),
      every permutation that leaves the stably sorted game unchanged, i.e. keeps mutually tied
      teams in their relative order.  Holds for every number type (binary64 included): the code
      then performs literally the same computation.
    - [C04_teams_no_ties]: all five models, every permutation of a game without ties.
    - [C04_players]: all five models; permuting the members of teams permutes the posteriors of
      those teams alongside and leaves the posterior of every team listed identically unchanged.
      Over the reals.  The gamma callback is handed the list of members; the premise says it does
      not depend on their order (true of the default and of any gamma computed from
      (c, k, mu, sigma^2, rank) and the size or multiset of the team).
    - [C04_partial_tied_refuted]: a witness that Bradley-Terry partial is NOT equivariant when two
      tied teams are swapped - the reason for the exception in the property (not a finding).

    The "to floating-point accuracy" clause is decided by the monitor (re-ordered sums round
    differently); the theorems over R are the exact statement. *)
From Coq Require Import List ZArith Bool Reals Lra Lia Permutation.
From OSV Require Import Num Order Gauss Core RInst.
From OSV.Lemmas Require C04L.
Import ListNotations.
Open Scope R_scope.

Theorem C04_teams : forall (Phi Phiinv : R -> R) (k : kind) (P : params R) (tau : R) (limit : bool)
    (teams teams' : list (list (rating R))) (ks ks' : list key),
  k = PL \/ k = BTF \/ k = TMF ->
  0 < p_beta P -> 0 < p_kappa P <= 1 -> 0 <= tau ->
  (2 <= length teams)%nat -> Forall (fun t => t <> []) teams ->
  Forall (Forall (fun p : rating R => 0 <= r_sigma p /\ 0 < r_sigma p * r_sigma p + tau * tau)) teams ->
  length ks = length teams -> length ks' = length teams' ->
  Forall (fun k : key => (0 <= snd k)%Z) ks ->
  Permutation (combine ks teams) (combine ks' teams') ->
  Permutation (combine (combine ks teams) (@rate_core R (RNum Phi Phiinv) k P tau limit teams (Some ks)))
              (combine (combine ks' teams') (@rate_core R (RNum Phi Phiinv) k P tau limit teams' (Some ks'))).
Proof. intros; now apply C04L.C04_teams. Qed.
Print Assumptions C04_teams.

Theorem C04_teams_same_stable_order : forall (F : Type) (N : Num F) (k : kind) (P : params F) (tau : F)
    (limit : bool) (teams teams' : list (list (rating F))) (ks ks' : list key),
  length ks = length teams -> length ks' = length teams' ->
  isort key_leb ks = isort key_leb ks' ->
  fst (unwind key_leb ks teams) = fst (unwind key_leb ks' teams') ->
  Permutation (combine (combine ks teams) (rate_core k P tau limit teams (Some ks)))
              (combine (combine ks' teams') (rate_core k P tau limit teams' (Some ks'))).
Proof. intros; now apply C04L.rate_core_same_sorted. Qed.
Print Assumptions C04_teams_same_stable_order.

Theorem C04_teams_no_ties : forall (F : Type) (N : Num F) (k : kind) (P : params F) (tau : F)
    (limit : bool) (teams teams' : list (list (rating F))) (ks ks' : list key),
  length ks = length teams -> length ks' = length teams' ->
  Forall (fun k : key => (0 <= snd k)%Z) ks ->
  NoDup ks ->
  (forall a b, In a ks -> In b ks -> key_leb a b = true -> key_leb b a = true -> a = b) ->
  Permutation (combine ks teams) (combine ks' teams') ->
  Permutation (combine (combine ks teams) (rate_core k P tau limit teams (Some ks)))
              (combine (combine ks' teams') (rate_core k P tau limit teams' (Some ks'))).
Proof. intros; now apply C04L.rate_core_no_ties. Qed.
Print Assumptions C04_teams_no_ties.

Theorem C04_players : forall (Phi Phiinv : R -> R) (k : kind) (P : params R) (tau : R) (limit : bool)
    (teams teams' : list (list (rating R))) (keys : option (list key)),
  (forall c n mu ss t t' r, Permutation t t' -> p_gamma P c n mu ss t r = p_gamma P c n mu ss t' r) ->
  0 < p_beta P -> 0 < p_kappa P <= 1 -> 0 <= tau ->
  (2 <= length teams)%nat -> Forall (fun t => t <> []) teams ->
  Forall (Forall (fun p : rating R => 0 <= r_sigma p /\ 0 < r_sigma p * r_sigma p + tau * tau)) teams ->
  match keys with
  | Some ks => length ks = length teams /\ Forall (fun k : key => (0 <= snd k)%Z) ks
  | None => True
  end ->
  Forall2 (@Permutation (rating R)) teams teams' ->
  Forall2 (fun tr tr' : list (rating R) * list (rating R) =>
             Permutation (combine (fst tr) (snd tr)) (combine (fst tr') (snd tr')) /\
             (fst tr = fst tr' -> snd tr = snd tr'))
          (combine teams (@rate_core R (RNum Phi Phiinv) k P tau limit teams keys))
          (combine teams' (@rate_core R (RNum Phi Phiinv) k P tau limit teams' keys)).
Proof. intros; now apply C04L.C04_players. Qed.
Print Assumptions C04_players.

(** the exception is needed: under Bradley-Terry partial pairing, swapping two TIED teams changes
    the posterior of one of them (not a finding: the property excludes this case).  Teams a, b, c
    of one player each, equal priors (mu 25, sigma 1), beta = 1, tau = 0, ranks 1, 1, 2:
    listed [a; b; c] the neighbours of a are {b}; listed [b; a; c] they are {b, c}. *)
Theorem C04_partial_tied_refuted : forall (Phi Phiinv : R -> R),
  let P : params R := mkParams 1 (1 / 10000) (fun c _ _ ss _ _ => sqrt ss / c) in
  let a := mkRating 25 1 1 NmNone in let b := mkRating 25 1 2 NmNone in let c := mkRating 25 1 3 NmNone in
  let ks := [(1, 0); (1, 0); (2, 0)]%Z in
  Permutation (combine ks [[a]; [b]; [c]]) (combine ks [[b]; [a]; [c]]) /\
  exists ra ra',
    nth_error (@rate_core R (RNum Phi Phiinv) BTP P 0 false [[a]; [b]; [c]] (Some ks)) 0 = Some [ra] /\
    nth_error (@rate_core R (RNum Phi Phiinv) BTP P 0 false [[b]; [a]; [c]] (Some ks)) 1 = Some [ra'] /\
    r_mu ra <> r_mu ra'.
Proof. exact C04L.partial_tied_refuted. Qed.
Print Assumptions C04_partial_tied_refuted.

(** non-vacuity: three teams, the first and the last tied; the second presentation swaps the
    first two teams (and their ranks) and the two members of the two-player team *)
Example C04_premises_satisfiable :
  let P : params R := mkParams (25 / 6) (1 / 10000) (fun c _ _ ss _ _ => sqrt ss / c) in
  let tau := 1 / 12 in
  let a := mkRating 25 (25 / 3) 1 NmNone in
  let b1 := mkRating 30 (25 / 3) 2 NmNone in let b2 := mkRating 20 5 3 NmNone in
  let c := mkRating 25 (25 / 3) 4 NmNone in
  let teams := [[a]; [b1; b2]; [c]] in let ks := [(2, 0); (1, 0); (2, 0)]%Z in
  let teams' := [[b1; b2]; [a]; [c]] in let ks' := [(1, 0); (2, 0); (2, 0)]%Z in
  (0 < p_beta P /\ 0 < p_kappa P <= 1 /\ 0 <= tau /\
   (2 <= length teams)%nat /\ Forall (fun t => t <> []) teams /\
   Forall (Forall (fun p : rating R => 0 <= r_sigma p /\ 0 < r_sigma p * r_sigma p + tau * tau)) teams /\
   length ks = length teams /\ length ks' = length teams' /\
   Forall (fun k : key => (0 <= snd k)%Z) ks /\
   Permutation (combine ks teams) (combine ks' teams')) /\
  (forall c n mu ss t t' r, Permutation t t' -> p_gamma P c n mu ss t r = p_gamma P c n mu ss t' r) /\
  Forall2 (@Permutation (rating R)) teams [[a]; [b2; b1]; [c]].
Proof.
  cbn. split; [|split].
  - repeat split; try lra; try (repeat constructor; discriminate); try (repeat constructor; cbn; lia);
      try (repeat constructor; cbn; lra); try apply perm_swap.
  - reflexivity.
  - repeat constructor.
Qed.

(** non-vacuity of the no-ties premises: ranks 3, 1, 2 *)
Example C04_no_ties_satisfiable :
  let ks := [(3, 0); (1, 0); (2, 0)]%Z in
  Forall (fun k : key => (0 <= snd k)%Z) ks /\ NoDup ks /\
  (forall a b, In a ks -> In b ks -> key_leb a b = true -> key_leb b a = true -> a = b).
Proof.
  cbn. split; [repeat constructor; cbn; lia|]. split.
  - repeat constructor; cbn; intuition congruence.
  - intros a b [<-|[<-|[<-|[]]]] [<-|[<-|[<-|[]]]]; cbn; intros; try reflexivity; discriminate.
Qed.

(** non-vacuity of the same-stable-order premises: the tied teams (first and last) keep their
    relative order, the middle team moves to the front *)
Example C04_same_stable_order_satisfiable :
  let teams := [[mkRating 25%Z 8%Z 1%Z NmNone]; [mkRating 30%Z 8%Z 2%Z NmNone]; [mkRating 20%Z 8%Z 3%Z NmNone]] in
  let ks := [(2, 0); (1, 0); (2, 0)]%Z in
  let teams' := [[mkRating 30%Z 8%Z 2%Z NmNone]; [mkRating 25%Z 8%Z 1%Z NmNone]; [mkRating 20%Z 8%Z 3%Z NmNone]] in
  let ks' := [(1, 0); (2, 0); (2, 0)]%Z in
  length ks = length teams /\ length ks' = length teams' /\
  isort key_leb ks = isort key_leb ks' /\
  fst (unwind key_leb ks teams) = fst (unwind key_leb ks' teams').
Proof. cbn. repeat split. Qed.

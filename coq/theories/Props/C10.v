(** * C10 — predict_draw is a probability, symmetric, and largest for evenly matched teams.

    All theorems are over R with the model instantiated at [RNum Phi Phiinv] and the premise
    [GaussCDF Phi Phiinv] (used: gc_mono, gc_sym, gc_range, gc_inv, gc_window, gc_star).
    Domain: beta > 0, at least two teams, every team non-empty.  [sigma >= 0] is not needed
    (the code only uses sigma ** 2).  The two symmetry theorems need no domain hypothesis at all
    (they are pure re-orderings of the same sums) and are stated without.

    Non-vacuity: the premise [GaussCDF Phi Phiinv] IS instantiated, without any hypothesis,
    by [GaussInst.GaussCDF_inst : GaussCDF GaussInst.PhiK GaussInst.PhiinvK], where
    [GaussInst.PhiK x = 1/2 + (int_0^x exp(-t^2/2) dt) / (2 I)] is the standard normal
    distribution function (the only fact about it that is not proved is the numeric value of
    its normalising constant, 2 * I = sqrt (2 * pi), which these theorems do not need).
    Every theorem has a premise-free corollary [<name>_inst] at the end of the file.  The
    remaining hypotheses (beta > 0, >= 2 non-empty teams, equal sigma lists, a Permutation,
    equal team means) are plainly satisfiable, e.g. by [teams' = teams] for the relational ones. *)
From Coq Require Import List Reals Permutation.
From OSV Require Import Num Core Predict RInst.
From OSV Require GaussInst.
From OSV.Lemmas Require C10L.
Import ListNotations.
Local Open Scope R_scope.

(** a probability *)
Theorem C10_range :
  forall Phi Phiinv : R -> R, GaussCDF Phi Phiinv ->
  forall (beta : R) (teams : list (list (rating R))),
    0 < beta -> (2 <= length teams)%nat -> Forall (fun t => t <> []) teams ->
    0 <= @predict_draw R (RNum Phi Phiinv) beta teams <= 1.
Proof. exact C10L.C10_range_l. Qed.
Print Assumptions C10_range.

(** independent of the order of the teams *)
Theorem C10_symmetric_teams :
  forall Phi Phiinv : R -> R, GaussCDF Phi Phiinv ->
  forall (beta : R) (teams teams' : list (list (rating R))),
    Permutation teams teams' ->
    @predict_draw R (RNum Phi Phiinv) beta teams = @predict_draw R (RNum Phi Phiinv) beta teams'.
Proof. exact C10L.C10_symmetric_teams_l. Qed.
Print Assumptions C10_symmetric_teams.

(** independent of the order of the players inside each team *)
Theorem C10_symmetric_players :
  forall Phi Phiinv : R -> R, GaussCDF Phi Phiinv ->
  forall (beta : R) (teams teams' : list (list (rating R))),
    Forall2 (@Permutation (rating R)) teams teams' ->
    @predict_draw R (RNum Phi Phiinv) beta teams = @predict_draw R (RNum Phi Phiinv) beta teams'.
Proof. exact C10L.C10_symmetric_players_l. Qed.
Print Assumptions C10_symmetric_players.

(** two teams, same sigmas: a wider gap between the total mus never raises the draw probability *)
Theorem C10_two_team_gap :
  forall Phi Phiinv : R -> R, GaussCDF Phi Phiinv ->
  forall (beta : R) (ta tb ta' tb' : list (rating R)),
    0 < beta -> ta <> [] -> tb <> [] ->
    map r_sigma ta' = map r_sigma ta -> map r_sigma tb' = map r_sigma tb ->
    Rabs (fst (@agg R (RNum Phi Phiinv) ta) - fst (@agg R (RNum Phi Phiinv) tb))
      <= Rabs (fst (@agg R (RNum Phi Phiinv) ta') - fst (@agg R (RNum Phi Phiinv) tb')) ->
    @predict_draw R (RNum Phi Phiinv) beta [ta'; tb'] <= @predict_draw R (RNum Phi Phiinv) beta [ta; tb].
Proof. exact C10L.C10_two_team_gap_l. Qed.
Print Assumptions C10_two_team_gap.

(** any number of teams: same sigmas, all team total mus equalised, never lowers it *)
Theorem C10_equalise :
  forall Phi Phiinv : R -> R, GaussCDF Phi Phiinv ->
  forall (beta : R) (teams teams' : list (list (rating R))),
    0 < beta -> (2 <= length teams)%nat -> Forall (fun t => t <> []) teams ->
    map (map r_sigma) teams' = map (map r_sigma) teams ->
    (forall t1 t2, In t1 teams' -> In t2 teams' ->
       fst (@agg R (RNum Phi Phiinv) t1) = fst (@agg R (RNum Phi Phiinv) t2)) ->
    @predict_draw R (RNum Phi Phiinv) beta teams <= @predict_draw R (RNum Phi Phiinv) beta teams'.
Proof. exact C10L.C10_equalise_l. Qed.
Print Assumptions C10_equalise.

(** ** Hypothesis-free corollaries: the premise [GaussCDF Phi Phiinv] discharged by the concrete
    standard normal distribution function [GaussInst.PhiK] and its inverse [GaussInst.PhiinvK]
    ([GaussInst.GaussCDF_inst]). *)
Theorem C10_range_inst :
  forall (beta : R) (teams : list (list (rating R))),
    0 < beta -> (2 <= length teams)%nat -> Forall (fun t => t <> []) teams ->
    0 <= @predict_draw R (RNum GaussInst.PhiK GaussInst.PhiinvK) beta teams <= 1.
Proof. exact (C10_range GaussInst.PhiK GaussInst.PhiinvK GaussInst.GaussCDF_inst). Qed.
Print Assumptions C10_range_inst.

Theorem C10_symmetric_teams_inst :
  forall (beta : R) (teams teams' : list (list (rating R))),
    Permutation teams teams' ->
    @predict_draw R (RNum GaussInst.PhiK GaussInst.PhiinvK) beta teams = @predict_draw R (RNum GaussInst.PhiK GaussInst.PhiinvK) beta teams'.
Proof. exact (C10_symmetric_teams GaussInst.PhiK GaussInst.PhiinvK GaussInst.GaussCDF_inst). Qed.
Print Assumptions C10_symmetric_teams_inst.

Theorem C10_symmetric_players_inst :
  forall (beta : R) (teams teams' : list (list (rating R))),
    Forall2 (@Permutation (rating R)) teams teams' ->
    @predict_draw R (RNum GaussInst.PhiK GaussInst.PhiinvK) beta teams = @predict_draw R (RNum GaussInst.PhiK GaussInst.PhiinvK) beta teams'.
Proof. exact (C10_symmetric_players GaussInst.PhiK GaussInst.PhiinvK GaussInst.GaussCDF_inst). Qed.
Print Assumptions C10_symmetric_players_inst.

Theorem C10_two_team_gap_inst :
  forall (beta : R) (ta tb ta' tb' : list (rating R)),
    0 < beta -> ta <> [] -> tb <> [] ->
    map r_sigma ta' = map r_sigma ta -> map r_sigma tb' = map r_sigma tb ->
    Rabs (fst (@agg R (RNum GaussInst.PhiK GaussInst.PhiinvK) ta) - fst (@agg R (RNum GaussInst.PhiK GaussInst.PhiinvK) tb))
      <= Rabs (fst (@agg R (RNum GaussInst.PhiK GaussInst.PhiinvK) ta') - fst (@agg R (RNum GaussInst.PhiK GaussInst.PhiinvK) tb')) ->
    @predict_draw R (RNum GaussInst.PhiK GaussInst.PhiinvK) beta [ta'; tb'] <= @predict_draw R (RNum GaussInst.PhiK GaussInst.PhiinvK) beta [ta; tb].
Proof. exact (C10_two_team_gap GaussInst.PhiK GaussInst.PhiinvK GaussInst.GaussCDF_inst). Qed.
Print Assumptions C10_two_team_gap_inst.

Theorem C10_equalise_inst :
  forall (beta : R) (teams teams' : list (list (rating R))),
    0 < beta -> (2 <= length teams)%nat -> Forall (fun t => t <> []) teams ->
    map (map r_sigma) teams' = map (map r_sigma) teams ->
    (forall t1 t2, In t1 teams' -> In t2 teams' ->
       fst (@agg R (RNum GaussInst.PhiK GaussInst.PhiinvK) t1) = fst (@agg R (RNum GaussInst.PhiK GaussInst.PhiinvK) t2)) ->
    @predict_draw R (RNum GaussInst.PhiK GaussInst.PhiinvK) beta teams <= @predict_draw R (RNum GaussInst.PhiK GaussInst.PhiinvK) beta teams'.
Proof. exact (C10_equalise GaussInst.PhiK GaussInst.PhiinvK GaussInst.GaussCDF_inst). Qed.
Print Assumptions C10_equalise_inst.

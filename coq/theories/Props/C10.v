(** * C10 — predict_draw is a probability, symmetric, and largest for evenly matched teams.

    All theorems are over R with the model instantiated at [RNum Phi Phiinv] and the premise
    [GaussCDF Phi Phiinv] (used: gc_mono, gc_sym, gc_range, gc_inv, gc_window, gc_star).
    Domain: beta > 0, at least two teams, every team non-empty.  [sigma >= 0] is not needed
    (the code only uses sigma ** 2).  The two symmetry theorems need no domain hypothesis at all
    (they are pure re-orderings of the same sums) and are stated without.

    Non-vacuity: the premise [GaussCDF Phi Phiinv] IS instantiated, without any hypothesis,
    by [GaussInst.GaussCDF_inst : GaussCDF GaussInst.PhiK GaussInst.PhiinvK], where
    [GaussInst.PhiK x = 1/2 + (int_0^x exp(-t^2/2) dt) / (2 I)] is the standard normal
    distribution function (the only fact about it that is not proved is the numeric value of
    its normalising constant, 2 * I = sqrt (2 * pi), which these theorems do not need).
    Every theorem has a premise-free corollary [<name>_inst] at the end of the file.  The
    remaining hypotheses (beta > 0, >= 2 non-empty teams, equal sigma lists, a Permutation,
    equal team means) are plainly satisfiable, e.g. by [teams' = teams] for the relational ones. *)
From Coq Require Import List Reals Permutation.
From OSV Require Import Num Core Predict RInst.
From OSV Require GaussInst.
From OSV.Lemmas Require C10L.
Import ListNotations.
Local Open Scope R_scope.

(** a probability *)
Theorem C10_range :
  forall Phi Phiinv : R -> R, GaussCDF Phi Phiinv ->
  forall (beta : R) (teams : list (list (rating R))),
    0 < beta -> (2 <= length teams)%nat -> Forall (fun t => t <> []) teams ->
    0 <= @predict_draw R (RNum Phi Phiinv) beta teams <= 1.
Proof. exact C10L.C10_range_l. Qed.
Print Assumptions C10_range.

(** independent of the order of the teams *)
Theorem C10_symmetric_teams :
  forall Phi Phiinv : R -> R, GaussCDF Phi Phiinv ->
  forall (beta : R) (teams teams' : list (list (rating R))),
    Permutation teams teams' ->
    @predict_draw R (RNum Phi Phiinv) beta teams = @predict_draw R (RNum Phi Phiinv) beta teams'.
Proof. exact C10L.C10_symmetric_teams_l. Qed.
Print Assumptions C10_symmetric_teams.

(** independent of the order of the players inside each team *)
Theorem C10_symmetric_players :
  forall Phi Phiinv : R -> R, GaussCDF Phi Phiinv ->
  forall (beta : R) (teams teams' : list (list (rating R))),
    Forall2 (@Permutation (rating R)) teams teams' ->
    @predict_draw R (RNum Phi Phiinv) beta teams = @predict_draw R (RNum Phi Phiinv) beta teams'.
Proof. exact C10L.C10_symmetric_players_l. Qed.
Print Assumptions C10_symmetric_players.

(** two teams, same sigmas: a wider gap between the total mus never raises the draw probability *)
Theorem C10_two_team_gap :
  forall Phi Phiinv : R -> R, GaussCDF Phi Phiinv ->
  forall (beta : R) (ta tb ta' tb' : list (rating R)),
    0 < beta -> ta <> [] -> tb <> [] ->
    map r_sigma ta' = map r_sigma ta -> map r_sigma tb' = map r_sigma tb ->
    Rabs (fst (@agg R (RNum Phi Phiinv) ta) - fst (@agg R (RNum Phi Phiinv) tb))
      <= Rabs (fst (@agg R (RNum Phi Phiinv) ta') - fst (@agg R (RNum Phi Phiinv) tb')) ->
    @predict_draw R (RNum Phi Phiinv) beta [ta'; tb'] <= @predict_draw R (RNum Phi Phiinv) beta [ta; tb].
Proof. exact C10L.C10_two_team_gap_l. Qed.
Print Assumptions C10_two_team_gap.

(** any number of teams: same sigmas, all team total mus equalised, never lowers it *)
Theorem C10_equalise :
  forall Phi Phiinv : R -> R, GaussCDF Phi Phiinv ->
  forall (beta : R) (teams teams' : list (list (rating R))),
    0 < beta -> (2 <= length teams)%nat -> Forall (fun t => t <> []) teams ->
    map (map r_sigma) teams' = map (map r_sigma) teams ->
    (forall t1 t2, In t1 teams' -> In t2 teams' ->
       fst (@agg R (RNum Phi Phiinv) t1) = fst (@agg R (RNum Phi Phiinv) t2)) ->
    @predict_draw R (RNum Phi Phiinv) beta teams <= @predict_draw R (RNum Phi Phiinv) beta teams'.
Proof. exact C10L.C10_equalise_l. Qed.
Print Assumptions C10_equalise.

(** ** Hypothesis-free corollaries: the premise [GaussCDF Phi Phiinv] discharged by the concrete
    standard normal distribution function [GaussInst.PhiK] and its inverse [GaussInst.PhiinvK]
    ([GaussInst.GaussCDF_inst]). *)
Theorem C10_range_inst :
  forall (beta : R) (teams : list (list (rating R))),
    0 < beta -> (2 <= length teams)%nat -> Forall (fun t => t <> []) teams ->
    0 <= @predict_draw R (RNum GaussInst.PhiK GaussInst.PhiinvK) beta teams <= 1.
Proof. exact (C10_range GaussInst.PhiK GaussInst.PhiinvK GaussInst.GaussCDF_inst). Qed.
Print Assumptions C10_range_inst.

Theorem C10_symmetric_teams_inst :
  forall (beta : R) (teams teams' : list (list (rating R))),
    Permutation teams teams' ->
    @predict_draw R (RNum GaussInst.PhiK GaussInst.PhiinvK) beta teams = @predict_draw R (RNum GaussInst.PhiK GaussInst.PhiinvK) beta teams'.
Proof. exact (C10_symmetric_teams GaussInst.PhiK GaussInst.PhiinvK GaussInst.GaussCDF_inst). Qed.
Print Assumptions C10_symmetric_teams_inst.

Theorem C10_symmetric_players_inst :
  forall (beta : R) (teams teams' : list (list (rating R))),
    Forall2 (@Permutation (rating R)) teams teams' ->
    @predict_draw R (RNum GaussInst.PhiK GaussInst.PhiinvK) beta teams = @predict_draw R (RNum GaussInst.PhiK GaussInst.PhiinvK) beta teams'.
Proof. exact (C10_symmetric_players GaussInst.PhiK GaussInst.PhiinvK GaussInst.GaussCDF_inst). Qed.
Print Assumptions C10_symmetric_players_inst.

Theorem C10_two_team_gap_inst :
  forall (beta : R) (ta tb ta' tb' : list (rating R)),
    0 < beta -> ta <> [] -> tb <> [] ->
    map r_sigma ta' = map r_sigma ta -> map r_sigma tb' = map r_sigma tb ->
    Rabs (fst (@agg R (RNum GaussInst.PhiK GaussInst.PhiinvK) ta) - fst (@agg R (RNum GaussInst.PhiK GaussInst.PhiinvK) tb))
      <= Rabs (fst (@agg R (RNum GaussInst.PhiK GaussInst.PhiinvK) ta') - fst (@agg R (RNum GaussInst.PhiK GaussInst.PhiinvK) tb')) ->
    @predict_draw R (RNum GaussInst.PhiK GaussInst.PhiinvK) beta [ta'; tb'] <= @predict_draw R (RNum GaussInst.PhiK GaussInst.PhiinvK) beta [ta; tb].
Proof. exact (C10_two_team_gap GaussInst.PhiK GaussInst.PhiinvK GaussInst.GaussCDF_inst). Qed.
Print Assumptions C10_two_team_gap_inst.

Theorem C10_equalise_inst :
  forall (beta : R) (teams teams' : list (list (rating R))),
    0 < beta -> (2 <= length teams)%nat -> Forall (fun t => t <> []) teams ->
    map (map r_sigma) teams' = map (map r_sigma) teams ->
    (forall t1 t2, In t1 teams' -> In t2 teams' ->
       fst (@agg R (RNum GaussInst.PhiK GaussInst.PhiinvK) t1) = fst (@agg R (RNum GaussInst.PhiK GaussInst.PhiinvK) t2)) ->
    @predict_draw R (RNum GaussInst.PhiK GaussInst.PhiinvK) beta teams <= @predict_draw R (RNum GaussInst.PhiK GaussInst.PhiinvK) beta teams'.
Proof. exact (C10_equalise GaussInst.PhiK GaussInst.PhiinvK GaussInst.GaussCDF_inst). Qed.
Print Assumptions C10_equalise_inst.

(** ** Range of [predict_draw] on the doubles the code computes (binary64, no rounding slack)

    On Flocq's binary64 with the IEEE 754 round-to-nearest-even operations ([FloatInst.B64Num]):
    [predict_draw beta teams] is a FINITE double, its real value is >= 0, and with three or more
    teams it is <= 1.  Premises: libm's erfc returns, on every finite argument, a finite double
    with value in [0,2]; 2 <= number of teams <= 2^12 = 4096; the two arguments handed to the
    normal CDF for every ordered pair of distinct positions are finite (no overflow, no NaN).
    Nothing is assumed about exp, [x ** 2], inv_cdf (hence about the draw margin, beyond the
    finiteness of the quotients) or the accuracy of sqrt.  All other finiteness is derived.

    The upper bound has no slack at all: the n(n-1) terms are differences of two CDF values, each
    a double in [-1,1]; CPython's [sum()] is Neumaier's compensated summation ([py_sum]); its
    running sum s is in [-k,k] after k terms (monotone rounding), each compensation term is the
    EXACT rounding error of the addition (Fast2Sum, Dekker; Flocq's [Fast2Sum_correct]), so
    s + c differs from the exact real sum T, |T| <= k, by at most 2 u^2 k^3 (u = 2^-53), which for
    k <= 2^25 is below a quarter ulp of k: the final [fl(s + c)] cannot exceed the double k =
    n(n-1), the denominator; hence |sum| / den rounds to at most 1.  (The bound on the number of
    teams is what this error analysis needs; 1.0 is attained, see the example.)

    NOT covered: the two-team upper bound (with two teams the code divides the sum of the two
    terms by 1, so the result is <= 1 only because the two terms are about 1/2 each for the real
    draw margin; that depends on the accuracy of inv_cdf and erfc, not on rounding alone). *)
From Coq Require Import ZArith.
From Flocq Require IEEE754.BinarySingleNaN IEEE754.Binary IEEE754.Bits.
From OSV Require Order FloatInst.
From OSV.Lemmas Require FloatRangeL.

Theorem C10_predict_draw_range_binary64 :
  forall (f_exp f_erfc f_pow2 f_icdf : Bits.binary64 -> Bits.binary64),
  (forall x : Bits.binary64, Binary.is_finite 53%Z 1024%Z x = true ->
     Binary.is_finite 53%Z 1024%Z (f_erfc x) = true /\ 0 <= Binary.B2R 53%Z 1024%Z (f_erfc x) <= 2) ->
  forall (beta : Bits.binary64) (teams : list (list (rating Bits.binary64))),
  (2 <= length teams)%nat -> (Z.of_nat (length teams) <= 2 ^ 12)%Z ->
  (forall (ro : list (rating Bits.binary64) * list (list (rating Bits.binary64))) (tb : list (rating Bits.binary64)),
     In ro (Order.rows teams) -> In tb (snd ro) ->
     Binary.is_finite 53%Z 1024%Z
       (@fdiv Bits.binary64 (FloatInst.B64Num f_exp f_erfc f_pow2 f_icdf)
          (@fadd Bits.binary64 (FloatInst.B64Num f_exp f_erfc f_pow2 f_icdf)
             (@fsub Bits.binary64 (FloatInst.B64Num f_exp f_erfc f_pow2 f_icdf)
                (@draw_margin Bits.binary64 (FloatInst.B64Num f_exp f_erfc f_pow2 f_icdf) beta teams)
                (fst (@agg Bits.binary64 (FloatInst.B64Num f_exp f_erfc f_pow2 f_icdf) (fst ro))))
             (fst (@agg Bits.binary64 (FloatInst.B64Num f_exp f_erfc f_pow2 f_icdf) tb)))
          (@pair_scale Bits.binary64 (FloatInst.B64Num f_exp f_erfc f_pow2 f_icdf) beta (length teams)
             (@agg Bits.binary64 (FloatInst.B64Num f_exp f_erfc f_pow2 f_icdf) (fst ro))
             (@agg Bits.binary64 (FloatInst.B64Num f_exp f_erfc f_pow2 f_icdf) tb))) = true
     /\ Binary.is_finite 53%Z 1024%Z
          (@fdiv Bits.binary64 (FloatInst.B64Num f_exp f_erfc f_pow2 f_icdf)
             (@fsub Bits.binary64 (FloatInst.B64Num f_exp f_erfc f_pow2 f_icdf)
                (@fsub Bits.binary64 (FloatInst.B64Num f_exp f_erfc f_pow2 f_icdf)
                   (fst (@agg Bits.binary64 (FloatInst.B64Num f_exp f_erfc f_pow2 f_icdf) (fst ro)))
                   (fst (@agg Bits.binary64 (FloatInst.B64Num f_exp f_erfc f_pow2 f_icdf) tb)))
                (@draw_margin Bits.binary64 (FloatInst.B64Num f_exp f_erfc f_pow2 f_icdf) beta teams))
             (@pair_scale Bits.binary64 (FloatInst.B64Num f_exp f_erfc f_pow2 f_icdf) beta (length teams)
                (@agg Bits.binary64 (FloatInst.B64Num f_exp f_erfc f_pow2 f_icdf) (fst ro))
                (@agg Bits.binary64 (FloatInst.B64Num f_exp f_erfc f_pow2 f_icdf) tb))) = true) ->
  Binary.is_finite 53%Z 1024%Z
    (@predict_draw Bits.binary64 (FloatInst.B64Num f_exp f_erfc f_pow2 f_icdf) beta teams) = true
  /\ 0 <= Binary.B2R 53%Z 1024%Z
            (@predict_draw Bits.binary64 (FloatInst.B64Num f_exp f_erfc f_pow2 f_icdf) beta teams)
  /\ ((3 <= length teams)%nat ->
      Binary.B2R 53%Z 1024%Z
        (@predict_draw Bits.binary64 (FloatInst.B64Num f_exp f_erfc f_pow2 f_icdf) beta teams) <= 1).
Proof. exact FloatRangeL.predict_draw_range_b64. Qed.
Print Assumptions C10_predict_draw_range_binary64.

(** non-vacuity.  Stand-ins for the libm parameters: erfc := the step function 2 / 1 / 0 on
    negative / zero / positive arguments (finite, in [0,2], as the premise requires; so the CDF is
    the step 0 / 0.5 / 1), [x ** 2 := x * x], inv_cdf := identity (the draw margin is then
    sqrt(4) * beta * 0.625 for four players); exp is not used.  beta = 25/6; teams
    [(25.0, 25/3)], [(30.5, 7.25)], [(20.0, 5.0); (7.0, 4.0)] (aggregate means 25, 30.5, 27): the
    hypotheses hold and the computed value is 4/6 rounded.  With three copies of the first team
    every one of the six terms is 1 and the result is exactly 1.0 (bits 0x3FF0000000000000):
    the bound is attained. *)
Example C10_predict_draw_range_binary64_ex :
  let N := FloatInst.B64Num (fun x => x)
             (fun x => match Bits.b64_compare x (Binary.B754_zero 53%Z 1024%Z false) with
                       | Some Lt => FloatInst.b64_of_Z 2 | Some Gt => FloatInst.b64_of_Z 0
                       | _ => FloatInst.b64_of_Z 1 end)
             (fun x => Bits.b64_mult BinarySingleNaN.mode_NE x x) (fun x => x) in
  let t1 := [mkRating (Bits.b64_of_bits 4627730092099895296%Z) (Bits.b64_of_bits 4620880867666602667%Z) 0%Z NmNone] in
  let t2 := [mkRating (Bits.b64_of_bits 4629278204471803904%Z) (Bits.b64_of_bits 4619848792751996928%Z) 1%Z NmNone] in
  let t3 := [mkRating (FloatInst.b64_of_Z 20) (FloatInst.b64_of_Z 5) 2%Z NmNone;
             mkRating (FloatInst.b64_of_Z 7) (FloatInst.b64_of_Z 4) 3%Z NmNone] in
  let beta := Bits.b64_of_bits 4616377268039232171%Z in
  (Binary.is_finite 53%Z 1024%Z (@predict_draw Bits.binary64 N beta [t1; t2; t3]) = true
   /\ 0 <= Binary.B2R 53%Z 1024%Z (@predict_draw Bits.binary64 N beta [t1; t2; t3]) <= 1)
  /\ Bits.bits_of_b64 (@predict_draw Bits.binary64 N beta [t1; t2; t3]) = 4604180019048437077%Z
  /\ (Binary.is_finite 53%Z 1024%Z (@predict_draw Bits.binary64 N beta [t1; t1; t1]) = true
      /\ 0 <= Binary.B2R 53%Z 1024%Z (@predict_draw Bits.binary64 N beta [t1; t1; t1]) <= 1)
  /\ Bits.bits_of_b64 (@predict_draw Bits.binary64 N beta [t1; t1; t1]) = 4607182418800017408%Z.
Proof.
  intros N t1 t2 t3 beta.
  assert (H1 : Binary.is_finite 53%Z 1024%Z (@predict_draw Bits.binary64 N beta [t1; t2; t3]) = true
               /\ 0 <= Binary.B2R 53%Z 1024%Z (@predict_draw Bits.binary64 N beta [t1; t2; t3])
               /\ ((3 <= length [t1; t2; t3])%nat ->
                   Binary.B2R 53%Z 1024%Z (@predict_draw Bits.binary64 N beta [t1; t2; t3]) <= 1)).
  { apply C10_predict_draw_range_binary64.
    - exact FloatRangeL.ex_erfc_ok.
    - repeat constructor.
    - vm_compute. intros H; discriminate H.
    - intros ro tb Hro Htb. cbv [Order.rows Order.rows_aux rev app In] in Hro.
      destruct Hro as [<-|[<-|[<-|[]]]]; cbv [snd In] in Htb; destruct Htb as [<-|[<-|[]]];
        split; vm_compute; reflexivity. }
  assert (H2 : Binary.is_finite 53%Z 1024%Z (@predict_draw Bits.binary64 N beta [t1; t1; t1]) = true
               /\ 0 <= Binary.B2R 53%Z 1024%Z (@predict_draw Bits.binary64 N beta [t1; t1; t1])
               /\ ((3 <= length [t1; t1; t1])%nat ->
                   Binary.B2R 53%Z 1024%Z (@predict_draw Bits.binary64 N beta [t1; t1; t1]) <= 1)).
  { apply C10_predict_draw_range_binary64.
    - exact FloatRangeL.ex_erfc_ok.
    - repeat constructor.
    - vm_compute. intros H; discriminate H.
    - intros ro tb Hro Htb. cbv [Order.rows Order.rows_aux rev app In] in Hro.
      destruct Hro as [<-|[<-|[<-|[]]]]; cbv [snd In] in Htb; destruct Htb as [<-|[<-|[]]];
        split; vm_compute; reflexivity. }
  destruct H1 as (F1 & L1 & U1). destruct H2 as (F2 & L2 & U2).
  split; [split; [exact F1 | split; [exact L1 | apply U1; repeat constructor]]|].
  split; [vm_compute; reflexivity|].
  split; [split; [exact F2 | split; [exact L2 | apply U2; repeat constructor]]|].
  vm_compute. reflexivity.
Qed.

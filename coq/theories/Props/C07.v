(** * C07: no rating inflation -- the precision-weighted mu change sums to zero over a game.

    All theorems are over the reals ([RNum Phi Phiinv]); none needs a fact about the normal
    distribution function (no [GaussFacts] premise): the Thurstone-Mosteller cancellation is
    algebraic (winner and loser of a pair receive the same correction [v x t] with opposite
    signs; [vt] is odd in [x] except at [x = 0] on the code's asymptotic branch).
    [Rsum] is the plain finite sum of RInst.  "Total mu change of a team" is written out as
    [Rsum (map (fun pr => r_mu (snd pr) - r_mu (fst pr)) (combine old_team new_team))].

    Domain at the [compute] level: >= 2 team ratings, beta > 0, every team non-empty with
    [t_ss] = the sum of its members' sigma^2 and > 0 (kappa > 0 for Thurstone-Mosteller);
    the [t_rank] values are ARBITRARY.  Domain at the [rate_core] level: >= 2 non-empty teams,
    beta > 0, sigma^2 + tau^2 > 0 for every player, as many rank keys as teams. *)
From Coq Require Import List ZArith Bool Reals Lra.
From OSV Require Import Num Order Core RInst.
From OSV.Lemmas Require C07L C07LiftL.
Import ListNotations.
Open Scope R_scope.

(** ** What is observed.  The members of a team share the team's omega in proportion to their
    variance: the total mu change of the team is exactly omega (the shares sum to 1). *)
Theorem C07_observable : forall (Phi Phiinv : R -> R) (P : params R) (ti : trating R) (omega delta : R),
  t_ss ti = Rsum (map (fun p => r_sigma p * r_sigma p) (t_team ti)) -> t_ss ti <> 0 ->
  Rsum (map (fun pr => r_mu (snd pr) - r_mu (fst pr))
            (combine (t_team ti) (@update_team R (RNum Phi Phiinv) P ti (omega, delta)))) = omega.
Proof. exact C07L.observable. Qed.
Print Assumptions C07_observable.

Example C07_observable_nonvacuous :
  let ti := mkT 55 13 [mkRating 25 2 0 NmNone; mkRating 30 3 1 NmNone] 0 in
  t_ss ti = Rsum (map (fun p => r_sigma p * r_sigma p) (t_team ti)) /\ t_ss ti <> 0.
Proof. cbn. split; lra. Qed.

(** [compute] hands [update_team] the (omega, delta) pairs [C07L.od_of] (defined from the
    model's own accumulation functions [pl_omega_delta], [bt_term], [tm_term]); so, with
    [C07_observable], the "total mu change of team i / team variance" is omega_i / t_ss_i. *)
Theorem C07_omega_of : forall (Phi Phiinv : R -> R) (k : kind) (P : params R) (trs : list (trating R)),
  @compute R (RNum Phi Phiinv) k P trs
  = map (fun p => @update_team R (RNum Phi Phiinv) P (fst p) (snd p)) (combine trs (C07L.od_of Phi Phiinv k P trs))
  /\ length (C07L.od_of Phi Phiinv k P trs) = length trs
  /\ C07L.omega_of Phi Phiinv k P trs = map fst (C07L.od_of Phi Phiinv k P trs).
Proof. intros; split; [apply C07L.compute_od | split; [apply C07L.od_of_length | reflexivity]]. Qed.
Print Assumptions C07_omega_of.

(** ** Plackett-Luce and Bradley-Terry (full and partial): exactly zero, for any ranks *)
Theorem C07_zero_omega : forall (Phi Phiinv : R -> R) (k : kind) (P : params R) (trs : list (trating R)),
  k = PL \/ k = BTF \/ k = BTP ->
  (2 <= length trs)%nat -> 0 < p_beta P -> Forall (fun t => 0 < t_ss t) trs ->
  Rsum (map (fun p => snd p / t_ss (fst p)) (combine trs (C07L.omega_of Phi Phiinv k P trs))) = 0.
Proof. exact C07L.zero_omega. Qed.
Print Assumptions C07_zero_omega.

Theorem C07_zero_pl : forall (Phi Phiinv : R -> R) (P : params R) (trs : list (trating R)),
  (2 <= length trs)%nat -> 0 < p_beta P ->
  Forall (fun t => t_team t <> [] /\ t_ss t = Rsum (map (fun p => r_sigma p * r_sigma p) (t_team t)) /\ 0 < t_ss t) trs ->
  Rsum (map (fun p => Rsum (map (fun pr => r_mu (snd pr) - r_mu (fst pr)) (combine (t_team (fst p)) (snd p)))
                      / t_ss (fst p))
            (combine trs (@compute R (RNum Phi Phiinv) PL P trs))) = 0.
Proof. intros Phi Phiinv P trs; apply (C07L.zero_compute Phi Phiinv PL); auto. Qed.
Print Assumptions C07_zero_pl.

Theorem C07_zero_btf : forall (Phi Phiinv : R -> R) (P : params R) (trs : list (trating R)),
  (2 <= length trs)%nat -> 0 < p_beta P ->
  Forall (fun t => t_team t <> [] /\ t_ss t = Rsum (map (fun p => r_sigma p * r_sigma p) (t_team t)) /\ 0 < t_ss t) trs ->
  Rsum (map (fun p => Rsum (map (fun pr => r_mu (snd pr) - r_mu (fst pr)) (combine (t_team (fst p)) (snd p)))
                      / t_ss (fst p))
            (combine trs (@compute R (RNum Phi Phiinv) BTF P trs))) = 0.
Proof. intros Phi Phiinv P trs; apply (C07L.zero_compute Phi Phiinv BTF); auto. Qed.
Print Assumptions C07_zero_btf.

Theorem C07_zero_btp : forall (Phi Phiinv : R -> R) (P : params R) (trs : list (trating R)),
  (2 <= length trs)%nat -> 0 < p_beta P ->
  Forall (fun t => t_team t <> [] /\ t_ss t = Rsum (map (fun p => r_sigma p * r_sigma p) (t_team t)) /\ 0 < t_ss t) trs ->
  Rsum (map (fun p => Rsum (map (fun pr => r_mu (snd pr) - r_mu (fst pr)) (combine (t_team (fst p)) (snd p)))
                      / t_ss (fst p))
            (combine trs (@compute R (RNum Phi Phiinv) BTP P trs))) = 0.
Proof. intros Phi Phiinv P trs; apply (C07L.zero_compute Phi Phiinv BTP); auto. Qed.
Print Assumptions C07_zero_btp.

(** ** Thurstone-Mosteller: zero up to the draw-margin term.  The sum lies between 0 and
    kappa / c^2 per ORDERED tied pair that the model visits, i.e. 2 kappa / c^2 per unordered
    tied pair ([c] = [c_iq] in the full model, [2 c_iq] in the partial one, see K1). *)
Theorem C07_tmf : forall (Phi Phiinv : R -> R) (P : params R) (trs : list (trating R)),
  (2 <= length trs)%nat -> 0 < p_beta P -> 0 < p_kappa P ->
  Forall (fun t => t_team t <> [] /\ t_ss t = Rsum (map (fun p => r_sigma p * r_sigma p) (t_team t)) /\ 0 < t_ss t) trs ->
  0 <= Rsum (map (fun p => Rsum (map (fun pr => r_mu (snd pr) - r_mu (fst pr)) (combine (t_team (fst p)) (snd p)))
                           / t_ss (fst p))
                 (combine trs (@compute R (RNum Phi Phiinv) TMF P trs)))
    <= Rsum (map (fun io => Rsum (map (fun tq =>
               if Nat.eqb (t_rank (fst io)) (t_rank tq)
               then p_kappa P / (@c_iq R (RNum Phi Phiinv) P (fst io) tq * @c_iq R (RNum Phi Phiinv) P (fst io) tq)
               else 0) (snd io)))
            (opponents_full trs)).
Proof. intros Phi Phiinv; exact (C07L.tm_compute_bound Phi Phiinv false). Qed.
Print Assumptions C07_tmf.

Theorem C07_tmp : forall (Phi Phiinv : R -> R) (P : params R) (trs : list (trating R)),
  (2 <= length trs)%nat -> 0 < p_beta P -> 0 < p_kappa P ->
  Forall (fun t => t_team t <> [] /\ t_ss t = Rsum (map (fun p => r_sigma p * r_sigma p) (t_team t)) /\ 0 < t_ss t) trs ->
  0 <= Rsum (map (fun p => Rsum (map (fun pr => r_mu (snd pr) - r_mu (fst pr)) (combine (t_team (fst p)) (snd p)))
                           / t_ss (fst p))
                 (combine trs (@compute R (RNum Phi Phiinv) TMP P trs)))
    <= Rsum (map (fun io => Rsum (map (fun tq =>
               if Nat.eqb (t_rank (fst io)) (t_rank tq)
               then p_kappa P / ((2 * @c_iq R (RNum Phi Phiinv) P (fst io) tq) * (2 * @c_iq R (RNum Phi Phiinv) P (fst io) tq))
               else 0) (snd io)))
            (opponents_part trs)).
Proof. intros Phi Phiinv; exact (C07L.tm_compute_bound Phi Phiinv true). Qed.
Print Assumptions C07_tmp.

(** exactly zero when no tied pair that the model visits has exactly equal team mu *)
Theorem C07_tmf_zero : forall (Phi Phiinv : R -> R) (P : params R) (trs : list (trating R)),
  (2 <= length trs)%nat -> 0 < p_beta P -> 0 < p_kappa P ->
  Forall (fun t => t_team t <> [] /\ t_ss t = Rsum (map (fun p => r_sigma p * r_sigma p) (t_team t)) /\ 0 < t_ss t) trs ->
  Forall (fun io => Forall (fun tq => t_rank (fst io) = t_rank tq -> t_mu (fst io) <> t_mu tq) (snd io))
         (opponents_full trs) ->
  Rsum (map (fun p => Rsum (map (fun pr => r_mu (snd pr) - r_mu (fst pr)) (combine (t_team (fst p)) (snd p)))
                      / t_ss (fst p))
            (combine trs (@compute R (RNum Phi Phiinv) TMF P trs))) = 0.
Proof. intros Phi Phiinv; exact (C07L.tm_compute_zero Phi Phiinv false). Qed.
Print Assumptions C07_tmf_zero.

Theorem C07_tmp_zero : forall (Phi Phiinv : R -> R) (P : params R) (trs : list (trating R)),
  (2 <= length trs)%nat -> 0 < p_beta P -> 0 < p_kappa P ->
  Forall (fun t => t_team t <> [] /\ t_ss t = Rsum (map (fun p => r_sigma p * r_sigma p) (t_team t)) /\ 0 < t_ss t) trs ->
  Forall (fun io => Forall (fun tq => t_rank (fst io) = t_rank tq -> t_mu (fst io) <> t_mu tq) (snd io))
         (opponents_part trs) ->
  Rsum (map (fun p => Rsum (map (fun pr => r_mu (snd pr) - r_mu (fst pr)) (combine (t_team (fst p)) (snd p)))
                      / t_ss (fst p))
            (combine trs (@compute R (RNum Phi Phiinv) TMP P trs))) = 0.
Proof. intros Phi Phiinv; exact (C07L.tm_compute_zero Phi Phiinv true). Qed.
Print Assumptions C07_tmp_zero.

(** non-vacuity of the [compute]-level hypotheses (two tied one-player teams, different mu) *)
Example C07_compute_nonvacuous :
  let P := mkParams 4 (1 / 10000) (fun _ _ _ _ _ _ => 1) in
  let trs := [mkT 25 4 [mkRating 25 2 0 NmNone] 0; mkT 30 9 [mkRating 30 3 1 NmNone] 0] in
  (2 <= length trs)%nat /\ 0 < p_beta P /\ 0 < p_kappa P /\
  Forall (fun t => t_team t <> [] /\ t_ss t = Rsum (map (fun p => r_sigma p * r_sigma p) (t_team t)) /\ 0 < t_ss t) trs /\
  Forall (fun io => Forall (fun tq => t_rank (fst io) = t_rank tq -> t_mu (fst io) <> t_mu tq) (snd io))
         (opponents_full trs) /\
  Forall (fun io => Forall (fun tq => t_rank (fst io) = t_rank tq -> t_mu (fst io) <> t_mu tq) (snd io))
         (opponents_part trs).
Proof.
  cbn. repeat split; try lra; auto; repeat constructor; cbn; try lra; try discriminate; intros _; lra.
Qed.

(** ** Through [rate_core] (tau inflation, sort by rank, update, unsort, optional sigma clamp):
    the sum over teams of (total mu change of the team) / (inflated team variance) is zero. *)
Theorem C07_rate : forall (Phi Phiinv : R -> R) (k : kind) (P : params R) (tau : R) (limit : bool)
    (teams : list (list (rating R))) (keys : option (list key)),
  k = PL \/ k = BTF \/ k = BTP ->
  (2 <= length teams)%nat -> 0 < p_beta P ->
  match keys with Some ks => length ks = length teams | None => True end ->
  Forall (fun t => t <> [] /\ Forall (fun p => 0 < r_sigma p * r_sigma p + tau * tau) t) teams ->
  Rsum (map (fun tr => Rsum (map (fun pr => r_mu (snd pr) - r_mu (fst pr)) (combine (fst tr) (snd tr)))
                       / Rsum (map (fun p => r_sigma p * r_sigma p + tau * tau) (fst tr)))
            (combine teams (@rate_core R (RNum Phi Phiinv) k P tau limit teams keys))) = 0.
Proof. exact C07L.rate_zero. Qed.
Print Assumptions C07_rate.

(** equal inflated team variances: the mu gained by some players is exactly the mu lost by
    the others *)
Theorem C07_equal_variance : forall (Phi Phiinv : R -> R) (k : kind) (P : params R) (tau : R) (limit : bool)
    (teams : list (list (rating R))) (keys : option (list key)) (V : R),
  k = PL \/ k = BTF \/ k = BTP ->
  (2 <= length teams)%nat -> 0 < p_beta P ->
  match keys with Some ks => length ks = length teams | None => True end ->
  Forall (fun t => t <> [] /\ Forall (fun p => 0 < r_sigma p * r_sigma p + tau * tau) t) teams ->
  Forall (fun t => Rsum (map (fun p => r_sigma p * r_sigma p + tau * tau) t) = V) teams ->
  Rsum (map (fun tr => Rsum (map (fun pr => r_mu (snd pr) - r_mu (fst pr)) (combine (fst tr) (snd tr))))
            (combine teams (@rate_core R (RNum Phi Phiinv) k P tau limit teams keys))) = 0.
Proof. exact C07L.rate_equal_variance. Qed.
Print Assumptions C07_equal_variance.

(** Thurstone-Mosteller through [rate_core], exact form: zero when the team mus are pairwise
    distinct (then no tied pair can have equal mu, whatever the ranks) *)
Theorem C07_rate_tmf_distinct_mu : forall (Phi Phiinv : R -> R) (P : params R) (tau : R) (limit : bool)
    (teams : list (list (rating R))) (keys : option (list key)),
  (2 <= length teams)%nat -> 0 < p_beta P -> 0 < p_kappa P ->
  match keys with Some ks => length ks = length teams | None => True end ->
  Forall (fun t => t <> [] /\ Forall (fun p => 0 < r_sigma p * r_sigma p + tau * tau) t) teams ->
  NoDup (map (fun t => Rsum (map r_mu t)) teams) ->
  Rsum (map (fun tr => Rsum (map (fun pr => r_mu (snd pr) - r_mu (fst pr)) (combine (fst tr) (snd tr)))
                       / Rsum (map (fun p => r_sigma p * r_sigma p + tau * tau) (fst tr)))
            (combine teams (@rate_core R (RNum Phi Phiinv) TMF P tau limit teams keys))) = 0.
Proof. intros Phi Phiinv; exact (C07L.rate_tm_distinct_mu Phi Phiinv false). Qed.
Print Assumptions C07_rate_tmf_distinct_mu.

Theorem C07_rate_tmp_distinct_mu : forall (Phi Phiinv : R -> R) (P : params R) (tau : R) (limit : bool)
    (teams : list (list (rating R))) (keys : option (list key)),
  (2 <= length teams)%nat -> 0 < p_beta P -> 0 < p_kappa P ->
  match keys with Some ks => length ks = length teams | None => True end ->
  Forall (fun t => t <> [] /\ Forall (fun p => 0 < r_sigma p * r_sigma p + tau * tau) t) teams ->
  NoDup (map (fun t => Rsum (map r_mu t)) teams) ->
  Rsum (map (fun tr => Rsum (map (fun pr => r_mu (snd pr) - r_mu (fst pr)) (combine (fst tr) (snd tr)))
                       / Rsum (map (fun p => r_sigma p * r_sigma p + tau * tau) (fst tr)))
            (combine teams (@rate_core R (RNum Phi Phiinv) TMP P tau limit teams keys))) = 0.
Proof. intros Phi Phiinv; exact (C07L.rate_tm_distinct_mu Phi Phiinv true). Qed.
Print Assumptions C07_rate_tmp_distinct_mu.

Theorem C07_equal_variance_tmf : forall (Phi Phiinv : R -> R) (P : params R) (tau : R) (limit : bool)
    (teams : list (list (rating R))) (keys : option (list key)) (V : R),
  (2 <= length teams)%nat -> 0 < p_beta P -> 0 < p_kappa P ->
  match keys with Some ks => length ks = length teams | None => True end ->
  Forall (fun t => t <> [] /\ Forall (fun p => 0 < r_sigma p * r_sigma p + tau * tau) t) teams ->
  NoDup (map (fun t => Rsum (map r_mu t)) teams) ->
  Forall (fun t => Rsum (map (fun p => r_sigma p * r_sigma p + tau * tau) t) = V) teams ->
  Rsum (map (fun tr => Rsum (map (fun pr => r_mu (snd pr) - r_mu (fst pr)) (combine (fst tr) (snd tr))))
            (combine teams (@rate_core R (RNum Phi Phiinv) TMF P tau limit teams keys))) = 0.
Proof. intros Phi Phiinv; exact (C07L.rate_equal_variance_tm Phi Phiinv false). Qed.
Print Assumptions C07_equal_variance_tmf.

Theorem C07_equal_variance_tmp : forall (Phi Phiinv : R -> R) (P : params R) (tau : R) (limit : bool)
    (teams : list (list (rating R))) (keys : option (list key)) (V : R),
  (2 <= length teams)%nat -> 0 < p_beta P -> 0 < p_kappa P ->
  match keys with Some ks => length ks = length teams | None => True end ->
  Forall (fun t => t <> [] /\ Forall (fun p => 0 < r_sigma p * r_sigma p + tau * tau) t) teams ->
  NoDup (map (fun t => Rsum (map r_mu t)) teams) ->
  Forall (fun t => Rsum (map (fun p => r_sigma p * r_sigma p + tau * tau) t) = V) teams ->
  Rsum (map (fun tr => Rsum (map (fun pr => r_mu (snd pr) - r_mu (fst pr)) (combine (fst tr) (snd tr))))
            (combine teams (@rate_core R (RNum Phi Phiinv) TMP P tau limit teams keys))) = 0.
Proof. intros Phi Phiinv; exact (C07L.rate_equal_variance_tm Phi Phiinv true). Qed.
Print Assumptions C07_equal_variance_tmp.

(** Thurstone-Mosteller through [rate_core], any game: between 0 and a coarse bound
    (kappa / (2 beta^2) per ordered pair of teams in the full model; kappa / (8 beta^2) per
    ordered neighbour pair, at most 2 per team, in the partial one).
    PARTIAL: the property's sharper "2 kappa / c^2 per TIED pair" is proved at the [compute]
    level ([C07_tmf], [C07_tmp]) for the sorted game, and through [rate_core] in terms of the
    caller's rank keys at the end of this file ([C07_rate_tmf_sharp], [C07_rate_tmp_sharp],
    [C07_rate_tmp_sharp_neighbours], [C07_rate_tm_no_ties]); the two coarse bounds below are
    kept as simple corollary-style statements. *)
Theorem C07_rate_tmf_partial : forall (Phi Phiinv : R -> R) (P : params R) (tau : R) (limit : bool)
    (teams : list (list (rating R))) (keys : option (list key)),
  (2 <= length teams)%nat -> 0 < p_beta P -> 0 < p_kappa P ->
  match keys with Some ks => length ks = length teams | None => True end ->
  Forall (fun t => t <> [] /\ Forall (fun p => 0 < r_sigma p * r_sigma p + tau * tau) t) teams ->
  0 <= Rsum (map (fun tr => Rsum (map (fun pr => r_mu (snd pr) - r_mu (fst pr)) (combine (fst tr) (snd tr)))
                            / Rsum (map (fun p => r_sigma p * r_sigma p + tau * tau) (fst tr)))
                 (combine teams (@rate_core R (RNum Phi Phiinv) TMF P tau limit teams keys)))
    <= INR (length teams) * (INR (length teams) - 1) * (p_kappa P / (2 * (p_beta P * p_beta P))).
Proof. intros Phi Phiinv; exact (C07L.rate_tm_coarse Phi Phiinv false). Qed.
Print Assumptions C07_rate_tmf_partial.

Theorem C07_rate_tmp_partial : forall (Phi Phiinv : R -> R) (P : params R) (tau : R) (limit : bool)
    (teams : list (list (rating R))) (keys : option (list key)),
  (2 <= length teams)%nat -> 0 < p_beta P -> 0 < p_kappa P ->
  match keys with Some ks => length ks = length teams | None => True end ->
  Forall (fun t => t <> [] /\ Forall (fun p => 0 < r_sigma p * r_sigma p + tau * tau) t) teams ->
  0 <= Rsum (map (fun tr => Rsum (map (fun pr => r_mu (snd pr) - r_mu (fst pr)) (combine (fst tr) (snd tr)))
                            / Rsum (map (fun p => r_sigma p * r_sigma p + tau * tau) (fst tr)))
                 (combine teams (@rate_core R (RNum Phi Phiinv) TMP P tau limit teams keys)))
    <= INR (length teams) * 2 * (p_kappa P / (8 * (p_beta P * p_beta P))).
Proof. intros Phi Phiinv; exact (C07L.rate_tm_coarse Phi Phiinv true). Qed.
Print Assumptions C07_rate_tmp_partial.

(** non-vacuity of the [rate_core]-level hypotheses (two one-player teams of equal variance,
    distinct mu, tied rank keys) *)
Example C07_rate_nonvacuous :
  let P := mkParams 4 (1 / 10000) (fun _ _ _ _ _ _ => 1) in
  let tau := 1 / 12 in
  let teams := [[mkRating 25 2 0 NmNone]; [mkRating 30 2 1 NmNone]] in
  let keys := Some [(1, 0)%Z; (1, 0)%Z] in
  (2 <= length teams)%nat /\ 0 < p_beta P /\ 0 < p_kappa P /\
  match keys with Some ks => length ks = length teams | None => True end /\
  Forall (fun t => t <> [] /\ Forall (fun p => 0 < r_sigma p * r_sigma p + tau * tau) t) teams /\
  NoDup (map (fun t => Rsum (map r_mu t)) teams) /\
  Forall (fun t => Rsum (map (fun p => r_sigma p * r_sigma p + tau * tau) t) = 2 * 2 + 1 / 12 * (1 / 12) + 0) teams.
Proof.
  cbn. split; [auto|]. split; [lra|]. split; [lra|]. split; [reflexivity|]. split; [|split].
  - repeat (constructor; try (split; [discriminate|])); cbn; lra.
  - constructor; [cbn; intros [H|[]]; lra|]. constructor; [intros []|constructor].
  - repeat constructor.
Qed.

(** ** Thurstone-Mosteller through [rate_core], SHARP: the draw-margin term per tied pair, in
    terms of the caller's own teams and rank keys.

    A game is the list of teams next to their rank keys ([key_of_nat 0, 1, ...] when no rank
    values are given); [rows l] lists every element of [l] with all the OTHER elements (the
    other positions), so the double sum below ranges over the ORDERED pairs (p, q) of distinct
    input positions; a pair contributes only if its keys are equal ([key_leb] both ways).
    Each ordered tied pair contributes kappa / c_pq^2, i.e. 2 kappa / c_pq^2 per unordered tied
    pair, with c_pq^2 = V_p + V_q + 2 beta^2 and V_t = the tau-inflated variance of team t
    (the sum over its members of sigma^2 + tau^2).  In the partial model the code's c is
    doubled (K1): c_pq^2 = 4 (V_p + V_q + 2 beta^2).  Domain: as in C01 (>= 2 non-empty teams,
    beta > 0, kappa > 0, sigma^2 + tau^2 > 0, as many well-formed keys as teams). *)
Theorem C07_rate_tmf_sharp : forall (Phi Phiinv : R -> R) (P : params R) (tau : R) (limit : bool)
    (teams : list (list (rating R))) (keys : option (list key)),
  (2 <= length teams)%nat -> 0 < p_beta P -> 0 < p_kappa P ->
  match keys with
  | Some ks => length ks = length teams /\ Forall (fun k : key => (0 <= snd k)%Z) ks
  | None => True
  end ->
  Forall (fun t => t <> [] /\ Forall (fun p => 0 < r_sigma p * r_sigma p + tau * tau) t) teams ->
  0 <= Rsum (map (fun tr => Rsum (map (fun pr => r_mu (snd pr) - r_mu (fst pr)) (combine (fst tr) (snd tr)))
                            / Rsum (map (fun p => r_sigma p * r_sigma p + tau * tau) (fst tr)))
                 (combine teams (@rate_core R (RNum Phi Phiinv) TMF P tau limit teams keys)))
    <= Rsum (map (fun io : (key * list (rating R)) * list (key * list (rating R)) =>
          Rsum (map (fun q : key * list (rating R) =>
             if key_leb (fst (fst io)) (fst q) && key_leb (fst q) (fst (fst io))
             then p_kappa P / (Rsum (map (fun p => r_sigma p * r_sigma p + tau * tau) (snd (fst io)))
                               + Rsum (map (fun p => r_sigma p * r_sigma p + tau * tau) (snd q))
                               + 2 * (p_beta P * p_beta P))
             else 0) (snd io)))
        (rows (combine (match keys with Some ks => ks | None => map key_of_nat (seq 0 (length teams)) end) teams))).
Proof. exact C07LiftL.rate_tmf_sharp. Qed.
Print Assumptions C07_rate_tmf_sharp.

(** partial model: bounded by ALL tied pairs (the model only visits neighbours, see the next
    theorem), with the doubled c of the code *)
Theorem C07_rate_tmp_sharp : forall (Phi Phiinv : R -> R) (P : params R) (tau : R) (limit : bool)
    (teams : list (list (rating R))) (keys : option (list key)),
  (2 <= length teams)%nat -> 0 < p_beta P -> 0 < p_kappa P ->
  match keys with
  | Some ks => length ks = length teams /\ Forall (fun k : key => (0 <= snd k)%Z) ks
  | None => True
  end ->
  Forall (fun t => t <> [] /\ Forall (fun p => 0 < r_sigma p * r_sigma p + tau * tau) t) teams ->
  0 <= Rsum (map (fun tr => Rsum (map (fun pr => r_mu (snd pr) - r_mu (fst pr)) (combine (fst tr) (snd tr)))
                            / Rsum (map (fun p => r_sigma p * r_sigma p + tau * tau) (fst tr)))
                 (combine teams (@rate_core R (RNum Phi Phiinv) TMP P tau limit teams keys)))
    <= Rsum (map (fun io : (key * list (rating R)) * list (key * list (rating R)) =>
          Rsum (map (fun q : key * list (rating R) =>
             if key_leb (fst (fst io)) (fst q) && key_leb (fst q) (fst (fst io))
             then p_kappa P / (4 * (Rsum (map (fun p => r_sigma p * r_sigma p + tau * tau) (snd (fst io)))
                                    + Rsum (map (fun p => r_sigma p * r_sigma p + tau * tau) (snd q))
                                    + 2 * (p_beta P * p_beta P)))
             else 0) (snd io)))
        (rows (combine (match keys with Some ks => ks | None => map key_of_nat (seq 0 (length teams)) end) teams))).
Proof. exact C07LiftL.rate_tmp_sharp. Qed.
Print Assumptions C07_rate_tmp_sharp.

(** partial model, sharp: only the tied pairs that are NEIGHBOURS in the stable order by rank
    key count ([isort key_leb ks] next to [fst (unwind key_leb ks teams)] is the game sorted
    stably by key, [ladder_pairs] lists the left and right neighbour of each element) *)
Theorem C07_rate_tmp_sharp_neighbours : forall (Phi Phiinv : R -> R) (P : params R) (tau : R) (limit : bool)
    (teams : list (list (rating R))) (ks : list key),
  (2 <= length teams)%nat -> 0 < p_beta P -> 0 < p_kappa P ->
  length ks = length teams -> Forall (fun k : key => (0 <= snd k)%Z) ks ->
  Forall (fun t => t <> [] /\ Forall (fun p => 0 < r_sigma p * r_sigma p + tau * tau) t) teams ->
  let sg := combine (isort key_leb ks) (fst (unwind key_leb ks teams)) in
  0 <= Rsum (map (fun tr => Rsum (map (fun pr => r_mu (snd pr) - r_mu (fst pr)) (combine (fst tr) (snd tr)))
                            / Rsum (map (fun p => r_sigma p * r_sigma p + tau * tau) (fst tr)))
                 (combine teams (@rate_core R (RNum Phi Phiinv) TMP P tau limit teams (Some ks))))
    <= Rsum (map (fun io : (key * list (rating R)) * list (key * list (rating R)) =>
          Rsum (map (fun q : key * list (rating R) =>
             if key_leb (fst (fst io)) (fst q) && key_leb (fst q) (fst (fst io))
             then p_kappa P / (4 * (Rsum (map (fun p => r_sigma p * r_sigma p + tau * tau) (snd (fst io)))
                                    + Rsum (map (fun p => r_sigma p * r_sigma p + tau * tau) (snd q))
                                    + 2 * (p_beta P * p_beta P)))
             else 0) (snd io)))
        (combine sg (ladder_pairs sg))).
Proof. exact C07LiftL.rate_tmp_neighbours. Qed.
Print Assumptions C07_rate_tmp_sharp_neighbours.

(** no two positions with equal keys: exactly zero, whatever the team mus are *)
Theorem C07_rate_tm_no_ties : forall (Phi Phiinv : R -> R) (k : kind) (P : params R) (tau : R) (limit : bool)
    (teams : list (list (rating R))) (ks : list key),
  k = TMF \/ k = TMP ->
  (2 <= length teams)%nat -> 0 < p_beta P -> 0 < p_kappa P ->
  length ks = length teams -> Forall (fun k : key => (0 <= snd k)%Z) ks ->
  Forall (fun t => t <> [] /\ Forall (fun p => 0 < r_sigma p * r_sigma p + tau * tau) t) teams ->
  (forall a b ka kb, a <> b -> nth_error ks a = Some ka -> nth_error ks b = Some kb ->
     key_leb ka kb && key_leb kb ka = false) ->
  Rsum (map (fun tr => Rsum (map (fun pr => r_mu (snd pr) - r_mu (fst pr)) (combine (fst tr) (snd tr)))
                       / Rsum (map (fun p => r_sigma p * r_sigma p + tau * tau) (fst tr)))
            (combine teams (@rate_core R (RNum Phi Phiinv) k P tau limit teams (Some ks)))) = 0.
Proof. intros Phi Phiinv k P tau limit teams ks [->| ->] Hn Hb Hk E W Hd NT; [apply (C07LiftL.rate_tm_no_ties Phi Phiinv false P tau limit teams (Some ks)) | apply (C07LiftL.rate_tm_no_ties Phi Phiinv true P tau limit teams (Some ks))]; auto; split; assumption. Qed.
Print Assumptions C07_rate_tm_no_ties.

(** no rank values given (the teams finish in input order, no ties): exactly zero *)
Theorem C07_rate_tm_none : forall (Phi Phiinv : R -> R) (k : kind) (P : params R) (tau : R) (limit : bool)
    (teams : list (list (rating R))),
  k = TMF \/ k = TMP ->
  (2 <= length teams)%nat -> 0 < p_beta P -> 0 < p_kappa P ->
  Forall (fun t => t <> [] /\ Forall (fun p => 0 < r_sigma p * r_sigma p + tau * tau) t) teams ->
  Rsum (map (fun tr => Rsum (map (fun pr => r_mu (snd pr) - r_mu (fst pr)) (combine (fst tr) (snd tr)))
                       / Rsum (map (fun p => r_sigma p * r_sigma p + tau * tau) (fst tr)))
            (combine teams (@rate_core R (RNum Phi Phiinv) k P tau limit teams None))) = 0.
Proof. intros Phi Phiinv k P tau limit teams [->| ->]; [exact (C07LiftL.rate_tm_none Phi Phiinv false P tau limit teams) | exact (C07LiftL.rate_tm_none Phi Phiinv true P tau limit teams)]. Qed.
Print Assumptions C07_rate_tm_none.

(** non-vacuity of the hypotheses of the sharp theorems, and the value of the bound on a
    concrete game: three one-player teams, the first two tied (keys 1, 1, 5/2): the only tied
    pair is {0, 1} and the bound is 2 kappa / (V_0 + V_1 + 2 beta^2) *)
Example C07_rate_sharp_nonvacuous :
  let P : params R := mkParams 4 (1 / 10000) (fun _ _ _ _ _ _ => 1) in
  let tau := 1 / 12 in
  let teams := [[mkRating 25 2 0 NmNone]; [mkRating 30 2 1 NmNone]; [mkRating 20 3 2 NmNone]] in
  let ks := [(1, 0)%Z; (1, 0)%Z; (5, 1)%Z] in
  (2 <= length teams)%nat /\ 0 < p_beta P /\ 0 < p_kappa P /\
  (length ks = length teams /\ Forall (fun k : key => (0 <= snd k)%Z) ks) /\
  Forall (fun t => t <> [] /\ Forall (fun p => 0 < r_sigma p * r_sigma p + tau * tau) t) teams /\
  Rsum (map (fun io : (key * list (rating R)) * list (key * list (rating R)) =>
          Rsum (map (fun q : key * list (rating R) =>
             if key_leb (fst (fst io)) (fst q) && key_leb (fst q) (fst (fst io))
             then p_kappa P / (Rsum (map (fun p => r_sigma p * r_sigma p + tau * tau) (snd (fst io)))
                               + Rsum (map (fun p => r_sigma p * r_sigma p + tau * tau) (snd q))
                               + 2 * (p_beta P * p_beta P))
             else 0) (snd io)))
        (rows (combine ks teams)))
  = 2 * (1 / 10000 / ((2 * 2 + 1 / 12 * (1 / 12)) + (2 * 2 + 1 / 12 * (1 / 12)) + 2 * (4 * 4))).
Proof.
  cbn -[Rdiv Rmult Rplus]. split; [auto|]. split; [lra|]. split; [lra|]. split; [|split].
  - split; [reflexivity|]. repeat constructor; cbn; discriminate.
  - repeat (constructor; try (split; [discriminate|])); cbn; lra.
  - unfold rows. cbn -[Rdiv Rmult Rplus]. lra.
Qed.

(** a game without ties satisfying the hypotheses of [C07_rate_tm_no_ties] (keys 2, 1, 7/2) *)
Example C07_rate_no_ties_nonvacuous :
  let ks := [(2, 0)%Z; (1, 0)%Z; (7, 1)%Z] in
  Forall (fun k : key => (0 <= snd k)%Z) ks /\
  (forall a b ka kb, a <> b -> nth_error ks a = Some ka -> nth_error ks b = Some kb ->
     key_leb ka kb && key_leb kb ka = false).
Proof.
  cbn. split; [repeat constructor; cbn; discriminate|].
  intros [|[|[|a]]] [|[|[|b]]] ka kb Hab Ea Eb; cbn in Ea, Eb; try congruence;
    try (destruct a; discriminate); try (destruct b; discriminate);
    injection Ea as <-; injection Eb as <-; reflexivity.
Qed.

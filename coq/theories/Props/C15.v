(** * C15: per-call tau / limit_sigma mean exactly what the model-level setting means.

    "A model constructed with tau = x" is the model state [set_f st ATau x]; "constructed
    with limit_sigma = b" is [set_limit st b] (all other attributes equal).  A numeric
    per-call tau is any [t] with [as_float t = Ok x] (an int, a float or a bool; [x] is the
    float the constructor's [float()] would store), for every [x], zero included: there is
    no condition on [x]. *)
From Coq Require Import List ZArith Bool.
From OSV Require Import Num Order Core PyVal Prog.
From OSV.Lemmas Require Import ProgL C15L.
Import ListNotations.

(** [rate(..., tau=t)] on a model  =  [rate(...)] on the same model constructed with tau = t:
    same result (ratings or exception); same effects up to the one extra read of [tau]
    (the traces are equal or differ by a leading [ERdF ATau]; equal once reads are filtered
    out); neither call changes its model *)
Theorem C15_tau : forall (F : Type) (N : Num F) k (teams ranks scores t limit : pyval F) st x,
  as_float t = Ok x ->
  snd (run (rate_prog k teams ranks scores PNone limit) (set_f st ATau x)) =
  snd (run (rate_prog k teams ranks scores t limit) st) /\
  (fst (fst (run (rate_prog k teams ranks scores PNone limit) (set_f st ATau x))) =
   fst (fst (run (rate_prog k teams ranks scores t limit) st)) \/
   fst (fst (run (rate_prog k teams ranks scores PNone limit) (set_f st ATau x))) =
   ERdF ATau :: fst (fst (run (rate_prog k teams ranks scores t limit) st))) /\
  filter (fun e => match e with ERdF _ | ERdLimit | ERdGamma => false | _ => true end)
         (fst (fst (run (rate_prog k teams ranks scores PNone limit) (set_f st ATau x)))) =
  filter (fun e => match e with ERdF _ | ERdLimit | ERdGamma => false | _ => true end)
         (fst (fst (run (rate_prog k teams ranks scores t limit) st))) /\
  snd (fst (run (rate_prog k teams ranks scores t limit) st)) = st /\
  snd (fst (run (rate_prog k teams ranks scores PNone limit) (set_f st ATau x))) = set_f st ATau x.
Proof. intros F N k teams ranks scores t limit st x Ht. exact (tau_equiv k teams ranks scores t limit st x Ht). Qed.
Print Assumptions C15_tau.

(** [rate(..., limit_sigma=b)]  =  [rate(...)] on the same model constructed with limit_sigma = b,
    for both booleans and whatever the per-call tau *)
Theorem C15_limit : forall (F : Type) (N : Num F) k (teams ranks scores tau : pyval F) (b : bool) st,
  snd (run (rate_prog k teams ranks scores tau PNone) (set_limit st b)) =
  snd (run (rate_prog k teams ranks scores tau (PBool b)) st) /\
  filter (fun e => match e with ERdF _ | ERdLimit | ERdGamma => false | _ => true end)
         (fst (fst (run (rate_prog k teams ranks scores tau PNone) (set_limit st b)))) =
  filter (fun e => match e with ERdF _ | ERdLimit | ERdGamma => false | _ => true end)
         (fst (fst (run (rate_prog k teams ranks scores tau (PBool b)) st))) /\
  snd (fst (run (rate_prog k teams ranks scores tau (PBool b)) st)) = st /\
  snd (fst (run (rate_prog k teams ranks scores tau PNone) (set_limit st b))) = set_limit st b.
Proof. intros F N k teams ranks scores tau b st. exact (limit_equiv k teams ranks scores tau b st). Qed.
Print Assumptions C15_limit.

(** both arguments at once *)
Theorem C15_tau_and_limit : forall (F : Type) (N : Num F) k (teams ranks scores t : pyval F) (b : bool) st x,
  as_float t = Ok x ->
  snd (run (rate_prog k teams ranks scores PNone PNone) (set_limit (set_f st ATau x) b)) =
  snd (run (rate_prog k teams ranks scores t (PBool b)) st).
Proof. exact (@both_equiv). Qed.
Print Assumptions C15_tau_and_limit.

(** omitting the arguments uses the model's own settings: the result is the value-level
    core applied to the model's tau and limit_sigma, and both attributes are read *)
Theorem C15_omitted : forall (F : Type) (N : Num F) k (teams ranks scores : pyval F) st,
  snd (run (rate_prog k teams ranks scores PNone PNone) st) =
  rbind (validate_rate k teams ranks scores) (fun tk =>
    Ok (rate_core k (params_of st) (m_tau st) (m_limit st) (fst tk) (snd tk))) /\
  (forall r, snd (run (rate_prog k teams ranks scores PNone PNone) st) = Ok r ->
     In (ERdF ATau) (fst (fst (run (rate_prog k teams ranks scores PNone PNone) st))) /\
     In ERdLimit (fst (fst (run (rate_prog k teams ranks scores PNone PNone) st)))).
Proof. intros; split; [apply omitted|intros r; apply omitted_reads]. Qed.
Print Assumptions C15_omitted.

(** the general form: which tau and which limit_sigma a call uses *)
Theorem C15_resolution : forall (F : Type) (N : Num F) k (teams ranks scores tau limit : pyval F) st,
  snd (run (rate_prog k teams ranks scores tau limit) st) =
  rbind (validate_rate k teams ranks scores) (fun tk =>
  rbind (match tau with PNone => Ok (m_tau st) | v => as_float v end) (fun t =>
  Ok (rate_core k (params_of st) t
        (match limit with PNone => m_limit st | v => truthy v end) (fst tk) (snd tk)))).
Proof. exact (@rate_semantics). Qed.
Print Assumptions C15_resolution.

(** ** non-vacuity (concrete carrier [ZNum] of Lemmas/ProgL.v): tau = 0 on a model whose tau is 10
    is NOT ignored (the result differs from the call without the argument) and equals the
    result of the model constructed with tau = 0; same for limit_sigma *)
Example C15_tau_ex :
  @as_float Z ZNum (PInt 0) = Ok 0%Z /\
  snd (@run Z _ (@rate_prog Z ZNum PL (ex_teams PL) ex_ranks PNone (PInt 0) PNone) (set_f ex_state ATau 10%Z)) =
  snd (@run Z _ (@rate_prog Z ZNum PL (ex_teams PL) ex_ranks PNone PNone PNone) (set_f (set_f ex_state ATau 10%Z) ATau 0%Z)) /\
  snd (@run Z _ (@rate_prog Z ZNum PL (ex_teams PL) ex_ranks PNone (PInt 0) PNone) (set_f ex_state ATau 10%Z)) <>
  snd (@run Z _ (@rate_prog Z ZNum PL (ex_teams PL) ex_ranks PNone PNone PNone) (set_f ex_state ATau 10%Z)).
Proof. repeat split; try reflexivity. vm_compute. discriminate. Qed.

Example C15_limit_ex :
  snd (@run Z _ (@rate_prog Z ZNum PL (ex_teams PL) ex_ranks PNone (PInt 5) (PBool true)) ex_state) =
  snd (@run Z _ (@rate_prog Z ZNum PL (ex_teams PL) ex_ranks PNone (PInt 5) PNone) (set_limit ex_state true)) /\
  snd (@run Z _ (@rate_prog Z ZNum PL (ex_teams PL) ex_ranks PNone (PInt 5) (PBool true)) ex_state) <>
  snd (@run Z _ (@rate_prog Z ZNum PL (ex_teams PL) ex_ranks PNone (PInt 5) PNone) ex_state).
Proof. repeat split; try reflexivity. vm_compute. discriminate. Qed.

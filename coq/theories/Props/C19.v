(** * C19: the five models differ only in their update rule.

    In the model the class of a rating object is the tag [k] of [PRating k r]
    and the class of a model object is the [kind] argument of each operation.
    [C19L.swap k k'] exchanges two classes; [C19L.retag f v] renames the class of
    every rating object inside the Python value [v] (foreign objects stay
    foreign because the renaming is injective).

    [deepcopy], [hash_key], [model_rating], [ordinal], [new_rating] take no
    [kind] argument at all in the model (there is one definition for the five
    classes), so for them there is nothing to state beyond their types; that the
    five Python classes all follow this single definition is decided by the
    correspondence check, not here. *)
From Coq Require Import List ZArith Bool.
From OSV Require Import Num Order Core Predict PyVal Prog RatingOps.
From OSV.Lemmas Require C19L.
Import ListNotations.

(** ** Bradley-Terry partial pairing = full pairing on two teams *)
Theorem C19_btp_eq_btf_two_teams : forall (F : Type) (N : Num F) (P : params F) (a b : trating F),
  compute BTP P [a; b] = compute BTF P [a; b].
Proof. exact (@C19L.compute_btp_btf_two). Qed.
Print Assumptions C19_btp_eq_btf_two_teams.

(** no premise on [keys]: also with rank/score keys (of whatever length) *)
Theorem C19_btp_eq_btf_rate_core : forall (F : Type) (N : Num F) (P : params F) (tau : F)
    (lim : bool) (teams : list (list (rating F))) (keys : option (list key)),
  length teams = 2 ->
  rate_core BTP P tau lim teams keys = rate_core BTF P tau lim teams keys.
Proof. intros F N P tau lim teams keys H; apply C19L.rate_core_btp_btf; rewrite H; apply le_n. Qed.
Print Assumptions C19_btp_eq_btf_rate_core.

Example C19_btp_eq_btf_rate_core_nonvacuous :
  length [[mkRating 25 8 1 NmNone]; [mkRating 30 7 2 NmNone; mkRating 20 9 3 NmNone]]%Z = 2.
Proof. reflexivity. Qed.

(** the whole call: same trace of attribute reads and rating writes, same final
    model state, same result or same exception, from every model state *)
Theorem C19_btp_eq_btf_rate_prog : forall (F : Type) (N : Num F)
    (t1 t2 ranks scores tau limit : pyval F) (st : mstate F),
  run (rate_prog BTP (C19L.retag (C19L.swap BTF BTP) (PList [t1; t2])) ranks scores tau limit) st
  = run (rate_prog BTF (PList [t1; t2]) ranks scores tau limit) st.
Proof. exact (@C19L.rate_prog_btp_btf). Qed.
Print Assumptions C19_btp_eq_btf_rate_prog.

(** ** acceptance / rejection and exception class do not depend on the model *)
Theorem C19_validate_kind_independent : forall (F : Type) (N : Num F) (f : kind -> kind),
  (forall a b, f a = f b -> a = b) ->
  forall (k : kind) (teams ranks scores : pyval F),
  validate_rate (f k) (C19L.retag f teams) ranks scores = validate_rate k teams ranks scores.
Proof. intros F N; exact (@C19L.validate_rate_retag F). Qed.
Print Assumptions C19_validate_kind_independent.

Example C19_swap_injective : forall k k' a b, C19L.swap k k' a = C19L.swap k k' b -> a = b.
Proof. exact C19L.swap_inj. Qed.

Theorem C19_validate_swap : forall (F : Type) (N : Num F) (k k' : kind)
    (teams ranks scores : pyval F),
  validate_rate k' (C19L.retag (C19L.swap k k') teams) ranks scores
  = validate_rate k teams ranks scores.
Proof. intros F N; exact (@C19L.validate_rate_swap F). Qed.
Print Assumptions C19_validate_swap.

(** the predict programs are the SAME programs (hence same reads, same result,
    same exception from every state) *)
Theorem C19_predict_kind_independent : forall (F : Type) (N : Num F) (f : kind -> kind),
  (forall a b, f a = f b -> a = b) ->
  forall (k : kind) (teams : pyval F),
  predict_win_prog (f k) (C19L.retag f teams) = predict_win_prog k teams /\
  predict_draw_prog (f k) (C19L.retag f teams) = predict_draw_prog k teams /\
  predict_rank_prog (f k) (C19L.retag f teams) = predict_rank_prog k teams.
Proof. exact (@C19L.predict_progs_retag). Qed.
Print Assumptions C19_predict_kind_independent.

Theorem C19_predict_swap : forall (F : Type) (N : Num F) (k k' : kind) (teams : pyval F)
    (st : mstate F),
  run (predict_win_prog k' (C19L.retag (C19L.swap k k') teams)) st
    = run (predict_win_prog k teams) st /\
  run (predict_draw_prog k' (C19L.retag (C19L.swap k k') teams)) st
    = run (predict_draw_prog k teams) st /\
  run (predict_rank_prog k' (C19L.retag (C19L.swap k k') teams)) st
    = run (predict_rank_prog k teams) st.
Proof. exact (@C19L.predict_runs_swap). Qed.
Print Assumptions C19_predict_swap.

(** ratings with the same (mu, sigma) values, of whatever classes, ids, names:
    identical predictions from the same model state *)
Theorem C19_predict_same_values : forall (F : Type) (N : Num F) (k k' : kind) (v v' : pyval F)
    (tms tms' : list (list (rating F))),
  check_teams k v = Ok tms -> check_teams k' v' = Ok tms' ->
  map (map (fun r => (r_mu r, r_sigma r))) tms = map (map (fun r => (r_mu r, r_sigma r))) tms' ->
  forall st : mstate F,
  run (predict_win_prog k v) st = run (predict_win_prog k' v') st /\
  run (predict_draw_prog k v) st = run (predict_draw_prog k' v') st /\
  run (predict_rank_prog k v) st = run (predict_rank_prog k' v') st.
Proof. exact (@C19L.predict_values). Qed.
Print Assumptions C19_predict_same_values.

Example C19_predict_same_values_nonvacuous :
  exists tms tms',
    check_teams PL (PList [PList [PRating PL (mkRating 25 8 1 NmNone)];
                           PList [PRating PL (mkRating 30 7 2 NmNone)]])%Z = Ok tms /\
    check_teams TMP (PList [PList [PRating TMP (mkRating 25 8 7 (NmStr true 5))];
                            PList [PRating TMP (mkRating 30 7 9 NmNone)]])%Z = Ok tms' /\
    map (map (fun r => (r_mu r, r_sigma r))) tms = map (map (fun r => (r_mu r, r_sigma r))) tms'.
Proof. eexists. eexists. repeat split. Qed.

(** ** rating objects of the five classes compare by the same rule *)
Theorem C19_rating_compare_kind_independent : forall (F : Type) (N : Num F) (f : kind -> kind),
  (forall a b, f a = f b -> a = b) ->
  forall (op : cmpop) (k : kind) (a : rating F) (other : pyval F),
  rating_compare op (f k) a (C19L.retag f other) = rating_compare op k a other.
Proof. exact (@C19L.rating_compare_retag). Qed.
Print Assumptions C19_rating_compare_kind_independent.

Theorem C19_rating_compare_swap : forall (F : Type) (N : Num F) (op : cmpop) (k k' : kind)
    (a : rating F) (other : pyval F),
  rating_compare op k' a (C19L.retag (C19L.swap k k') other) = rating_compare op k a other.
Proof. exact (@C19L.rating_compare_swap). Qed.
Print Assumptions C19_rating_compare_swap.

(** [create_rating] of any class accepts/rejects the same arguments and builds the same rating *)
Theorem C19_create_rating_kind_independent : forall (F : Type) (N : Num F) (f : kind -> kind)
    (k k' : kind) (v : pyval F) (nm : name) (fresh : Z),
  create_rating k' v nm fresh = create_rating k v nm fresh /\
  create_rating k' (C19L.retag f v) nm fresh = create_rating k v nm fresh.
Proof. intros; split; [apply C19L.create_rating_kind|apply C19L.create_rating_retag]. Qed.
Print Assumptions C19_create_rating_kind_independent.

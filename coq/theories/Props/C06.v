(** * C06: sigma stays positive, grows by at most tau per game, and limit_sigma caps it.

    All statements are over the reals, on the model instantiated with [RNum Phi Phiinv].
    The Thurstone-Mosteller kinds need the range of the correction W (from [gf_mills] and
    [gf_sampford]); hence a [GaussFacts Phi Phiinv] premise for "all kinds", and separate
    [_PL_BT] statements, without that premise, for Plackett-Luce and Bradley-Terry.

    Non-vacuity: the [GaussFacts] premise is instantiated: [GaussInst.PhiK] is the standard
    normal distribution function constructed in GaussInst.v, [GaussInst.PhiinvK] its inverse,
    and [GaussFull.GaussFacts_inst : GaussFacts GaussInst.PhiK GaussInst.PhiinvK] is proved
    without hypothesis (calculus facts in GaussCalc.v, the value of the Gaussian integral in
    GaussIntegral.v).  Every theorem with a [GaussFacts] premise has an [_inst] corollary at
    the end of the file, stated for [GaussInst.PhiK] / [GaussInst.PhiinvK] with that premise
    removed: nothing about the normal distribution is assumed any more; the only remaining
    link is that CPython's NormalDist computes this function.  The examples below instantiate
    the [_PL_BT] statements (where [Phi], [Phiinv] are arbitrary) on a concrete valid game,
    and show that the league fold really plays a concrete game ([game_ok] = true).

    Edge of the property text made precise by the statements: with limit_sigma in force and
    a prior sigma of exactly 0 (valid when tau > 0) the clamp returns sigma' = 0, so strict
    positivity is claimed for [limit = false \/ 0 < sigma] only ([C06_limit]: then
    0 <= sigma' <= sigma = 0).  With kappa = 0 only sigma' >= 0 holds ([C06_step_kappa0]).

    The league ([C06L.game], [C06L.play], [C06L.run]): a state is the list of the players'
    ratings; a game lists its teams by player indices, with its keys, effective tau and
    effective limit_sigma; [play] extracts the ratings, runs [rate_core] and writes the results
    back; a game that is not valid in the current state ([C06L.game_ok]: >= 2 teams, non-empty
    teams, indices in range and distinct, tau >= 0, sigma >= 0 with sigma^2 + tau^2 > 0, keys
    of the right length) is skipped.  [C06L.plays i g] = player [i] is listed in game [g]. *)
From Coq Require Import List ZArith Bool Reals Lra.
From OSV Require Import Num Order Core RInst.
From OSV.Lemmas Require C06L.
From OSV Require GaussInst GaussFull.
Import ListNotations.
Open Scope R_scope.

(** after [rate], every sigma is >= 0 and at most sqrt(sigma^2 + tau^2); it is > 0 unless limit_sigma clamps it to a prior sigma of 0 *)
Theorem C06_step :
  forall (Phi Phiinv : R -> R), GaussFacts Phi Phiinv ->
  forall (k : kind) (P : params R) (tau : R) (limit : bool)
         (teams : list (list (rating R))) (keys : option (list key)),
  (2 <= length teams)%nat ->
  Forall (fun t : list (rating R) => t <> []) teams ->
  0 < p_beta P -> 0 < p_kappa P <= 1 -> 0 <= tau ->
  Forall (Forall (fun p : rating R => 0 <= r_sigma p /\ 0 < r_sigma p * r_sigma p + tau * tau)) teams ->
  (forall (c : R) (n : nat) (mu ss : R) (team : list (rating R)) (rank : nat),
     0 <= p_gamma P c n mu ss team rank) ->
  match keys with Some ks => length ks = length teams | None => True end ->
  Forall2 (Forall2 (fun p r : rating R =>
      0 <= r_sigma r <= sqrt (r_sigma p * r_sigma p + tau * tau) /\
      (limit = false \/ 0 < r_sigma p -> 0 < r_sigma r)))
    teams (@rate_core R (RNum Phi Phiinv) k P tau limit teams keys).
Proof. exact C06L.C06_step_thm. Qed.
Print Assumptions C06_step.

(** the same for PL and BT, no Gaussian premise *)
Theorem C06_step_PL_BT :
  forall (Phi Phiinv : R -> R) (k : kind), k = PL \/ k = BTF \/ k = BTP ->
  forall (P : params R) (tau : R) (limit : bool)
         (teams : list (list (rating R))) (keys : option (list key)),
  (2 <= length teams)%nat ->
  Forall (fun t : list (rating R) => t <> []) teams ->
  0 < p_beta P -> 0 < p_kappa P <= 1 -> 0 <= tau ->
  Forall (Forall (fun p : rating R => 0 <= r_sigma p /\ 0 < r_sigma p * r_sigma p + tau * tau)) teams ->
  (forall (c : R) (n : nat) (mu ss : R) (team : list (rating R)) (rank : nat),
     0 <= p_gamma P c n mu ss team rank) ->
  match keys with Some ks => length ks = length teams | None => True end ->
  Forall2 (Forall2 (fun p r : rating R =>
      0 <= r_sigma r <= sqrt (r_sigma p * r_sigma p + tau * tau) /\
      (limit = false \/ 0 < r_sigma p -> 0 < r_sigma r)))
    teams (@rate_core R (RNum Phi Phiinv) k P tau limit teams keys).
Proof. exact C06L.C06_step_PL_BT_thm. Qed.
Print Assumptions C06_step_PL_BT.

(** kappa = 0: sigma' >= 0 only (the floor 0 can be reached), same upper bounds *)
Theorem C06_step_kappa0 :
  forall (Phi Phiinv : R -> R), GaussFacts Phi Phiinv ->
  forall (k : kind) (P : params R) (tau : R) (limit : bool)
         (teams : list (list (rating R))) (keys : option (list key)),
  (2 <= length teams)%nat ->
  Forall (fun t : list (rating R) => t <> []) teams ->
  0 < p_beta P -> p_kappa P = 0 -> 0 <= tau ->
  Forall (Forall (fun p : rating R => 0 <= r_sigma p /\ 0 < r_sigma p * r_sigma p + tau * tau)) teams ->
  (forall (c : R) (n : nat) (mu ss : R) (team : list (rating R)) (rank : nat),
     0 <= p_gamma P c n mu ss team rank) ->
  match keys with Some ks => length ks = length teams | None => True end ->
  Forall2 (Forall2 (fun p r : rating R =>
      0 <= r_sigma r <= sqrt (r_sigma p * r_sigma p + tau * tau) /\
      (limit = true -> r_sigma r <= r_sigma p)))
    teams (@rate_core R (RNum Phi Phiinv) k P tau limit teams keys).
Proof. exact C06L.C06_step_kappa0_thm. Qed.
Print Assumptions C06_step_kappa0.

(** the same for PL and BT *)
Theorem C06_step_kappa0_PL_BT :
  forall (Phi Phiinv : R -> R) (k : kind), k = PL \/ k = BTF \/ k = BTP ->
  forall (P : params R) (tau : R) (limit : bool)
         (teams : list (list (rating R))) (keys : option (list key)),
  (2 <= length teams)%nat ->
  Forall (fun t : list (rating R) => t <> []) teams ->
  0 < p_beta P -> p_kappa P = 0 -> 0 <= tau ->
  Forall (Forall (fun p : rating R => 0 <= r_sigma p /\ 0 < r_sigma p * r_sigma p + tau * tau)) teams ->
  (forall (c : R) (n : nat) (mu ss : R) (team : list (rating R)) (rank : nat),
     0 <= p_gamma P c n mu ss team rank) ->
  match keys with Some ks => length ks = length teams | None => True end ->
  Forall2 (Forall2 (fun p r : rating R =>
      0 <= r_sigma r <= sqrt (r_sigma p * r_sigma p + tau * tau) /\
      (limit = true -> r_sigma r <= r_sigma p)))
    teams (@rate_core R (RNum Phi Phiinv) k P tau limit teams keys).
Proof. exact C06L.C06_step_kappa0_PL_BT_thm. Qed.
Print Assumptions C06_step_kappa0_PL_BT.

(** limit_sigma in force: sigma' <= prior sigma, and sigma' > 0 when the prior sigma is > 0 *)
Theorem C06_limit :
  forall (Phi Phiinv : R -> R), GaussFacts Phi Phiinv ->
  forall (k : kind) (P : params R) (tau : R)
         (teams : list (list (rating R))) (keys : option (list key)),
  (2 <= length teams)%nat ->
  Forall (fun t : list (rating R) => t <> []) teams ->
  0 < p_beta P -> 0 < p_kappa P <= 1 -> 0 <= tau ->
  Forall (Forall (fun p : rating R => 0 <= r_sigma p /\ 0 < r_sigma p * r_sigma p + tau * tau)) teams ->
  (forall (c : R) (n : nat) (mu ss : R) (team : list (rating R)) (rank : nat),
     0 <= p_gamma P c n mu ss team rank) ->
  match keys with Some ks => length ks = length teams | None => True end ->
  Forall2 (Forall2 (fun p r : rating R =>
      0 <= r_sigma r <= r_sigma p /\ (0 < r_sigma p -> 0 < r_sigma r)))
    teams (@rate_core R (RNum Phi Phiinv) k P tau true teams keys).
Proof. exact C06L.C06_limit_thm. Qed.
Print Assumptions C06_limit.

(** the same for PL and BT *)
Theorem C06_limit_PL_BT :
  forall (Phi Phiinv : R -> R) (k : kind), k = PL \/ k = BTF \/ k = BTP ->
  forall (P : params R) (tau : R)
         (teams : list (list (rating R))) (keys : option (list key)),
  (2 <= length teams)%nat ->
  Forall (fun t : list (rating R) => t <> []) teams ->
  0 < p_beta P -> 0 < p_kappa P <= 1 -> 0 <= tau ->
  Forall (Forall (fun p : rating R => 0 <= r_sigma p /\ 0 < r_sigma p * r_sigma p + tau * tau)) teams ->
  (forall (c : R) (n : nat) (mu ss : R) (team : list (rating R)) (rank : nat),
     0 <= p_gamma P c n mu ss team rank) ->
  match keys with Some ks => length ks = length teams | None => True end ->
  Forall2 (Forall2 (fun p r : rating R =>
      0 <= r_sigma r <= r_sigma p /\ (0 < r_sigma p -> 0 < r_sigma r)))
    teams (@rate_core R (RNum Phi Phiinv) k P tau true teams keys).
Proof. exact C06L.C06_limit_PL_BT_thm. Qed.
Print Assumptions C06_limit_PL_BT.

(** one game of a league, for any player index i (in the game or not, game valid or skipped) *)
Theorem C06_history_step :
  forall (Phi Phiinv : R -> R), GaussFacts Phi Phiinv ->
  forall (k : kind) (P : params R),
  0 < p_beta P -> 0 <= p_kappa P <= 1 ->
  (forall (c : R) (n : nat) (mu ss : R) (team : list (rating R)) (rank : nat),
     0 <= p_gamma P c n mu ss team rank) ->
  forall (g : C06L.game) (st : list (rating R)) (i : nat),
  ((C06L.plays i g = true -> C06L.g_limit g = true) ->
     r_sigma (C06L.get (C06L.play Phi Phiinv P k st g) i) <= r_sigma (C06L.get st i))
  /\ r_sigma (C06L.get (C06L.play Phi Phiinv P k st g) i) * r_sigma (C06L.get (C06L.play Phi Phiinv P k st g) i)
     <= r_sigma (C06L.get st i) * r_sigma (C06L.get st i)
        + (if C06L.plays i g then C06L.g_tau g * C06L.g_tau g else 0)
  /\ (0 < p_kappa P -> 0 < r_sigma (C06L.get st i) ->
      0 < r_sigma (C06L.get (C06L.play Phi Phiinv P k st g) i)).
Proof. exact C06L.C06_history_step_thm. Qed.
Print Assumptions C06_history_step.

(** the same for PL and BT *)
Theorem C06_history_step_PL_BT :
  forall (Phi Phiinv : R -> R) (k : kind), k = PL \/ k = BTF \/ k = BTP ->
  forall (P : params R),
  0 < p_beta P -> 0 <= p_kappa P <= 1 ->
  (forall (c : R) (n : nat) (mu ss : R) (team : list (rating R)) (rank : nat),
     0 <= p_gamma P c n mu ss team rank) ->
  forall (g : C06L.game) (st : list (rating R)) (i : nat),
  ((C06L.plays i g = true -> C06L.g_limit g = true) ->
     r_sigma (C06L.get (C06L.play Phi Phiinv P k st g) i) <= r_sigma (C06L.get st i))
  /\ r_sigma (C06L.get (C06L.play Phi Phiinv P k st g) i) * r_sigma (C06L.get (C06L.play Phi Phiinv P k st g) i)
     <= r_sigma (C06L.get st i) * r_sigma (C06L.get st i)
        + (if C06L.plays i g then C06L.g_tau g * C06L.g_tau g else 0)
  /\ (0 < p_kappa P -> 0 < r_sigma (C06L.get st i) ->
      0 < r_sigma (C06L.get (C06L.play Phi Phiinv P k st g) i)).
Proof. exact C06L.C06_history_step_PL_BT_thm. Qed.
Print Assumptions C06_history_step_PL_BT.

(** any history [gs] from any state [st], any player [i]:
    (a) if limit_sigma is in force in every game that lists the player, sigma does not increase;
    (b) sigma_n^2 <= sigma_0^2 + the sum of tau_g^2 over the games g that list the player;
    (c) kappa > 0: a positive sigma stays positive *)
Theorem C06_history :
  forall (Phi Phiinv : R -> R), GaussFacts Phi Phiinv ->
  forall (k : kind) (P : params R),
  0 < p_beta P -> 0 <= p_kappa P <= 1 ->
  (forall (c : R) (n : nat) (mu ss : R) (team : list (rating R)) (rank : nat),
     0 <= p_gamma P c n mu ss team rank) ->
  forall (gs : list C06L.game) (st : list (rating R)) (i : nat),
  ((forall g : C06L.game, In g gs -> C06L.plays i g = true -> C06L.g_limit g = true) ->
     r_sigma (C06L.get (C06L.run Phi Phiinv P k st gs) i) <= r_sigma (C06L.get st i))
  /\ r_sigma (C06L.get (C06L.run Phi Phiinv P k st gs) i) * r_sigma (C06L.get (C06L.run Phi Phiinv P k st gs) i)
     <= r_sigma (C06L.get st i) * r_sigma (C06L.get st i)
        + Rsum (map (fun g : C06L.game => if C06L.plays i g then C06L.g_tau g * C06L.g_tau g else 0) gs)
  /\ (0 < p_kappa P -> 0 < r_sigma (C06L.get st i) ->
      0 < r_sigma (C06L.get (C06L.run Phi Phiinv P k st gs) i)).
Proof. exact C06L.C06_history_thm. Qed.
Print Assumptions C06_history.

(** the same for PL and BT *)
Theorem C06_history_PL_BT :
  forall (Phi Phiinv : R -> R) (k : kind), k = PL \/ k = BTF \/ k = BTP ->
  forall (P : params R),
  0 < p_beta P -> 0 <= p_kappa P <= 1 ->
  (forall (c : R) (n : nat) (mu ss : R) (team : list (rating R)) (rank : nat),
     0 <= p_gamma P c n mu ss team rank) ->
  forall (gs : list C06L.game) (st : list (rating R)) (i : nat),
  ((forall g : C06L.game, In g gs -> C06L.plays i g = true -> C06L.g_limit g = true) ->
     r_sigma (C06L.get (C06L.run Phi Phiinv P k st gs) i) <= r_sigma (C06L.get st i))
  /\ r_sigma (C06L.get (C06L.run Phi Phiinv P k st gs) i) * r_sigma (C06L.get (C06L.run Phi Phiinv P k st gs) i)
     <= r_sigma (C06L.get st i) * r_sigma (C06L.get st i)
        + Rsum (map (fun g : C06L.game => if C06L.plays i g then C06L.g_tau g * C06L.g_tau g else 0) gs)
  /\ (0 < p_kappa P -> 0 < r_sigma (C06L.get st i) ->
      0 < r_sigma (C06L.get (C06L.run Phi Phiinv P k st gs) i)).
Proof. exact C06L.C06_history_PL_BT_thm. Qed.
Print Assumptions C06_history_PL_BT.

(** ** Non-vacuity: a concrete valid game (two teams, one player with prior sigma 0, tau = 1,
    limit_sigma on, ranks given) satisfies the hypotheses of the [_PL_BT] statements;
    [Phi], [Phiinv] are arbitrary there. *)
Example C06_step_PL_BT_example :
  let P := @mkParams R 4 (/ 10000) (fun _ _ _ _ _ _ => 1) in
  let a := @mkRating R 25 8 1%Z NmNone in
  let b := @mkRating R 30 0 2%Z NmNone in
  let c := @mkRating R 20 3 3%Z NmNone in
  Forall2 (Forall2 (fun p r : rating R =>
      0 <= r_sigma r <= sqrt (r_sigma p * r_sigma p + 1 * 1) /\
      (true = false \/ 0 < r_sigma p -> 0 < r_sigma r)))
    [[a; b]; [c]]
    (@rate_core R (RNum (fun _ => 0) (fun _ => 0)) PL P 1 true [[a; b]; [c]] (Some [(2, 0)%Z; (1, 0)%Z])).
Proof.
  intros P a b c.
  apply (C06_step_PL_BT (fun _ => 0) (fun _ => 0) PL (or_introl eq_refl) P 1 true).
  - cbn. repeat constructor.
  - repeat (apply Forall_cons || apply Forall_nil); discriminate.
  - cbn. lra.
  - cbn. lra.
  - lra.
  - repeat (apply Forall_cons || apply Forall_nil); cbn; lra.
  - intros. cbn. lra.
  - reflexivity.
Qed.

Example C06_step_kappa0_PL_BT_example :
  let P := @mkParams R 4 (0) (fun _ _ _ _ _ _ => 1) in
  let a := @mkRating R 25 8 1%Z NmNone in
  let b := @mkRating R 30 0 2%Z NmNone in
  let c := @mkRating R 20 3 3%Z NmNone in
  Forall2 (Forall2 (fun p r : rating R =>
      0 <= r_sigma r <= sqrt (r_sigma p * r_sigma p + 1 * 1) /\
      (true = true -> r_sigma r <= r_sigma p)))
    [[a; b]; [c]]
    (@rate_core R (RNum (fun _ => 0) (fun _ => 0)) PL P 1 true [[a; b]; [c]] (Some [(2, 0)%Z; (1, 0)%Z])).
Proof.
  intros P a b c.
  apply (C06_step_kappa0_PL_BT (fun _ => 0) (fun _ => 0) PL (or_introl eq_refl) P 1 true).
  - cbn. repeat constructor.
  - repeat (apply Forall_cons || apply Forall_nil); discriminate.
  - cbn. lra.
  - reflexivity.
  - lra.
  - repeat (apply Forall_cons || apply Forall_nil); cbn; lra.
  - intros. cbn. lra.
  - reflexivity.
Qed.

Example C06_limit_PL_BT_example :
  let P := @mkParams R 4 (/ 10000) (fun _ _ _ _ _ _ => 1) in
  let a := @mkRating R 25 8 1%Z NmNone in
  let b := @mkRating R 30 0 2%Z NmNone in
  let c := @mkRating R 20 3 3%Z NmNone in
  Forall2 (Forall2 (fun p r : rating R =>
      0 <= r_sigma r <= r_sigma p /\ (0 < r_sigma p -> 0 < r_sigma r)))
    [[a; b]; [c]]
    (@rate_core R (RNum (fun _ => 0) (fun _ => 0)) PL P 1 true [[a; b]; [c]] (Some [(2, 0)%Z; (1, 0)%Z])).
Proof.
  intros P a b c.
  apply (C06_limit_PL_BT (fun _ => 0) (fun _ => 0) PL (or_introl eq_refl) P 1).
  - cbn. repeat constructor.
  - repeat (apply Forall_cons || apply Forall_nil); discriminate.
  - cbn. lra.
  - cbn. lra.
  - lra.
  - repeat (apply Forall_cons || apply Forall_nil); cbn; lra.
  - intros. cbn. lra.
  - reflexivity.
Qed.

(** the league fold does play this game (it is valid in the state [a; b; c]), and the
    model hypotheses of [C06_history_PL_BT] are those of the examples above *)
Example C06_league_game_ok_example :
  let a := @mkRating R 25 8 1%Z NmNone in
  let b := @mkRating R 30 0 2%Z NmNone in
  let c := @mkRating R 20 3 3%Z NmNone in
  C06L.game_ok [a; b; c]
    (C06L.mkGame [[0%nat; 1%nat]; [2%nat]] (Some [(2, 0)%Z; (1, 0)%Z]) 1 true) = true.
Proof.
  intros a b c. unfold C06L.game_ok. cbn -[Rleb Rltb].
  repeat (rewrite (proj2 (Rleb_true _ _)) by lra).
  repeat (rewrite (proj2 (Rltb_true _ _)) by lra).
  reflexivity.
Qed.

(** ** The [GaussFacts] premise instantiated.

    Each theorem above that takes [GaussFacts Phi Phiinv] as a premise is restated here for
    the concrete standard normal distribution function [GaussInst.PhiK] and its inverse
    [GaussInst.PhiinvK] (constructed in GaussInst.v), with no premise about the normal law:
    [GaussFull.GaussFacts_inst : GaussFacts GaussInst.PhiK GaussInst.PhiinvK] is proved
    outright (calculus facts in GaussCalc.v, the Gaussian integral in GaussIntegral.v). *)
Theorem C06_step_inst :
  forall (k : kind) (P : params R) (tau : R) (limit : bool)
         (teams : list (list (rating R))) (keys : option (list key)),
  (2 <= length teams)%nat ->
  Forall (fun t : list (rating R) => t <> []) teams ->
  0 < p_beta P -> 0 < p_kappa P <= 1 -> 0 <= tau ->
  Forall (Forall (fun p : rating R => 0 <= r_sigma p /\ 0 < r_sigma p * r_sigma p + tau * tau)) teams ->
  (forall (c : R) (n : nat) (mu ss : R) (team : list (rating R)) (rank : nat),
     0 <= p_gamma P c n mu ss team rank) ->
  match keys with Some ks => length ks = length teams | None => True end ->
  Forall2 (Forall2 (fun p r : rating R =>
      0 <= r_sigma r <= sqrt (r_sigma p * r_sigma p + tau * tau) /\
      (limit = false \/ 0 < r_sigma p -> 0 < r_sigma r)))
    teams (@rate_core R (RNum GaussInst.PhiK GaussInst.PhiinvK) k P tau limit teams keys).
Proof. exact (C06_step GaussInst.PhiK GaussInst.PhiinvK GaussFull.GaussFacts_inst). Qed.
Print Assumptions C06_step_inst.

Theorem C06_step_kappa0_inst :
  forall (k : kind) (P : params R) (tau : R) (limit : bool)
         (teams : list (list (rating R))) (keys : option (list key)),
  (2 <= length teams)%nat ->
  Forall (fun t : list (rating R) => t <> []) teams ->
  0 < p_beta P -> p_kappa P = 0 -> 0 <= tau ->
  Forall (Forall (fun p : rating R => 0 <= r_sigma p /\ 0 < r_sigma p * r_sigma p + tau * tau)) teams ->
  (forall (c : R) (n : nat) (mu ss : R) (team : list (rating R)) (rank : nat),
     0 <= p_gamma P c n mu ss team rank) ->
  match keys with Some ks => length ks = length teams | None => True end ->
  Forall2 (Forall2 (fun p r : rating R =>
      0 <= r_sigma r <= sqrt (r_sigma p * r_sigma p + tau * tau) /\
      (limit = true -> r_sigma r <= r_sigma p)))
    teams (@rate_core R (RNum GaussInst.PhiK GaussInst.PhiinvK) k P tau limit teams keys).
Proof. exact (C06_step_kappa0 GaussInst.PhiK GaussInst.PhiinvK GaussFull.GaussFacts_inst). Qed.
Print Assumptions C06_step_kappa0_inst.

Theorem C06_limit_inst :
  forall (k : kind) (P : params R) (tau : R)
         (teams : list (list (rating R))) (keys : option (list key)),
  (2 <= length teams)%nat ->
  Forall (fun t : list (rating R) => t <> []) teams ->
  0 < p_beta P -> 0 < p_kappa P <= 1 -> 0 <= tau ->
  Forall (Forall (fun p : rating R => 0 <= r_sigma p /\ 0 < r_sigma p * r_sigma p + tau * tau)) teams ->
  (forall (c : R) (n : nat) (mu ss : R) (team : list (rating R)) (rank : nat),
     0 <= p_gamma P c n mu ss team rank) ->
  match keys with Some ks => length ks = length teams | None => True end ->
  Forall2 (Forall2 (fun p r : rating R =>
      0 <= r_sigma r <= r_sigma p /\ (0 < r_sigma p -> 0 < r_sigma r)))
    teams (@rate_core R (RNum GaussInst.PhiK GaussInst.PhiinvK) k P tau true teams keys).
Proof. exact (C06_limit GaussInst.PhiK GaussInst.PhiinvK GaussFull.GaussFacts_inst). Qed.
Print Assumptions C06_limit_inst.

Theorem C06_history_step_inst :
  forall (k : kind) (P : params R),
  0 < p_beta P -> 0 <= p_kappa P <= 1 ->
  (forall (c : R) (n : nat) (mu ss : R) (team : list (rating R)) (rank : nat),
     0 <= p_gamma P c n mu ss team rank) ->
  forall (g : C06L.game) (st : list (rating R)) (i : nat),
  ((C06L.plays i g = true -> C06L.g_limit g = true) ->
     r_sigma (C06L.get (C06L.play GaussInst.PhiK GaussInst.PhiinvK P k st g) i) <= r_sigma (C06L.get st i))
  /\ r_sigma (C06L.get (C06L.play GaussInst.PhiK GaussInst.PhiinvK P k st g) i) * r_sigma (C06L.get (C06L.play GaussInst.PhiK GaussInst.PhiinvK P k st g) i)
     <= r_sigma (C06L.get st i) * r_sigma (C06L.get st i)
        + (if C06L.plays i g then C06L.g_tau g * C06L.g_tau g else 0)
  /\ (0 < p_kappa P -> 0 < r_sigma (C06L.get st i) ->
      0 < r_sigma (C06L.get (C06L.play GaussInst.PhiK GaussInst.PhiinvK P k st g) i)).
Proof. exact (C06_history_step GaussInst.PhiK GaussInst.PhiinvK GaussFull.GaussFacts_inst). Qed.
Print Assumptions C06_history_step_inst.

Theorem C06_history_inst :
  forall (k : kind) (P : params R),
  0 < p_beta P -> 0 <= p_kappa P <= 1 ->
  (forall (c : R) (n : nat) (mu ss : R) (team : list (rating R)) (rank : nat),
     0 <= p_gamma P c n mu ss team rank) ->
  forall (gs : list C06L.game) (st : list (rating R)) (i : nat),
  ((forall g : C06L.game, In g gs -> C06L.plays i g = true -> C06L.g_limit g = true) ->
     r_sigma (C06L.get (C06L.run GaussInst.PhiK GaussInst.PhiinvK P k st gs) i) <= r_sigma (C06L.get st i))
  /\ r_sigma (C06L.get (C06L.run GaussInst.PhiK GaussInst.PhiinvK P k st gs) i) * r_sigma (C06L.get (C06L.run GaussInst.PhiK GaussInst.PhiinvK P k st gs) i)
     <= r_sigma (C06L.get st i) * r_sigma (C06L.get st i)
        + Rsum (map (fun g : C06L.game => if C06L.plays i g then C06L.g_tau g * C06L.g_tau g else 0) gs)
  /\ (0 < p_kappa P -> 0 < r_sigma (C06L.get st i) ->
      0 < r_sigma (C06L.get (C06L.run GaussInst.PhiK GaussInst.PhiinvK P k st gs) i)).
Proof. exact (C06_history GaussInst.PhiK GaussInst.PhiinvK GaussFull.GaussFacts_inst). Qed.
Print Assumptions C06_history_inst.

(** ** The upper bound in IEEE 754 binary64 (float level, not over the reals).

    The model instantiated on [FloatInst.B64Num exp64 erfc64 pow64 icdf64 : Num binary64]
    (Flocq's binary64 with round-to-nearest-even [+ - * / sqrt] and comparisons; the libm
    functions [exp], [erfc], [x ** 2], [inv_cdf] are arbitrary parameters).  [B2R 53 1024 x]
    is the real value of the double [x]; [is_finite 53 1024 x = true] says [x] is neither an
    infinity nor a NaN ("no overflow").  No property of [pow64] ([x ** 2], not correctly
    rounded in C) is needed: only that the share it produces is >= 0.

    [C06_update_sigma_le_binary64]: the new sigma [sigma * sqrt (max (1 - share * delta, kappa))]
    computed in doubles is <= the old sigma, as doubles, with no rounding slack: every factor
    is <= 1 in floats (rounding is monotone and 0, 1 and sigma are doubles).  Only three
    finiteness hypotheses on intermediates are needed; the finiteness of sigma, share, delta,
    the max and its square root follows ([C06_update_intermediates_finite_binary64]).
    Since [r_sigma (inflate tau r)] is by definition the double
    [fsqrt (fadd (fmul sigma sigma) (fmul tau tau))], instantiating [p := inflate tau r] gives
    the bound of the property text on the very doubles the code computes.
    [C06_clamp_sigma_le_binary64]: the clamp of [limit_sigma] returns a finite sigma that is
    <= the prior sigma (and <= the unclamped result).
    [C06_bt_delta_nonneg_binary64]: for Bradley-Terry the accumulated delta is >= 0 in
    doubles (hypothesis [0 <= delta] of the first theorem), given exp >= 0, gamma >= 0,
    c > 0, team sigma^2 >= 0 and finiteness of [1 + e] and of the accumulated sums.
    Nothing was found false: no step can be pushed above 1 by rounding. *)
From Flocq Require Import IEEE754.BinarySingleNaN IEEE754.Binary IEEE754.Bits.
From OSV Require Import FloatInst.
From OSV.Lemmas Require FloatOrderL.

Theorem C06_update_sigma_le_binary64 :
  forall (exp64 erfc64 pow64 icdf64 : binary64 -> binary64)
         (P : params binary64) (ti : trating binary64) (omega delta : binary64) (p : rating binary64),
  0 <= B2R 53 1024 (r_sigma p) ->
  0 <= B2R 53 1024 (@fdiv binary64 (B64Num exp64 erfc64 pow64 icdf64)
                      (@fpow2 binary64 (B64Num exp64 erfc64 pow64 icdf64) (r_sigma p)) (t_ss ti)) ->
  0 <= B2R 53 1024 delta ->
  is_finite 53 1024 (p_kappa P) = true ->
  0 <= B2R 53 1024 (p_kappa P) <= 1 ->
  is_finite 53 1024
    (@fmul binary64 (B64Num exp64 erfc64 pow64 icdf64)
       (@fdiv binary64 (B64Num exp64 erfc64 pow64 icdf64)
          (@fpow2 binary64 (B64Num exp64 erfc64 pow64 icdf64) (r_sigma p)) (t_ss ti)) delta) = true ->
  is_finite 53 1024
    (@fsub binary64 (B64Num exp64 erfc64 pow64 icdf64) (@fone binary64 (B64Num exp64 erfc64 pow64 icdf64))
       (@fmul binary64 (B64Num exp64 erfc64 pow64 icdf64)
          (@fdiv binary64 (B64Num exp64 erfc64 pow64 icdf64)
             (@fpow2 binary64 (B64Num exp64 erfc64 pow64 icdf64) (r_sigma p)) (t_ss ti)) delta)) = true ->
  is_finite 53 1024
    (r_sigma (@update_player binary64 (B64Num exp64 erfc64 pow64 icdf64) P ti omega delta p)) = true ->
  0 <= B2R 53 1024 (r_sigma (@update_player binary64 (B64Num exp64 erfc64 pow64 icdf64) P ti omega delta p))
    <= B2R 53 1024 (r_sigma p).
Proof. exact FloatOrderL.update_player_sigma_le_b64. Qed.
Print Assumptions C06_update_sigma_le_binary64.

(** under the same finiteness hypotheses all the other intermediates are finite *)
Theorem C06_update_intermediates_finite_binary64 :
  forall (exp64 erfc64 pow64 icdf64 : binary64 -> binary64)
         (P : params binary64) (ti : trating binary64) (omega delta : binary64) (p : rating binary64),
  is_finite 53 1024 (p_kappa P) = true ->
  is_finite 53 1024
    (@fmul binary64 (B64Num exp64 erfc64 pow64 icdf64)
       (@fdiv binary64 (B64Num exp64 erfc64 pow64 icdf64)
          (@fpow2 binary64 (B64Num exp64 erfc64 pow64 icdf64) (r_sigma p)) (t_ss ti)) delta) = true ->
  is_finite 53 1024
    (@fsub binary64 (B64Num exp64 erfc64 pow64 icdf64) (@fone binary64 (B64Num exp64 erfc64 pow64 icdf64))
       (@fmul binary64 (B64Num exp64 erfc64 pow64 icdf64)
          (@fdiv binary64 (B64Num exp64 erfc64 pow64 icdf64)
             (@fpow2 binary64 (B64Num exp64 erfc64 pow64 icdf64) (r_sigma p)) (t_ss ti)) delta)) = true ->
  is_finite 53 1024
    (r_sigma (@update_player binary64 (B64Num exp64 erfc64 pow64 icdf64) P ti omega delta p)) = true ->
  is_finite 53 1024 (r_sigma p) = true
  /\ is_finite 53 1024
       (@fdiv binary64 (B64Num exp64 erfc64 pow64 icdf64)
          (@fpow2 binary64 (B64Num exp64 erfc64 pow64 icdf64) (r_sigma p)) (t_ss ti)) = true
  /\ is_finite 53 1024 delta = true
  /\ is_finite 53 1024
       (@fmax binary64 (B64Num exp64 erfc64 pow64 icdf64)
          (@fsub binary64 (B64Num exp64 erfc64 pow64 icdf64) (@fone binary64 (B64Num exp64 erfc64 pow64 icdf64))
             (@fmul binary64 (B64Num exp64 erfc64 pow64 icdf64)
                (@fdiv binary64 (B64Num exp64 erfc64 pow64 icdf64)
                   (@fpow2 binary64 (B64Num exp64 erfc64 pow64 icdf64) (r_sigma p)) (t_ss ti)) delta))
          (p_kappa P)) = true
  /\ is_finite 53 1024
       (@fsqrt binary64 (B64Num exp64 erfc64 pow64 icdf64)
          (@fmax binary64 (B64Num exp64 erfc64 pow64 icdf64)
             (@fsub binary64 (B64Num exp64 erfc64 pow64 icdf64) (@fone binary64 (B64Num exp64 erfc64 pow64 icdf64))
                (@fmul binary64 (B64Num exp64 erfc64 pow64 icdf64)
                   (@fdiv binary64 (B64Num exp64 erfc64 pow64 icdf64)
                      (@fpow2 binary64 (B64Num exp64 erfc64 pow64 icdf64) (r_sigma p)) (t_ss ti)) delta))
             (p_kappa P))) = true.
Proof. exact FloatOrderL.update_player_intermediates_finite_b64. Qed.
Print Assumptions C06_update_intermediates_finite_binary64.

(** limit_sigma: the clamped sigma is finite and <= the prior sigma and <= the unclamped one *)
Theorem C06_clamp_sigma_le_binary64 :
  forall (exp64 erfc64 pow64 icdf64 : binary64 -> binary64) (orig res : rating binary64),
  is_finite 53 1024 (r_sigma orig) = true ->
  is_finite 53 1024 (r_sigma res) = true ->
  is_finite 53 1024 (r_sigma (@clamp_player binary64 (B64Num exp64 erfc64 pow64 icdf64) orig res)) = true
  /\ B2R 53 1024 (r_sigma (@clamp_player binary64 (B64Num exp64 erfc64 pow64 icdf64) orig res))
     <= B2R 53 1024 (r_sigma orig)
  /\ B2R 53 1024 (r_sigma (@clamp_player binary64 (B64Num exp64 erfc64 pow64 icdf64) orig res))
     <= B2R 53 1024 (r_sigma res).
Proof. exact FloatOrderL.clamp_player_sigma_le_b64. Qed.
Print Assumptions C06_clamp_sigma_le_binary64.

(** Bradley-Terry: the delta accumulated over the opponents [opp] of team [ti] is >= 0 *)
Theorem C06_bt_delta_nonneg_binary64 :
  forall (exp64 erfc64 pow64 icdf64 : binary64 -> binary64)
         (P : params binary64) (trs : list (trating binary64)) (ti : trating binary64)
         (opp : list (trating binary64)),
  (forall x : binary64, is_finite 53 1024 x = true -> 0 <= B2R 53 1024 (exp64 x)) ->
  0 <= B2R 53 1024 (t_ss ti) ->
  (forall tq : trating binary64, In tq opp ->
     0 < B2R 53 1024 (@c_iq binary64 (B64Num exp64 erfc64 pow64 icdf64) P ti tq)
     /\ 0 <= B2R 53 1024 (@gamma_of binary64 P (@c_iq binary64 (B64Num exp64 erfc64 pow64 icdf64) P ti tq) trs ti)
     /\ is_finite 53 1024
          (@fdiv binary64 (B64Num exp64 erfc64 pow64 icdf64)
             (@fsub binary64 (B64Num exp64 erfc64 pow64 icdf64) (t_mu tq) (t_mu ti))
             (@c_iq binary64 (B64Num exp64 erfc64 pow64 icdf64) P ti tq)) = true
     /\ is_finite 53 1024
          (@fadd binary64 (B64Num exp64 erfc64 pow64 icdf64) (@fone binary64 (B64Num exp64 erfc64 pow64 icdf64))
             (exp64 (@fdiv binary64 (B64Num exp64 erfc64 pow64 icdf64)
                       (@fsub binary64 (B64Num exp64 erfc64 pow64 icdf64) (t_mu tq) (t_mu ti))
                       (@c_iq binary64 (B64Num exp64 erfc64 pow64 icdf64) P ti tq)))) = true) ->
  (forall pre post : list (trating binary64), opp = pre ++ post ->
     is_finite 53 1024
       (snd (fold_left (@bt_term binary64 (B64Num exp64 erfc64 pow64 icdf64) P trs ti) pre
               (@fzero binary64 (B64Num exp64 erfc64 pow64 icdf64),
                @fzero binary64 (B64Num exp64 erfc64 pow64 icdf64)))) = true) ->
  0 <= B2R 53 1024
         (snd (fold_left (@bt_term binary64 (B64Num exp64 erfc64 pow64 icdf64) P trs ti) opp
                 (@fzero binary64 (B64Num exp64 erfc64 pow64 icdf64),
                  @fzero binary64 (B64Num exp64 erfc64 pow64 icdf64)))).
Proof. exact FloatOrderL.bt_delta_nonneg_b64. Qed.
Print Assumptions C06_bt_delta_nonneg_binary64.

(** ** Non-vacuity of the binary64 statements: concrete doubles.
    Stand-ins for the libm parameters: [x ** 2 := x * x], [exp := |x|] (non-negative, as the
    hypothesis on exp requires); the others are not used.  sigma = 25/3 (the double
    0x4020AAAAAAAAAAAB), team sigma^2 = 139.0, delta = 0.25, kappa = 2^-13, beta = 25/6.
    The update strictly decreases sigma here (last conjunct, by computation on doubles). *)
Example C06_update_sigma_le_binary64_example :
  let N := B64Num b64_abs (fun x => x) (fun x => b64_mult mode_NE x x) (fun x => x) in
  let P := @mkParams binary64 (b64_of_bits 4616377268039232171) (b64_of_dyadic 1 (-13))
             (fun _ _ _ _ _ _ => b64_of_Z 1) in
  let p := @mkRating binary64 (b64_of_bits 4627730092099895296) (b64_of_bits 4620880867666602667) 0%Z NmNone in
  let ti := @mkT binary64 (b64_of_bits 4627730092099895296) (b64_of_Z 139) [p] 0 in
  let omega := b64_of_dyadic 1 (-1) in
  let delta := b64_of_dyadic 1 (-2) in
  (0 <= B2R 53 1024 (r_sigma (@update_player binary64 N P ti omega delta p)) <= B2R 53 1024 (r_sigma p))
  /\ b64_ltb (r_sigma (@update_player binary64 N P ti omega delta p)) (r_sigma p) = true.
Proof.
  intros N P p ti omega delta. split; [|vm_compute; reflexivity].
  apply C06_update_sigma_le_binary64.
  - apply FloatOrderL.b64_sign_nonneg. vm_compute. reflexivity.
  - apply FloatOrderL.b64_sign_nonneg. vm_compute. reflexivity.
  - apply FloatOrderL.b64_sign_nonneg. vm_compute. reflexivity.
  - vm_compute. reflexivity.
  - split; [apply FloatOrderL.b64_sign_nonneg | apply FloatOrderL.b64_leb_one_le_1]; vm_compute; reflexivity.
  - vm_compute. reflexivity.
  - vm_compute. reflexivity.
  - vm_compute. reflexivity.
Qed.

(** clamp: a result sigma of 9.0 against a prior sigma of 25/3 is cut back to the prior sigma *)
Example C06_clamp_sigma_le_binary64_example :
  let N := B64Num b64_abs (fun x => x) (fun x => b64_mult mode_NE x x) (fun x => x) in
  let orig := @mkRating binary64 (b64_of_bits 4627730092099895296) (b64_of_bits 4620880867666602667) 0%Z NmNone in
  let res := @mkRating binary64 (b64_of_Z 26) (b64_of_Z 9) 0%Z NmNone in
  (is_finite 53 1024 (r_sigma (@clamp_player binary64 N orig res)) = true
   /\ B2R 53 1024 (r_sigma (@clamp_player binary64 N orig res)) <= B2R 53 1024 (r_sigma orig)
   /\ B2R 53 1024 (r_sigma (@clamp_player binary64 N orig res)) <= B2R 53 1024 (r_sigma res))
  /\ r_sigma (@clamp_player binary64 N orig res) = r_sigma orig.
Proof.
  intros N orig res. split.
  - apply C06_clamp_sigma_le_binary64; vm_compute; reflexivity.
  - apply B2FF_inj. vm_compute. reflexivity.
Qed.

(** Bradley-Terry delta over two opponents (team aggregates (25, 139), (30, 50), (20, 200)) *)
Example C06_bt_delta_nonneg_binary64_example :
  let N := B64Num b64_abs (fun x => x) (fun x => b64_mult mode_NE x x) (fun x => x) in
  let P := @mkParams binary64 (b64_of_bits 4616377268039232171) (b64_of_dyadic 1 (-13))
             (@gamma_default binary64 N) in
  let ti := @mkT binary64 (b64_of_Z 25) (b64_of_Z 139) [] 0 in
  let t1 := @mkT binary64 (b64_of_Z 30) (b64_of_Z 50) [] 1 in
  let t2 := @mkT binary64 (b64_of_Z 20) (b64_of_Z 200) [] 2 in
  0 <= B2R 53 1024
         (snd (fold_left (@bt_term binary64 N P [ti; t1; t2] ti) [t1; t2]
                 (@fzero binary64 N, @fzero binary64 N)))
  /\ b64_ltb (@fzero binary64 N)
       (snd (fold_left (@bt_term binary64 N P [ti; t1; t2] ti) [t1; t2]
               (@fzero binary64 N, @fzero binary64 N))) = true.
Proof.
  intros N P ti t1 t2. split; [|vm_compute; reflexivity].
  apply C06_bt_delta_nonneg_binary64.
  - intros x _. change (0 <= B2R 53 1024 (Babs 53 1024 unop_nan_pl64 x)).
    rewrite B2R_Babs. apply Rabs_pos.
  - apply FloatOrderL.b64_sign_nonneg. vm_compute. reflexivity.
  - intros tq [<-|[<-|[]]]; (split; [apply FloatOrderL.b64_sign_pos; vm_compute; reflexivity|]);
      (split; [apply FloatOrderL.b64_sign_nonneg; vm_compute; reflexivity|]);
      split; vm_compute; reflexivity.
  - intros [|a [|b [|c pre]]] post E; cbn [app] in E.
    + vm_compute. reflexivity.
    + injection E as <- _. vm_compute. reflexivity.
    + injection E as <- <- _. vm_compute. reflexivity.
    + discriminate E.
Qed.

(** ** Plackett-Luce: the delta is >= 0 in IEEE 754 binary64.

    [C06_pl_delta_nonneg_binary64]: the delta that [pl_omega_delta] returns for a team [ti] of
    the game, computed on the entries [compute_pl] builds (the fold of [pl_step] over
    [(q, (tq, (sum_q, A_q)))]), is >= 0 as a double, for any scale [c] ([compute_pl] passes
    [c := pl_c P trs]).  This is the hypothesis [0 <= delta] of [C06_update_sigma_le_binary64]
    for the Plackett-Luce model.  Why: each term is fl(fl(p * fl(1 - p)) / A_q) with
    p = fl(e_i / sum_q); [sum_q] is the left-to-right float sum ([reduce_add]) of the
    exponentials exp(mu_t / c) >= 0 of the teams ranked no better than [tq], and a term is only
    added when rank tq <= rank ti, so e_i is one of the summands: fl(acc + x) >= x for acc >= 0
    and later additions of non-negative doubles keep the sum >= x (rounding is monotone, doubles
    are fixed points), hence e_i <= sum_q as doubles, p in [0,1], fl(1 - p) >= 0.  A_q counts the
    teams tied with [tq]: an int between 1 and the number of teams, converted exactly (number of
    teams <= 2^53).  A finite [p] forces [sum_q <> 0] (x/0 is an infinity or a NaN).
    Premises: exp >= 0 on finite arguments; the factors [sigma_i^2 / c^2] and gamma are >= 0
    (nothing is assumed about [pow64]); no overflow in the arguments of exp, in the sums [sum_q],
    in the accumulated delta and in the result.  The finiteness of every summand, of every prefix
    of each sum, of p, 1 - p and of each term is derived. *)
From OSV.Lemmas Require FloatSignL.

Theorem C06_pl_delta_nonneg_binary64 :
  forall (exp64 erfc64 pow64 icdf64 : binary64 -> binary64)
         (P : params binary64) (trs : list (trating binary64)) (c : binary64)
         (i : nat) (ti : trating binary64),
  (forall x : binary64, is_finite 53 1024 x = true -> 0 <= B2R 53 1024 (exp64 x)) ->
  In ti trs ->
  (Z.of_nat (length trs) <= 9007199254740992)%Z ->
  0 <= B2R 53 1024 (@fdiv binary64 (B64Num exp64 erfc64 pow64 icdf64) (t_ss ti)
                      (@fpow2 binary64 (B64Num exp64 erfc64 pow64 icdf64) c)) ->
  0 <= B2R 53 1024 (@gamma_of binary64 P c trs ti) ->
  (forall t : trating binary64, In t trs ->
     is_finite 53 1024 (@fdiv binary64 (B64Num exp64 erfc64 pow64 icdf64) (t_mu t) c) = true) ->
  (forall s : binary64, In s (@pl_sum_q binary64 (B64Num exp64 erfc64 pow64 icdf64) trs c) ->
     is_finite 53 1024 s = true) ->
  (forall pre post : list (nat * (trating binary64 * (binary64 * nat))),
     combine (seq 0 (length trs))
       (combine trs (combine (@pl_sum_q binary64 (B64Num exp64 erfc64 pow64 icdf64) trs c) (@pl_a binary64 trs)))
     = pre ++ post ->
     is_finite 53 1024
       (snd (fold_left (@pl_step binary64 (B64Num exp64 erfc64 pow64 icdf64) i ti
                          (@fexp binary64 (B64Num exp64 erfc64 pow64 icdf64)
                             (@fdiv binary64 (B64Num exp64 erfc64 pow64 icdf64) (t_mu ti) c)))
               pre (@fzero binary64 (B64Num exp64 erfc64 pow64 icdf64),
                    @fzero binary64 (B64Num exp64 erfc64 pow64 icdf64)))) = true) ->
  is_finite 53 1024
    (snd (@pl_omega_delta binary64 (B64Num exp64 erfc64 pow64 icdf64) P trs c
            (combine (seq 0 (length trs))
               (combine trs (combine (@pl_sum_q binary64 (B64Num exp64 erfc64 pow64 icdf64) trs c)
                               (@pl_a binary64 trs))))
            i ti)) = true ->
  0 <= B2R 53 1024
         (snd (@pl_omega_delta binary64 (B64Num exp64 erfc64 pow64 icdf64) P trs c
                 (combine (seq 0 (length trs))
                    (combine trs (combine (@pl_sum_q binary64 (B64Num exp64 erfc64 pow64 icdf64) trs c)
                                    (@pl_a binary64 trs))))
                 i ti)).
Proof. exact FloatSignL.pl_delta_nonneg_b64. Qed.
Print Assumptions C06_pl_delta_nonneg_binary64.

(** Non-vacuity: three teams with aggregates (mu, sigma^2, rank) = (25, 139, 0), (30, 50, 1),
    (20, 200, 1) (the last two tied), beta = 25/6, default gamma, [c := pl_c P trs], stand-ins
    [exp := |x|], [x ** 2 := x * x]; the team considered is the second one (index 1), whose
    fold uses all three entries.  Its delta is strictly positive (by computation on doubles). *)
Example C06_pl_delta_nonneg_binary64_example :
  let N := B64Num b64_abs (fun x => x) (fun x => b64_mult mode_NE x x) (fun x => x) in
  let P := @mkParams binary64 (b64_of_bits 4616377268039232171) (b64_of_dyadic 1 (-13))
             (@gamma_default binary64 N) in
  let t0 := @mkT binary64 (b64_of_Z 25) (b64_of_Z 139) [] 0 in
  let ti := @mkT binary64 (b64_of_Z 30) (b64_of_Z 50) [] 1 in
  let t2 := @mkT binary64 (b64_of_Z 20) (b64_of_Z 200) [] 1 in
  let trs := [t0; ti; t2] in
  let c := @pl_c binary64 N P trs in
  let qs := combine (seq 0 (length trs)) (combine trs (combine (@pl_sum_q binary64 N trs c) (@pl_a binary64 trs))) in
  0 <= B2R 53 1024 (snd (@pl_omega_delta binary64 N P trs c qs 1 ti))
  /\ b64_ltb (@fzero binary64 N) (snd (@pl_omega_delta binary64 N P trs c qs 1 ti)) = true
  /\ nth_error (@compute_pl binary64 N P trs) 1
     = Some (@update_team binary64 N P ti (@pl_omega_delta binary64 N P trs c qs 1 ti)).
Proof.
  intros N P t0 ti t2 trs c qs. split; [|split; [vm_compute; reflexivity | reflexivity]].
  apply C06_pl_delta_nonneg_binary64.
  - intros x _. change (0 <= B2R 53 1024 (Babs 53 1024 unop_nan_pl64 x)).
    rewrite B2R_Babs. apply Rabs_pos.
  - right. left. reflexivity.
  - vm_compute. discriminate.
  - apply FloatOrderL.b64_sign_nonneg. vm_compute. reflexivity.
  - apply FloatOrderL.b64_sign_nonneg. vm_compute. reflexivity.
  - intros t [<-|[<-|[<-|[]]]]; vm_compute; reflexivity.
  - intros s Hs. unfold pl_sum_q, trs in Hs. cbn [map In] in Hs.
    destruct Hs as [<-|[<-|[<-|[]]]]; vm_compute; reflexivity.
  - intros pre post E. destruct (FloatSignL.prefix_firstn _ pre post E) as (n & Hn & ->). clear E.
    destruct n as [|[|[|[|n]]]]; [vm_compute; reflexivity .. | vm_compute in Hn; discriminate Hn].
  - vm_compute. reflexivity.
Qed.

(** ** The whole game in IEEE 754 binary64: Bradley-Terry (BTF and BTP).

    [C06_rate_bt_sigma_le_binary64]: for [rate_core k P tau limit teams keys] (k = BTF or BTP)
    evaluated on doubles, the posterior sigma at every result position [i][j] is a finite double
    with 0 <= sigma' <= sigma_inflated, where sigma_inflated = [r_sigma (inflate tau p)] =
    fl(sqrt(fl(fl(sigma*sigma) + fl(tau*tau)))) is the very double the code computes for the player
    [p] passed at teams[i][j]; with [limit = true] also sigma' <= the prior sigma of [p].  No
    rounding slack.  [C06_compute_bt_sigma_le_binary64] is the same for [compute k P trs] on
    arbitrary team ratings [trs] (sigma' <= the sigma [compute] was given).

    Hypotheses.  (a) Domain facts: >= 2 teams; one key per team; exp64 >= 0 and pow64 (x ** 2)
    >= 0 on finite arguments; kappa finite in [0,1]; prior sigmas >= 0 (used only for the lower
    bound under [limit]); the gamma callback >= 0 on the arguments it receives.  beta is not
    constrained.  (b) No overflow / no NaN, quantified over the model's own terms: [trs] is the
    list of team ratings [rate_sorted] builds from the tau-inflated, rank-sorted game and
    [opps] pairs each team with the opponents its kind uses (BTF: all other teams, BTP: ladder
    neighbours); for each team [ti] and each of its opponents [tq]: [c_iq] finite, the argument
    (mu_q - mu_i) / c_iq of exp finite, 1 + exp(..) finite; for each player: share * delta
    finite; and the sigmas [compute] returns are finite.
    Everything else is derived: finiteness of the prior and of the inflated sigma, of the team
    variances, of share, of every prefix of the accumulated delta and of each term, of 1 - p, of
    1 - share * delta (cannot overflow: share * delta >= 0), of the max and the square root;
    c_iq > 0 (finite, and a finite quotient has a non-zero divisor); team variance > 0.
    What cannot be derived and stays a hypothesis: a finite product or quotient does not make
    its operands finite (x / inf = 0), and max(-inf, kappa) = kappa hides an overflow of
    share * delta. *)
From OSV.Lemmas Require FloatRateL.

Theorem C06_compute_bt_sigma_le_binary64 :
  forall (exp64 erfc64 pow64 icdf64 : binary64 -> binary64)
         (k : kind) (P : params binary64) (trs : list (trating binary64)),
  k = BTF \/ k = BTP ->
  (forall x : binary64, is_finite 53 1024 x = true -> 0 <= B2R 53 1024 (exp64 x)) ->
  (forall x : binary64, is_finite 53 1024 x = true -> 0 <= B2R 53 1024 (pow64 x)) ->
  is_finite 53 1024 (p_kappa P) = true ->
  0 <= B2R 53 1024 (p_kappa P) <= 1 ->
  (2 <= length trs)%nat ->
  (forall ti : trating binary64, In ti trs -> 0 <= B2R 53 1024 (t_ss ti)) ->
  (forall ti : trating binary64, In ti trs -> forall p : rating binary64, In p (t_team ti) ->
     0 <= B2R 53 1024 (r_sigma p)) ->
  forall opps : list (trating binary64 * list (trating binary64)),
  opps = match k with BTF => @opponents_full binary64 trs | _ => @opponents_part binary64 trs end ->
  (forall (ti : trating binary64) (opp : list (trating binary64)), In (ti, opp) opps ->
   forall tq : trating binary64, In tq opp ->
     0 <= B2R 53 1024 (@gamma_of binary64 P (@c_iq binary64 (B64Num exp64 erfc64 pow64 icdf64) P ti tq) trs ti)
     /\ is_finite 53 1024 (@c_iq binary64 (B64Num exp64 erfc64 pow64 icdf64) P ti tq) = true
     /\ is_finite 53 1024
          (@fdiv binary64 (B64Num exp64 erfc64 pow64 icdf64)
             (@fsub binary64 (B64Num exp64 erfc64 pow64 icdf64) (t_mu tq) (t_mu ti))
             (@c_iq binary64 (B64Num exp64 erfc64 pow64 icdf64) P ti tq)) = true
     /\ is_finite 53 1024
          (@fadd binary64 (B64Num exp64 erfc64 pow64 icdf64) (@fone binary64 (B64Num exp64 erfc64 pow64 icdf64))
             (exp64 (@fdiv binary64 (B64Num exp64 erfc64 pow64 icdf64)
                       (@fsub binary64 (B64Num exp64 erfc64 pow64 icdf64) (t_mu tq) (t_mu ti))
                       (@c_iq binary64 (B64Num exp64 erfc64 pow64 icdf64) P ti tq)))) = true) ->
  (forall (ti : trating binary64) (opp : list (trating binary64)), In (ti, opp) opps ->
   forall p : rating binary64, In p (t_team ti) ->
     is_finite 53 1024
       (@fmul binary64 (B64Num exp64 erfc64 pow64 icdf64)
          (@fdiv binary64 (B64Num exp64 erfc64 pow64 icdf64)
             (@fpow2 binary64 (B64Num exp64 erfc64 pow64 icdf64) (r_sigma p)) (t_ss ti))
          (snd (fold_left (@bt_term binary64 (B64Num exp64 erfc64 pow64 icdf64) P trs ti) opp
                  (@fzero binary64 (B64Num exp64 erfc64 pow64 icdf64),
                   @fzero binary64 (B64Num exp64 erfc64 pow64 icdf64))))) = true) ->
  (forall res : list (rating binary64),
     In res (@compute binary64 (B64Num exp64 erfc64 pow64 icdf64) k P trs) ->
     forall r : rating binary64, In r res -> is_finite 53 1024 (r_sigma r) = true) ->
  Forall2 (Forall2 (fun p r : rating binary64 =>
      is_finite 53 1024 (r_sigma p) = true
      /\ is_finite 53 1024 (r_sigma r) = true
      /\ 0 <= B2R 53 1024 (r_sigma r) <= B2R 53 1024 (r_sigma p)))
    (map t_team trs) (@compute binary64 (B64Num exp64 erfc64 pow64 icdf64) k P trs).
Proof. exact FloatRateL.compute_bt_sigma_le_b64. Qed.
Print Assumptions C06_compute_bt_sigma_le_binary64.

Theorem C06_rate_bt_sigma_le_binary64 :
  forall (exp64 erfc64 pow64 icdf64 : binary64 -> binary64)
         (k : kind) (P : params binary64) (tau : binary64) (limit : bool)
         (teams : list (list (rating binary64))) (keys : option (list key)),
  k = BTF \/ k = BTP ->
  match keys with Some ks => length ks = length teams | None => True end ->
  (2 <= length teams)%nat ->
  (forall x : binary64, is_finite 53 1024 x = true -> 0 <= B2R 53 1024 (exp64 x)) ->
  (forall x : binary64, is_finite 53 1024 x = true -> 0 <= B2R 53 1024 (pow64 x)) ->
  is_finite 53 1024 (p_kappa P) = true ->
  0 <= B2R 53 1024 (p_kappa P) <= 1 ->
  (forall t : list (rating binary64), In t teams -> forall p : rating binary64, In p t ->
     0 <= B2R 53 1024 (r_sigma p)) ->
  forall trs : list (trating binary64),
  trs = match keys with
        | None =>
            @team_ratings binary64 (B64Num exp64 erfc64 pow64 icdf64)
              (map (map (@inflate binary64 (B64Num exp64 erfc64 pow64 icdf64) tau)) teams)
              (seq 0 (length (map (map (@inflate binary64 (B64Num exp64 erfc64 pow64 icdf64) tau)) teams)))
        | Some ks =>
            @team_ratings binary64 (B64Num exp64 erfc64 pow64 icdf64)
              (fst (unwind key_leb ks (map (map (@inflate binary64 (B64Num exp64 erfc64 pow64 icdf64) tau)) teams)))
              (calc_rankings key_ltb (isort key_leb ks))
        end ->
  forall opps : list (trating binary64 * list (trating binary64)),
  opps = match k with BTF => @opponents_full binary64 trs | _ => @opponents_part binary64 trs end ->
  (forall (ti : trating binary64) (opp : list (trating binary64)), In (ti, opp) opps ->
   forall tq : trating binary64, In tq opp ->
     0 <= B2R 53 1024 (@gamma_of binary64 P (@c_iq binary64 (B64Num exp64 erfc64 pow64 icdf64) P ti tq) trs ti)
     /\ is_finite 53 1024 (@c_iq binary64 (B64Num exp64 erfc64 pow64 icdf64) P ti tq) = true
     /\ is_finite 53 1024
          (@fdiv binary64 (B64Num exp64 erfc64 pow64 icdf64)
             (@fsub binary64 (B64Num exp64 erfc64 pow64 icdf64) (t_mu tq) (t_mu ti))
             (@c_iq binary64 (B64Num exp64 erfc64 pow64 icdf64) P ti tq)) = true
     /\ is_finite 53 1024
          (@fadd binary64 (B64Num exp64 erfc64 pow64 icdf64) (@fone binary64 (B64Num exp64 erfc64 pow64 icdf64))
             (exp64 (@fdiv binary64 (B64Num exp64 erfc64 pow64 icdf64)
                       (@fsub binary64 (B64Num exp64 erfc64 pow64 icdf64) (t_mu tq) (t_mu ti))
                       (@c_iq binary64 (B64Num exp64 erfc64 pow64 icdf64) P ti tq)))) = true) ->
  (forall (ti : trating binary64) (opp : list (trating binary64)), In (ti, opp) opps ->
   forall p : rating binary64, In p (t_team ti) ->
     is_finite 53 1024
       (@fmul binary64 (B64Num exp64 erfc64 pow64 icdf64)
          (@fdiv binary64 (B64Num exp64 erfc64 pow64 icdf64)
             (@fpow2 binary64 (B64Num exp64 erfc64 pow64 icdf64) (r_sigma p)) (t_ss ti))
          (snd (fold_left (@bt_term binary64 (B64Num exp64 erfc64 pow64 icdf64) P trs ti) opp
                  (@fzero binary64 (B64Num exp64 erfc64 pow64 icdf64),
                   @fzero binary64 (B64Num exp64 erfc64 pow64 icdf64))))) = true) ->
  (forall res : list (rating binary64),
     In res (@compute binary64 (B64Num exp64 erfc64 pow64 icdf64) k P trs) ->
     forall r : rating binary64, In r res -> is_finite 53 1024 (r_sigma r) = true) ->
  Forall2 (Forall2 (fun p r : rating binary64 =>
      is_finite 53 1024 (r_sigma r) = true
      /\ 0 <= B2R 53 1024 (r_sigma r)
           <= B2R 53 1024 (r_sigma (@inflate binary64 (B64Num exp64 erfc64 pow64 icdf64) tau p))
      /\ (limit = true -> B2R 53 1024 (r_sigma r) <= B2R 53 1024 (r_sigma p))))
    teams (@rate_core binary64 (B64Num exp64 erfc64 pow64 icdf64) k P tau limit teams keys).
Proof. exact FloatRateL.rate_bt_sigma_le_b64. Qed.
Print Assumptions C06_rate_bt_sigma_le_binary64.

(** Non-vacuity.  Stand-ins for libm: [exp := |x|], [x ** 2 := x * x].  beta = 25/6,
    kappa = 2^-13, default gamma.
    [compute], BTP (ladder neighbours): three teams, [(25, 25/3); (30.5, 7.25)], [(27, 6)],
    [(22, 9)] with ranks 0, 1, 1 (the last two tied). *)
Example C06_compute_bt_sigma_le_binary64_example :
  let N := B64Num b64_abs (fun x => x) (fun x => b64_mult mode_NE x x) (fun x => x) in
  let P := @mkParams binary64 (b64_of_bits 4616377268039232171) (b64_of_dyadic 1 (-13))
             (@gamma_default binary64 N) in
  let game := [[@mkRating binary64 (b64_of_bits 4627730092099895296) (b64_of_bits 4620880867666602667) 0%Z NmNone;
                @mkRating binary64 (b64_of_bits 4629278204471803904) (b64_of_bits 4619848792751996928) 1%Z NmNone];
               [@mkRating binary64 (b64_of_Z 27) (b64_of_Z 6) 2%Z NmNone];
               [@mkRating binary64 (b64_of_Z 22) (b64_of_Z 9) 3%Z NmNone]] in
  let trs := @team_ratings binary64 N game [0; 1; 1]%nat in
  Forall2 (Forall2 (fun p r : rating binary64 =>
      is_finite 53 1024 (r_sigma p) = true
      /\ is_finite 53 1024 (r_sigma r) = true
      /\ 0 <= B2R 53 1024 (r_sigma r) <= B2R 53 1024 (r_sigma p)))
    (map t_team trs) (@compute binary64 N BTP P trs)
  /\ forallb (fun tr => forallb (fun pr => b64_ltb (r_sigma (snd pr)) (r_sigma (fst pr)))
                          (combine (fst tr) (snd tr)))
       (combine (map t_team trs) (@compute binary64 N BTP P trs)) = true.
Proof.
  intros N P game trs. split; [|vm_compute; reflexivity].
  apply (C06_compute_bt_sigma_le_binary64 b64_abs (fun x => x) (fun x => b64_mult mode_NE x x) (fun x => x)
           BTP P trs) with (opps := @opponents_part binary64 trs).
  - right. reflexivity.
  - intros x _. apply FloatRateL.b64_abs_nonneg.
  - intros x _. apply FloatRateL.b64_square_nonneg.
  - vm_compute. reflexivity.
  - split; [apply FloatOrderL.b64_sign_nonneg | apply FloatOrderL.b64_leb_one_le_1]; vm_compute; reflexivity.
  - vm_compute. repeat constructor.
  - apply (FloatRateL.b64_nonneg_check (@t_ss binary64)). vm_compute. reflexivity.
  - apply (FloatRateL.b64_nonneg_check2 (@t_team binary64) (@r_sigma binary64)). vm_compute. reflexivity.
  - reflexivity.
  - apply FloatRateL.bt_pair_check. vm_compute. reflexivity.
  - apply FloatRateL.bt_share_delta_check. vm_compute. reflexivity.
  - apply FloatRateL.results_fin_check. vm_compute. reflexivity.
Qed.

(** [rate_core], BTF (all other teams), [limit = true], tau = 2^-4, the same three teams passed
    with rank values 2, 1, 2: the second team wins, the first and the third are tied; the result
    is reported in the order of the input.  Second conjunct (by computation on doubles): every
    posterior sigma is strictly below the prior sigma here. *)
Example C06_rate_bt_sigma_le_binary64_example :
  let N := B64Num b64_abs (fun x => x) (fun x => b64_mult mode_NE x x) (fun x => x) in
  let P := @mkParams binary64 (b64_of_bits 4616377268039232171) (b64_of_dyadic 1 (-13))
             (@gamma_default binary64 N) in
  let tau := b64_of_dyadic 1 (-4) in
  let teams := [[@mkRating binary64 (b64_of_bits 4627730092099895296) (b64_of_bits 4620880867666602667) 0%Z NmNone;
                 @mkRating binary64 (b64_of_bits 4629278204471803904) (b64_of_bits 4619848792751996928) 1%Z NmNone];
                [@mkRating binary64 (b64_of_Z 27) (b64_of_Z 6) 2%Z NmNone];
                [@mkRating binary64 (b64_of_Z 22) (b64_of_Z 9) 3%Z NmNone]] in
  let keys := Some [(2, 0)%Z; (1, 0)%Z; (2, 0)%Z] in
  Forall2 (Forall2 (fun p r : rating binary64 =>
      is_finite 53 1024 (r_sigma r) = true
      /\ 0 <= B2R 53 1024 (r_sigma r) <= B2R 53 1024 (r_sigma (@inflate binary64 N tau p))
      /\ (true = true -> B2R 53 1024 (r_sigma r) <= B2R 53 1024 (r_sigma p))))
    teams (@rate_core binary64 N BTF P tau true teams keys)
  /\ forallb (fun tr => forallb (fun pr => b64_ltb (r_sigma (snd pr)) (r_sigma (fst pr)))
                          (combine (fst tr) (snd tr)))
       (combine teams (@rate_core binary64 N BTF P tau true teams keys)) = true.
Proof.
  intros N P tau teams keys. split; [|vm_compute; reflexivity].
  apply (C06_rate_bt_sigma_le_binary64 b64_abs (fun x => x) (fun x => b64_mult mode_NE x x) (fun x => x)
           BTF P tau true teams keys)
    with (trs := @team_ratings binary64 N
                   (fst (unwind key_leb [(2, 0)%Z; (1, 0)%Z; (2, 0)%Z] (map (map (@inflate binary64 N tau)) teams)))
                   (calc_rankings key_ltb (isort key_leb [(2, 0)%Z; (1, 0)%Z; (2, 0)%Z])))
         (opps := @opponents_full binary64
                    (@team_ratings binary64 N
                       (fst (unwind key_leb [(2, 0)%Z; (1, 0)%Z; (2, 0)%Z] (map (map (@inflate binary64 N tau)) teams)))
                       (calc_rankings key_ltb (isort key_leb [(2, 0)%Z; (1, 0)%Z; (2, 0)%Z])))).
  - left. reflexivity.
  - reflexivity.
  - vm_compute. repeat constructor.
  - intros x _. apply FloatRateL.b64_abs_nonneg.
  - intros x _. apply FloatRateL.b64_square_nonneg.
  - vm_compute. reflexivity.
  - split; [apply FloatOrderL.b64_sign_nonneg | apply FloatOrderL.b64_leb_one_le_1]; vm_compute; reflexivity.
  - apply FloatRateL.sigmas_nonneg_check. vm_compute. reflexivity.
  - reflexivity.
  - reflexivity.
  - apply FloatRateL.bt_pair_check. vm_compute. reflexivity.
  - apply FloatRateL.bt_share_delta_check. vm_compute. reflexivity.
  - apply FloatRateL.results_fin_check. vm_compute. reflexivity.
Qed.

(** ** The whole game in IEEE 754 binary64: Plackett-Luce.

    [C06_rate_pl_sigma_le_binary64] / [C06_compute_pl_sigma_le_binary64]: the same conclusions for
    k = PL.  [c] is the scale [pl_c P trs] and [qs] the list of entries (index, team, sum_q, A_q)
    [compute_pl] folds over.  Hypotheses (a): number of teams <= 2^53 (the tie counts A_q convert
    exactly), exp64 >= 0 and pow64 >= 0 on finite arguments, kappa finite in [0,1], prior sigmas
    >= 0, gamma >= 0 on the arguments it receives; (b): [c] finite, each argument mu_i / c of exp
    finite, each sum [sum_q] finite, share * delta finite for each player, result sigmas finite.
    Derived: finiteness of the team variances (from [c]), of every summand and prefix of the
    sums, of p, 1 - p, each term and every prefix of the accumulated delta, of the factor
    sigma_i^2 / c^2 and its sign (also when c^2 overflows: x / inf = 0), and the rest as for
    Bradley-Terry.  (No ">= 2 teams" premise is needed for this kind.) *)
Theorem C06_compute_pl_sigma_le_binary64 :
  forall (exp64 erfc64 pow64 icdf64 : binary64 -> binary64)
         (P : params binary64) (trs : list (trating binary64)),
  (forall x : binary64, is_finite 53 1024 x = true -> 0 <= B2R 53 1024 (exp64 x)) ->
  (forall x : binary64, is_finite 53 1024 x = true -> 0 <= B2R 53 1024 (pow64 x)) ->
  is_finite 53 1024 (p_kappa P) = true ->
  0 <= B2R 53 1024 (p_kappa P) <= 1 ->
  (Z.of_nat (length trs) <= 9007199254740992)%Z ->
  (forall ti : trating binary64, In ti trs -> 0 <= B2R 53 1024 (t_ss ti)) ->
  (forall ti : trating binary64, In ti trs -> forall p : rating binary64, In p (t_team ti) ->
     0 <= B2R 53 1024 (r_sigma p)) ->
  forall c : binary64, c = @pl_c binary64 (B64Num exp64 erfc64 pow64 icdf64) P trs ->
  forall qs : list (nat * (trating binary64 * (binary64 * nat))),
  qs = combine (seq 0 (length trs))
         (combine trs (combine (@pl_sum_q binary64 (B64Num exp64 erfc64 pow64 icdf64) trs c) (@pl_a binary64 trs))) ->
  is_finite 53 1024 c = true ->
  (forall ti : trating binary64, In ti trs ->
     0 <= B2R 53 1024 (@gamma_of binary64 P c trs ti)
     /\ is_finite 53 1024 (@fdiv binary64 (B64Num exp64 erfc64 pow64 icdf64) (t_mu ti) c) = true) ->
  (forall s : binary64, In s (@pl_sum_q binary64 (B64Num exp64 erfc64 pow64 icdf64) trs c) ->
     is_finite 53 1024 s = true) ->
  (forall (i : nat) (ti : trating binary64) (sq : binary64) (a : nat), In (i, (ti, (sq, a))) qs ->
   forall p : rating binary64, In p (t_team ti) ->
     is_finite 53 1024
       (@fmul binary64 (B64Num exp64 erfc64 pow64 icdf64)
          (@fdiv binary64 (B64Num exp64 erfc64 pow64 icdf64)
             (@fpow2 binary64 (B64Num exp64 erfc64 pow64 icdf64) (r_sigma p)) (t_ss ti))
          (snd (@pl_omega_delta binary64 (B64Num exp64 erfc64 pow64 icdf64) P trs c qs i ti))) = true) ->
  (forall res : list (rating binary64),
     In res (@compute binary64 (B64Num exp64 erfc64 pow64 icdf64) PL P trs) ->
     forall r : rating binary64, In r res -> is_finite 53 1024 (r_sigma r) = true) ->
  Forall2 (Forall2 (fun p r : rating binary64 =>
      is_finite 53 1024 (r_sigma p) = true
      /\ is_finite 53 1024 (r_sigma r) = true
      /\ 0 <= B2R 53 1024 (r_sigma r) <= B2R 53 1024 (r_sigma p)))
    (map t_team trs) (@compute binary64 (B64Num exp64 erfc64 pow64 icdf64) PL P trs).
Proof. exact FloatRateL.compute_pl_sigma_le_b64. Qed.
Print Assumptions C06_compute_pl_sigma_le_binary64.

Theorem C06_rate_pl_sigma_le_binary64 :
  forall (exp64 erfc64 pow64 icdf64 : binary64 -> binary64)
         (P : params binary64) (tau : binary64) (limit : bool)
         (teams : list (list (rating binary64))) (keys : option (list key)),
  match keys with Some ks => length ks = length teams | None => True end ->
  (Z.of_nat (length teams) <= 9007199254740992)%Z ->
  (forall x : binary64, is_finite 53 1024 x = true -> 0 <= B2R 53 1024 (exp64 x)) ->
  (forall x : binary64, is_finite 53 1024 x = true -> 0 <= B2R 53 1024 (pow64 x)) ->
  is_finite 53 1024 (p_kappa P) = true ->
  0 <= B2R 53 1024 (p_kappa P) <= 1 ->
  (forall t : list (rating binary64), In t teams -> forall p : rating binary64, In p t ->
     0 <= B2R 53 1024 (r_sigma p)) ->
  forall trs : list (trating binary64),
  trs = match keys with
        | None =>
            @team_ratings binary64 (B64Num exp64 erfc64 pow64 icdf64)
              (map (map (@inflate binary64 (B64Num exp64 erfc64 pow64 icdf64) tau)) teams)
              (seq 0 (length (map (map (@inflate binary64 (B64Num exp64 erfc64 pow64 icdf64) tau)) teams)))
        | Some ks =>
            @team_ratings binary64 (B64Num exp64 erfc64 pow64 icdf64)
              (fst (unwind key_leb ks (map (map (@inflate binary64 (B64Num exp64 erfc64 pow64 icdf64) tau)) teams)))
              (calc_rankings key_ltb (isort key_leb ks))
        end ->
  forall c : binary64, c = @pl_c binary64 (B64Num exp64 erfc64 pow64 icdf64) P trs ->
  forall qs : list (nat * (trating binary64 * (binary64 * nat))),
  qs = combine (seq 0 (length trs))
         (combine trs (combine (@pl_sum_q binary64 (B64Num exp64 erfc64 pow64 icdf64) trs c) (@pl_a binary64 trs))) ->
  is_finite 53 1024 c = true ->
  (forall ti : trating binary64, In ti trs ->
     0 <= B2R 53 1024 (@gamma_of binary64 P c trs ti)
     /\ is_finite 53 1024 (@fdiv binary64 (B64Num exp64 erfc64 pow64 icdf64) (t_mu ti) c) = true) ->
  (forall s : binary64, In s (@pl_sum_q binary64 (B64Num exp64 erfc64 pow64 icdf64) trs c) ->
     is_finite 53 1024 s = true) ->
  (forall (i : nat) (ti : trating binary64) (sq : binary64) (a : nat), In (i, (ti, (sq, a))) qs ->
   forall p : rating binary64, In p (t_team ti) ->
     is_finite 53 1024
       (@fmul binary64 (B64Num exp64 erfc64 pow64 icdf64)
          (@fdiv binary64 (B64Num exp64 erfc64 pow64 icdf64)
             (@fpow2 binary64 (B64Num exp64 erfc64 pow64 icdf64) (r_sigma p)) (t_ss ti))
          (snd (@pl_omega_delta binary64 (B64Num exp64 erfc64 pow64 icdf64) P trs c qs i ti))) = true) ->
  (forall res : list (rating binary64),
     In res (@compute binary64 (B64Num exp64 erfc64 pow64 icdf64) PL P trs) ->
     forall r : rating binary64, In r res -> is_finite 53 1024 (r_sigma r) = true) ->
  Forall2 (Forall2 (fun p r : rating binary64 =>
      is_finite 53 1024 (r_sigma r) = true
      /\ 0 <= B2R 53 1024 (r_sigma r)
           <= B2R 53 1024 (r_sigma (@inflate binary64 (B64Num exp64 erfc64 pow64 icdf64) tau p))
      /\ (limit = true -> B2R 53 1024 (r_sigma r) <= B2R 53 1024 (r_sigma p))))
    teams (@rate_core binary64 (B64Num exp64 erfc64 pow64 icdf64) PL P tau limit teams keys).
Proof. exact FloatRateL.rate_pl_sigma_le_b64. Qed.
Print Assumptions C06_rate_pl_sigma_le_binary64.

(** Non-vacuity (same stand-ins, parameters and teams as above).  [compute] with ranks 0, 1, 1. *)
Example C06_compute_pl_sigma_le_binary64_example :
  let N := B64Num b64_abs (fun x => x) (fun x => b64_mult mode_NE x x) (fun x => x) in
  let P := @mkParams binary64 (b64_of_bits 4616377268039232171) (b64_of_dyadic 1 (-13))
             (@gamma_default binary64 N) in
  let game := [[@mkRating binary64 (b64_of_bits 4627730092099895296) (b64_of_bits 4620880867666602667) 0%Z NmNone;
                @mkRating binary64 (b64_of_bits 4629278204471803904) (b64_of_bits 4619848792751996928) 1%Z NmNone];
               [@mkRating binary64 (b64_of_Z 27) (b64_of_Z 6) 2%Z NmNone];
               [@mkRating binary64 (b64_of_Z 22) (b64_of_Z 9) 3%Z NmNone]] in
  let trs := @team_ratings binary64 N game [0; 1; 1]%nat in
  Forall2 (Forall2 (fun p r : rating binary64 =>
      is_finite 53 1024 (r_sigma p) = true
      /\ is_finite 53 1024 (r_sigma r) = true
      /\ 0 <= B2R 53 1024 (r_sigma r) <= B2R 53 1024 (r_sigma p)))
    (map t_team trs) (@compute binary64 N PL P trs)
  /\ forallb (fun tr => forallb (fun pr => b64_ltb (r_sigma (snd pr)) (r_sigma (fst pr)))
                          (combine (fst tr) (snd tr)))
       (combine (map t_team trs) (@compute binary64 N PL P trs)) = true.
Proof.
  intros N P game trs. split; [|vm_compute; reflexivity].
  apply (C06_compute_pl_sigma_le_binary64 b64_abs (fun x => x) (fun x => b64_mult mode_NE x x) (fun x => x) P trs)
    with (c := @pl_c binary64 N P trs)
         (qs := combine (seq 0 (length trs))
                  (combine trs (combine (@pl_sum_q binary64 N trs (@pl_c binary64 N P trs)) (@pl_a binary64 trs)))).
  - intros x _. apply FloatRateL.b64_abs_nonneg.
  - intros x _. apply FloatRateL.b64_square_nonneg.
  - vm_compute. reflexivity.
  - split; [apply FloatOrderL.b64_sign_nonneg | apply FloatOrderL.b64_leb_one_le_1]; vm_compute; reflexivity.
  - vm_compute. discriminate.
  - apply (FloatRateL.b64_nonneg_check (@t_ss binary64)). vm_compute. reflexivity.
  - apply (FloatRateL.b64_nonneg_check2 (@t_team binary64) (@r_sigma binary64)). vm_compute. reflexivity.
  - reflexivity.
  - reflexivity.
  - vm_compute. reflexivity.
  - apply FloatRateL.pl_team_check. vm_compute. reflexivity.
  - apply FloatRateL.fin_list_check. vm_compute. reflexivity.
  - apply FloatRateL.pl_share_delta_check. vm_compute. reflexivity.
  - apply FloatRateL.results_fin_check. vm_compute. reflexivity.
Qed.

(** [rate_core], PL, no rank values (teams ranked in the order given), [limit = false], tau = 2^-4.
    Second conjunct (by computation): every posterior sigma is strictly below the inflated sigma. *)
Example C06_rate_pl_sigma_le_binary64_example :
  let N := B64Num b64_abs (fun x => x) (fun x => b64_mult mode_NE x x) (fun x => x) in
  let P := @mkParams binary64 (b64_of_bits 4616377268039232171) (b64_of_dyadic 1 (-13))
             (@gamma_default binary64 N) in
  let tau := b64_of_dyadic 1 (-4) in
  let teams := [[@mkRating binary64 (b64_of_bits 4627730092099895296) (b64_of_bits 4620880867666602667) 0%Z NmNone;
                 @mkRating binary64 (b64_of_bits 4629278204471803904) (b64_of_bits 4619848792751996928) 1%Z NmNone];
                [@mkRating binary64 (b64_of_Z 27) (b64_of_Z 6) 2%Z NmNone];
                [@mkRating binary64 (b64_of_Z 22) (b64_of_Z 9) 3%Z NmNone]] in
  Forall2 (Forall2 (fun p r : rating binary64 =>
      is_finite 53 1024 (r_sigma r) = true
      /\ 0 <= B2R 53 1024 (r_sigma r) <= B2R 53 1024 (r_sigma (@inflate binary64 N tau p))
      /\ (false = true -> B2R 53 1024 (r_sigma r) <= B2R 53 1024 (r_sigma p))))
    teams (@rate_core binary64 N PL P tau false teams None)
  /\ forallb (fun tr => forallb (fun pr => b64_ltb (r_sigma (snd pr)) (r_sigma (@inflate binary64 N tau (fst pr))))
                          (combine (fst tr) (snd tr)))
       (combine teams (@rate_core binary64 N PL P tau false teams None)) = true.
Proof.
  intros N P tau teams. split; [|vm_compute; reflexivity].
  pose (trs := @team_ratings binary64 N (map (map (@inflate binary64 N tau)) teams)
                 (seq 0 (length (map (map (@inflate binary64 N tau)) teams)))).
  apply (C06_rate_pl_sigma_le_binary64 b64_abs (fun x => x) (fun x => b64_mult mode_NE x x) (fun x => x)
           P tau false teams None)
    with (trs := trs) (c := @pl_c binary64 N P trs)
         (qs := combine (seq 0 (length trs))
                  (combine trs (combine (@pl_sum_q binary64 N trs (@pl_c binary64 N P trs)) (@pl_a binary64 trs)))).
  - exact I.
  - vm_compute. discriminate.
  - intros x _. apply FloatRateL.b64_abs_nonneg.
  - intros x _. apply FloatRateL.b64_square_nonneg.
  - vm_compute. reflexivity.
  - split; [apply FloatOrderL.b64_sign_nonneg | apply FloatOrderL.b64_leb_one_le_1]; vm_compute; reflexivity.
  - apply FloatRateL.sigmas_nonneg_check. vm_compute. reflexivity.
  - reflexivity.
  - reflexivity.
  - reflexivity.
  - vm_compute. reflexivity.
  - apply FloatRateL.pl_team_check. vm_compute. reflexivity.
  - apply FloatRateL.fin_list_check. vm_compute. reflexivity.
  - apply FloatRateL.pl_share_delta_check. vm_compute. reflexivity.
  - apply FloatRateL.results_fin_check. vm_compute. reflexivity.
Qed.


(** ** The whole game in IEEE 754 binary64: Thurstone-Mosteller (TMF and TMP) when every
    compared pair of teams is TIED.

    For Thurstone-Mosteller the contribution of a pair (i, q) to delta is
    fl(fl(fl(g * s2c) / c) * W) with W = [w] of Gauss.v for a win/loss and W = [wt] for a tie
    ([tm_term] chooses by the ranks).  [wt] ends with the clamp [min(max(value, 0), 1)], so in
    doubles it is a NaN or a finite double in [0,1] whatever libm computes
    ([C17_wt_range_binary64]); a finite accumulated delta rules the NaN out.  Hence NO premise
    about exp64 / erfc64 / icdf64 is needed below.  (For a win/loss pair the factor [w] is >= 0
    only by the Mills-ratio inequality, which needs the accuracy of libm: not covered; see
    [C17_w_nonneg_binary64_partial].)

    [C06_tm_tie_delta_nonneg_binary64]: the delta accumulated by [tm_term two_c] over opponents
    [opp] that are all tied with [ti] is >= 0 as a double.  [two_c] selects the scale: [c_iq]
    (false, full pairing) or [2 * c_iq] (true, partial pairing).  Premises: sigma_i^2 >= 0, per
    opponent the scale finite and gamma >= 0, the accumulated delta finite.  Derived: the scale
    is > 0 (finite, >= 0, and a finite quotient has a non-zero divisor), every prefix of the sum
    finite, [wt] finite, s2c >= 0.
    [C06_compute_tm_all_tied_sigma_le_binary64]: [compute k P trs], k = TMF or TMP, on team
    ratings that all carry one rank: every posterior sigma is a finite double with
    0 <= sigma' <= the sigma given.  [C06_rate_tm_all_tied_sigma_le_binary64]: the same through
    [rate_core] (tau inflation, sorting, unsorting, [limit_sigma] clamp), when the team ratings
    [rate_sorted] builds all carry one rank (e.g. all rank values passed are equal).
    Hypotheses as for Bradley-Terry above, minus everything about exp: >= 2 teams, pow64 >= 0 on
    finite arguments, kappa finite in [0,1], sigmas >= 0, gamma >= 0, the scale finite per
    compared pair, share * delta finite per player, result sigmas finite. *)
From OSV.Lemmas Require FloatGaussL.

Theorem C06_tm_tie_delta_nonneg_binary64 :
  forall (exp64 erfc64 pow64 icdf64 : binary64 -> binary64)
         (two_c : bool) (P : params binary64) (trs : list (trating binary64)) (ti : trating binary64)
         (opp : list (trating binary64)),
  0 <= B2R 53 1024 (t_ss ti) ->
  (forall tq : trating binary64, In tq opp ->
     t_rank tq = t_rank ti
     /\ is_finite 53 1024
          (if two_c
           then @fmul binary64 (B64Num exp64 erfc64 pow64 icdf64) (@ftwo binary64 (B64Num exp64 erfc64 pow64 icdf64))
                  (@c_iq binary64 (B64Num exp64 erfc64 pow64 icdf64) P ti tq)
           else @c_iq binary64 (B64Num exp64 erfc64 pow64 icdf64) P ti tq) = true
     /\ 0 <= B2R 53 1024
               (@gamma_of binary64 P
                  (if two_c
                   then @fmul binary64 (B64Num exp64 erfc64 pow64 icdf64) (@ftwo binary64 (B64Num exp64 erfc64 pow64 icdf64))
                          (@c_iq binary64 (B64Num exp64 erfc64 pow64 icdf64) P ti tq)
                   else @c_iq binary64 (B64Num exp64 erfc64 pow64 icdf64) P ti tq) trs ti)) ->
  is_finite 53 1024
    (snd (fold_left (@tm_term binary64 (B64Num exp64 erfc64 pow64 icdf64) two_c P trs ti) opp
            (@fzero binary64 (B64Num exp64 erfc64 pow64 icdf64),
             @fzero binary64 (B64Num exp64 erfc64 pow64 icdf64)))) = true ->
  0 <= B2R 53 1024
         (snd (fold_left (@tm_term binary64 (B64Num exp64 erfc64 pow64 icdf64) two_c P trs ti) opp
                 (@fzero binary64 (B64Num exp64 erfc64 pow64 icdf64),
                  @fzero binary64 (B64Num exp64 erfc64 pow64 icdf64)))).
Proof. exact FloatGaussL.tm_tie_delta_nonneg_b64. Qed.
Print Assumptions C06_tm_tie_delta_nonneg_binary64.

Theorem C06_compute_tm_all_tied_sigma_le_binary64 :
  forall (exp64 erfc64 pow64 icdf64 : binary64 -> binary64)
         (k : kind) (P : params binary64) (trs : list (trating binary64)),
  k = TMF \/ k = TMP ->
  (forall x : binary64, is_finite 53 1024 x = true -> 0 <= B2R 53 1024 (pow64 x)) ->
  is_finite 53 1024 (p_kappa P) = true ->
  0 <= B2R 53 1024 (p_kappa P) <= 1 ->
  (2 <= length trs)%nat ->
  (forall ti tq : trating binary64, In ti trs -> In tq trs -> t_rank tq = t_rank ti) ->
  (forall ti : trating binary64, In ti trs -> 0 <= B2R 53 1024 (t_ss ti)) ->
  (forall ti : trating binary64, In ti trs -> forall p : rating binary64, In p (t_team ti) ->
     0 <= B2R 53 1024 (r_sigma p)) ->
  forall (opps : list (trating binary64 * list (trating binary64))) (two_c : bool),
  opps = match k with TMF => @opponents_full binary64 trs | _ => @opponents_part binary64 trs end ->
  two_c = match k with TMF => false | _ => true end ->
  (forall (ti : trating binary64) (opp : list (trating binary64)), In (ti, opp) opps ->
   forall tq : trating binary64, In tq opp ->
     is_finite 53 1024
       (if two_c
        then @fmul binary64 (B64Num exp64 erfc64 pow64 icdf64) (@ftwo binary64 (B64Num exp64 erfc64 pow64 icdf64))
               (@c_iq binary64 (B64Num exp64 erfc64 pow64 icdf64) P ti tq)
        else @c_iq binary64 (B64Num exp64 erfc64 pow64 icdf64) P ti tq) = true
     /\ 0 <= B2R 53 1024
               (@gamma_of binary64 P
                  (if two_c
                   then @fmul binary64 (B64Num exp64 erfc64 pow64 icdf64) (@ftwo binary64 (B64Num exp64 erfc64 pow64 icdf64))
                          (@c_iq binary64 (B64Num exp64 erfc64 pow64 icdf64) P ti tq)
                   else @c_iq binary64 (B64Num exp64 erfc64 pow64 icdf64) P ti tq) trs ti)) ->
  (forall (ti : trating binary64) (opp : list (trating binary64)), In (ti, opp) opps ->
   forall p : rating binary64, In p (t_team ti) ->
     is_finite 53 1024
       (@fmul binary64 (B64Num exp64 erfc64 pow64 icdf64)
          (@fdiv binary64 (B64Num exp64 erfc64 pow64 icdf64)
             (@fpow2 binary64 (B64Num exp64 erfc64 pow64 icdf64) (r_sigma p)) (t_ss ti))
          (snd (fold_left (@tm_term binary64 (B64Num exp64 erfc64 pow64 icdf64) two_c P trs ti) opp
                  (@fzero binary64 (B64Num exp64 erfc64 pow64 icdf64),
                   @fzero binary64 (B64Num exp64 erfc64 pow64 icdf64))))) = true) ->
  (forall res : list (rating binary64),
     In res (@compute binary64 (B64Num exp64 erfc64 pow64 icdf64) k P trs) ->
     forall r : rating binary64, In r res -> is_finite 53 1024 (r_sigma r) = true) ->
  Forall2 (Forall2 (fun p r : rating binary64 =>
      is_finite 53 1024 (r_sigma p) = true
      /\ is_finite 53 1024 (r_sigma r) = true
      /\ 0 <= B2R 53 1024 (r_sigma r) <= B2R 53 1024 (r_sigma p)))
    (map t_team trs) (@compute binary64 (B64Num exp64 erfc64 pow64 icdf64) k P trs).
Proof. exact FloatGaussL.compute_tm_all_tied_sigma_le_b64. Qed.
Print Assumptions C06_compute_tm_all_tied_sigma_le_binary64.

Theorem C06_rate_tm_all_tied_sigma_le_binary64 :
  forall (exp64 erfc64 pow64 icdf64 : binary64 -> binary64)
         (k : kind) (P : params binary64) (tau : binary64) (limit : bool)
         (teams : list (list (rating binary64))) (keys : option (list key)),
  k = TMF \/ k = TMP ->
  match keys with Some ks => length ks = length teams | None => True end ->
  (2 <= length teams)%nat ->
  (forall x : binary64, is_finite 53 1024 x = true -> 0 <= B2R 53 1024 (pow64 x)) ->
  is_finite 53 1024 (p_kappa P) = true ->
  0 <= B2R 53 1024 (p_kappa P) <= 1 ->
  (forall t : list (rating binary64), In t teams -> forall p : rating binary64, In p t ->
     0 <= B2R 53 1024 (r_sigma p)) ->
  forall trs : list (trating binary64),
  trs = match keys with
        | None =>
            @team_ratings binary64 (B64Num exp64 erfc64 pow64 icdf64)
              (map (map (@inflate binary64 (B64Num exp64 erfc64 pow64 icdf64) tau)) teams)
              (seq 0 (length (map (map (@inflate binary64 (B64Num exp64 erfc64 pow64 icdf64) tau)) teams)))
        | Some ks =>
            @team_ratings binary64 (B64Num exp64 erfc64 pow64 icdf64)
              (fst (unwind key_leb ks (map (map (@inflate binary64 (B64Num exp64 erfc64 pow64 icdf64) tau)) teams)))
              (calc_rankings key_ltb (isort key_leb ks))
        end ->
  (forall ti tq : trating binary64, In ti trs -> In tq trs -> t_rank tq = t_rank ti) ->
  forall (opps : list (trating binary64 * list (trating binary64))) (two_c : bool),
  opps = match k with TMF => @opponents_full binary64 trs | _ => @opponents_part binary64 trs end ->
  two_c = match k with TMF => false | _ => true end ->
  (forall (ti : trating binary64) (opp : list (trating binary64)), In (ti, opp) opps ->
   forall tq : trating binary64, In tq opp ->
     is_finite 53 1024
       (if two_c
        then @fmul binary64 (B64Num exp64 erfc64 pow64 icdf64) (@ftwo binary64 (B64Num exp64 erfc64 pow64 icdf64))
               (@c_iq binary64 (B64Num exp64 erfc64 pow64 icdf64) P ti tq)
        else @c_iq binary64 (B64Num exp64 erfc64 pow64 icdf64) P ti tq) = true
     /\ 0 <= B2R 53 1024
               (@gamma_of binary64 P
                  (if two_c
                   then @fmul binary64 (B64Num exp64 erfc64 pow64 icdf64) (@ftwo binary64 (B64Num exp64 erfc64 pow64 icdf64))
                          (@c_iq binary64 (B64Num exp64 erfc64 pow64 icdf64) P ti tq)
                   else @c_iq binary64 (B64Num exp64 erfc64 pow64 icdf64) P ti tq) trs ti)) ->
  (forall (ti : trating binary64) (opp : list (trating binary64)), In (ti, opp) opps ->
   forall p : rating binary64, In p (t_team ti) ->
     is_finite 53 1024
       (@fmul binary64 (B64Num exp64 erfc64 pow64 icdf64)
          (@fdiv binary64 (B64Num exp64 erfc64 pow64 icdf64)
             (@fpow2 binary64 (B64Num exp64 erfc64 pow64 icdf64) (r_sigma p)) (t_ss ti))
          (snd (fold_left (@tm_term binary64 (B64Num exp64 erfc64 pow64 icdf64) two_c P trs ti) opp
                  (@fzero binary64 (B64Num exp64 erfc64 pow64 icdf64),
                   @fzero binary64 (B64Num exp64 erfc64 pow64 icdf64))))) = true) ->
  (forall res : list (rating binary64),
     In res (@compute binary64 (B64Num exp64 erfc64 pow64 icdf64) k P trs) ->
     forall r : rating binary64, In r res -> is_finite 53 1024 (r_sigma r) = true) ->
  Forall2 (Forall2 (fun p r : rating binary64 =>
      is_finite 53 1024 (r_sigma r) = true
      /\ 0 <= B2R 53 1024 (r_sigma r)
           <= B2R 53 1024 (r_sigma (@inflate binary64 (B64Num exp64 erfc64 pow64 icdf64) tau p))
      /\ (limit = true -> B2R 53 1024 (r_sigma r) <= B2R 53 1024 (r_sigma p))))
    teams (@rate_core binary64 (B64Num exp64 erfc64 pow64 icdf64) k P tau limit teams keys).
Proof. exact FloatGaussL.rate_tm_all_tied_sigma_le_b64. Qed.
Print Assumptions C06_rate_tm_all_tied_sigma_le_binary64.

(** Non-vacuity.  Stand-ins for libm: [exp := |x|], [erfc := FloatGaussL.step_erfc] (2.0 / 1.0 /
    0.0 on negative / zero / positive arguments), [x ** 2 := x * x].  beta = 25/6, kappa = 0.75,
    default gamma.  Three teams [(25, 25/3); (30.5, 7.25)], [(27, 6); (28.25, 5)], [(55, 9)]: team
    means 55.5, 55.25, 55, all tied.  The mean differences are below kappa, so every [wt] call
    takes its dividing branch (the clamp is exercised, not the constant 1.0).
    Delta of the first team against the two others, full pairing: >= 0, and > 0 by computation. *)
Example C06_tm_tie_delta_nonneg_binary64_example :
  let N := B64Num b64_abs FloatGaussL.step_erfc (fun x => b64_mult mode_NE x x) (fun x => x) in
  let P := @mkParams binary64 (b64_of_bits 4616377268039232171) (b64_of_dyadic 3 (-2))
             (@gamma_default binary64 N) in
  let game := [[@mkRating binary64 (b64_of_bits 4627730092099895296) (b64_of_bits 4620880867666602667) 0%Z NmNone;
                @mkRating binary64 (b64_of_bits 4629278204471803904) (b64_of_bits 4619848792751996928) 1%Z NmNone];
               [@mkRating binary64 (b64_of_Z 27) (b64_of_Z 6) 2%Z NmNone;
                @mkRating binary64 (b64_of_dyadic 113 (-2)) (b64_of_Z 5) 3%Z NmNone];
               [@mkRating binary64 (b64_of_Z 55) (b64_of_Z 9) 4%Z NmNone]] in
  let trs := @team_ratings binary64 N game [0; 0; 0]%nat in
  let ti := nth 0 trs (@mkT binary64 (b64_of_Z 0) (b64_of_Z 0) [] 0) in
  let opp := tl trs in
  0 <= B2R 53 1024
         (snd (fold_left (@tm_term binary64 N false P trs ti) opp (@fzero binary64 N, @fzero binary64 N)))
  /\ b64_ltb (@fzero binary64 N)
       (snd (fold_left (@tm_term binary64 N false P trs ti) opp (@fzero binary64 N, @fzero binary64 N))) = true
  /\ forallb (fun tq =>
        negb (@fltb binary64 N
          (@fsub binary64 N
             (@Gauss.cdf binary64 N (@fsub binary64 N (@fdiv binary64 N (p_kappa P) (@c_iq binary64 N P ti tq))
                (@fabs binary64 N (@fdiv binary64 N (@fsub binary64 N (t_mu ti) (t_mu tq)) (@c_iq binary64 N P ti tq)))))
             (@Gauss.cdf binary64 N (@fsub binary64 N (@fneg binary64 N (@fdiv binary64 N (p_kappa P) (@c_iq binary64 N P ti tq)))
                (@fabs binary64 N (@fdiv binary64 N (@fsub binary64 N (t_mu ti) (t_mu tq)) (@c_iq binary64 N P ti tq))))))
          (@feps binary64 N))) opp = true.
Proof.
  intros N P game trs ti opp. split; [|split; vm_compute; reflexivity].
  apply (C06_tm_tie_delta_nonneg_binary64 b64_abs FloatGaussL.step_erfc (fun x => b64_mult mode_NE x x) (fun x => x)
           false P trs ti opp).
  - apply FloatOrderL.b64_sign_nonneg. vm_compute. reflexivity.
  - intros tq [<-|[<-|[]]]; (split; [reflexivity|]); (split; [vm_compute; reflexivity|]);
      apply FloatOrderL.b64_sign_nonneg; vm_compute; reflexivity.
  - vm_compute. reflexivity.
Qed.

(** [compute], TMP (ladder neighbours, scale 2 * c_iq), the same three tied teams; second
    conjunct (by computation on doubles): every posterior sigma is strictly below the sigma given *)
Example C06_compute_tm_all_tied_sigma_le_binary64_example :
  let N := B64Num b64_abs FloatGaussL.step_erfc (fun x => b64_mult mode_NE x x) (fun x => x) in
  let P := @mkParams binary64 (b64_of_bits 4616377268039232171) (b64_of_dyadic 3 (-2))
             (@gamma_default binary64 N) in
  let game := [[@mkRating binary64 (b64_of_bits 4627730092099895296) (b64_of_bits 4620880867666602667) 0%Z NmNone;
                @mkRating binary64 (b64_of_bits 4629278204471803904) (b64_of_bits 4619848792751996928) 1%Z NmNone];
               [@mkRating binary64 (b64_of_Z 27) (b64_of_Z 6) 2%Z NmNone;
                @mkRating binary64 (b64_of_dyadic 113 (-2)) (b64_of_Z 5) 3%Z NmNone];
               [@mkRating binary64 (b64_of_Z 55) (b64_of_Z 9) 4%Z NmNone]] in
  let trs := @team_ratings binary64 N game [0; 0; 0]%nat in
  Forall2 (Forall2 (fun p r : rating binary64 =>
      is_finite 53 1024 (r_sigma p) = true
      /\ is_finite 53 1024 (r_sigma r) = true
      /\ 0 <= B2R 53 1024 (r_sigma r) <= B2R 53 1024 (r_sigma p)))
    (map t_team trs) (@compute binary64 N TMP P trs)
  /\ forallb (fun tr => forallb (fun pr => b64_ltb (r_sigma (snd pr)) (r_sigma (fst pr)))
                          (combine (fst tr) (snd tr)))
       (combine (map t_team trs) (@compute binary64 N TMP P trs)) = true.
Proof.
  intros N P game trs. split; [|vm_compute; reflexivity].
  apply (C06_compute_tm_all_tied_sigma_le_binary64 b64_abs FloatGaussL.step_erfc (fun x => b64_mult mode_NE x x) (fun x => x)
           TMP P trs) with (opps := @opponents_part binary64 trs) (two_c := true).
  - right. reflexivity.
  - intros x _. apply FloatRateL.b64_square_nonneg.
  - vm_compute. reflexivity.
  - split; [apply FloatOrderL.b64_sign_nonneg | apply FloatOrderL.b64_leb_one_le_1]; vm_compute; reflexivity.
  - vm_compute. repeat constructor.
  - apply FloatGaussL.ranks_tied_check. vm_compute. reflexivity.
  - apply (FloatRateL.b64_nonneg_check (@t_ss binary64)). vm_compute. reflexivity.
  - apply (FloatRateL.b64_nonneg_check2 (@t_team binary64) (@r_sigma binary64)). vm_compute. reflexivity.
  - reflexivity.
  - reflexivity.
  - apply (FloatGaussL.tm_pair_check b64_abs FloatGaussL.step_erfc (fun x => b64_mult mode_NE x x) (fun x => x) true).
    vm_compute. reflexivity.
  - apply (FloatGaussL.tm_share_delta_check b64_abs FloatGaussL.step_erfc (fun x => b64_mult mode_NE x x) (fun x => x) true).
    vm_compute. reflexivity.
  - apply FloatRateL.results_fin_check. vm_compute. reflexivity.
Qed.

(** [rate_core], TMF (all other teams), [limit = true], tau = 2^-7, the same teams passed with
    equal rank values 1, 1, 1; second conjunct (by computation on doubles): every posterior sigma
    is strictly below the prior sigma here (with tau = 2^-4 four of the five would be cut back
    to exactly the prior sigma by the [limit_sigma] clamp) *)
Example C06_rate_tm_all_tied_sigma_le_binary64_example :
  let N := B64Num b64_abs FloatGaussL.step_erfc (fun x => b64_mult mode_NE x x) (fun x => x) in
  let P := @mkParams binary64 (b64_of_bits 4616377268039232171) (b64_of_dyadic 3 (-2))
             (@gamma_default binary64 N) in
  let tau := b64_of_dyadic 1 (-7) in
  let teams := [[@mkRating binary64 (b64_of_bits 4627730092099895296) (b64_of_bits 4620880867666602667) 0%Z NmNone;
                 @mkRating binary64 (b64_of_bits 4629278204471803904) (b64_of_bits 4619848792751996928) 1%Z NmNone];
                [@mkRating binary64 (b64_of_Z 27) (b64_of_Z 6) 2%Z NmNone;
                 @mkRating binary64 (b64_of_dyadic 113 (-2)) (b64_of_Z 5) 3%Z NmNone];
                [@mkRating binary64 (b64_of_Z 55) (b64_of_Z 9) 4%Z NmNone]] in
  let keys := Some [(1, 0)%Z; (1, 0)%Z; (1, 0)%Z] in
  Forall2 (Forall2 (fun p r : rating binary64 =>
      is_finite 53 1024 (r_sigma r) = true
      /\ 0 <= B2R 53 1024 (r_sigma r) <= B2R 53 1024 (r_sigma (@inflate binary64 N tau p))
      /\ (true = true -> B2R 53 1024 (r_sigma r) <= B2R 53 1024 (r_sigma p))))
    teams (@rate_core binary64 N TMF P tau true teams keys)
  /\ forallb (fun tr => forallb (fun pr => b64_ltb (r_sigma (snd pr)) (r_sigma (fst pr)))
                          (combine (fst tr) (snd tr)))
       (combine teams (@rate_core binary64 N TMF P tau true teams keys)) = true.
Proof.
  intros N P tau teams keys. split; [|vm_compute; reflexivity].
  apply (C06_rate_tm_all_tied_sigma_le_binary64 b64_abs FloatGaussL.step_erfc (fun x => b64_mult mode_NE x x) (fun x => x)
           TMF P tau true teams keys)
    with (trs := @team_ratings binary64 N
                   (fst (unwind key_leb [(1, 0)%Z; (1, 0)%Z; (1, 0)%Z] (map (map (@inflate binary64 N tau)) teams)))
                   (calc_rankings key_ltb (isort key_leb [(1, 0)%Z; (1, 0)%Z; (1, 0)%Z])))
         (opps := @opponents_full binary64
                    (@team_ratings binary64 N
                       (fst (unwind key_leb [(1, 0)%Z; (1, 0)%Z; (1, 0)%Z] (map (map (@inflate binary64 N tau)) teams)))
                       (calc_rankings key_ltb (isort key_leb [(1, 0)%Z; (1, 0)%Z; (1, 0)%Z]))))
         (two_c := false).
  - left. reflexivity.
  - reflexivity.
  - vm_compute. repeat constructor.
  - intros x _. apply FloatRateL.b64_square_nonneg.
  - vm_compute. reflexivity.
  - split; [apply FloatOrderL.b64_sign_nonneg | apply FloatOrderL.b64_leb_one_le_1]; vm_compute; reflexivity.
  - apply FloatRateL.sigmas_nonneg_check. vm_compute. reflexivity.
  - reflexivity.
  - apply FloatGaussL.ranks_tied_check. vm_compute. reflexivity.
  - reflexivity.
  - reflexivity.
  - apply (FloatGaussL.tm_pair_check b64_abs FloatGaussL.step_erfc (fun x => b64_mult mode_NE x x) (fun x => x) false).
    vm_compute. reflexivity.
  - apply (FloatGaussL.tm_share_delta_check b64_abs FloatGaussL.step_erfc (fun x => b64_mult mode_NE x x) (fun x => x) false).
    vm_compute. reflexivity.
  - apply FloatRateL.results_fin_check. vm_compute. reflexivity.
Qed.

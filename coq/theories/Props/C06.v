(** * C06: sigma stays positive, grows by at most tau per game, and limit_sigma caps it.

    All statements are over the reals, on the model instantiated with [RNum Phi Phiinv].
    The Thurstone-Mosteller kinds need the range of the correction W (from [gf_mills] and
    [gf_sampford]); hence a [GaussFacts Phi Phiinv] premise for "all kinds", and separate
    [_PL_BT] statements, without that premise, for Plackett-Luce and Bradley-Terry.

    Non-vacuity: the [GaussFacts] premise is instantiated: [GaussInst.PhiK] is the standard
    normal distribution function constructed in GaussInst.v, [GaussInst.PhiinvK] its inverse,
    and [GaussFull.GaussFacts_inst : GaussFacts GaussInst.PhiK GaussInst.PhiinvK] is proved
    without hypothesis (calculus facts in GaussCalc.v, the value of the Gaussian integral in
    GaussIntegral.v).  Every theorem with a [GaussFacts] premise has an [_inst] corollary at
    the end of the file, stated for [GaussInst.PhiK] / [GaussInst.PhiinvK] with that premise
    removed: nothing about the normal distribution is assumed any more; the only remaining
    link is that CPython's NormalDist computes this function.  The examples below instantiate
    the [_PL_BT] statements (where [Phi], [Phiinv] are arbitrary) on a concrete valid game,
    and show that the league fold really plays a concrete game ([game_ok] = true).

    Edge of the property text made precise by the statements: with limit_sigma in force and
    a prior sigma of exactly 0 (valid when tau > 0) the clamp returns sigma' = 0, so strict
    positivity is claimed for [limit = false \/ 0 < sigma] only ([C06_limit]: then
    0 <= sigma' <= sigma = 0).  With kappa = 0 only sigma' >= 0 holds ([C06_step_kappa0]).

    The league ([C06L.game], [C06L.play], [C06L.run]): a state is the list of the players'
    ratings; a game lists its teams by player indices, with its keys, effective tau and
    effective limit_sigma; [play] extracts the ratings, runs [rate_core] and writes the results
    back; a game that is not valid in the current state ([C06L.game_ok]: >= 2 teams, non-empty
    teams, indices in range and distinct, tau >= 0, sigma >= 0 with sigma^2 + tau^2 > 0, keys
    of the right length) is skipped.  [C06L.plays i g] = player [i] is listed in game [g]. *)
From Coq Require Import List ZArith Bool Reals Lra.
From OSV Require Import Num Order Core RInst.
From OSV.Lemmas Require C06L.
From OSV Require GaussInst GaussFull.
Import ListNotations.
Open Scope R_scope.

(** after [rate], every sigma is >= 0 and at most sqrt(sigma^2 + tau^2); it is > 0 unless limit_sigma clamps it to a prior sigma of 0 *)
Theorem C06_step :
  forall (Phi Phiinv : R -> R), GaussFacts Phi Phiinv ->
  forall (k : kind) (P : params R) (tau : R) (limit : bool)
         (teams : list (list (rating R))) (keys : option (list key)),
  (2 <= length teams)%nat ->
  Forall (fun t : list (rating R) => t <> []) teams ->
  0 < p_beta P -> 0 < p_kappa P <= 1 -> 0 <= tau ->
  Forall (Forall (fun p : rating R => 0 <= r_sigma p /\ 0 < r_sigma p * r_sigma p + tau * tau)) teams ->
  (forall (c : R) (n : nat) (mu ss : R) (team : list (rating R)) (rank : nat),
     0 <= p_gamma P c n mu ss team rank) ->
  match keys with Some ks => length ks = length teams | None => True end ->
  Forall2 (Forall2 (fun p r : rating R =>
      0 <= r_sigma r <= sqrt (r_sigma p * r_sigma p + tau * tau) /\
      (limit = false \/ 0 < r_sigma p -> 0 < r_sigma r)))
    teams (@rate_core R (RNum Phi Phiinv) k P tau limit teams keys).
Proof. exact C06L.C06_step_thm. Qed.
Print Assumptions C06_step.

(** the same for PL and BT, no Gaussian premise *)
Theorem C06_step_PL_BT :
  forall (Phi Phiinv : R -> R) (k : kind), k = PL \/ k = BTF \/ k = BTP ->
  forall (P : params R) (tau : R) (limit : bool)
         (teams : list (list (rating R))) (keys : option (list key)),
  (2 <= length teams)%nat ->
  Forall (fun t : list (rating R) => t <> []) teams ->
  0 < p_beta P -> 0 < p_kappa P <= 1 -> 0 <= tau ->
  Forall (Forall (fun p : rating R => 0 <= r_sigma p /\ 0 < r_sigma p * r_sigma p + tau * tau)) teams ->
  (forall (c : R) (n : nat) (mu ss : R) (team : list (rating R)) (rank : nat),
     0 <= p_gamma P c n mu ss team rank) ->
  match keys with Some ks => length ks = length teams | None => True end ->
  Forall2 (Forall2 (fun p r : rating R =>
      0 <= r_sigma r <= sqrt (r_sigma p * r_sigma p + tau * tau) /\
      (limit = false \/ 0 < r_sigma p -> 0 < r_sigma r)))
    teams (@rate_core R (RNum Phi Phiinv) k P tau limit teams keys).
Proof. exact C06L.C06_step_PL_BT_thm. Qed.
Print Assumptions C06_step_PL_BT.

(** kappa = 0: sigma' >= 0 only (the floor 0 can be reached), same upper bounds *)
Theorem C06_step_kappa0 :
  forall (Phi Phiinv : R -> R), GaussFacts Phi Phiinv ->
  forall (k : kind) (P : params R) (tau : R) (limit : bool)
         (teams : list (list (rating R))) (keys : option (list key)),
  (2 <= length teams)%nat ->
  Forall (fun t : list (rating R) => t <> []) teams ->
  0 < p_beta P -> p_kappa P = 0 -> 0 <= tau ->
  Forall (Forall (fun p : rating R => 0 <= r_sigma p /\ 0 < r_sigma p * r_sigma p + tau * tau)) teams ->
  (forall (c : R) (n : nat) (mu ss : R) (team : list (rating R)) (rank : nat),
     0 <= p_gamma P c n mu ss team rank) ->
  match keys with Some ks => length ks = length teams | None => True end ->
  Forall2 (Forall2 (fun p r : rating R =>
      0 <= r_sigma r <= sqrt (r_sigma p * r_sigma p + tau * tau) /\
      (limit = true -> r_sigma r <= r_sigma p)))
    teams (@rate_core R (RNum Phi Phiinv) k P tau limit teams keys).
Proof. exact C06L.C06_step_kappa0_thm. Qed.
Print Assumptions C06_step_kappa0.

(** the same for PL and BT *)
Theorem C06_step_kappa0_PL_BT :
  forall (Phi Phiinv : R -> R) (k : kind), k = PL \/ k = BTF \/ k = BTP ->
  forall (P : params R) (tau : R) (limit : bool)
         (teams : list (list (rating R))) (keys : option (list key)),
  (2 <= length teams)%nat ->
  Forall (fun t : list (rating R) => t <> []) teams ->
  0 < p_beta P -> p_kappa P = 0 -> 0 <= tau ->
  Forall (Forall (fun p : rating R => 0 <= r_sigma p /\ 0 < r_sigma p * r_sigma p + tau * tau)) teams ->
  (forall (c : R) (n : nat) (mu ss : R) (team : list (rating R)) (rank : nat),
     0 <= p_gamma P c n mu ss team rank) ->
  match keys with Some ks => length ks = length teams | None => True end ->
  Forall2 (Forall2 (fun p r : rating R =>
      0 <= r_sigma r <= sqrt (r_sigma p * r_sigma p + tau * tau) /\
      (limit = true -> r_sigma r <= r_sigma p)))
    teams (@rate_core R (RNum Phi Phiinv) k P tau limit teams keys).
Proof. exact C06L.C06_step_kappa0_PL_BT_thm. Qed.
Print Assumptions C06_step_kappa0_PL_BT.

(** limit_sigma in force: sigma' <= prior sigma, and sigma' > 0 when the prior sigma is > 0 *)
Theorem C06_limit :
  forall (Phi Phiinv : R -> R), GaussFacts Phi Phiinv ->
  forall (k : kind) (P : params R) (tau : R)
         (teams : list (list (rating R))) (keys : option (list key)),
  (2 <= length teams)%nat ->
  Forall (fun t : list (rating R) => t <> []) teams ->
  0 < p_beta P -> 0 < p_kappa P <= 1 -> 0 <= tau ->
  Forall (Forall (fun p : rating R => 0 <= r_sigma p /\ 0 < r_sigma p * r_sigma p + tau * tau)) teams ->
  (forall (c : R) (n : nat) (mu ss : R) (team : list (rating R)) (rank : nat),
     0 <= p_gamma P c n mu ss team rank) ->
  match keys with Some ks => length ks = length teams | None => True end ->
  Forall2 (Forall2 (fun p r : rating R =>
      0 <= r_sigma r <= r_sigma p /\ (0 < r_sigma p -> 0 < r_sigma r)))
    teams (@rate_core R (RNum Phi Phiinv) k P tau true teams keys).
Proof. exact C06L.C06_limit_thm. Qed.
Print Assumptions C06_limit.

(** the same for PL and BT *)
Theorem C06_limit_PL_BT :
  forall (Phi Phiinv : R -> R) (k : kind), k = PL \/ k = BTF \/ k = BTP ->
  forall (P : params R) (tau : R)
         (teams : list (list (rating R))) (keys : option (list key)),
  (2 <= length teams)%nat ->
  Forall (fun t : list (rating R) => t <> []) teams ->
  0 < p_beta P -> 0 < p_kappa P <= 1 -> 0 <= tau ->
  Forall (Forall (fun p : rating R => 0 <= r_sigma p /\ 0 < r_sigma p * r_sigma p + tau * tau)) teams ->
  (forall (c : R) (n : nat) (mu ss : R) (team : list (rating R)) (rank : nat),
     0 <= p_gamma P c n mu ss team rank) ->
  match keys with Some ks => length ks = length teams | None => True end ->
  Forall2 (Forall2 (fun p r : rating R =>
      0 <= r_sigma r <= r_sigma p /\ (0 < r_sigma p -> 0 < r_sigma r)))
    teams (@rate_core R (RNum Phi Phiinv) k P tau true teams keys).
Proof. exact C06L.C06_limit_PL_BT_thm. Qed.
Print Assumptions C06_limit_PL_BT.

(** one game of a league, for any player index i (in the game or not, game valid or skipped) *)
Theorem C06_history_step :
  forall (Phi Phiinv : R -> R), GaussFacts Phi Phiinv ->
  forall (k : kind) (P : params R),
  0 < p_beta P -> 0 <= p_kappa P <= 1 ->
  (forall (c : R) (n : nat) (mu ss : R) (team : list (rating R)) (rank : nat),
     0 <= p_gamma P c n mu ss team rank) ->
  forall (g : C06L.game) (st : list (rating R)) (i : nat),
  ((C06L.plays i g = true -> C06L.g_limit g = true) ->
     r_sigma (C06L.get (C06L.play Phi Phiinv P k st g) i) <= r_sigma (C06L.get st i))
  /\ r_sigma (C06L.get (C06L.play Phi Phiinv P k st g) i) * r_sigma (C06L.get (C06L.play Phi Phiinv P k st g) i)
     <= r_sigma (C06L.get st i) * r_sigma (C06L.get st i)
        + (if C06L.plays i g then C06L.g_tau g * C06L.g_tau g else 0)
  /\ (0 < p_kappa P -> 0 < r_sigma (C06L.get st i) ->
      0 < r_sigma (C06L.get (C06L.play Phi Phiinv P k st g) i)).
Proof. exact C06L.C06_history_step_thm. Qed.
Print Assumptions C06_history_step.

(** the same for PL and BT *)
Theorem C06_history_step_PL_BT :
  forall (Phi Phiinv : R -> R) (k : kind), k = PL \/ k = BTF \/ k = BTP ->
  forall (P : params R),
  0 < p_beta P -> 0 <= p_kappa P <= 1 ->
  (forall (c : R) (n : nat) (mu ss : R) (team : list (rating R)) (rank : nat),
     0 <= p_gamma P c n mu ss team rank) ->
  forall (g : C06L.game) (st : list (rating R)) (i : nat),
  ((C06L.plays i g = true -> C06L.g_limit g = true) ->
     r_sigma (C06L.get (C06L.play Phi Phiinv P k st g) i) <= r_sigma (C06L.get st i))
  /\ r_sigma (C06L.get (C06L.play Phi Phiinv P k st g) i) * r_sigma (C06L.get (C06L.play Phi Phiinv P k st g) i)
     <= r_sigma (C06L.get st i) * r_sigma (C06L.get st i)
        + (if C06L.plays i g then C06L.g_tau g * C06L.g_tau g else 0)
  /\ (0 < p_kappa P -> 0 < r_sigma (C06L.get st i) ->
      0 < r_sigma (C06L.get (C06L.play Phi Phiinv P k st g) i)).
Proof. exact C06L.C06_history_step_PL_BT_thm. Qed.
Print Assumptions C06_history_step_PL_BT.

(** any history [gs] from any state [st], any player [i]:
    (a) if limit_sigma is in force in every game that lists the player, sigma does not increase;
    (b) sigma_n^2 <= sigma_0^2 + the sum of tau_g^2 over the games g that list the player;
    (c) kappa > 0: a positive sigma stays positive *)
Theorem C06_history :
  forall (Phi Phiinv : R -> R), GaussFacts Phi Phiinv ->
  forall (k : kind) (P : params R),
  0 < p_beta P -> 0 <= p_kappa P <= 1 ->
  (forall (c : R) (n : nat) (mu ss : R) (team : list (rating R)) (rank : nat),
     0 <= p_gamma P c n mu ss team rank) ->
  forall (gs : list C06L.game) (st : list (rating R)) (i : nat),
  ((forall g : C06L.game, In g gs -> C06L.plays i g = true -> C06L.g_limit g = true) ->
     r_sigma (C06L.get (C06L.run Phi Phiinv P k st gs) i) <= r_sigma (C06L.get st i))
  /\ r_sigma (C06L.get (C06L.run Phi Phiinv P k st gs) i) * r_sigma (C06L.get (C06L.run Phi Phiinv P k st gs) i)
     <= r_sigma (C06L.get st i) * r_sigma (C06L.get st i)
        + Rsum (map (fun g : C06L.game => if C06L.plays i g then C06L.g_tau g * C06L.g_tau g else 0) gs)
  /\ (0 < p_kappa P -> 0 < r_sigma (C06L.get st i) ->
      0 < r_sigma (C06L.get (C06L.run Phi Phiinv P k st gs) i)).
Proof. exact C06L.C06_history_thm. Qed.
Print Assumptions C06_history.

(** the same for PL and BT *)
Theorem C06_history_PL_BT :
  forall (Phi Phiinv : R -> R) (k : kind), k = PL \/ k = BTF \/ k = BTP ->
  forall (P : params R),
  0 < p_beta P -> 0 <= p_kappa P <= 1 ->
  (forall (c : R) (n : nat) (mu ss : R) (team : list (rating R)) (rank : nat),
     0 <= p_gamma P c n mu ss team rank) ->
  forall (gs : list C06L.game) (st : list (rating R)) (i : nat),
  ((forall g : C06L.game, In g gs -> C06L.plays i g = true -> C06L.g_limit g = true) ->
     r_sigma (C06L.get (C06L.run Phi Phiinv P k st gs) i) <= r_sigma (C06L.get st i))
  /\ r_sigma (C06L.get (C06L.run Phi Phiinv P k st gs) i) * r_sigma (C06L.get (C06L.run Phi Phiinv P k st gs) i)
     <= r_sigma (C06L.get st i) * r_sigma (C06L.get st i)
        + Rsum (map (fun g : C06L.game => if C06L.plays i g then C06L.g_tau g * C06L.g_tau g else 0) gs)
  /\ (0 < p_kappa P -> 0 < r_sigma (C06L.get st i) ->
      0 < r_sigma (C06L.get (C06L.run Phi Phiinv P k st gs) i)).
Proof. exact C06L.C06_history_PL_BT_thm. Qed.
Print Assumptions C06_history_PL_BT.

(** ** Non-vacuity: a concrete valid game (two teams, one player with prior sigma 0, tau = 1,
    limit_sigma on, ranks given) satisfies the hypotheses of the [_PL_BT] statements;
    [Phi], [Phiinv] are arbitrary there. *)
Example C06_step_PL_BT_example :
  let P := @mkParams R 4 (/ 10000) (fun _ _ _ _ _ _ => 1) in
  let a := @mkRating R 25 8 1%Z NmNone in
  let b := @mkRating R 30 0 2%Z NmNone in
  let c := @mkRating R 20 3 3%Z NmNone in
  Forall2 (Forall2 (fun p r : rating R =>
      0 <= r_sigma r <= sqrt (r_sigma p * r_sigma p + 1 * 1) /\
      (true = false \/ 0 < r_sigma p -> 0 < r_sigma r)))
    [[a; b]; [c]]
    (@rate_core R (RNum (fun _ => 0) (fun _ => 0)) PL P 1 true [[a; b]; [c]] (Some [(2, 0)%Z; (1, 0)%Z])).
Proof.
  intros P a b c.
  apply (C06_step_PL_BT (fun _ => 0) (fun _ => 0) PL (or_introl eq_refl) P 1 true).
  - cbn. repeat constructor.
  - repeat (apply Forall_cons || apply Forall_nil); discriminate.
  - cbn. lra.
  - cbn. lra.
  - lra.
  - repeat (apply Forall_cons || apply Forall_nil); cbn; lra.
  - intros. cbn. lra.
  - reflexivity.
Qed.

Example C06_step_kappa0_PL_BT_example :
  let P := @mkParams R 4 (0) (fun _ _ _ _ _ _ => 1) in
  let a := @mkRating R 25 8 1%Z NmNone in
  let b := @mkRating R 30 0 2%Z NmNone in
  let c := @mkRating R 20 3 3%Z NmNone in
  Forall2 (Forall2 (fun p r : rating R =>
      0 <= r_sigma r <= sqrt (r_sigma p * r_sigma p + 1 * 1) /\
      (true = true -> r_sigma r <= r_sigma p)))
    [[a; b]; [c]]
    (@rate_core R (RNum (fun _ => 0) (fun _ => 0)) PL P 1 true [[a; b]; [c]] (Some [(2, 0)%Z; (1, 0)%Z])).
Proof.
  intros P a b c.
  apply (C06_step_kappa0_PL_BT (fun _ => 0) (fun _ => 0) PL (or_introl eq_refl) P 1 true).
  - cbn. repeat constructor.
  - repeat (apply Forall_cons || apply Forall_nil); discriminate.
  - cbn. lra.
  - reflexivity.
  - lra.
  - repeat (apply Forall_cons || apply Forall_nil); cbn; lra.
  - intros. cbn. lra.
  - reflexivity.
Qed.

Example C06_limit_PL_BT_example :
  let P := @mkParams R 4 (/ 10000) (fun _ _ _ _ _ _ => 1) in
  let a := @mkRating R 25 8 1%Z NmNone in
  let b := @mkRating R 30 0 2%Z NmNone in
  let c := @mkRating R 20 3 3%Z NmNone in
  Forall2 (Forall2 (fun p r : rating R =>
      0 <= r_sigma r <= r_sigma p /\ (0 < r_sigma p -> 0 < r_sigma r)))
    [[a; b]; [c]]
    (@rate_core R (RNum (fun _ => 0) (fun _ => 0)) PL P 1 true [[a; b]; [c]] (Some [(2, 0)%Z; (1, 0)%Z])).
Proof.
  intros P a b c.
  apply (C06_limit_PL_BT (fun _ => 0) (fun _ => 0) PL (or_introl eq_refl) P 1).
  - cbn. repeat constructor.
  - repeat (apply Forall_cons || apply Forall_nil); discriminate.
  - cbn. lra.
  - cbn. lra.
  - lra.
  - repeat (apply Forall_cons || apply Forall_nil); cbn; lra.
  - intros. cbn. lra.
  - reflexivity.
Qed.

(** the league fold does play this game (it is valid in the state [a; b; c]), and the
    model hypotheses of [C06_history_PL_BT] are those of the examples above *)
Example C06_league_game_ok_example :
  let a := @mkRating R 25 8 1%Z NmNone in
  let b := @mkRating R 30 0 2%Z NmNone in
  let c := @mkRating R 20 3 3%Z NmNone in
  C06L.game_ok [a; b; c]
    (C06L.mkGame [[0%nat; 1%nat]; [2%nat]] (Some [(2, 0)%Z; (1, 0)%Z]) 1 true) = true.
Proof.
  intros a b c. unfold C06L.game_ok. cbn -[Rleb Rltb].
  repeat (rewrite (proj2 (Rleb_true _ _)) by lra).
  repeat (rewrite (proj2 (Rltb_true _ _)) by lra).
  reflexivity.
Qed.

(** ** The [GaussFacts] premise instantiated.

    Each theorem above that takes [GaussFacts Phi Phiinv] as a premise is restated here for
    the concrete standard normal distribution function [GaussInst.PhiK] and its inverse
    [GaussInst.PhiinvK] (constructed in GaussInst.v), with no premise about the normal law:
    [GaussFull.GaussFacts_inst : GaussFacts GaussInst.PhiK GaussInst.PhiinvK] is proved
    outright (calculus facts in GaussCalc.v, the Gaussian integral in GaussIntegral.v). *)
Theorem C06_step_inst :
  forall (k : kind) (P : params R) (tau : R) (limit : bool)
         (teams : list (list (rating R))) (keys : option (list key)),
  (2 <= length teams)%nat ->
  Forall (fun t : list (rating R) => t <> []) teams ->
  0 < p_beta P -> 0 < p_kappa P <= 1 -> 0 <= tau ->
  Forall (Forall (fun p : rating R => 0 <= r_sigma p /\ 0 < r_sigma p * r_sigma p + tau * tau)) teams ->
  (forall (c : R) (n : nat) (mu ss : R) (team : list (rating R)) (rank : nat),
     0 <= p_gamma P c n mu ss team rank) ->
  match keys with Some ks => length ks = length teams | None => True end ->
  Forall2 (Forall2 (fun p r : rating R =>
      0 <= r_sigma r <= sqrt (r_sigma p * r_sigma p + tau * tau) /\
      (limit = false \/ 0 < r_sigma p -> 0 < r_sigma r)))
    teams (@rate_core R (RNum GaussInst.PhiK GaussInst.PhiinvK) k P tau limit teams keys).
Proof. exact (C06_step GaussInst.PhiK GaussInst.PhiinvK GaussFull.GaussFacts_inst). Qed.
Print Assumptions C06_step_inst.

Theorem C06_step_kappa0_inst :
  forall (k : kind) (P : params R) (tau : R) (limit : bool)
         (teams : list (list (rating R))) (keys : option (list key)),
  (2 <= length teams)%nat ->
  Forall (fun t : list (rating R) => t <> []) teams ->
  0 < p_beta P -> p_kappa P = 0 -> 0 <= tau ->
  Forall (Forall (fun p : rating R => 0 <= r_sigma p /\ 0 < r_sigma p * r_sigma p + tau * tau)) teams ->
  (forall (c : R) (n : nat) (mu ss : R) (team : list (rating R)) (rank : nat),
     0 <= p_gamma P c n mu ss team rank) ->
  match keys with Some ks => length ks = length teams | None => True end ->
  Forall2 (Forall2 (fun p r : rating R =>
      0 <= r_sigma r <= sqrt (r_sigma p * r_sigma p + tau * tau) /\
      (limit = true -> r_sigma r <= r_sigma p)))
    teams (@rate_core R (RNum GaussInst.PhiK GaussInst.PhiinvK) k P tau limit teams keys).
Proof. exact (C06_step_kappa0 GaussInst.PhiK GaussInst.PhiinvK GaussFull.GaussFacts_inst). Qed.
Print Assumptions C06_step_kappa0_inst.

Theorem C06_limit_inst :
  forall (k : kind) (P : params R) (tau : R)
         (teams : list (list (rating R))) (keys : option (list key)),
  (2 <= length teams)%nat ->
  Forall (fun t : list (rating R) => t <> []) teams ->
  0 < p_beta P -> 0 < p_kappa P <= 1 -> 0 <= tau ->
  Forall (Forall (fun p : rating R => 0 <= r_sigma p /\ 0 < r_sigma p * r_sigma p + tau * tau)) teams ->
  (forall (c : R) (n : nat) (mu ss : R) (team : list (rating R)) (rank : nat),
     0 <= p_gamma P c n mu ss team rank) ->
  match keys with Some ks => length ks = length teams | None => True end ->
  Forall2 (Forall2 (fun p r : rating R =>
      0 <= r_sigma r <= r_sigma p /\ (0 < r_sigma p -> 0 < r_sigma r)))
    teams (@rate_core R (RNum GaussInst.PhiK GaussInst.PhiinvK) k P tau true teams keys).
Proof. exact (C06_limit GaussInst.PhiK GaussInst.PhiinvK GaussFull.GaussFacts_inst). Qed.
Print Assumptions C06_limit_inst.

Theorem C06_history_step_inst :
  forall (k : kind) (P : params R),
  0 < p_beta P -> 0 <= p_kappa P <= 1 ->
  (forall (c : R) (n : nat) (mu ss : R) (team : list (rating R)) (rank : nat),
     0 <= p_gamma P c n mu ss team rank) ->
  forall (g : C06L.game) (st : list (rating R)) (i : nat),
  ((C06L.plays i g = true -> C06L.g_limit g = true) ->
     r_sigma (C06L.get (C06L.play GaussInst.PhiK GaussInst.PhiinvK P k st g) i) <= r_sigma (C06L.get st i))
  /\ r_sigma (C06L.get (C06L.play GaussInst.PhiK GaussInst.PhiinvK P k st g) i) * r_sigma (C06L.get (C06L.play GaussInst.PhiK GaussInst.PhiinvK P k st g) i)
     <= r_sigma (C06L.get st i) * r_sigma (C06L.get st i)
        + (if C06L.plays i g then C06L.g_tau g * C06L.g_tau g else 0)
  /\ (0 < p_kappa P -> 0 < r_sigma (C06L.get st i) ->
      0 < r_sigma (C06L.get (C06L.play GaussInst.PhiK GaussInst.PhiinvK P k st g) i)).
Proof. exact (C06_history_step GaussInst.PhiK GaussInst.PhiinvK GaussFull.GaussFacts_inst). Qed.
Print Assumptions C06_history_step_inst.

Theorem C06_history_inst :
  forall (k : kind) (P : params R),
  0 < p_beta P -> 0 <= p_kappa P <= 1 ->
  (forall (c : R) (n : nat) (mu ss : R) (team : list (rating R)) (rank : nat),
     0 <= p_gamma P c n mu ss team rank) ->
  forall (gs : list C06L.game) (st : list (rating R)) (i : nat),
  ((forall g : C06L.game, In g gs -> C06L.plays i g = true -> C06L.g_limit g = true) ->
     r_sigma (C06L.get (C06L.run GaussInst.PhiK GaussInst.PhiinvK P k st gs) i) <= r_sigma (C06L.get st i))
  /\ r_sigma (C06L.get (C06L.run GaussInst.PhiK GaussInst.PhiinvK P k st gs) i) * r_sigma (C06L.get (C06L.run GaussInst.PhiK GaussInst.PhiinvK P k st gs) i)
     <= r_sigma (C06L.get st i) * r_sigma (C06L.get st i)
        + Rsum (map (fun g : C06L.game => if C06L.plays i g then C06L.g_tau g * C06L.g_tau g else 0) gs)
  /\ (0 < p_kappa P -> 0 < r_sigma (C06L.get st i) ->
      0 < r_sigma (C06L.get (C06L.run GaussInst.PhiK GaussInst.PhiinvK P k st gs) i)).
Proof. exact (C06_history GaussInst.PhiK GaussInst.PhiinvK GaussFull.GaussFacts_inst). Qed.
Print Assumptions C06_history_inst.

(** * C14: stateless calls — results independent of call history, identity and interleaving.

    Reading of the model.  [run p st] gives the effect trace, the final model state and the
    outcome of one call run alone.  The model is a deterministic function of the model state
    (the construction parameters), the Python values passed and nothing else: there is no
    hidden input such as a hash seed or an object address, so independence of those is by
    construction; what is proved here is independence of everything that IS an input:
    earlier calls (through the state), ids and names of the rating objects, and — for the
    interleaving semantics of Threads.v — the schedule.

    Threads.v: a pool of threads (trace so far, residual program) over ONE shared model state;
    [exec sched (init ps, st)] runs the schedule [sched] (a list of thread indices), one
    effect per step: reads see the current shared state, writes update it, mutations of rating
    objects are recorded in the thread's own trace (the threads' rating objects are disjoint,
    as the property assumes, so they are not shared state). *)
From Coq Require Import List ZArith Bool.
From OSV Require Import Num Order Core Predict PyVal Prog Threads.
From OSV.Lemmas Require Import ProgL C14L.
Import ListNotations.

(** ** no call changes any attribute of the model object, on any input (accepted or rejected) *)
Theorem C14_state_unchanged : forall (F : Type) (N : Num F) k (teams ranks scores tau limit : pyval F) st,
  (snd (fst (run (rate_prog k teams ranks scores tau limit) st)) = st /\
   forall ev, In ev (fst (fst (run (rate_prog k teams ranks scores tau limit) st))) ->
              match ev with EWrF _ _ | EWrLimit _ => False | _ => True end) /\
  (snd (fst (run (predict_win_prog k teams) st)) = st /\
   forall ev, In ev (fst (fst (run (predict_win_prog k teams) st))) ->
              match ev with EWrF _ _ | EWrLimit _ => False | _ => True end) /\
  (snd (fst (run (predict_draw_prog k teams) st)) = st /\
   forall ev, In ev (fst (fst (run (predict_draw_prog k teams) st))) ->
              match ev with EWrF _ _ | EWrLimit _ => False | _ => True end) /\
  (snd (fst (run (predict_rank_prog k teams) st)) = st /\
   forall ev, In ev (fst (fst (run (predict_rank_prog k teams) st))) ->
              match ev with EWrF _ _ | EWrLimit _ => False | _ => True end).
Proof. intros; repeat apply conj; first [apply state_unchanged_rate | apply state_unchanged_predict]. Qed.
Print Assumptions C14_state_unchanged.

(** syntactically: the programs contain no write to the shared state on any path *)
Theorem C14_no_writes : forall (F : Type) (N : Num F) k (teams ranks scores tau limit : pyval F),
  no_writes (rate_prog k teams ranks scores tau limit) /\
  no_writes (predict_win_prog k teams) /\
  no_writes (predict_draw_prog k teams) /\
  no_writes (predict_rank_prog k teams).
Proof. intros; repeat apply conj; first [apply no_writes_rate_prog | apply no_writes_predict_prog]. Qed.
Print Assumptions C14_no_writes.

(** ** histories.  [call] = rate with its arguments or one of the three predicts;
    [call_prog c] is the corresponding program with its result tagged ([C14_call_prog]);
    [run_calls cs st] runs the calls one after the other on one model, threading the state. *)
Theorem C14_call_prog : forall (F : Type) (N : Num F) (c : call) (st : mstate F),
  run (call_prog c) st =
  match c with
  | CRate k teams ranks scores tau limit =>
      let r := run (rate_prog k teams ranks scores tau limit) st in
      (fst (fst r), snd (fst r), match snd r with Ok a => Ok (VRate a) | Raise e => Raise e end)
  | CWin k teams =>
      let r := run (predict_win_prog k teams) st in
      (fst (fst r), snd (fst r), match snd r with Ok a => Ok (VWin a) | Raise e => Raise e end)
  | CDraw k teams =>
      let r := run (predict_draw_prog k teams) st in
      (fst (fst r), snd (fst r), match snd r with Ok a => Ok (VDraw a) | Raise e => Raise e end)
  | CRank k teams =>
      let r := run (predict_rank_prog k teams) st in
      (fst (fst r), snd (fst r), match snd r with Ok a => Ok (VRank a) | Raise e => Raise e end)
  end.
Proof. exact (@run_call_prog). Qed.
Print Assumptions C14_call_prog.

(** the outcome (effect trace and result) of the i-th call of ANY history equals its
    outcome when it is run alone from the initial state; the state after the history is
    the initial state *)
Theorem C14_history : forall (F : Type) (N : Num F) (cs : list call) (st : mstate F) (i : nat) (c : call),
  nth_error cs i = Some c ->
  nth_error (fst (run_calls cs st)) i =
    Some (fst (fst (run (call_prog c) st)), snd (run (call_prog c) st)) /\
  snd (run_calls cs st) = st.
Proof. exact (@history). Qed.
Print Assumptions C14_history.

(** ** ids, names, object identity.
    [pv_map f v] applies [f] to every rating object inside the Python value [v].
    Relabelling: ids and names are mapped through arbitrary functions (of the old id and
    name).  Provided the gamma callback of the model does not look at ids / names, the call
    on the relabelled ratings has the same effect trace (the rating mutations carry the same
    numbers), and its result is the relabelled result: same (mu, sigma) everywhere. *)
Theorem C14_ids_irrelevant : forall (F : Type) (N : Num F) (fi : Z -> name -> Z) (fn : Z -> name -> name)
    (st : mstate F) k (teams ranks scores tau limit : pyval F),
  let f := fun r : rating F => mkRating (r_mu r) (r_sigma r) (fi (r_id r) (r_name r)) (fn (r_id r) (r_name r)) in
  (forall c n mu ss t rank, m_gamma st c n mu ss (map f t) rank = m_gamma st c n mu ss t rank) ->
  run (rate_prog k (pv_map f teams) ranks scores tau limit) st =
  (fst (fst (run (rate_prog k teams ranks scores tau limit) st)),
   snd (fst (run (rate_prog k teams ranks scores tau limit) st)),
   match snd (run (rate_prog k teams ranks scores tau limit) st) with
   | Ok r => Ok (map (map f) r)
   | Raise e => Raise e
   end).
Proof. exact (@rate_prog_relabel). Qed.
Print Assumptions C14_ids_irrelevant.

(** the same for any map on rating objects that keeps mu and sigma and whose effect on id
    and name does not depend on mu and sigma (object identity: "another object with the
    same numbers") *)
Theorem C14_ids_irrelevant_general : forall (F : Type) (N : Num F) (f : rating F -> rating F),
  (forall r, r_mu (f r) = r_mu r) -> (forall r, r_sigma (f r) = r_sigma r) ->
  (forall r m s, f (set_mu_sigma r m s) = set_mu_sigma (f r) m s) ->
  forall st : mstate F,
  (forall c n mu ss t rank, m_gamma st c n mu ss (map f t) rank = m_gamma st c n mu ss t rank) ->
  forall k (teams ranks scores tau limit : pyval F),
  run (rate_prog k (pv_map f teams) ranks scores tau limit) st =
  (fst (fst (run (rate_prog k teams ranks scores tau limit) st)),
   snd (fst (run (rate_prog k teams ranks scores tau limit) st)),
   match snd (run (rate_prog k teams ranks scores tau limit) st) with
   | Ok r => Ok (map (map f) r)
   | Raise e => Raise e
   end).
Proof. exact (@rate_prog_pv). Qed.
Print Assumptions C14_ids_irrelevant_general.

(** predict: any map on rating objects that keeps mu and sigma changes nothing at all
    (no hypothesis on the model) *)
Theorem C14_ids_irrelevant_predict : forall (F : Type) (N : Num F) (f : rating F -> rating F),
  (forall r, r_mu (f r) = r_mu r) -> (forall r, r_sigma (f r) = r_sigma r) ->
  forall k (teams : pyval F) (st : mstate F),
  run (predict_win_prog k (pv_map f teams)) st = run (predict_win_prog k teams) st /\
  run (predict_draw_prog k (pv_map f teams)) st = run (predict_draw_prog k teams) st /\
  run (predict_rank_prog k (pv_map f teams)) st = run (predict_rank_prog k teams) st.
Proof. exact (@predict_pv). Qed.
Print Assumptions C14_ids_irrelevant_predict.

(** the numbers returned depend only on the model state (construction parameters), the
    (mu, sigma) values of the ratings passed and the call's own arguments: two [teams] values
    that coincide once ids and names are erased (same shape, same kinds, same numbers) give
    the same effect trace, the same final state, and results with the same numbers
    (or the same exception).  Hypothesis: the gamma callback looks at the numbers only. *)
Theorem C14_values_only : forall (F : Type) (N : Num F) k (teams1 teams2 ranks scores tau limit : pyval F) (st : mstate F),
  (forall c n mu ss (t1 t2 : list (rating F)) rank,
     map (fun r => (r_mu r, r_sigma r)) t1 = map (fun r => (r_mu r, r_sigma r)) t2 ->
     m_gamma st c n mu ss t1 rank = m_gamma st c n mu ss t2 rank) ->
  pv_map (fun r => mkRating (r_mu r) (r_sigma r) 0%Z NmNone) teams1 =
  pv_map (fun r => mkRating (r_mu r) (r_sigma r) 0%Z NmNone) teams2 ->
  fst (run (rate_prog k teams1 ranks scores tau limit) st) =
  fst (run (rate_prog k teams2 ranks scores tau limit) st) /\
  match snd (run (rate_prog k teams1 ranks scores tau limit) st) with
  | Ok r => Ok (map (map (fun r => (r_mu r, r_sigma r))) r) | Raise e => Raise e end =
  match snd (run (rate_prog k teams2 ranks scores tau limit) st) with
  | Ok r => Ok (map (map (fun r => (r_mu r, r_sigma r))) r) | Raise e => Raise e end.
Proof. exact (@rate_values_only). Qed.
Print Assumptions C14_values_only.

Theorem C14_values_only_predict : forall (F : Type) (N : Num F) k (teams1 teams2 : pyval F) (st : mstate F),
  pv_map (fun r => mkRating (r_mu r) (r_sigma r) 0%Z NmNone) teams1 =
  pv_map (fun r => mkRating (r_mu r) (r_sigma r) 0%Z NmNone) teams2 ->
  run (predict_win_prog k teams1) st = run (predict_win_prog k teams2) st /\
  run (predict_draw_prog k teams1) st = run (predict_draw_prog k teams2) st /\
  run (predict_rank_prog k teams1) st = run (predict_rank_prog k teams2) st.
Proof. exact (@predict_values_only). Qed.
Print Assumptions C14_values_only_predict.

(** ** interleavings.
    For a pool of programs none of which writes to the shared state, under EVERY schedule:
    the shared state stays the initial one, and every thread that has run to completion
    ([finished q = Some o]) has emitted exactly the trace and reached exactly the outcome it
    has when run alone from the initial state — in particular when the schedule runs all
    threads to completion, and whatever order a sequential execution would use. *)
Theorem C14_interleaving : forall (F A : Type) (ps : list (prog F A)) (st : mstate F) (sched : list nat),
  Forall (fun p => no_writes p) ps ->
  snd (exec sched (init ps, st)) = st /\
  length (fst (exec sched (init ps, st))) = length ps /\
  forall i p tr q o,
    nth_error ps i = Some p ->
    nth_error (fst (exec sched (init ps, st))) i = Some (tr, q) ->
    finished q = Some o ->
    run p st = (tr, st, o).
Proof. exact (@interleaving). Qed.
Print Assumptions C14_interleaving.

(** instantiated: any rate / predict calls, any arguments, no hypothesis *)
Theorem C14_interleaving_calls : forall (F : Type) (N : Num F) (cs : list call) (st : mstate F) (sched : list nat),
  snd (exec sched (init (map call_prog cs), st)) = st /\
  forall i c tr q o,
    nth_error cs i = Some c ->
    nth_error (fst (exec sched (init (map call_prog cs), st))) i = Some (tr, q) ->
    finished q = Some o ->
    run (call_prog c) st = (tr, st, o).
Proof. exact (@interleaving_calls). Qed.
Print Assumptions C14_interleaving_calls.

(** every pool has a schedule that runs all threads to completion (not vacuous) *)
Theorem C14_complete_schedule_exists : forall (F A : Type) (ps : list (prog F A)) (st : mstate F),
  exists sched, all_finished (fst (exec sched (init ps, st))).
Proof. exact (@complete_schedule_exists). Qed.
Print Assumptions C14_complete_schedule_exists.

(** ** non-vacuity, on the concrete carrier [ZNum] (integers) of Lemmas/ProgL.v *)

(** a history: the second call's outcome is what it is when run alone *)
Example C14_history_ex :
  let c1 := CRate PL (ex_teams PL) ex_ranks PNone (PInt 3) (PBool true) in
  let c2 := CRate PL (ex_teams PL) PNone ex_scores PNone PNone in
  nth_error (fst (@run_calls Z ZNum [c1; CWin PL (ex_teams PL); c2] ex_state)) 2 =
  Some (fst (fst (run (@call_prog Z ZNum c2) ex_state)), snd (run (@call_prog Z ZNum c2) ex_state)).
Proof. vm_compute. reflexivity. Qed.

(** the default gamma satisfies the hypotheses of [C14_ids_irrelevant] / [C14_values_only] *)
Example C14_gamma_default_ex : forall (f : rating Z -> rating Z) c n mu ss t rank,
  m_gamma ex_state c n mu ss (map f t) rank = m_gamma ex_state c n mu ss t rank.
Proof. intros; reflexivity. Qed.

(** two threads (a rate call and a predict call) interleaved: both finish with the outcome
    they have alone *)
Example C14_interleaving_ex :
  let cs := [CRate PL (ex_teams PL) ex_ranks PNone PNone PNone; CWin PL (ex_teams PL)] in
  let sched := [0; 0; 0; 1; 0; 0; 0; 0; 0; 0; 0; 0; 0; 0; 0; 0; 0]%nat in
  map (fun tq => finished (snd tq)) (fst (exec sched (init (map (@call_prog Z ZNum) cs), ex_state))) =
  map (fun c => Some (snd (run (@call_prog Z ZNum c) ex_state))) cs.
Proof. vm_compute. reflexivity. Qed.

(** the semantics is not trivial: with writes to the shared state an interleaving does
    change a thread's result (thread 0 alone reads back its own 5; interleaved it reads 7) *)
Example C14_interleaving_sensitive_ex :
  let t0 : prog Z Z := WrF ATau 5%Z (RdF ATau Ret) in
  let t1 : prog Z Z := WrF ATau 7%Z (RdF ATau Ret) in
  snd (run t0 ex_state) = Ok 5%Z /\
  map (fun tq => finished (snd tq)) (fst (exec [0; 1; 0; 1]%nat (init [t0; t1], ex_state))) =
  [Some (Ok 7%Z); Some (Ok 7%Z)].
Proof. split; vm_compute; reflexivity. Qed.

(** a concrete relabelling (new ids, names set): same trace, relabelled result *)
Example C14_ids_ex :
  let f := fun r : rating Z => mkRating (r_mu r) (r_sigma r) (r_id r + 100)%Z (NmStr true (r_id r)) in
  run (@rate_prog Z ZNum TMP (pv_map f (ex_teams TMP)) ex_ranks PNone PNone (PBool true)) ex_state =
  (fst (fst (run (@rate_prog Z ZNum TMP (ex_teams TMP) ex_ranks PNone PNone (PBool true)) ex_state)),
   ex_state,
   match snd (run (@rate_prog Z ZNum TMP (ex_teams TMP) ex_ranks PNone PNone (PBool true)) ex_state) with
   | Ok r => Ok (map (map f) r) | Raise e => Raise e end) /\
  exists r, snd (run (@rate_prog Z ZNum TMP (ex_teams TMP) ex_ranks PNone PNone (PBool true)) ex_state) = Ok r.
Proof. split; [vm_compute; reflexivity|eexists; vm_compute; reflexivity]. Qed.

(** * C09 — "predict_win returns a probability distribution that respects symmetry and skill".

    Valid domain: at least two teams, no empty team, beta > 0 (sigma >= 0 is not needed:
    only sigma^2 enters).  [C09_length] and [C09_two_identical_half] are carrier-polymorphic
    (they hold verbatim for binary64); the others are over R and use [gc_range], [gc_sym],
    [gc_mono] of [GaussCDF Phi Phiinv].

    Non-vacuity: the premise [GaussCDF Phi Phiinv] IS instantiated, without any hypothesis,
    by [GaussInst.GaussCDF_inst : GaussCDF GaussInst.PhiK GaussInst.PhiinvK], where
    [GaussInst.PhiK x = 1/2 + (int_0^x exp(-t^2/2) dt) / (2 I)] is the standard normal
    distribution function (the only fact about it that is not proved is the numeric value of
    its normalising constant, 2 * I = sqrt (2 * pi), which these theorems do not need).
    Every theorem with that premise has a premise-free corollary [<name>_inst] at the end of
    the file; the polymorphic theorems are instantiated on concrete carriers below.

    "To floating-point accuracy" (equality of the probabilities of identical teams under
    permutation in binary64) is not a theorem over R, where the equalities are exact; it is
    covered by the monitors (DESIGN.md §7, C09). *)
From Coq Require Import List ZArith Reals Permutation.
From OSV Require Import Num Gauss Core Predict RInst.
From OSV Require GaussInst.
From OSV.Lemmas Require PredictL C09L.
Import ListNotations.

(** One number per team (any number type). *)
Theorem C09_length : forall (F : Type) (N : Num F) (beta : F) (teams : list (list (rating F))),
  length (predict_win beta teams) = length teams.
Proof. intros F N beta teams. exact (PredictL.predict_win_length beta teams). Qed.
Print Assumptions C09_length.

Example C09_length_ex :
  length (@predict_win Z C09L.ZHalfNum 8%Z [[mkRating 50%Z 16%Z 0%Z NmNone]; [mkRating 44%Z 9%Z 1%Z NmNone];
                                            [mkRating 40%Z 9%Z 2%Z NmNone; mkRating 41%Z 9%Z 3%Z NmNone]]) = 3%nat.
Proof. apply C09_length. Qed.

(** Two identical teams get exactly one half each, on every carrier on which
    [x - x = 0], [0 / s = 0], [cdf 0 = 1/2] and [1 - 1/2 = 1/2] (true in R, and in binary64
    for finite [x] and finite non-zero [s]). *)
Theorem C09_two_identical_half : forall (F : Type) (N : Num F),
  (forall x : F, fsub x x = fzero) ->
  (forall s : F, fdiv fzero s = fzero) ->
  cdf (fzero : F) = fhalf ->
  fsub (fone : F) fhalf = fhalf ->
  forall (beta : F) (t : list (rating F)), predict_win beta [t; t] = [fhalf; fhalf].
Proof. intros F N L1 L2 L3 L4 beta t. exact (C09L.two_identical_half L1 L2 L3 L4 beta t). Qed.
Print Assumptions C09_two_identical_half.

(** a concrete carrier with the four laws: fixed-point numbers with unit 1/2 on Z
    ([C09L.ZHalfNum]: the integer [v] stands for [v / 2], so [fhalf = 1], [fone = 2]) *)
Example C09_two_identical_half_laws_ex :
  (forall x : Z, @fsub Z C09L.ZHalfNum x x = @fzero Z C09L.ZHalfNum)
  /\ (forall s : Z, @fdiv Z C09L.ZHalfNum (@fzero Z C09L.ZHalfNum) s = @fzero Z C09L.ZHalfNum)
  /\ @cdf Z C09L.ZHalfNum (@fzero Z C09L.ZHalfNum) = @fhalf Z C09L.ZHalfNum
  /\ @fsub Z C09L.ZHalfNum (@fone Z C09L.ZHalfNum) (@fhalf Z C09L.ZHalfNum) = @fhalf Z C09L.ZHalfNum.
Proof. exact C09L.ZHalf_laws. Qed.
Example C09_two_identical_half_ex :
  @predict_win Z C09L.ZHalfNum 8%Z [[mkRating 50%Z 16%Z 0%Z NmNone; mkRating 44%Z 9%Z 1%Z NmNone];
                                    [mkRating 50%Z 16%Z 0%Z NmNone; mkRating 44%Z 9%Z 1%Z NmNone]]
  = [1%Z; 1%Z].
Proof. vm_compute. reflexivity. Qed.

Open Scope R_scope.

(** ... in particular over R. *)
Theorem C09_two_identical_half_R : forall (Phi Phiinv : R -> R), GaussCDF Phi Phiinv ->
  forall (beta : R) (t : list (rating R)), 0 < beta -> t <> [] ->
  predict_win (H := RNum Phi Phiinv) beta [t; t] = [/ 2; / 2].
Proof. intros Phi Phiinv GF beta t Hb Ht. exact (C09L.C09_two_identical_half_R Phi Phiinv GF beta t Ht). Qed.
Print Assumptions C09_two_identical_half_R.

(** Every value is in [0, 1] ... *)
Theorem C09_range : forall (Phi Phiinv : R -> R), GaussCDF Phi Phiinv ->
  forall (beta : R) (teams : list (list (rating R))) (v : R),
  0 < beta -> (2 <= length teams)%nat -> Forall (fun t => t <> []) teams ->
  In v (predict_win (H := RNum Phi Phiinv) beta teams) -> 0 <= v <= 1.
Proof. intros Phi Phiinv GF beta teams v Hb. exact (C09L.C09_range Phi Phiinv GF beta teams v). Qed.
Print Assumptions C09_range.

(** ... in fact strictly inside. *)
Theorem C09_range_strict : forall (Phi Phiinv : R -> R), GaussCDF Phi Phiinv ->
  forall (beta : R) (teams : list (list (rating R))) (v : R),
  0 < beta -> (2 <= length teams)%nat -> Forall (fun t => t <> []) teams ->
  In v (predict_win (H := RNum Phi Phiinv) beta teams) -> 0 < v < 1.
Proof. intros Phi Phiinv GF beta teams v Hb. exact (C09L.C09_range_strict Phi Phiinv GF beta teams v). Qed.
Print Assumptions C09_range_strict.

(** The values sum to 1. *)
Theorem C09_sum_one : forall (Phi Phiinv : R -> R), GaussCDF Phi Phiinv ->
  forall (beta : R) (teams : list (list (rating R))),
  0 < beta -> (2 <= length teams)%nat -> Forall (fun t => t <> []) teams ->
  Rsum (predict_win (H := RNum Phi Phiinv) beta teams) = 1.
Proof. intros Phi Phiinv GF beta teams Hb. exact (C09L.C09_sum_one Phi Phiinv GF beta teams). Qed.
Print Assumptions C09_sum_one.

(** Permuting the teams permutes the result: the (team, probability) pairs of a permuted
    call are a permutation of the pairs of the original call (any permutation, any number
    of teams >= 2, including the swap of two teams). *)
Theorem C09_equivariant : forall (Phi Phiinv : R -> R), GaussCDF Phi Phiinv ->
  forall (beta : R) (teams teams' : list (list (rating R))),
  0 < beta -> (2 <= length teams)%nat -> Forall (fun t => t <> []) teams ->
  Permutation teams teams' ->
  Permutation (combine teams (predict_win (H := RNum Phi Phiinv) beta teams))
              (combine teams' (predict_win (H := RNum Phi Phiinv) beta teams')).
Proof. intros Phi Phiinv GF beta teams teams' Hb. exact (C09L.C09_equivariant Phi Phiinv GF beta teams teams'). Qed.
Print Assumptions C09_equivariant.

(** Positional form: if team [j] of the original call sits at position [i] of the permuted
    call, it gets the same probability there. *)
Theorem C09_equivariant_nth : forall (Phi Phiinv : R -> R), GaussCDF Phi Phiinv ->
  forall (beta : R) (teams teams' : list (list (rating R))) (i j : nat),
  0 < beta -> (2 <= length teams)%nat -> Forall (fun t => t <> []) teams ->
  Permutation teams teams' -> (i < length teams')%nat -> (j < length teams)%nat ->
  nth i teams' [] = nth j teams [] ->
  nth i (predict_win (H := RNum Phi Phiinv) beta teams') 0 = nth j (predict_win (H := RNum Phi Phiinv) beta teams) 0.
Proof. intros Phi Phiinv GF beta teams teams' i j Hb. exact (C09L.C09_equivariant_nth Phi Phiinv GF beta teams teams' i j). Qed.
Print Assumptions C09_equivariant_nth.

(** Teams with the same aggregate (sum of mu, sum of sigma^2) — in particular identical
    teams — get identical probabilities. *)
Theorem C09_identical_equal : forall (Phi Phiinv : R -> R), GaussCDF Phi Phiinv ->
  forall (beta : R) (teams : list (list (rating R))) (i j : nat),
  0 < beta -> (2 <= length teams)%nat -> Forall (fun t => t <> []) teams ->
  (i < length teams)%nat -> (j < length teams)%nat ->
  let Tmu := fun t : list (rating R) => Rsum (map r_mu t) in
  let Tvar := fun t : list (rating R) => Rsum (map (fun p => r_sigma p * r_sigma p) t) in
  Tmu (nth i teams []) = Tmu (nth j teams []) -> Tvar (nth i teams []) = Tvar (nth j teams []) ->
  nth i (predict_win (H := RNum Phi Phiinv) beta teams) 0 = nth j (predict_win (H := RNum Phi Phiinv) beta teams) 0.
Proof. intros Phi Phiinv GF beta teams i j Hb. exact (C09L.C09_identical_equal Phi Phiinv GF beta teams i j). Qed.
Print Assumptions C09_identical_equal.

(** Raising the mu of one member [p] (to [p'], same sigma) of the team at position
    [length l1] does not lower that team's probability ... *)
Theorem C09_mono_own : forall (Phi Phiinv : R -> R), GaussCDF Phi Phiinv ->
  forall (beta : R) (l1 l2 : list (list (rating R))) (p1 p2 : list (rating R)) (p p' : rating R),
  0 < beta ->
  (2 <= length (l1 ++ (p1 ++ p :: p2) :: l2))%nat -> Forall (fun t => t <> []) (l1 ++ (p1 ++ p :: p2) :: l2) ->
  r_sigma p' = r_sigma p -> r_mu p <= r_mu p' ->
  nth (length l1) (predict_win (H := RNum Phi Phiinv) beta (l1 ++ (p1 ++ p :: p2) :: l2)) 0
  <= nth (length l1) (predict_win (H := RNum Phi Phiinv) beta (l1 ++ (p1 ++ p' :: p2) :: l2)) 0.
Proof. intros Phi Phiinv GF beta l1 l2 p1 p2 p p' Hb. exact (C09L.C09_mono_own Phi Phiinv GF beta Hb l1 l2 p1 p2 p p'). Qed.
Print Assumptions C09_mono_own.

(** ... and does not raise the probability of any other team [j]. *)
Theorem C09_mono_other : forall (Phi Phiinv : R -> R), GaussCDF Phi Phiinv ->
  forall (beta : R) (l1 l2 : list (list (rating R))) (p1 p2 : list (rating R)) (p p' : rating R) (j : nat),
  0 < beta ->
  (2 <= length (l1 ++ (p1 ++ p :: p2) :: l2))%nat -> Forall (fun t => t <> []) (l1 ++ (p1 ++ p :: p2) :: l2) ->
  r_sigma p' = r_sigma p -> r_mu p <= r_mu p' ->
  (j < length (l1 ++ (p1 ++ p :: p2) :: l2))%nat -> j <> length l1 ->
  nth j (predict_win (H := RNum Phi Phiinv) beta (l1 ++ (p1 ++ p' :: p2) :: l2)) 0
  <= nth j (predict_win (H := RNum Phi Phiinv) beta (l1 ++ (p1 ++ p :: p2) :: l2)) 0.
Proof. intros Phi Phiinv GF beta l1 l2 p1 p2 p p' j Hb. exact (C09L.C09_mono_other Phi Phiinv GF beta Hb l1 l2 p1 p2 p p' j). Qed.
Print Assumptions C09_mono_other.

(** ** Hypothesis-free corollaries: the premise [GaussCDF Phi Phiinv] discharged by the concrete
    standard normal distribution function [GaussInst.PhiK] and its inverse [GaussInst.PhiinvK]
    ([GaussInst.GaussCDF_inst]). *)
Theorem C09_two_identical_half_R_inst :
  forall (beta : R) (t : list (rating R)), 0 < beta -> t <> [] ->
  predict_win (H := RNum GaussInst.PhiK GaussInst.PhiinvK) beta [t; t] = [/ 2; / 2].
Proof. exact (C09_two_identical_half_R GaussInst.PhiK GaussInst.PhiinvK GaussInst.GaussCDF_inst). Qed.
Print Assumptions C09_two_identical_half_R_inst.

Theorem C09_range_inst :
  forall (beta : R) (teams : list (list (rating R))) (v : R),
  0 < beta -> (2 <= length teams)%nat -> Forall (fun t => t <> []) teams ->
  In v (predict_win (H := RNum GaussInst.PhiK GaussInst.PhiinvK) beta teams) -> 0 <= v <= 1.
Proof. exact (C09_range GaussInst.PhiK GaussInst.PhiinvK GaussInst.GaussCDF_inst). Qed.
Print Assumptions C09_range_inst.

Theorem C09_range_strict_inst :
  forall (beta : R) (teams : list (list (rating R))) (v : R),
  0 < beta -> (2 <= length teams)%nat -> Forall (fun t => t <> []) teams ->
  In v (predict_win (H := RNum GaussInst.PhiK GaussInst.PhiinvK) beta teams) -> 0 < v < 1.
Proof. exact (C09_range_strict GaussInst.PhiK GaussInst.PhiinvK GaussInst.GaussCDF_inst). Qed.
Print Assumptions C09_range_strict_inst.

Theorem C09_sum_one_inst :
  forall (beta : R) (teams : list (list (rating R))),
  0 < beta -> (2 <= length teams)%nat -> Forall (fun t => t <> []) teams ->
  Rsum (predict_win (H := RNum GaussInst.PhiK GaussInst.PhiinvK) beta teams) = 1.
Proof. exact (C09_sum_one GaussInst.PhiK GaussInst.PhiinvK GaussInst.GaussCDF_inst). Qed.
Print Assumptions C09_sum_one_inst.

Theorem C09_equivariant_inst :
  forall (beta : R) (teams teams' : list (list (rating R))),
  0 < beta -> (2 <= length teams)%nat -> Forall (fun t => t <> []) teams ->
  Permutation teams teams' ->
  Permutation (combine teams (predict_win (H := RNum GaussInst.PhiK GaussInst.PhiinvK) beta teams))
              (combine teams' (predict_win (H := RNum GaussInst.PhiK GaussInst.PhiinvK) beta teams')).
Proof. exact (C09_equivariant GaussInst.PhiK GaussInst.PhiinvK GaussInst.GaussCDF_inst). Qed.
Print Assumptions C09_equivariant_inst.

Theorem C09_equivariant_nth_inst :
  forall (beta : R) (teams teams' : list (list (rating R))) (i j : nat),
  0 < beta -> (2 <= length teams)%nat -> Forall (fun t => t <> []) teams ->
  Permutation teams teams' -> (i < length teams')%nat -> (j < length teams)%nat ->
  nth i teams' [] = nth j teams [] ->
  nth i (predict_win (H := RNum GaussInst.PhiK GaussInst.PhiinvK) beta teams') 0 = nth j (predict_win (H := RNum GaussInst.PhiK GaussInst.PhiinvK) beta teams) 0.
Proof. exact (C09_equivariant_nth GaussInst.PhiK GaussInst.PhiinvK GaussInst.GaussCDF_inst). Qed.
Print Assumptions C09_equivariant_nth_inst.

Theorem C09_identical_equal_inst :
  forall (beta : R) (teams : list (list (rating R))) (i j : nat),
  0 < beta -> (2 <= length teams)%nat -> Forall (fun t => t <> []) teams ->
  (i < length teams)%nat -> (j < length teams)%nat ->
  let Tmu := fun t : list (rating R) => Rsum (map r_mu t) in
  let Tvar := fun t : list (rating R) => Rsum (map (fun p => r_sigma p * r_sigma p) t) in
  Tmu (nth i teams []) = Tmu (nth j teams []) -> Tvar (nth i teams []) = Tvar (nth j teams []) ->
  nth i (predict_win (H := RNum GaussInst.PhiK GaussInst.PhiinvK) beta teams) 0 = nth j (predict_win (H := RNum GaussInst.PhiK GaussInst.PhiinvK) beta teams) 0.
Proof. exact (C09_identical_equal GaussInst.PhiK GaussInst.PhiinvK GaussInst.GaussCDF_inst). Qed.
Print Assumptions C09_identical_equal_inst.

Theorem C09_mono_own_inst :
  forall (beta : R) (l1 l2 : list (list (rating R))) (p1 p2 : list (rating R)) (p p' : rating R),
  0 < beta ->
  (2 <= length (l1 ++ (p1 ++ p :: p2) :: l2))%nat -> Forall (fun t => t <> []) (l1 ++ (p1 ++ p :: p2) :: l2) ->
  r_sigma p' = r_sigma p -> r_mu p <= r_mu p' ->
  nth (length l1) (predict_win (H := RNum GaussInst.PhiK GaussInst.PhiinvK) beta (l1 ++ (p1 ++ p :: p2) :: l2)) 0
  <= nth (length l1) (predict_win (H := RNum GaussInst.PhiK GaussInst.PhiinvK) beta (l1 ++ (p1 ++ p' :: p2) :: l2)) 0.
Proof. exact (C09_mono_own GaussInst.PhiK GaussInst.PhiinvK GaussInst.GaussCDF_inst). Qed.
Print Assumptions C09_mono_own_inst.

Theorem C09_mono_other_inst :
  forall (beta : R) (l1 l2 : list (list (rating R))) (p1 p2 : list (rating R)) (p p' : rating R) (j : nat),
  0 < beta ->
  (2 <= length (l1 ++ (p1 ++ p :: p2) :: l2))%nat -> Forall (fun t => t <> []) (l1 ++ (p1 ++ p :: p2) :: l2) ->
  r_sigma p' = r_sigma p -> r_mu p <= r_mu p' ->
  (j < length (l1 ++ (p1 ++ p :: p2) :: l2))%nat -> j <> length l1 ->
  nth j (predict_win (H := RNum GaussInst.PhiK GaussInst.PhiinvK) beta (l1 ++ (p1 ++ p' :: p2) :: l2)) 0
  <= nth j (predict_win (H := RNum GaussInst.PhiK GaussInst.PhiinvK) beta (l1 ++ (p1 ++ p :: p2) :: l2)) 0.
Proof. exact (C09_mono_other GaussInst.PhiK GaussInst.PhiinvK GaussInst.GaussCDF_inst). Qed.
Print Assumptions C09_mono_other_inst.

(** ** Exactness of "two identical teams get one half each" for IEEE doubles.

    [C09_two_identical_half_at] is [C09_two_identical_half] with each universally quantified law
    replaced by its instance at the values that occur (the laws [x - x = 0], [0 / s = 0] are
    false for NaN / infinities): the aggregate mean [m = fst (agg t)] and the scale
    [s = pair_scale beta (length t + length t) (agg t) (agg t)]. *)
From Flocq Require IEEE754.BinarySingleNaN IEEE754.Binary IEEE754.Bits.
From OSV Require FloatInst.

Theorem C09_two_identical_half_at : forall (F : Type) (N : Num F) (beta : F) (t : list (rating F)),
  fsub (fst (agg t)) (fst (agg t)) = fzero ->
  fdiv fzero (pair_scale beta (length t + length t) (agg t) (agg t)) = fzero ->
  cdf (fzero : F) = fhalf ->
  fsub (fone : F) fhalf = fhalf ->
  predict_win beta [t; t] = [fhalf; fhalf].
Proof. intros F N beta t L1 L2 L3 L4. exact (FloatInst.two_identical_half_at beta t L1 L2 L3 L4). Qed.
Print Assumptions C09_two_identical_half_at.

(** On Flocq's binary64 with the IEEE 754 round-to-nearest-even operations
    ([FloatInst.B64Num]: [b64_plus mode_NE], [b64_minus mode_NE], [b64_mult mode_NE],
    [b64_div mode_NE], [b64_sqrt mode_NE], [b64_opp], ...; the libm / CPython functions exp,
    erfc, [x ** 2], inv_cdf are arbitrary parameters [f_exp f_erfc f_pow2 f_icdf]):
    if libm's [erfc (-0.0) = 1.0] (bits 0x3FF0000000000000; true of glibc), the aggregate mean of
    the team is finite, and the scale is finite and non-zero ([is_finite_strict]; both hold for
    every valid input: finite mu, sigma and beta > 0 without overflow), then [predict_win] of
    two identical teams is EXACTLY [0.5; 0.5] (bits 0x3FE0000000000000).  No hypothesis on beta
    or on the team other than these is needed (it may be empty); the four laws are proved from
    Flocq's specification of the operations: [x - x = +0] for finite [x], the scale is a
    square root hence positive, [+0 / s = +0], [-(+0) / sqrt 2 = -0], [0.5 * 1 = 0.5],
    [1 - 0.5 = 0.5]. *)
Theorem C09_two_identical_half_binary64 :
  forall (f_exp f_erfc f_pow2 f_icdf : Bits.binary64 -> Bits.binary64)
         (beta : Bits.binary64) (t : list (rating Bits.binary64)),
  f_erfc (Binary.B754_zero 53%Z 1024%Z true) = Bits.b64_of_bits 4607182418800017408%Z ->
  Binary.is_finite 53%Z 1024%Z
    (fst (@agg Bits.binary64 (FloatInst.B64Num f_exp f_erfc f_pow2 f_icdf) t)) = true ->
  Binary.is_finite_strict 53%Z 1024%Z
    (@pair_scale Bits.binary64 (FloatInst.B64Num f_exp f_erfc f_pow2 f_icdf) beta (length t + length t)%nat
       (@agg Bits.binary64 (FloatInst.B64Num f_exp f_erfc f_pow2 f_icdf) t)
       (@agg Bits.binary64 (FloatInst.B64Num f_exp f_erfc f_pow2 f_icdf) t)) = true ->
  @predict_win Bits.binary64 (FloatInst.B64Num f_exp f_erfc f_pow2 f_icdf) beta [t; t]
  = [Bits.b64_of_bits 4602678819172646912%Z; Bits.b64_of_bits 4602678819172646912%Z].
Proof. exact FloatInst.two_identical_half_binary64. Qed.
Print Assumptions C09_two_identical_half_binary64.

(** the two constants are the doubles 1.0 and 0.5 *)
Example C09_binary64_constants :
  Binary.B2R 53%Z 1024%Z (Bits.b64_of_bits 4607182418800017408%Z) = 1
  /\ Binary.B2R 53%Z 1024%Z (Bits.b64_of_bits 4602678819172646912%Z) = / 2.
Proof. exact (conj FloatInst.b64_bits_one FloatInst.b64_bits_half). Qed.

(** non-vacuity: the team [(mu, sigma) = (25.0, 25/3); (30.5, 7.25)], beta = 25/6, with stand-ins
    for the libm parameters (erfc := fun _ => 1.0, x ** 2 := x * x) satisfies the hypotheses *)
Example C09_two_identical_half_binary64_ex :
  let N := FloatInst.B64Num (fun x => x) (fun _ => Bits.b64_of_bits 4607182418800017408%Z)
             (fun x => Bits.b64_mult BinarySingleNaN.mode_NE x x) (fun x => x) in
  let t := [mkRating (Bits.b64_of_bits 4627730092099895296%Z) (Bits.b64_of_bits 4620880867666602667%Z) 0%Z NmNone;
            mkRating (Bits.b64_of_bits 4629278204471803904%Z) (Bits.b64_of_bits 4619848792751996928%Z) 1%Z NmNone] in
  let beta := Bits.b64_of_bits 4616377268039232171%Z in
  Binary.is_finite 53%Z 1024%Z (fst (@agg Bits.binary64 N t)) = true
  /\ Binary.is_finite_strict 53%Z 1024%Z
       (@pair_scale Bits.binary64 N beta (length t + length t)%nat (@agg Bits.binary64 N t) (@agg Bits.binary64 N t)) = true
  /\ @predict_win Bits.binary64 N beta [t; t]
     = [Bits.b64_of_bits 4602678819172646912%Z; Bits.b64_of_bits 4602678819172646912%Z].
Proof. exact (conj (proj1 FloatInst.ex_hyps) (conj (proj2 FloatInst.ex_hyps) FloatInst.ex_value)). Qed.

(** ** Range of [predict_win] on the doubles the code computes (binary64, no rounding slack)

    On Flocq's binary64 with the IEEE 754 round-to-nearest-even operations ([FloatInst.B64Num]):
    every element of [predict_win beta teams] is a FINITE double whose real value is in [0,1].
    Premises: libm's erfc returns, on every finite argument, a finite double with value in [0,2];
    2 <= number of teams <= 2^20; every argument handed to the normal CDF (the quotient
    (mu_a - mu_b) / pair_scale, exactly the ones the code computes: one in the two-team branch,
    one per ordered pair of distinct positions in the general branch) is finite, i.e. did not
    overflow and is not NaN.  Nothing is assumed about exp, [x ** 2], inv_cdf, sqrt accuracy.
    All other finiteness is derived: 0.5 * erfc(..) is in [0,1] (rounding is monotone and fixes
    0 and 1); CPython's Neumaier-compensated [sum()] ([py_sum]) of the n-1 CDF values of a row has
    running sum in [0, n-1] and a compensation of relative size <= 16 u (n-1), u = 2^-53, so the
    result is in [0, n]; n <= n(n-1)/2 for n >= 3, hence the rounded quotient is <= 1. *)
From OSV Require Order.
From OSV.Lemmas Require FloatRangeL.

Theorem C09_predict_win_range_binary64 :
  forall (f_exp f_erfc f_pow2 f_icdf : Bits.binary64 -> Bits.binary64),
  (forall x : Bits.binary64, Binary.is_finite 53%Z 1024%Z x = true ->
     Binary.is_finite 53%Z 1024%Z (f_erfc x) = true /\ 0 <= Binary.B2R 53%Z 1024%Z (f_erfc x) <= 2) ->
  forall (beta : Bits.binary64) (teams : list (list (rating Bits.binary64))),
  (2 <= length teams)%nat -> (Z.of_nat (length teams) <= 2 ^ 20)%Z ->
  match teams with
  | [ta; tb] =>
      Binary.is_finite 53%Z 1024%Z
        (@fdiv Bits.binary64 (FloatInst.B64Num f_exp f_erfc f_pow2 f_icdf)
           (@fsub Bits.binary64 (FloatInst.B64Num f_exp f_erfc f_pow2 f_icdf)
              (fst (@agg Bits.binary64 (FloatInst.B64Num f_exp f_erfc f_pow2 f_icdf) ta))
              (fst (@agg Bits.binary64 (FloatInst.B64Num f_exp f_erfc f_pow2 f_icdf) tb)))
           (@pair_scale Bits.binary64 (FloatInst.B64Num f_exp f_erfc f_pow2 f_icdf) beta (length ta + length tb)%nat
              (@agg Bits.binary64 (FloatInst.B64Num f_exp f_erfc f_pow2 f_icdf) ta)
              (@agg Bits.binary64 (FloatInst.B64Num f_exp f_erfc f_pow2 f_icdf) tb))) = true
  | _ =>
      forall (ro : list (rating Bits.binary64) * list (list (rating Bits.binary64))) (tb : list (rating Bits.binary64)),
        In ro (Order.rows teams) -> In tb (snd ro) ->
        Binary.is_finite 53%Z 1024%Z
          (@fdiv Bits.binary64 (FloatInst.B64Num f_exp f_erfc f_pow2 f_icdf)
             (@fsub Bits.binary64 (FloatInst.B64Num f_exp f_erfc f_pow2 f_icdf)
                (fst (@agg Bits.binary64 (FloatInst.B64Num f_exp f_erfc f_pow2 f_icdf) (fst ro)))
                (fst (@agg Bits.binary64 (FloatInst.B64Num f_exp f_erfc f_pow2 f_icdf) tb)))
             (@pair_scale Bits.binary64 (FloatInst.B64Num f_exp f_erfc f_pow2 f_icdf) beta (length teams)
                (@agg Bits.binary64 (FloatInst.B64Num f_exp f_erfc f_pow2 f_icdf) (fst ro))
                (@agg Bits.binary64 (FloatInst.B64Num f_exp f_erfc f_pow2 f_icdf) tb))) = true
  end ->
  Forall (fun p : Bits.binary64 =>
            Binary.is_finite 53%Z 1024%Z p = true /\ 0 <= Binary.B2R 53%Z 1024%Z p <= 1)
    (@predict_win Bits.binary64 (FloatInst.B64Num f_exp f_erfc f_pow2 f_icdf) beta teams).
Proof. exact FloatRangeL.predict_win_range_b64. Qed.
Print Assumptions C09_predict_win_range_binary64.

(** non-vacuity.  Stand-ins for the libm parameters: erfc := the step function 2 / 1 / 0 on
    negative / zero / positive arguments (finite, in [0,2], as the premise requires; so the CDF is
    the step 0 / 0.5 / 1), [x ** 2 := x * x]; exp and inv_cdf are not used.  beta = 25/6.
    Three teams [(25.0, 25/3)], [(30.5, 7.25)], [(20.0, 5.0); (22.0, 4.0)] (general branch; the
    computed result is [0.0; 1/3; 2/3] rounded), and the first two of them (two-team branch). *)
Example C09_predict_win_range_binary64_ex :
  let N := FloatInst.B64Num (fun x => x)
             (fun x => match Bits.b64_compare x (Binary.B754_zero 53%Z 1024%Z false) with
                       | Some Lt => FloatInst.b64_of_Z 2 | Some Gt => FloatInst.b64_of_Z 0
                       | _ => FloatInst.b64_of_Z 1 end)
             (fun x => Bits.b64_mult BinarySingleNaN.mode_NE x x) (fun x => x) in
  let t1 := [mkRating (Bits.b64_of_bits 4627730092099895296%Z) (Bits.b64_of_bits 4620880867666602667%Z) 0%Z NmNone] in
  let t2 := [mkRating (Bits.b64_of_bits 4629278204471803904%Z) (Bits.b64_of_bits 4619848792751996928%Z) 1%Z NmNone] in
  let t3 := [mkRating (FloatInst.b64_of_Z 20) (FloatInst.b64_of_Z 5) 2%Z NmNone;
             mkRating (FloatInst.b64_of_Z 22) (FloatInst.b64_of_Z 4) 3%Z NmNone] in
  let beta := Bits.b64_of_bits 4616377268039232171%Z in
  Forall (fun p : Bits.binary64 =>
            Binary.is_finite 53%Z 1024%Z p = true /\ 0 <= Binary.B2R 53%Z 1024%Z p <= 1)
    (@predict_win Bits.binary64 N beta [t1; t2; t3])
  /\ Forall (fun p : Bits.binary64 =>
            Binary.is_finite 53%Z 1024%Z p = true /\ 0 <= Binary.B2R 53%Z 1024%Z p <= 1)
    (@predict_win Bits.binary64 N beta [t1; t2])
  /\ map Bits.bits_of_b64 (@predict_win Bits.binary64 N beta [t1; t2; t3])
     = [0%Z; 4599676419421066581%Z; 4604180019048437077%Z].
Proof.
  intros N t1 t2 t3 beta. split; [|split].
  - apply C09_predict_win_range_binary64.
    + exact FloatRangeL.ex_erfc_ok.
    + repeat constructor.
    + vm_compute. intros H; discriminate H.
    + intros ro tb Hro Htb. cbv [Order.rows Order.rows_aux rev app In] in Hro.
      destruct Hro as [<-|[<-|[<-|[]]]]; cbv [snd In] in Htb; destruct Htb as [<-|[<-|[]]];
        vm_compute; reflexivity.
  - apply C09_predict_win_range_binary64.
    + exact FloatRangeL.ex_erfc_ok.
    + repeat constructor.
    + vm_compute. intros H; discriminate H.
    + vm_compute. reflexivity.
  - vm_compute. reflexivity.
Qed.

(** * C12 — "Predictions equal their documented pairwise-Gaussian closed forms" (over R).

    Reading of the statements: [Tmu t] is the sum of the members' mu, [Tvar t] the sum of
    the members' sigma^2, [team j] the j-th team, [n] the number of teams, [N] the total
    number of players, [filter (fun j => negb (j =? i)) (seq 0 n)] the opponents of team [i].
    All theorems hold for every [Phi], [Phiinv]; the ones that take the premise
    [GaussCDF Phi Phiinv] (the [_noabs] forms and [C12_draw2]) use only [gc_range],
    [gc_mono], [gc_sym], [gc_inv].

    Non-vacuity: the premise [GaussCDF Phi Phiinv] IS instantiated, without any hypothesis,
    by [GaussInst.GaussCDF_inst : GaussCDF GaussInst.PhiK GaussInst.PhiinvK], where
    [GaussInst.PhiK x = 1/2 + (int_0^x exp(-t^2/2) dt) / (2 I)] is the standard normal
    distribution function (the only fact about it that is not proved is the numeric value of
    its normalising constant, 2 * I = sqrt (2 * pi), which these theorems do not need); the
    theorems with that premise have premise-free corollaries [<name>_inst] at the end of the
    file, the others are instantiated on concrete teams below.

    The "to within 1e-9 absolute" clause is a statement about binary64 rounding and is not
    a theorem over R; it is covered by the monitors (see DESIGN.md §7, C12). *)
From Coq Require Import List Arith Reals Lra.
From OSV Require Import Num Core Predict RInst.
From OSV Require GaussInst.
From OSV.Lemmas Require C12L.
Import ListNotations.
Open Scope R_scope.

(** On the valid domain every denominator of the closed forms is positive and the
    argument of [Phiinv] is a probability (the formulas below are not artefacts of
    [x / 0 = 0] or [sqrt] of a negative number). *)
Theorem C12_welldefined : forall (beta : R) (teams : list (list (rating R))),
  0 < beta -> (2 <= length teams)%nat -> Forall (fun t => t <> []) teams ->
  let Tvar := fun t : list (rating R) => Rsum (map (fun p => r_sigma p * r_sigma p) t) in
  let n := INR (length teams) in
  let N := INR (length (concat teams)) in
  (forall k ta tb, (1 <= k)%nat -> 0 < sqrt (INR k * (beta * beta) + Tvar ta + Tvar tb))
  /\ 0 < n * (n - 1) / 2
  /\ 0 < N
  /\ 0 < (1 + 1 / N) / 2 < 1.
Proof. exact C12L.C12_welldefined. Qed.
Print Assumptions C12_welldefined.

Example C12_welldefined_ex :
  0 < (1 + 1 / INR (length (concat [[mkRating 25 8 0%Z NmNone]; [mkRating 30 7 1%Z NmNone]]))) / 2 < 1.
Proof.
  apply (C12_welldefined 4 [[mkRating 25 8 0%Z NmNone]; [mkRating 30 7 1%Z NmNone]]);
    [lra | apply le_n | repeat constructor; discriminate].
Qed.

(** Two teams: [predict_win] = [Phi (delta_mu / sqrt (N beta^2 + var_a + var_b))] and its
    complement, [N] the total number of players. *)
Theorem C12_win2 : forall (Phi Phiinv : R -> R) (beta : R) (ta tb : list (rating R)),
  0 < beta -> ta <> [] -> tb <> [] ->
  let Tmu := fun t : list (rating R) => Rsum (map r_mu t) in
  let Tvar := fun t : list (rating R) => Rsum (map (fun p => r_sigma p * r_sigma p) t) in
  let N := INR (length ta + length tb) in
  let p := Phi ((Tmu ta - Tmu tb) / sqrt (N * (beta * beta) + Tvar ta + Tvar tb)) in
  predict_win (H := RNum Phi Phiinv) beta [ta; tb] = [p; 1 - p].
Proof. exact C12L.C12_win2. Qed.
Print Assumptions C12_win2.

Example C12_win2_ex : forall Phi Phiinv : R -> R,
  predict_win (H := RNum Phi Phiinv) 4 [[mkRating 25 8 0%Z NmNone; mkRating 20 3 1%Z NmNone]; [mkRating 30 7 2%Z NmNone]]
  = [Phi ((25 + (20 + 0) - (30 + 0)) / sqrt (INR (2 + 1) * (4 * 4) + (8 * 8 + (3 * 3 + 0)) + (7 * 7 + 0)));
     1 - Phi ((25 + (20 + 0) - (30 + 0)) / sqrt (INR (2 + 1) * (4 * 4) + (8 * 8 + (3 * 3 + 0)) + (7 * 7 + 0)))].
Proof. intros. apply (C12_win2 Phi Phiinv 4); [lra | discriminate | discriminate]. Qed.

(** More than two teams: the value of team [i] is the sum over its opponents [j] of
    [Phi (delta_mu / sqrt (n beta^2 + var_i + var_j))], divided by [n (n-1) / 2]. *)
Theorem C12_winN : forall (Phi Phiinv : R -> R) (beta : R) (teams : list (list (rating R))) (i : nat),
  0 < beta -> (3 <= length teams)%nat -> (i < length teams)%nat ->
  let Tmu := fun t : list (rating R) => Rsum (map r_mu t) in
  let Tvar := fun t : list (rating R) => Rsum (map (fun p => r_sigma p * r_sigma p) t) in
  let n := length teams in
  let team := fun j => nth j teams [] in
  nth i (predict_win (H := RNum Phi Phiinv) beta teams) 0
  = Rsum (map (fun j => Phi ((Tmu (team i) - Tmu (team j))
                             / sqrt (INR n * (beta * beta) + Tvar (team i) + Tvar (team j))))
              (filter (fun j => negb (Nat.eqb j i)) (seq 0 n)))
    / (INR n * (INR n - 1) / 2).
Proof. exact C12L.C12_winN. Qed.
Print Assumptions C12_winN.

Example C12_winN_ex : forall Phi Phiinv : R -> R,
  let a := [mkRating 25 8 0%Z NmNone] in let b := [mkRating 30 7 1%Z NmNone] in
  let c := [mkRating 20 6 2%Z NmNone; mkRating 21 5 3%Z NmNone] in
  nth 1 (predict_win (H := RNum Phi Phiinv) 4 [a; b; c]) 0
  = (Phi ((30 + 0 - (25 + 0)) / sqrt (INR 3 * (4 * 4) + (7 * 7 + 0) + (8 * 8 + 0)))
     + (Phi ((30 + 0 - (20 + (21 + 0))) / sqrt (INR 3 * (4 * 4) + (7 * 7 + 0) + (6 * 6 + (5 * 5 + 0)))) + 0))
    / (INR 3 * (INR 3 - 1) / 2).
Proof. intros. apply (C12_winN Phi Phiinv 4 [a; b; c] 1%nat); [lra | apply le_n | apply le_S, le_n]. Qed.

(** [predict_rank] reports, for team [i], the same pairwise form with [delta_mu] reduced by
    the draw margin [sqrt N * beta * Phiinv ((1 + 1/N) / 2)] (inside an [abs], as the code has it). *)
Theorem C12_rank : forall (Phi Phiinv : R -> R) (beta : R) (teams : list (list (rating R))) (i : nat),
  0 < beta -> (2 <= length teams)%nat -> Forall (fun t => t <> []) teams -> (i < length teams)%nat ->
  let Tmu := fun t : list (rating R) => Rsum (map r_mu t) in
  let Tvar := fun t : list (rating R) => Rsum (map (fun p => r_sigma p * r_sigma p) t) in
  let n := length teams in
  let N := INR (length (concat teams)) in
  let margin := sqrt N * beta * Phiinv ((1 + 1 / N) / 2) in
  let team := fun j => nth j teams [] in
  nth i (map snd (predict_rank (H := RNum Phi Phiinv) beta teams)) 0
  = Rabs (Rsum (map (fun j => Phi ((Tmu (team i) - Tmu (team j) - margin)
                                   / sqrt (INR n * (beta * beta) + Tvar (team i) + Tvar (team j))))
                    (filter (fun j => negb (Nat.eqb j i)) (seq 0 n)))
          / (INR n * (INR n - 1) / 2)).
Proof. exact C12L.C12_rank. Qed.
Print Assumptions C12_rank.

Example C12_rank_ex : forall Phi Phiinv : R -> R,
  let a := [mkRating 25 8 0%Z NmNone] in let b := [mkRating 30 7 1%Z NmNone] in
  let margin := sqrt (INR 2) * 4 * Phiinv ((1 + 1 / INR 2) / 2) in
  nth 0 (map snd (predict_rank (H := RNum Phi Phiinv) 4 [a; b])) 0
  = Rabs ((Phi ((25 + 0 - (30 + 0) - margin) / sqrt (INR 2 * (4 * 4) + (8 * 8 + 0) + (7 * 7 + 0))) + 0)
          / (INR 2 * (INR 2 - 1) / 2)).
Proof.
  intros. apply (C12_rank Phi Phiinv 4 [a; b] 0%nat);
    [lra | apply le_n | repeat constructor; discriminate | apply le_S, le_n].
Qed.

(** ... and the [abs] is redundant (the value is a sum of probabilities over a positive number). *)
Theorem C12_rank_noabs : forall (Phi Phiinv : R -> R), GaussCDF Phi Phiinv ->
  forall (beta : R) (teams : list (list (rating R))) (i : nat),
  0 < beta -> (2 <= length teams)%nat -> Forall (fun t => t <> []) teams -> (i < length teams)%nat ->
  let Tmu := fun t : list (rating R) => Rsum (map r_mu t) in
  let Tvar := fun t : list (rating R) => Rsum (map (fun p => r_sigma p * r_sigma p) t) in
  let n := length teams in
  let N := INR (length (concat teams)) in
  let margin := sqrt N * beta * Phiinv ((1 + 1 / N) / 2) in
  let team := fun j => nth j teams [] in
  nth i (map snd (predict_rank (H := RNum Phi Phiinv) beta teams)) 0
  = Rsum (map (fun j => Phi ((Tmu (team i) - Tmu (team j) - margin)
                             / sqrt (INR n * (beta * beta) + Tvar (team i) + Tvar (team j))))
              (filter (fun j => negb (Nat.eqb j i)) (seq 0 n)))
    / (INR n * (INR n - 1) / 2).
Proof. intros Phi Phiinv GF beta teams i. exact (C12L.C12_rank_noabs Phi Phiinv beta teams i GF). Qed.
Print Assumptions C12_rank_noabs.

(** [predict_draw], more than two teams: the average over the ordered pairs [(i, j)], [i <> j],
    of the probability that the difference falls inside the margin (inside an [abs], as the code has it). *)
Theorem C12_draw : forall (Phi Phiinv : R -> R) (beta : R) (teams : list (list (rating R))),
  0 < beta -> (3 <= length teams)%nat -> Forall (fun t => t <> []) teams ->
  let Tmu := fun t : list (rating R) => Rsum (map r_mu t) in
  let Tvar := fun t : list (rating R) => Rsum (map (fun p => r_sigma p * r_sigma p) t) in
  let n := length teams in
  let N := INR (length (concat teams)) in
  let margin := sqrt N * beta * Phiinv ((1 + 1 / N) / 2) in
  let team := fun j => nth j teams [] in
  let d := fun i j => Tmu (team i) - Tmu (team j) in
  let s := fun i j => sqrt (INR n * (beta * beta) + Tvar (team i) + Tvar (team j)) in
  predict_draw (H := RNum Phi Phiinv) beta teams
  = Rabs (Rsum (map (fun i => Rsum (map (fun j => Phi ((margin - d i j) / s i j) - Phi ((d i j - margin) / s i j))
                                        (filter (fun j => negb (Nat.eqb j i)) (seq 0 n))))
                    (seq 0 n)))
    / (INR n * (INR n - 1)).
Proof. exact C12L.C12_drawN. Qed.
Print Assumptions C12_draw.

Example C12_draw_ex : forall Phi Phiinv : R -> R,
  let a := [mkRating 25 8 0%Z NmNone] in let b := [mkRating 30 7 1%Z NmNone] in
  let c := [mkRating 20 6 2%Z NmNone; mkRating 21 5 3%Z NmNone] in
  exists v, predict_draw (H := RNum Phi Phiinv) 4 [a; b; c] = Rabs v / (INR 3 * (INR 3 - 1)).
Proof.
  intros. eexists. apply (C12_draw Phi Phiinv 4 [a; b; c]);
    [lra | apply le_n | repeat constructor; discriminate].
Qed.

(** ... and there too the [abs] is redundant. *)
Theorem C12_draw_noabs : forall (Phi Phiinv : R -> R), GaussCDF Phi Phiinv ->
  forall (beta : R) (teams : list (list (rating R))),
  0 < beta -> (3 <= length teams)%nat -> Forall (fun t => t <> []) teams ->
  let Tmu := fun t : list (rating R) => Rsum (map r_mu t) in
  let Tvar := fun t : list (rating R) => Rsum (map (fun p => r_sigma p * r_sigma p) t) in
  let n := length teams in
  let N := INR (length (concat teams)) in
  let margin := sqrt N * beta * Phiinv ((1 + 1 / N) / 2) in
  let team := fun j => nth j teams [] in
  let d := fun i j => Tmu (team i) - Tmu (team j) in
  let s := fun i j => sqrt (INR n * (beta * beta) + Tvar (team i) + Tvar (team j)) in
  predict_draw (H := RNum Phi Phiinv) beta teams
  = Rsum (map (fun i => Rsum (map (fun j => Phi ((margin - d i j) / s i j) - Phi ((d i j - margin) / s i j))
                                  (filter (fun j => negb (Nat.eqb j i)) (seq 0 n))))
              (seq 0 n))
    / (INR n * (INR n - 1)).
Proof. intros Phi Phiinv GF beta teams. exact (C12L.C12_drawN_noabs Phi Phiinv beta teams GF). Qed.
Print Assumptions C12_draw_noabs.

(** [predict_draw], two teams: the plain sum of the two ordered pairs (the scale uses n = 2,
    the margin uses the total number of players N). *)
Theorem C12_draw2 : forall (Phi Phiinv : R -> R), GaussCDF Phi Phiinv ->
  forall (beta : R) (ta tb : list (rating R)),
  0 < beta -> ta <> [] -> tb <> [] ->
  let Tmu := fun t : list (rating R) => Rsum (map r_mu t) in
  let Tvar := fun t : list (rating R) => Rsum (map (fun p => r_sigma p * r_sigma p) t) in
  let N := INR (length ta + length tb) in
  let margin := sqrt N * beta * Phiinv ((1 + 1 / N) / 2) in
  let d := Tmu ta - Tmu tb in
  let s := sqrt (2 * (beta * beta) + Tvar ta + Tvar tb) in
  predict_draw (H := RNum Phi Phiinv) beta [ta; tb]
  = (Phi ((margin - d) / s) - Phi ((d - margin) / s))
    + (Phi ((margin - - d) / s) - Phi ((- d - margin) / s)).
Proof. intros Phi Phiinv GF beta ta tb. exact (C12L.C12_draw2_R Phi Phiinv beta ta tb GF). Qed.
Print Assumptions C12_draw2.

(** The same without any premise about [Phi]: the code's [abs] kept. *)
Theorem C12_draw2_abs : forall (Phi Phiinv : R -> R) (beta : R) (ta tb : list (rating R)),
  0 < beta -> ta <> [] -> tb <> [] ->
  let Tmu := fun t : list (rating R) => Rsum (map r_mu t) in
  let Tvar := fun t : list (rating R) => Rsum (map (fun p => r_sigma p * r_sigma p) t) in
  let N := INR (length ta + length tb) in
  let margin := sqrt N * beta * Phiinv ((1 + 1 / N) / 2) in
  let d := Tmu ta - Tmu tb in
  let s := sqrt (2 * (beta * beta) + Tvar ta + Tvar tb) in
  predict_draw (H := RNum Phi Phiinv) beta [ta; tb]
  = Rabs ((Phi ((margin - d) / s) - Phi ((d - margin) / s))
          + (Phi ((margin - - d) / s) - Phi ((- d - margin) / s))).
Proof. exact C12L.C12_draw2_abs_R. Qed.
Print Assumptions C12_draw2_abs.

Example C12_draw2_abs_ex : forall Phi Phiinv : R -> R,
  exists v, predict_draw (H := RNum Phi Phiinv) 4 [[mkRating 25 8 0%Z NmNone]; [mkRating 30 7 1%Z NmNone]] = Rabs v.
Proof. intros. eexists. apply (C12_draw2_abs Phi Phiinv 4); [lra | discriminate | discriminate]. Qed.

(** ** Hypothesis-free corollaries: the premise [GaussCDF Phi Phiinv] discharged by the concrete
    standard normal distribution function [GaussInst.PhiK] and its inverse [GaussInst.PhiinvK]
    ([GaussInst.GaussCDF_inst]). *)
Theorem C12_rank_noabs_inst :
  forall (beta : R) (teams : list (list (rating R))) (i : nat),
  0 < beta -> (2 <= length teams)%nat -> Forall (fun t => t <> []) teams -> (i < length teams)%nat ->
  let Tmu := fun t : list (rating R) => Rsum (map r_mu t) in
  let Tvar := fun t : list (rating R) => Rsum (map (fun p => r_sigma p * r_sigma p) t) in
  let n := length teams in
  let N := INR (length (concat teams)) in
  let margin := sqrt N * beta * GaussInst.PhiinvK ((1 + 1 / N) / 2) in
  let team := fun j => nth j teams [] in
  nth i (map snd (predict_rank (H := RNum GaussInst.PhiK GaussInst.PhiinvK) beta teams)) 0
  = Rsum (map (fun j => GaussInst.PhiK ((Tmu (team i) - Tmu (team j) - margin)
                             / sqrt (INR n * (beta * beta) + Tvar (team i) + Tvar (team j))))
              (filter (fun j => negb (Nat.eqb j i)) (seq 0 n)))
    / (INR n * (INR n - 1) / 2).
Proof. exact (C12_rank_noabs GaussInst.PhiK GaussInst.PhiinvK GaussInst.GaussCDF_inst). Qed.
Print Assumptions C12_rank_noabs_inst.

Theorem C12_draw_noabs_inst :
  forall (beta : R) (teams : list (list (rating R))),
  0 < beta -> (3 <= length teams)%nat -> Forall (fun t => t <> []) teams ->
  let Tmu := fun t : list (rating R) => Rsum (map r_mu t) in
  let Tvar := fun t : list (rating R) => Rsum (map (fun p => r_sigma p * r_sigma p) t) in
  let n := length teams in
  let N := INR (length (concat teams)) in
  let margin := sqrt N * beta * GaussInst.PhiinvK ((1 + 1 / N) / 2) in
  let team := fun j => nth j teams [] in
  let d := fun i j => Tmu (team i) - Tmu (team j) in
  let s := fun i j => sqrt (INR n * (beta * beta) + Tvar (team i) + Tvar (team j)) in
  predict_draw (H := RNum GaussInst.PhiK GaussInst.PhiinvK) beta teams
  = Rsum (map (fun i => Rsum (map (fun j => GaussInst.PhiK ((margin - d i j) / s i j) - GaussInst.PhiK ((d i j - margin) / s i j))
                                  (filter (fun j => negb (Nat.eqb j i)) (seq 0 n))))
              (seq 0 n))
    / (INR n * (INR n - 1)).
Proof. exact (C12_draw_noabs GaussInst.PhiK GaussInst.PhiinvK GaussInst.GaussCDF_inst). Qed.
Print Assumptions C12_draw_noabs_inst.

Theorem C12_draw2_inst :
  forall (beta : R) (ta tb : list (rating R)),
  0 < beta -> ta <> [] -> tb <> [] ->
  let Tmu := fun t : list (rating R) => Rsum (map r_mu t) in
  let Tvar := fun t : list (rating R) => Rsum (map (fun p => r_sigma p * r_sigma p) t) in
  let N := INR (length ta + length tb) in
  let margin := sqrt N * beta * GaussInst.PhiinvK ((1 + 1 / N) / 2) in
  let d := Tmu ta - Tmu tb in
  let s := sqrt (2 * (beta * beta) + Tvar ta + Tvar tb) in
  predict_draw (H := RNum GaussInst.PhiK GaussInst.PhiinvK) beta [ta; tb]
  = (GaussInst.PhiK ((margin - d) / s) - GaussInst.PhiK ((d - margin) / s))
    + (GaussInst.PhiK ((margin - - d) / s) - GaussInst.PhiK ((- d - margin) / s)).
Proof. exact (C12_draw2 GaussInst.PhiK GaussInst.PhiinvK GaussInst.GaussCDF_inst). Qed.
Print Assumptions C12_draw2_inst.

(** * C18: rating comparison operators order players exactly as ordinal() does. *)
From Coq Require Import List ZArith Bool Sorted Permutation.
From OSV Require Import Num Order Core PyVal RatingOps.
From OSV.Lemmas Require C18L.
Import ListNotations.

Theorem C18_ordinal : forall (F : Type) (N : Num F) (r : rating F) (z : F),
  ordinal r z = fsub (r_mu r) (fmul z (r_sigma r)).
Proof. exact (@C18L.ordinal_def). Qed.
Print Assumptions C18_ordinal.

Theorem C18_lt : forall (F : Type) (N : Num F) (k : kind) (a b : rating F),
  rating_compare OpLt k a (PRating k b) = Ok (fltb (ordinal a (fofZ 3)) (ordinal b (fofZ 3))).
Proof. exact (@C18L.cmp_lt). Qed.
Print Assumptions C18_lt.

Theorem C18_le : forall (F : Type) (N : Num F) (k : kind) (a b : rating F),
  rating_compare OpLe k a (PRating k b) = Ok (fleb (ordinal a (fofZ 3)) (ordinal b (fofZ 3))).
Proof. exact (@C18L.cmp_le). Qed.
Print Assumptions C18_le.

Theorem C18_gt : forall (F : Type) (N : Num F) (k : kind) (a b : rating F),
  rating_compare OpGt k a (PRating k b) = Ok (fltb (ordinal b (fofZ 3)) (ordinal a (fofZ 3))).
Proof. exact (@C18L.cmp_gt). Qed.
Print Assumptions C18_gt.

Theorem C18_ge : forall (F : Type) (N : Num F) (k : kind) (a b : rating F),
  rating_compare OpGe k a (PRating k b) = Ok (fleb (ordinal b (fofZ 3)) (ordinal a (fofZ 3))).
Proof. exact (@C18L.cmp_ge). Qed.
Print Assumptions C18_ge.

(** [a > b] is [b < a] and [a >= b] is [b <= a] *)
Theorem C18_flip : forall (F : Type) (N : Num F) (k : kind) (a b : rating F),
  rating_compare OpGt k a (PRating k b) = rating_compare OpLt k b (PRating k a) /\
  rating_compare OpGe k a (PRating k b) = rating_compare OpLe k b (PRating k a).
Proof. exact (@C18L.cmp_flip). Qed.
Print Assumptions C18_flip.

Theorem C18_eq : forall (F : Type) (N : Num F) (k : kind) (a b : rating F),
  rating_compare OpEq k a (PRating k b)
  = Ok (andb (feqb (r_mu a) (r_mu b)) (feqb (r_sigma a) (r_sigma b))).
Proof. exact (@C18L.cmp_eq). Qed.
Print Assumptions C18_eq.

Theorem C18_ne : forall (F : Type) (N : Num F) (k : kind) (a b : rating F),
  rating_compare OpNe k a (PRating k b)
  = Ok (negb (andb (feqb (r_mu a) (r_mu b)) (feqb (r_sigma a) (r_sigma b)))).
Proof. exact (@C18L.cmp_ne). Qed.
Print Assumptions C18_ne.

(** anything that is not a rating of the same model: ValueError for the four
    order operators, unequal for [==] / [!=] *)
Theorem C18_foreign : forall (F : Type) (N : Num F) (k : kind) (a : rating F) (other : pyval F),
  (forall b, other <> PRating k b) ->
  rating_compare OpLt k a other = Raise ValueError /\
  rating_compare OpLe k a other = Raise ValueError /\
  rating_compare OpGt k a other = Raise ValueError /\
  rating_compare OpGe k a other = Raise ValueError /\
  rating_compare OpEq k a other = Ok false /\
  rating_compare OpNe k a other = Ok true.
Proof. exact (@C18L.cmp_foreign). Qed.
Print Assumptions C18_foreign.

Example C18_foreign_nonvacuous :
  (forall b, @PNone Z <> PRating PL b) /\ (forall b, @PInt Z 3 <> PRating BTF b) /\
  (forall b : rating Z, PRating TMP b <> PRating TMF b).
Proof. repeat split; intros b E; discriminate E. Qed.

(** in particular a rating of another of the five models *)
Theorem C18_foreign_kind : forall (F : Type) (N : Num F) (k k' : kind) (a b : rating F),
  k <> k' ->
  rating_compare OpLt k a (PRating k' b) = Raise ValueError /\
  rating_compare OpLe k a (PRating k' b) = Raise ValueError /\
  rating_compare OpGt k a (PRating k' b) = Raise ValueError /\
  rating_compare OpGe k a (PRating k' b) = Raise ValueError /\
  rating_compare OpEq k a (PRating k' b) = Ok false /\
  rating_compare OpNe k a (PRating k' b) = Ok true.
Proof. exact (@C18L.cmp_other_kind). Qed.
Print Assumptions C18_foreign_kind.

(** Sorting rating objects (stable sort driven by the model's [<], as Python's
    [sorted] does: [x] stays before [y] unless [y < x]) is literally sorting by
    the ordinal; no order law is needed for this. *)
Theorem C18_sort_is_sort_by_ordinal : forall (F : Type) (N : Num F) (k : kind) (l : list (rating F)),
  isort (fun a b => negb (match rating_compare OpLt k b (PRating k a) with
                          | Ok t => t | Raise _ => false end)) l
  = isort (fun a b => negb (fltb (ordinal b (fofZ 3)) (ordinal a (fofZ 3)))) l.
Proof. exact (@C18L.sort_lt_is_sort_by_ordinal). Qed.
Print Assumptions C18_sort_is_sort_by_ordinal.

(** If [<] on numbers is irreflexive and transitive and [<=] is its flipped
    negation, the sorted list has non-decreasing ordinals (each element [<=] the
    next) and is a permutation of the input. *)
Theorem C18_sorted : forall (F : Type) (N : Num F),
  (forall x : F, fltb x x = false) ->
  (forall x y z : F, fltb x y = true -> fltb y z = true -> fltb x z = true) ->
  (forall x y : F, fleb x y = negb (fltb y x)) ->
  forall (k : kind) (l : list (rating F)),
  let sorted := isort (fun a b => negb (match rating_compare OpLt k b (PRating k a) with
                                        | Ok t => t | Raise _ => false end)) l in
  Sorted (fun a b => fleb (ordinal a (fofZ 3)) (ordinal b (fofZ 3)) = true) sorted /\
  Permutation l sorted.
Proof. exact (@C18L.sorted_lt). Qed.
Print Assumptions C18_sorted.

(** the same when the sort is driven by the model's [<=] *)
Theorem C18_sorted_le : forall (F : Type) (N : Num F),
  (forall x : F, fltb x x = false) ->
  (forall x y z : F, fltb x y = true -> fltb y z = true -> fltb x z = true) ->
  (forall x y : F, fleb x y = negb (fltb y x)) ->
  forall (k : kind) (l : list (rating F)),
  let sorted := isort (fun a b => match rating_compare OpLe k a (PRating k b) with
                                  | Ok t => t | Raise _ => false end) l in
  Sorted (fun a b => fleb (ordinal a (fofZ 3)) (ordinal b (fofZ 3)) = true) sorted /\
  Permutation l sorted.
Proof. exact (@C18L.sorted_le). Qed.
Print Assumptions C18_sorted_le.

(** If moreover [<] is negatively transitive (a strict weak order, e.g. any
    total order), every element is [<=] EVERY later element. *)
Theorem C18_strongly_sorted : forall (F : Type) (N : Num F),
  (forall x : F, fltb x x = false) ->
  (forall x y z : F, fltb x y = true -> fltb y z = true -> fltb x z = true) ->
  (forall x y : F, fleb x y = negb (fltb y x)) ->
  (forall x y z : F, fltb x z = true -> fltb x y = true \/ fltb y z = true) ->
  forall (k : kind) (l : list (rating F)),
  let sorted := isort (fun a b => negb (match rating_compare OpLt k b (PRating k a) with
                                        | Ok t => t | Raise _ => false end)) l in
  StronglySorted (fun a b => fleb (ordinal a (fofZ 3)) (ordinal b (fofZ 3)) = true) sorted /\
  Permutation l sorted.
Proof. exact (@C18L.strongly_sorted_lt). Qed.
Print Assumptions C18_strongly_sorted.

Theorem C18_strongly_sorted_le : forall (F : Type) (N : Num F),
  (forall x : F, fltb x x = false) ->
  (forall x y z : F, fltb x y = true -> fltb y z = true -> fltb x z = true) ->
  (forall x y : F, fleb x y = negb (fltb y x)) ->
  (forall x y z : F, fltb x z = true -> fltb x y = true \/ fltb y z = true) ->
  forall (k : kind) (l : list (rating F)),
  let sorted := isort (fun a b => match rating_compare OpLe k a (PRating k b) with
                                  | Ok t => t | Raise _ => false end) l in
  StronglySorted (fun a b => fleb (ordinal a (fofZ 3)) (ordinal b (fofZ 3)) = true) sorted /\
  Permutation l sorted.
Proof. exact (@C18L.strongly_sorted_le). Qed.
Print Assumptions C18_strongly_sorted_le.

(** Non-vacuity: the four order laws hold of the integers with [Z.ltb]/[Z.leb],
    and there sorting three ratings with ordinals 10-3*1 = 7, 4-3*0 = 4 and
    7-3*0 = 7 gives the ids in the order 2, 1, 3 (stable on the tie). *)
Example C18_sorted_nonvacuous :
  (forall x : Z, @fltb Z C18L.ZNum x x = false) /\
  (forall x y z : Z, @fltb Z C18L.ZNum x y = true -> @fltb Z C18L.ZNum y z = true ->
                     @fltb Z C18L.ZNum x z = true) /\
  (forall x y : Z, @fleb Z C18L.ZNum x y = negb (@fltb Z C18L.ZNum y x)) /\
  (forall x y z : Z, @fltb Z C18L.ZNum x z = true ->
                     @fltb Z C18L.ZNum x y = true \/ @fltb Z C18L.ZNum y z = true) /\
  map r_id
    (isort (fun a b => negb (match @rating_compare Z C18L.ZNum OpLt PL b (PRating PL a) with
                             | Ok t => t | Raise _ => false end))
           [mkRating 10 1 1 NmNone; mkRating 4 0 2 NmNone; mkRating 7 0 3 NmNone]%Z)
  = [2; 1; 3]%Z.
Proof.
  split; [exact C18L.ZNum_irrefl|]. split; [exact C18L.ZNum_trans|].
  split; [exact C18L.ZNum_le_lt|]. split; [exact C18L.ZNum_negtrans|]. vm_compute. reflexivity.
Qed.

From Flocq Require IEEE754.BinarySingleNaN IEEE754.Binary IEEE754.Bits.
From OSV Require FloatInst.
From OSV.Lemmas Require FloatOrderInstL.
(** ** Sorting rating objects in IEEE 754 binary64, for FINITE ordinals (no law hypothesis)

    The law premises of [C18_sorted] ... [C18_strongly_sorted_le] are false for binary64 as a
    whole ([fleb x y = negb (fltb y x)] fails when x or y is NaN), so those theorems cannot be
    instantiated at [FloatInst.B64Num] as they stand.  For a list of ratings whose ordinals
    [mu - 3 * sigma], computed in binary64 (round to nearest even), are all finite doubles — no
    overflow, no NaN — the conclusions hold with no law assumed: the list sorted with the class's
    [<] (resp. [<=]) is a permutation of the input and every element's ordinal is [<=] that of
    EVERY later element ([StronglySorted]; [Sorted] = each element and the next).  [fleb] on
    finite doubles is the order of their real values ([FloatOrderL.b64_leb_spec]).  Nothing is
    assumed about the libm parameters of the instance (the ordinal uses only [-] and [*]). *)

Theorem C18_sorted_binary64 :
  forall (f_exp f_erfc f_pow2 f_icdf : Bits.binary64 -> Bits.binary64)
         (k : kind) (l : list (rating Bits.binary64)),
  Forall (fun a : rating Bits.binary64 =>
            Binary.is_finite 53%Z 1024%Z
              (@ordinal Bits.binary64 (FloatInst.B64Num f_exp f_erfc f_pow2 f_icdf) a
                 (@fofZ Bits.binary64 (FloatInst.B64Num f_exp f_erfc f_pow2 f_icdf) 3)) = true) l ->
  let sorted := isort (fun a b => negb (match @rating_compare Bits.binary64 (FloatInst.B64Num f_exp f_erfc f_pow2 f_icdf)
                                                OpLt k b (PRating k a) with
                                        | Ok t => t | Raise _ => false end)) l in
  Sorted (fun a b => @fleb Bits.binary64 (FloatInst.B64Num f_exp f_erfc f_pow2 f_icdf)
                       (@ordinal Bits.binary64 (FloatInst.B64Num f_exp f_erfc f_pow2 f_icdf) a
                          (@fofZ Bits.binary64 (FloatInst.B64Num f_exp f_erfc f_pow2 f_icdf) 3))
                       (@ordinal Bits.binary64 (FloatInst.B64Num f_exp f_erfc f_pow2 f_icdf) b
                          (@fofZ Bits.binary64 (FloatInst.B64Num f_exp f_erfc f_pow2 f_icdf) 3)) = true) sorted /\
  Permutation l sorted.
Proof. exact FloatOrderInstL.sorted_lt_b64. Qed.
Print Assumptions C18_sorted_binary64.

Theorem C18_sorted_le_binary64 :
  forall (f_exp f_erfc f_pow2 f_icdf : Bits.binary64 -> Bits.binary64)
         (k : kind) (l : list (rating Bits.binary64)),
  Forall (fun a : rating Bits.binary64 =>
            Binary.is_finite 53%Z 1024%Z
              (@ordinal Bits.binary64 (FloatInst.B64Num f_exp f_erfc f_pow2 f_icdf) a
                 (@fofZ Bits.binary64 (FloatInst.B64Num f_exp f_erfc f_pow2 f_icdf) 3)) = true) l ->
  let sorted := isort (fun a b => match @rating_compare Bits.binary64 (FloatInst.B64Num f_exp f_erfc f_pow2 f_icdf)
                                          OpLe k a (PRating k b) with
                                  | Ok t => t | Raise _ => false end) l in
  Sorted (fun a b => @fleb Bits.binary64 (FloatInst.B64Num f_exp f_erfc f_pow2 f_icdf)
                       (@ordinal Bits.binary64 (FloatInst.B64Num f_exp f_erfc f_pow2 f_icdf) a
                          (@fofZ Bits.binary64 (FloatInst.B64Num f_exp f_erfc f_pow2 f_icdf) 3))
                       (@ordinal Bits.binary64 (FloatInst.B64Num f_exp f_erfc f_pow2 f_icdf) b
                          (@fofZ Bits.binary64 (FloatInst.B64Num f_exp f_erfc f_pow2 f_icdf) 3)) = true) sorted /\
  Permutation l sorted.
Proof. exact FloatOrderInstL.sorted_le_b64. Qed.
Print Assumptions C18_sorted_le_binary64.

Theorem C18_strongly_sorted_binary64 :
  forall (f_exp f_erfc f_pow2 f_icdf : Bits.binary64 -> Bits.binary64)
         (k : kind) (l : list (rating Bits.binary64)),
  Forall (fun a : rating Bits.binary64 =>
            Binary.is_finite 53%Z 1024%Z
              (@ordinal Bits.binary64 (FloatInst.B64Num f_exp f_erfc f_pow2 f_icdf) a
                 (@fofZ Bits.binary64 (FloatInst.B64Num f_exp f_erfc f_pow2 f_icdf) 3)) = true) l ->
  let sorted := isort (fun a b => negb (match @rating_compare Bits.binary64 (FloatInst.B64Num f_exp f_erfc f_pow2 f_icdf)
                                                OpLt k b (PRating k a) with
                                        | Ok t => t | Raise _ => false end)) l in
  StronglySorted (fun a b => @fleb Bits.binary64 (FloatInst.B64Num f_exp f_erfc f_pow2 f_icdf)
                       (@ordinal Bits.binary64 (FloatInst.B64Num f_exp f_erfc f_pow2 f_icdf) a
                          (@fofZ Bits.binary64 (FloatInst.B64Num f_exp f_erfc f_pow2 f_icdf) 3))
                       (@ordinal Bits.binary64 (FloatInst.B64Num f_exp f_erfc f_pow2 f_icdf) b
                          (@fofZ Bits.binary64 (FloatInst.B64Num f_exp f_erfc f_pow2 f_icdf) 3)) = true) sorted /\
  Permutation l sorted.
Proof. exact FloatOrderInstL.strongly_sorted_lt_b64. Qed.
Print Assumptions C18_strongly_sorted_binary64.

Theorem C18_strongly_sorted_le_binary64 :
  forall (f_exp f_erfc f_pow2 f_icdf : Bits.binary64 -> Bits.binary64)
         (k : kind) (l : list (rating Bits.binary64)),
  Forall (fun a : rating Bits.binary64 =>
            Binary.is_finite 53%Z 1024%Z
              (@ordinal Bits.binary64 (FloatInst.B64Num f_exp f_erfc f_pow2 f_icdf) a
                 (@fofZ Bits.binary64 (FloatInst.B64Num f_exp f_erfc f_pow2 f_icdf) 3)) = true) l ->
  let sorted := isort (fun a b => match @rating_compare Bits.binary64 (FloatInst.B64Num f_exp f_erfc f_pow2 f_icdf)
                                          OpLe k a (PRating k b) with
                                  | Ok t => t | Raise _ => false end) l in
  StronglySorted (fun a b => @fleb Bits.binary64 (FloatInst.B64Num f_exp f_erfc f_pow2 f_icdf)
                       (@ordinal Bits.binary64 (FloatInst.B64Num f_exp f_erfc f_pow2 f_icdf) a
                          (@fofZ Bits.binary64 (FloatInst.B64Num f_exp f_erfc f_pow2 f_icdf) 3))
                       (@ordinal Bits.binary64 (FloatInst.B64Num f_exp f_erfc f_pow2 f_icdf) b
                          (@fofZ Bits.binary64 (FloatInst.B64Num f_exp f_erfc f_pow2 f_icdf) 3)) = true) sorted /\
  Permutation l sorted.
Proof. exact FloatOrderInstL.strongly_sorted_le_b64. Qed.
Print Assumptions C18_strongly_sorted_le_binary64.

(** non-vacuity (libm parameters: identity stand-ins, unused): ratings (mu, sigma) = (10.0, 1.0),
    (4.0, 0.0), (7.0, 0.0) have the finite ordinals 7.0, 4.0, 7.0; sorted with [<] the ids come out
    2, 1, 3 (stable on the tie), as over the integers ([C18_sorted_nonvacuous]) *)
Example C18_sorted_binary64_ex :
  let N := FloatInst.B64Num (fun x => x) (fun x => x) (fun x => x) (fun x => x) in
  let l := [mkRating (FloatInst.b64_of_Z 10) (FloatInst.b64_of_Z 1) 1%Z NmNone;
            mkRating (FloatInst.b64_of_Z 4) (FloatInst.b64_of_Z 0) 2%Z NmNone;
            mkRating (FloatInst.b64_of_Z 7) (FloatInst.b64_of_Z 0) 3%Z NmNone] in
  Forall (fun a : rating Bits.binary64 =>
            Binary.is_finite 53%Z 1024%Z (@ordinal Bits.binary64 N a (@fofZ Bits.binary64 N 3)) = true) l
  /\ map r_id (isort (fun a b => negb (match @rating_compare Bits.binary64 N OpLt PL b (PRating PL a) with
                                       | Ok t => t | Raise _ => false end)) l) = [2; 1; 3]%Z
  /\ map (fun a => Bits.bits_of_b64 (@ordinal Bits.binary64 N a (@fofZ Bits.binary64 N 3))) l
     = map Bits.bits_of_b64 [FloatInst.b64_of_Z 7; FloatInst.b64_of_Z 4; FloatInst.b64_of_Z 7].
Proof.
  intros N l. split; [|split].
  - repeat (constructor; [vm_compute; reflexivity|]). constructor.
  - vm_compute. reflexivity.
  - vm_compute. reflexivity.
Qed.

(** the finiteness premise cannot be dropped: with ordinals 5.0, NaN, 3.0 (the middle rating has
    mu = NaN 0x7FF8000000000000) the sort leaves the list as it is, and 5.0 <= 3.0 is false *)
Example C18_sorted_fails_nan_binary64 :
  let N := FloatInst.B64Num (fun x => x) (fun x => x) (fun x => x) (fun x => x) in
  let l := [mkRating (FloatInst.b64_of_Z 5) (FloatInst.b64_of_Z 0) 1%Z NmNone;
            mkRating (Bits.b64_of_bits 9221120237041090560%Z) (FloatInst.b64_of_Z 0) 2%Z NmNone;
            mkRating (FloatInst.b64_of_Z 3) (FloatInst.b64_of_Z 0) 3%Z NmNone] in
  map r_id (isort (fun a b => negb (match @rating_compare Bits.binary64 N OpLt PL b (PRating PL a) with
                                    | Ok t => t | Raise _ => false end)) l) = [1; 2; 3]%Z
  /\ @fleb Bits.binary64 N (@ordinal Bits.binary64 N (nth 0 l (nth 0 l (mkRating (FloatInst.b64_of_Z 0) (FloatInst.b64_of_Z 0) 0%Z NmNone)))
                              (@fofZ Bits.binary64 N 3))
                           (@ordinal Bits.binary64 N (nth 2 l (nth 0 l (mkRating (FloatInst.b64_of_Z 0) (FloatInst.b64_of_Z 0) 0%Z NmNone)))
                              (@fofZ Bits.binary64 N 3)) = false.
Proof. intros N l. split; vm_compute; reflexivity. Qed.

(** * C02: rate() result corresponds to its input position by position and player by player. *)
From Coq Require Import List ZArith Bool.
From OSV Require Import Num Order Core PyVal Prog.
From OSV.Lemmas Require ProgL C02L.
Import ListNotations.

(** Same number of teams, same team sizes, and the same id and name at every position
    [i][j], for every model, parameters, tau, limit_sigma, and whatever rank keys were
    supplied (one per team) or none: nobody is dropped, duplicated or moved. *)
Theorem C02_shape_ids : forall (F : Type) (N : Num F) (k : kind) (P : params F) (tau : F)
    (limit : bool) (teams : list (list (rating F))) (keys : option (list key)),
  match keys with Some ks => length ks = length teams | None => True end ->
  map (map r_id) (rate_core k P tau limit teams keys) = map (map r_id) teams /\
  map (map r_name) (rate_core k P tau limit teams keys) = map (map r_name) teams /\
  length (rate_core k P tau limit teams keys) = length teams /\
  map (@length _) (rate_core k P tau limit teams keys) = map (@length _) teams.
Proof. exact (@C02L.shape_ids). Qed.
Print Assumptions C02_shape_ids.

(** three teams, ranks [[2, 1.5, 2]] (the second team wins, the others tie): the result keeps
    every id in place although the game was sorted and unsorted, and it is not the input *)
Example C02_shape_ids_nonvacuous :
  let r := C02L.fix_rating in
  let teams := [[r 25 8 1; r 30 6 2]; [r 20 7 3]; [r 22 5 4]]%Z in
  let res := @rate_core Z C02L.FixNum PL C02L.fix_params 83%Z false teams (Some [(2, 0); (3, 1); (2, 0)]%Z) in
  length [(2, 0); (3, 1); (2, 0)]%Z = length teams /\
  map (map r_id) res = [[1; 2]; [3]; [4]]%Z /\ map (map r_mu) res <> map (map r_mu) teams /\
  res <> @rate_core Z C02L.FixNum PL C02L.fix_params 83%Z false teams (Some [(1, 0); (2, 0); (3, 0)]%Z).
Proof.
  vm_compute. split; [reflexivity|]. split; [reflexivity|]. split; intros H; discriminate H.
Qed.

(** Position by position and player by player: the rating returned at [i][j] is the update
    ([update_player]: mu + share * omega, sigma * sqrt(max(1 - share * delta, kappa))) of the
    tau-inflated player passed at [i][j], with one (omega, delta) per team and the team
    aggregates of the inflated team [i] itself, clamped against that same player if
    limit_sigma is on. *)
Theorem C02_posterior_of_same_player : forall (F : Type) (N : Num F) (k : kind) (P : params F)
    (tau : F) (limit : bool) (teams : list (list (rating F))) (keys : option (list key)),
  match keys with Some ks => length ks = length teams | None => True end ->
  Forall2 (fun team res => exists (rank : nat) (omega delta : F),
     Forall2 (fun p r =>
        r = let u := update_player P (team_rating (map (inflate tau) team) rank) omega delta (inflate tau p) in
            if limit then clamp_player p u else u) team res)
    teams (rate_core k P tau limit teams keys).
Proof. exact (@C02L.posterior_of_same_player). Qed.
Print Assumptions C02_posterior_of_same_player.

(** the same, read at a position: team [i] of the result exists, has the size of team [i]
    of the input, and its slot [j] holds the posterior of the player passed at [i][j] *)
Theorem C02_posterior_nth : forall (F : Type) (N : Num F) (k : kind) (P : params F)
    (tau : F) (limit : bool) (teams : list (list (rating F))) (keys : option (list key))
    (i : nat) (team : list (rating F)),
  match keys with Some ks => length ks = length teams | None => True end ->
  nth_error teams i = Some team ->
  exists res (rank : nat) (omega delta : F),
    nth_error (rate_core k P tau limit teams keys) i = Some res /\
    length res = length team /\
    forall j p, nth_error team j = Some p ->
      nth_error res j =
      Some (let u := update_player P (team_rating (map (inflate tau) team) rank) omega delta (inflate tau p) in
            if limit then clamp_player p u else u).
Proof. exact (@C02L.posterior_nth). Qed.
Print Assumptions C02_posterior_nth.

(** each player keeps id and name *)
Theorem C02_same_players : forall (F : Type) (N : Num F) (k : kind) (P : params F)
    (tau : F) (limit : bool) (teams : list (list (rating F))) (keys : option (list key)),
  match keys with Some ks => length ks = length teams | None => True end ->
  Forall2 (Forall2 (fun p r => r_id r = r_id p /\ r_name r = r_name p))
          teams (rate_core k P tau limit teams keys).
Proof. exact (@C02L.result_same_players). Qed.
Print Assumptions C02_same_players.

(** The replay function used below, specified without reference to its definition:
    replaying a trace is replaying its events one after the other, and one event changes
    exactly the field it names at exactly the position it names. *)
Theorem C02_replay_meaning : forall (F : Type) (N : Num F) (e : event F) (tr : list (event F))
    (T : list (list (rating F))) (i' j' : nat),
  C02L.apply_muts [] T = T /\
  C02L.apply_muts (e :: tr) T = C02L.apply_muts tr (C02L.apply_mut e T) /\
  match nth_error (C02L.apply_mut e T) i' with Some t => nth_error t j' | None => None end =
  let old := match nth_error T i' with Some t => nth_error t j' | None => None end in
  match e with
  | EMutMu i j x => if Nat.eqb i i' && Nat.eqb j j'
                    then option_map (fun r => set_mu_sigma r x (r_sigma r)) old else old
  | EMutSigma i j x => if Nat.eqb i i' && Nat.eqb j j'
                       then option_map (fun r => set_sigma r x) old else old
  | _ => old
  end.
Proof. intros; split; [reflexivity|]; split; [reflexivity|]; apply (C02L.apply_mut_meaning e T i' j'). Qed.
Print Assumptions C02_replay_meaning.

(** The objects that were passed in.  [C02L.apply_muts tr tms] replays, in order, the writes
    [EMutMu i j x] / [EMutSigma i j x] of the trace [tr] on the list [tms] of rating objects
    (slot [j] of team [i] gets mu, resp. sigma, [x]; every other event is skipped).
    When the call returns [res], the passed objects, after all the writes the call made to
    them, are exactly the returned ratings: each equal to the returned rating of the same
    player, never a mixture. *)
Theorem C02_passed_objects : forall (F : Type) (N : Num F) (k : kind)
    (teams ranks scores tau limit : pyval F) (st : mstate F)
    (tr : list (event F)) (st' : mstate F) (res : list (list (rating F))),
  run (rate_prog k teams ranks scores tau limit) st = (tr, st', Ok res) ->
  exists tms, check_teams k teams = Ok tms /\ C02L.apply_muts tr tms = res.
Proof. exact (@C02L.passed_objects). Qed.
Print Assumptions C02_passed_objects.

(** When the call raises, nothing was written to any passed object (the trace is empty) and
    the model is unchanged: the passed objects are all untouched. *)
Theorem C02_passed_objects_raise : forall (F : Type) (N : Num F) (k : kind)
    (teams ranks scores tau limit : pyval F) (st : mstate F)
    (tr : list (event F)) (st' : mstate F) (e : exn),
  run (rate_prog k teams ranks scores tau limit) st = (tr, st', Raise e) -> tr = [] /\ st' = st.
Proof. exact (@C02L.raise_no_events). Qed.
Print Assumptions C02_passed_objects_raise.

(** a successful call returns [rate_core] of the validated arguments, so the value-level
    theorems above speak about what [rate] returns *)
Theorem C02_ok_is_rate_core : forall (F : Type) (N : Num F) (k : kind)
    (teams ranks scores tau limit : pyval F) (st : mstate F)
    (tr : list (event F)) (st' : mstate F) (res : list (list (rating F))),
  run (rate_prog k teams ranks scores tau limit) st = (tr, st', Ok res) ->
  exists tms keys t lim, validate_rate k teams ranks scores = Ok (tms, keys) /\
    match keys with Some ks => length ks = length tms | None => True end /\
    res = rate_core k (params_of st) t lim tms keys.
Proof. exact (@C02L.ok_is_rate_core). Qed.
Print Assumptions C02_ok_is_rate_core.

(** a call that returns (ranks [[2, 1.5]], limit_sigma on: three rounds of writes), with the
    replayed objects equal to the result and different from what was passed; and a call that
    raises *)
Example C02_passed_objects_nonvacuous :
  let r := C02L.fix_rating in
  let tms := [[r 25 8 1; r 30 6 2]; [r 20 7 3]]%Z in
  let teams := PList (map (fun t => PList (map (@PRating Z PL) t)) tms) in
  let out := @run Z _
               (@rate_prog Z C02L.FixNum PL teams (PList [PInt 2; PFloat 1500%Z 3%Z 1%Z]) PNone PNone (PBool true))
               C02L.fix_state in
  (exists res, snd out = Ok res /\ @check_teams Z PL teams = Ok tms /\
               @C02L.apply_muts Z (fst (fst out)) tms = res /\ map (map r_mu) res <> map (map r_mu) tms /\
               length (fst (fst out)) = 16) /\
  @run Z _ (@rate_prog Z C02L.FixNum PL (PList []) PNone PNone PNone PNone) C02L.fix_state
  = ([], C02L.fix_state, Raise ValueError).
Proof.
  vm_compute. split; [|reflexivity]. eexists. split; [reflexivity|].
  split; [reflexivity|]. split; [reflexivity|]. split; [intros H; discriminate H | reflexivity].
Qed.

(** * C11 — predict_rank ranks agree with its probabilities and complement predict_draw.

    The discrete clauses are stated for an arbitrary carrier [F] with [N : Num F]; the only
    facts assumed about [N] are the four order laws on [fltb]/[feqb] written out as premises
    (strict weak order with [feqb] = "neither is less"; true in R — see [C11_laws_R] — and for
    IEEE doubles without NaN).  The two analytic clauses are over R.

    Non-vacuity: the premise [GaussCDF Phi Phiinv] of the two analytic theorems IS
    instantiated, without any hypothesis, by
    [GaussInst.GaussCDF_inst : GaussCDF GaussInst.PhiK GaussInst.PhiinvK], where
    [GaussInst.PhiK x = 1/2 + (int_0^x exp(-t^2/2) dt) / (2 I)] is the standard normal
    distribution function (the only fact about it that is not proved is the numeric value of
    its normalising constant, 2 * I = sqrt (2 * pi), which these theorems do not need); the
    premise-free corollaries [<name>_inst] are at the end of the file.  Their other
    hypotheses (beta > 0, >= 2 / >= 3 non-empty teams) are plainly satisfiable.  The
    polymorphic theorems have concrete Examples below (nat with Nat.ltb/Nat.eqb, and the order
    laws of the R instance). *)
From Coq Require Import List Arith Reals.
From OSV Require Import Num Order Core Predict RInst.
From OSV Require GaussInst.
From OSV.Lemmas Require RankDataL C11L.
Import ListNotations.
Local Open Scope nat_scope.

(** [_rank_data] is competition ranking ("1224"): the rank of element [i] is one more than the
    number of elements strictly smaller than it. *)
Theorem C11_rank_data_spec :
  forall (V : Type) (vltb veqb : V -> V -> bool),
    (forall x, vltb x x = false) ->
    (forall x y z, vltb x y = true -> vltb y z = true -> vltb x z = true) ->
    (forall x y, veqb x y = true <-> (vltb x y = false /\ vltb y x = false)) ->
    (forall x y z, veqb x y = true -> veqb y z = true -> veqb x z = true) ->
    forall (v : list V) (d : V) (i : nat), i < length v ->
      nth i (rank_data vltb veqb v) 0 = S (length (filter (fun w => vltb w (nth i v d)) v)).
Proof. exact @RankDataL.rank_data_spec. Qed.
Print Assumptions C11_rank_data_spec.

Example C11_rank_data_laws_nat :
  (forall x, Nat.ltb x x = false) /\
  (forall x y z, Nat.ltb x y = true -> Nat.ltb y z = true -> Nat.ltb x z = true) /\
  (forall x y, Nat.eqb x y = true <-> (Nat.ltb x y = false /\ Nat.ltb y x = false)) /\
  (forall x y z, Nat.eqb x y = true -> Nat.eqb y z = true -> Nat.eqb x z = true).
Proof.
  repeat split; intros; rewrite ?Nat.ltb_irrefl, ?Nat.eqb_eq, ?Nat.ltb_lt, ?Nat.ltb_ge in *;
    try apply Nat.le_antisymm; try (eapply Nat.lt_trans; eassumption); try tauto;
    try (subst; apply Nat.le_refl); try congruence.
Qed.
Example C11_rank_data_ex1 : rank_data Nat.ltb Nat.eqb [30; 10; 30; 20; 10] = [4; 1; 4; 3; 1].
Proof. reflexivity. Qed.
Example C11_rank_data_ex2 :
  reverse_ranks (rank_data Nat.ltb Nat.eqb [30; 10; 30; 20; 10]) = [1; 4; 1; 2; 4].
Proof. reflexivity. Qed.

(** one (rank, probability) pair per team; the probabilities are, in input order, those of
    [predict_rank_probs], and the i-th of them is computed from team i against all the others. *)
Theorem C11_length :
  forall (F : Type) (N : Num F) (beta : F) (teams : list (list (rating F))),
    length (predict_rank beta teams) = length teams
    /\ map snd (predict_rank beta teams) = predict_rank_probs beta teams.
Proof. exact @C11L.predict_rank_length. Qed.
Print Assumptions C11_length.

Theorem C11_input_order :
  forall (F : Type) (N : Num F) (beta : F) (teams : list (list (rating F))) (i : nat) (d : F),
    i < length teams ->
    nth i (predict_rank_probs beta teams) d
    = let a := agg (nth i teams []) in
      fabs (fdiv (py_sum (map (fun tb => let b := agg tb in
                    Gauss.cdf (fdiv (fsub (fsub (fst a) (fst b)) (draw_margin beta teams))
                                    (pair_scale beta (length teams) a b)))
                    (firstn i teams ++ skipn (S i) teams)))
                 (half_pairs (length teams))).
Proof. exact @C11L.predict_rank_probs_nth. Qed.
Print Assumptions C11_input_order.

(** a strictly larger probability has a strictly better (smaller) rank *)
Theorem C11_order :
  forall (F : Type) (N : Num F),
    (forall x : F, fltb x x = false) ->
    (forall x y z : F, fltb x y = true -> fltb y z = true -> fltb x z = true) ->
    (forall x y : F, feqb x y = true <-> (fltb x y = false /\ fltb y x = false)) ->
    (forall x y z : F, feqb x y = true -> feqb y z = true -> feqb x z = true) ->
    forall (beta : F) (teams : list (list (rating F))) (i j : nat) (d : F),
      i < length teams -> j < length teams ->
      fltb (snd (nth j (predict_rank beta teams) (0, d)))
           (snd (nth i (predict_rank beta teams) (0, d))) = true ->
      fst (nth i (predict_rank beta teams) (0, d)) < fst (nth j (predict_rank beta teams) (0, d)).
Proof. exact @C11L.C11_order_l. Qed.
Print Assumptions C11_order.

(** equal probabilities share a rank *)
Theorem C11_ties :
  forall (F : Type) (N : Num F),
    (forall x : F, fltb x x = false) ->
    (forall x y z : F, fltb x y = true -> fltb y z = true -> fltb x z = true) ->
    (forall x y : F, feqb x y = true <-> (fltb x y = false /\ fltb y x = false)) ->
    (forall x y z : F, feqb x y = true -> feqb y z = true -> feqb x z = true) ->
    forall (beta : F) (teams : list (list (rating F))) (i j : nat) (d : F),
      i < length teams -> j < length teams ->
      feqb (snd (nth i (predict_rank beta teams) (0, d)))
           (snd (nth j (predict_rank beta teams) (0, d))) = true ->
      fst (nth i (predict_rank beta teams) (0, d)) = fst (nth j (predict_rank beta teams) (0, d)).
Proof. exact @C11L.C11_ties_l. Qed.
Print Assumptions C11_ties.

(** a team whose probability no other exceeds has rank 1, and such a team exists *)
Theorem C11_best_is_1 :
  forall (F : Type) (N : Num F),
    (forall x : F, fltb x x = false) ->
    (forall x y z : F, fltb x y = true -> fltb y z = true -> fltb x z = true) ->
    (forall x y : F, feqb x y = true <-> (fltb x y = false /\ fltb y x = false)) ->
    (forall x y z : F, feqb x y = true -> feqb y z = true -> feqb x z = true) ->
    forall (beta : F) (teams : list (list (rating F))) (i : nat) (d : F),
      i < length teams ->
      (forall j, j < length teams ->
         fltb (snd (nth i (predict_rank beta teams) (0, d)))
              (snd (nth j (predict_rank beta teams) (0, d))) = false) ->
      fst (nth i (predict_rank beta teams) (0, d)) = 1.
Proof. exact @C11L.C11_best_is_1_l. Qed.
Print Assumptions C11_best_is_1.

Theorem C11_rank1_exists :
  forall (F : Type) (N : Num F),
    (forall x : F, fltb x x = false) ->
    (forall x y z : F, fltb x y = true -> fltb y z = true -> fltb x z = true) ->
    (forall x y : F, feqb x y = true <-> (fltb x y = false /\ fltb y x = false)) ->
    (forall x y z : F, feqb x y = true -> feqb y z = true -> feqb x z = true) ->
    forall (beta : F) (teams : list (list (rating F))) (d : F),
      teams <> [] ->
      exists i, i < length teams /\ fst (nth i (predict_rank beta teams) (0, d)) = 1.
Proof. exact @C11L.C11_rank1_exists_l. Qed.
Print Assumptions C11_rank1_exists.

(** ranks are integers in 1..n *)
Theorem C11_bounds :
  forall (F : Type) (N : Num F),
    (forall x : F, fltb x x = false) ->
    (forall x y z : F, fltb x y = true -> fltb y z = true -> fltb x z = true) ->
    (forall x y : F, feqb x y = true <-> (fltb x y = false /\ fltb y x = false)) ->
    (forall x y z : F, feqb x y = true -> feqb y z = true -> feqb x z = true) ->
    forall (beta : F) (teams : list (list (rating F))) (i : nat) (d : F),
      i < length teams ->
      1 <= fst (nth i (predict_rank beta teams) (0, d)) <= length teams.
Proof. exact @C11L.C11_bounds_l. Qed.
Print Assumptions C11_bounds.

(** the order laws hold in the R instance (whatever Phi, Phiinv), so the five theorems above
    apply to it: non-vacuity of the law premises *)
Example C11_laws_R :
  forall Phi Phiinv : R -> R,
    let N := RNum Phi Phiinv in
    (forall x : R, @fltb R N x x = false) /\
    (forall x y z : R, @fltb R N x y = true -> @fltb R N y z = true -> @fltb R N x z = true) /\
    (forall x y : R, @feqb R N x y = true <-> (@fltb R N x y = false /\ @fltb R N y x = false)) /\
    (forall x y z : R, @feqb R N x y = true -> @feqb R N y z = true -> @feqb R N x z = true).
Proof.
  intros Phi Phiinv N.
  exact (conj C11L.Rltb_irrefl (conj C11L.Rltb_trans (conj C11L.Reqb_spec C11L.Reqb_trans))).
Qed.

(** the same clauses read directly on R (any Phi, Phiinv) *)
Theorem C11_ranks_R :
  forall (Phi Phiinv : R -> R) (beta : R) (teams : list (list (rating R))) (i j : nat) (d : R),
    i < length teams -> j < length teams ->
    let pr := @predict_rank R (RNum Phi Phiinv) beta teams in
    ((snd (nth j pr (0%nat, d)) < snd (nth i pr (0%nat, d)))%R -> fst (nth i pr (0, d)) < fst (nth j pr (0, d)))
    /\ (snd (nth i pr (0, d)) = snd (nth j pr (0, d)) -> fst (nth i pr (0, d)) = fst (nth j pr (0, d)))
    /\ 1 <= fst (nth i pr (0, d)) <= length teams.
Proof. exact C11L.C11_ranks_R_l. Qed.
Print Assumptions C11_ranks_R.

(** each probability is in [0, 1]  (the proof uses only [>= 2 teams]; [beta > 0] and non-empty
    teams are the domain on which the Python code does not raise) *)
Theorem C11_prob_range :
  forall Phi Phiinv : R -> R, GaussCDF Phi Phiinv ->
  forall (beta : R) (teams : list (list (rating R))),
    (0 < beta)%R -> 2 <= length teams -> Forall (fun t => t <> []) teams ->
    Forall (fun p => (0 <= p <= 1)%R) (@predict_rank_probs R (RNum Phi Phiinv) beta teams).
Proof. exact C11L.C11_prob_range_l. Qed.
Print Assumptions C11_prob_range.

(** three or more teams: the rank probabilities and the draw probability sum to 1 *)
Theorem C11_rank_plus_draw_one :
  forall Phi Phiinv : R -> R, GaussCDF Phi Phiinv ->
  forall (beta : R) (teams : list (list (rating R))),
    (0 < beta)%R -> 3 <= length teams -> Forall (fun t => t <> []) teams ->
    (Rsum (@predict_rank_probs R (RNum Phi Phiinv) beta teams)
     + @predict_draw R (RNum Phi Phiinv) beta teams = 1)%R.
Proof. exact C11L.C11_rank_plus_draw_one_l. Qed.
Print Assumptions C11_rank_plus_draw_one.

(** ** Hypothesis-free corollaries: the premise [GaussCDF Phi Phiinv] discharged by the concrete
    standard normal distribution function [GaussInst.PhiK] and its inverse [GaussInst.PhiinvK]
    ([GaussInst.GaussCDF_inst]). *)
Theorem C11_prob_range_inst :
  forall (beta : R) (teams : list (list (rating R))),
    (0 < beta)%R -> 2 <= length teams -> Forall (fun t => t <> []) teams ->
    Forall (fun p => (0 <= p <= 1)%R) (@predict_rank_probs R (RNum GaussInst.PhiK GaussInst.PhiinvK) beta teams).
Proof. exact (C11_prob_range GaussInst.PhiK GaussInst.PhiinvK GaussInst.GaussCDF_inst). Qed.
Print Assumptions C11_prob_range_inst.

Theorem C11_rank_plus_draw_one_inst :
  forall (beta : R) (teams : list (list (rating R))),
    (0 < beta)%R -> 3 <= length teams -> Forall (fun t => t <> []) teams ->
    (Rsum (@predict_rank_probs R (RNum GaussInst.PhiK GaussInst.PhiinvK) beta teams)
     + @predict_draw R (RNum GaussInst.PhiK GaussInst.PhiinvK) beta teams = 1)%R.
Proof. exact (C11_rank_plus_draw_one GaussInst.PhiK GaussInst.PhiinvK GaussInst.GaussCDF_inst). Qed.
Print Assumptions C11_rank_plus_draw_one_inst.

(** ** Range of [predict_rank_probs] on the doubles the code computes (binary64, no rounding slack)

    On Flocq's binary64 with the IEEE 754 round-to-nearest-even operations ([FloatInst.B64Num]):
    every element of [predict_rank_probs beta teams] (the probabilities [predict_rank] returns) is a
    FINITE double whose real value is in [0,1].  Premises: libm's erfc returns, on every finite
    argument, a finite double with value in [0,2]; 2 <= number of teams <= 2^20; every argument
    handed to the normal CDF (the quotients (mu_a - mu_b - draw_margin) / pair_scale that the code
    computes, one per ordered pair of distinct positions) is finite (no overflow, no NaN).
    Nothing is assumed about exp, [x ** 2], inv_cdf or the accuracy of sqrt.  All other finiteness
    is derived; the argument is that of [C09_predict_win_range_binary64] (with two teams the sum has
    one term, the compensation of CPython's [sum()] is then exactly 0 and n(n-1)/2 = 1). *)
From Coq Require Import ZArith.
From Flocq Require IEEE754.BinarySingleNaN IEEE754.Binary IEEE754.Bits.
From OSV Require FloatInst.
From OSV.Lemmas Require FloatRangeL.

Theorem C11_rank_probs_range_binary64 :
  forall (f_exp f_erfc f_pow2 f_icdf : Bits.binary64 -> Bits.binary64),
  (forall x : Bits.binary64, Binary.is_finite 53%Z 1024%Z x = true ->
     Binary.is_finite 53%Z 1024%Z (f_erfc x) = true
     /\ (0 <= Binary.B2R 53%Z 1024%Z (f_erfc x) <= 2)%R) ->
  forall (beta : Bits.binary64) (teams : list (list (rating Bits.binary64))),
  2 <= length teams -> (Z.of_nat (length teams) <= 2 ^ 20)%Z ->
  (forall (ro : list (rating Bits.binary64) * list (list (rating Bits.binary64))) (tb : list (rating Bits.binary64)),
     In ro (rows teams) -> In tb (snd ro) ->
     Binary.is_finite 53%Z 1024%Z
       (@fdiv Bits.binary64 (FloatInst.B64Num f_exp f_erfc f_pow2 f_icdf)
          (@fsub Bits.binary64 (FloatInst.B64Num f_exp f_erfc f_pow2 f_icdf)
             (@fsub Bits.binary64 (FloatInst.B64Num f_exp f_erfc f_pow2 f_icdf)
                (fst (@agg Bits.binary64 (FloatInst.B64Num f_exp f_erfc f_pow2 f_icdf) (fst ro)))
                (fst (@agg Bits.binary64 (FloatInst.B64Num f_exp f_erfc f_pow2 f_icdf) tb)))
             (@draw_margin Bits.binary64 (FloatInst.B64Num f_exp f_erfc f_pow2 f_icdf) beta teams))
          (@pair_scale Bits.binary64 (FloatInst.B64Num f_exp f_erfc f_pow2 f_icdf) beta (length teams)
             (@agg Bits.binary64 (FloatInst.B64Num f_exp f_erfc f_pow2 f_icdf) (fst ro))
             (@agg Bits.binary64 (FloatInst.B64Num f_exp f_erfc f_pow2 f_icdf) tb))) = true) ->
  Forall (fun p : Bits.binary64 =>
            Binary.is_finite 53%Z 1024%Z p = true /\ (0 <= Binary.B2R 53%Z 1024%Z p <= 1)%R)
    (@predict_rank_probs Bits.binary64 (FloatInst.B64Num f_exp f_erfc f_pow2 f_icdf) beta teams).
Proof. exact FloatRangeL.rank_probs_range_b64. Qed.
Print Assumptions C11_rank_probs_range_binary64.

(** non-vacuity.  Stand-ins for the libm parameters: erfc := the step function 2 / 1 / 0 on
    negative / zero / positive arguments (finite, in [0,2], as the premise requires),
    [x ** 2 := x * x], inv_cdf := identity (so the draw margin is sqrt(4) * beta * 0.625); exp is
    not used.  beta = 25/6; teams [(25.0, 25/3)], [(30.5, 7.25)], [(20.0, 5.0); (22.0, 4.0)]
    (aggregate means 25, 30.5, 42).  The computed probabilities are [0.0; 1/3; 2/3] rounded;
    with the first two teams only they are [0.0; 1.0]. *)
Example C11_rank_probs_range_binary64_ex :
  let N := FloatInst.B64Num (fun x => x)
             (fun x => match Bits.b64_compare x (Binary.B754_zero 53%Z 1024%Z false) with
                       | Some Lt => FloatInst.b64_of_Z 2 | Some Gt => FloatInst.b64_of_Z 0
                       | _ => FloatInst.b64_of_Z 1 end)
             (fun x => Bits.b64_mult BinarySingleNaN.mode_NE x x) (fun x => x) in
  let t1 := [mkRating (Bits.b64_of_bits 4627730092099895296%Z) (Bits.b64_of_bits 4620880867666602667%Z) 0%Z NmNone] in
  let t2 := [mkRating (Bits.b64_of_bits 4629278204471803904%Z) (Bits.b64_of_bits 4619848792751996928%Z) 1%Z NmNone] in
  let t3 := [mkRating (FloatInst.b64_of_Z 20) (FloatInst.b64_of_Z 5) 2%Z NmNone;
             mkRating (FloatInst.b64_of_Z 22) (FloatInst.b64_of_Z 4) 3%Z NmNone] in
  let beta := Bits.b64_of_bits 4616377268039232171%Z in
  Forall (fun p : Bits.binary64 =>
            Binary.is_finite 53%Z 1024%Z p = true /\ (0 <= Binary.B2R 53%Z 1024%Z p <= 1)%R)
    (@predict_rank_probs Bits.binary64 N beta [t1; t2; t3])
  /\ Forall (fun p : Bits.binary64 =>
            Binary.is_finite 53%Z 1024%Z p = true /\ (0 <= Binary.B2R 53%Z 1024%Z p <= 1)%R)
    (@predict_rank_probs Bits.binary64 N beta [t1; t2])
  /\ map Bits.bits_of_b64 (@predict_rank_probs Bits.binary64 N beta [t1; t2; t3])
     = [0%Z; 4599676419421066581%Z; 4604180019048437077%Z]
  /\ map Bits.bits_of_b64 (@predict_rank_probs Bits.binary64 N beta [t1; t2])
     = [0%Z; 4607182418800017408%Z].
Proof.
  intros N t1 t2 t3 beta. split; [|split; [|split]].
  - apply C11_rank_probs_range_binary64.
    + exact FloatRangeL.ex_erfc_ok.
    + repeat constructor.
    + vm_compute. intros H; discriminate H.
    + intros ro tb Hro Htb. cbv [rows rows_aux rev app In] in Hro.
      destruct Hro as [<-|[<-|[<-|[]]]]; cbv [snd In] in Htb; destruct Htb as [<-|[<-|[]]];
        vm_compute; reflexivity.
  - apply C11_rank_probs_range_binary64.
    + exact FloatRangeL.ex_erfc_ok.
    + repeat constructor.
    + vm_compute. intros H; discriminate H.
    + intros ro tb Hro Htb. cbv [rows rows_aux rev app In] in Hro.
      destruct Hro as [<-|[<-|[]]]; cbv [snd In] in Htb; destruct Htb as [<-|[]];
        vm_compute; reflexivity.
  - vm_compute. reflexivity.
  - vm_compute. reflexivity.
Qed.

From OSV.Lemmas Require FloatOrderInstL.
(** ** The order-law clauses at IEEE 754 binary64, for FINITE doubles (no law hypothesis)

    The four order-law premises of [C11_rank_data_spec] ... [C11_bounds] are false for binary64 as
    a whole (NaN is not equal to itself: [C11_laws_fail_nan_binary64]), so those theorems cannot
    be instantiated at [FloatInst.B64Num] as they stand.  The laws do hold on the finite doubles
    ([C11_order_laws_binary64]; +0.0 and -0.0 are distinct doubles that compare equal — the laws
    speak of the comparison functions), and the conclusions follow for every list of finite
    doubles: the polymorphic theorems are instantiated at the subset type
    [{x : binary64 | is_finite x = true}] and transferred along [map proj1_sig].  The only
    premise left is finiteness of the probabilities, which [C11_rank_probs_range_binary64]
    derives: [C11_predict_rank_order_binary64] is the end-to-end statement. *)

Theorem C11_order_laws_binary64 :
  (forall x : Bits.binary64, Binary.is_finite 53%Z 1024%Z x = true -> FloatInst.b64_ltb x x = false) /\
  (forall x y z : Bits.binary64,
     Binary.is_finite 53%Z 1024%Z x = true -> Binary.is_finite 53%Z 1024%Z y = true ->
     Binary.is_finite 53%Z 1024%Z z = true ->
     FloatInst.b64_ltb x y = true -> FloatInst.b64_ltb y z = true -> FloatInst.b64_ltb x z = true) /\
  (forall x y : Bits.binary64,
     Binary.is_finite 53%Z 1024%Z x = true -> Binary.is_finite 53%Z 1024%Z y = true ->
     (FloatInst.b64_eqb x y = true <-> (FloatInst.b64_ltb x y = false /\ FloatInst.b64_ltb y x = false))) /\
  (forall x y z : Bits.binary64,
     Binary.is_finite 53%Z 1024%Z x = true -> Binary.is_finite 53%Z 1024%Z y = true ->
     Binary.is_finite 53%Z 1024%Z z = true ->
     FloatInst.b64_eqb x y = true -> FloatInst.b64_eqb y z = true -> FloatInst.b64_eqb x z = true).
Proof. exact FloatOrderInstL.b64_order_laws_fin. Qed.
Print Assumptions C11_order_laws_binary64.

(** without finiteness the third law fails: for x = NaN (0x7FF8000000000000) neither [x < x] nor
    [x == x]; and the two zeros are distinct finite doubles that compare equal *)
Example C11_laws_fail_nan_binary64 :
  let x := Bits.b64_of_bits 9221120237041090560%Z in
  Binary.is_finite 53%Z 1024%Z x = false /\ FloatInst.b64_ltb x x = false /\ FloatInst.b64_eqb x x = false.
Proof. vm_compute. repeat split. Qed.
Example C11_zeros_binary64 :
  FloatInst.b64_eqb (Binary.B754_zero 53%Z 1024%Z false) (Binary.B754_zero 53%Z 1024%Z true) = true
  /\ Binary.B754_zero 53%Z 1024%Z false <> Binary.B754_zero 53%Z 1024%Z true.
Proof. split; [vm_compute; reflexivity | intros H; discriminate H]. Qed.

(** [_rank_data] on a list of finite doubles is competition ranking *)
Theorem C11_rank_data_spec_binary64 :
  forall v : list Bits.binary64,
    Forall (fun x : Bits.binary64 => Binary.is_finite 53%Z 1024%Z x = true) v ->
    forall (d : Bits.binary64) (i : nat), i < length v ->
      nth i (rank_data FloatInst.b64_ltb FloatInst.b64_eqb v) 0
      = S (length (filter (fun w => FloatInst.b64_ltb w (nth i v d)) v)).
Proof. exact FloatOrderInstL.rank_data_spec_b64. Qed.
Print Assumptions C11_rank_data_spec_binary64.

(** the doubles 1.0, 0.5, 1.0, -0.0, +0.0, 0.5: all finite; ranks 5 3 5 1 1 3 (the two zeros
    tie), reversed as [predict_rank] does: 1 3 1 5 5 3 *)
Example C11_rank_data_binary64_ex :
  let v := map Bits.b64_of_bits
             [4607182418800017408; 4602678819172646912; 4607182418800017408;
              9223372036854775808; 0; 4602678819172646912]%Z in
  Forall (fun x : Bits.binary64 => Binary.is_finite 53%Z 1024%Z x = true) v
  /\ rank_data FloatInst.b64_ltb FloatInst.b64_eqb v = [5; 3; 5; 1; 1; 3]
  /\ reverse_ranks (rank_data FloatInst.b64_ltb FloatInst.b64_eqb v) = [1; 3; 1; 5; 5; 3].
Proof.
  intros v. split; [|split].
  - repeat (constructor; [vm_compute; reflexivity|]). constructor.
  - vm_compute. reflexivity.
  - vm_compute. reflexivity.
Qed.

(** [predict_rank] on the binary64 instance, whenever its probabilities are finite doubles:
    the five clauses [C11_order] ... [C11_bounds], with the class's comparisons *)
Theorem C11_order_binary64 :
  forall (f_exp f_erfc f_pow2 f_icdf : Bits.binary64 -> Bits.binary64)
         (beta : Bits.binary64) (teams : list (list (rating Bits.binary64))),
    Forall (fun p : Bits.binary64 => Binary.is_finite 53%Z 1024%Z p = true)
      (@predict_rank_probs Bits.binary64 (FloatInst.B64Num f_exp f_erfc f_pow2 f_icdf) beta teams) ->
    forall (i j : nat) (d : Bits.binary64), i < length teams -> j < length teams ->
      @fltb Bits.binary64 (FloatInst.B64Num f_exp f_erfc f_pow2 f_icdf)
        (snd (nth j (@predict_rank Bits.binary64 (FloatInst.B64Num f_exp f_erfc f_pow2 f_icdf) beta teams) (0, d)))
        (snd (nth i (@predict_rank Bits.binary64 (FloatInst.B64Num f_exp f_erfc f_pow2 f_icdf) beta teams) (0, d))) = true ->
      fst (nth i (@predict_rank Bits.binary64 (FloatInst.B64Num f_exp f_erfc f_pow2 f_icdf) beta teams) (0, d))
      < fst (nth j (@predict_rank Bits.binary64 (FloatInst.B64Num f_exp f_erfc f_pow2 f_icdf) beta teams) (0, d)).
Proof. exact FloatOrderInstL.order_b64. Qed.
Print Assumptions C11_order_binary64.

Theorem C11_ties_binary64 :
  forall (f_exp f_erfc f_pow2 f_icdf : Bits.binary64 -> Bits.binary64)
         (beta : Bits.binary64) (teams : list (list (rating Bits.binary64))),
    Forall (fun p : Bits.binary64 => Binary.is_finite 53%Z 1024%Z p = true)
      (@predict_rank_probs Bits.binary64 (FloatInst.B64Num f_exp f_erfc f_pow2 f_icdf) beta teams) ->
    forall (i j : nat) (d : Bits.binary64), i < length teams -> j < length teams ->
      @feqb Bits.binary64 (FloatInst.B64Num f_exp f_erfc f_pow2 f_icdf)
        (snd (nth i (@predict_rank Bits.binary64 (FloatInst.B64Num f_exp f_erfc f_pow2 f_icdf) beta teams) (0, d)))
        (snd (nth j (@predict_rank Bits.binary64 (FloatInst.B64Num f_exp f_erfc f_pow2 f_icdf) beta teams) (0, d))) = true ->
      fst (nth i (@predict_rank Bits.binary64 (FloatInst.B64Num f_exp f_erfc f_pow2 f_icdf) beta teams) (0, d))
      = fst (nth j (@predict_rank Bits.binary64 (FloatInst.B64Num f_exp f_erfc f_pow2 f_icdf) beta teams) (0, d)).
Proof. exact FloatOrderInstL.ties_b64. Qed.
Print Assumptions C11_ties_binary64.

Theorem C11_best_is_1_binary64 :
  forall (f_exp f_erfc f_pow2 f_icdf : Bits.binary64 -> Bits.binary64)
         (beta : Bits.binary64) (teams : list (list (rating Bits.binary64))),
    Forall (fun p : Bits.binary64 => Binary.is_finite 53%Z 1024%Z p = true)
      (@predict_rank_probs Bits.binary64 (FloatInst.B64Num f_exp f_erfc f_pow2 f_icdf) beta teams) ->
    forall (i : nat) (d : Bits.binary64), i < length teams ->
      (forall j, j < length teams ->
         @fltb Bits.binary64 (FloatInst.B64Num f_exp f_erfc f_pow2 f_icdf)
           (snd (nth i (@predict_rank Bits.binary64 (FloatInst.B64Num f_exp f_erfc f_pow2 f_icdf) beta teams) (0, d)))
           (snd (nth j (@predict_rank Bits.binary64 (FloatInst.B64Num f_exp f_erfc f_pow2 f_icdf) beta teams) (0, d))) = false) ->
      fst (nth i (@predict_rank Bits.binary64 (FloatInst.B64Num f_exp f_erfc f_pow2 f_icdf) beta teams) (0, d)) = 1.
Proof. exact FloatOrderInstL.best_is_1_b64. Qed.
Print Assumptions C11_best_is_1_binary64.

Theorem C11_rank1_exists_binary64 :
  forall (f_exp f_erfc f_pow2 f_icdf : Bits.binary64 -> Bits.binary64)
         (beta : Bits.binary64) (teams : list (list (rating Bits.binary64))),
    Forall (fun p : Bits.binary64 => Binary.is_finite 53%Z 1024%Z p = true)
      (@predict_rank_probs Bits.binary64 (FloatInst.B64Num f_exp f_erfc f_pow2 f_icdf) beta teams) ->
    forall d : Bits.binary64, teams <> [] ->
      exists i, i < length teams
        /\ fst (nth i (@predict_rank Bits.binary64 (FloatInst.B64Num f_exp f_erfc f_pow2 f_icdf) beta teams) (0, d)) = 1.
Proof. exact FloatOrderInstL.rank1_exists_b64. Qed.
Print Assumptions C11_rank1_exists_binary64.

Theorem C11_bounds_binary64 :
  forall (f_exp f_erfc f_pow2 f_icdf : Bits.binary64 -> Bits.binary64)
         (beta : Bits.binary64) (teams : list (list (rating Bits.binary64))),
    Forall (fun p : Bits.binary64 => Binary.is_finite 53%Z 1024%Z p = true)
      (@predict_rank_probs Bits.binary64 (FloatInst.B64Num f_exp f_erfc f_pow2 f_icdf) beta teams) ->
    forall (i : nat) (d : Bits.binary64), i < length teams ->
      1 <= fst (nth i (@predict_rank Bits.binary64 (FloatInst.B64Num f_exp f_erfc f_pow2 f_icdf) beta teams) (0, d))
      <= length teams.
Proof. exact FloatOrderInstL.bounds_b64. Qed.
Print Assumptions C11_bounds_binary64.

(** END TO END, read on the real values of the returned doubles (cf. [C11_ranks_R]).  Under the
    premises of [C11_rank_probs_range_binary64] (erfc finite with value in [0,2] on finite
    arguments; 2 <= number of teams <= 2^20; the arguments handed to the normal CDF finite) the
    integer ranks that [predict_rank] returns in binary64 satisfy: a strictly larger probability
    has a strictly smaller (better) rank; equal probabilities share a rank; a team whose
    probability no other exceeds has rank 1; every rank is in 1..n.  No order law is assumed. *)
Theorem C11_predict_rank_order_binary64 :
  forall (f_exp f_erfc f_pow2 f_icdf : Bits.binary64 -> Bits.binary64),
  (forall x : Bits.binary64, Binary.is_finite 53%Z 1024%Z x = true ->
     Binary.is_finite 53%Z 1024%Z (f_erfc x) = true
     /\ (0 <= Binary.B2R 53%Z 1024%Z (f_erfc x) <= 2)%R) ->
  forall (beta : Bits.binary64) (teams : list (list (rating Bits.binary64))),
  2 <= length teams -> (Z.of_nat (length teams) <= 2 ^ 20)%Z ->
  (forall (ro : list (rating Bits.binary64) * list (list (rating Bits.binary64))) (tb : list (rating Bits.binary64)),
     In ro (rows teams) -> In tb (snd ro) ->
     Binary.is_finite 53%Z 1024%Z
       (@fdiv Bits.binary64 (FloatInst.B64Num f_exp f_erfc f_pow2 f_icdf)
          (@fsub Bits.binary64 (FloatInst.B64Num f_exp f_erfc f_pow2 f_icdf)
             (@fsub Bits.binary64 (FloatInst.B64Num f_exp f_erfc f_pow2 f_icdf)
                (fst (@agg Bits.binary64 (FloatInst.B64Num f_exp f_erfc f_pow2 f_icdf) (fst ro)))
                (fst (@agg Bits.binary64 (FloatInst.B64Num f_exp f_erfc f_pow2 f_icdf) tb)))
             (@draw_margin Bits.binary64 (FloatInst.B64Num f_exp f_erfc f_pow2 f_icdf) beta teams))
          (@pair_scale Bits.binary64 (FloatInst.B64Num f_exp f_erfc f_pow2 f_icdf) beta (length teams)
             (@agg Bits.binary64 (FloatInst.B64Num f_exp f_erfc f_pow2 f_icdf) (fst ro))
             (@agg Bits.binary64 (FloatInst.B64Num f_exp f_erfc f_pow2 f_icdf) tb))) = true) ->
  forall (i j : nat) (d : Bits.binary64), i < length teams -> j < length teams ->
  let pr := @predict_rank Bits.binary64 (FloatInst.B64Num f_exp f_erfc f_pow2 f_icdf) beta teams in
  ((Binary.B2R 53%Z 1024%Z (snd (nth j pr (0%nat, d))) < Binary.B2R 53%Z 1024%Z (snd (nth i pr (0%nat, d))))%R ->
     fst (nth i pr (0, d)) < fst (nth j pr (0, d)))
  /\ (Binary.B2R 53%Z 1024%Z (snd (nth i pr (0, d))) = Binary.B2R 53%Z 1024%Z (snd (nth j pr (0, d))) ->
     fst (nth i pr (0, d)) = fst (nth j pr (0, d)))
  /\ ((forall k, k < length teams ->
         (Binary.B2R 53%Z 1024%Z (snd (nth k pr (0%nat, d))) <= Binary.B2R 53%Z 1024%Z (snd (nth i pr (0%nat, d))))%R) ->
     fst (nth i pr (0, d)) = 1)
  /\ 1 <= fst (nth i pr (0, d)) <= length teams.
Proof. exact FloatOrderInstL.predict_rank_order_b64. Qed.
Print Assumptions C11_predict_rank_order_binary64.

(** non-vacuity: the instance of [C11_rank_probs_range_binary64_ex] (stand-ins for the libm
    parameters; teams with aggregate means 25, 30.5, 42; probabilities 0.0, 1/3, 2/3 rounded)
    satisfies the premises; the ranks computed in binary64 are 3, 2, 1. *)
Example C11_predict_rank_order_binary64_ex :
  let N := FloatInst.B64Num (fun x => x)
             (fun x => match Bits.b64_compare x (Binary.B754_zero 53%Z 1024%Z false) with
                       | Some Lt => FloatInst.b64_of_Z 2 | Some Gt => FloatInst.b64_of_Z 0
                       | _ => FloatInst.b64_of_Z 1 end)
             (fun x => Bits.b64_mult BinarySingleNaN.mode_NE x x) (fun x => x) in
  let t1 := [mkRating (Bits.b64_of_bits 4627730092099895296%Z) (Bits.b64_of_bits 4620880867666602667%Z) 0%Z NmNone] in
  let t2 := [mkRating (Bits.b64_of_bits 4629278204471803904%Z) (Bits.b64_of_bits 4619848792751996928%Z) 1%Z NmNone] in
  let t3 := [mkRating (FloatInst.b64_of_Z 20) (FloatInst.b64_of_Z 5) 2%Z NmNone;
             mkRating (FloatInst.b64_of_Z 22) (FloatInst.b64_of_Z 4) 3%Z NmNone] in
  let beta := Bits.b64_of_bits 4616377268039232171%Z in
  (forall (i j : nat) (d : Bits.binary64), i < 3 -> j < 3 ->
     let pr := @predict_rank Bits.binary64 N beta [t1; t2; t3] in
     ((Binary.B2R 53%Z 1024%Z (snd (nth j pr (0%nat, d))) < Binary.B2R 53%Z 1024%Z (snd (nth i pr (0%nat, d))))%R ->
        fst (nth i pr (0, d)) < fst (nth j pr (0, d)))
     /\ (Binary.B2R 53%Z 1024%Z (snd (nth i pr (0, d))) = Binary.B2R 53%Z 1024%Z (snd (nth j pr (0, d))) ->
        fst (nth i pr (0, d)) = fst (nth j pr (0, d)))
     /\ ((forall k, k < 3 ->
            (Binary.B2R 53%Z 1024%Z (snd (nth k pr (0%nat, d))) <= Binary.B2R 53%Z 1024%Z (snd (nth i pr (0%nat, d))))%R) ->
        fst (nth i pr (0, d)) = 1)
     /\ 1 <= fst (nth i pr (0, d)) <= 3)
  /\ map fst (@predict_rank Bits.binary64 N beta [t1; t2; t3]) = [3; 2; 1].
Proof.
  intros N t1 t2 t3 beta. split.
  - apply (C11_predict_rank_order_binary64 _ _ _ _ FloatRangeL.ex_erfc_ok beta [t1; t2; t3]).
    + repeat constructor.
    + vm_compute. intros H; discriminate H.
    + intros ro tb Hro Htb. cbv [rows rows_aux rev app In] in Hro.
      destruct Hro as [<-|[<-|[<-|[]]]]; cbv [snd In] in Htb; destruct Htb as [<-|[<-|[]]];
        vm_compute; reflexivity.
  - vm_compute. reflexivity.
Qed.

(** * C03: outcomes are ordinal — only the order and equality of ranks / scores matter. *)
From Coq Require Import List ZArith Bool Permutation Lia.
From OSV Require Import Num Order Core PyVal Prog.
From OSV.Lemmas Require C02L C03L.
Import ListNotations.

(** Omitting ranks is the same as passing ranks = [[0, 1, .., n-1]]. *)
Theorem C03_omitted : forall (F : Type) (N : Num F) (k : kind) (P : params F) (tau : F)
    (limit : bool) (teams : list (list (rating F))),
  rate_core k P tau limit teams None
  = rate_core k P tau limit teams (Some (map key_of_nat (seq 0 (length teams)))).
Proof. exact (@C03L.omitted). Qed.
Print Assumptions C03_omitted.

(** Scores are ranks with every value negated: a call with [scores = s] (and no ranks) is
    the very same program — same validation outcome, same effects, same result — as the call
    with [ranks = s'] (and no scores), [s'] being [s] with every number negated
    (int [z] -> [-z]; bool [b] -> [-int(b)]; float [x = num/2^k] -> [-x = -num/2^k]). *)
Theorem C03_scores : forall (F : Type) (N : Num F) (k : kind)
    (teams ranks scores0 : pyval F) (s s' : list (pyval F)) (tau limit : pyval F),
  truthy ranks = false -> truthy scores0 = false ->
  Forall2 (fun v w => match v with
                      | PInt z => w = PInt (- z)
                      | PBool b => w = PInt (- (if b then 1 else 0))
                      | PFloat x num e => w = PFloat (fneg x) (- num) e
                      | _ => False
                      end) s s' ->
  rate_prog k teams ranks (PList s) tau limit = rate_prog k teams (PList s') scores0 tau limit.
Proof. exact (@C03L.scores). Qed.
Print Assumptions C03_scores.

(** hence the same [run] from every model state *)
Theorem C03_scores_run : forall (F : Type) (N : Num F) (k : kind)
    (teams ranks scores0 : pyval F) (s s' : list (pyval F)) (tau limit : pyval F) (st : mstate F),
  truthy ranks = false -> truthy scores0 = false ->
  Forall2 (fun v w => match v with
                      | PInt z => w = PInt (- z)
                      | PBool b => w = PInt (- (if b then 1 else 0))
                      | PFloat x num e => w = PFloat (fneg x) (- num) e
                      | _ => False
                      end) s s' ->
  run (rate_prog k teams ranks (PList s) tau limit) st
  = run (rate_prog k teams (PList s') scores0 tau limit) st.
Proof. intros; f_equal; apply C03L.scores; assumption. Qed.
Print Assumptions C03_scores_run.

(** scores [[True, -3, 1.5]] against ranks [[-1, 3, -1.5]]: the hypotheses hold and the call
    is accepted, with keys -1, 3, -3/2 *)
Example C03_scores_nonvacuous :
  let r := C02L.fix_rating in
  let teams := PList (map (fun t => PList (map (@PRating Z PL) t))
                          [[r 25 8 1; r 30 6 2]; [r 20 7 3]; [r 22 5 4]]%Z) in
  let s := [PBool true; PInt (-3); PFloat 1500%Z 3%Z 1%Z] in
  let s' := [PInt (-1); PInt 3; PFloat (-1500)%Z (-3)%Z 1%Z] in
  @truthy Z PNone = false /\
  Forall2 (fun v w => match v with
                      | PInt z => w = PInt (- z)
                      | PBool b => w = PInt (- (if b then 1 else 0))
                      | PFloat x num e => w = PFloat (@fneg Z C02L.FixNum x) (- num) e
                      | _ => False
                      end) s s' /\
  (exists tms, @validate_rate Z PL teams PNone (PList s) = Ok (tms, Some [(-1, 0); (3, 0); (-3, 1)]%Z)) /\
  (exists res, snd (@run Z _ (@rate_prog Z C02L.FixNum PL teams (PList s') PNone PNone PNone) C02L.fix_state)
               = Ok res).
Proof.
  split; [reflexivity|]. split; [repeat constructor|].
  split; eexists; vm_compute; reflexivity.
Qed.

(** Two rank vectors with the same comparison matrix give the identical result. *)
Theorem C03_relabel_general : forall (F : Type) (N : Num F) (k : kind) (P : params F) (tau : F)
    (limit : bool) (teams : list (list (rating F))) (ks ks' : list key),
  length ks = length ks' ->
  (forall i j, i < length ks -> j < length ks ->
     key_leb (nth i ks (0, 0)%Z) (nth j ks (0, 0)%Z) = key_leb (nth i ks' (0, 0)%Z) (nth j ks' (0, 0)%Z)) ->
  rate_core k P tau limit teams (Some ks) = rate_core k P tau limit teams (Some ks').
Proof. exact (@C03L.relabel_general). Qed.
Print Assumptions C03_relabel_general.

(** ranks [[3, 1, 3]] and [[10, -2.5, 10.0]] (10.0 = 20/2^1) *)
Example C03_relabel_general_nonvacuous :
  let ks := [(3, 0); (1, 0); (3, 0)]%Z in let ks' := [(10, 0); (-5, 1); (20, 1)]%Z in
  length ks = length ks' /\
  (forall i j, i < length ks -> j < length ks ->
     key_leb (nth i ks (0, 0)%Z) (nth j ks (0, 0)%Z) = key_leb (nth i ks' (0, 0)%Z) (nth j ks' (0, 0)%Z)).
Proof.
  split; [reflexivity|]. intros i j Hi Hj.
  destruct i as [|[|[|i]]]; destruct j as [|[|[|j]]]; try reflexivity; cbn in Hi, Hj; lia.
Qed.

(** Any re-labelling [f] of the rank values that preserves their comparisons. *)
Theorem C03_relabel : forall (F : Type) (N : Num F) (k : kind) (P : params F) (tau : F)
    (limit : bool) (teams : list (list (rating F))) (ks : list key) (f : key -> key),
  (forall a b, In a ks -> In b ks -> key_leb (f a) (f b) = key_leb a b) ->
  rate_core k P tau limit teams (Some (map f ks)) = rate_core k P tau limit teams (Some ks).
Proof. exact (@C03L.relabel). Qed.
Print Assumptions C03_relabel.

(** Any strictly increasing re-labelling (that, being a function of the value, sends values
    that compare equal — such as 1 and 1.0 — to values that compare equal). *)
Theorem C03_relabel_increasing : forall (F : Type) (N : Num F) (k : kind) (P : params F) (tau : F)
    (limit : bool) (teams : list (list (rating F))) (ks : list key) (f : key -> key),
  (forall a b, In a ks -> In b ks -> key_ltb a b = true -> key_ltb (f a) (f b) = true) ->
  (forall a b, In a ks -> In b ks -> key_leb a b = true -> key_leb b a = true -> key_leb (f a) (f b) = true) ->
  rate_core k P tau limit teams (Some (map f ks)) = rate_core k P tau limit teams (Some ks).
Proof. exact (@C03L.relabel_increasing). Qed.
Print Assumptions C03_relabel_increasing.

(** x |-> 2x - 7 on ranks [[1, 1.5, 1.0, -2]] (a positive int, floats, a negative int) *)
Example C03_relabel_nonvacuous :
  let ks := [(1, 0); (3, 1); (2, 1); (-2, 0)]%Z in
  let f := fun a : key => (2 * fst a - 7 * 2 ^ snd a, snd a)%Z in
  (forall a b, In a ks -> In b ks -> key_leb (f a) (f b) = key_leb a b) /\
  (forall a b, In a ks -> In b ks -> key_ltb a b = true -> key_ltb (f a) (f b) = true) /\
  (forall a b, In a ks -> In b ks -> key_leb a b = true -> key_leb b a = true -> key_leb (f a) (f b) = true) /\
  map f ks = [(-5, 0); (-8, 1); (-10, 1); (-11, 0)]%Z.
Proof.
  cbv zeta. repeat split.
  - intros a b Ha Hb. cbn in Ha, Hb.
    repeat (destruct Ha as [<-|Ha]; [repeat (destruct Hb as [<-|Hb]; [reflexivity|]); destruct Hb|]); destruct Ha.
  - intros a b Ha Hb. cbn in Ha, Hb.
    repeat (destruct Ha as [<-|Ha]; [repeat (destruct Hb as [<-|Hb]; [vm_compute; auto|]); destruct Hb|]); destruct Ha.
  - intros a b Ha Hb. cbn in Ha, Hb.
    repeat (destruct Ha as [<-|Ha]; [repeat (destruct Hb as [<-|Hb]; [vm_compute; auto|]); destruct Hb|]); destruct Ha.
Qed.

(** The list of team ratings that [rate] hands to the update rule when ranks are given is
    [team_ratings] of the stably sorted teams with the dense ranks of the sorted rank values. *)
Theorem C03_sorted_game_is_used : forall (F : Type) (N : Num F) (k : kind) (P : params F)
    (teams : list (list (rating F))) (ks : list key),
  rate_sorted k P teams (Some ks)
  = fst (unwind Nat.leb (snd (unwind key_leb ks teams))
           (compute k P (team_ratings (fst (unwind key_leb ks teams))
                                      (calc_rankings key_ltb (isort key_leb ks))))).
Proof. reflexivity. Qed.
Print Assumptions C03_sorted_game_is_used.

(** Ties are exactly equal values: in that list, the team at sorted position [i] carries the
    key [ki] it was passed with, two teams have the same [t_rank] iff their rank values compare
    equal, and a smaller [t_rank] iff a smaller rank value — whether the values are ints or
    floats. *)
Theorem C03_tie_iff_equal : forall (F : Type) (N : Num F) (teams : list (list (rating F))) (ks : list key),
  Forall (fun k => (0 <= snd k)%Z) ks -> length ks = length teams ->
  forall i j ti tj ki kj,
  nth_error (team_ratings (fst (unwind key_leb ks teams)) (calc_rankings key_ltb (isort key_leb ks))) i = Some ti ->
  nth_error (team_ratings (fst (unwind key_leb ks teams)) (calc_rankings key_ltb (isort key_leb ks))) j = Some tj ->
  nth_error (isort key_leb ks) i = Some ki -> nth_error (isort key_leb ks) j = Some kj ->
  In (ki, t_team ti) (combine ks teams) /\ In (kj, t_team tj) (combine ks teams) /\
  (t_rank ti = t_rank tj <-> key_leb ki kj = true /\ key_leb kj ki = true) /\
  (t_rank ti < t_rank tj <-> key_ltb ki kj = true).
Proof. exact (@C03L.tie_iff_equal_sorted). Qed.
Print Assumptions C03_tie_iff_equal.

(** In input terms: each team enters the update with [t_rank] = the number of rank values
    strictly smaller than its own ... *)
Theorem C03_rank_is_count : forall (F : Type) (N : Num F) (teams : list (list (rating F))) (ks : list key),
  Forall (fun k => (0 <= snd k)%Z) ks -> length ks = length teams ->
  Permutation
    (map (fun kt => (snd kt, length (filter (fun y => key_ltb y (fst kt)) ks))) (combine ks teams))
    (map (fun t => (t_team t, t_rank t))
         (team_ratings (fst (unwind key_leb ks teams)) (calc_rankings key_ltb (isort key_leb ks)))).
Proof. exact (@C03L.rank_is_count). Qed.
Print Assumptions C03_rank_is_count.

(** ... and two such counts are equal iff the two values compare equal, smaller iff smaller. *)
Theorem C03_count_tie_iff_equal : forall (ks : list key) (a b : key),
  Forall (fun k => (0 <= snd k)%Z) ks -> In a ks -> In b ks ->
  (length (filter (fun y => key_ltb y a) ks) = length (filter (fun y => key_ltb y b) ks)
     <-> key_leb a b = true /\ key_leb b a = true) /\
  (length (filter (fun y => key_ltb y a) ks) < length (filter (fun y => key_ltb y b) ks)
     <-> key_ltb a b = true).
Proof. exact C03L.count_tie_iff_equal. Qed.
Print Assumptions C03_count_tie_iff_equal.

(** int 1 and float 1.0 (= 2/2^1) compare equal, so ranks [[3, 1.0, 1]] tie the last two teams:
    sorted, the dense ranks are 0, 0, 2 *)
Example C03_tie_int_float :
  let r := C02L.fix_rating in
  let teams := [[r 25 8 1; r 30 6 2]; [r 20 7 3]; [r 22 5 4]]%Z in
  let ks := [(3, 0); (2, 1); (1, 0)]%Z in
  Forall (fun k => (0 <= snd k)%Z) ks /\ length ks = length teams /\
  key_leb (2, 1)%Z (1, 0)%Z = true /\ key_leb (1, 0)%Z (2, 1)%Z = true /\
  map (fun t => (map r_id (t_team t), t_rank t))
      (@team_ratings Z C02L.FixNum (fst (unwind key_leb ks teams)) (calc_rankings key_ltb (isort key_leb ks)))
  = [([3%Z], 0); ([4%Z], 0); ([1%Z; 2%Z], 2)].
Proof.
  cbv zeta. split; [repeat constructor; discriminate|]. repeat split; reflexivity.
Qed.

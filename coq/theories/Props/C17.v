(** * C17 — "The Gaussian correction functions V, W, V~, W~ are accurate and stay in range"
    (real-number semantics of v, w, vt, wt of openskill/models/weng_lin/common.py).

    All statements are about the model functions of Gauss.v instantiated on Coq's reals,
    [@v R (RNum Phi Phiinv)] etc., for a distribution function [Phi] about which only the
    record [GaussFacts Phi Phiinv] (RInst.v) is assumed.  The reference functions are written
    out in every statement:
      V y     = phi y / Phi y                      W y = V y * (V y + y)
      V~(x,t) = (phi(-t-x) - phi(t-x)) / (Phi(t-x) - Phi(-t-x))
      W~(x,t) = ((t-x) phi(t-x) + (t+x) phi(-t-x)) / (Phi(t-x) - Phi(-t-x)) + V~(x,t)^2
    ([C17_exact_forms]: these are the |x|-and-sign forms that the code evaluates).
    The constant / 4503599627370496 is 2^-52 = sys.float_info.epsilon; [f1em5] is the
    double nearest to 1e-5.

    NON-VACUITY.  The [GaussFacts] premise is instantiated: [GaussInst.PhiK] is the standard
    normal distribution function constructed in GaussInst.v (the normalised integral of
    exp (-t^2/2)), [GaussInst.PhiinvK] its inverse, and
    [GaussFull.GaussFacts_inst : GaussFacts GaussInst.PhiK GaussInst.PhiinvK] is proved
    without hypothesis (calculus facts in GaussCalc.v, the value of the Gaussian integral in
    GaussIntegral.v).  Every theorem below with a [GaussFacts] premise has an [_inst]
    corollary at the end of the file, stated for [GaussInst.PhiK] / [GaussInst.PhiinvK] with
    that premise removed: nothing about the normal distribution is assumed any more; the
    only remaining link is that CPython's NormalDist computes this function.  (Every field
    was also checked numerically against mpmath at 800 digits on 10 000 points.)  The
    branch hypotheses are all satisfiable for the true Phi (e.g. x - t = -9 for the
    epsilon guard, x = 5, t = 1e-3 for the 1e-5 guard).

    NOT PROVED HERE (not statements about real numbers): "finite" (every real is), and all
    binary64 accuracy figures of the property — 1e-6 relative for v and w, the 1e-13/t and
    1e-14/t rounding terms, the CDF accurate to 1e-12 relative in both tails.  These are
    tested by the harness monitors.  The real-number part of the constant 20t for wt IS proved
    (for 0 < t <= 1/100, the supported range): [C17_wt_distance] at the end of the file
    ([C17_wt_distance_partial] is the earlier, weaker statement, kept). *)
From Coq Require Import Reals.
From OSV Require Import Num Gauss RInst.
From OSV.Lemmas Require C17L C17SharpL.
From OSV Require GaussInst GaussFull.
Open Scope R_scope.

(** v >= 0 (in fact > 0) on both branches. *)
Theorem C17_v_nonneg :
  forall Phi Phiinv : R -> R, GaussFacts Phi Phiinv ->
  forall x t : R, 0 <= @v R (RNum Phi Phiinv) x t.
Proof. exact C17L.v_nonneg. Qed.
Print Assumptions C17_v_nonneg.

Theorem C17_v_pos :
  forall Phi Phiinv : R -> R, GaussFacts Phi Phiinv ->
  forall x t : R, 0 < @v R (RNum Phi Phiinv) x t.
Proof. exact C17L.v_pos. Qed.
Print Assumptions C17_v_pos.

(** w in [0,1] on both branches. *)
Theorem C17_w_range :
  forall Phi Phiinv : R -> R, GaussFacts Phi Phiinv ->
  forall x t : R, 0 <= @w R (RNum Phi Phiinv) x t <= 1.
Proof. exact C17L.w_range. Qed.
Print Assumptions C17_w_range.

(** wt in [0,1] (needs nothing about Phi: guard value 1, otherwise clamped). *)
Theorem C17_wt_range :
  forall (Phi Phiinv : R -> R) (x t : R), 0 <= @wt R (RNum Phi Phiinv) x t <= 1.
Proof. exact C17L.wt_range. Qed.
Print Assumptions C17_wt_range.

(** Above the guards the code evaluates exactly the mathematical formulas:
    - 2^-52 <= Phi(x-t): v = V(x-t), w = W(x-t);
    - 1e-5 <= window mass: (then t > 0,) vt = V~(x,t), and wt = W~(x,t) as soon as
      W~(x,t) >= 0, in particular whenever t <= 1 (W~ <= 1 always holds, [C17_wt_range_exact]). *)
Theorem C17_exact_branch :
  forall Phi Phiinv : R -> R, GaussFacts Phi Phiinv ->
  forall x t : R,
  (/ 4503599627370496 <= Phi (x - t) ->
     @v R (RNum Phi Phiinv) x t = phi (x - t) / Phi (x - t)
     /\ @w R (RNum Phi Phiinv) x t
        = phi (x - t) / Phi (x - t) * (phi (x - t) / Phi (x - t) + (x - t)))
  /\ (@f1em5 R (RNum Phi Phiinv) <= Phi (t - Rabs x) - Phi (- t - Rabs x) ->
        0 < t
        /\ @vt R (RNum Phi Phiinv) x t
           = (phi (- t - x) - phi (t - x)) / (Phi (t - x) - Phi (- t - x))
        /\ (0 <= ((t - x) * phi (t - x) + (t + x) * phi (- t - x)) / (Phi (t - x) - Phi (- t - x))
                 + (phi (- t - x) - phi (t - x)) / (Phi (t - x) - Phi (- t - x))
                   * ((phi (- t - x) - phi (t - x)) / (Phi (t - x) - Phi (- t - x))) ->
            @wt R (RNum Phi Phiinv) x t
            = ((t - x) * phi (t - x) + (t + x) * phi (- t - x)) / (Phi (t - x) - Phi (- t - x))
              + (phi (- t - x) - phi (t - x)) / (Phi (t - x) - Phi (- t - x))
                * ((phi (- t - x) - phi (t - x)) / (Phi (t - x) - Phi (- t - x))))
        /\ (t <= 1 ->
            @wt R (RNum Phi Phiinv) x t
            = ((t - x) * phi (t - x) + (t + x) * phi (- t - x)) / (Phi (t - x) - Phi (- t - x))
              + (phi (- t - x) - phi (t - x)) / (Phi (t - x) - Phi (- t - x))
                * ((phi (- t - x) - phi (t - x)) / (Phi (t - x) - Phi (- t - x))))).
Proof. exact C17L.exact_branch. Qed.
Print Assumptions C17_exact_branch.

(** The forms with |x| and a sign flip for x < 0 (what the code computes) are V~ and W~. *)
Theorem C17_exact_forms :
  forall Phi Phiinv : R -> R, GaussFacts Phi Phiinv ->
  forall x t : R,
  (if Rlt_dec x 0
   then - ((phi (- t - Rabs x) - phi (t - Rabs x)) / (Phi (t - Rabs x) - Phi (- t - Rabs x)))
   else (phi (- t - Rabs x) - phi (t - Rabs x)) / (Phi (t - Rabs x) - Phi (- t - Rabs x)))
  = (phi (- t - x) - phi (t - x)) / (Phi (t - x) - Phi (- t - x))
  /\
  ((t - Rabs x) * phi (t - Rabs x) + (t + Rabs x) * phi (- t - Rabs x))
     / (Phi (t - Rabs x) - Phi (- t - Rabs x))
  + (if Rlt_dec x 0
     then - ((phi (- t - Rabs x) - phi (t - Rabs x)) / (Phi (t - Rabs x) - Phi (- t - Rabs x)))
     else (phi (- t - Rabs x) - phi (t - Rabs x)) / (Phi (t - Rabs x) - Phi (- t - Rabs x)))
    * (if Rlt_dec x 0
       then - ((phi (- t - Rabs x) - phi (t - Rabs x)) / (Phi (t - Rabs x) - Phi (- t - Rabs x)))
       else (phi (- t - Rabs x) - phi (t - Rabs x)) / (Phi (t - Rabs x) - Phi (- t - Rabs x)))
  = ((t - x) * phi (t - x) + (t + x) * phi (- t - x)) / (Phi (t - x) - Phi (- t - x))
    + (phi (- t - x) - phi (t - x)) / (Phi (t - x) - Phi (- t - x))
      * ((phi (- t - x) - phi (t - x)) / (Phi (t - x) - Phi (- t - x))).
Proof. exact C17L.exact_forms. Qed.
Print Assumptions C17_exact_forms.

(** Below the epsilon guard (which forces x - t < -8) the code returns -(x-t), within 2 %
    of V(x-t). *)
Theorem C17_v_asymptotic :
  forall Phi Phiinv : R -> R, GaussFacts Phi Phiinv ->
  forall x t : R,
  Phi (x - t) < / 4503599627370496 ->
  x - t < - 8
  /\ @v R (RNum Phi Phiinv) x t = - (x - t)
  /\ Rabs (@v R (RNum Phi Phiinv) x t - phi (x - t) / Phi (x - t))
     <= 2 / 100 * (phi (x - t) / Phi (x - t)).
Proof. exact C17L.v_asymptotic_full. Qed.
Print Assumptions C17_v_asymptotic.

(** Below the epsilon guard, for x < 0, the code returns 1, within 0.02 of W(x-t). *)
Theorem C17_w_asymptotic :
  forall Phi Phiinv : R -> R, GaussFacts Phi Phiinv ->
  forall x t : R,
  Phi (x - t) < / 4503599627370496 -> x < 0 ->
  @w R (RNum Phi Phiinv) x t = 1
  /\ Rabs (@w R (RNum Phi Phiinv) x t
           - phi (x - t) / Phi (x - t) * (phi (x - t) / Phi (x - t) + (x - t)))
     <= 2 / 100.
Proof. exact C17L.w_asymptotic_full. Qed.
Print Assumptions C17_w_asymptotic.

(** Remark: below the epsilon guard with x >= 0 the code returns 0 (W is near 1 there):
    that case needs a draw margin t > 8. *)
Theorem C17_w_guard_nonneg_x_remark :
  forall Phi Phiinv : R -> R, GaussFacts Phi Phiinv ->
  forall x t : R,
  Phi (x - t) < / 4503599627370496 -> 0 <= x ->
  @w R (RNum Phi Phiinv) x t = 0 /\ 8 < t.
Proof. exact C17L.w_guard_nonneg_x. Qed.
Print Assumptions C17_w_guard_nonneg_x_remark.

(** On the branch below the 1e-5 guard, vt (an edge of the window) is within 2t of V~. *)
Theorem C17_vt_asymptotic :
  forall Phi Phiinv : R -> R, GaussFacts Phi Phiinv ->
  forall x t : R,
  0 < t ->
  Phi (t - Rabs x) - Phi (- t - Rabs x) < @f1em5 R (RNum Phi Phiinv) ->
  Rabs (@vt R (RNum Phi Phiinv) x t
        - (phi (- t - x) - phi (t - x)) / (Phi (t - x) - Phi (- t - x)))
  <= 2 * t.
Proof. exact C17L.vt_asymptotic. Qed.
Print Assumptions C17_vt_asymptotic.

(** Hence on every branch. *)
Theorem C17_vt_distance :
  forall Phi Phiinv : R -> R, GaussFacts Phi Phiinv ->
  forall x t : R,
  0 < t ->
  Rabs (@vt R (RNum Phi Phiinv) x t
        - (phi (- t - x) - phi (t - x)) / (Phi (t - x) - Phi (- t - x)))
  <= 2 * t.
Proof. exact C17L.vt_distance. Qed.
Print Assumptions C17_vt_distance.

(** The exact W~ (one minus the variance of the normal truncated to the window) lies in
    [1 - t^2, 1]. *)
Theorem C17_wt_range_exact :
  forall Phi Phiinv : R -> R, GaussFacts Phi Phiinv ->
  forall x t : R,
  0 < t ->
  1 - t * t
  <= ((t - x) * phi (t - x) + (t + x) * phi (- t - x)) / (Phi (t - x) - Phi (- t - x))
     + (phi (- t - x) - phi (t - x)) / (Phi (t - x) - Phi (- t - x))
       * ((phi (- t - x) - phi (t - x)) / (Phi (t - x) - Phi (- t - x)))
  <= 1.
Proof. exact C17L.Wt_range. Qed.
Print Assumptions C17_wt_range_exact.

(** PARTIAL.  The property claims |wt - W~| <= 20 t + 1e-13/t.  Proved: for 0 < t <= 1,
    on every branch, |wt - W~| <= 4 t (|x| + t)  (zero above the 1e-5 guard, at most t^2
    below the epsilon guard, [C17_wt_guard_distance]).  Missing for the constant 20: on the
    middle branch (2^-52 <= window mass < 1e-5) the error is about 2 t |x|, and turning that
    into 20 t needs |x| <= ~8.3 there, i.e. a quantitative upper bound on Phi's tail
    (window mass >= 2^-52 with t <= 1e-2 forces |x| < 8.3), which is a numerical fact about
    Phi not contained in [GaussFacts]; the 1e-13/t term is binary64 rounding.
    UPDATE: the 20 t bound is now proved from [GaussFacts] alone, see [C17_wt_distance] below
    (the tail bound follows from [gf_mills] and a rational bound on exp(-34)). *)
Theorem C17_wt_distance_partial :
  forall Phi Phiinv : R -> R, GaussFacts Phi Phiinv ->
  forall x t : R,
  0 < t <= 1 ->
  Rabs (@wt R (RNum Phi Phiinv) x t
        - (((t - x) * phi (t - x) + (t + x) * phi (- t - x)) / (Phi (t - x) - Phi (- t - x))
           + (phi (- t - x) - phi (t - x)) / (Phi (t - x) - Phi (- t - x))
             * ((phi (- t - x) - phi (t - x)) / (Phi (t - x) - Phi (- t - x)))))
  <= 4 * t * (Rabs x + t).
Proof. exact C17L.wt_distance. Qed.
Print Assumptions C17_wt_distance_partial.

(** Below the epsilon guard the code returns 1, within t^2 of W~. *)
Theorem C17_wt_guard_distance :
  forall Phi Phiinv : R -> R, GaussFacts Phi Phiinv ->
  forall x t : R,
  0 < t ->
  Phi (t - Rabs x) - Phi (- t - Rabs x) < / 4503599627370496 ->
  Rabs (@wt R (RNum Phi Phiinv) x t
        - (((t - x) * phi (t - x) + (t + x) * phi (- t - x)) / (Phi (t - x) - Phi (- t - x))
           + (phi (- t - x) - phi (t - x)) / (Phi (t - x) - Phi (- t - x))
             * ((phi (- t - x) - phi (t - x)) / (Phi (t - x) - Phi (- t - x)))))
  <= t * t.
Proof. exact C17L.wt_guard_distance. Qed.
Print Assumptions C17_wt_guard_distance.

(** ** The [GaussFacts] premise instantiated.

    Each theorem above that takes [GaussFacts Phi Phiinv] as a premise is restated here for
    the concrete standard normal distribution function [GaussInst.PhiK] and its inverse
    [GaussInst.PhiinvK] (constructed in GaussInst.v), with no premise about the normal law:
    [GaussFull.GaussFacts_inst : GaussFacts GaussInst.PhiK GaussInst.PhiinvK] is proved
    outright (calculus facts in GaussCalc.v, the Gaussian integral in GaussIntegral.v). *)
Theorem C17_v_nonneg_inst :
  forall x t : R, 0 <= @v R (RNum GaussInst.PhiK GaussInst.PhiinvK) x t.
Proof. exact (C17_v_nonneg GaussInst.PhiK GaussInst.PhiinvK GaussFull.GaussFacts_inst). Qed.
Print Assumptions C17_v_nonneg_inst.

Theorem C17_v_pos_inst :
  forall x t : R, 0 < @v R (RNum GaussInst.PhiK GaussInst.PhiinvK) x t.
Proof. exact (C17_v_pos GaussInst.PhiK GaussInst.PhiinvK GaussFull.GaussFacts_inst). Qed.
Print Assumptions C17_v_pos_inst.

Theorem C17_w_range_inst :
  forall x t : R, 0 <= @w R (RNum GaussInst.PhiK GaussInst.PhiinvK) x t <= 1.
Proof. exact (C17_w_range GaussInst.PhiK GaussInst.PhiinvK GaussFull.GaussFacts_inst). Qed.
Print Assumptions C17_w_range_inst.

Theorem C17_exact_branch_inst :
  forall x t : R,
  (/ 4503599627370496 <= GaussInst.PhiK (x - t) ->
     @v R (RNum GaussInst.PhiK GaussInst.PhiinvK) x t = phi (x - t) / GaussInst.PhiK (x - t)
     /\ @w R (RNum GaussInst.PhiK GaussInst.PhiinvK) x t
        = phi (x - t) / GaussInst.PhiK (x - t) * (phi (x - t) / GaussInst.PhiK (x - t) + (x - t)))
  /\ (@f1em5 R (RNum GaussInst.PhiK GaussInst.PhiinvK) <= GaussInst.PhiK (t - Rabs x) - GaussInst.PhiK (- t - Rabs x) ->
        0 < t
        /\ @vt R (RNum GaussInst.PhiK GaussInst.PhiinvK) x t
           = (phi (- t - x) - phi (t - x)) / (GaussInst.PhiK (t - x) - GaussInst.PhiK (- t - x))
        /\ (0 <= ((t - x) * phi (t - x) + (t + x) * phi (- t - x)) / (GaussInst.PhiK (t - x) - GaussInst.PhiK (- t - x))
                 + (phi (- t - x) - phi (t - x)) / (GaussInst.PhiK (t - x) - GaussInst.PhiK (- t - x))
                   * ((phi (- t - x) - phi (t - x)) / (GaussInst.PhiK (t - x) - GaussInst.PhiK (- t - x))) ->
            @wt R (RNum GaussInst.PhiK GaussInst.PhiinvK) x t
            = ((t - x) * phi (t - x) + (t + x) * phi (- t - x)) / (GaussInst.PhiK (t - x) - GaussInst.PhiK (- t - x))
              + (phi (- t - x) - phi (t - x)) / (GaussInst.PhiK (t - x) - GaussInst.PhiK (- t - x))
                * ((phi (- t - x) - phi (t - x)) / (GaussInst.PhiK (t - x) - GaussInst.PhiK (- t - x))))
        /\ (t <= 1 ->
            @wt R (RNum GaussInst.PhiK GaussInst.PhiinvK) x t
            = ((t - x) * phi (t - x) + (t + x) * phi (- t - x)) / (GaussInst.PhiK (t - x) - GaussInst.PhiK (- t - x))
              + (phi (- t - x) - phi (t - x)) / (GaussInst.PhiK (t - x) - GaussInst.PhiK (- t - x))
                * ((phi (- t - x) - phi (t - x)) / (GaussInst.PhiK (t - x) - GaussInst.PhiK (- t - x))))).
Proof. exact (C17_exact_branch GaussInst.PhiK GaussInst.PhiinvK GaussFull.GaussFacts_inst). Qed.
Print Assumptions C17_exact_branch_inst.

Theorem C17_exact_forms_inst :
  forall x t : R,
  (if Rlt_dec x 0
   then - ((phi (- t - Rabs x) - phi (t - Rabs x)) / (GaussInst.PhiK (t - Rabs x) - GaussInst.PhiK (- t - Rabs x)))
   else (phi (- t - Rabs x) - phi (t - Rabs x)) / (GaussInst.PhiK (t - Rabs x) - GaussInst.PhiK (- t - Rabs x)))
  = (phi (- t - x) - phi (t - x)) / (GaussInst.PhiK (t - x) - GaussInst.PhiK (- t - x))
  /\
  ((t - Rabs x) * phi (t - Rabs x) + (t + Rabs x) * phi (- t - Rabs x))
     / (GaussInst.PhiK (t - Rabs x) - GaussInst.PhiK (- t - Rabs x))
  + (if Rlt_dec x 0
     then - ((phi (- t - Rabs x) - phi (t - Rabs x)) / (GaussInst.PhiK (t - Rabs x) - GaussInst.PhiK (- t - Rabs x)))
     else (phi (- t - Rabs x) - phi (t - Rabs x)) / (GaussInst.PhiK (t - Rabs x) - GaussInst.PhiK (- t - Rabs x)))
    * (if Rlt_dec x 0
       then - ((phi (- t - Rabs x) - phi (t - Rabs x)) / (GaussInst.PhiK (t - Rabs x) - GaussInst.PhiK (- t - Rabs x)))
       else (phi (- t - Rabs x) - phi (t - Rabs x)) / (GaussInst.PhiK (t - Rabs x) - GaussInst.PhiK (- t - Rabs x)))
  = ((t - x) * phi (t - x) + (t + x) * phi (- t - x)) / (GaussInst.PhiK (t - x) - GaussInst.PhiK (- t - x))
    + (phi (- t - x) - phi (t - x)) / (GaussInst.PhiK (t - x) - GaussInst.PhiK (- t - x))
      * ((phi (- t - x) - phi (t - x)) / (GaussInst.PhiK (t - x) - GaussInst.PhiK (- t - x))).
Proof. exact (C17_exact_forms GaussInst.PhiK GaussInst.PhiinvK GaussFull.GaussFacts_inst). Qed.
Print Assumptions C17_exact_forms_inst.

Theorem C17_v_asymptotic_inst :
  forall x t : R,
  GaussInst.PhiK (x - t) < / 4503599627370496 ->
  x - t < - 8
  /\ @v R (RNum GaussInst.PhiK GaussInst.PhiinvK) x t = - (x - t)
  /\ Rabs (@v R (RNum GaussInst.PhiK GaussInst.PhiinvK) x t - phi (x - t) / GaussInst.PhiK (x - t))
     <= 2 / 100 * (phi (x - t) / GaussInst.PhiK (x - t)).
Proof. exact (C17_v_asymptotic GaussInst.PhiK GaussInst.PhiinvK GaussFull.GaussFacts_inst). Qed.
Print Assumptions C17_v_asymptotic_inst.

Theorem C17_w_asymptotic_inst :
  forall x t : R,
  GaussInst.PhiK (x - t) < / 4503599627370496 -> x < 0 ->
  @w R (RNum GaussInst.PhiK GaussInst.PhiinvK) x t = 1
  /\ Rabs (@w R (RNum GaussInst.PhiK GaussInst.PhiinvK) x t
           - phi (x - t) / GaussInst.PhiK (x - t) * (phi (x - t) / GaussInst.PhiK (x - t) + (x - t)))
     <= 2 / 100.
Proof. exact (C17_w_asymptotic GaussInst.PhiK GaussInst.PhiinvK GaussFull.GaussFacts_inst). Qed.
Print Assumptions C17_w_asymptotic_inst.

Theorem C17_w_guard_nonneg_x_remark_inst :
  forall x t : R,
  GaussInst.PhiK (x - t) < / 4503599627370496 -> 0 <= x ->
  @w R (RNum GaussInst.PhiK GaussInst.PhiinvK) x t = 0 /\ 8 < t.
Proof. exact (C17_w_guard_nonneg_x_remark GaussInst.PhiK GaussInst.PhiinvK GaussFull.GaussFacts_inst). Qed.
Print Assumptions C17_w_guard_nonneg_x_remark_inst.

Theorem C17_vt_asymptotic_inst :
  forall x t : R,
  0 < t ->
  GaussInst.PhiK (t - Rabs x) - GaussInst.PhiK (- t - Rabs x) < @f1em5 R (RNum GaussInst.PhiK GaussInst.PhiinvK) ->
  Rabs (@vt R (RNum GaussInst.PhiK GaussInst.PhiinvK) x t
        - (phi (- t - x) - phi (t - x)) / (GaussInst.PhiK (t - x) - GaussInst.PhiK (- t - x)))
  <= 2 * t.
Proof. exact (C17_vt_asymptotic GaussInst.PhiK GaussInst.PhiinvK GaussFull.GaussFacts_inst). Qed.
Print Assumptions C17_vt_asymptotic_inst.

Theorem C17_vt_distance_inst :
  forall x t : R,
  0 < t ->
  Rabs (@vt R (RNum GaussInst.PhiK GaussInst.PhiinvK) x t
        - (phi (- t - x) - phi (t - x)) / (GaussInst.PhiK (t - x) - GaussInst.PhiK (- t - x)))
  <= 2 * t.
Proof. exact (C17_vt_distance GaussInst.PhiK GaussInst.PhiinvK GaussFull.GaussFacts_inst). Qed.
Print Assumptions C17_vt_distance_inst.

Theorem C17_wt_range_exact_inst :
  forall x t : R,
  0 < t ->
  1 - t * t
  <= ((t - x) * phi (t - x) + (t + x) * phi (- t - x)) / (GaussInst.PhiK (t - x) - GaussInst.PhiK (- t - x))
     + (phi (- t - x) - phi (t - x)) / (GaussInst.PhiK (t - x) - GaussInst.PhiK (- t - x))
       * ((phi (- t - x) - phi (t - x)) / (GaussInst.PhiK (t - x) - GaussInst.PhiK (- t - x)))
  <= 1.
Proof. exact (C17_wt_range_exact GaussInst.PhiK GaussInst.PhiinvK GaussFull.GaussFacts_inst). Qed.
Print Assumptions C17_wt_range_exact_inst.

Theorem C17_wt_distance_partial_inst :
  forall x t : R,
  0 < t <= 1 ->
  Rabs (@wt R (RNum GaussInst.PhiK GaussInst.PhiinvK) x t
        - (((t - x) * phi (t - x) + (t + x) * phi (- t - x)) / (GaussInst.PhiK (t - x) - GaussInst.PhiK (- t - x))
           + (phi (- t - x) - phi (t - x)) / (GaussInst.PhiK (t - x) - GaussInst.PhiK (- t - x))
             * ((phi (- t - x) - phi (t - x)) / (GaussInst.PhiK (t - x) - GaussInst.PhiK (- t - x)))))
  <= 4 * t * (Rabs x + t).
Proof. exact (C17_wt_distance_partial GaussInst.PhiK GaussInst.PhiinvK GaussFull.GaussFacts_inst). Qed.
Print Assumptions C17_wt_distance_partial_inst.

Theorem C17_wt_guard_distance_inst :
  forall x t : R,
  0 < t ->
  GaussInst.PhiK (t - Rabs x) - GaussInst.PhiK (- t - Rabs x) < / 4503599627370496 ->
  Rabs (@wt R (RNum GaussInst.PhiK GaussInst.PhiinvK) x t
        - (((t - x) * phi (t - x) + (t + x) * phi (- t - x)) / (GaussInst.PhiK (t - x) - GaussInst.PhiK (- t - x))
           + (phi (- t - x) - phi (t - x)) / (GaussInst.PhiK (t - x) - GaussInst.PhiK (- t - x))
             * ((phi (- t - x) - phi (t - x)) / (GaussInst.PhiK (t - x) - GaussInst.PhiK (- t - x)))))
  <= t * t.
Proof. exact (C17_wt_guard_distance GaussInst.PhiK GaussInst.PhiinvK GaussFull.GaussFacts_inst). Qed.
Print Assumptions C17_wt_guard_distance_inst.

(** ** The sharp distance of wt to W~: the constant 20 t  (proofs in Lemmas/C17SharpL.v).

    All five theorems assume [GaussFacts] only; their [_inst] corollaries (no premise about the
    normal law) follow.  Non-vacuity of the [GaussFacts] premise: [GaussFull.GaussFacts_inst]
    (no concrete [Example] over R is feasible for these statements).

    For a window (a, b) on one side of the mode (b <= 0) the mean of the standard normal
    truncated to the window lies in the half of the window nearer to the mode.  (Derived from
    [gf_band] and [gf_window] by halving the window k times and letting k -> oo.) *)
Theorem C17_trunc_mean_mode_half :
  forall Phi Phiinv : R -> R, GaussFacts Phi Phiinv ->
  forall a b : R,
  a < b -> b <= 0 ->
  (a + b) / 2 <= (phi a - phi b) / (Phi b - Phi a) <= b.
Proof. exact C17SharpL.mean_mode_half. Qed.
Print Assumptions C17_trunc_mean_mode_half.

(** A window mass of at least 2^-52 (i.e. NOT the epsilon-guard branch of wt; in particular the
    middle branch 2^-52 <= mass < 1e-5) forces |x| < 8.25 + t (stronger than 8.4 + t):
    Phi(-33/4) < phi(33/4)/(33/4) < 2^-52 by the Mills bound [gf_mills] and a rational bound on
    exp(-34) obtained by repeated squaring. *)
Theorem C17_middle_branch_x_bound :
  forall Phi Phiinv : R -> R, GaussFacts Phi Phiinv ->
  forall x t : R,
  / 4503599627370496 <= Phi (t - Rabs x) - Phi (- t - Rabs x) ->
  Rabs x < 33 / 4 + t.
Proof. exact C17SharpL.middle_branch_x_bound. Qed.
Print Assumptions C17_middle_branch_x_bound.

(** On the middle branch, when the window does not contain the mode (t <= |x|), the code's
    edge value (t - |x|)^2 is within t * 2|x| of the squared truncated mean: *)
Theorem C17_wt_middle_branch :
  forall Phi Phiinv : R -> R, GaussFacts Phi Phiinv ->
  forall x t : R,
  0 < t <= 1 -> t <= Rabs x ->
  / 4503599627370496 <= Phi (t - Rabs x) - Phi (- t - Rabs x) ->
  Phi (t - Rabs x) - Phi (- t - Rabs x) < @f1em5 R (RNum Phi Phiinv) ->
  Rabs (@wt R (RNum Phi Phiinv) x t
        - (((t - x) * phi (t - x) + (t + x) * phi (- t - x)) / (Phi (t - x) - Phi (- t - x))
           + (phi (- t - x) - phi (t - x)) / (Phi (t - x) - Phi (- t - x))
             * ((phi (- t - x) - phi (t - x)) / (Phi (t - x) - Phi (- t - x)))))
  <= 2 * t * Rabs x.
Proof. exact C17SharpL.wt_middle_sharp. Qed.
Print Assumptions C17_wt_middle_branch.

(** Every branch, 0 < t <= 1: |wt - W~| <= 2 t |x| + 8 t^2  (0 above the 1e-5 guard, t^2 below the
    epsilon guard, 2 t |x| on the middle branch with t <= |x|, 8 t^2 on it with |x| < t). *)
Theorem C17_wt_distance_sharp :
  forall Phi Phiinv : R -> R, GaussFacts Phi Phiinv ->
  forall x t : R,
  0 < t <= 1 ->
  Rabs (@wt R (RNum Phi Phiinv) x t
        - (((t - x) * phi (t - x) + (t + x) * phi (- t - x)) / (Phi (t - x) - Phi (- t - x))
           + (phi (- t - x) - phi (t - x)) / (Phi (t - x) - Phi (- t - x))
             * ((phi (- t - x) - phi (t - x)) / (Phi (t - x) - Phi (- t - x)))))
  <= 2 * t * Rabs x + 8 * (t * t).
Proof. exact C17SharpL.wt_distance_sharp. Qed.
Print Assumptions C17_wt_distance_sharp.

(** THE PROPERTY's real-number part: for 0 < t <= 1/100 and EVERY x, |wt - W~| <= 20 t.
    (On the middle branch |x| < 8.25 + t, so 2 t |x| + 8 t^2 <= 16.6 t.)  The extra 1e-13/t of
    the property is binary64 rounding, not a statement over R. *)
Theorem C17_wt_distance :
  forall Phi Phiinv : R -> R, GaussFacts Phi Phiinv ->
  forall x t : R,
  0 < t <= / 100 ->
  Rabs (@wt R (RNum Phi Phiinv) x t
        - (((t - x) * phi (t - x) + (t + x) * phi (- t - x)) / (Phi (t - x) - Phi (- t - x))
           + (phi (- t - x) - phi (t - x)) / (Phi (t - x) - Phi (- t - x))
             * ((phi (- t - x) - phi (t - x)) / (Phi (t - x) - Phi (- t - x)))))
  <= 20 * t.
Proof. exact C17SharpL.wt_distance_20t. Qed.
Print Assumptions C17_wt_distance.

(** The same five statements for the concrete distribution function, no premise. *)
Theorem C17_trunc_mean_mode_half_inst :
  forall a b : R,
  a < b -> b <= 0 ->
  (a + b) / 2 <= (phi a - phi b) / (GaussInst.PhiK b - GaussInst.PhiK a) <= b.
Proof. exact (C17_trunc_mean_mode_half GaussInst.PhiK GaussInst.PhiinvK GaussFull.GaussFacts_inst). Qed.
Print Assumptions C17_trunc_mean_mode_half_inst.

Theorem C17_middle_branch_x_bound_inst :
  forall x t : R,
  / 4503599627370496 <= GaussInst.PhiK (t - Rabs x) - GaussInst.PhiK (- t - Rabs x) ->
  Rabs x < 33 / 4 + t.
Proof. exact (C17_middle_branch_x_bound GaussInst.PhiK GaussInst.PhiinvK GaussFull.GaussFacts_inst). Qed.
Print Assumptions C17_middle_branch_x_bound_inst.

Theorem C17_wt_middle_branch_inst :
  forall x t : R,
  0 < t <= 1 -> t <= Rabs x ->
  / 4503599627370496 <= GaussInst.PhiK (t - Rabs x) - GaussInst.PhiK (- t - Rabs x) ->
  GaussInst.PhiK (t - Rabs x) - GaussInst.PhiK (- t - Rabs x) < @f1em5 R (RNum GaussInst.PhiK GaussInst.PhiinvK) ->
  Rabs (@wt R (RNum GaussInst.PhiK GaussInst.PhiinvK) x t
        - (((t - x) * phi (t - x) + (t + x) * phi (- t - x)) / (GaussInst.PhiK (t - x) - GaussInst.PhiK (- t - x))
           + (phi (- t - x) - phi (t - x)) / (GaussInst.PhiK (t - x) - GaussInst.PhiK (- t - x))
             * ((phi (- t - x) - phi (t - x)) / (GaussInst.PhiK (t - x) - GaussInst.PhiK (- t - x)))))
  <= 2 * t * Rabs x.
Proof. exact (C17_wt_middle_branch GaussInst.PhiK GaussInst.PhiinvK GaussFull.GaussFacts_inst). Qed.
Print Assumptions C17_wt_middle_branch_inst.

Theorem C17_wt_distance_sharp_inst :
  forall x t : R,
  0 < t <= 1 ->
  Rabs (@wt R (RNum GaussInst.PhiK GaussInst.PhiinvK) x t
        - (((t - x) * phi (t - x) + (t + x) * phi (- t - x)) / (GaussInst.PhiK (t - x) - GaussInst.PhiK (- t - x))
           + (phi (- t - x) - phi (t - x)) / (GaussInst.PhiK (t - x) - GaussInst.PhiK (- t - x))
             * ((phi (- t - x) - phi (t - x)) / (GaussInst.PhiK (t - x) - GaussInst.PhiK (- t - x)))))
  <= 2 * t * Rabs x + 8 * (t * t).
Proof. exact (C17_wt_distance_sharp GaussInst.PhiK GaussInst.PhiinvK GaussFull.GaussFacts_inst). Qed.
Print Assumptions C17_wt_distance_sharp_inst.

Theorem C17_wt_distance_inst :
  forall x t : R,
  0 < t <= / 100 ->
  Rabs (@wt R (RNum GaussInst.PhiK GaussInst.PhiinvK) x t
        - (((t - x) * phi (t - x) + (t + x) * phi (- t - x)) / (GaussInst.PhiK (t - x) - GaussInst.PhiK (- t - x))
           + (phi (- t - x) - phi (t - x)) / (GaussInst.PhiK (t - x) - GaussInst.PhiK (- t - x))
             * ((phi (- t - x) - phi (t - x)) / (GaussInst.PhiK (t - x) - GaussInst.PhiK (- t - x)))))
  <= 20 * t.
Proof. exact (C17_wt_distance GaussInst.PhiK GaussInst.PhiinvK GaussFull.GaussFacts_inst). Qed.
Print Assumptions C17_wt_distance_inst.


(** ** IEEE 754 binary64: range and sign of [v], [w], [wt] on the very doubles computed,
    WITHOUT any accuracy assumption on libm.

    The model instantiated on [FloatInst.B64Num exp64 erfc64 pow64 icdf64 : Num binary64]
    (Flocq's binary64, round-to-nearest-even [+ - * / sqrt], IEEE comparisons; the libm functions
    are arbitrary parameters).  [B2R 53 1024 x] is the real value of the double [x] (0 for an
    infinity or a NaN, hence every sign statement comes with a finiteness clause);
    [is_finite 53 1024 x = true]: neither infinity nor NaN; [is_nan 53 1024 x = false]: not a NaN.
    The only premises about libm are range / sign facts, written out in each statement:
      (E)  exp64 y >= 0 for finite y;
      (C)  erfc64 maps finite doubles to finite doubles in [0,2];
      (C1) erfc64 y >= 1 for finite y <= 0.
    Nothing is assumed about how close exp64 / erfc64 are to exp / erfc.

    [C17_wt_range_binary64] (NO premise on libm): [wt x t] is a NaN or a finite double in
    [0,1] - the final clamp [min(max(value, 0), 1)], with Python's [max(a,b)] = b iff a < b and
    [min(a,b)] = b iff b < a, maps every non-NaN double (the infinities too) into [0,1] and lets
    a NaN through; it is a NaN only if the unclamped value is; on the guard branch it is 1.0.
    [C17_cdf_guard_nonpos_binary64] (C, C1): [cdf z < epsilon] forces [z <= 0]: for z > 0 the
    argument fl(-z / fl(sqrt 2)) of erfc is a finite double <= 0 (rounding is monotone and 0 is a
    double; fl(sqrt 2) >= 1 so the quotient cannot overflow), hence erfc >= 1 and
    cdf = fl(0.5 * erfc) >= 0.5 > 2^-52.
    [C17_v_nonneg_binary64] (E, C, C1): [v x t >= 0] when finite: guard branch -(x - t) with
    x - t <= 0 by the previous fact; dividing branch pdf / cdf with pdf = fl(exp64(..) / fl(sqrt tau))
    >= 0 and cdf >= epsilon > 0.  Finiteness premises: x - t, the argument of exp (dividing branch
    only) and the result; the finiteness of cdf and pdf is derived.
    [C17_v_guard_branch_binary64] (C, C1): on the guard branch v is exactly -(x - t), finite, x - t <= 0.
    [C17_w_guard_branch_binary64] (no premise): on its guard branch w is exactly 1.0 or 0.0.
    [C17_w_nonneg_binary64_partial] (E, C, C1): w >= 0 GIVEN that v + (x - t), computed in
    doubles, is >= 0 on the dividing branch.  That hypothesis is the Mills-ratio inequality
    phi(y)/Phi(y) + y >= 0; for doubles it depends on the accuracy of exp64 / erfc64 and is NOT
    proved (hence [_partial]); likewise "w <= 1" and the finiteness of v, w ("finite values" of the
    property text) need bounds on exp64 from above and stay with the run-time monitors. *)
From Flocq Require Import IEEE754.BinarySingleNaN IEEE754.Binary IEEE754.Bits.
From OSV Require Import FloatInst.
From OSV.Lemmas Require FloatOrderL FloatRateL FloatGaussL.

Theorem C17_wt_range_binary64 :
  forall (exp64 erfc64 pow64 icdf64 : binary64 -> binary64) (x t : binary64),
  (is_nan 53 1024 (@wt binary64 (B64Num exp64 erfc64 pow64 icdf64) x t) = false ->
   is_finite 53 1024 (@wt binary64 (B64Num exp64 erfc64 pow64 icdf64) x t) = true
   /\ 0 <= B2R 53 1024 (@wt binary64 (B64Num exp64 erfc64 pow64 icdf64) x t) <= 1)
  /\ (@fltb binary64 (B64Num exp64 erfc64 pow64 icdf64)
        (@fsub binary64 (B64Num exp64 erfc64 pow64 icdf64)
           (@cdf binary64 (B64Num exp64 erfc64 pow64 icdf64)
              (@fsub binary64 (B64Num exp64 erfc64 pow64 icdf64) t (@fabs binary64 (B64Num exp64 erfc64 pow64 icdf64) x)))
           (@cdf binary64 (B64Num exp64 erfc64 pow64 icdf64)
              (@fsub binary64 (B64Num exp64 erfc64 pow64 icdf64)
                 (@fneg binary64 (B64Num exp64 erfc64 pow64 icdf64) t) (@fabs binary64 (B64Num exp64 erfc64 pow64 icdf64) x))))
        (@feps binary64 (B64Num exp64 erfc64 pow64 icdf64)) = true ->
      @wt binary64 (B64Num exp64 erfc64 pow64 icdf64) x t = @fone binary64 (B64Num exp64 erfc64 pow64 icdf64))
  /\ (is_nan 53 1024
        (@fadd binary64 (B64Num exp64 erfc64 pow64 icdf64)
           (@fdiv binary64 (B64Num exp64 erfc64 pow64 icdf64)
              (@fadd binary64 (B64Num exp64 erfc64 pow64 icdf64)
                 (@fmul binary64 (B64Num exp64 erfc64 pow64 icdf64)
                    (@fsub binary64 (B64Num exp64 erfc64 pow64 icdf64) t (@fabs binary64 (B64Num exp64 erfc64 pow64 icdf64) x))
                    (@pdf binary64 (B64Num exp64 erfc64 pow64 icdf64)
                       (@fsub binary64 (B64Num exp64 erfc64 pow64 icdf64) t (@fabs binary64 (B64Num exp64 erfc64 pow64 icdf64) x))))
                 (@fmul binary64 (B64Num exp64 erfc64 pow64 icdf64)
                    (@fadd binary64 (B64Num exp64 erfc64 pow64 icdf64) t (@fabs binary64 (B64Num exp64 erfc64 pow64 icdf64) x))
                    (@pdf binary64 (B64Num exp64 erfc64 pow64 icdf64)
                       (@fsub binary64 (B64Num exp64 erfc64 pow64 icdf64)
                          (@fneg binary64 (B64Num exp64 erfc64 pow64 icdf64) t)
                          (@fabs binary64 (B64Num exp64 erfc64 pow64 icdf64) x)))))
              (@fsub binary64 (B64Num exp64 erfc64 pow64 icdf64)
                 (@cdf binary64 (B64Num exp64 erfc64 pow64 icdf64)
                    (@fsub binary64 (B64Num exp64 erfc64 pow64 icdf64) t (@fabs binary64 (B64Num exp64 erfc64 pow64 icdf64) x)))
                 (@cdf binary64 (B64Num exp64 erfc64 pow64 icdf64)
                    (@fsub binary64 (B64Num exp64 erfc64 pow64 icdf64)
                       (@fneg binary64 (B64Num exp64 erfc64 pow64 icdf64) t)
                       (@fabs binary64 (B64Num exp64 erfc64 pow64 icdf64) x)))))
           (@fmul binary64 (B64Num exp64 erfc64 pow64 icdf64)
              (@vt binary64 (B64Num exp64 erfc64 pow64 icdf64) x t)
              (@vt binary64 (B64Num exp64 erfc64 pow64 icdf64) x t))) = false ->
      is_nan 53 1024 (@wt binary64 (B64Num exp64 erfc64 pow64 icdf64) x t) = false).
Proof. exact FloatGaussL.wt_facts_b64. Qed.
Print Assumptions C17_wt_range_binary64.

Theorem C17_cdf_guard_nonpos_binary64 :
  forall (exp64 erfc64 pow64 icdf64 : binary64 -> binary64),
  (forall y : binary64, is_finite 53 1024 y = true ->
     is_finite 53 1024 (erfc64 y) = true /\ 0 <= B2R 53 1024 (erfc64 y) <= 2) ->
  (forall y : binary64, is_finite 53 1024 y = true -> B2R 53 1024 y <= 0 -> 1 <= B2R 53 1024 (erfc64 y)) ->
  forall z : binary64,
  is_finite 53 1024 z = true ->
  @fltb binary64 (B64Num exp64 erfc64 pow64 icdf64)
    (@cdf binary64 (B64Num exp64 erfc64 pow64 icdf64) z) (@feps binary64 (B64Num exp64 erfc64 pow64 icdf64)) = true ->
  B2R 53 1024 z <= 0.
Proof. exact FloatGaussL.cdf_guard_nonpos_b64. Qed.
Print Assumptions C17_cdf_guard_nonpos_binary64.

Theorem C17_v_nonneg_binary64 :
  forall (exp64 erfc64 pow64 icdf64 : binary64 -> binary64),
  (forall y : binary64, is_finite 53 1024 y = true ->
     is_finite 53 1024 (erfc64 y) = true /\ 0 <= B2R 53 1024 (erfc64 y) <= 2) ->
  (forall y : binary64, is_finite 53 1024 y = true -> B2R 53 1024 y <= 0 -> 1 <= B2R 53 1024 (erfc64 y)) ->
  (forall y : binary64, is_finite 53 1024 y = true -> 0 <= B2R 53 1024 (exp64 y)) ->
  forall x t : binary64,
  is_finite 53 1024 (@fsub binary64 (B64Num exp64 erfc64 pow64 icdf64) x t) = true ->
  (@fltb binary64 (B64Num exp64 erfc64 pow64 icdf64)
     (@cdf binary64 (B64Num exp64 erfc64 pow64 icdf64) (@fsub binary64 (B64Num exp64 erfc64 pow64 icdf64) x t))
     (@feps binary64 (B64Num exp64 erfc64 pow64 icdf64)) = false ->
   is_finite 53 1024
     (@fdiv binary64 (B64Num exp64 erfc64 pow64 icdf64)
        (@fmul binary64 (B64Num exp64 erfc64 pow64 icdf64)
           (@fsub binary64 (B64Num exp64 erfc64 pow64 icdf64) x t)
           (@fsub binary64 (B64Num exp64 erfc64 pow64 icdf64) x t))
        (@fneg binary64 (B64Num exp64 erfc64 pow64 icdf64) (@ftwo binary64 (B64Num exp64 erfc64 pow64 icdf64)))) = true) ->
  is_finite 53 1024 (@v binary64 (B64Num exp64 erfc64 pow64 icdf64) x t) = true ->
  0 <= B2R 53 1024 (@v binary64 (B64Num exp64 erfc64 pow64 icdf64) x t).
Proof. exact FloatGaussL.v_nonneg_b64. Qed.
Print Assumptions C17_v_nonneg_binary64.

Theorem C17_v_guard_branch_binary64 :
  forall (exp64 erfc64 pow64 icdf64 : binary64 -> binary64),
  (forall y : binary64, is_finite 53 1024 y = true ->
     is_finite 53 1024 (erfc64 y) = true /\ 0 <= B2R 53 1024 (erfc64 y) <= 2) ->
  (forall y : binary64, is_finite 53 1024 y = true -> B2R 53 1024 y <= 0 -> 1 <= B2R 53 1024 (erfc64 y)) ->
  forall x t : binary64,
  is_finite 53 1024 (@fsub binary64 (B64Num exp64 erfc64 pow64 icdf64) x t) = true ->
  @fltb binary64 (B64Num exp64 erfc64 pow64 icdf64)
    (@cdf binary64 (B64Num exp64 erfc64 pow64 icdf64) (@fsub binary64 (B64Num exp64 erfc64 pow64 icdf64) x t))
    (@feps binary64 (B64Num exp64 erfc64 pow64 icdf64)) = true ->
  @v binary64 (B64Num exp64 erfc64 pow64 icdf64) x t
  = @fneg binary64 (B64Num exp64 erfc64 pow64 icdf64) (@fsub binary64 (B64Num exp64 erfc64 pow64 icdf64) x t)
  /\ B2R 53 1024 (@fsub binary64 (B64Num exp64 erfc64 pow64 icdf64) x t) <= 0
  /\ is_finite 53 1024 (@v binary64 (B64Num exp64 erfc64 pow64 icdf64) x t) = true.
Proof. exact FloatGaussL.v_guard_b64. Qed.
Print Assumptions C17_v_guard_branch_binary64.

Theorem C17_w_guard_branch_binary64 :
  forall (exp64 erfc64 pow64 icdf64 : binary64 -> binary64) (x t : binary64),
  @fltb binary64 (B64Num exp64 erfc64 pow64 icdf64)
    (@cdf binary64 (B64Num exp64 erfc64 pow64 icdf64) (@fsub binary64 (B64Num exp64 erfc64 pow64 icdf64) x t))
    (@feps binary64 (B64Num exp64 erfc64 pow64 icdf64)) = true ->
  @w binary64 (B64Num exp64 erfc64 pow64 icdf64) x t
  = (if @fltb binary64 (B64Num exp64 erfc64 pow64 icdf64) x (@fzero binary64 (B64Num exp64 erfc64 pow64 icdf64))
     then @fone binary64 (B64Num exp64 erfc64 pow64 icdf64) else @fzero binary64 (B64Num exp64 erfc64 pow64 icdf64))
  /\ (B2R 53 1024 (@w binary64 (B64Num exp64 erfc64 pow64 icdf64) x t) = 1
      \/ B2R 53 1024 (@w binary64 (B64Num exp64 erfc64 pow64 icdf64) x t) = 0).
Proof. exact FloatGaussL.w_guard_b64. Qed.
Print Assumptions C17_w_guard_branch_binary64.

(** PARTIAL: the second conjunct of the branch hypothesis, [0 <= v + (x - t)] in doubles, is the
    Mills-ratio fact; it needs the accuracy of libm and is assumed, not proved. *)
Theorem C17_w_nonneg_binary64_partial :
  forall (exp64 erfc64 pow64 icdf64 : binary64 -> binary64),
  (forall y : binary64, is_finite 53 1024 y = true ->
     is_finite 53 1024 (erfc64 y) = true /\ 0 <= B2R 53 1024 (erfc64 y) <= 2) ->
  (forall y : binary64, is_finite 53 1024 y = true -> B2R 53 1024 y <= 0 -> 1 <= B2R 53 1024 (erfc64 y)) ->
  (forall y : binary64, is_finite 53 1024 y = true -> 0 <= B2R 53 1024 (exp64 y)) ->
  forall x t : binary64,
  is_finite 53 1024 (@fsub binary64 (B64Num exp64 erfc64 pow64 icdf64) x t) = true ->
  (@fltb binary64 (B64Num exp64 erfc64 pow64 icdf64)
     (@cdf binary64 (B64Num exp64 erfc64 pow64 icdf64) (@fsub binary64 (B64Num exp64 erfc64 pow64 icdf64) x t))
     (@feps binary64 (B64Num exp64 erfc64 pow64 icdf64)) = false ->
   is_finite 53 1024
     (@fdiv binary64 (B64Num exp64 erfc64 pow64 icdf64)
        (@fmul binary64 (B64Num exp64 erfc64 pow64 icdf64)
           (@fsub binary64 (B64Num exp64 erfc64 pow64 icdf64) x t)
           (@fsub binary64 (B64Num exp64 erfc64 pow64 icdf64) x t))
        (@fneg binary64 (B64Num exp64 erfc64 pow64 icdf64) (@ftwo binary64 (B64Num exp64 erfc64 pow64 icdf64)))) = true
   /\ 0 <= B2R 53 1024
             (@fadd binary64 (B64Num exp64 erfc64 pow64 icdf64)
                (@v binary64 (B64Num exp64 erfc64 pow64 icdf64) x t)
                (@fsub binary64 (B64Num exp64 erfc64 pow64 icdf64) x t))) ->
  is_finite 53 1024 (@w binary64 (B64Num exp64 erfc64 pow64 icdf64) x t) = true ->
  0 <= B2R 53 1024 (@w binary64 (B64Num exp64 erfc64 pow64 icdf64) x t).
Proof. exact FloatGaussL.w_nonneg_partial_b64. Qed.
Print Assumptions C17_w_nonneg_binary64_partial.

(** Non-vacuity, on concrete doubles.  Stand-ins for libm that satisfy (E), (C), (C1):
    [exp64 := |x|], [erfc64 := FloatGaussL.step_erfc] (2.0 / 1.0 / 0.0 on negative / zero /
    positive arguments), [x ** 2 := x * x].
    wt, dividing branch: x = 0.25, t = 0.5 (the result is strictly inside (0,1));
    wt, guard branch: x = 5, t = 0.5 (cdf difference 0 < epsilon, result 1.0). *)
Example C17_wt_range_binary64_example :
  let N := B64Num b64_abs FloatGaussL.step_erfc (fun x => b64_mult mode_NE x x) (fun x => x) in
  (is_finite 53 1024 (@wt binary64 N (b64_of_dyadic 1 (-2)) (b64_of_dyadic 1 (-1))) = true
   /\ 0 <= B2R 53 1024 (@wt binary64 N (b64_of_dyadic 1 (-2)) (b64_of_dyadic 1 (-1))) <= 1)
  /\ andb (b64_ltb (b64_of_Z 0) (@wt binary64 N (b64_of_dyadic 1 (-2)) (b64_of_dyadic 1 (-1))))
          (b64_ltb (@wt binary64 N (b64_of_dyadic 1 (-2)) (b64_of_dyadic 1 (-1))) (b64_of_Z 1)) = true
  /\ @wt binary64 N (b64_of_Z 5) (b64_of_dyadic 1 (-1)) = @fone binary64 N.
Proof.
  intros N. split; [|split].
  - apply (C17_wt_range_binary64 b64_abs FloatGaussL.step_erfc (fun x => b64_mult mode_NE x x) (fun x => x)).
    vm_compute. reflexivity.
  - vm_compute. reflexivity.
  - apply (C17_wt_range_binary64 b64_abs FloatGaussL.step_erfc (fun x => b64_mult mode_NE x x) (fun x => x)).
    vm_compute. reflexivity.
Qed.

(** cdf guard: z = -1.5 passes the guard (cdf = 0 < epsilon) and is indeed <= 0 *)
Example C17_cdf_guard_nonpos_binary64_example :
  let N := B64Num b64_abs FloatGaussL.step_erfc (fun x => b64_mult mode_NE x x) (fun x => x) in
  B2R 53 1024 (b64_of_dyadic (-3) (-1)) <= 0.
Proof.
  intros N.
  apply (C17_cdf_guard_nonpos_binary64 b64_abs FloatGaussL.step_erfc (fun x => b64_mult mode_NE x x) (fun x => x)).
  - exact FloatGaussL.step_erfc_range.
  - exact FloatGaussL.step_erfc_ge1.
  - vm_compute. reflexivity.
  - vm_compute. reflexivity.
Qed.

(** v, dividing branch: x = 1, t = 0.5 (strictly positive result); guard branch: x = -1, t = 0.5
    (result exactly 1.5) *)
Example C17_v_nonneg_binary64_example :
  let N := B64Num b64_abs FloatGaussL.step_erfc (fun x => b64_mult mode_NE x x) (fun x => x) in
  0 <= B2R 53 1024 (@v binary64 N (b64_of_Z 1) (b64_of_dyadic 1 (-1)))
  /\ b64_ltb (b64_of_Z 0) (@v binary64 N (b64_of_Z 1) (b64_of_dyadic 1 (-1))) = true
  /\ 0 <= B2R 53 1024 (@v binary64 N (b64_of_Z (-1)) (b64_of_dyadic 1 (-1)))
  /\ (@v binary64 N (b64_of_Z (-1)) (b64_of_dyadic 1 (-1)) = b64_opp (b64_minus mode_NE (b64_of_Z (-1)) (b64_of_dyadic 1 (-1)))
      /\ B2R 53 1024 (b64_minus mode_NE (b64_of_Z (-1)) (b64_of_dyadic 1 (-1))) <= 0
      /\ is_finite 53 1024 (@v binary64 N (b64_of_Z (-1)) (b64_of_dyadic 1 (-1))) = true).
Proof.
  intros N. split; [|split; [|split]].
  - apply (C17_v_nonneg_binary64 b64_abs FloatGaussL.step_erfc (fun x => b64_mult mode_NE x x) (fun x => x)
             FloatGaussL.step_erfc_range FloatGaussL.step_erfc_ge1).
    + intros y _. apply FloatRateL.b64_abs_nonneg.
    + vm_compute. reflexivity.
    + intros _. vm_compute. reflexivity.
    + vm_compute. reflexivity.
  - vm_compute. reflexivity.
  - apply (C17_v_nonneg_binary64 b64_abs FloatGaussL.step_erfc (fun x => b64_mult mode_NE x x) (fun x => x)
             FloatGaussL.step_erfc_range FloatGaussL.step_erfc_ge1).
    + intros y _. apply FloatRateL.b64_abs_nonneg.
    + vm_compute. reflexivity.
    + intros _. vm_compute. reflexivity.
    + vm_compute. reflexivity.
  - apply (C17_v_guard_branch_binary64 b64_abs FloatGaussL.step_erfc (fun x => b64_mult mode_NE x x) (fun x => x)
             FloatGaussL.step_erfc_range FloatGaussL.step_erfc_ge1).
    + vm_compute. reflexivity.
    + vm_compute. reflexivity.
Qed.

(** w: guard branch at x = -1, t = 0.5 (w = 1.0); dividing branch at x = 1, t = 0.5, where the
    assumed fact 0 <= v + (x - t) holds (sign bit of the computed double) and w > 0 *)
Example C17_w_binary64_example :
  let N := B64Num b64_abs FloatGaussL.step_erfc (fun x => b64_mult mode_NE x x) (fun x => x) in
  B2R 53 1024 (@w binary64 N (b64_of_Z (-1)) (b64_of_dyadic 1 (-1))) = 1
  /\ 0 <= B2R 53 1024 (@w binary64 N (b64_of_Z 1) (b64_of_dyadic 1 (-1)))
  /\ b64_ltb (b64_of_Z 0) (@w binary64 N (b64_of_Z 1) (b64_of_dyadic 1 (-1))) = true.
Proof.
  intros N. split; [|split].
  - assert (G : @fltb binary64 N (@cdf binary64 N (@fsub binary64 N (b64_of_Z (-1)) (b64_of_dyadic 1 (-1))))
                  (@feps binary64 N) = true) by (vm_compute; reflexivity).
    destruct (C17_w_guard_branch_binary64 b64_abs FloatGaussL.step_erfc (fun x => b64_mult mode_NE x x) (fun x => x)
                (b64_of_Z (-1)) (b64_of_dyadic 1 (-1)) G) as (E & _).
    fold N in E. rewrite E.
    replace (@fltb binary64 N (b64_of_Z (-1)) (@fzero binary64 N)) with true by (vm_compute; reflexivity).
    exact FloatOrderL.b64_one_val.
  - apply (C17_w_nonneg_binary64_partial b64_abs FloatGaussL.step_erfc (fun x => b64_mult mode_NE x x) (fun x => x)
             FloatGaussL.step_erfc_range FloatGaussL.step_erfc_ge1).
    + intros y _. apply FloatRateL.b64_abs_nonneg.
    + vm_compute. reflexivity.
    + intros _. split; [vm_compute; reflexivity|].
      apply FloatOrderL.b64_sign_nonneg. vm_compute. reflexivity.
    + vm_compute. reflexivity.
  - vm_compute. reflexivity.
Qed.

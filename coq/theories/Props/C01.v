(** * C01: rate() computes the published Weng-Lin posterior for each of the five models.

    [Spec.wl_update Phi Phiinv k P tau limit teams keys] (theories/Spec.v, definitions only) is
    the closed form of Weng & Lin's Algorithms 1-4 with the documented extensions, written over
    the UNSORTED game with sums over the teams filtered by comparisons of the rank keys.
    [rate_core] is the algorithmic model of [rate] (tau inflation, stable sort by rank, dense
    ranks, the model's [_compute], unsort, limit_sigma clamp) that is tied to the Python code by
    the correspondence check.  The theorems say the two are EQUAL over the reals, for every
    number of teams, every team size, every weak order of ranks (ties), ranks omitted or given,
    every gamma callback, every tau and both settings of limit_sigma.

    The premises are the validity conditions of a call (>= 2 non-empty teams, beta > 0,
    0 < kappa <= 1, tau >= 0, sigma >= 0 with sigma^2 + tau^2 > 0, as many rank keys as teams,
    keys well formed: a key (m, e) denotes m / 2^e with e >= 0).  The equalities do not rest on
    them except for the shape of the keys (no division is ever cancelled; the only fact about
    division used is / (c * c) = / c * / c), they are listed because the property is about
    valid calls.

    The float clause of the property (1e-9 relative) is not a theorem; it is decided by the
    monitor that evaluates [spec.py] (the same formulas) next to the implementation. *)
From Coq Require Import List ZArith Bool Reals Lra Lia.
From OSV Require Import Num Order Gauss Core RInst Spec.
From OSV Require GaussInst.
From OSV.Lemmas Require C01L C01RefutedL.
Import ListNotations.
Open Scope R_scope.

(** Bradley-Terry, full pairing (Algorithm 1) *)
Theorem C01_BTF_refines : forall (Phi Phiinv : R -> R) (P : params R) (tau : R) (limit : bool)
    (teams : list (list (rating R))) (keys : option (list key)),
  0 < p_beta P -> 0 < p_kappa P <= 1 -> 0 <= tau ->
  (2 <= length teams)%nat -> Forall (fun t => t <> []) teams ->
  Forall (Forall (fun p : rating R => 0 <= r_sigma p /\ 0 < r_sigma p * r_sigma p + tau * tau)) teams ->
  match keys with
  | Some ks => length ks = length teams /\ Forall (fun k : key => (0 <= snd k)%Z) ks
  | None => True
  end ->
  @rate_core R (RNum Phi Phiinv) BTF P tau limit teams keys
  = Spec.wl_update Phi Phiinv BTF P tau limit teams keys.
Proof. intros; now apply C01L.C01_BTF_refines. Qed.
Print Assumptions C01_BTF_refines.

(** Thurstone-Mosteller, full pairing (Algorithm 2 / 3 with all pairs) *)
Theorem C01_TMF_refines : forall (Phi Phiinv : R -> R) (P : params R) (tau : R) (limit : bool)
    (teams : list (list (rating R))) (keys : option (list key)),
  0 < p_beta P -> 0 < p_kappa P <= 1 -> 0 <= tau ->
  (2 <= length teams)%nat -> Forall (fun t => t <> []) teams ->
  Forall (Forall (fun p : rating R => 0 <= r_sigma p /\ 0 < r_sigma p * r_sigma p + tau * tau)) teams ->
  match keys with
  | Some ks => length ks = length teams /\ Forall (fun k : key => (0 <= snd k)%Z) ks
  | None => True
  end ->
  @rate_core R (RNum Phi Phiinv) TMF P tau limit teams keys
  = Spec.wl_update Phi Phiinv TMF P tau limit teams keys.
Proof. intros; now apply C01L.C01_TMF_refines. Qed.
Print Assumptions C01_TMF_refines.

(** Plackett-Luce (Algorithm 4) *)
Theorem C01_PL_refines : forall (Phi Phiinv : R -> R) (P : params R) (tau : R) (limit : bool)
    (teams : list (list (rating R))) (keys : option (list key)),
  0 < p_beta P -> 0 < p_kappa P <= 1 -> 0 <= tau ->
  (2 <= length teams)%nat -> Forall (fun t => t <> []) teams ->
  Forall (Forall (fun p : rating R => 0 <= r_sigma p /\ 0 < r_sigma p * r_sigma p + tau * tau)) teams ->
  match keys with
  | Some ks => length ks = length teams /\ Forall (fun k : key => (0 <= snd k)%Z) ks
  | None => True
  end ->
  @rate_core R (RNum Phi Phiinv) PL P tau limit teams keys
  = Spec.wl_update Phi Phiinv PL P tau limit teams keys.
Proof. intros; now apply C01L.C01_PL_refines. Qed.
Print Assumptions C01_PL_refines.

(** Bradley-Terry, partial pairing: neighbours in the stable order by rank *)
Theorem C01_BTP_refines : forall (Phi Phiinv : R -> R) (P : params R) (tau : R) (limit : bool)
    (teams : list (list (rating R))) (keys : option (list key)),
  0 < p_beta P -> 0 < p_kappa P <= 1 -> 0 <= tau ->
  (2 <= length teams)%nat -> Forall (fun t => t <> []) teams ->
  Forall (Forall (fun p : rating R => 0 <= r_sigma p /\ 0 < r_sigma p * r_sigma p + tau * tau)) teams ->
  match keys with
  | Some ks => length ks = length teams /\ Forall (fun k : key => (0 <= snd k)%Z) ks
  | None => True
  end ->
  @rate_core R (RNum Phi Phiinv) BTP P tau limit teams keys
  = Spec.wl_update Phi Phiinv BTP P tau limit teams keys.
Proof. intros; now apply C01L.C01_BTP_refines. Qed.
Print Assumptions C01_BTP_refines.

(** Thurstone-Mosteller, partial pairing.  KNOWN FINDING K1: the code computes
    c_iq = 2 * sqrt(ss_i + ss_q + 2 beta^2); Algorithm 3 has c_iq = sqrt(ss_i + ss_q + 2 beta^2).
    [Spec.wl_update_f Phi Phiinv f] is the closed form with c_iq scaled by [f] in the TMP terms
    (all other kinds ignore [f]); [Spec.wl_update = Spec.wl_update_f 1] is the published one.
    What is proved is that [rate] is the closed form with the factor 2: every deviation of
    ThurstoneMostellerPart from Algorithm 3 is explained by that factor. The statement
    "[rate_core TMP] = [Spec.wl_update TMP]" (factor 1) is NOT claimed. *)
Theorem C01_TMP_refines_scaled : forall (Phi Phiinv : R -> R) (P : params R) (tau : R) (limit : bool)
    (teams : list (list (rating R))) (keys : option (list key)),
  0 < p_beta P -> 0 < p_kappa P <= 1 -> 0 <= tau ->
  (2 <= length teams)%nat -> Forall (fun t => t <> []) teams ->
  Forall (Forall (fun p : rating R => 0 <= r_sigma p /\ 0 < r_sigma p * r_sigma p + tau * tau)) teams ->
  match keys with
  | Some ks => length ks = length teams /\ Forall (fun k : key => (0 <= snd k)%Z) ks
  | None => True
  end ->
  @rate_core R (RNum Phi Phiinv) TMP P tau limit teams keys
  = Spec.wl_update_f Phi Phiinv 2 TMP P tau limit teams keys.
Proof. intros; now apply C01L.C01_TMP_refines_scaled. Qed.
Print Assumptions C01_TMP_refines_scaled.

(** the factor of [Spec.wl_update_f] is read by the Thurstone-Mosteller partial terms only *)
Theorem C01_factor_only_TMP : forall (Phi Phiinv : R -> R) (f : R) (k : kind) (P : params R) (tau : R)
    (limit : bool) (teams : list (list (rating R))) (keys : option (list key)),
  k <> TMP ->
  Spec.wl_update_f Phi Phiinv f k P tau limit teams keys = Spec.wl_update Phi Phiinv k P tau limit teams keys.
Proof. intros; now apply C01L.wl_update_f_factor. Qed.
Print Assumptions C01_factor_only_TMP.

(** "except where the model itself substitutes a documented asymptotic form": the V, W, V~, W~ of
    the closed form are the code's guarded functions; above the guards (Phi(x - t) >= 2^-52 for
    V and W; window mass >= 1e-5 for V~, >= 2^-52 for W~) they ARE the exact truncated-Gaussian
    quotients of the paper.  (The distance of the asymptotic forms below the guards is C17.) *)
Theorem C01_gauss_exact_branch : forall (Phi Phiinv : R -> R) (x t : R),
  (@feps R (RNum Phi Phiinv) <= Phi (x - t) ->
     @v R (RNum Phi Phiinv) x t = phi (x - t) / Phi (x - t) /\
     @w R (RNum Phi Phiinv) x t = phi (x - t) / Phi (x - t) * (phi (x - t) / Phi (x - t) + (x - t))) /\
  (let b := Phi (t - Rabs x) - Phi (- t - Rabs x) in
   (@f1em5 R (RNum Phi Phiinv) <= b ->
      @vt R (RNum Phi Phiinv) x t =
        (if Rlt_dec x 0 then - (phi (- t - Rabs x) - phi (t - Rabs x))
         else phi (- t - Rabs x) - phi (t - Rabs x)) / b) /\
   (@feps R (RNum Phi Phiinv) <= b ->
      @wt R (RNum Phi Phiinv) x t =
        Rmin (Rmax (((t - Rabs x) * phi (t - Rabs x) + (t + Rabs x) * phi (- t - Rabs x)) / b
                    + @vt R (RNum Phi Phiinv) x t * @vt R (RNum Phi Phiinv) x t) 0) 1)).
Proof. exact C01L.gauss_exact_branch. Qed.
Print Assumptions C01_gauss_exact_branch.

(** non-vacuity: a concrete call (three teams, one of two players, a tie between the first and
    the last team, keys given) satisfying all the premises above *)
Example C01_premises_satisfiable :
  let P : params R := mkParams (25 / 6) (1 / 10000) (fun c _ _ ss _ _ => sqrt ss / c) in
  let tau := 1 / 12 in
  let teams := [[mkRating 25 (25 / 3) 1 NmNone];
                [mkRating 30 (25 / 3) 2 NmNone; mkRating 20 5 3 NmNone];
                [mkRating 25 (25 / 3) 4 NmNone]] in
  let keys := Some [(2, 0); (1, 0); (2, 0)]%Z in
  0 < p_beta P /\ 0 < p_kappa P <= 1 /\ 0 <= tau /\
  (2 <= length teams)%nat /\ Forall (fun t => t <> []) teams /\
  Forall (Forall (fun p : rating R => 0 <= r_sigma p /\ 0 < r_sigma p * r_sigma p + tau * tau)) teams /\
  match keys with
  | Some ks => length ks = length teams /\ Forall (fun k : key => (0 <= snd k)%Z) ks
  | None => True
  end.
Proof.
  cbn. repeat split; try lra; try (repeat constructor; discriminate); try (repeat constructor; cbn; lia).
  repeat constructor; cbn; lra.
Qed.
Print Assumptions C01_premises_satisfiable.

(** ** K1 as a theorem: ThurstoneMostellerPart does NOT compute the published closed form.

    [C01_TMP_refines_scaled] says the code is the closed form with c_iq doubled; the three
    statements below say that this is a different function from the published one
    ([Spec.wl_update], factor 1) -- "C01 for TMP" is refuted by a witness, a valid call:
    two single-player teams, both players mu = 0, sigma = 1; beta = 1, kappa = 1/1000, the
    default gamma sqrt(ss)/c, tau = 0, limit_sigma off, ranks 0 < 1 (the first team wins).
    There c_iq = sqrt(1 + 1 + 2) = 2, x = 0, and the winner's posterior mu is
    (1/(2 f)) V(-1/(2000 f)), V = phi/Phi: 1/2 V(-1/2000) ~ 0.39910 as published (f = 1),
    1/4 V(-1/4000) ~ 0.19951 in the code (f = 2). *)

(** for every valid call: any difference between the factor-2 and the factor-1 closed forms is
    a difference between [rate] and the published update *)
Theorem C01_TMP_refuted_reduction : forall (Phi Phiinv : R -> R) (P : params R) (tau : R) (limit : bool)
    (teams : list (list (rating R))) (keys : option (list key)),
  0 < p_beta P -> 0 < p_kappa P <= 1 -> 0 <= tau ->
  (2 <= length teams)%nat -> Forall (fun t => t <> []) teams ->
  Forall (Forall (fun p : rating R => 0 <= r_sigma p /\ 0 < r_sigma p * r_sigma p + tau * tau)) teams ->
  match keys with
  | Some ks => length ks = length teams /\ Forall (fun k : key => (0 <= snd k)%Z) ks
  | None => True
  end ->
  Spec.wl_update_f Phi Phiinv 2 TMP P tau limit teams keys
    <> Spec.wl_update Phi Phiinv TMP P tau limit teams keys ->
  @rate_core R (RNum Phi Phiinv) TMP P tau limit teams keys
    <> Spec.wl_update Phi Phiinv TMP P tau limit teams keys.
Proof. intros; now apply C01RefutedL.TMP_refuted_reduction. Qed.
Print Assumptions C01_TMP_refuted_reduction.

(** the witness, for every distribution function satisfying [GaussFacts]: the call is valid,
    and the code gives the winner a strictly smaller posterior mu than Algorithm 3 (hence
    the two results differ) *)
Theorem C01_TMP_refuted_witness : forall (Phi Phiinv : R -> R), GaussFacts Phi Phiinv ->
  let P : params R := mkParams 1 (1 / 1000) (fun c _ _ ss _ _ => sqrt ss / c) in
  let tau := 0 in
  let teams := [[mkRating 0 1 0 NmNone]; [mkRating 0 1 1 NmNone]] in
  let keys := Some [(0, 0); (1, 0)]%Z in
  (0 < p_beta P /\ 0 < p_kappa P <= 1 /\ 0 <= tau /\
   (2 <= length teams)%nat /\ Forall (fun t => t <> []) teams /\
   Forall (Forall (fun p : rating R => 0 <= r_sigma p /\ 0 < r_sigma p * r_sigma p + tau * tau)) teams /\
   match keys with
   | Some ks => length ks = length teams /\ Forall (fun k : key => (0 <= snd k)%Z) ks
   | None => True
   end) /\
  r_mu (hd (mkRating 0 0 0 NmNone) (hd [] (@rate_core R (RNum Phi Phiinv) TMP P tau false teams keys)))
  < r_mu (hd (mkRating 0 0 0 NmNone) (hd [] (Spec.wl_update Phi Phiinv TMP P tau false teams keys))) /\
  @rate_core R (RNum Phi Phiinv) TMP P tau false teams keys
    <> Spec.wl_update Phi Phiinv TMP P tau false teams keys.
Proof. intros Phi Phiinv GF; exact (conj (C01RefutedL.witness_valid) (conj (C01RefutedL.TMP_witness_mu_lt Phi Phiinv GF) (C01RefutedL.TMP_witness_neq Phi Phiinv GF))). Qed.
Print Assumptions C01_TMP_refuted_witness.

(** the refutation with nothing left open: for the concrete standard normal distribution
    function [GaussInst.PhiK] (all of [GaussFacts] proved for it in GaussFull.v) there is a
    valid call on which [rate] with ThurstoneMostellerPart is not the published update *)
Theorem C01_TMP_refuted :
  exists (P : params R) (tau : R) (teams : list (list (rating R))) (keys : option (list key)),
    (0 < p_beta P /\ 0 < p_kappa P <= 1 /\ 0 <= tau /\
     (2 <= length teams)%nat /\ Forall (fun t => t <> []) teams /\
     Forall (Forall (fun p : rating R => 0 <= r_sigma p /\ 0 < r_sigma p * r_sigma p + tau * tau)) teams /\
     match keys with
     | Some ks => length ks = length teams /\ Forall (fun k : key => (0 <= snd k)%Z) ks
     | None => True
     end) /\
    @rate_core R (RNum GaussInst.PhiK GaussInst.PhiinvK) TMP P tau false teams keys
    <> Spec.wl_update GaussInst.PhiK GaussInst.PhiinvK TMP P tau false teams keys.
Proof. exact C01RefutedL.TMP_refuted. Qed.
Print Assumptions C01_TMP_refuted.
